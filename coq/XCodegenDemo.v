(* XCodegenDemo.v -- the call theorems of XCodegenCall.v are not vacuous: a concrete program with a non-empty
   procedure table for which every hypothesis is discharged, and what the theorem then says about its image.

   The program (X source; XConstProp.front only turns put(..) into the system call 1):
       val put = 1; var g;
       func fd(val k) is if k = 0 then return 7 else return fd(k - 1)
       proc cd(val n) is var t;
       { t := n + 48; put(t, 0); g := g + n; if n = 0 then skip else cd(n - 1) }
       proc main() is { g := 0; cd(3); g := fd(g) }
   Its image is laid out here as xcmp does (BR _start; DATA 199997; g; _start: LDAP _exit; BR main; _exit: ..; the
   procedures), from the model's LOWERED code (prologue ++ cs body ++ exit label ++ epilogue, before the
   peepholes -- the code the theorems speak of), by the assembler model AsmLayout.assemble_directives.  All
   hypotheses about the image are established by computation through the ISA's own decoder (XCodegenImage). *)
From Coq Require Import ZArith List String Bool Lia.
From HexVerif Require Import WMap Isa XAst XSem XSemProps XConstProp AsmModel AsmLayout AsmSpec AsmSpecProofs
     XCodegenIsa XCodegenInv XCodegenExpr XCodegenStmt XCodegenCall XCodegenImage XCodegenProgram.
Import ListNotations.
Local Open Scope string_scope.
Local Open Scope Z_scope.

Definition demo_src : program :=
  {| globals := [DVal "put" (ENum 1); DVar "g"];
     procs := [ {| is_func := true; pname := "fd"; formals := [FVal "k"]; locals := [];
                   body := SIf (EBin Eq (EVar "k") (ENum 0)) (SReturn (ENum 7))
                               (SReturn (ECall "fd" [EBin Minus (EVar "k") (ENum 1)])) |};
                {| is_func := false; pname := "cd"; formals := [FVal "n"]; locals := [DVar "t"];
                   body := SSeq [SAssign "t" (EBin Plus (EVar "n") (ENum 48));
                                 SCall "put" [EVar "t"; ENum 0];
                                 SAssign "g" (EBin Plus (EVar "g") (EVar "n"));
                                 SIf (EBin Eq (EVar "n") (ENum 0)) SSkip (SCall "cd" [EBin Minus (EVar "n") (ENum 1)])] |};
                {| is_func := false; pname := "main"; formals := []; locals := [];
                   body := SSeq [SAssign "g" (ENum 0); SCall "cd" [ENum 3]; SAssign "g" (ECall "fd" [EVar "g"])] |} ] |}.

Definition p_fd : proc :=
  {| is_func := true; pname := "fd"; formals := [FVal "k"]; locals := [];
     body := SIf (EBin Eq (EVar "k") (ENum 0)) (SReturn (ENum 7)) (SReturn (ECall "fd" [EBin Minus (EVar "k") (ENum 1)])) |}.
Definition p_cd : proc :=
  {| is_func := false; pname := "cd"; formals := [FVal "n"]; locals := [DVar "t"];
     body := SSeq [SAssign "t" (EBin Plus (EVar "n") (ENum 48)); SSys 1 [EVar "t"; ENum 0];
                   SAssign "g" (EBin Plus (EVar "g") (EVar "n"));
                   SIf (EBin Eq (EVar "n") (ENum 0)) SSkip (SCall "cd" [EBin Minus (EVar "n") (ENum 1)])] |}.
Definition p_main : proc :=
  {| is_func := false; pname := "main"; formals := []; locals := [];
     body := SSeq [SAssign "g" (ENum 0); SCall "cd" [ENum 3]; SAssign "g" (ECall "fd" [EVar "g"])] |}.
Definition demo : program := {| globals := [DVal "put" (ENum 1); DVar "g"]; procs := [p_fd; p_cd; p_main] |}.

(* the program the code generator reads *)
Lemma demo_front : front demo_src = COk demo.
Proof. vm_compute. reflexivity. Qed.
Lemma demo_spec : run_fuel 100 1000 10 demo [] =
  Behaviour {| outputs := [(0, 51); (0, 50); (0, 49); (0, 48)]; consumed := 0; exit_value := 0 |}.
Proof. vm_compute. reflexivity. Qed.

Definition demo_ge : genv := {| g_vals := [("put", 1)]; g_procs := [p_fd; p_cd; p_main]; g_maxdepth := 10 |}.
Definition demo_gaddr (x : string) : option Z := if String.eqb x "g" then Some 2 else None.
Definition demo_pool (v : Z) : option Z := None.
Definition demo_pinfo (x : string) : option pframe :=
  if String.eqb x "cd" then Some {| pf_entry := 100; pf_isfunc := false |}
  else if String.eqb x "main" then Some {| pf_entry := 101; pf_isfunc := false |}
  else if String.eqb x "fd" then Some {| pf_entry := 102; pf_isfunc := true |} else None.
Definition L_cd : playout := {| pl_size := 5; pl_nslots := 1; pl_og := 4; pl_exit := 0; pl_n0 := 1 |}.
Definition L_main : playout := {| pl_size := 3; pl_nslots := 0; pl_og := 3; pl_exit := 20; pl_n0 := 21 |}.
Definition L_fd : playout := {| pl_size := 3; pl_nslots := 0; pl_og := 3; pl_exit := 40; pl_n0 := 41 |}.
Definition body_code (p : proc) (L : playout) : option (list instr * label) :=
  cs demo_pinfo (frame_venv demo_gaddr p (pl_size L)) demo_pool (pl_size L) (pl_nslots L) (first_temp p) (pl_og L)
     (pl_exit L) (body p) (pl_n0 L).
Definition code_of (p : proc) (L : playout) : list instr :=
  match body_code p L with Some (bc, _) => pro (pl_size L) ++ bc ++ epi_of (is_func p) (pl_exit L) (pl_size L) | None => [] end.

(* the lowered procedures are the model's cproc_lowered up to the numbering of labels and the slot bound, and the
   optimised ones are what `xcmp -S` prints (tools/c01.py re-checks the lists below against the real xcmp) *)
(* X-SOURCE-BEGIN
val put = 1;
var g;
func fd(val k) is
  if k = 0 then return 7 else return fd(k - 1)
proc cd(val n) is
  var t;
{ t := n + 48;
  put(t, 0);
  g := g + n;
  if n = 0 then skip else cd(n - 1)
}
proc main() is
{ g := 0;
  cd(3);
  g := fd(g)
}
X-SOURCE-END *)
Example demo_cproc_cd : cproc demo_pinfo demo_gaddr demo_pool p_cd 5 4 = Some
  (* XCMP-LISTING cd *)
  [LDBM 1; STAI 0; LDAC (-5); ADD; STAM 1; LDAI 6; LDBC 48; ADD; LDBM 1; STAI 4; LDBM 1; STAI 2; LDAC 0; LDBM 1;
   STAI 3; LDAC 1; SVC; LDAM 1; LDAI 1; LDAM 2; LDBM 1; LDBI 6; ADD; STAM 2; LDAM 1; LDAI 6; BRZ 3; LDAC 0; BR 4;
   LABEL 3; LDAC 1; LABEL 4; BRZ 1; BR 2; LABEL 1; LDAM 1; LDAI 6; LDBC 1; SUB; LDBM 1; STAI 1; LDAP 5; BR 100;
   LABEL 5; LABEL 2; LABEL 0; LDBM 1; LDAC 5; ADD; STAM 1; LDBI 5; BRB].
Proof. vm_compute. reflexivity. Qed.
Example demo_cproc_main : cproc demo_pinfo demo_gaddr demo_pool p_main 3 3 = Some
  (* XCMP-LISTING main *)
  [LDBM 1; STAI 0; LDAC (-3); ADD; STAM 1; LDAC 0; STAM 2; LDAC 3; LDBM 1; STAI 1; LDAP 1; BR 100; LABEL 1; LDAM 2;
   LDBM 1; STAI 2; LDAP 2; BR 102; LABEL 2; LDAM 1; LDAI 1; STAM 2; LABEL 0; LDBM 1; LDAC 3; ADD; STAM 1; LDBI 3; BRB].
Proof. vm_compute. reflexivity. Qed.
Example demo_cproc_fd : cproc demo_pinfo demo_gaddr demo_pool p_fd 3 3 = Some
  (* XCMP-LISTING fd *)
  [LDBM 1; STAI 0; LDAC (-3); ADD; STAM 1; LDAI 5; BRZ 3; LDAC 0; BR 4; LABEL 3; LDAC 1; LABEL 4; BRZ 1; LDAC 7; BR 0;
   BR 2; LABEL 1; LDAM 1; LDAI 5; LDBC 1; SUB; LDBM 1; STAI 2; LDAP 5; BR 102; LABEL 5; LDAM 1; LDAI 1; BR 0; LABEL 2;
   LABEL 0; LDBM 1; STAI 4; LDAC 3; ADD; STAM 1; LDBI 3; BRB].
Proof. vm_compute. reflexivity. Qed.

(* ---- the image *)
Definition demo_dirs : list directive :=
  [DRef TBR "_start" true; DData 199997; DLabel LId "_g"; DData 0;
   DLabel LId "_start"; DRef TLDAP "_exit" true; DRef TBR (lname 101) true;
   DLabel LId "_exit"; DImm TLDBM 1; DImm TLDAC 0; DImm TSTAI 2; DOpr TSVC] ++
  [DLabel LFunc "fd"; DLabel LId (lname 102)] ++ map dir_of (code_of p_fd L_fd) ++
  [DLabel LProc "cd"; DLabel LId (lname 100)] ++ map dir_of (code_of p_cd L_cd) ++
  [DLabel LProc "main"; DLabel LId (lname 101)] ++ map dir_of (code_of p_main L_main).

Definition demo_bytes : list Z :=
  [155; 0; 0; 0; 61; 13; 3; 0; 0; 0; 0; 0; 82; 229; 155; 17; 48; 130; 211; 17; 128; 255; 61; 209; 33; 1; 101; 162; 48;
   145; 49; 163; 55; 157; 156; 1; 101; 65; 210; 17; 130; 82; 254; 151; 1; 97; 144; 17; 132; 51; 209; 33; 115; 208; 17;
   128; 255; 59; 209; 33; 1; 102; 227; 64; 209; 17; 132; 1; 100; 17; 130; 48; 17; 131; 49; 211; 1; 97; 2; 17; 118; 209;
   34; 1; 102; 162; 48; 145; 49; 161; 153; 1; 102; 65; 210; 17; 129; 82; 253; 146; 17; 53; 209; 33; 117; 208; 17; 128;
   255; 61; 209; 33; 48; 34; 51; 17; 129; 82; 251; 158; 2; 17; 130; 82; 249; 149; 1; 97; 34; 17; 51; 209; 33; 115; 208; 0].
Definition demo_labs : list (label * Z) :=
  [(0, 100); (1, 91); (2, 100); (3, 88); (4, 89); (5, 100); (20, 129); (21, 120); (22, 126); (40, 47); (41, 35);
   (42, 47); (43, 30); (44, 31); (45, 44); (100, 54); (101, 106); (102, 19)].
Definition demo_label_names : list label := [0; 1; 2; 3; 4; 5; 20; 21; 22; 40; 41; 42; 43; 44; 45; 100; 101; 102].
(* the assembler model lays the directives out as these bytes, with the labels there *)
Lemma demo_assembled : exists o, assemble_directives demo_dirs [] = Ok o /\ ao_image o = demo_bytes /\
  map (fun l => (l, lab_of (ao_layout o) l)) demo_label_names = demo_labs.
Proof. vm_compute. eexists. split; [reflexivity|]. split; reflexivity. Qed.

Fixpoint lookup (l : label) (t : list (label * Z)) : Z :=
  match t with [] => -1 | (k, v) :: r => if k =? l then v else lookup l r end.
Definition demo_lab (l : label) : Z := lookup l demo_labs.
Definition demo_m0 : WMap.t := mem_of demo_bytes.
Definition demo_img : WMap.t := bytes_map demo_bytes.
Definition demo_P (a : Z) : Prop := 3 <= a < 34.      (* the code words *)
Definition demo_stack_lo : Z := 1000.
Definition demo_maxframe : Z := 5.

(* the image, run by the ISA from reset, shows the behaviour of the spec *)
Lemma demo_image_runs : exists s, Isa.run 600 (boot (words_of_bytes demo_bytes)) {| console := []; files := fun _ => [] |} [] =
  ([Write 51 0; Write 50 0; Write 49 0; Write 48 0; Exit 0], {| console := []; files := fun _ => [] |}, s, Exited 0).
Proof. vm_compute. eexists. reflexivity. Qed.

(* ---- the hypotheses of XCodegenCall.Prog *)
Lemma demo_holds lo n : bytes_ok demo_m0 demo_img lo n = true -> 0 <= lo -> 12 <= lo -> lo + Z.of_nat n <= 136 ->
  forall m, C demo_P demo_m0 m -> holds m demo_img lo (lo + Z.of_nat n).
Proof.
  intros Hb H0 Hlo Hhi. apply bytes_ok_holds; [exact Hb | exact H0|].
  intros p Hp. unfold demo_P. split; [apply Z.div_le_lower_bound; lia | apply Z.div_lt_upper_bound; lia].
Qed.

Lemma demo_code_fd : exists bc n', body_code p_fd L_fd = Some (bc, n') /\
  code_at (C demo_P demo_m0) demo_lab 19 (pro 3 ++ bc ++ epif 40 3) 54.
Proof.
  eexists. eexists. split; [vm_compute; reflexivity|].
  apply (code_chk_sound (C demo_P demo_m0) _ demo_lab demo_img 19 54); [vm_compute; reflexivity | lia | unfold W; lia|].
  change 54 with (19 + Z.of_nat 35). apply demo_holds; [vm_compute; reflexivity | lia | lia | cbn; lia].
Qed.
Lemma demo_code_cd : exists bc n', body_code p_cd L_cd = Some (bc, n') /\
  code_at (C demo_P demo_m0) demo_lab 54 (pro 5 ++ bc ++ epi 0 5) 106.
Proof.
  eexists. eexists. split; [vm_compute; reflexivity|].
  apply (code_chk_sound (C demo_P demo_m0) _ demo_lab demo_img 54 106); [vm_compute; reflexivity | lia | unfold W; lia|].
  change 106 with (54 + Z.of_nat 52). apply demo_holds; [vm_compute; reflexivity | lia | lia | cbn; lia].
Qed.
Lemma demo_code_main : exists bc n', body_code p_main L_main = Some (bc, n') /\
  code_at (C demo_P demo_m0) demo_lab 106 (pro 3 ++ bc ++ epi 20 3) 135.
Proof.
  eexists. eexists. split; [vm_compute; reflexivity|].
  apply (code_chk_sound (C demo_P demo_m0) _ demo_lab demo_img 106 135); [vm_compute; reflexivity | lia | unfold W; lia|].
  change 135 with (106 + Z.of_nat 29). apply demo_holds; [vm_compute; reflexivity | lia | lia | cbn; lia].
Qed.

Lemma demo_simple_cd : simple_proc demo_gaddr p_cd ["n"] ["t"].
Proof.
  split; [reflexivity|]. split; [reflexivity|]. split.
  - constructor; [intros [H|[]]; discriminate H|]. constructor; [intros []|constructor].
  - intros x [<-|[<-|[]]]; reflexivity.
Qed.
Lemma demo_simple_main : simple_proc demo_gaddr p_main [] [].
Proof. split; [reflexivity|]. split; [reflexivity|]. split; [constructor|]. intros x []. Qed.
Lemma demo_simple_fd : simple_proc demo_gaddr p_fd ["k"] [].
Proof.
  split; [reflexivity|]. split; [reflexivity|]. split; [constructor; [intros []|constructor]|].
  intros x [<-|[]]; reflexivity.
Qed.

(* every hypothesis of the call theorems holds for the demo *)
Lemma demo_hyps : prog_hyps demo_ge demo_gaddr demo_pool demo_P demo_m0 demo_lab demo_pinfo demo_stack_lo demo_maxframe.
Proof.
  unfold prog_hyps. split; [|split; [|split; [|split; [|split; [|split; [|split]]]]]].
  - intros p pi Hp. unfold demo_pinfo in Hp.
    destruct (String.eqb p "cd") eqn:E1; [|destruct (String.eqb p "main") eqn:E2; [|destruct (String.eqb p "fd") eqn:E3; [|discriminate]]].
    + apply String.eqb_eq in E1. subst p. inversion Hp; subst pi. cbn [pf_isfunc pf_entry].
      split; [vm_compute; discriminate|].
      destruct demo_code_cd as (bc & n' & Hb & Hc).
      exists p_cd, ["n"], ["t"], L_cd, bc, n', 106. split; [reflexivity|]. split; [reflexivity|].
      split; [exact demo_simple_cd|]. split; [vm_compute; repeat split; discriminate|]. split; [exact Hb|]. split; [exact Hc | reflexivity].
    + apply String.eqb_eq in E2. subst p. inversion Hp; subst pi. cbn [pf_isfunc pf_entry].
      split; [vm_compute; discriminate|].
      destruct demo_code_main as (bc & n' & Hb & Hc).
      exists p_main, [], [], L_main, bc, n', 135. split; [reflexivity|]. split; [reflexivity|].
      split; [exact demo_simple_main|]. split; [vm_compute; repeat split; discriminate|]. split; [exact Hb|]. split; [exact Hc | reflexivity].
    + apply String.eqb_eq in E3. subst p. inversion Hp; subst pi. cbn [pf_isfunc pf_entry].
      split; [vm_compute; discriminate|].
      destruct demo_code_fd as (bc & n' & Hb & Hc).
      exists p_fd, ["k"], [], L_fd, bc, n', 54. split; [reflexivity|]. split; [reflexivity|].
      split; [exact demo_simple_fd|]. split; [vm_compute; repeat split; discriminate|]. split; [exact Hb|]. split; [exact Hc | reflexivity].
  - intros x a Hx. unfold demo_gaddr in Hx. destruct (String.eqb x "g") eqn:E; [|discriminate].
    apply String.eqb_eq in E. subst x. inversion Hx; subst a. unfold demo_P, demo_stack_lo.
    split; [reflexivity|]. split; [lia|]. split; [lia|]. split; [lia | reflexivity].
  - intros x y a b Hx Hy Hne. unfold demo_gaddr in Hx, Hy.
    destruct (String.eqb x "g") eqn:E1; [|discriminate]. destruct (String.eqb y "g") eqn:E2; [|discriminate].
    apply String.eqb_eq in E1. apply String.eqb_eq in E2. congruence.
  - unfold demo_stack_lo, demo_P. split; [lia|]. intros a Ha. lia.
  - unfold demo_P. lia.
  - intros v a H. discriminate H.
  - intros p pi Hp. unfold demo_pinfo in Hp.
    destruct (String.eqb p "cd") eqn:E1; [|destruct (String.eqb p "main") eqn:E2; [|destruct (String.eqb p "fd") eqn:E3; [|discriminate]]].
    + apply String.eqb_eq in E1. subst p. reflexivity.
    + apply String.eqb_eq in E2. subst p. reflexivity.
    + apply String.eqb_eq in E3. subst p. reflexivity.
  - unfold demo_maxframe. lia.
Qed.

(* ---- what the theorems say about the image: main's body, run from main's frame *)
Definition demo_sp : Z := 199994.        (* main's frame: the initial stack pointer 199997 less main's 3 words *)
Definition demo_st0 : state :=
  {| gvars := [("g", Vundef)]; garrs := []; out_rev := []; input := []; ncons := 0%nat; budget := 1000; cur := eff0;
     stk := [{| f_vars := []; f_vals := []; f_depth := 1 |}; {| f_vars := []; f_vals := []; f_depth := 0 |}] |}.
Definition demo_m : WMap.t := wr demo_m0 1 demo_sp.

Lemma demo_frame_main : frame_ok demo_gaddr demo_stack_lo demo_maxframe p_main [] [] L_main demo_sp.
Proof.
  split; [exact demo_simple_main|]. split; [vm_compute; repeat split; discriminate|].
  unfold demo_stack_lo, demo_sp, MEMW. cbn. lia.
Qed.

Lemma demo_rel : Rel demo_pinfo (Dq_of demo_ge demo_stack_lo demo_maxframe demo_sp) (frame_venv demo_gaddr p_main 3)
                     demo_ge demo_P demo_m0 demo_sp demo_st0 demo_m.
Proof.
  split; [|split; [|split; [|split]]].
  - apply Cm_wr; [intros a _ _; reflexivity | lia | unfold demo_P; lia].
  - apply rd_wr_same.
  - split.
    + intros x a Hx. unfold frame_venv in Hx. cbn in Hx. unfold demo_gaddr in Hx.
      destruct (String.eqb x "g") eqn:E; [|discriminate]. apply String.eqb_eq in E. subst x. inversion Hx; subst a.
      split; [reflexivity|]. split; [reflexivity|]. split; [reflexivity|]. exists Vundef. split; [reflexivity | left; reflexivity].
    + intros x k Hx. unfold frame_venv in Hx. cbn in Hx. unfold demo_gaddr in Hx.
      destruct (String.eqb x "g"); discriminate.
  - split; [discriminate|]. intros p pi _. reflexivity.
  - unfold Dq_of, demo_stack_lo, demo_maxframe, demo_sp. cbn. lia.
Qed.

(* main's body sits at bytes [112, 129) of the image *)
Lemma demo_body_main : exists bc n', body_code p_main L_main = Some (bc, n') /\ code_at (C demo_P demo_m0) demo_lab 112 bc 129.
Proof.
  eexists. eexists. split; [vm_compute; reflexivity|].
  apply (code_chk_sound (C demo_P demo_m0) _ demo_lab demo_img 112 129); [vm_compute; reflexivity | lia | unfold W; lia|].
  change 129 with (112 + Z.of_nat 17). apply demo_holds; [vm_compute; reflexivity | lia | lia | cbn; lia].
Qed.

(* The theorem applied: from main's frame (stack pointer word = 199994, g not yet assigned), the ISA runs the code
   of main's body `g := 0; cd(3); g := fd(g)` -- four activations of the procedure cd, each with prologue, output,
   recursive call and epilogue, then seven activations of the function fd, each returning its result through the
   caller's outgoing word -- to the end of that code, emitting exactly the bytes "3210" on stream 0; the stack
   pointer word is 199994 again and g's word holds 7 (= fd(6)). *)
Theorem demo_main_body_runs : forall a b inp, exists a' b' m',
  runs inp (mk 112 a b 0 demo_m) [Write 51 0; Write 50 0; Write 49 0; Write 48 0] inp (mk 129 a' b' 0 m') /\
  rd m' 1 = 199994 /\ rd m' 2 = 7.
Proof.
  intros a b inp.
  destruct demo_hyps as (H1 & H2 & H3 & H4 & H5 & H6 & H7 & H8).
  pose proof (stmt_calls_closed demo_ge demo_gaddr demo_pool demo_P demo_m0 demo_lab demo_pinfo demo_stack_lo
                demo_maxframe H1 H2 H3 H4 H5 H6 H7 H8 100%nat p_main [] [] L_main demo_sp demo_frame_main) as Hok.
  destruct demo_body_main as (bc & n' & Hb & Hc).
  assert (He : exists st', exec 100 demo_ge (body p_main) demo_st0 = Ret Normal st' /\
                           out_rev st' = [(0, 48); (0, 49); (0, 50); (0, 51)] /\ assoc "g" (gvars st') = Some (Vint 7)).
  { vm_compute. eexists. split; [reflexivity|]. split; reflexivity. }
  destruct He as (st' & He & Hout & Hg).
  assert (Hx : 0 <= demo_lab (pl_exit L_main) < W) by (vm_compute; split; [discriminate | reflexivity]).
  destruct (stmt_normal demo_pinfo (Fr_of demo_stack_lo demo_sp) (Dq_of demo_ge demo_stack_lo demo_maxframe demo_sp)
              (frame_venv demo_gaddr p_main (pl_size L_main)) demo_pool (pl_size L_main) (pl_nslots L_main)
              (first_temp p_main) (pl_og L_main) (pl_exit L_main) demo_ge demo_P demo_m0 demo_lab demo_sp 100%nat Hok
              (body p_main) (pl_n0 L_main) bc n' demo_st0 st' Hb He demo_m 112 129 a b inp
              demo_rel Hc ltac:(lia) ltac:(unfold W; lia) Hx)
    as (outs & a' & b' & m' & R & HR' & Hpost & _).
  exists a', b', m'.
  destruct Hpost as (P1 & _). rewrite Hout in P1. cbn [out_rev demo_st0] in P1. rewrite app_nil_r in P1.
  assert (Houts : outs = [(0, 51); (0, 50); (0, 49); (0, 48)]).
  { rewrite <- (rev_involutive outs), <- P1. reflexivity. }
  subst outs. split; [exact R|].
  destruct HR' as (_ & S1 & (HVg & _) & _). split; [exact S1|].
  destruct (HVg "g" 2 eq_refl) as (_ & _ & _ & v & Hv & Hval). rewrite Hg in Hv. inversion Hv; subst v.
  destruct Hval as [Hu|(z & Hz & _ & Hw)]; [discriminate|]. inversion Hz; subst z. rewrite Hw. reflexivity.
Qed.

(* ---------------------------------------------------------------- the demo through model_compile (XCodegenProgram.v) *)
Definition demo_frames (x : string) : option (Z * Z * Z) :=      (* size, usable slots, outgoing words: xcmp's numbers *)
  if String.eqb x "cd" then Some (5, 1, 4) else if String.eqb x "main" then Some (3, 0, 3)
  else if String.eqb x "fd" then Some (3, 0, 3) else None.

(* opt = true: the image with the peephole pass; tools/c01.py re-checks this list against the words of the binary the
   real xcmp writes for the X source above *)
Example demo_model_image_opt : model_compile demo_frames true demo = Some
  (* XCMP-IMAGE *)
  [159; 199997; 0; 0; 295167314; 299074096; 3510501248; 815949089; 933441937; 1694604445; 2182206017; 26803794;
   2215743585; 1931596083; 4286583248; 1713492283; 298926307; 813830532; 3543237393; 285368577; 19059062; 2435883622;
   26845489; 298991974; 2516406913; 567358737; 2148651125; 567361023; 288563760; 2449232513; 1384255746; 1627494905;
   3509784866; 13660961].
Proof. vm_compute. reflexivity. Qed.

(* opt = false: the validated image of the lowered code, the one program_correct speaks of *)
Definition demo_image : list Z :=
  [159; 199997; 0; 0; 295429458; 299074096; 3510501248; 2724528417; 2737934640; 27041079; 298991973; 2550026882;
   294674689; 567358340; 2148651123; 567360511; 1088644609; 25432529; 813830500; 3543237393; 285368577; 19059062;
   2435883622; 26845489; 298991974; 2466075265; 567358737; 2148651125; 567361023; 288563760; 2667270785; 1384255746;
   1627493881; 3509784866; 13660961].
Lemma demo_model_image : model_compile demo_frames false demo = Some demo_image.
Proof. vm_compute. reflexivity. Qed.

(* the end-to-end theorem applied to the demo: its image shows the spec's behaviour -- from program_correct, not by
   running the ISA *)
Theorem demo_end_to_end : exists n,
  isa_shows demo_image [] n {| outputs := [(0, 51); (0, 50); (0, 49); (0, 48)]; consumed := 0; exit_value := 0 |}.
Proof.
  apply (program_correct demo_frames demo [] _ demo_image); [|exact demo_model_image].
  apply (run_of_smaller_fuel 100); [unfold default_fuel; apply Nat2Z.inj_le; rewrite Z2Nat.id; lia|].
  vm_compute. reflexivity.
Qed.
