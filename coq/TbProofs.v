(* TbProofs.v -- proofs about TbModel.v (hextb.cpp's loop over the generated RTL): the reset window puts every
   power-on state into the canonical boot state (C13), the loop after reset is the ISA run with the system-call
   events emitted one clock phase early, runs do not depend on the power-on state, and hextb equals hexsim (C06). *)
From Coq Require Import ZArith Lia Bool List String.
From HexVerif Require Import WMap Isa Vexp RtlSem RefRtl RtlC03 RtlIsa RtlRun.
From HexVerif Require IsaMon IsaMonProofs SimModel SimProofs.
From HexVerif.gen Require RtlHex.
From HexVerif Require Import TbModel.
Import ListNotations.
Local Open Scope Z_scope.

Notation d := RtlHex.design.

(* ------------------------------------------------------------------ the clocked blocks *)
Lemma state_of_nil s : state_of s [] [] = s.
Proof. destruct s. reflexivity. Qed.

Lemma edge_off rst mrst s : edge d false false rst mrst s = s.
Proof. unfold edge. apply state_of_nil. Qed.

Lemma edge_run s : edge d true true 0 0 s = cycle d s.
Proof. reflexivity. Qed.

(* with i_rst = 1: no store whichever block is triggered; the registers are cleared iff the processor block is *)
Lemma edge_reset_mem tp tm s : r_mem (edge d tp tm 1 1 s) = r_mem s.
Proof.
  unfold edge, state_of. cbn [r_mem]. destruct tm; [apply rtl_no_write_in_reset | reflexivity].
Qed.
Lemma edge_reset_regs tm s : let s' := edge d true tm 1 1 s in r_pc s' = 0 /\ r_areg s' = 0 /\ r_breg s' = 0 /\ r_oreg s' = 0.
Proof. exact (rtl_reset_clears s xv0). Qed.

Definition regs_clear (s : rstate) : Prop := r_pc s = 0 /\ r_areg s = 0 /\ r_breg s = 0 /\ r_oreg s = 0.
Lemma clear_is_reset s : regs_clear s -> s = reset_state (r_mem s).
Proof. destruct s. unfold regs_clear, reset_state. cbn. intros (-> & -> & -> & ->). reflexivity. Qed.

(* ------------------------------------------------------------------ the testbench states of the two phases *)
Definition rst_state (j : Z) (clkb : bool) (c : Z) (s : rstate) : tb :=
  {| t_s := s; t_h := {| hp_clk := clkb; hp_rst := true; hm_clk := clkb; hm_rst := true |};
     t_clk := clkb; t_rst := true; t_time := j; t_cycles := c; t_exit := 0 |}.
Definition run_state (j : Z) (clkb : bool) (c e : Z) (s : rstate) : tb :=
  {| t_s := s; t_h := {| hp_clk := clkb; hp_rst := false; hm_clk := clkb; hm_rst := false |};
     t_clk := clkb; t_rst := false; t_time := j; t_cycles := c; t_exit := e |}.

Lemma tick_power_on i file :
  exists tp tm, tick Current d (power_on Current i file) = rst_state 1 true 1 (edge d tp tm 1 1 (t_s (power_on Current i file))).
Proof. eexists _, _. reflexivity. Qed.

Lemma tick_rst_down j c s : tick Current d (rst_state j true c s) = rst_state (j + 1) false c s.
Proof. unfold tick, rst_state, veval. cbn [t_time t_clk t_rst t_h t_s negb andb orb hp_clk hp_rst hm_clk hm_rst t_cycles t_exit]. rewrite edge_off. reflexivity. Qed.

Lemma tick_rst_up j c s : 0 <= j -> j + 1 < 10 ->
  tick Current d (rst_state j false c s) = rst_state (j + 1) true (c + 1) (edge d true true 1 1 s).
Proof.
  intros H0 H1. unfold tick, rst_state, veval.
  cbn [t_time t_clk t_rst t_h t_s negb andb orb hp_clk hp_rst hm_clk hm_rst t_cycles t_exit Current reset_begin reset_end legacy_mem_write].
  replace (0 <? j + 1) with true by (symmetry; apply Z.ltb_lt; lia).
  replace (j + 1 <? 10) with true by (symmetry; apply Z.ltb_lt; lia). reflexivity.
Qed.

Lemma tick_release c s : tick Current d (rst_state 10 false c s) = run_state 11 true (c + 1) 0 (cycle d s).
Proof. reflexivity. Qed.

Lemma tick_run_down j c e s : tick Current d (run_state j true c e s) = run_state (j + 1) false c e s.
Proof. unfold tick, run_state, veval. cbn [t_time t_clk t_rst t_h t_s negb andb orb hp_clk hp_rst hm_clk hm_rst t_cycles t_exit]. rewrite edge_off. reflexivity. Qed.

Lemma tick_run_up j c e s : 10 <= j ->
  tick Current d (run_state j false c e s) = run_state (j + 1) true (c + 1) e (cycle d s).
Proof.
  intros H. unfold tick, run_state, veval.
  cbn [t_time t_clk t_rst t_h t_s negb andb orb hp_clk hp_rst hm_clk hm_rst t_cycles t_exit Current reset_begin reset_end legacy_mem_write].
  replace (j + 1 <? 10) with false by (symmetry; apply Z.ltb_ge; lia). rewrite andb_false_r. reflexivity.
Qed.

(* ------------------------------------------------------------------ C13: the ten evaluations of times 1..10 *)
Theorem boot_state i file :
  ticks Current d 10 (power_on Current i file) = rst_state 10 false 5 (reset_state (r_mem (t_s (power_on Current i file)))).
Proof.
  destruct (tick_power_on i file) as (tp & tm & T1).
  set (s0 := t_s (power_on Current i file)) in *.
  cbn [ticks]. rewrite T1.
  rewrite tick_rst_down. change (1 + 1) with 2. rewrite tick_rst_up by lia. change (2 + 1) with 3. change (1 + 1) with 2.
  rewrite tick_rst_down. change (3 + 1) with 4. rewrite tick_rst_up by lia. change (4 + 1) with 5. change (2 + 1) with 3.
  rewrite tick_rst_down. change (5 + 1) with 6. rewrite tick_rst_up by lia. change (6 + 1) with 7. change (3 + 1) with 4.
  rewrite tick_rst_down. change (7 + 1) with 8. rewrite tick_rst_up by lia. change (8 + 1) with 9. change (4 + 1) with 5.
  rewrite tick_rst_down. change (9 + 1) with 10.
  f_equal. set (sf := edge d true true 1 1 _).
  assert (Hm : r_mem sf = r_mem s0) by (unfold sf; rewrite !edge_reset_mem; reflexivity).
  rewrite <- Hm. apply clear_is_reset. unfold sf. apply edge_reset_regs.
Qed.

(* ------------------------------------------------------------------ the loop outside the reset window *)
Lemma guard0 st : guard 0 st = true.
Proof. reflexivity. Qed.

Lemma sys_request_low j c e s : sys_request Current d (run_state j false c e s) = false.
Proof. reflexivity. Qed.

Lemma out_valid s : Inv s -> out_at d false s "o_syscall_valid" = ref_syscall_valid s.
Proof. intros [W _]. unfold out_at. change (map (evalp (cycle_env d (bz false) xv0 s)) (outputs d)) with (outs d s). rewrite (rtl_outs_are_ref s W). reflexivity. Qed.
Lemma out_call s : Inv s -> out_at d false s "o_syscall" = ref_syscall s.
Proof. intros [W _]. unfold out_at. change (map (evalp (cycle_env d (bz false) xv0 s)) (outputs d)) with (outs d s). rewrite (rtl_outs_are_ref s W). reflexivity. Qed.

Lemma sys_request_high j c e s : Inv s -> 11 <= j ->
  sys_request Current d (run_state j true c e s) = negb (ref_syscall_valid s =? 0).
Proof.
  intros I H. unfold sys_request, gate. cbn [run_state t_clk t_time t_rst t_s Current gate_from andb].
  replace (9 <=? j) with true by (symmetry; apply Z.leb_le; lia). rewrite (out_valid s I). reflexivity.
Qed.

Lemma out_valid_rst s : Inv s -> out_at d true s "o_syscall_valid" = ref_syscall_valid s.
Proof. intros [W _]. unfold out_at. change (bz true) with 1. change xv0 with (fun _ : nat => 0). rewrite (rtl_outs_in_reset s W). reflexivity. Qed.
Lemma out_call_rst s : Inv s -> out_at d true s "o_syscall" = ref_syscall s.
Proof. intros [W _]. unfold out_at. change (bz true) with 1. change xv0 with (fun _ : nat => 0). rewrite (rtl_outs_in_reset s W). reflexivity. Qed.

Lemma sys_request_last_reset c s : Inv s ->
  sys_request Current d (rst_state 9 true c s) = negb (ref_syscall_valid s =? 0).
Proof. intros I. unfold sys_request, gate. cbn [rst_state t_clk t_time t_rst t_s Current gate_from andb Z.leb Z.compare Pos.compare Pos.compare_cont]. rewrite (out_valid_rst s I). reflexivity. Qed.

Lemma run_0 st inp evs : run Current d 0 0 st inp evs = (rev evs, inp, st, TNoFuel).
Proof. reflexivity. Qed.
Lemma run_1_high j c e s inp evs : run Current d 1 0 (run_state j true c e s) inp evs = (rev evs, inp, run_state (j + 1) false c e s, TNoFuel).
Proof. cbn [run]. rewrite guard0. cbn [negb]. rewrite tick_run_down. unfold after_tick. rewrite sys_request_low. reflexivity. Qed.
Lemma run_2_high k j c e s inp evs : 11 <= j ->
  run Current d (S (S k)) 0 (run_state j true c e s) inp evs =
  after_tick Current d (run_state (j + 1 + 1) true (c + 1) e (cycle d s)) inp evs (run Current d k 0).
Proof.
  intros H. cbn [run]. rewrite !guard0. cbn [negb]. rewrite tick_run_down. unfold after_tick at 1. rewrite sys_request_low.
  rewrite guard0. cbn [negb]. rewrite tick_run_up by lia. reflexivity.
Qed.

(* ------------------------------------------------------------------ handleSyscall() computes the ISA's SVC clause *)
Lemma in_mem_tidx x : in_mem x = true -> tidx_ok x = true.
Proof.
  unfold in_mem, tidx_ok, MEMW, TBW. intros H. apply andb_prop in H. destruct H as [H1 H2].
  apply Z.leb_le in H1. apply Z.ltb_lt in H2. apply andb_true_intro. split; [apply Z.leb_le | apply Z.ltb_lt]; lia.
Qed.

Definition svc_upd (st : tb) (a' : arch) (ev : event) : tb :=
  match ev with Exit x => set_exit st (SimModel.to_int x) | Read _ _ => set_tmem st (mem a') | _ => st end.
Definition svc_state (j c e : Z) (s : rstate) (a' : arch) (ev : event) : tb :=
  run_state j true c (match ev with Exit x => SimModel.to_int x | _ => e end) (if is_read ev then set_mem s (mem a') else s).

Lemma handle_matches_isa_gen st inp a' inp' ev :
  Inv (t_s st) -> step (abs (t_s st)) inp = Ok (a', inp', ev) -> r_fetch (t_s st) = 211 ->
  handle_syscall (ref_syscall (t_s st)) st inp = HOk (svc_upd st a' ev) inp' ev /\ ev <> Tau.
Proof.
  destruct st as [s h0 clk0 rst0 tm0 cyc0 ex0]. cbn [t_s]. intros [Wf I] H K. pose proof Wf as [Hpc [Ha [Hb [Ho Hm]]]].
  unfold step in H. rewrite fetch_abs in H. cbn [pc areg breg oreg mem abs] in H.
  destruct (negb (in_mem (r_pc s / 4))); [discriminate|].
  rewrite K in H. change (211 / 16) with 13 in H. change (211 mod 16) with 3 in H. cbv iota in H.
  fold (r_opr s 3) in H.
  pose proof (opr_nonneg s 3 Wf ltac:(lia)) as Hopr.
  assert (Hsmall : 0 <= r_opr s 3 <= 3 -> r_opr s 3 = 3) by (intros Hs; apply (opr_small s 3 I ltac:(lia) ltac:(lia) Hs)).
  destruct (r_opr s 3) as [|p|p] eqn:Eo; [specialize (Hsmall ltac:(lia)); discriminate | | discriminate].
  destruct p as [[p|p|]|[p|p|]|]; try discriminate; try (specialize (Hsmall ltac:(lia)); discriminate).
  unfold handle_syscall, ref_syscall, svc_upd. cbn [t_s r_mem].
  destruct (in_mem 1); [|discriminate].
  set (sp := rd (r_mem s) 1) in *.
  change (SimModel.u32 (sp + 2)) with (wrap (sp + 2)). change (SimModel.u32 (sp + 3)) with (wrap (sp + 3)).
  change (SimModel.u32 (sp + 1)) with (wrap (sp + 1)).
  destruct (r_areg s) as [|q|q] eqn:Ea.
  - change (0 mod 4) with 0. cbv iota.
    destruct (in_mem (wrap (sp + 2))) eqn:M2; [|discriminate]. rewrite (in_mem_tidx _ M2).
    apply ok3_inv in H. destruct H as [<- [<- <-]]. split; [reflexivity | discriminate].
  - destruct q as [[q|q|]|[q|q|]|]; try discriminate.
    + change (2 mod 4) with 2. cbv iota.
      destruct (in_mem (wrap (sp + 2))) eqn:M2; [|discriminate]. rewrite (in_mem_tidx _ M2).
      assert (Hst : 0 <= rd (r_mem s) (wrap (sp + 2)) < W) by (apply Hm; unfold wrap, W; apply Z.mod_pos_bound; lia).
      rewrite (SimProofs.io_input_eq inp _ Hst).
      destruct (simin inp (rd (r_mem s) (wrap (sp + 2)))) as [bb inp2].
      destruct (in_mem (wrap (sp + 1))) eqn:M1; [|discriminate]. rewrite (in_mem_tidx _ M1).
      rewrite SimProofs.land_255.
      apply ok3_inv in H. destruct H as [<- [<- <-]]. split; [reflexivity | discriminate].
    + change (1 mod 4) with 1. cbv iota.
      destruct (in_mem (wrap (sp + 2))) eqn:M2; [|discriminate]. rewrite (in_mem_tidx _ M2).
      destruct (in_mem (wrap (sp + 3))) eqn:M3; [|discriminate]. rewrite (in_mem_tidx _ M3).
      rewrite SimProofs.land_255.
      apply ok3_inv in H. destruct H as [<- [<- <-]]. split; [reflexivity | discriminate].
  - discriminate.
Qed.


Lemma handle_matches_isa j c e s inp a' inp' ev :
  Inv s -> step (abs s) inp = Ok (a', inp', ev) -> r_fetch s = 211 ->
  handle_syscall (ref_syscall s) (run_state j true c e s) inp = HOk (svc_state j c e s a' ev) inp' ev /\ ev <> Tau.
Proof.
  intros I H K. destruct (handle_matches_isa_gen (run_state j true c e s) inp a' inp' ev I H K) as [E N].
  change (t_s (run_state j true c e s)) with s in E. split; [|exact N]. rewrite E. destruct ev; reflexivity.
Qed.

Lemma no_request_is_tau s inp a' inp' ev :
  Inv s -> step (abs s) inp = Ok (a', inp', ev) -> r_fetch s <> 211 -> ev = Tau /\ inp' = inp.
Proof.
  intros I H K. pose proof (shim_matches_isa s inp a' inp' ev I H) as SH.
  unfold shim, ref_syscall_valid in SH. replace (r_fetch s =? 211) with false in SH by (symmetry; apply Z.eqb_neq; exact K).
  cbn [Z.eqb] in SH. injection SH as _ E1 E2. split; congruence.
Qed.

Lemma tb_step_shape (dd : design) s inp v c : outs dd s = [("o_syscall"%string, c); ("o_syscall_valid"%string, v)] ->
  tb_step dd s inp = let '(s1, inp1, ev) := shim v c s inp in (cycle dd s1, inp1, ev).
Proof. intros E. unfold tb_step. rewrite E, getv_valid, getv_call. reflexivity. Qed.

Lemma cycle_after_shim s inp a' inp' ev :
  Inv s -> step (abs s) inp = Ok (a', inp', ev) -> in_range (fetch (abs s)) a' -> read_safe (abs s) a' ev ->
  abs (cycle d (if is_read ev then set_mem s (mem a') else s)) = a' /\ Inv (cycle d (if is_read ev then set_mem s (mem a') else s)).
Proof.
  intros I H R RS. destruct (tb_step_refines s inp a' inp' ev I H R RS) as [s' [T [A I']]].
  pose proof I as [Wf _]. rewrite (tb_step_shape d s inp _ _ (rtl_outs_are_ref s Wf)) in T.
  rewrite (shim_matches_isa s inp a' inp' ev I H) in T.
  remember (cycle d (if is_read ev then set_mem s (mem a') else s)) as X eqn:EX. clear EX.
  injection T as T. rewrite T. split; assumption.
Qed.

(* ------------------------------------------------------------------ two memories that agree on the defined region D:
   a step that reads only defined words does the same on both (adapted from IsaMonProofs.step_accesses_complete, which
   asks for agreement at the store addresses too; here also: every listed store is the word written) *)
Import IsaMon IsaMonProofs.
Definition agree (D : Z -> bool) (m1 m2 : WMap.t) : Prop := forall x, D x = true -> rd m1 x = rd m2 x.

Lemma reads_defined_spec D a k x : reads_defined D a = true -> In (k, x) (accesses a) -> k <> Store -> D x = true.
Proof.
  unfold reads_defined. rewrite forallb_forall. intros H Hin Hk. specialize (H _ Hin). unfold is_store in H. cbn [fst snd] in H.
  destruct k; try contradiction; exact H.
Qed.

Definition step_sim2 (s1 s2 : arch) (r1 r2 : Isa.result (arch * inputs * event)) : Prop :=
  match r1, r2 with
  | Ok (s1', i1, e1), Ok (s2', i2, e2) =>
      same_regs s1' s2' /\ i1 = i2 /\ e1 = e2 /\
      exists w, mem_upd (mem s1) (mem s1') w /\ mem_upd (mem s2) (mem s2') w /\
                (forall a v, w = Some (a, v) -> In (Store, a) (accesses s1)) /\
                (forall x, In (Store, x) (accesses s1) -> exists v, w = Some (x, v))
  | Undefined u1, Undefined u2 => u1 = u2
  | _, _ => False
  end.

Ltac red_sim := cbv beta iota zeta delta [step_sim2 same_regs mem_upd pc areg breg oreg mem fst snd].
Ltac stores_clause Hls :=
  let x := fresh "x" in let Hx := fresh "Hx" in
  intros x Hx; apply Hls in Hx; cbn in Hx;
  repeat (destruct Hx as [Hx|Hx]; [try discriminate; inversion Hx; subst; eexists; reflexivity|]); contradiction.
Ltac sim_none Hls := red_sim; repeat split; exists None; red_sim; split; [reflexivity|]; split; [reflexivity|]; split; [intros; discriminate | stores_clause Hls].

Lemma step_reads_only : forall s1 s2 inp, same_regs s1 s2 ->
  (forall k a, k <> Store -> In (k, a) (accesses s1) -> rd (mem s1) a = rd (mem s2) a) ->
  step_sim2 s1 s2 (step s1 inp) (step s2 inp).
Proof.
  intros [p a b o m1] [p2 a2 b2 o2 m2] inp (Hp & Ha & Hb & Ho) Hag.
  cbn in Hp, Ha, Hb, Ho. subst p2 a2 b2 o2.
  cbn [mem] in Hag.
  unfold step. cbn [pc areg breg oreg mem].
  destruct (negb (in_mem (p / 4))) eqn:Epc; [reflexivity|].
  assert (Hf : rd m1 (p / 4) = rd m2 (p / 4)) by (apply (Hag Fetch); [discriminate | unfold accesses; cbn [pc]; left; reflexivity]).
  assert (Hfetch : fetch {| pc := p; areg := a; breg := b; oreg := o; mem := m2 |} =
                   fetch {| pc := p; areg := a; breg := b; oreg := o; mem := m1 |})
    by (unfold fetch; cbn [pc mem]; rewrite Hf; reflexivity).
  rewrite Hfetch.
  set (s1 := {| pc := p; areg := a; breg := b; oreg := o; mem := m1 |}) in *.
  assert (Hop0 : forall k x, k <> Store -> In (k, x) (op_accesses s1 (fetch s1)) -> rd m1 x = rd m2 x).
  { intros k x Hk Hin. apply (Hag k); [exact Hk|]. unfold accesses. cbn [pc]. fold s1. right.
    unfold s1 at 1. cbn [pc]. rewrite Epc. exact Hin. }
  assert (Hst : forall x, In (Store, x) (op_accesses s1 (fetch s1)) -> In (Store, x) (accesses s1)).
  { intros x Hin. unfold accesses. right. unfold s1 at 1. cbn [pc]. rewrite Epc. exact Hin. }
  assert (Hop : forall k x, In (k, x) (op_accesses s1 (fetch s1)) -> k = Load -> rd m1 x = rd m2 x) by (intros k x Hin ->; apply (Hop0 Load); [discriminate | exact Hin]).
  assert (Hls : forall x, In (Store, x) (accesses s1) -> In (Store, x) (op_accesses s1 (fetch s1))).
  { intros x Hin. unfold accesses in Hin. destruct Hin as [Hin|Hin]; [discriminate|]. unfold s1 in Hin at 1. cbn [pc] in Hin. rewrite Epc in Hin. exact Hin. }
  clear Hag Hfetch Hf Hop0.
  pose proof (fetch_range s1) as Hr.
  set (inst := fetch s1) in *. clearbody inst.
  unfold op_accesses in Hop, Hst, Hls. cbn [oreg areg breg] in Hop, Hst, Hls. unfold s1 in Hop, Hst, Hls. cbn [oreg areg breg mem] in Hop, Hst, Hls.
  set (oo := Z.lor o (inst mod 16)) in *. clearbody oo.
  destruct (opcode_cases inst Hr) as [E|[E|[E|[E|[E|[E|[E|[E|[E|[E|[E|[E|[E|[E|[E|E]]]]]]]]]]]]]]];
    rewrite E in *; clear E.
  - (* LDAM *) destruct (in_mem oo); [|reflexivity]. rewrite (Hop Load oo) by first [reflexivity | left; reflexivity]. sim_none Hls.
  - (* LDBM *) destruct (in_mem oo); [|reflexivity]. rewrite (Hop Load oo) by first [reflexivity | left; reflexivity]. sim_none Hls.
  - (* STAM *) destruct (in_mem oo); [|reflexivity].
    red_sim. repeat split. exists (Some (oo, a)). red_sim. repeat split.
    intros x v Hx. inversion Hx; subst. apply Hst. left. reflexivity.
    stores_clause Hls.
  - sim_none Hls.
  - sim_none Hls.
  - sim_none Hls.
  - (* LDAI *) destruct (in_mem (wrap (a + oo))); [|reflexivity]. rewrite (Hop Load (wrap (a + oo))) by first [reflexivity | left; reflexivity]. sim_none Hls.
  - (* LDBI *) destruct (in_mem (wrap (b + oo))); [|reflexivity]. rewrite (Hop Load (wrap (b + oo))) by first [reflexivity | left; reflexivity]. sim_none Hls.
  - (* STAI *) destruct (in_mem (wrap (b + oo))); [|reflexivity].
    red_sim. repeat split. exists (Some (wrap (b + oo), a)). red_sim. repeat split.
    intros x v Hx. inversion Hx; subst. apply Hst. left. reflexivity.
    stores_clause Hls.
  - sim_none Hls.
  - sim_none Hls.
  - sim_none Hls.
  - reflexivity.
  - (* OPR *)
    destruct oo as [|q|q]; [sim_none Hls | | reflexivity].
    destruct q as [q|q|]; [destruct q as [q|q|] | destruct q as [q|q|] | ]; try reflexivity; try sim_none Hls.
    (* SVC *)
    unfold sys_accesses in Hop, Hst, Hls. cbn [mem areg] in Hop, Hst, Hls.
    assert (H1 : rd m1 1 = rd m2 1) by (apply (Hop Load); [left; reflexivity | reflexivity]).
    destruct (in_mem 1); [|reflexivity]. rewrite <- H1.
    set (sp := rd m1 1) in *. clearbody sp.
    destruct a as [|q|q]; [ | | reflexivity].
    + destruct (in_mem (wrap (sp + 2))); [|reflexivity].
      rewrite (Hop Load (wrap (sp + 2))) by first [reflexivity | right; left; reflexivity]. sim_none Hls.
    + destruct q as [q|q|].
      * reflexivity.
      * destruct q; try reflexivity.
        destruct (in_mem (wrap (sp + 2))); [|reflexivity].
        rewrite (Hop Load (wrap (sp + 2))) by first [reflexivity | right; left; reflexivity].
        destruct (simin inp (rd m2 (wrap (sp + 2)))) as [bb inp2].
        destruct (in_mem (wrap (sp + 1))); [|reflexivity].
        red_sim. repeat split. exists (Some (wrap (sp + 1), bb mod 256)). red_sim. repeat split.
        intros x v Hx. inversion Hx; subst. apply Hst. right. right. left. reflexivity.
    stores_clause Hls.
      * destruct (in_mem (wrap (sp + 2))); [|reflexivity].
        destruct (in_mem (wrap (sp + 3))); [|reflexivity].
        rewrite (Hop Load (wrap (sp + 2))) by first [reflexivity | right; left; reflexivity].
        rewrite (Hop Load (wrap (sp + 3))) by first [reflexivity | right; right; left; reflexivity]. sim_none Hls.
  - sim_none Hls.
  - sim_none Hls.
Qed.

Theorem step_agree D s1 s2 inp : same_regs s1 s2 -> agree D (mem s1) (mem s2) -> reads_defined D s1 = true ->
  step_sim2 s1 s2 (step s1 inp) (step s2 inp).
Proof.
  intros R A H. apply step_reads_only; [exact R|]. intros k a Hk Hin. apply A. eapply reads_defined_spec; eauto.
Qed.

Lemma in_stores a x : In (Store, x) (accesses a) -> In x (stores_of a).
Proof. intros H. unfold stores_of. apply in_map_iff. exists (Store, x). split; [reflexivity|]. apply filter_In. split; [exact H | reflexivity]. Qed.
Lemma stores_in a x : In x (stores_of a) -> In (Store, x) (accesses a).
Proof.
  unfold stores_of. intros H. apply in_map_iff in H. destruct H as [[k y] [E H]]. cbn in E. subst y.
  apply filter_In in H. destruct H as [H K]. unfold is_store in K. cbn in K. destruct k; try discriminate. exact H.
Qed.

Lemma rd_wr_key m st v x : rd (wr m st v) x = if Pos.eqb (key st) (key x) then v else rd m x.
Proof.
  unfold rd, wr. cbn [cells bg]. destruct (Pos.eqb (key st) (key x)) eqn:E.
  - apply Pos.eqb_eq in E. rewrite E, FMapPositive.PositiveMap.gss. reflexivity.
  - apply Pos.eqb_neq in E. rewrite FMapPositive.PositiveMap.gso by (intro Q; apply E; symmetry; exact Q). reflexivity.
Qed.

Lemma agree_extend D a m1 m2 m1' m2' w :
  agree D m1 m2 -> mem_upd m1 m1' w -> mem_upd m2 m2' w ->
  (forall x, In (Store, x) (accesses a) -> exists v, w = Some (x, v)) ->
  agree (extend D a) m1' m2'.
Proof.
  intros A U1 U2 Hls x Hx. unfold extend in Hx.
  destruct w as [[st v]|]; cbn [mem_upd] in U1, U2; subst m1' m2'.
  - rewrite !rd_wr_key. destruct (Pos.eqb (key st) (key x)) eqn:E; [reflexivity|].
    apply orb_prop in Hx. destruct Hx as [Hx|Hx]; [apply (A x Hx)|].
    apply existsb_exists in Hx. destruct Hx as [y [Hy Q]]. apply Z.eqb_eq in Q. subst y.
    destruct (Hls x (stores_in a x Hy)) as [v' Ev]. injection Ev as -> _. rewrite Pos.eqb_refl in E. discriminate.
  - apply orb_prop in Hx. destruct Hx as [Hx|Hx]; [apply (A x Hx)|].
    apply existsb_exists in Hx. destruct Hx as [y [Hy Q]]. apply Z.eqb_eq in Q. subst y.
    destruct (Hls x (stores_in a x Hy)) as [v' Ev]. discriminate.
Qed.

Lemma fetch_agree D a1 a2 : same_regs a1 a2 -> agree D (mem a1) (mem a2) -> reads_defined D a1 = true -> fetch a2 = fetch a1.
Proof.
  intros (Hp & _) A H. unfold fetch. rewrite <- Hp. rewrite <- (A (pc a1 / 4)); [reflexivity|].
  eapply (reads_defined_spec D a1 Fetch); [exact H | unfold accesses; left; reflexivity | discriminate].
Qed.

(* ------------------------------------------------------------------ one sampled request = one ISA step *)
Definition tb_view (r : TbModel.result) : list event * inputs * isa_end := let '(tr, inp, _, e) := r in (tr, inp, conv_end e).

Lemma after_tick_step j c e s inp evs a' inp' ev cont :
  Inv s -> 11 <= j -> step (abs s) inp = Ok (a', inp', ev) ->
  after_tick Current d (run_state j true c e s) inp evs cont =
  match ev with
  | Exit x => (rev (Exit x :: evs), inp', svc_state j c e s a' ev, TReturned (SimModel.to_int x))
  | _ => cont (run_state j true c e (if is_read ev then set_mem s (mem a') else s)) inp' (push ev evs)
  end.
Proof.
  intros I Hj H. unfold after_tick. rewrite (sys_request_high j c e s I Hj).
  unfold ref_syscall_valid. destruct (r_fetch s =? 211) eqn:K.
  - apply Z.eqb_eq in K. cbn [Z.eqb negb]. cbn [run_state t_rst t_s]. rewrite (out_call s I).
    destruct (handle_matches_isa j c e s inp a' inp' ev I H K) as [HS NT]. rewrite HS.
    destruct ev; reflexivity.
  - apply Z.eqb_neq in K. cbn [Z.eqb negb]. destruct (no_request_is_tau s inp a' inp' ev I H K) as [-> ->]. reflexivity.
Qed.

Lemma wb_step D n a inp : wb_mon D (S n) a inp = true ->
  reads_defined D a = true /\ exists a' inp' ev, step a inp = Ok (a', inp', ev) /\ step_safe a a' ev = true /\
  match ev with Exit _ => True | _ => wb_mon (extend D a) n a' inp' = true end.
Proof.
  cbn [wb_mon]. intros H. apply andb_prop in H. destruct H as [H1 H2]. split; [exact H1|].
  destruct (step a inp) as [[[a' inp'] ev]|u]; [|discriminate]. exists a', inp', ev. apply andb_prop in H2. destruct H2 as [H2 H3].
  split; [reflexivity|]. split; [exact H2|]. destruct ev; auto.
Qed.

(* what a well-behaved reference step gives for the testbench's own state: same step, in range, read-safe, next state *)
Lemma tb_follows D s a1 inp a1' inp' ev :
  Inv s -> same_regs a1 (abs s) -> agree D (mem a1) (r_mem s) -> reads_defined D a1 = true ->
  step a1 inp = Ok (a1', inp', ev) -> step_safe a1 a1' ev = true ->
  exists a2', step (abs s) inp = Ok (a2', inp', ev) /\
    let s1 := if is_read ev then set_mem s (mem a2') else s in
    same_regs a1' (abs (cycle d s1)) /\ agree (extend D a1) (mem a1') (r_mem (cycle d s1)) /\ Inv (cycle d s1) /\ mem a2' = mem (abs (cycle d s1)) .
Proof.
  intros I R A RD St SAFE.
  pose proof (step_agree D a1 (abs s) inp R A RD) as SS. unfold step_sim2 in SS. rewrite St in SS.
  destruct (step (abs s) inp) as [[[a2' inp2] ev2]|u] eqn:St2; [|contradiction].
  destruct SS as (R' & <- & <- & w & U1 & U2 & Hin & Hls).
  exists a2'. split; [reflexivity|].
  unfold step_safe in SAFE. repeat (apply andb_prop in SAFE; let H := fresh "S" in destruct SAFE as [SAFE H]).
  assert (F : fetch (abs s) = fetch a1) by (eapply fetch_agree; eauto).
  destruct R' as (Rp & Ra & Rb & Ro). destruct R as (Rp0 & _).
  assert (RNG : in_range (fetch (abs s)) a2').
  { unfold in_range. rewrite F, <- Rp, <- Ra. split; [apply Z.ltb_lt; exact SAFE|].
    intros E5. rewrite E5 in S1. cbn [Z.eqb] in S1. apply Z.ltb_lt. exact S1. }
  assert (RS : read_safe (abs s) a2' ev).
  { unfold read_safe. intros Rd. replace (ev_is_read ev) with true in S0 by (destruct ev; try discriminate; reflexivity).
    cbn [abs mem] in U2. destruct w as [[st v]|]; cbn [mem_upd] in U2.
    - unfold fetch, with_mem. cbn [pc mem abs]. rewrite U2, rd_wr_key.
      destruct (Pos.eqb (key st) (key (r_pc s / 4))) eqn:E; [|reflexivity]. exfalso.
      apply Pos.eqb_eq in E. pose proof (in_stores a1 st (Hin st v eq_refl)) as Hs.
      rewrite forallb_forall in S. pose proof (S _ Hs) as Hnn. apply Z.leb_le in Hnn.
      destruct I as [[Hpc _] _]. apply key_inj in E; [|lia | apply Z.div_pos; lia].
      apply negb_true_iff in S0.
      assert (existsb (Z.eqb (pc a1 / 4)) (stores_of a1) = true); [|congruence].
      apply existsb_exists. exists st. split; [exact Hs|]. apply Z.eqb_eq. rewrite Rp0. cbn [abs pc]. symmetry. exact E.
    - rewrite U2. destruct s; reflexivity. }
  destruct (cycle_after_shim s inp a2' inp' ev I St2 RNG RS) as [AB IV].
  cbv zeta. generalize dependent (cycle d (if is_read ev then set_mem s (mem a2') else s)). intros X AB IV. rewrite AB. split; [split; [exact Rp | split; [exact Ra | split; [exact Rb | exact Ro]]]|].
  split; [|split; [exact IV | reflexivity]].
  assert (M : r_mem X = mem a2') by (rewrite <- AB; reflexivity).
  rewrite M. eapply (agree_extend D a1 _ _ _ _ w A U1 U2 Hls).
Qed.

(* ------------------------------------------------------------------ the loop after reset is the ISA run in the
   testbench's rhythm; a1 is the reference run (any memory that agrees with the testbench's on the defined region) *)
Lemma isa_phase_unfold k a inp evs :
  isa_phase k a inp evs =
  match step a inp with
  | Undefined _ => (rev evs, inp, IStuck)
  | Ok (a', inp', Exit c) => (rev (Exit c :: evs), inp', IReturned (SimModel.to_int c))
  | Ok (a', inp', ev) =>
      match k with
      | S (S k') => isa_phase k' a' inp' (push ev evs)
      | _ => (rev (push ev evs), inp', INoFuel)
      end
  end.
Proof. destruct k as [|[|k']]; reflexivity. Qed.

Theorem phase_sim : forall k j c e s a1 D inp evs,
  11 <= j -> Inv s -> same_regs a1 (abs s) -> agree D (mem a1) (r_mem s) -> (forall n, wb_mon D n a1 inp = true) ->
  tb_view (after_tick Current d (run_state j true c e s) inp evs (run Current d k 0)) = isa_phase k a1 inp evs.
Proof.
  induction k as [k IH] using lt_wf_ind. intros j c e s a1 D inp evs Hj I R A WB.
  destruct (wb_step D 0 a1 inp (WB 1%nat)) as (RD & a1' & inp' & ev & St & SAFE & _).
  destruct (tb_follows D s a1 inp a1' inp' ev I R A RD St SAFE) as (a2' & St2 & R' & A' & I' & _).
  cbv zeta in R', A', I'.
  rewrite (after_tick_step j c e s inp evs a2' inp' ev _ I Hj St2).
  rewrite isa_phase_unfold, St.
  assert (WB' : match ev with Exit _ => True | _ => forall n, wb_mon (extend D a1) n a1' inp' = true end).
  { destruct ev; auto; intros n; destruct (wb_step D n a1 inp (WB (S n))) as (_ & b & i & ev' & St' & _ & W);
      rewrite St in St'; injection St' as <- <- <-; exact W. }
  set (s1 := if is_read ev then set_mem s (mem a2') else s) in *.
  destruct ev as [|x|bb st|st g]; [ | reflexivity | | ].
  all: destruct k as [|[|k']]; [rewrite run_0; reflexivity | rewrite run_1_high; reflexivity |].
  all: rewrite run_2_high by exact Hj.
  all: apply (IH k' ltac:(lia) (j + 1 + 1) (c + 1) e (cycle d s1) a1' (extend D a1) inp' _ ltac:(lia) I' R' A' WB').
Qed.

(* ------------------------------------------------------------------ whole runs of the testbench *)
Lemma tick_time st : t_time (tick Current d st) = t_time st + 1.
Proof. unfold tick. destruct (veval _ _ _ _ _ _). reflexivity. Qed.

Lemma run_closed k st inp evs : t_time st < 8 ->
  run Current d (S k) 0 st inp evs = run Current d k 0 (tick Current d st) inp evs.
Proof.
  intros H. cbn [run]. rewrite guard0. cbn [negb]. unfold after_tick.
  replace (sys_request Current d (tick Current d st)) with false; [reflexivity|].
  unfold sys_request, gate. cbn [Current gate_from]. rewrite tick_time.
  replace (9 <=? t_time st + 1) with false by (symmetry; apply Z.leb_gt; lia). rewrite andb_false_r. reflexivity.
Qed.

Lemma ticks_time j : forall st, t_time (ticks Current d j st) = t_time st + Z.of_nat j.
Proof. induction j as [|j IH]; intros st; cbn [ticks]; [lia|]. rewrite IH, tick_time. lia. Qed.

Lemma run_ticks j : forall k st inp evs, t_time st + Z.of_nat j <= 8 ->
  run Current d (j + k) 0 st inp evs = run Current d k 0 (ticks Current d j st) inp evs.
Proof.
  induction j as [|j IH]; intros k st inp evs H; [reflexivity|].
  change (S j + k)%nat with (S (j + k)). rewrite run_closed by lia. cbn [ticks]. apply IH. rewrite tick_time. lia.
Qed.

Lemma words_of_bytes_range : forall n (bs : list Z), (List.length bs <= n)%nat -> Forall (fun b => 0 <= b < 256) bs ->
  Forall (fun w => 0 <= w < 4294967296) (words_of_bytes bs).
Proof.
  induction n as [|n IH]; intros bs L F.
  - destruct bs; [constructor | cbn in L; lia].
  - destruct bs as [|b0 [|b1 [|b2 [|b3 r]]]]; cbn [words_of_bytes].
    + constructor.
    + inversion F; subst. constructor; [lia | constructor].
    + inversion F as [|? ? F0 F1]; subst. inversion F1; subst. constructor; [lia | constructor].
    + inversion F as [|? ? F0 F1]; subst. inversion F1 as [|? ? F2 F3]; subst. inversion F3; subst. constructor; [lia | constructor].
    + inversion F as [|? ? F0 F1]; subst. inversion F1 as [|? ? F2 F3]; subst. inversion F3 as [|? ? F4 F5]; subst. inversion F5; subst.
      constructor; [lia|]. apply IH; [cbn in L; lia | assumption].
Qed.

Lemma Forall_skipn_ (A : Type) (P : A -> Prop) n : forall l, Forall P l -> Forall P (skipn n l).
Proof. induction n as [|n IH]; intros l F; [exact F|]. destruct l; [constructor|]. inversion F; subst. apply IH. assumption. Qed.

Definition bytes_ok (file : list Z) : Prop := Forall (fun b => 0 <= b < 256) file.
(* the files hextb's load() accepts and reads completely: a header, at most 200000 words announced, all of them present *)
Definition file_ok (file : list Z) : Prop :=
  bytes_ok file /\ file_loads file = true /\ 4 + 4 * header file <= Z.of_nat (List.length file).

Lemma firstn_range (P : Z -> Prop) n : forall l, Forall P l -> Forall P (firstn n l).
Proof. induction n as [|n IH]; intros l F; [constructor|]. destruct l; [constructor|]. inversion F; subst. constructor; [assumption | apply IH; assumption]. Qed.

Lemma loaded_words_range file : bytes_ok file -> Forall (fun w => 0 <= w < 4294967296) (loaded_words file).
Proof.
  intros F. unfold loaded_words, image_bytes. eapply words_of_bytes_range; [apply le_n|]. apply firstn_range. apply Forall_skipn_. exact F.
Qed.

Lemma power_on_mem_range i file : bytes_ok file ->
  forall a, 0 <= a -> 0 <= rd (r_mem (t_s (power_on Current i file))) a < RefRtl.M32.
Proof.
  intros F. unfold power_on. cbn [t_s r_mem clears_memory Current]. apply load_words_range; [|lia|].
  - intros a Ha. unfold WMap.zero. rewrite rd_empty. unfold RefRtl.M32. lia.
  - apply loaded_words_range. exact F.
Qed.

(* load() clears the memory: whatever the power-on contents, the memory the run starts from is the ISA's boot memory *)
Lemma power_on_is_boot i file : r_mem (t_s (power_on Current i file)) = mem (boot (loaded_words file)).
Proof. reflexivity. Qed.

(* with every word defined the bookkeeping of the defined region is vacuous *)
Lemma safe_wb : forall n D a inp, (forall x, D x = true) -> safe_mon n a inp = true -> wb_mon D n a inp = true.
Proof.
  induction n as [|n IH]; intros D a inp HD H; [reflexivity|].
  cbn [safe_mon] in H. cbn [wb_mon].
  assert (RD : reads_defined D a = true).
  { unfold reads_defined. apply forallb_forall. intros x _. rewrite HD. apply orb_true_r. }
  rewrite RD. cbn [andb].
  destruct (step a inp) as [[[a' inp'] ev]|u]; [|discriminate].
  apply andb_prop in H. destruct H as [H1 H2]. rewrite H1. cbn [andb].
  destruct ev; try reflexivity; apply IH; try exact H2; intros x; unfold extend; rewrite HD; reflexivity.
Qed.

(* the state after the eight evaluations in which nothing is sampled, and after the ninth *)
Lemma edge_reset_fixed m : edge d true true 1 1 (reset_state m) = reset_state m.
Proof.
  set (sf := edge d true true 1 1 (reset_state m)).
  assert (Hm : r_mem sf = m) by (unfold sf; rewrite edge_reset_mem; reflexivity).
  rewrite <- Hm. apply clear_is_reset. unfold sf. apply edge_reset_regs.
Qed.

Lemma boot_state8 i file :
  ticks Current d 8 (power_on Current i file) = rst_state 8 false 4 (reset_state (r_mem (t_s (power_on Current i file)))).
Proof.
  destruct (tick_power_on i file) as (tp & tm & T1).
  set (s0 := t_s (power_on Current i file)) in *.
  cbn [ticks]. rewrite T1.
  rewrite tick_rst_down. change (1 + 1) with 2. rewrite tick_rst_up by lia. change (2 + 1) with 3. change (1 + 1) with 2.
  rewrite tick_rst_down. change (3 + 1) with 4. rewrite tick_rst_up by lia. change (4 + 1) with 5. change (2 + 1) with 3.
  rewrite tick_rst_down. change (5 + 1) with 6. rewrite tick_rst_up by lia. change (6 + 1) with 7. change (3 + 1) with 4.
  rewrite tick_rst_down. change (7 + 1) with 8.
  f_equal. set (sf := edge d true true 1 1 _).
  assert (Hm : r_mem sf = r_mem s0) by (unfold sf; rewrite !edge_reset_mem; reflexivity).
  rewrite <- Hm. apply clear_is_reset. unfold sf. apply edge_reset_regs.
Qed.

Lemma tick_9 m : tick Current d (rst_state 8 false 4 (reset_state m)) = rst_state 9 true 5 (reset_state m).
Proof. rewrite tick_rst_up by lia. rewrite edge_reset_fixed. reflexivity. Qed.

(* the request sampled at the last reset edge is that of the instruction at address 0, in the canonical state: with
   areg = 0 it can only be EXIT *)
Lemma first_sample k m a0 D inp :
  Inv (reset_state m) -> same_regs a0 (abs (reset_state m)) -> agree D (mem a0) m -> (forall n, wb_mon D n a0 inp = true) ->
  tb_view (after_tick Current d (rst_state 9 true 5 (reset_state m)) inp [] (run Current d k 0)) = isa_phase k a0 inp [].
Proof.
  intros I0 R0 A WB. set (s0 := reset_state m) in *. pose (st := rst_state 9 true 5 s0).
  destruct (wb_step D 0 a0 inp (WB 1%nat)) as (RD & a1 & inp1 & ev & St & SAFE & _).
  destruct (tb_follows D s0 a0 inp a1 inp1 ev I0 R0 A RD St SAFE) as (a2' & St2 & R' & A' & I' & _).
  cbv zeta in R', A', I'.
  rewrite isa_phase_unfold, St.
  unfold after_tick. rewrite (sys_request_last_reset 5 s0 I0). unfold ref_syscall_valid.
  destruct (r_fetch s0 =? 211) eqn:K.
  - apply Z.eqb_eq in K. cbn [Z.eqb negb]. fold st. change (t_rst st) with true. change (t_s st) with s0. rewrite (out_call_rst s0 I0).
    destruct (handle_matches_isa_gen st inp a2' inp1 ev I0 St2 K) as [HS NT]. change (t_s st) with s0 in HS. rewrite HS.
    assert (EX : exists x, ev = Exit x).
    { unfold handle_syscall, ref_syscall in HS. change (r_areg s0) with 0 in HS. change (0 mod 4) with 0 in HS. cbv iota beta zeta in HS.
      destruct (tidx_ok _) in HS; [|discriminate]. injection HS as _ _ E. eexists. symmetry. exact E. }
    destruct EX as [x ->]. reflexivity.
  - apply Z.eqb_neq in K. cbn [Z.eqb negb]. destruct (no_request_is_tau s0 inp a2' inp1 ev I0 St2 K) as [-> ->].
    cbn [is_read] in R', A', I'. cbn [push].
    assert (WB' : forall n, wb_mon (extend D a0) n a1 inp = true).
    { intros n. destruct (wb_step D n a0 inp (WB (S n))) as (_ & b & i0 & ev' & St' & _ & W). rewrite St in St'. injection St' as <- <- <-. exact W. }
    destruct k as [|[|k']].
    + rewrite run_0. reflexivity.
    + cbn [run]. rewrite guard0. cbn [negb]. rewrite tick_rst_down. unfold after_tick. reflexivity.
    + cbn [run]. rewrite !guard0. cbn [negb]. rewrite tick_rst_down. unfold after_tick at 1.
      change (sys_request Current d (rst_state (9 + 1) false 5 s0)) with false. cbv iota.
      rewrite guard0. cbn [negb]. change (9 + 1) with 10. rewrite tick_release.
      apply (phase_sim k' 11 (5 + 1) 0 (cycle d s0) a1 (extend D a0) inp [] ltac:(lia) I' R' A' WB').
Qed.

Theorem tb_is_isa_tb fuel i file inp :
  file_ok file -> well_behaved (loaded_words file) inp ->
  tb_view (run Current d fuel 0 (power_on Current i file) inp []) = isa_tb fuel (boot (loaded_words file)) inp.
Proof.
  intros [F _] WB0. set (ws := loaded_words file).
  assert (WB : forall n, wb_mon (fun _ => true) n (boot ws) inp = true) by (intros n; apply safe_wb; [reflexivity | apply WB0]).
  unfold isa_tb. destruct (fuel <=? 8)%nat eqn:Le.
  - apply Nat.leb_le in Le. replace fuel with (fuel + 0)%nat by lia. rewrite run_ticks by (cbn [power_on t_time]; lia). reflexivity.
  - apply Nat.leb_gt in Le. replace fuel with (8 + S (fuel - 9))%nat at 1 by lia.
    rewrite run_ticks by (cbn [power_on t_time]; lia). rewrite boot_state8.
    set (m0 := r_mem (t_s (power_on Current i file))) in *.
    assert (I0 : Inv (reset_state m0)) by (apply reset_inv; apply power_on_mem_range; exact F).
    assert (R0 : same_regs (boot ws) (abs (reset_state m0))) by (repeat split).
    assert (A : agree (fun _ => true) (mem (boot ws)) m0) by (intros x _; reflexivity).
    cbn [run]. rewrite guard0. cbn [negb]. rewrite tick_9.
    apply (first_sample (fuel - 9) m0 (boot ws) (fun _ => true) inp I0 R0 A WB).
Qed.

(* ------------------------------------------------------------------ corollaries *)
Lemma wb_not_stuck : forall k D a inp evs, (forall n, wb_mon D n a inp = true) -> snd (isa_phase k a inp evs) <> IStuck.
Proof.
  induction k as [k IH] using lt_wf_ind. intros D a inp evs WB.
  destruct (wb_step D 0 a inp (WB 1%nat)) as (_ & a' & inp' & ev & St & _ & _).
  rewrite isa_phase_unfold, St.
  assert (WB' : match ev with Exit _ => True | _ => forall n, wb_mon (extend D a) n a' inp' = true end).
  { destruct ev; auto; intros n; destruct (wb_step D n a inp (WB (S n))) as (_ & b & i & ev' & St' & _ & W);
      rewrite St in St'; injection St' as <- <- <-; exact W. }
  destruct ev; [ | cbn; discriminate | | ];
    (destruct k as [|[|k']]; [cbn; discriminate | cbn; discriminate | apply (IH k' ltac:(lia) (extend D a)); exact WB']).
Qed.

Lemma view_obs r1 r2 : tb_view r1 = tb_view r2 -> snd (tb_view r1) <> IStuck -> obs r1 = obs r2.
Proof.
  destruct r1 as [[[t1 i1] s1] e1], r2 as [[[t2 i2] s2] e2]. cbn. intros H N. injection H as -> -> H.
  destruct e1, e2; cbn in *; try discriminate; try congruence.
Qed.



(* C13: the observable result does not depend on the power-on state *)
Theorem seed_independent fuel i1 i2 file inp :
  file_ok file -> well_behaved (loaded_words file) inp ->
  obs (run Current d fuel 0 (power_on Current i1 file) inp []) = obs (run Current d fuel 0 (power_on Current i2 file) inp []).
Proof.
  intros F WB.
  pose proof (tb_is_isa_tb fuel i1 file inp F WB) as V1.
  pose proof (tb_is_isa_tb fuel i2 file inp F WB) as V2.
  apply view_obs; [congruence|]. rewrite V1. unfold isa_tb. destruct (fuel <=? 8)%nat; [cbn; discriminate|].
  apply (wb_not_stuck _ (fun _ => true)). intros n. apply safe_wb; [reflexivity | apply WB].
Qed.

(* the ISA's own run function, when it ends with an exit, in the testbench's rhythm *)
Lemma isa_run_phase : forall n a inp evs tr inp' a' c, Isa.run n a inp evs = (tr, inp', a', Exited c) ->
  forall k, (2 * n <= k + 2)%nat -> isa_phase k a inp evs = (tr, inp', IReturned (SimModel.to_int c)).
Proof.
  induction n as [|n IH]; intros a inp evs tr inp' a' c H k Hk; [discriminate|].
  cbn [Isa.run] in H. rewrite isa_phase_unfold.
  destruct (step a inp) as [[[a1 inp1] ev]|u]; [|discriminate].
  destruct ev as [|x|bb st|st g].
  - destruct n as [|n']; [discriminate|]. destruct k as [|[|k']]; try lia. apply (IH _ _ _ _ _ _ _ H). lia.
  - injection H as <- <- <- <-. reflexivity.
  - destruct n as [|n']; [discriminate|]. destruct k as [|[|k']]; try lia. apply (IH _ _ _ _ _ _ _ H). lia.
  - destruct n as [|n']; [discriminate|]. destruct k as [|[|k']]; try lia. apply (IH _ _ _ _ _ _ _ H). lia.
Qed.

(* ------------------------------------------------------------------ C13: the boot state, spelled out *)
Theorem boot_canonical i file inp :
  let st8 := ticks Current d 8 (power_on Current i file) in
  let st10 := ticks Current d 10 (power_on Current i file) in
  (* nothing is sampled during the first eight evaluations; they end in the canonical state *)
  run Current d 8 0 (power_on Current i file) inp [] = ([], inp, st8, TNoFuel) /\
  (forall k, run Current d (8 + k) 0 (power_on Current i file) inp [] = run Current d k 0 st8 inp []) /\
  r_pc (t_s st8) = 0 /\ r_areg (t_s st8) = 0 /\ r_breg (t_s st8) = 0 /\ r_oreg (t_s st8) = 0 /\
  r_mem (t_s st8) = r_mem (t_s (power_on Current i file)) /\ t_time st8 = 8 /\ t_exit st8 = 0 /\
  (* the one request sampled while reset is asserted (time 9) is that of the instruction at address 0 in this state *)
  (file_ok file -> sys_request Current d (tick Current d st8) = (wire d (t_s st8) n_fdata =? 211)) /\
  (* the state in which the time-11 edge fetches: registers clear, memory exactly as load() left it (no store) *)
  r_pc (t_s st10) = 0 /\ r_areg (t_s st10) = 0 /\ r_breg (t_s st10) = 0 /\ r_oreg (t_s st10) = 0 /\
  r_mem (t_s st10) = r_mem (t_s (power_on Current i file)) /\
  (forall j, (j < List.length (loaded_words file))%nat -> rd (r_mem (t_s st10)) (Z.of_nat j) = nth j (loaded_words file) 0) /\
  t_time st10 = 10 /\ t_clk st10 = false.
Proof.
  cbv zeta. split; [|split].
  - change 8%nat with (8 + 0)%nat at 1. rewrite run_ticks by (cbn [power_on Current t_time]; lia). reflexivity.
  - intros k. apply run_ticks. cbn [power_on Current t_time]. lia.
  - rewrite boot_state, boot_state8. cbn [rst_state t_s reset_state r_pc r_areg r_breg r_oreg r_mem t_time t_clk t_exit].
    repeat (split; [reflexivity|]). split; [|repeat (split; [reflexivity|])].
    + intros [F _]. set (m0 := r_mem (t_s (power_on Current i file))).
      assert (I0 : Inv (reset_state m0)) by (apply reset_inv; apply power_on_mem_range; exact F).
      fold (reset_state m0). fold (rst_state 8 false 4 (reset_state m0)). rewrite tick_9, (sys_request_last_reset 5 _ I0).
      destruct I0 as [W0 _]. rewrite (rtl_fetch_is_ref _ W0). unfold ref_syscall_valid. destruct (r_fetch (reset_state m0) =? 211); reflexivity.
    + split; [|split; reflexivity]. intros j Hj. unfold power_on. cbn [t_s r_mem].
      change (Z.of_nat j) with (0 + Z.of_nat j). apply rd_load_words_inside; [lia | exact Hj].
Qed.

(* C13: execution begins at byte address 0 of the image: in the boot state pc = 0, the fetched byte is the first image
   byte, and the next evaluation (time 11) is one clock of the processor and memory from that state *)
Theorem fetch_from_zero i file b0 rest :
  file_ok file -> 1 <= header file -> skipn 4 file = b0 :: rest ->
  let st := ticks Current d 10 (power_on Current i file) in
  r_pc (t_s st) = 0 /\ wire d (t_s st) n_fdata = b0 /\ t_s (tick Current d st) = cycle d (t_s st).
Proof.
  intros [F _] H1 E. cbv zeta. rewrite boot_state. cbn [rst_state t_s]. split; [reflexivity|]. split.
  - set (m0 := r_mem (t_s (power_on Current i file))).
    assert (I0 : Inv (reset_state m0)) by (apply reset_inv; apply power_on_mem_range; exact F).
    destruct I0 as [W0 _]. rewrite (rtl_fetch_is_ref _ W0). unfold r_fetch. cbn [reset_state r_pc r_mem].
    change (0 / 4) with 0. change (0 mod 4) with 0. change (2 ^ (8 * 0)) with 1. rewrite Z.div_1_r.
    assert (Fb : Forall (fun b => 0 <= b < 256) (b0 :: rest)) by (rewrite <- E; apply Forall_skipn_; exact F).
    unfold m0, power_on. cbn [t_s r_mem]. unfold loaded_words, image_bytes. rewrite E.
    assert (K : exists k, Z.to_nat (4 * header file) = S (S (S (S k)))) by (exists (Z.to_nat (4 * header file) - 4)%nat; lia).
    destruct K as [k ->].
    inversion Fb as [|? ? B0 Fr]; subst.
    destruct rest as [|b1 [|b2 [|b3 r]]]; cbn [firstn words_of_bytes load_words].
    + rewrite rd_wr_same. apply Z.mod_small. lia.
    + inversion Fr; subst. rewrite rd_wr_same. lia.
    + inversion Fr as [|? ? B1 F2]; subst. inversion F2; subst. rewrite rd_wr_same. lia.
    + inversion Fr as [|? ? B1 F2]; subst. inversion F2 as [|? ? B2 F3]; subst. inversion F3; subst.
      rewrite rd_load_words_outside by lia. rewrite rd_wr_same. lia.
  - rewrite tick_release. reflexivity.
Qed.

(* ------------------------------------------------------------------ deciding well-behavedness by a finite computation:
   for a run that exits within N instructions, the monitor's verdict for N steps is its verdict for every length *)
Lemma wb_exited : forall N D a inp evs tr inp' a' c, Isa.run N a inp evs = (tr, inp', a', Exited c) ->
  wb_mon D N a inp = true -> forall n, wb_mon D n a inp = true.
Proof.
  induction N as [|N IH]; intros D a inp evs tr inp' a' c H W n; [discriminate|].
  destruct n as [|n]; [reflexivity|].
  cbn [Isa.run] in H. cbn [wb_mon] in W |- *.
  apply andb_prop in W. destruct W as [W1 W2]. rewrite W1. cbn [andb].
  destruct (step a inp) as [[[a1 inp1] ev]|u]; [|discriminate].
  apply andb_prop in W2. destruct W2 as [W2 W3]. rewrite W2. cbn [andb].
  destruct ev; try reflexivity; eapply IH; eauto.
Qed.

Lemma safe_exited : forall N a inp evs tr inp' a' c, Isa.run N a inp evs = (tr, inp', a', Exited c) ->
  safe_mon N a inp = true -> forall n, safe_mon n a inp = true.
Proof.
  induction N as [|N IH]; intros a inp evs tr inp' a' c H W n; [discriminate|].
  destruct n as [|n]; [reflexivity|].
  cbn [Isa.run] in H. cbn [safe_mon] in W |- *.
  destruct (step a inp) as [[[a1 inp1] ev]|u]; [|discriminate].
  apply andb_prop in W. destruct W as [W2 W3]. rewrite W2. cbn [andb].
  destruct ev; try reflexivity; eapply IH; eauto.
Qed.

(* ------------------------------------------------------------------ C13 on the pinned constants: refuted *)
Definition exit7_file : list Z :=
  [9; 0; 0; 0; 151; 0; 0; 0; 61; 13; 3; 0; 81; 148; 17; 48; 130; 211; 17; 128; 255; 61; 209; 33; 55; 17; 130; 48; 211; 1; 97;
   17; 51; 209; 33; 115; 208; 0; 0; 0; 1; 0; 0; 0; 109; 97; 105; 110; 0; 1; 0; 0; 0; 0; 0; 0; 0; 14; 0; 0; 0].
Definition no_input : inputs := {| console := []; files := fun _ => [] |}.
Definition planted (pcv av : Z) (hpclk : bool) : init :=
  {| i_pc := pcv; i_areg := av; i_breg := 0; i_oreg := 0; i_bg := fun _ => 3553874899;          (* every byte 0xD3 *)
     i_hidden := {| hp_clk := hpclk; hp_rst := false; hm_clk := false; hm_rst := false |} |}.
Definition outcome (r : TbModel.result) : list event * tb_end := let '(tr, _, _, e) := r in (tr, e).

(* `proc main() is exit(7)`: with the power-on pc at the exit stub's SVC and areg = 0, the pinned testbench returns 7 or
   the fill word as exit status depending on whether the processor block sees the time-1 clock edge; with areg = 1 it
   prints a spurious byte.  The current constants give 7 and no output from all of these states. *)
Lemma legacy_witness :
  outcome (run Legacy d 200 0 (power_on Legacy (planted 13 0 false) exit7_file) no_input []) = ([Exit 7], TReturned 7) /\
  outcome (run Legacy d 200 0 (power_on Legacy (planted 13 0 true) exit7_file) no_input []) = ([Exit 3553874899], TReturned (-741092397)) /\
  outcome (run Legacy d 200 0 (power_on Legacy (planted 13 1 true) exit7_file) no_input []) = ([Write 211 3553874899; Exit 7], TReturned 7) /\
  outcome (run Current d 200 0 (power_on Current (planted 13 0 false) exit7_file) no_input []) = ([Exit 7], TReturned 7) /\
  outcome (run Current d 200 0 (power_on Current (planted 13 0 true) exit7_file) no_input []) = ([Exit 7], TReturned 7) /\
  outcome (run Current d 200 0 (power_on Current (planted 13 1 true) exit7_file) no_input []) = ([Exit 7], TReturned 7).
Proof. repeat split; vm_compute; reflexivity. Qed.

Theorem pinned_boot_refuted : exists i1 i2 file inp fuel,
  outcome (run Legacy d fuel 0 (power_on Legacy i1 file) inp []) <> outcome (run Legacy d fuel 0 (power_on Legacy i2 file) inp []).
Proof.
  exists (planted 13 0 false), (planted 13 0 true), exit7_file, no_input, 200%nat.
  destruct legacy_witness as (E1 & E2 & _). rewrite E1, E2. discriminate.
Qed.

(* ------------------------------------------------------------------ C06: hextb = hexsim *)
(* both loaders read the words the header announces (the debug tables behind them are not program memory); everything
   else is zero in hexsim and power-on garbage in the RTL memory *)
Theorem tb_equals_sim i file inp n tr inp' a' c (ws := loaded_words file) :
  file_ok file ->
  well_behaved ws inp ->
  Isa.run n (boot ws) inp [] = (tr, inp', a', Exited c) ->
  (exists st, run Current d (9 + 2 * n) 0 (power_on Current i file) inp [] = (tr, inp', st, TReturned (SimModel.to_int c))) /\
  (exists s, SimModel.run n 0 (SimModel.cpp_init ws) inp [] = (tr, inp', s, SimModel.Returned (SimModel.to_int c))).
Proof.
  intros FO WB H. pose proof FO as [F _].
  assert (Fw : Forall (fun w => 0 <= w < 4294967296) ws) by (apply loaded_words_range; exact F).
  split.
  - pose proof (tb_is_isa_tb (9 + 2 * n) i file inp FO WB) as V. fold ws in V.
    unfold isa_tb in V. replace (9 + 2 * n <=? 8)%nat with false in V by (symmetry; apply Nat.leb_gt; lia).
    rewrite (isa_run_phase n (boot ws) inp [] tr inp' a' c H) in V by lia.
    destruct (run Current d (9 + 2 * n) 0 (power_on Current i file) inp []) as [[[t2 i2] st] e2].
    cbn in V. injection V as -> -> V. exists st. destruct e2; cbn in V; try discriminate. injection V as ->. reflexivity.
  - pose proof (SimProofs.run_is_isa_trace n (SimModel.cpp_init ws) inp []) as T.
    assert (Wf : SimProofs.wf (SimModel.cpp_init ws)).
    { unfold SimProofs.wf, SimModel.cpp_init, SimModel.init. cbn. unfold W. repeat split; try lia.
      all: apply load_words_range; [|lia|exact Fw|assumption].
      all: intros b Hb; rewrite rd_empty; unfold RefRtl.M32; lia. }
    specialize (T Wf eq_refl). change (SimModel.arch_of (SimModel.cpp_init ws)) with (boot ws) in T. rewrite H in T.
    destruct (SimModel.run n 0 (SimModel.cpp_init ws) inp []) as [[[t2 i2] s2] e2]. cbn in T.
    destruct T as (-> & -> & _ & ->). exists s2. reflexivity.
Qed.

(* ------------------------------------------------------------------ non-vacuity: `proc main() is exit(7)` as compiled by xcmp *)
Lemma exit7_bytes_ok : bytes_ok exit7_file.
Proof. unfold bytes_ok, exit7_file. repeat constructor; lia. Qed.
Lemma exit7_file_ok : file_ok exit7_file.
Proof. split; [exact exit7_bytes_ok|]. split; vm_compute; [reflexivity | discriminate]. Qed.

(* the image is the nine words the header announces: the symbol table behind it ("main") is not loaded *)
Lemma exit7_loaded : header exit7_file = 9 /\ List.length (loaded_words exit7_file) = 9%nat /\ List.length exit7_file = 61%nat.
Proof. repeat split. Qed.

Lemma exit7_isa_run : exists a', Isa.run 20 (boot (loaded_words exit7_file)) no_input [] = ([Exit 7], no_input, a', Exited 7).
Proof. eexists. vm_compute. reflexivity. Qed.

Lemma exit7_well_behaved_loaded : well_behaved (loaded_words exit7_file) no_input.
Proof.
  unfold well_behaved. destruct exit7_isa_run as [a' R]. eapply safe_exited; [exact R|]. vm_compute. reflexivity.
Qed.

(* files the repaired loader rejects: main returns 1 without running *)
Lemma loader_rejects :
  tb_main Current d 100 0 (planted 0 0 false) [1; 0] no_input = None /\
  tb_main Current d 100 0 (planted 0 0 false) [] no_input = None /\
  tb_main Current d 100 0 (planted 0 0 false) [65; 13; 3; 0; 211; 0; 0; 0] no_input = None /\       (* 200001 words announced *)
  (exists r, tb_main Current d 100 0 (planted 0 0 false) exit7_file no_input = Some r /\ outcome r = ([Exit 7], TReturned 7)).
Proof. repeat split. eexists. split; [reflexivity|]. vm_compute. reflexivity. Qed.

Lemma exit7_runs : forall hidden_bits pcv av bv ov fill,
  In hidden_bits [(false, false, false, false); (true, false, true, false); (true, true, true, true); (false, true, true, false)] ->
  In (pcv, av, bv, ov, fill) [(13, 0, 0, 0, 3553874899); (12, 1, 4294967295, 0, 2155905152); (2097151, 2, 7, 4294967280, 0)] ->
  let '(a, b, c0, e) := hidden_bits in
  outcome (run Current d 60 0 (power_on Current {| i_pc := pcv; i_areg := av; i_breg := bv; i_oreg := ov; i_bg := fun _ => fill;
                                            i_hidden := {| hp_clk := a; hp_rst := b; hm_clk := c0; hm_rst := e |} |} exit7_file) no_input [])
  = ([Exit 7], TReturned 7).
Proof.
  intros h pcv av bv ov fill Hh Hp. cbn [In] in Hh, Hp.
  repeat (destruct Hh as [<-|Hh]); try contradiction;
  repeat (destruct Hp as [Hp|Hp]; [injection Hp as <- <- <- <- <-|]); try contradiction; vm_compute; reflexivity.
Qed.

(* ------------------------------------------------------------------ the tree between the two repairs ([Previous]: requests
   sampled only after reset): a binary whose first instruction is OPR SVC (EXIT 42) never had that call serviced -- it ran
   on and exited with 9; with the current gate the testbench exits with 42 as the ISA does *)
Definition first_svc_file : list Z :=
  [5; 0; 0; 0;  211; 50; 33; 48;  1; 0; 0; 0;  48; 211; 0; 0;  42; 0; 0; 0;  9; 0; 0; 0].
Lemma first_svc_witness :
  outcome (run Previous d 60 0 (power_on Previous (planted 0 0 false) first_svc_file) no_input []) = ([Exit 9], TReturned 9) /\
  outcome (run Current d 60 0 (power_on Current (planted 0 0 false) first_svc_file) no_input []) = ([Exit 42], TReturned 42) /\
  outcome (run Current d 60 0 (power_on Current (planted 13 1 true) first_svc_file) no_input []) = ([Exit 42], TReturned 42) /\
  (exists a', Isa.run 5 (boot (loaded_words first_svc_file)) no_input [] = ([Exit 42], no_input, a', Exited 42)) /\
  well_behaved (loaded_words first_svc_file) no_input.
Proof.
  split; [vm_compute; reflexivity|]. split; [vm_compute; reflexivity|]. split; [vm_compute; reflexivity|].
  assert (R : exists a', Isa.run 5 (boot (loaded_words first_svc_file)) no_input [] = ([Exit 42], no_input, a', Exited 42)) by (eexists; vm_compute; reflexivity).
  split; [exact R|]. destruct R as [a' R]. unfold well_behaved. eapply safe_exited; [exact R|]. vm_compute. reflexivity.
Qed.

(* ------------------------------------------------------------------ the tree before load() cleared the memory ([Previous]): a
   binary that reads a word outside its image -- LDAC 0; OPR SVC with the one-word image [header 1]: EXIT takes the stack
   pointer from word 1 and the exit word from word sp + 2, both outside the image -- returned power-on contents; now it
   returns 0 from every power-on state, as the ISA does on zeroed memory (shipped instance: tests/asm/hello_procedure.S) *)
Definition unwritten_read_file : list Z := [1; 0; 0; 0;  48; 211; 0; 0].
Definition filled (v : Z) : init :=
  {| i_pc := 0; i_areg := 0; i_breg := 0; i_oreg := 0; i_bg := fun _ => v;
     i_hidden := {| hp_clk := false; hp_rst := false; hm_clk := false; hm_rst := false |} |}.
Lemma clearing_witness :
  outcome (run Previous d 60 0 (power_on Previous (filled 0) unwritten_read_file) no_input []) = ([Exit 0], TReturned 0) /\
  outcome (run Previous d 60 0 (power_on Previous (filled 5) unwritten_read_file) no_input []) = ([Exit 5], TReturned 5) /\
  outcome (run Current d 60 0 (power_on Current (filled 0) unwritten_read_file) no_input []) = ([Exit 0], TReturned 0) /\
  outcome (run Current d 60 0 (power_on Current (filled 5) unwritten_read_file) no_input []) = ([Exit 0], TReturned 0) /\
  (exists a', Isa.run 5 (boot (loaded_words unwritten_read_file)) no_input [] = ([Exit 0], no_input, a', Exited 0)) /\
  file_ok unwritten_read_file /\ well_behaved (loaded_words unwritten_read_file) no_input.
Proof.
  do 4 (split; [vm_compute; reflexivity|]).
  assert (R : exists a', Isa.run 5 (boot (loaded_words unwritten_read_file)) no_input [] = ([Exit 0], no_input, a', Exited 0)) by (eexists; vm_compute; reflexivity).
  split; [exact R|]. split.
  - split; [unfold bytes_ok, unwritten_read_file; repeat constructor; lia|]. split; vm_compute; [reflexivity | discriminate].
  - destruct R as [a' R]. unfold well_behaved. eapply safe_exited; [exact R|]. vm_compute. reflexivity.
Qed.

(* ------------------------------------------------------------------ the full-strength C06 statement (the monitor without the
   READ clause) is FALSE: known finding read-overwrites-own-svc.  Image: LDAC 2; BR -> byte 8 | sp = 1 | OPR SVC at byte 8
   (READ, result slot = word 2 = this very word) | LDAC 0; OPR SVC (EXIT) + console stream word | 7.  Input '!' = STAM 1. *)
Definition tb_equals_sim_full : Prop :=
  forall i file inp n tr inp' a' c, let ws := loaded_words file in
  file_ok file -> well_behaved0 ws inp ->
  Isa.run n (boot ws) inp [] = (tr, inp', a', Exited c) ->
  (exists st, run Current d (9 + 2 * n) 0 (power_on Current i file) inp [] = (tr, inp', st, TReturned (SimModel.to_int c))) /\
  (exists s, SimModel.run n 0 (SimModel.cpp_init ws) inp [] = (tr, inp', s, SimModel.Returned (SimModel.to_int c))).

Definition read_own_svc_file : list Z :=
  [5; 0; 0; 0;  50; 150; 0; 0;  1; 0; 0; 0;  211; 0; 0; 0;  48; 211; 0; 128;  7; 0; 0; 0].
Definition bang_input : inputs := {| console := [33]; files := fun _ => [] |}.

Lemma safe0_exited : forall N a inp evs tr inp' a' c, Isa.run N a inp evs = (tr, inp', a', Exited c) ->
  safe_mon0 N a inp = true -> forall n, safe_mon0 n a inp = true.
Proof.
  induction N as [|N IH]; intros a inp evs tr inp' a' c H W n; [discriminate|].
  destruct n as [|n]; [reflexivity|].
  cbn [Isa.run] in H. cbn [safe_mon0] in W |- *.
  destruct (step a inp) as [[[a1 inp1] ev]|u]; [|discriminate].
  apply andb_prop in W. destruct W as [W2 W3]. rewrite W2. cbn [andb].
  destruct ev; try reflexivity; eapply IH; eauto.
Qed.

Theorem tb_equals_sim_full_refuted : ~ tb_equals_sim_full.
Proof.
  intros F.
  assert (FO : file_ok read_own_svc_file).
  { split; [unfold bytes_ok, read_own_svc_file; repeat constructor; lia|]. split; vm_compute; [reflexivity | discriminate]. }
  destruct (Isa.run 12 (boot (loaded_words read_own_svc_file)) bang_input []) as [[[tr inp'] a'] e] eqn:R.
  assert (E : e = Exited 2147537712) by (vm_compute in R; injection R as _ _ _ <-; reflexivity). subst e.
  assert (WB : well_behaved0 (loaded_words read_own_svc_file) bang_input).
  { unfold well_behaved0. eapply safe0_exited; [exact R|]. vm_compute. reflexivity. }
  destruct (F (planted 0 0 false) read_own_svc_file bang_input 12%nat tr inp' a' 2147537712 FO WB R) as [[st T] _].
  apply (f_equal (fun r : TbModel.result => snd r)) in T. cbn [snd] in T. vm_compute in T. discriminate.
Qed.
