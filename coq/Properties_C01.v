(* Properties_C01.v -- xcmp preserves X source semantics.
   ONLY statements, each closed by `exact <lemma>`, with Print Assumptions, plus non-vacuity examples.
   Specs: XSem.v (the X definition), Isa.v (the machine).

   Proved here for ALL programs: the spec interpreter is a function and is monotone in its fuel (a
   `Behaviour` never changes when fuel is added, so "well-defined" does not depend on the fuel chosen above
   the one that suffices).
   Proved for the FRAGMENT (expressions, statements, procedure and function calls: (4)..(4e)) and end to end for
   whole programs of the fragment (C01_program_partial): C01_full for the compile function `model_compile`, the
   executable model of xcmp's code generator with the assembler model, which tools/c01.py ties to the real xcmp
   (per procedure against `xcmp -S`, per program against the bytes of the binary); and from the SOURCE program
   (C01_source_program_partial): front-end passes (C07's theorem) + code generator + layout.
   NOT proved: C01_full for the real compiler on all programs.  Outside the fragment the property is decided per
   explored program by the extracted specs on the real compiler's binary (tools/c01.py): translation validation. *)
From Coq Require Import ZArith List String Lia.
From HexVerif Require Import WMap Isa XAst XSem XSemProps XCodegenIsa XCodegenInv XCodegenExpr XCodegenStmt AsmSpec AsmSpecProofs XCodegenBridge XCodegenCall XCodegenImage XCodegenProgram XCodegenDemo XCodegenPeephole XCodegenSource.
From HexVerif Require XConstProp XFrontPreserve.
Import ListNotations.
Local Open Scope Z_scope.

Definition console_input (inp : list Z) : inputs := {| console := inp; files := fun _ => [] |}.

Fixpoint writes (evs : list event) : list (Z * Z) :=
  match evs with
  | [] => []
  | Write b st :: r => (st, b) :: writes r
  | _ :: r => writes r
  end.

(* what an image shows on the ISA within n instructions: the (stream, byte) outputs in order, the number of
   console bytes consumed, the exit value *)
Definition isa_shows (img : list Z) (inp : list Z) (n : nat) (b : behaviour) : Prop :=
  match Isa.run n (boot img) (console_input inp) [] with
  | (evs, inp', _, Exited c) =>
      writes evs = outputs b /\
      (List.length inp - List.length (console inp'))%nat = consumed b /\
      c = exit_value b mod 4294967296
  | _ => False
  end.

(* The full property, for a compile function: every well-defined program's image shows the spec's behaviour.
   C01_full (real xcmp) is NOT proved.  What is proved is C01_program_partial below: C01_full for the compile
   function `model_compile frames false`, which adds these hypotheses to the full statement:
     - compile is the MODEL (XCodegenProgram.model_compile), not the C++ program; its input is the program as the
       code generator reads it (the output of XConstProp.front).  C01_source_program_partial below composes it with
       the front-end theorem of C07 (Properties_C07.C07_front_preserves_run_partial: CreateSymbols, ConstProp and
       OptimiseExpr preserve XSem's behaviour of whole programs), so that the statement starts from the SOURCE
       program; what remains excluded on that side are the side conditions of that theorem: names_ok (no procedure
       named ""), front_swap_safe (no `>` / `<=` whose RIGHT operand contains a call or system call while the left one
       is not a literal-like constant; no string-literal right operand under a left operand with calls; no call spelled
       4294967295(..)), and a behaviour within a quarter of the default fuel;
     - the frame numbers (size, usable slots, outgoing words per procedure) and the order of the constant pool are a
       parameter `prm : params` (xcmp computes them itself; tools/c01.py reads them off its listing): the theorem
       holds for every choice that passes the validation;
     - the program is in the FRAGMENT -- global val, var and array declarations (array lengths literal); procedures and
       functions with value and array formals and var locals that hide no global; the statements and expressions of
       (4)..(4d), including reads a[e] and assignments a[e1] := e2 of global arrays and of array formals, and array
       names (global arrays, array formals) as actuals of array formals (passed by address), and the system call get
       (console input, end of input = 255); function calls and get may stand as the whole right-hand side of an
       assignment, the whole value of a return or the whole condition of an if / while, or at the bottom of the LEFT
       spine of such an expression under + - = < ~ with simple right operands (literals, variables); such an expression
       may also be the FIRST actual of a procedure-call statement whose other actuals are simple, or the byte of a put
       statement with a simple stream; constants that do not fit an immediate
       operand must be listed in the pool parameter -- otherwise model_compile returns None;
     - model_compile's built-in VALIDATION succeeded (it returns None otherwise): the ISA's decoder reads the stub
       and every procedure's code at the layout's label positions, the loaded words hold those bytes, the stack
       pointer word and data words are in place (the word of an array's name holds the address of its cells, which
       lie between the root frame and the top of memory, apart from each other; XSem's initial state has the
       variables unassigned and the arrays empty with those lengths, and no array bears the name of a global constant
       or variable), frame numbers are consistent, and the stack has
       room for XSem's depth bound (image words + 2000 * largest frame <= initial stack pointer);
     - the code is the LOWERED code, before the three peephole rewrites (opt = false); xcmp's binary has them applied
       (opt = true reproduces its bytes: see the ties). *)
Definition C01_full (compile : program -> option (list Z)) : Prop :=
  forall p inp b img,
    XSem.run p inp = Behaviour b -> compile p = Some img -> exists n, isa_shows img inp n b.

(* (1) more fuel never changes a Behaviour *)
Theorem C01_run_fuel_monotone : forall f f' steps depth p inp b,
  (f <= f')%nat -> run_fuel f steps depth p inp = Behaviour b -> run_fuel f' steps depth p inp = Behaviour b.
Proof. exact run_fuel_monotone. Qed.
Print Assumptions C01_run_fuel_monotone.

(* (2) the budgets the checks use (smaller than the defaults) only shrink the judged set *)
Theorem C01_run_of_smaller_fuel : forall f p inp b,
  (f <= default_fuel)%nat -> run_fuel f default_steps default_depth p inp = Behaviour b -> run p inp = Behaviour b.
Proof. exact run_of_smaller_fuel. Qed.
Print Assumptions C01_run_of_smaller_fuel.

(* (3) one outcome per program and input *)
Theorem C01_run_deterministic : forall p inp o1 o2, run p inp = o1 -> run p inp = o2 -> o1 = o2.
Proof. exact run_deterministic. Qed.
Print Assumptions C01_run_deterministic.

(* (4) PARTIAL (the part of Layer C that is proved for expressions).  Input: an expression in the form the code
   generator reads it (after constant propagation and the operator rewrites: XConstProp.front, property C07).
   Fragment: literals (operand-encoded or from the constant pool), global variables, locals and value formals
   (frame words sp + k), + and - nested to any depth on both sides (right operands that need areg are spilled to
   frame temporaries), = and < (with xcmp's special cases for a literal zero, under XSem's "no comparison-difference
   overflow" -- XSem answers CmpDiffOverflow otherwise, so there is no evaluation to speak of), ~, and / or (short
   circuit) -- with the generated labels and BRZ/BRN/BR as the assembler receives them.
   and subscripts a[e] of arrays in scope (aenv: the word that holds the address of the cells; a constant subscript
   is the operand of LDAI, otherwise index + base, then LDAI 0; XSem fails outside the bounds and on an element that
   was never assigned, so nothing is claimed then; arrays_ok: the name denotes a global array g of the state
   (XCodegenExpr.resolves: a global array no local name hides, or an array formal bound to g), the word of the name
   holds the address of g's cells, which are in memory outside the temporaries and hold the assigned elements).
   `cg venv pool size nslots aenv e RA n off` is the model of ExprCodeGen / genBinopOperands / genConst / genVar and of
   the lowering of frame-base relative operands; tools/c01.py ties it to the real xcmp by comparing the extracted
   cg with the real compiler's listing on generated expressions.
   If the X spec evaluates e to z in a state whose variables the memory mr holds (vars_ok), the generated code,
   placed anywhere (code_at: the ISA's own reading of the bytes, in every memory in which the protected words P --
   code and constant pool -- are intact; labels at their positions), run on Isa.step from its first byte with a
   clear operand register, emits no event, ends just behind the code with areg = z mod 2^32, and has changed
   memory only in temporaries at frame offsets >= off.
   Hypotheses on the layout: mem[1] = sp; the temporaries (frame offsets off0 .. nslots-1, i.e. words
   sp+size-nslots .. sp+size-1-off0) lie inside memory, are not protected, are not word 1, and no variable lives
   in them; pool entries are protected words holding their constant.
   Missing for C01_full at the expression level: calls, system calls, strings. *)
Theorem C01_expr_fragment_partial :
  forall (venv : string -> option loc) (pool : Z -> option Z) (size nslots : Z) (aenv : string -> option loc) (ge : genv)
         (P : Z -> Prop) (m0 : WMap.t) (lab : label -> Z) (sp off0 : Z) (mr : WMap.t),
    C P m0 mr ->
    rd mr 1 = sp ->
    0 <= tlo size nslots sp /\ fb size sp - off0 < MEMW ->
    (forall a, T size nslots sp off0 a -> ~ P a) ->
    ~ T size nslots sp off0 1 ->
    (forall v a, pool v = Some a -> P a /\ in_mem a = true /\ rd m0 a = v mod W) ->
    (forall x a, venv x = Some (LGlobal a) -> in_mem a = true /\ ~ T size nslots sp off0 a) ->
    (forall x k, venv x = Some (LFrame k) -> in_mem (sp + k) = true /\ ~ T size nslots sp off0 (sp + k)) ->
    (forall a l, aenv a = Some l -> in_mem (waddr sp l) = true /\ ~ T size nslots sp off0 (waddr sp l)) ->
    forall (e : expr) (n : label) (off : Z) (code : list instr) (n' : label),
    cg venv pool size nslots aenv e RA n off = Some (code, n') -> off0 <= off ->
    forall (f : nat) (st : state) (z : Z) (s : state),
    eval f ge e st = Ret (Vint z) s ->
    vars_ok venv ge sp mr st ->
    arrays_ok size nslots aenv sp off0 mr st ->
    forall (pos nxt a b : Z) (inp : inputs),
    code_at (C P m0) lab pos code nxt -> 0 <= pos -> nxt < W ->
    exists (k : nat) (s' : arch),
      Isa.run k (mk pos a b 0 mr) inp [] = ([], inp, s', Cut) /\
      pc s' = nxt /\ areg s' = z mod W /\ oreg s' = 0 /\ keeps size nslots sp off mr (mem s').
Proof. exact expr_fragment. Qed.
Print Assumptions C01_expr_fragment_partial.

(* (4b) PARTIAL (the part of Layer C that is proved for statements).  Input: a statement in the form the code
   generator reads it (after XConstProp.front).  Fragment: skip, stop, return e, if (xcmp's three shapes for skip
   branches), while, sequences, assignment to a global / local / value formal, the system calls exit `0(e)` and
   put `1(e, s)` as statements, over the expressions of (4); assignment to an element a[i] := e of an array in
   scope (index; base; ADD; the address saved in the first temporary; the value; the address reloaded; STAI 0 --
   garr g: g is a global array the theorem tracks; cell_of: its cells abase g .. abase g + alen_of g - 1 are ordinary
   memory apart from everything else; Rel says that every array name in scope (aenv: a global array under its own
   name, or an array formal) denotes such a g in XSem's state and that its word holds abase g, and that every
   assigned element of every such g is in its cell); and, as the WHOLE
   right-hand side of an assignment or
   the whole value of a return, a call f(e1..en) of a function with call-free actuals (cgx; see (4c)) or the system
   call get `2(s)` with a call-free stream (genSysCall in an expression: the stream to the outgoing word sp+2, LDAC 2;
   SVC; LDAM 1; LDAI 1 -- the ISA puts the byte into the outgoing word sp+1; XSem: a console byte mod 256, or 255 at the
   end of the input without consuming; file streams are Unsupported in XSem, nothing claimed).
   LEFT-SPINE calls (cgl): a right-hand side, a return value or the condition of an if / while may also be an expression
   with such a call or get at the bottom of its left spine: `l + r`, `l - r`, `l = r`, `l < r` with r simple (a literal
   or a variable; r = 0 has xcmp's special case) and `~ l`, nested on the left to any depth, e.g.
   `x := f(a) + x`, `return (get(0) - 48) + d`, `while ~(get(0) = 255) do ..`.  genBinopOperands then computes the left
   operand first and loads the simple right one into breg afterwards, which is XSem's order (operands [l; r]: left to
   right; XSem answers OrderDependent when the call writes what r reads, so nothing is claimed then; when the call
   halts XSem accepts it only if r is a literal).  A call in a RIGHT operand, in an operand that needs a temporary or in a
   subscript is outside.
   CALL AS FIRST ACTUAL (cargs1): in a procedure-call statement p(e1, e2, .., en) the FIRST actual may be such a left-spine
   expression when e2..en are simple (literals, variables, array names): genCallActuals computes e1 first and saves it in
   the first temporary, loadActuals copies it to its outgoing word (LDAM 1; LDAI t; LDBM 1; STAI k) and then stores the
   simple actuals -- XSem's order.  The same for the system call put as a statement: in `put(e, s)` the byte e may be
   such a left-spine expression when the stream s is simple (`put(f(x) + 48, 0)`).  Calls in later actuals, in actuals
   of function calls, of exit and of get are outside.  `cs` models StmtCodeGen and genSysCall (call-free
   actuals) as handed to OptimiseDirectives, i.e. BEFORE its three peephole rewrites (tools/c01.py ties
   prologue ++ cs body ++ epilogue, with the peepholes applied by the executable `peephole`, to `xcmp -S`).
   stmt_ok f: whatever XSem.exec with fuel f answers for the statement from a state st related to the memory m
   (Rel: protected words intact, mem[1] = sp, every variable's word holds its value, a frame exists, and no local
   constant of the running frame bears the name of a callable procedure), the code run
   by Isa.run from its first byte (any areg, breg), with the console holding what XSem has not consumed yet
   (console inp = input st), does the same:
     Ret Normal st'       : the Write events among the events it emits are exactly the outputs XSem added, every input
                            byte is either still in XSem's input or counted in ncons (post), the machine's console is
                            then XSem's remaining input (adv inp st'; the files are untouched), it
                            ends just behind the code, in a memory related to st';
     Ret (Returned v) st' : likewise, but ends at the procedure's exit label with areg = v mod 2^32;
     Halt c st'           : it emits those events (hpost: outputs and input accounting as XSem says) and then
                            performs the exit system call with value c mod 2^32;
     Fail _               : nothing is claimed (the program is not well-defined / out of fuel).
   By induction on the fuel, so for any number of loop iterations and any nesting.
   Layout hypotheses: temporaries and outgoing area (sp .. sp+og-1) inside memory, unprotected, not word 1,
   disjoint from each other and from the variables; distinct variables have distinct words; sp+2 usable by `stop`.
   Missing for C01_full: calls (and get) in a right operand, under and / or / unary minus, in subscripts, and as actuals
   other than the first actual of a procedure-call statement or the byte of a put statement
   (procedure-call statements, function calls as a whole right-hand side and on the left spine: see above, (4c), (4d)),
   local arrays and strings, the peephole pass, and the layout of whole programs. *)
Theorem C01_stmt_fragment_partial :
  forall (venv aenv : string -> option loc) (garr : string -> bool) (abase alen_of : string -> Z) (pool : Z -> option Z) (size nslots off0 og : Z)
         (exitl : label) (ge : genv) (P : Z -> Prop) (m0 : WMap.t) (lab : label -> Z) (sp : Z),
    0 <= tlo size nslots sp /\ fb size sp - off0 < MEMW ->
    (forall a, T size nslots sp off0 a -> ~ P a) ->
    ~ T size nslots sp off0 1 ->
    (forall a, O og sp a -> in_mem a = true /\ ~ P a /\ a <> 1 /\ ~ T size nslots sp off0 a) ->
    in_mem (sp + 2) = true /\ ~ P (sp + 2) /\ sp + 2 <> 1 ->
    (forall v a, pool v = Some a -> P a /\ in_mem a = true /\ rd m0 a = v mod W) ->
    (forall x l, venv x = Some l ->
       in_mem (addr_of sp l) = true /\ ~ scratch no_free size nslots off0 og sp (addr_of sp l) /\ ~ P (addr_of sp l) /\ addr_of sp l <> 1) ->
    (forall x y lx ly, venv x = Some lx -> venv y = Some ly -> x <> y -> addr_of sp lx <> addr_of sp ly) ->
    (forall a l, aenv a = Some l ->
       in_mem (waddr sp l) = true /\ ~ scratch no_free size nslots off0 og sp (waddr sp l) /\ ~ P (waddr sp l) /\ waddr sp l <> 1 /\
       ~ cell_of garr abase alen_of (waddr sp l) /\ (forall x lx, venv x = Some lx -> addr_of sp lx <> waddr sp l)) ->
    (forall c, cell_of garr abase alen_of c ->
       in_mem c = true /\ ~ scratch no_free size nslots off0 og sp c /\ ~ P c /\ c <> 1 /\ (forall x lx, venv x = Some lx -> addr_of sp lx <> c)) ->
    (forall g g' i i', garr g = true -> garr g' = true -> 0 <= i < alen_of g -> 0 <= i' < alen_of g' ->
       abase g + i = abase g' + i' -> g = g' /\ i = i') ->
    forall f, stmt_ok no_procs no_free any_depth venv aenv garr abase alen_of pool size nslots off0 og exitl ge P m0 lab sp f.
Proof. exact stmt_correct. Qed.
Print Assumptions C01_stmt_fragment_partial.

(* what stmt_ok says, spelled out for a statement that terminates normally (for any table of callable procedures
   pinfo, free-stack region Fr and call-depth invariant Dq) *)
Theorem C01_stmt_normal_partial :
  forall pinfo Fr Dq venv aenv garr abase alen_of pool size nslots off0 og exitl ge P m0 lab sp f,
    stmt_ok pinfo Fr Dq venv aenv garr abase alen_of pool size nslots off0 og exitl ge P m0 lab sp f ->
    forall s n code n' st st', cs pinfo venv pool size nslots aenv off0 og exitl s n = Some (code, n') ->
    exec f ge s st = Ret Normal st' ->
    forall m pos nxt a b inp, Rel pinfo Dq venv aenv garr abase alen_of ge P m0 sp st m -> console inp = input st ->
    code_at (C P m0) lab pos code nxt ->
    0 <= pos -> nxt < W -> 0 <= lab exitl < W ->
    exists outs a' b' m',
      runs inp (mk pos a b 0 m) outs (adv inp st') (mk nxt a' b' 0 m') /\
      Rel pinfo Dq venv aenv garr abase alen_of ge P m0 sp st' m' /\ post st st' outs /\
      frame_only Fr venv garr abase alen_of size nslots off0 og sp m m'.
Proof. exact stmt_normal. Qed.
Print Assumptions C01_stmt_normal_partial.

(* (4c) PARTIAL: procedure-call statements `p(e1, .., en)` with call-free actuals (genProcCall: the actuals are stored
   to the outgoing words sp+1.., then LDAP link; BR entry; link:), relative to a specification of what the callee
   does.  `call_spec f'`: entered at its entry label with the return address in areg and the actuals stored, the
   callee comes back to that address with the caller's relation restored for the state XSem's `invoke` (fuel f')
   yields, having emitted exactly the outputs, and having changed only the caller's outgoing area, the free stack
   Fr below the frame, or words of variables in scope.  If every procedure in pinfo meets call_spec for all smaller
   fuels, the statement theorem holds for bodies that contain such calls (any nesting, loops, recursion through
   the fuel).  Functions: `x := f(e1..en)` and `return f(e1..en)` (genFuncCall: the actuals go to sp+2.., branch and
   link, then LDAM 1; LDAI 1 reads the result from the outgoing word sp+1); call_spec for a function additionally
   says that XSem's result is an integer z and that word sp+1 holds z mod 2^32 at the return.
   An actual that is the name of an array in scope (aenv) is passed by address: its word is loaded (LDAM w for a
   global array, LDAM 1; LDAI k for an array formal) and stored to the outgoing word; args_stored / arg_ok: the
   outgoing word of an actual holds z mod 2^32 for an integer z, abase g for a global array g.
   That every simple procedure and function meets call_spec is (4d).  Missing: calls inside operands / actuals. *)
Theorem C01_stmt_calls_partial :
  forall (pinfo : string -> option pframe) (Fr : Z -> Prop) (Dq : nat -> Prop)
         (venv aenv : string -> option loc) (garr : string -> bool) (abase alen_of : string -> Z) (pool : Z -> option Z) (size nslots off0 og : Z)
         (exitl : label) (ge : genv) (P : Z -> Prop) (m0 : WMap.t) (lab : label -> Z) (sp : Z),
    0 <= tlo size nslots sp /\ fb size sp - off0 < MEMW ->
    (forall a, T size nslots sp off0 a -> ~ P a) ->
    ~ T size nslots sp off0 1 ->
    (forall a, O og sp a -> in_mem a = true /\ ~ P a /\ a <> 1 /\ ~ T size nslots sp off0 a) ->
    (forall a, Fr a -> ~ P a /\ a <> 1) ->
    in_mem (sp + 2) = true /\ ~ P (sp + 2) /\ sp + 2 <> 1 ->
    (forall v a, pool v = Some a -> P a /\ in_mem a = true /\ rd m0 a = v mod W) ->
    (forall x l, venv x = Some l ->
       in_mem (addr_of sp l) = true /\ ~ scratch Fr size nslots off0 og sp (addr_of sp l) /\ ~ P (addr_of sp l) /\ addr_of sp l <> 1) ->
    (forall x y lx ly, venv x = Some lx -> venv y = Some ly -> x <> y -> addr_of sp lx <> addr_of sp ly) ->
    (forall a l, aenv a = Some l ->
       in_mem (waddr sp l) = true /\ ~ scratch Fr size nslots off0 og sp (waddr sp l) /\ ~ P (waddr sp l) /\ waddr sp l <> 1 /\
       ~ cell_of garr abase alen_of (waddr sp l) /\ (forall x lx, venv x = Some lx -> addr_of sp lx <> waddr sp l)) ->
    (forall c, cell_of garr abase alen_of c ->
       in_mem c = true /\ ~ scratch Fr size nslots off0 og sp c /\ ~ P c /\ c <> 1 /\ (forall x lx, venv x = Some lx -> addr_of sp lx <> c)) ->
    (forall g g' i i', garr g = true -> garr g' = true -> 0 <= i < alen_of g -> 0 <= i' < alen_of g' ->
       abase g + i = abase g' + i' -> g = g' /\ i = i') ->
    (forall p pi, pinfo p = Some pi -> 0 <= lab (pf_entry pi) < W) ->
    (forall p pi, pinfo p = Some pi -> assoc p (g_vals ge) = None) ->
    forall f, (forall f', (f' < f)%nat -> call_spec pinfo Fr Dq venv aenv garr abase alen_of size nslots off0 og ge P m0 lab sp f') ->
    stmt_ok pinfo Fr Dq venv aenv garr abase alen_of pool size nslots off0 og exitl ge P m0 lab sp f.
Proof. exact stmt_correct_calls. Qed.
Print Assumptions C01_stmt_calls_partial.

(* (4d) PARTIAL: the program-level induction -- procedures and functions meet the call specification, so (4c)
   holds unconditionally for bodies with procedure-call statements and function calls as right-hand sides,
   recursion included.
   Setting.  pinfo is the table of callable procedures and functions.  Each is `simple`: value and array
   formals fn and var locals ln only, names pairwise distinct, none of them the name of a global variable (no
   shadowing of globals; tools/c01.py's generator does produce shadowing, it is outside this theorem) or of a global
   array.  Global arrays (aaddr: the data word of the name; abase, alen_of: its cells) are visible in every frame:
   the word of the name lies with the globals below stack_lo, the cells in [stack_hi, 200000) above the stack, the
   cells of different arrays apart; frames lie in [stack_lo, stack_hi).  Its code
   at its entry label is  pro size ++ cs body ++ epi_of is_func exitl size  -- xcmp's prologue (LDBM 1; STAI 0;
   LDAC -size; ADD; STAM 1), the body as `cs` generates it in the frame environment frame_venv (local j at
   sp+size-1-j, formal i at sp+size+1+i -- sp+size+2+i in a function; for an array formal that word holds the
   address of the cells of the array it is bound to (frame_aenv) --, globals at their DATA words), the exit label
   and the epilogue (LDBM 1; [function: STAI size+1, the result to the caller's outgoing word 1;] LDAC size; ADD;
   STAM 1; LDBI size; BRB); this is the model's lowered procedure (C01_cproc_lowered_shape), BEFORE the peepholes.
   Frame numbers: 0 <= size <= maxframe, locals <= nslots, nslots + og <= size (size 0: a leaf procedure without
   locals, for which xcmp leaves the stack pointer alone: prologue LDBM 1; STAI 0, epilogue LDBM 1; LDBI 0; BRB).  Globals lie below stack_lo, the
   region [stack_lo, 2^18) is unprotected, word 1 is unprotected, no global variable and no procedure of the table
   bears the name of a global `val` constant.
   frame_ok .. sp: a frame of such a procedure at stack pointer sp >= stack_lo whose formals fit below the top of
   memory.  The relation Rel of that frame carries the stack budget
        Dq_of: stack_lo + (g_maxdepth ge - depth) * maxframe <= sp,
   which is preserved into callees because XSem refuses calls beyond g_maxdepth (DepthExceeded = Fail, nothing
   claimed): so the stack never runs below stack_lo in a run XSem accepts.
   Claim: for every fuel f and every such frame, stmt_ok holds for the statements of the fragment of (4b) PLUS
   procedure-call statements p(e1..en) and right-hand sides f(e1..en) with call-free actuals, p, f in pinfo
   (C01_calls_partial); a function body that ends without `return` is a Fail in XSem (nothing claimed); and a call made from
   such a frame (control at the callee's entry label, link address in areg, actuals in the outgoing words) returns
   to the link address with the caller's relation restored for the state XSem's `invoke` yields
   (C01_call_ok_partial).  Proof: strong induction on the fuel, alternating the two statements; the callee's
   relation is built from XSem.enter (locals undefined, formals = actuals; an array formal is bound to the global
   array the actual denotes, XSem refuses anything else), the caller's is rebuilt from the callee's frame_only.
   Missing for C01_full: calls inside operands and actuals (needs a commutation theorem for XSem's operand
   evaluation order), proc/func formals and local arrays (XSem itself rejects local arrays), string literals as
   array actuals, shadowing of globals, the peephole pass for whole
   images, get, strings. *)
Theorem C01_calls_partial :
  forall (ge : genv) (gaddr aaddr : string -> option Z) (abase alen_of : string -> Z) (pool : Z -> option Z) (P : Z -> Prop)
         (m0 : WMap.t) (lab : label -> Z) (pinfo : string -> option pframe) (stack_lo stack_hi maxframe : Z),
    (forall p pi, pinfo p = Some pi ->
       0 <= lab (pf_entry pi) /\
       exists pr fn ln L bc n' endp,
         find_proc p (g_procs ge) = Some pr /\ pf_isfunc pi = is_func pr /\ simple_proc gaddr aaddr pr fn ln /\
         numbers_ok maxframe pr L /\
         cs pinfo (frame_venv gaddr pr (pl_size L)) pool (pl_size L) (pl_nslots L) (frame_aenv aaddr pr (pl_size L)) (first_temp pr) (pl_og L)
            (pl_exit L) (body pr) (pl_n0 L) = Some (bc, n') /\
         code_at (C P m0) lab (lab (pf_entry pi)) (pro (pl_size L) ++ bc ++ epi_of (is_func pr) (pl_exit L) (pl_size L)) endp /\ endp < W) ->
    (forall x a, gaddr x = Some a -> in_mem a = true /\ ~ P a /\ a <> 1 /\ a < stack_lo /\ assoc x (g_vals ge) = None) ->
    (forall x y a b, gaddr x = Some a -> gaddr y = Some b -> x <> y -> a <> b) ->
    1 < stack_lo /\ (forall a, stack_lo <= a < MEMW -> ~ P a) ->
    ~ P 1 ->
    (forall v a, pool v = Some a -> P a /\ in_mem a = true /\ rd m0 a = v mod W) ->
    (forall p pi, pinfo p = Some pi -> assoc p (g_vals ge) = None) ->
    0 <= maxframe ->
    stack_hi <= MEMW ->
    (forall a w, aaddr a = Some w ->
       in_mem w = true /\ ~ P w /\ w <> 1 /\ w < stack_lo /\ (forall x g, gaddr x = Some g -> g <> w) /\
       forall i, 0 <= i < alen_of a -> stack_hi <= abase a + i < MEMW /\ ~ P (abase a + i)) ->
    (forall a w a' w' i i', aaddr a = Some w -> aaddr a' = Some w' -> 0 <= i < alen_of a -> 0 <= i' < alen_of a' ->
       abase a + i = abase a' + i' -> a = a' /\ i = i') ->
    forall f pr fn ln L sp, frame_ok gaddr aaddr stack_lo stack_hi maxframe pr fn ln L sp ->
      stmt_ok pinfo (Fr_of stack_lo sp) (Dq_of ge stack_lo maxframe sp) (frame_venv gaddr pr (pl_size L)) (frame_aenv aaddr pr (pl_size L))
              (garr_of aaddr) abase alen_of pool (pl_size L) (pl_nslots L) (first_temp pr) (pl_og L) (pl_exit L) ge P m0 lab sp f.
Proof. exact stmt_calls_closed. Qed.
Print Assumptions C01_calls_partial.

Theorem C01_call_ok_partial :
  forall (ge : genv) (gaddr aaddr : string -> option Z) (abase alen_of : string -> Z) (pool : Z -> option Z) (P : Z -> Prop)
         (m0 : WMap.t) (lab : label -> Z) (pinfo : string -> option pframe) (stack_lo stack_hi maxframe : Z),
    (forall p pi, pinfo p = Some pi ->
       0 <= lab (pf_entry pi) /\
       exists pr fn ln L bc n' endp,
         find_proc p (g_procs ge) = Some pr /\ pf_isfunc pi = is_func pr /\ simple_proc gaddr aaddr pr fn ln /\
         numbers_ok maxframe pr L /\
         cs pinfo (frame_venv gaddr pr (pl_size L)) pool (pl_size L) (pl_nslots L) (frame_aenv aaddr pr (pl_size L)) (first_temp pr) (pl_og L)
            (pl_exit L) (body pr) (pl_n0 L) = Some (bc, n') /\
         code_at (C P m0) lab (lab (pf_entry pi)) (pro (pl_size L) ++ bc ++ epi_of (is_func pr) (pl_exit L) (pl_size L)) endp /\ endp < W) ->
    (forall x a, gaddr x = Some a -> in_mem a = true /\ ~ P a /\ a <> 1 /\ a < stack_lo /\ assoc x (g_vals ge) = None) ->
    (forall x y a b, gaddr x = Some a -> gaddr y = Some b -> x <> y -> a <> b) ->
    1 < stack_lo /\ (forall a, stack_lo <= a < MEMW -> ~ P a) ->
    ~ P 1 ->
    (forall v a, pool v = Some a -> P a /\ in_mem a = true /\ rd m0 a = v mod W) ->
    (forall p pi, pinfo p = Some pi -> assoc p (g_vals ge) = None) ->
    0 <= maxframe ->
    stack_hi <= MEMW ->
    (forall a w, aaddr a = Some w ->
       in_mem w = true /\ ~ P w /\ w <> 1 /\ w < stack_lo /\ (forall x g, gaddr x = Some g -> g <> w) /\
       forall i, 0 <= i < alen_of a -> stack_hi <= abase a + i < MEMW /\ ~ P (abase a + i)) ->
    (forall a w a' w' i i', aaddr a = Some w -> aaddr a' = Some w' -> 0 <= i < alen_of a -> 0 <= i' < alen_of a' ->
       abase a + i = abase a' + i' -> a = a' /\ i = i') ->
    forall f pr fn ln L sp, frame_ok gaddr aaddr stack_lo stack_hi maxframe pr fn ln L sp ->
      call_spec pinfo (Fr_of stack_lo sp) (Dq_of ge stack_lo maxframe sp) (frame_venv gaddr pr (pl_size L)) (frame_aenv aaddr pr (pl_size L))
                (garr_of aaddr) abase alen_of (pl_size L) (pl_nslots L) (first_temp pr) (pl_og L) ge P m0 lab sp f.
Proof. exact call_ok. Qed.
Print Assumptions C01_call_ok_partial.

(* the code shape assumed in (4d) is the executable model's lowered procedure (exit label 0, body labels from 1,
   nslots = size), which tools/c01.py compares with `xcmp -S` after the model's peephole pass *)
Theorem C01_cproc_lowered_shape : forall pinfo gaddr aaddr pool p size og code,
  cproc_lowered pinfo gaddr aaddr pool p size og = Some code ->
  exists bc n', cs pinfo (frame_venv gaddr p size) pool size size (frame_aenv aaddr p size) (first_temp p) og 0 (body p) 1 = Some (bc, n') /\
                code = pro size ++ bc ++ epi_of (is_func p) 0 size.
Proof. exact cproc_lowered_simple. Qed.
Print Assumptions C01_cproc_lowered_shape.

(* (4e) NON-VACUITY of (4d): a program with a non-empty procedure table for which every hypothesis is discharged.
   The program (coq/XCodegenDemo.v):  val put = 1; val get = 2; var g; array a[4]; var ch;
       func fd(val k) is if k = 0 then return 7 else return fd(k - 1)
       proc cd(val n, array b) is var t;
         { t := n + 48; put(t, 0); g := g + n; b[n] := t; if n = 0 then skip else cd(n - 1, b) }
       proc main() is { g := 0; cd(fd(0) - 4, a); g := fd(g) + g; g := g + a[2]; ch := get(0) + 1; put((fd(0) + ch) - 7, 0) }
   -- a recursive procedure with a value formal, an array formal and a local that assigns elements of the global array
   it was handed by address and passes it on, a recursive
   function used as `return f(..)`, as the left operand in `x := f(..) + x`, in the first actual `cd(fd(0) - 4, a)` and in the byte of `put((fd(0) + ch) - 7, 0)`, a read
   of the array, and one byte read from the console by get (the left operand of `get(0) + 1`) and written back.  XConstProp.front only
   turns put(..) and get(..) into the system calls (C01_demo_front); with the console bytes 66 67 XSem gives it the
   outputs "3210C" and one byte consumed (C01_demo_spec).
   Its image is laid out as xcmp does (BR _start; DATA 199993; g; a's word = 199996; _start: LDAP _exit; BR main; ..)
   from the model's lowered code -- prologue ++ cs body ++ exit label ++ epilogue, BEFORE the peepholes, which is the
   code (4d) speaks of -- by the assembler model AsmLayout.assemble_directives (C01_demo_assembled: 228 bytes).  The
   ISA runs that image from reset to the spec's behaviour (C01_demo_image_runs, by computation).
   prog_hyps is the conjunction of the hypotheses of C01_calls_partial, word for word (C01_calls_of_hyps derives the
   theorem from it); C01_calls_nonvacuous_hyps: it holds for the demo, with P = the code words 6..56, m0 = the loaded
   image, lab = the label positions of the layout, stack_lo = 1000, stack_hi = 199996, maxframe = 6, depth bound 10.  The code_at
   hypotheses are established by running the ISA's own decoder over the image (XCodegenImage.code_chk_sound through
   C01_instr_at_of_decode).
   C01_calls_nonvacuous_run: the theorem applied.  From main's frame (mem[1] = 199988, g and ch unassigned, a empty,
   the console holding 66 67) the ISA runs the code of main's body
   `g := 0; cd(fd(0) - 4, a); g := fd(g) + g; g := g + a[2]; ch := get(0) + 1; put((fd(0) + ch) - 7, 0)` at bytes [140, 219) -- the
   call of fd whose result less 4 is the first actual of cd, four nested
   activations of cd, each with prologue, output, an element assignment through the array formal, recursive call
   handing the array on, and epilogue, then seven of
   the function fd, each handing its result back through the caller's outgoing word, then the array read, then get
   and put -- to the end of that code; the outputs among its events are exactly 51, 50, 49, 48, 67 on stream 0, the
   console is left with the byte 67; mem[1] is 199988
   again, g's word holds 63 = fd(6) + 6 + a[2], ch's word 67 and the cell of a[2] (word 199998) holds 50.  Not by running the ISA: by
   C01_calls_partial from XSem's run of the statement.
   demo_cproc_cd / _main / _fd (XCodegenDemo.v): what the executable model (with its peephole pass) generates for
   the three; tools/c01.py (coq_demo_listing_tie) re-checks these instruction lists, as written in coq/XCodegenDemo.v,
   against `xcmp -S` of the real compiler on every run (identical up to label names). *)
Theorem C01_calls_of_hyps : forall ge gaddr aaddr abase alen_of pool P m0 lab pinfo stack_lo stack_hi maxframe,
  prog_hyps ge gaddr aaddr abase alen_of pool P m0 lab pinfo stack_lo stack_hi maxframe ->
  forall f pr fn ln L sp, frame_ok gaddr aaddr stack_lo stack_hi maxframe pr fn ln L sp ->
    stmt_ok pinfo (Fr_of stack_lo sp) (Dq_of ge stack_lo maxframe sp) (frame_venv gaddr pr (pl_size L)) (frame_aenv aaddr pr (pl_size L))
            (garr_of aaddr) abase alen_of pool (pl_size L) (pl_nslots L) (first_temp pr) (pl_og L) (pl_exit L) ge P m0 lab sp f.
Proof. exact stmt_calls_of_hyps. Qed.
Print Assumptions C01_calls_of_hyps.

Theorem C01_calls_nonvacuous_hyps :
  prog_hyps demo_ge demo_gaddr demo_aaddr demo_abase demo_alen demo_pool demo_P demo_m0 demo_lab demo_pinfo demo_stack_lo demo_stack_hi demo_maxframe.
Proof. exact demo_hyps. Qed.
Print Assumptions C01_calls_nonvacuous_hyps.

Theorem C01_calls_nonvacuous_run : forall a b inp, console inp = [66; 67] -> exists evs a' b' m',
  runs inp (mk 140 a b 0 (wr demo_m0 1 199988)) evs {| console := [67]; files := files inp |} (mk 219 a' b' 0 m') /\
  writes evs = [(0, 51); (0, 50); (0, 49); (0, 48); (0, 67)] /\
  rd m' 1 = 199988 /\ rd m' 2 = 63 /\ rd m' 4 = 67 /\ rd m' 199998 = 50.
Proof. exact demo_main_body_runs. Qed.
Print Assumptions C01_calls_nonvacuous_run.

Example C01_demo_front : XConstProp.front demo_src = XConstProp.COk demo.
Proof. exact demo_front. Qed.
Example C01_demo_spec : run_fuel 100 1000 10 demo [66; 67] =
  Behaviour {| outputs := [(0, 51); (0, 50); (0, 49); (0, 48); (0, 67)]; consumed := 1; exit_value := 0 |}.
Proof. exact demo_spec. Qed.
Example C01_demo_assembled : exists o, AsmLayout.assemble_directives demo_dirs [] = AsmModel.Ok o /\ AsmLayout.ao_image o = demo_bytes /\
  map (fun l => (l, lab_of (AsmLayout.ao_layout o) l)) demo_label_names = demo_labs.
Proof. exact demo_assembled. Qed.
Example C01_demo_image_runs : isa_shows (words_of_bytes demo_bytes) [66; 67] 700
  {| outputs := [(0, 51); (0, 50); (0, 49); (0, 48); (0, 67)]; consumed := 1; exit_value := 0 |}.
Proof. vm_compute. repeat split. Qed.

(* (4f) PARTIAL, the end-to-end statement: C01_full for the model compile function, for every choice of frame
   numbers.  model_compile prm false p (XCodegenProgram.v) lays p out as xcmp does -- BR _start; DATA <initial
   stack pointer = 200000 - array cells - 3>; per global variable a DATA 0, per global array a DATA <address of its
   cells> (the cells end at the top of memory, first declared highest); per procedure the pool constants first used in it and one DATA 0 per local
   variable; _start: LDAP _exit; BR main; _exit: LDBM 1; LDAC 0;
   STAI 2; SVC; each procedure's prologue ++ cs body ++ exit label ++ epilogue at its entry label -- through the
   assembler model AsmLayout.assemble_directives, validates the result by computation and returns its words.
   Claim: if XSem.run p inp = Behaviour b (fuel 10^6, 2*10^6 statements, depth 2000) and model_compile returns an
   image, then the ISA started on that image (Isa.boot: words at address 0, registers clear, pc = 0) performs,
   within some number of instructions, exactly the outputs of b in order, consumes as many console bytes as b says
   (`get` is in the fragment: the console the ISA is left with is XSem's remaining input) and exits with b's exit value.
   Proof: reset, BR _start, the stub's LDAP _exit; BR main (one instruction each, from the validated decoder
   facts); main called from a two-word root frame at 199997 by C01_call_ok_partial, whose hypotheses are derived
   from the validation (the_hyps); the exit stub, or the program's own exit.
   See the comment at C01_full for exactly what this adds to the full statement.
   C01_program_nonvacuous: the theorem applied to the demo program of (4e) -- its validated image demo_image
   (57 words), started with the console bytes 66 67, shows the spec's behaviour: outputs "3210C", one byte consumed,
   exit 0; C01_program_nonvacuous_eof: started with an empty console it writes "3210" and the byte 0 (get answers 255 at
   the end of the input, ch = 256) and consumes nothing.  C01_demo_model_image: model_compile returns that image.
   demo_model_image_opt (XCodegenDemo.v): with opt = true it returns 55 words, which tools/c01.py re-checks against
   the binary the real xcmp writes for the same source (coq_demo_image_tie), and does the same for generated
   fragment programs (program_model_tie: byte-identical images counted in the evidence). *)
Theorem C01_program_partial : forall prm : params, C01_full (model_compile prm false).
Proof. exact program_correct. Qed.
Print Assumptions C01_program_partial.

Theorem C01_program_nonvacuous : exists n,
  isa_shows demo_image [66; 67] n {| outputs := [(0, 51); (0, 50); (0, 49); (0, 48); (0, 67)]; consumed := 1; exit_value := 0 |}.
Proof. exact demo_end_to_end. Qed.
Print Assumptions C01_program_nonvacuous.
Theorem C01_program_nonvacuous_eof : exists n,
  isa_shows demo_image [] n {| outputs := [(0, 51); (0, 50); (0, 49); (0, 48); (0, 0)]; consumed := 0; exit_value := 0 |}.
Proof. exact demo_end_to_end_eof. Qed.
Print Assumptions C01_program_nonvacuous_eof.

(* (4f') PARTIAL, from the SOURCE program: the composition of the front-end theorem of C07 with (4f).  p is the source
   program (the AST XFront's parser model produces from the X text; C09 ties that reader to the real lexer / parser);
   front p = COk p' are the front-end passes CreateSymbols, ConstProp and OptimiseExpr (XConstProp.front), which
   Properties_C07.C07_front_preserves_run_partial shows to preserve XSem's behaviour under the decidable side
   conditions names_ok p and front_swap_safe p and within a quarter of the default fuel; model_compile then lays p'
   out.  Claim: if XSem gives the SOURCE program p the behaviour b (fuel f with 4 f <= 10^6, default steps and
   depth), then the ISA booted on the image shows b.  See the comment at C01_full for what model_compile and the side
   conditions exclude.  C01_source_program_nonvacuous: the theorem applied to the demo's source demo_src itself (its
   side conditions hold by computation; XSem runs demo_src -- put and get still calls through the vals -- to "3210C"
   with one byte consumed). *)
Theorem C01_source_program_partial :
  forall (prm : params) (p p' : program) (f : nat) (inp : list Z) (b : behaviour) (img : list Z),
    XConstProp.front p = XConstProp.COk p' -> XFrontPreserve.names_ok p = true -> XFrontPreserve.front_swap_safe p = true -> (f * 4 <= default_fuel)%nat ->
    run_fuel f default_steps default_depth p inp = Behaviour b ->
    model_compile prm false p' = Some img -> exists n, isa_shows img inp n b.
Proof. exact source_program_correct. Qed.
Print Assumptions C01_source_program_partial.

Theorem C01_source_program_nonvacuous : exists n,
  isa_shows demo_image [66; 67] n {| outputs := [(0, 51); (0, 50); (0, 49); (0, 48); (0, 67)]; consumed := 1; exit_value := 0 |}.
Proof. exact demo_source_end_to_end. Qed.
Print Assumptions C01_source_program_nonvacuous.
Example C01_source_demo_hyps :
  XConstProp.front demo_src = XConstProp.COk demo /\ XFrontPreserve.names_ok demo_src = true /\ XFrontPreserve.front_swap_safe demo_src = true /\
  run_fuel 100 default_steps default_depth demo_src [66; 67] =
    Behaviour {| outputs := [(0, 51); (0, 50); (0, 49); (0, 48); (0, 67)]; consumed := 1; exit_value := 0 |} /\
  model_compile demo_frames false demo = Some demo_image.
Proof. exact (conj demo_front (conj (proj1 demo_src_side_conditions) (conj (proj2 demo_src_side_conditions) (conj demo_src_spec demo_model_image)))). Qed.

Example C01_demo_model_image : model_compile demo_frames false demo = Some demo_image.
Proof. exact demo_model_image. Qed.

(* (4g) PARTIAL: the three peephole rewrites of OptimiseDirectives, locally.  The executable pass `peephole`
   (XCodegenStmt.v; with it model_compile reproduces xcmp's bytes) applies nothing but three rules, left to right
   (C01_peephole_rewrites):
       rule 1   BR l; LABEL l                   ->  LABEL l
       rule 2   STAM 1; LDAM 1                  ->  STAM 1
       rule 3   LDBM 1; STAI x; LDAM 1; LDAI x  ->  LDBM 1; STAI x
   and for each rule, wherever the decoder reads the LEFT block (code_at, any image, any position), the machine
   runs silently through it from every state to exactly the state the RIGHT block's instructions give
   (block_sem: registers and memory; rule 1: nothing changes) -- the removed instructions are no-ops there.
   Rule 3 needs the stored frame word to be in memory and not to be the stack-pointer word 1 itself (otherwise the
   rewrite would be unsound: the reload would use the new stack pointer); every frame xcmp lays out satisfies it.
   C is any class of memories closed under storing to word 1 (rule 2) / containing the memory after the store
   (rule 3) -- e.g. C P m0 of (4) with word 1 and the frame word unprotected.
   Missing: that rewriting a whole procedure preserves the behaviour of the whole image.  The rewrite shifts every
   later instruction, so label positions -- and the link addresses held in registers and frame words -- differ
   between the lowered and the optimised image; a whole-image simulation has to know which words hold code
   addresses.  C01_program_partial is about the lowered image; the optimised image is tied to xcmp's bytes, and
   tools/c01.py runs both images of every generated program on the extracted ISA and compares what they show. *)
Theorem C01_peephole_rewrites : forall f c, rewrites c (peephole f c).
Proof. exact peephole_rewrites. Qed.
Print Assumptions C01_peephole_rewrites.

Theorem C01_peephole_rule1_partial : forall (C : WMap.t -> Prop) (lab : label -> Z) l pos nxt m a b inp,
  code_at C lab pos [BR l; LABEL l] nxt -> C m -> nxt < W -> 0 <= pos ->
  taus inp (mk pos a b 0 m) (mk nxt a b 0 m).
Proof. exact rule1. Qed.
Print Assumptions C01_peephole_rule1_partial.

Theorem C01_peephole_rule2_partial : forall (C : WMap.t -> Prop) (lab : label -> Z),
  (forall m v, C m -> C (wr m 1 v)) ->
  forall pos nxt m a b inp,
  code_at C lab pos [STAM 1; LDAM 1] nxt -> C m -> nxt < W ->
  taus inp (mk pos a b 0 m) (let '(a', b', m') := block_sem [STAM 1] a b m in mk nxt a' b' 0 m').
Proof. exact rule2. Qed.
Print Assumptions C01_peephole_rule2_partial.

Theorem C01_peephole_rule3_partial : forall (C : WMap.t -> Prop) (lab : label -> Z) x pos nxt m a b inp,
  code_at C lab pos [LDBM 1; STAI x; LDAM 1; LDAI x] nxt -> C m -> nxt < W ->
  in_mem (wrap (rd m 1 + x)) = true -> wrap (rd m 1 + x) <> 1 -> C (wr m (wrap (rd m 1 + x)) a) ->
  taus inp (mk pos a b 0 m) (let '(a', b', m') := block_sem [LDBM 1; STAI x] a b m in mk nxt a' b' 0 m').
Proof. exact rule3. Qed.
Print Assumptions C01_peephole_rule3_partial.

(* (5) the hypothesis code_at of (4) is what the assembler side delivers: where the ISA's own decoder reads
   instruction i (for a branch: with its label's position relative to the next instruction as operand) in an image
   that every admissible memory holds, instr_at holds (per instruction; code_at chains them). *)
Theorem C01_instr_at_of_decode : forall (C : WMap.t -> Prop) (lab : label -> Z) img pos nxt i,
  match i with LABEL _ => False | _ => True end ->
  decode img pos = Some (opc i, operand lab nxt i, nxt) ->
  0 <= pos -> nxt <= W -> (forall m, C m -> holds m img pos nxt) -> instr_at C lab pos nxt i.
Proof. exact instr_at_of_decode. Qed.
Print Assumptions C01_instr_at_of_decode.

(* the fragment is not empty: the model generates xcmp's code for (g + 3) - 7 with a global g ... *)
Example C01_fragment_nonvacuous :
  cg (fun x => if String.eqb x "g" then Some (LGlobal 2) else None) (fun _ => None) 6 4 (fun _ => None)
     (EBin Minus (EBin Plus (EVar "g") (ENum 3)) (ENum 7)) RA 0 0
  = Some ([LDAM 2; LDBC 3; ADD; LDBC 7; SUB], 0).
Proof. vm_compute. reflexivity. Qed.

(* ... the spill scheme for l - (l + 1) with a local l at sp + 5: right operand first, saved at frame offset 1 ... *)
Example C01_fragment_spill_nonvacuous :
  cg (fun x => if String.eqb x "l" then Some (LFrame 5) else None) (fun _ => None) 6 4 (fun _ => None)
     (EBin Minus (EVar "l") (EBin Plus (EVar "l") (ENum 1))) RA 0 1
  = Some ([LDAM 1; LDAI 5; LDBC 1; ADD; LDBM 1; STAI 4; LDAM 1; LDAI 5; LDBM 1; LDBI 4; SUB], 0).
Proof. vm_compute. reflexivity. Qed.

(* ... and the branches of ~(g < 0) and l with labels 0..3 *)
Example C01_fragment_branch_nonvacuous :
  cg (fun x => if String.eqb x "g" then Some (LGlobal 2) else if String.eqb x "l" then Some (LFrame 5) else None) (fun _ => None) 6 4 (fun _ => None)
     (EBin And (EUn Not (EBin Ls (EVar "g") (ENum 0))) (EVar "l")) RA 0 1
  = Some ([LDAM 2; BRN 3; LDAC 0; BR 4; LABEL 3; LDAC 1; LABEL 4; BRZ 1; LDAC 0; BR 2; LABEL 1; LDAC 1; LABEL 2;
           BRZ 0; LDAM 1; LDAI 5; LABEL 0], 5).
Proof. vm_compute. reflexivity. Qed.

(* ... and subscripts of an array a whose word is data word 3: a constant and a computed index *)
Example C01_fragment_subscript_nonvacuous :
  cg (fun x => if String.eqb x "g" then Some (LGlobal 2) else None) (fun _ => None) 6 4
     (fun x => if String.eqb x "a" then Some (LGlobal 3) else None)
     (EBin Plus (ESub "a" (ENum 2)) (ESub "a" (EVar "g"))) RA 0 1
  = Some ([LDAM 2; LDBM 3; ADD; LDAI 0; LDBM 1; STAI 4; LDAM 3; LDAI 2; LDBM 1; LDBI 4; ADD], 0).
Proof. vm_compute. reflexivity. Qed.

(* Non-vacuity: a program with a global, a function call in an operand and output is well-defined, and the
   image the repaired xcmp emits for it shows exactly its behaviour on the ISA. *)
Definition prog_demo : program :=
  {| globals := [DVal "put" (ENum 1); DVar "g"];
     procs := [ {| is_func := true; pname := "f"; formals := [FVal "x"]; locals := [];
                   body := SReturn (EBin Plus (EVar "x") (EVar "g")) |};
                {| is_func := false; pname := "main"; formals := []; locals := [];
                   body := SSeq [SAssign "g" (ENum 3);
                                 SCall "put" [EBin Plus (ECall "f" [ENum 4]) (ENum 48); ENum 0]] |} ] |}.
Definition img_demo : list Z :=
  [155; 199997; 0; 806461009; 2148651906; 3507642881; 3497034001; 1006600209; 573776337; 1384255796;
   1627494654; 298926307; 813830532; 3543237393; 890331393; 3497337297].

Example C01_nonvacuous_spec :
  run_fuel 100 1000 10 prog_demo [] = Behaviour {| outputs := [(0, 55)]; consumed := 0; exit_value := 0 |}.
Proof. vm_compute. reflexivity. Qed.

Example C01_nonvacuous_image :
  isa_shows img_demo [] 200 {| outputs := [(0, 55)]; consumed := 0; exit_value := 0 |}.
Proof. vm_compute. repeat split. Qed.
