(* Properties_C01.v -- xcmp preserves X source semantics.
   ONLY statements, each closed by `exact <lemma>`, with Print Assumptions, plus non-vacuity examples.
   Specs: XSem.v (the X definition), Isa.v (the machine).

   Proved here for ALL programs: the spec interpreter is a function and is monotone in its fuel (a
   `Behaviour` never changes when fuel is added, so "well-defined" does not depend on the fuel chosen above
   the one that suffices).  For the constant / global-variable / + / - fragment of expressions (right operands
   that xcmp does not spill) the code xcmp generates computes the spec's value on Isa (XCodegenExpr.v,
   C01_expr_fragment_partial).
   NOT proved: the full statement C01_full for the real compiler (needs the complete code-generator model,
   DESIGN.md C01 Layer C).  Outside the fragment the property is decided per explored program by the extracted
   specs on the real compiler's binary (tools/c01.py): translation validation. *)
From Coq Require Import ZArith List String Lia.
From HexVerif Require Import WMap Isa XAst XSem XSemProps XCodegenExpr AsmSpec AsmSpecProofs XCodegenBridge.
Import ListNotations.
Local Open Scope Z_scope.

Definition console_input (inp : list Z) : inputs := {| console := inp; files := fun _ => [] |}.

Fixpoint writes (evs : list event) : list (Z * Z) :=
  match evs with
  | [] => []
  | Write b st :: r => (st, b) :: writes r
  | _ :: r => writes r
  end.

(* what an image shows on the ISA within n instructions: the (stream, byte) outputs in order, the number of
   console bytes consumed, the exit value *)
Definition isa_shows (img : list Z) (inp : list Z) (n : nat) (b : behaviour) : Prop :=
  match Isa.run n (boot img) (console_input inp) [] with
  | (evs, inp', _, Exited c) =>
      writes evs = outputs b /\
      (List.length inp - List.length (console inp'))%nat = consumed b /\
      c = exit_value b mod 4294967296
  | _ => False
  end.

(* The full property, for a compile function: every well-defined program's image shows the spec's behaviour. *)
Definition C01_full (compile : program -> option (list Z)) : Prop :=
  forall p inp b img,
    XSem.run p inp = Behaviour b -> compile p = Some img -> exists n, isa_shows img inp n b.

(* (1) more fuel never changes a Behaviour *)
Theorem C01_run_fuel_monotone : forall f f' steps depth p inp b,
  (f <= f')%nat -> run_fuel f steps depth p inp = Behaviour b -> run_fuel f' steps depth p inp = Behaviour b.
Proof. exact run_fuel_monotone. Qed.
Print Assumptions C01_run_fuel_monotone.

(* (2) the budgets the checks use (smaller than the defaults) only shrink the judged set *)
Theorem C01_run_of_smaller_fuel : forall f p inp b,
  (f <= default_fuel)%nat -> run_fuel f default_steps default_depth p inp = Behaviour b -> run p inp = Behaviour b.
Proof. exact run_of_smaller_fuel. Qed.
Print Assumptions C01_run_of_smaller_fuel.

(* (3) one outcome per program and input *)
Theorem C01_run_deterministic : forall p inp o1 o2, run p inp = o1 -> run p inp = o2 -> o1 = o2.
Proof. exact run_deterministic. Qed.
Print Assumptions C01_run_deterministic.

(* (4) PARTIAL (the fragment of Layer C that is proved): expressions built from numbers, global variables, + and -,
   nested to any depth on both sides, including xcmp's folding of constant subtrees and its spilling of right
   operands that need areg into frame temporaries.  `cg addr size nslots e RA off` is the model of
   ExprCodeGen/genBinopOperands/genConst/genVar (with the lowering of frame-base relative operands) for this
   fragment; tools/c01.py ties it to the real xcmp by comparing the extracted cg with the instructions of the
   real compiler's listing on generated expressions.
   If the X spec evaluates e to n, then the generated code, placed anywhere (code_at: the ISA's own reading of
   the bytes, in every memory that differs from the initial one in frame temporaries only), run on Isa.step from
   its first byte with a clear operand register, emits no event, ends just behind the code with areg = n mod 2^32,
   and has changed memory only in temporaries at frame offsets >= off.
   Hypotheses on the frame: mem[1] = sp; the nslots temporaries sp+size-nslots .. sp+size-1 lie inside memory and
   are neither word 1 nor a global variable's word.
   Missing for C01_full: locals/formals (frame addressing of variables), relational/logical operators, statements,
   calls, arrays and strings; that size/nslots are what xcmp's Frame computes; and the layout of whole programs
   (that the assembled image holds exactly `cg`'s instructions at consecutive positions: C05's model). *)
Theorem C01_expr_fragment_partial :
  forall (addr : string -> option Z) (ge : genv) (m0 : WMap.t) (sp size nslots : Z),
    rd m0 1 = sp ->
    ~ T sp size nslots 1 ->
    0 <= tlo sp size nslots /\ thi sp size < MEMW ->
    (forall x a, addr x = Some a -> ~ T sp size nslots a) ->
    forall (e : expr) (off : Z) (code : list instr),
    cg addr size nslots e RA off = Some code -> 0 <= off ->
    forall (f : nat) (st : state) (n : Z) (s : state),
    eval f ge e st = Ret (Vint n) s ->
    env_ok addr ge m0 st ->
    forall (pos nxt a b : Z) (inp : inputs),
    code_at (C m0 sp size nslots) pos code nxt -> nxt < W ->
    exists (k : nat) (s' : arch),
      Isa.run k (mk pos a b 0 m0) inp [] = ([], inp, s', Cut) /\
      pc s' = nxt /\ areg s' = n mod W /\ oreg s' = 0 /\ keeps sp size nslots off m0 (mem s').
Proof. exact expr_fragment. Qed.
Print Assumptions C01_expr_fragment_partial.

(* (5) the hypothesis code_at of (4) is what the assembler side delivers: where the ISA's own decoder reads
   instruction i in an image that every admissible memory holds, instr_at holds (per instruction; code_at
   chains them). *)
Theorem C01_instr_at_of_decode : forall (C : WMap.t -> Prop) img pos nxt i,
  decode img pos = Some (fst (opcode i), snd (opcode i), nxt) ->
  0 <= pos -> nxt <= W -> (forall m, C m -> holds m img pos nxt) -> instr_at C pos nxt i.
Proof. exact instr_at_of_decode. Qed.
Print Assumptions C01_instr_at_of_decode.

(* the fragment is not empty: the model generates xcmp's code for (g + 3) - (2 + 5) ... *)
Example C01_fragment_nonvacuous :
  cg (fun x => if String.eqb x "g" then Some 2 else None) 6 4
     (EBin Minus (EBin Plus (EVar "g") (ENum 3)) (EBin Plus (ENum 2) (ENum 5))) RA 0
  = Some [LDAM 2; LDBC 3; ADD; LDBC 7; SUB].
Proof. vm_compute. reflexivity. Qed.

(* ... and the spill scheme for g - (g + 1): right operand first, saved at sp + size - 1, reloaded into breg *)
Example C01_fragment_spill_nonvacuous :
  cg (fun x => if String.eqb x "g" then Some 2 else None) 6 4
     (EBin Minus (EVar "g") (EBin Plus (EVar "g") (ENum 1))) RA 0
  = Some [LDAM 2; LDBC 1; ADD; LDBM 1; STAI 5; LDAM 2; LDBM 1; LDBI 5; SUB].
Proof. vm_compute. reflexivity. Qed.

(* Non-vacuity: a program with a global, a function call in an operand and output is well-defined, and the
   image the repaired xcmp emits for it shows exactly its behaviour on the ISA. *)
Definition prog_demo : program :=
  {| globals := [DVal "put" (ENum 1); DVar "g"];
     procs := [ {| is_func := true; pname := "f"; formals := [FVal "x"]; locals := [];
                   body := SReturn (EBin Plus (EVar "x") (EVar "g")) |};
                {| is_func := false; pname := "main"; formals := []; locals := [];
                   body := SSeq [SAssign "g" (ENum 3);
                                 SCall "put" [EBin Plus (ECall "f" [ENum 4]) (ENum 48); ENum 0]] |} ] |}.
Definition img_demo : list Z :=
  [155; 199997; 0; 806461009; 2148651906; 3507642881; 3497034001; 1006600209; 573776337; 1384255796;
   1627494654; 298926307; 813830532; 3543237393; 890331393; 3497337297].

Example C01_nonvacuous_spec :
  run_fuel 100 1000 10 prog_demo [] = Behaviour {| outputs := [(0, 55)]; consumed := 0; exit_value := 0 |}.
Proof. vm_compute. reflexivity. Qed.

Example C01_nonvacuous_image :
  isa_shows img_demo [] 200 {| outputs := [(0, 55)]; consumed := 0; exit_value := 0 |}.
Proof. vm_compute. repeat split. Qed.
