(* XSemProps.v -- facts about the spec XSem itself: the interpreter is monotone in its fuel.
   `le_res r r'` says r is "fuel ran out" or equals r'.  Every construct of the interpreter is monotone for
   this order in its recursive calls (open-recursion bodies), hence eval/evals/exec/execs with more fuel
   refine those with less, and a `Behaviour` answer of `run_fuel` never changes when fuel is added. *)
From Coq Require Import ZArith String List Bool Lia.
From HexVerif Require Import XAst XSem.
Import ListNotations.
Local Open Scope Z_scope.

Definition le_res {A : Type} (r r' : res A) : Prop := r = Fail FuelExhausted \/ r = r'.

Lemma le_res_refl {A} (r : res A) : le_res r r.
Proof. right. reflexivity. Qed.

Lemma le_res_bot {A} (r : res A) : le_res (Fail FuelExhausted) r.
Proof. left. reflexivity. Qed.

Lemma le_res_trans {A} (a b c : res A) : le_res a b -> le_res b c -> le_res a c.
Proof. intros [->| ->] H; [left; reflexivity | exact H]. Qed.

Lemma rcase_mono {A B} (r r' : res A) (kr kr' : A -> state -> res B) (kh kh' : Z -> state -> res B) :
  le_res r r' -> (forall a s, le_res (kr a s) (kr' a s)) -> (forall c s, le_res (kh c s) (kh' c s)) ->
  le_res (rcase r kr kh) (rcase r' kr' kh').
Proof.
  intros [->| ->] Hr Hh; [left; reflexivity|].
  destruct r' as [a s|c s|u]; cbn [rcase]; [apply Hr | apply Hh | right; reflexivity].
Qed.

Lemma bind_mono {A B} (r r' : res A) (k k' : A -> state -> res B) :
  le_res r r' -> (forall a s, le_res (k a s) (k' a s)) -> le_res (bind r k) (bind r' k').
Proof. intros H1 H2. unfold bind. apply rcase_mono; [exact H1 | exact H2 | intros; apply le_res_refl]. Qed.

Lemma with_eff_mono {A} (m m' : state -> res A) s :
  (forall s0, le_res (m s0) (m' s0)) -> le_res (with_eff m s) (with_eff m' s).
Proof. intros H. unfold with_eff. apply rcase_mono; [apply H | intros; apply le_res_refl | intros; apply le_res_refl]. Qed.

Lemma tick_mono {B} s (k k' : state -> res B) :
  (forall s0, le_res (k s0) (k' s0)) -> le_res (tick s k) (tick s k').
Proof. intros H. unfold tick. destruct (budget s <=? 0); [apply le_res_refl | apply H]. Qed.

Lemma int_of_mono {B} v (k k' : Z -> res B) :
  (forall n, le_res (k n) (k' n)) -> le_res (int_of v k) (int_of v k').
Proof. intros H. unfold int_of. destruct v; try apply le_res_refl. apply H. Qed.

Lemma bool_of_mono {B} v (k k' : bool -> res B) :
  (forall b, le_res (k b) (k' b)) -> le_res (bool_of v k) (bool_of v k').
Proof.
  intros H. unfold bool_of. apply int_of_mono. intros n.
  destruct (n =? 0); [apply H|]. destruct (n =? 1); [apply H | apply le_res_refl].
Qed.

Section Bodies.
  Variables (ev ev' : expr -> state -> res value)
            (evs evs' : list expr -> state -> res (list (value * eff)))
            (ex ex' : stmt -> state -> res flow)
            (exs exs' : list stmt -> state -> res flow).
  Hypothesis Hev : forall e s, le_res (ev e s) (ev' e s).
  Hypothesis Hevs : forall es s, le_res (evs es s) (evs' es s).
  Hypothesis Hex : forall st s, le_res (ex st s) (ex' st s).
  Hypothesis Hexs : forall ss s, le_res (exs ss s) (exs' ss s).

  Lemma evals_body_mono es s : le_res (evals_body ev evs es s) (evals_body ev' evs' es s).
  Proof.
    destruct es as [|e r]; [apply le_res_refl|]. unfold evals_body.
    apply rcase_mono.
    - apply with_eff_mono. intros s0. apply Hev.
    - intros ve s1. apply rcase_mono; [apply Hevs | intros; apply le_res_refl | intros; apply le_res_refl].
    - intros; apply le_res_refl.
  Qed.

  Lemma operands_mono es s : le_res (operands evs es s) (operands evs' es s).
  Proof. unfold operands. apply bind_mono; [apply Hevs | intros; apply le_res_refl]. Qed.

  Lemma invoke_mono ge w f vs s : le_res (invoke ex ge w f vs s) (invoke ex' ge w f vs s).
  Proof.
    unfold invoke. destruct (find_proc f (g_procs ge)) as [p|]; [|apply le_res_refl].
    destruct (negb (Bool.eqb (is_func p) w)); [apply le_res_refl|].
    destruct (enter ge p vs s) as [u|fr]; [apply le_res_refl|].
    apply tick_mono. intros s0. apply bind_mono; [apply Hex | intros; apply le_res_refl].
  Qed.

  Ltac mono :=
    repeat first
      [ apply le_res_refl
      | apply Hev | apply Hevs | apply Hex | apply Hexs
      | apply operands_mono
      | apply invoke_mono
      | apply bind_mono; [ | intros ]
      | apply int_of_mono; intros
      | apply bool_of_mono; intros
      | apply tick_mono; intros
      | match goal with
        | |- le_res (match ?x with _ => _ end) (match ?x with _ => _ end) => destruct x
        | |- le_res (if ?x then _ else _) (if ?x then _ else _) => destruct x
        end ].

  Lemma eval_body_mono ge e s : le_res (eval_body ev evs ex ge e s) (eval_body ev' evs' ex' ge e s).
  Proof.
    destruct e as [n|b|bs|x|a i|f args|n args|o a|o l r]; cbn [eval_body]; solve [mono].
  Qed.

  Lemma exec_body_mono ge st s : le_res (exec_body ev evs ex exs ge st s) (exec_body ev' evs' ex' exs' ge st s).
  Proof.
    unfold exec_body. apply tick_mono. intros s0.
    destruct st; solve [mono].
  Qed.

  Lemma execs_body_mono ss s : le_res (execs_body ex exs ss s) (execs_body ex' exs' ss s).
  Proof. destruct ss as [|st r]; cbn [execs_body]; mono. Qed.
End Bodies.

Lemma fuel_step : forall f ge,
  (forall e s, le_res (eval f ge e s) (eval (S f) ge e s)) /\
  (forall es s, le_res (evals f ge es s) (evals (S f) ge es s)) /\
  (forall st s, le_res (exec f ge st s) (exec (S f) ge st s)) /\
  (forall ss s, le_res (execs f ge ss s) (execs (S f) ge ss s)).
Proof.
  induction f as [|f IH]; intros ge.
  - repeat split; intros; apply le_res_bot.
  - destruct (IH ge) as (H1 & H2 & H3 & H4).
    repeat split; intros.
    + change (le_res (eval_body (eval f ge) (evals f ge) (exec f ge) ge e s)
                     (eval_body (eval (S f) ge) (evals (S f) ge) (exec (S f) ge) ge e s)).
      apply eval_body_mono; assumption.
    + change (le_res (evals_body (eval f ge) (evals f ge) es s)
                     (evals_body (eval (S f) ge) (evals (S f) ge) es s)).
      apply evals_body_mono; assumption.
    + change (le_res (exec_body (eval f ge) (evals f ge) (exec f ge) (execs f ge) ge st s)
                     (exec_body (eval (S f) ge) (evals (S f) ge) (exec (S f) ge) (execs (S f) ge) ge st s)).
      apply exec_body_mono; assumption.
    + change (le_res (execs_body (exec f ge) (execs f ge) ss s)
                     (execs_body (exec (S f) ge) (execs (S f) ge) ss s)).
      apply execs_body_mono; assumption.
Qed.

Lemma exec_fuel_le : forall f f' ge st s, (f <= f')%nat -> le_res (exec f ge st s) (exec f' ge st s).
Proof.
  intros f f' ge st s H. induction H as [|m Hm IH]; [apply le_res_refl|].
  eapply le_res_trans; [exact IH|]. apply (fuel_step m ge).
Qed.

Lemma eval_fuel_le : forall f f' ge e s, (f <= f')%nat -> le_res (eval f ge e s) (eval f' ge e s).
Proof.
  intros f f' ge e s H. induction H as [|m Hm IH]; [apply le_res_refl|].
  eapply le_res_trans; [exact IH|]. apply (fuel_step m ge).
Qed.

(* more fuel never changes a Behaviour *)
Theorem run_fuel_monotone : forall f f' steps depth p inp b,
  (f <= f')%nat -> run_fuel f steps depth p inp = Behaviour b -> run_fuel f' steps depth p inp = Behaviour b.
Proof.
  intros f f' steps depth p inp b Hle. unfold run_fuel.
  destruct (wf_program p); [discriminate|].
  destruct (init_globals (globals p) [] [] []) as [u|[[vals vars] arrs]]; [discriminate|].
  destruct (find_proc "main" (procs p)) as [m|]; [|discriminate].
  destruct (is_func m || negb match formals m with [] => true | _ :: _ => false end); [discriminate|].
  cbv zeta.
  match goal with |- context [invoke (exec f ?ge) ?ge false "main"%string [] ?s0] =>
    assert (H : le_res (invoke (exec f ge) ge false "main"%string [] s0) (invoke (exec f' ge) ge false "main"%string [] s0))
      by (apply invoke_mono; intros; apply exec_fuel_le; exact Hle);
    destruct H as [H|H]; rewrite H; [discriminate | trivial]
  end.
Qed.

(* the spec is a function: one outcome per program and input *)
Theorem run_deterministic : forall p inp o1 o2, run p inp = o1 -> run p inp = o2 -> o1 = o2.
Proof. congruence. Qed.

(* a Behaviour under any fuel below the default is the Behaviour of `run` *)
Corollary run_of_smaller_fuel : forall f p inp b,
  (f <= default_fuel)%nat -> run_fuel f default_steps default_depth p inp = Behaviour b -> run p inp = Behaviour b.
Proof. intros f p inp b H1 H2. unfold run. eapply run_fuel_monotone; eassumption. Qed.
