(* Properties_C05.v -- placeholder until the layout proofs land: states nothing yet. *)
From HexVerif Require Import AsmSpec AsmLayout.
