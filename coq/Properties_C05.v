(* Properties_C05.v -- label resolution and layout of the assembler are sound and terminate.
   Model of hexasm's back end: AsmLayout.v (resolve = resolveLabels, codegen, emit_go = emitProgramBin).
   The statement is the spec validator AsmSpec.check_image (the same extracted function judges the real assembler's
   output on every run): directives found in source order without overlap, DATA aligned and named by the label
   before it, every reference reaches its label, only zero padding up to a multiple of 4 = 4 * header word.
   Proofs: AsmLayoutProofs.v. *)
From Coq Require Import ZArith List String Bool.
From HexVerif Require Import WMap Isa AsmModel AsmLayout AsmSpec AsmSpecProofs AsmStatements AsmLayoutProofs AsmWalkProofs.
Import ListNotations.
Local Open Scope Z_scope.

(* every accepted program's image passes the validator *)
Theorem C05_layout_sound :
  forall prog locs out, Forall wf_directive prog -> assemble_directives prog locs = Ok out -> small (ao_layout out) ->
    check_image prog (ao_image out) (l_size (ao_layout out) / 4) = true.
Proof. exact layout_sound. Qed.
Print Assumptions C05_layout_sound.

(* the layout loop never runs out of the fuel the model gives it: it stops at a fixed point or rejects with
   "label resolution did not converge" after max_passes passes *)
Theorem C05_terminates : forall prog, resolve prog <> OutOfFuel.
Proof. exact resolve_terminates. Qed.
Print Assumptions C05_terminates.

(* what the validator's verdict means for the processor (Isa.step): started at a placed reference with a clear
   operand register, in any memory holding the image there, it runs silently through the prefixes to the instruction
   byte (the source's opcode) with an operand o such that -- relative: (address after the instruction + o) mod 2^32
   is the position of the label; absolute: the label is word aligned and o is its word address *)
Theorem C05_refs_execute :
  forall prog locs out, Forall wf_directive prog -> assemble_directives prog locs = Ok out -> small (ao_layout out) ->
    exists ps e, walk prog (bytes_map (ao_image out)) 0 = Some (ps, e) /\
      forall p, In p ps ->
        match p_dir p with
        | DRef t name rel =>
            exists lp c, label_pos name ps None = Some lp /\ token_opc t = Some c /\ 0 <= p_start p /\ 1 <= p_size p /\
            forall s inp, pc s = p_start p -> oreg s = 0 ->
              holds (mem s) (bytes_map (ao_image out)) (p_start p) (p_start p + p_size p) ->
              exists s', Isa.run (Z.to_nat (p_size p - 1)) s inp [] = ([], inp, s', Cut) /\
                pc s' = p_start p + p_size p - 1 /\ areg s' = areg s /\ breg s' = breg s /\ mem s' = mem s /\
                fetch s' / 16 = c /\
                let o := Z.lor (oreg s') (fetch s' mod 16) in
                if rel then wrap (pc s' + 1 + o) = lp else lp mod 4 = 0 /\ o = lp / 4
        | _ => True
        end.
Proof. exact refs_execute. Qed.
Print Assumptions C05_refs_execute.

(* the same for ANY image the validator accepts (this is what the direct oracle's verdict on the real assembler's
   output means) *)
Theorem C05_validator_meaning : forall prog image hw,
  check_image prog image hw = true -> Z.of_nat (List.length image) <= W ->
  exists ps e, walk prog (bytes_map image) 0 = Some (ps, e) /\ forall p, In p ps -> ref_executes (bytes_map image) ps p.
Proof. exact image_refs_execute. Qed.
Print Assumptions C05_validator_meaning.

(* the layout clause of the statement, spelled out for ANY image the validator accepts (AsmWalkProofs.v): the directives
   found are the source directives in source order; they are laid out from byte 0 without overlap (laid_out: each
   starts at or after the end of the one before); every DATA word starts on a word boundary and occupies 4 bytes; a
   label followed, through further labels only, by DATA is placed at the DATA word (names_data); the image ends at the
   next multiple of 4 after the last directive and the header word is its length in words *)
Theorem C05_validator_layout : forall prog image hw,
  check_image prog image hw = true ->
  exists ps e, walk prog (bytes_map image) 0 = Some (ps, e) /\
    map p_dir ps = prog /\ laid_out 0 ps e /\ data_aligned ps /\ names_data ps /\
    e <= Z.of_nat (List.length image) /\ Z.of_nat (List.length image) = up4 e /\
    hw * 4 = Z.of_nat (List.length image).
Proof. exact check_image_layout. Qed.
Print Assumptions C05_validator_layout.

(* and therefore for every program the assembler model accepts *)
Theorem C05_layout_explicit :
  forall prog locs out, Forall wf_directive prog -> assemble_directives prog locs = Ok out -> small (ao_layout out) ->
  exists ps e, walk prog (bytes_map (ao_image out)) 0 = Some (ps, e) /\
    map p_dir ps = prog /\ laid_out 0 ps e /\ data_aligned ps /\ names_data ps /\
    e <= Z.of_nat (List.length (ao_image out)) /\ Z.of_nat (List.length (ao_image out)) = up4 e /\
    (l_size (ao_layout out) / 4) * 4 = Z.of_nat (List.length (ao_image out)).
Proof. intros prog locs out Hwf Hasm Hsmall. apply check_image_layout. exact (layout_sound prog locs out Hwf Hasm Hsmall). Qed.
Print Assumptions C05_layout_explicit.

(* laid_out read pairwise: of any two placed directives the earlier one ends at or before the later one starts *)
Theorem C05_no_overlap : forall a p b q c pos e,
  laid_out pos (a ++ p :: b ++ q :: c) e -> p_start p + p_size p <= p_start q.
Proof. exact laid_out_pairwise. Qed.
Print Assumptions C05_no_overlap.

(* non-vacuity: a forward BR over 16 filler bytes (needs a prefix), a backward BR, an absolute reference to a
   PROC label that names padded DATA *)
Definition C05_example : list directive :=
  [DRef TBR "over"%string true] ++ repeat (DImm TLDAC 0) 16 ++
  [DLabel LId "over"%string; DRef TLDAM "word"%string false; DRef TBR "over"%string true; DOpr TSVC;
   DLabel LProc "word"%string; DData (-2)].
Example C05_example_accepted :
  Forall wf_directive C05_example /\
  exists out, assemble_directives C05_example [] = Ok out /\ small (ao_layout out) /\
    ao_image out = [225; 144; 48; 48; 48; 48; 48; 48; 48; 48; 48; 48; 48; 48; 48; 48; 48; 48;
                    6; 255; 157; 211; 0; 0; 254; 255; 255; 255] /\
    check_image C05_example (ao_image out) (l_size (ao_layout out) / 4) = true.
Proof.
  split.
  - unfold C05_example. repeat constructor; try discriminate.
  - eexists. split; [vm_compute; reflexivity|]. split; [vm_compute; reflexivity|]. split; vm_compute; reflexivity.
Qed.
(* the validator is not trivially true: the same image with the forward branch one byte short is refused *)
Example C05_validator_refuses :
  check_image C05_example [225; 143; 48; 48; 48; 48; 48; 48; 48; 48; 48; 48; 48; 48; 48; 48; 48; 48;
                           6; 255; 157; 211; 0; 0; 254; 255; 255; 255] 7 = false.
Proof. vm_compute. reflexivity. Qed.

(* non-vacuity of the layout clause: the example's DATA word sits at byte 24, named by the PROC label placed there *)
Example C05_example_layout :
  exists ps e, walk C05_example (bytes_map [225; 144; 48; 48; 48; 48; 48; 48; 48; 48; 48; 48; 48; 48; 48; 48; 48; 48;
                    6; 255; 157; 211; 0; 0; 254; 255; 255; 255]) 0 = Some (ps, e) /\ e = 28 /\
    map p_start (skipn 21 ps) = [24; 24].
Proof. eexists. eexists. split; [vm_compute; reflexivity|]. split; reflexivity. Qed.
