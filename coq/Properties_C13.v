(* Properties_C13.v -- placeholder until the testbench model lands. *)
From HexVerif Require Import Isa.
