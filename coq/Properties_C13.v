(* Properties_C13.v -- C13: RTL testbench results do not depend on the power-on state.
   TbModel = hextb.cpp's load()/run()/handleSyscall() (hand model, tied by tools/c13.py) driving the generated RTL
   (RtlHex.design, regenerated from the working tree on every run) with Verilator's trigger semantics; a power-on state
   [init] = pc, areg, breg, oreg, every memory word, and the four hidden trigger bits.  [file_ok file]: the files hextb's
   load() accepts and reads completely (4-byte header, at most 200000 words announced, all present, bytes in range);
   [loaded_words file] = those words -- the debug tables behind the image are not loaded; any other file makes load()
   throw and main return 1 without running (TbModel.tb_main, Example C13_loader_rejects).  [Current] are the constants of
   hextb.cpp as it is now (reset over times 1..9, requests sampled from time RESET_END - 1 = 9, load() clears the memory),
   [Previous] those of earlier repaired trees (requests sampled only after reset, memory not cleared), [Legacy] those of the
   pinned tree. *)
From Coq Require Import ZArith List String.
From HexVerif Require Import WMap Isa Vexp RtlSem RtlIsa TbModel TbProofs.
From HexVerif.gen Require RtlHex.
Import ListNotations.
Local Open Scope Z_scope.

(* 1. the reset window: for EVERY power-on state, image and input, the eight evaluations of times 1..8 service no system
   call (no output, no input consumed, loop not left) and end in the canonical boot state: registers 0, memory exactly
   as load() left it.  The one request sampled while reset is still asserted -- at time 9, the last reset edge -- is
   that of the instruction at address 0 in this canonical state (with areg = 0 it can only be EXIT).  After the ten
   evaluations of the reset window, i.e. in the state in which the time-11 edge fetches, the registers are 0 and memory
   is exactly as load() left it (no store was performed; the loaded region holds the loaded words).  Depends on the
   generated design: registers clear under i_rst = 1 (C03_reset_clears_registers), memory.sv's write is disabled under
   i_rst = 1 (RtlC03.rtl_no_write_in_reset -- fails if the !i_rst qualification is removed) and the request lines do not
   depend on i_rst (RtlC03.rtl_outs_in_reset). *)
Theorem C13_boot_canonical : forall (i : init) (file : list Z) (inp : inputs),
  let st8 := ticks Current RtlHex.design 8 (power_on Current i file) in
  let st10 := ticks Current RtlHex.design 10 (power_on Current i file) in
  run Current RtlHex.design 8 0 (power_on Current i file) inp [] = ([], inp, st8, TNoFuel) /\
  (forall k, run Current RtlHex.design (8 + k) 0 (power_on Current i file) inp [] = run Current RtlHex.design k 0 st8 inp []) /\
  r_pc (t_s st8) = 0 /\ r_areg (t_s st8) = 0 /\ r_breg (t_s st8) = 0 /\ r_oreg (t_s st8) = 0 /\
  r_mem (t_s st8) = r_mem (t_s (power_on Current i file)) /\ t_time st8 = 8 /\ t_exit st8 = 0 /\
  (file_ok file -> sys_request Current RtlHex.design (tick Current RtlHex.design st8) = (wire RtlHex.design (t_s st8) n_fdata =? 211)) /\
  r_pc (t_s st10) = 0 /\ r_areg (t_s st10) = 0 /\ r_breg (t_s st10) = 0 /\ r_oreg (t_s st10) = 0 /\
  r_mem (t_s st10) = r_mem (t_s (power_on Current i file)) /\
  (forall j, (j < List.length (loaded_words file))%nat -> rd (r_mem (t_s st10)) (Z.of_nat j) = nth j (loaded_words file) 0) /\
  t_time st10 = 10 /\ t_clk st10 = false.
Proof. exact boot_canonical. Qed.
Print Assumptions C13_boot_canonical.

(* 2. execution begins at address 0: in the boot state the fetched byte is the first image byte, and the evaluation of
   time 11 is one clock edge of processor and memory from that state *)
Theorem C13_fetch_from_zero : forall (i : init) (file : list Z) (b0 : Z) (rest : list Z),
  file_ok file -> 1 <= header file -> skipn 4 file = b0 :: rest ->
  let st := ticks Current RtlHex.design 10 (power_on Current i file) in
  r_pc (t_s st) = 0 /\ wire RtlHex.design (t_s st) n_fdata = b0 /\
  t_s (tick Current RtlHex.design st) = cycle RtlHex.design (t_s st).
Proof. exact fetch_from_zero. Qed.
Print Assumptions C13_fetch_from_zero.

(* 3. load() clears the DUT memory before it copies the image: whatever the power-on contents, the memory the run starts
   from is the ISA's boot memory -- the loaded words from address 0, zero everywhere else.  (Repair of hextb.cpp,
   known_findings.json: fixed, kind power-on / how memory.  Before it, a binary that reads a word it has not written got
   Verilator's randomised power-on contents: C13_memory_is_cleared_witness below, shipped instance tests/asm/hello_procedure.S.) *)
Theorem C13_load_clears_memory : forall (i : init) (file : list Z),
  r_mem (t_s (power_on Current i file)) = mem (boot (loaded_words file)).
Proof. exact power_on_is_boot. Qed.
Print Assumptions C13_load_clears_memory.

(* 4. the observable result (events = bytes written per stream, bytes read, exit word; input left unread; how run() ended)
   is the same for every two power-on states, for every amount of fuel (loop iterations), provided the binary and input
   are well-behaved: the ISA trace from the loaded words on zeroed memory is defined, stays in range (in_range), and a
   READ does not overwrite the word of its own SVC.  Nothing is assumed about which words the program reads: the former
   clause "no word outside the image is read before it is written" is gone with the repair of load().  The READ clause is
   a KNOWN FINDING, see known_findings.json (kind read-overwrites-own-svc, exhibited by tools/c03.py and tools/c06.py).
   The former hypothesis "the first instruction is not a system call" is gone as well: the request of the instruction at
   address 0 is sampled at the last reset edge (known_findings.json: fixed, kind first-instruction-svc). *)
Theorem C13_seed_independent_partial : forall (fuel : nat) (i1 i2 : init) (file : list Z) (inp : inputs),
  file_ok file -> well_behaved (loaded_words file) inp ->
  obs (run Current RtlHex.design fuel 0 (power_on Current i1 file) inp []) = obs (run Current RtlHex.design fuel 0 (power_on Current i2 file) inp []).
Proof. exact seed_independent. Qed.
Print Assumptions C13_seed_independent_partial.
(* _partial: what is missing is the READ clause of well_behaved (runs in which a READ overwrites the word of its own SVC).
   There the testbench's result differs from the ISA's (known finding), but it is expected to be the same for every
   power-on state all the same; that is not proved, because the proof goes through the ISA run: *)
Definition C13_seed_independent_full : Prop :=
  forall (fuel : nat) (i1 i2 : init) (file : list Z) (inp : inputs),
  file_ok file -> well_behaved0 (loaded_words file) inp ->
  obs (run Current RtlHex.design fuel 0 (power_on Current i1 file) inp []) = obs (run Current RtlHex.design fuel 0 (power_on Current i2 file) inp []).

(* ... and that result is THE reference: the ISA run from boot (loaded_words file), presented in the testbench's rhythm *)
Theorem C13_run_is_isa_partial : forall (fuel : nat) (i : init) (file : list Z) (inp : inputs),
  file_ok file -> well_behaved (loaded_words file) inp ->
  tb_view (run Current RtlHex.design fuel 0 (power_on Current i file) inp []) = isa_tb fuel (boot (loaded_words file)) inp.
Proof. exact tb_is_isa_tb. Qed.
Print Assumptions C13_run_is_isa_partial.
(* _partial for the same reason: well_behaved contains the READ clause; without it the equation is false (C06_tb_equals_sim_full_refuted) *)

(* 5. with the pinned constants (reset from time 2, requests sampled on every high clock phase, unqualified memory write)
   the property is false: two power-on states of the same image and input with different results *)
Theorem C13_pinned_boot_refuted : exists (i1 i2 : init) (file : list Z) (inp : inputs) (fuel : nat),
  outcome (run Legacy RtlHex.design fuel 0 (power_on Legacy i1 file) inp []) <> outcome (run Legacy RtlHex.design fuel 0 (power_on Legacy i2 file) inp []).
Proof. exact pinned_boot_refuted. Qed.
Print Assumptions C13_pinned_boot_refuted.

(* ------------------------------------------------------------------ non-vacuity *)
(* the refutation's witnesses and what the current constants do from the same power-on states *)
Example C13_witnesses :
  outcome (run Legacy RtlHex.design 200 0 (power_on Legacy (planted 13 0 false) exit7_file) no_input []) = ([Exit 7], TReturned 7) /\
  outcome (run Legacy RtlHex.design 200 0 (power_on Legacy (planted 13 0 true) exit7_file) no_input []) = ([Exit 3553874899], TReturned (-741092397)) /\
  outcome (run Legacy RtlHex.design 200 0 (power_on Legacy (planted 13 1 true) exit7_file) no_input []) = ([Write 211 3553874899; Exit 7], TReturned 7) /\
  outcome (run Current RtlHex.design 200 0 (power_on Current (planted 13 0 false) exit7_file) no_input []) = ([Exit 7], TReturned 7) /\
  outcome (run Current RtlHex.design 200 0 (power_on Current (planted 13 0 true) exit7_file) no_input []) = ([Exit 7], TReturned 7) /\
  outcome (run Current RtlHex.design 200 0 (power_on Current (planted 13 1 true) exit7_file) no_input []) = ([Exit 7], TReturned 7).
Proof. exact legacy_witness. Qed.
(* the hypotheses of C13_seed_independent_partial hold for `proc main() is exit(7)` as compiled by xcmp *)
Example C13_hypotheses_satisfiable :
  file_ok exit7_file /\ well_behaved (loaded_words exit7_file) no_input.
Proof. split; [exact exit7_file_ok | exact exit7_well_behaved_loaded]. Qed.
(* a binary whose FIRST instruction is OPR SVC (EXIT 42): with the constants between the two repairs the call was never
   serviced (the run went on and exited with 9); now it exits with 42 from every power-on state, as the ISA does, and
   the binary satisfies the hypotheses of C13_seed_independent_partial *)
Example C13_first_instruction_svc :
  outcome (run Previous RtlHex.design 60 0 (power_on Previous (planted 0 0 false) first_svc_file) no_input []) = ([Exit 9], TReturned 9) /\
  outcome (run Current RtlHex.design 60 0 (power_on Current (planted 0 0 false) first_svc_file) no_input []) = ([Exit 42], TReturned 42) /\
  outcome (run Current RtlHex.design 60 0 (power_on Current (planted 13 1 true) first_svc_file) no_input []) = ([Exit 42], TReturned 42) /\
  (exists a', Isa.run 5 (boot (loaded_words first_svc_file)) no_input [] = ([Exit 42], no_input, a', Exited 42)) /\
  well_behaved (loaded_words first_svc_file) no_input.
Proof. exact first_svc_witness. Qed.
(* a binary that reads words outside its image (LDAC 0; OPR SVC, image of one word: EXIT takes the stack pointer from word
   1 and the exit word from word sp + 2): before load() cleared the memory ([Previous]) the exit status was the power-on
   contents (0 with fill 0, 5 with fill 5); now it is 0 from both, as the ISA says, and the binary satisfies the
   hypotheses of C13_seed_independent_partial *)
Example C13_memory_is_cleared_witness :
  outcome (run Previous RtlHex.design 60 0 (power_on Previous (filled 0) unwritten_read_file) no_input []) = ([Exit 0], TReturned 0) /\
  outcome (run Previous RtlHex.design 60 0 (power_on Previous (filled 5) unwritten_read_file) no_input []) = ([Exit 5], TReturned 5) /\
  outcome (run Current RtlHex.design 60 0 (power_on Current (filled 0) unwritten_read_file) no_input []) = ([Exit 0], TReturned 0) /\
  outcome (run Current RtlHex.design 60 0 (power_on Current (filled 5) unwritten_read_file) no_input []) = ([Exit 0], TReturned 0) /\
  (exists a', Isa.run 5 (boot (loaded_words unwritten_read_file)) no_input [] = ([Exit 0], no_input, a', Exited 0)) /\
  file_ok unwritten_read_file /\ well_behaved (loaded_words unwritten_read_file) no_input.
Proof. exact clearing_witness. Qed.
(* the loader: files without header or announcing more than 200000 words are rejected before run() starts; the symbol
   table of exit7_file (61 bytes, header 9) is not loaded *)
Example C13_loader_rejects :
  tb_main Current RtlHex.design 100 0 (planted 0 0 false) [1; 0] no_input = None /\
  tb_main Current RtlHex.design 100 0 (planted 0 0 false) [] no_input = None /\
  tb_main Current RtlHex.design 100 0 (planted 0 0 false) [65; 13; 3; 0; 211; 0; 0; 0] no_input = None /\
  (exists r, tb_main Current RtlHex.design 100 0 (planted 0 0 false) exit7_file no_input = Some r /\ outcome r = ([Exit 7], TReturned 7)).
Proof. exact loader_rejects. Qed.
Example C13_loaded_is_the_image :
  header exit7_file = 9 /\ List.length (loaded_words exit7_file) = 9%nat /\ List.length exit7_file = 61%nat.
Proof. exact exit7_loaded. Qed.
