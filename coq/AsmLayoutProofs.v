(* AsmLayoutProofs.v -- C05/C15/C17 for the assembler model: label resolution terminates within its fuel, and
   every accepted program's image, symbols and listing pass the spec validators of AsmSpec.v. *)
From Coq Require Import ZArith Lia Bool List String.
From HexVerif Require Import WMap Isa AsmModel AsmLayout AsmSpec AsmSpecProofs AsmEncodeProofs AsmStatements AsmFrontProofs.
Import ListNotations.
Local Open Scope Z_scope.

Ltac Zify.zify_post_hook ::= Z.div_mod_to_equations.

(* ================================================================== 1. termination *)
Theorem resolve_terminates : C05_terminates_stmt.
Proof. intros prog H. pose proof (resolve_answer prog) as A. rewrite H in A. exact A. Qed.

(* ================================================================== 2. one pass, in a uniform shape *)
Definition place (todo : list item) (bo : Z) : Z :=
  match todo with
  | [] => bo
  | it :: _ => if is_data (it_d it) || label_before_data todo then align4 bo else bo
  end.

Definition step_st (it : item) (lv : WMap.t) (bo1 idx : Z) : diag + (dst * WMap.t) :=
  let st := it_st it in
  match it_d it with
  | DLabel _ _ => inr ({| d_off := bo1; d_val := bo1; d_len := d_len st |}, WMap.wr lv idx bo1)
  | DRef _ name rel =>
      match it_tgt it with
      | None => inl (EUnknownLabel (Z.to_nat idx) name)
      | Some k =>
          let v := rd lv k in
          if rel then inr ({| d_off := bo1; d_val := v - bo1 - instr_len v bo1; d_len := instr_len v bo1 |}, lv)
          else if negb (v mod 4 =? 0) then inl (EUnaligned (Z.to_nat idx))
          else inr ({| d_off := bo1; d_val := v / 4; d_len := 0 |}, lv)
      end
  | _ => inr ({| d_off := bo1; d_val := d_val st; d_len := d_len st |}, lv)
  end.

Lemma pass_go_cons done it rest lv bo changed idx :
  pass_go done (it :: rest) lv bo changed idx =
  match step_st it lv (place (it :: rest) bo) idx with
  | inl e => PassErr e
  | inr (st', lv') =>
      pass_go ({| it_d := it_d it; it_tgt := it_tgt it; it_st := st' |} :: done) rest lv'
              (place (it :: rest) bo + dsize (it_d it) st') (changed || negb (dst_eqb (it_st it) st')) (idx + 1)
  end.
Proof.
  destruct it as [d tgt st]. unfold step_st, place. cbn [pass_go it_d it_tgt it_st].
  destruct d; try reflexivity.
  destruct tgt as [k|]; [|reflexivity]. destruct rel; [reflexivity|].
  destruct (negb (rd lv k mod 4 =? 0)); reflexivity.
Qed.

Lemma dst_eqb_eq a b : dst_eqb a b = true -> a = b.
Proof.
  unfold dst_eqb. intros H. apply andb_prop in H. destruct H as [H H3]. apply andb_prop in H. destruct H as [H1 H2].
  apply Z.eqb_eq in H1, H2, H3. destruct a, b. cbn in *. congruence.
Qed.

Lemma item_eta it : {| it_d := it_d it; it_tgt := it_tgt it; it_st := it_st it |} = it.
Proof. destruct it. reflexivity. Qed.

Lemma pass_go_changed : forall todo done lv bo idx items' lv' sz c,
  pass_go done todo lv bo true idx = PassOk items' lv' sz c -> c = true.
Proof.
  induction todo as [|it rest IH]; intros done lv bo idx items' lv' sz c H.
  - cbn in H. inversion H. reflexivity.
  - rewrite pass_go_cons in H. destruct (step_st it lv (place (it :: rest) bo) idx) as [e|[st' lv1]]; [discriminate|].
    cbn [orb] in H. eapply IH. exact H.
Qed.

(* the skeleton of an item never changes *)
Definition skel (it : item) : directive * option Z := (it_d it, it_tgt it).

(* label values agree with the stored label states *)
Fixpoint lv_agrees (l : list item) (lv : WMap.t) (idx : Z) : Prop :=
  match l with
  | [] => True
  | it :: r => (is_label (it_d it) = true -> rd lv idx = d_val (it_st it)) /\ lv_agrees r lv (idx + 1)
  end.

Lemma lv_agrees_frame : forall l lv lv' idx, (forall k, idx <= k -> rd lv' k = rd lv k) ->
  lv_agrees l lv idx -> lv_agrees l lv' idx.
Proof.
  induction l as [|it r IH]; intros lv lv' idx Hf H; [exact I|].
  cbn [lv_agrees] in *. destruct H as [H1 H2]. split.
  - intros Hl. rewrite Hf by lia. auto.
  - eapply IH; [|exact H2]. intros k Hk. apply Hf. lia.
Qed.

Lemma step_st_frame it lv bo1 idx st' lv' : 0 <= idx ->
  step_st it lv bo1 idx = inr (st', lv') ->
  (forall k, 0 <= k -> k <> idx -> rd lv' k = rd lv k) /\
  (is_label (it_d it) = true -> rd lv' idx = d_val st').
Proof.
  intros Hi H. unfold step_st in H. destruct (it_d it) eqn:Ed; cbn [is_label];
    try (inversion H; subst; split; [reflexivity | discriminate]).
  - inversion H; subst. split.
    + intros q Hq Hne. apply rd_wr_other; lia.
    + intros _. cbn [d_val]. apply rd_wr_same.
  - destruct (it_tgt it) as [q|]; [|discriminate]. destruct rel.
    + inversion H; subst. split; [reflexivity | discriminate].
    + destruct (negb (rd lv q mod 4 =? 0)); [discriminate|]. inversion H; subst. split; [reflexivity | discriminate].
Qed.

Lemma pass_go_inv : forall todo done lv bo ch idx items' lv' sz ch',
  pass_go done todo lv bo ch idx = PassOk items' lv' sz ch' -> 0 <= idx ->
  exists todo', items' = rev done ++ todo' /\ map skel todo' = map skel todo /\ lv_agrees todo' lv' idx /\
                (forall k, 0 <= k < idx -> rd lv' k = rd lv k).
Proof.
  induction todo as [|it rest IH]; intros done lv bo ch idx items' lv' sz ch' H Hi.
  - cbn in H. inversion H; subst. exists []. rewrite <- rev_alt, app_nil_r.
    split; [reflexivity|]. split; [reflexivity|]. split; [exact I|]. intros; reflexivity.
  - rewrite pass_go_cons in H.
    destruct (step_st it lv (place (it :: rest) bo) idx) as [e|[st' lv1]] eqn:Es; [discriminate|].
    destruct (step_st_frame _ _ _ _ _ _ Hi Es) as [F1 F2].
    destruct (IH _ _ _ _ _ _ _ _ _ H ltac:(lia)) as (rest' & E1 & E2 & E3 & E4).
    exists ({| it_d := it_d it; it_tgt := it_tgt it; it_st := st' |} :: rest').
    split; [|split; [|split]].
    + rewrite E1. cbn [rev]. rewrite <- app_assoc. reflexivity.
    + cbn [map]. rewrite E2. reflexivity.
    + cbn [lv_agrees it_d it_st]. split; [|exact E3]. intros Hl. rewrite E4 by lia. auto.
    + intros k Hk. rewrite E4 by lia. apply F1; lia.
Qed.

(* ================================================================== 3. the fixed point *)
Definition item_ok (L : Z -> Z) (it : item) (bo1 idx : Z) : Prop :=
  let st := it_st it in
  d_off st = bo1 /\
  match it_d it with
  | DLabel _ _ => d_val st = bo1 /\ L idx = bo1
  | DRef _ _ rel => exists k, it_tgt it = Some k /\
       if rel then d_len st = instr_len (L k) bo1 /\ d_val st = L k - bo1 - d_len st
       else (L k) mod 4 = 0 /\ d_val st = L k / 4 /\ d_len st = 0
  | _ => True
  end.

Fixpoint cons_from (L : Z -> Z) (todo : list item) (bo idx sz : Z) : Prop :=
  match todo with
  | [] => sz = bo
  | it :: rest =>
      item_ok L it (place (it :: rest) bo) idx /\
      cons_from L rest (place (it :: rest) bo + dsize (it_d it) (it_st it)) (idx + 1) sz
  end.

Definition tgt_nonneg (it : item) : Prop := forall k, it_tgt it = Some k -> 0 <= k.

Lemma pass_go_fix : forall todo done lv bo idx items' lv' sz L,
  pass_go done todo lv bo false idx = PassOk items' lv' sz false -> 0 <= idx ->
  Forall tgt_nonneg todo -> lv_agrees todo lv idx -> (forall k, 0 <= k -> rd lv k = L k) ->
  items' = rev done ++ todo /\ cons_from L todo bo idx sz.
Proof.
  induction todo as [|it rest IH]; intros done lv bo idx items' lv' sz L H Hi Ht Ha HL.
  - cbn in H. inversion H; subst. rewrite <- rev_alt, app_nil_r. split; [reflexivity | reflexivity].
  - rewrite pass_go_cons in H.
    set (bo1 := place (it :: rest) bo) in *.
    destruct (step_st it lv bo1 idx) as [e|[st' lv1]] eqn:Es; [discriminate|].
    cbn [orb] in H.
    destruct (dst_eqb (it_st it) st') eqn:Eq.
    2:{ cbn [negb] in H. apply pass_go_changed in H. discriminate. }
    cbn [negb] in H. apply dst_eqb_eq in Eq. subst st'. rewrite item_eta in H.
    cbn [lv_agrees] in Ha. destruct Ha as [Ha1 Ha2]. inversion Ht as [|? ? Ht1 Ht2]; subst.
    assert (Hok: item_ok L it bo1 idx /\ (forall k, 0 <= k -> rd lv1 k = L k)).
    { unfold step_st in Es. unfold item_ok. destruct (it_d it) eqn:Ed; cbn [is_label] in *;
        try (injection Es as E1 E2; split; [|subst lv1; exact HL]; rewrite <- E1 at 1; cbn [d_off]; auto).
      - (* label *)
        injection Es as E1 E2. specialize (Ha1 eq_refl).
        assert (Hv: d_val (it_st it) = bo1) by (rewrite <- E1; reflexivity).
        assert (Ho: d_off (it_st it) = bo1) by (rewrite <- E1; reflexivity).
        split; [split; [exact Ho | split; [exact Hv|]]|].
        + rewrite <- HL by lia. congruence.
        + intros q Hq. subst lv1. destruct (Z.eq_dec q idx) as [->|Hne].
          * rewrite rd_wr_same. rewrite <- HL by lia. congruence.
          * rewrite rd_wr_other by lia. apply HL. exact Hq.
      - (* reference *)
        destruct (it_tgt it) as [q|] eqn:Etg; [|discriminate].
        assert (Hk: 0 <= q) by (apply Ht1; exact Etg).
        destruct rel.
        + injection Es as E1 E2. split; [|subst lv1; exact HL].
          split; [rewrite <- E1; reflexivity|]. exists q. split; [reflexivity|].
          rewrite <- HL by lia. split; rewrite <- E1; reflexivity.
        + destruct (rd lv q mod 4 =? 0) eqn:Em; [|discriminate]. cbn [negb] in Es.
          injection Es as E1 E2. split; [|subst lv1; exact HL].
          split; [rewrite <- E1; reflexivity|]. exists q. split; [reflexivity|].
          rewrite <- HL by lia. apply Z.eqb_eq in Em. split; [exact Em|]. split; rewrite <- E1; reflexivity. }
    destruct Hok as [Hok HL1].
    assert (Ha3: lv_agrees rest lv1 (idx + 1)).
    { eapply lv_agrees_frame; [|exact Ha2]. intros k Hk. rewrite HL1, HL by lia. reflexivity. }
    destruct (IH _ _ _ _ _ _ _ L H ltac:(lia) Ht2 Ha3 HL1) as [E1 E2].
    split.
    + rewrite E1. cbn [rev]. rewrite <- app_assoc. reflexivity.
    + cbn [cons_from]. fold bo1. split; assumption.
Qed.

(* ================================================================== 4. the loop reaches a fixed point *)
Lemma last_label_nonneg name : forall l idx acc k, 0 <= idx -> (forall a, acc = Some a -> 0 <= a) ->
  last_label name l idx acc = Some k -> 0 <= k.
Proof.
  induction l as [|d r IH]; intros idx acc k Hi Hacc H; cbn [last_label] in H.
  - apply Hacc. exact H.
  - destruct d; try (eapply IH; [| |exact H]; [lia | exact Hacc]).
    eapply IH; [| |exact H]; [lia|]. intros a Ha. destruct (String.eqb name0 name); [inversion Ha; lia | auto].
Qed.

Definition tgt_of (prog : list directive) (d : directive) : option Z :=
  match d with DRef _ name _ => last_label name prog 0 None | _ => None end.

Lemma skel_tgt_nonneg : forall a b, map skel a = map skel b -> Forall tgt_nonneg b -> Forall tgt_nonneg a.
Proof.
  induction a as [|x a IH]; intros b E H; [constructor|].
  destruct b as [|y b]; [discriminate|]. cbn [map] in E. unfold skel at 1 3 in E. injection E as Ed Et E2.
  inversion H as [|? ? H1 H2]; subst. constructor; [|eapply IH; eassumption].
  unfold tgt_nonneg in *. rewrite Et. exact H1.
Qed.

Lemma resolve_loop_fix : forall fuel passes maxp items lv res,
  resolve_loop fuel passes maxp items lv = Ok res -> Forall tgt_nonneg items -> lv_agrees items lv 0 ->
  exists L sz, cons_from L res 0 0 sz /\ map skel res = map skel items.
Proof.
  induction fuel as [|f IH]; intros passes maxp items lv res H Ht Ha; [discriminate|].
  cbn [resolve_loop] in H. destruct (maxp <? passes); [discriminate|].
  destruct (pass items lv) as [items' lv' sz changed|e] eqn:Ep; [|discriminate].
  unfold pass in Ep.
  destruct changed.
  - destruct (pass_go_inv _ _ _ _ _ _ _ _ _ _ Ep ltac:(lia)) as (todo' & E1 & E2 & E3 & _).
    cbn [rev app] in E1. subst todo'.
    destruct (IH _ _ _ _ _ H (skel_tgt_nonneg _ _ E2 Ht) E3) as (L & sz' & C1 & C2).
    exists L, sz'. split; [exact C1 | congruence].
  - injection H as <-.
    destruct (pass_go_fix _ _ _ _ _ _ _ _ (rd lv) Ep ltac:(lia) Ht Ha ltac:(reflexivity)) as [E1 E2].
    cbn [rev app] in E1. subst items'. exists (rd lv), sz. split; [exact E2 | reflexivity].
Qed.

Lemma lv_agrees_init prog : forall l idx, lv_agrees (map (mk_item prog) l) WMap.zero idx.
Proof.
  induction l as [|d r IH]; intros idx; cbn [map lv_agrees]; [exact I|].
  split; [|apply IH]. intros _. unfold WMap.zero. rewrite rd_empty. reflexivity.
Qed.

Lemma tgt_nonneg_init prog : forall l, Forall tgt_nonneg (map (mk_item prog) l).
Proof.
  induction l as [|d r IH]; cbn [map]; constructor; [|exact IH].
  intros k Hk. unfold mk_item in Hk. cbn [it_tgt] in Hk. destruct d; try discriminate.
  eapply last_label_nonneg; [| |exact Hk]; [lia | discriminate].
Qed.

Lemma skel_init prog : forall items l, map skel items = map skel (map (mk_item prog) l) ->
  map it_d items = l /\ Forall (fun it => it_tgt it = tgt_of prog (it_d it)) items.
Proof.
  induction items as [|x a IH]; intros l E; destruct l as [|d l]; try discriminate.
  - split; [reflexivity | constructor].
  - cbn [map] in E. unfold skel at 1 3 in E. unfold mk_item at 1 2 in E. cbn [it_d it_tgt] in E.
    injection E as Ed Et E2. destruct (IH _ E2) as [A B].
    split; [cbn [map]; congruence|]. constructor; [|exact B]. rewrite Et, Ed. reflexivity.
Qed.

Lemma resolve_fix prog items : resolve prog = Ok items ->
  exists L sz, cons_from L items 0 0 sz /\ map it_d items = prog /\
               Forall (fun it => it_tgt it = tgt_of prog (it_d it)) items.
Proof.
  unfold resolve. intros H.
  destruct (resolve_loop_fix _ _ _ _ _ _ H (tgt_nonneg_init prog prog) (lv_agrees_init prog prog 0)) as (L & sz & C1 & C2).
  destruct (skel_init prog _ _ C2) as [A B]. exists L, sz. auto.
Qed.

(* ================================================================== 5. sizes *)
Lemma nn_loop_ge : forall f m n, n <= nn_loop f m n.
Proof. induction f as [|f IH]; intros m n; cbn [nn_loop]; [lia|]. destruct (16 <=? m); [|lia]. specialize (IH (m / 16) (n + 1)). lia. Qed.

Lemma num_nibbles_pos v : 1 <= num_nibbles v.
Proof.
  unfold num_nibbles. destruct (v =? 0); [lia|]. destruct ((v <? 0) && (Z.abs v <? 16)); [lia|]. apply nn_loop_ge.
Qed.

Lemma enc_size_nn v : enc_size v = num_nibbles v.
Proof.
  unfold enc_size. destruct (v <? 0) eqn:En; [|reflexivity]. apply Z.ltb_lt in En. cbn [andb].
  destruct (num_nibbles v =? 1) eqn:E1; [|reflexivity]. apply Z.eqb_eq in E1. exfalso.
  unfold num_nibbles in E1. destruct (v =? 0) eqn:E0; [apply Z.eqb_eq in E0; lia|].
  replace (v <? 0) with true in E1 by (symmetry; apply Z.ltb_lt; exact En). cbn [andb] in E1.
  destruct (Z.abs v <? 16) eqn:Ea; [discriminate|]. apply Z.ltb_ge in Ea.
  assert (U: nn_loop 8 (Z.abs v) 1 = if 16 <=? Z.abs v then nn_loop 7 (Z.abs v / 16) (1 + 1) else 1) by reflexivity.
  rewrite U in E1.
  replace (16 <=? Z.abs v) with true in E1 by (symmetry; apply Z.leb_le; exact Ea).
  pose proof (nn_loop_ge 7 (Z.abs v / 16) (1 + 1)). lia.
Qed.

Lemma enc_size_pos v : 1 <= enc_size v.
Proof. rewrite enc_size_nn. apply num_nibbles_pos. Qed.

Lemma instr_len_go_spec : forall fuel d len0,
  let r := instr_len_go fuel d len0 in
  len0 <= r <= len0 + Z.of_nat fuel /\
  (forall l, len0 <= l < r -> l < num_nibbles (d - l)) /\
  (r < len0 + Z.of_nat fuel -> num_nibbles (d - r) <= r).
Proof.
  induction fuel as [|f IH]; intros d len0; cbn [instr_len_go].
  - cbv zeta. split; [lia|]. split; intros; lia.
  - destruct (len0 <? num_nibbles (d - len0)) eqn:E.
    + apply Z.ltb_lt in E. specialize (IH d (len0 + 1)). cbv zeta in *.
      set (r := instr_len_go f d (len0 + 1)) in *. clearbody r. destruct IH as [A [B C]].
      split; [lia|]. split.
      * intros l Hl. destruct (Z.eq_dec l len0) as [->|Hne]; [exact E | apply B; lia].
      * intros Hr. apply C. lia.
    + apply Z.ltb_ge in E. cbv zeta. split; [lia|]. split; [intros; lia | intros; exact E].
Qed.

(* the planned length of a relative reference is an admissible encoding length of the offset it was planned for *)
Lemma instr_len_ok v bo1 : 0 <= v < 2147483648 -> 0 <= bo1 -> bo1 + instr_len v bo1 < 2147483648 ->
  let len := instr_len v bo1 in 1 <= len <= 8 /\ int_range (v - bo1 - len) /\ size_ok (v - bo1 - len) len.
Proof.
  intros Hv Hb Hs. cbv zeta. unfold instr_len in *.
  pose proof (instr_len_go_spec 8 (v - bo1) 1) as S. cbv zeta in S.
  set (r := instr_len_go 8 (v - bo1) 1) in *. clearbody r. destruct S as [A [B C]].
  change (Z.of_nat 8) with 8 in *.
  assert (Hr: r <= 8).
  { destruct (Z.le_gt_cases r 8) as [|G]; [assumption|]. assert (r = 9) by lia. subst r.
    specialize (B 8 ltac:(lia)).
    assert (I8: AsmEncodeProofs.int_range (v - bo1 - 8)) by (unfold AsmEncodeProofs.int_range; lia).
    pose proof (num_nibbles_range _ I8). lia. }
  assert (Ir: AsmEncodeProofs.int_range (v - bo1 - r)) by (unfold AsmEncodeProofs.int_range; lia).
  split; [lia|]. split; [exact Ir|].
  eapply size_ok_mono; [apply enc_size_ok; exact Ir|]. rewrite enc_size_nn. split; [apply C; lia | exact Hr].
Qed.

Definition wf_it (it : item) : Prop := wf_directive (it_d it).

Lemma dsize_nonneg it : wf_it it -> 0 <= dsize (it_d it) (it_st it).
Proof.
  unfold wf_it. destruct (it_d it); cbn [wf_directive dsize]; intros H; try lia.
  - pose proof (enc_size_pos v). lia.
  - destruct (0 <? d_len (it_st it)) eqn:E; [apply Z.ltb_lt in E; lia|]. pose proof (enc_size_pos (d_val (it_st it))). lia.
Qed.

Lemma place_ge todo bo : bo <= place todo bo.
Proof.
  unfold place. destruct todo as [|it r]; [lia|]. unfold align4.
  destruct (is_data (it_d it) || label_before_data (it :: r)); [|lia]. destruct (bo mod 4 =? 0); lia.
Qed.

Lemma cons_from_le L : forall todo bo idx sz, Forall wf_it todo -> cons_from L todo bo idx sz -> bo <= sz.
Proof.
  induction todo as [|it r IH]; intros bo idx sz Hw H; cbn [cons_from] in H; [lia|].
  destruct H as [_ H]. inversion Hw as [|? ? W1 W2]; subst.
  specialize (IH _ _ _ W2 H). pose proof (place_ge (it :: r) bo). pose proof (dsize_nonneg it W1). lia.
Qed.

(* ================================================================== 6. images as byte maps *)
Lemma bytes_map_go_load : forall l i m, bytes_map_go l i m = load_words m i l.
Proof. induction l as [|b r IH]; intros i m; cbn [bytes_map_go load_words]; [reflexivity | apply IH]. Qed.

Lemma bytes_map_at l : at_bytes (bytes_map l) 0 l.
Proof.
  intros i Hi. unfold bytes_map. rewrite bytes_map_go_load. apply rd_load_words_inside; [lia | exact Hi].
Qed.

Lemma at_bytes_app img pos a b : at_bytes img pos (a ++ b) ->
  at_bytes img pos a /\ at_bytes img (pos + Z.of_nat (List.length a)) b.
Proof.
  intros H. split; intros i Hi.
  - rewrite H by (rewrite app_length; lia). rewrite app_nth1 by lia. reflexivity.
  - replace (pos + Z.of_nat (List.length a) + Z.of_nat i) with (pos + Z.of_nat (List.length a + i)) by lia.
    rewrite H by (rewrite app_length; lia). rewrite app_nth2 by lia. f_equal. lia.
Qed.

Lemma zeros_length n : 0 <= n -> Z.of_nat (List.length (zeros n)) = n.
Proof. intros H. unfold zeros. rewrite repeat_length. lia. Qed.

Lemma at_zeros img : forall k pos, at_bytes img pos (repeat 0 k) -> all_zero img pos k = true.
Proof.
  induction k as [|k IH]; intros pos H; cbn [all_zero repeat] in *; [reflexivity|].
  apply at_bytes_cons in H. destruct H as [H1 H2]. rewrite H1. cbn [Z.eqb andb]. apply IH. exact H2.
Qed.

Lemma at_gap img pos gap rest : 0 <= gap -> at_bytes img pos (zeros gap ++ rest) ->
  all_zero img pos (Z.to_nat gap) = true /\ at_bytes img (pos + gap) rest.
Proof.
  intros Hg H. apply at_bytes_app in H. destruct H as [H1 H2]. rewrite zeros_length in H2 by exact Hg.
  split; [apply at_zeros; exact H1 | exact H2].
Qed.

Lemma le32_length v : List.length (le32 v) = 4%nat. Proof. reflexivity. Qed.

Lemma at_le32 img pos v : at_bytes img pos (le32 v) -> word_at img pos = v mod 4294967296.
Proof.
  intros H. unfold le32 in H. cbv zeta in H.
  apply at_bytes_cons in H. destruct H as [H0 H]. apply at_bytes_cons in H. destruct H as [H1 H].
  apply at_bytes_cons in H. destruct H as [H2 H]. apply at_bytes_cons in H. destruct H as [H3 _].
  unfold word_at. replace (pos + 2) with (pos + 1 + 1) by lia. replace (pos + 3) with (pos + 1 + 1 + 1) by lia.
  rewrite H0, H1, H2, H3. unfold W32.
  pose proof (Z.mod_pos_bound v 4294967296 ltac:(lia)) as B. set (u := v mod 4294967296) in *. clearbody u. lia.
Qed.

(* ================================================================== 7. emission, in a uniform shape *)
Definition padit (n : Z) : item := {| it_d := DPadding n; it_tgt := None; it_st := dst0 |}.

Lemma ltd_app_pad n : forall l, labels_then_data (l ++ [padit n]) = labels_then_data l.
Proof. induction l as [|it r IH]; cbn [app labels_then_data]; [reflexivity|]. destruct (it_d it); auto. Qed.

Lemma lbd_app_pad n l : label_before_data (l ++ [padit n]) = label_before_data l.
Proof.
  destruct l as [|it r]; [reflexivity|]. change ((it :: r) ++ [padit n]) with (it :: (r ++ [padit n])).
  unfold label_before_data. f_equal. apply (ltd_app_pad n (it :: r)).
Qed.

Lemma place_app_pad n it r bo : place ((it :: r) ++ [padit n]) bo = place (it :: r) bo.
Proof. unfold place. change ((it :: r) ++ [padit n]) with (it :: (r ++ [padit n])) at 1. cbv iota. 
  rewrite (lbd_app_pad n (it :: r)). reflexivity. Qed.

Definition body (it : item) : list Z :=
  match it_d it with
  | DLabel _ _ => []
  | DData v => le32 v
  | DPadding n => zeros n
  | d => emit_instr (dir_opc d) (dvalue d (it_st it)) (dsize d (it_st it))
  end.

Definition sym_of (it : item) (bo1 : Z) : list (string * Z) :=
  match it_d it with DLabel LFunc n | DLabel LProc n => [(n, bo1)] | _ => [] end.

Lemma align_pad bo : align4 bo = bo + pad_to4 bo.
Proof. unfold align4, pad_to4. destruct (bo mod 4 =? 0); lia. Qed.

Lemma dsize_pos it : wf_it it ->
  match it_d it with DImm _ _ | DRef _ _ _ | DOpr _ => 1 <= dsize (it_d it) (it_st it) | _ => True end.
Proof.
  unfold wf_it. destruct (it_d it); cbn [wf_directive dsize]; intros H; try exact I; try lia.
  - apply enc_size_pos.
  - destruct (0 <? d_len (it_st it)) eqn:E; [apply Z.ltb_lt in E; lia | apply enc_size_pos].
Qed.

Lemma emit_go_cons it rest bo : wf_it it ->
  emit_go (it :: rest) bo =
  (zeros (place (it :: rest) bo - bo) ++ body it ++ fst (emit_go rest (place (it :: rest) bo + dsize (it_d it) (it_st it))),
   sym_of it (place (it :: rest) bo) ++ snd (emit_go rest (place (it :: rest) bo + dsize (it_d it) (it_st it)))).
Proof.
  intros W. pose proof (dsize_pos it W) as P. unfold wf_it in W.
  unfold place, body, sym_of. cbn [emit_go].
  set (lbd := label_before_data (it :: rest)).
  destruct (it_d it) as [v|k name|t v|t name rel|t|n] eqn:Ed; cbn [is_data orb].
  - (* DATA *)
    assert (El: lbd = false) by (unfold lbd, label_before_data; rewrite Ed; reflexivity). rewrite El.
    cbn [dsize]. rewrite !Z.add_0_r. rewrite align_pad.
    replace (bo + pad_to4 bo - bo) with (pad_to4 bo) by lia.
    destruct (emit_go rest (bo + pad_to4 bo + 4)) as [bs syms]. reflexivity.
  - (* label *)
    cbn [dsize]. rewrite Z.add_0_r.
    assert (E1: bo + (if lbd then pad_to4 bo else 0) = (if lbd then align4 bo else bo))
      by (destruct lbd; [rewrite align_pad; reflexivity | lia]).
    assert (E2: (if lbd then pad_to4 bo else 0) = (if lbd then align4 bo else bo) - bo)
      by (destruct lbd; [rewrite align_pad; lia | lia]).
    rewrite E1, E2.
    destruct (emit_go rest (if lbd then align4 bo else bo)) as [bs syms]. destruct k; reflexivity.
  - (* immediate *)
    assert (El: lbd = false) by (unfold lbd, label_before_data; rewrite Ed; reflexivity). rewrite El.
    rewrite !Z.add_0_r. replace (bo - bo) with 0 by lia.
    replace (0 <? dsize (DImm t v) (it_st it)) with true by (symmetry; apply Z.ltb_lt; lia).
    destruct (emit_go rest (bo + dsize (DImm t v) (it_st it))) as [bs syms]. reflexivity.
  - (* reference *)
    assert (El: lbd = false) by (unfold lbd, label_before_data; rewrite Ed; reflexivity). rewrite El.
    rewrite !Z.add_0_r. replace (bo - bo) with 0 by lia.
    replace (0 <? dsize (DRef t name rel) (it_st it)) with true by (symmetry; apply Z.ltb_lt; lia).
    destruct (emit_go rest (bo + dsize (DRef t name rel) (it_st it))) as [bs syms]. reflexivity.
  - (* OPR *)
    assert (El: lbd = false) by (unfold lbd, label_before_data; rewrite Ed; reflexivity). rewrite El.
    rewrite !Z.add_0_r. replace (bo - bo) with 0 by lia.
    replace (0 <? dsize (DOpr t) (it_st it)) with true by (symmetry; apply Z.ltb_lt; lia).
    destruct (emit_go rest (bo + dsize (DOpr t) (it_st it))) as [bs syms]. reflexivity.
  - contradiction.
Qed.

Lemma emit_go_pad n bo : emit_go [padit n] bo = (zeros n ++ [], []).
Proof. reflexivity. Qed.

Lemma place_cons_pad n it r bo : place (it :: (r ++ [padit n])) bo = place (it :: r) bo.
Proof. apply (place_app_pad n it r bo). Qed.

Lemma body_length it : wf_it it -> Z.of_nat (List.length (body it)) = dsize (it_d it) (it_st it).
Proof.
  intros W. pose proof (dsize_pos it W) as P. unfold wf_it in W. unfold body.
  destruct (it_d it); try reflexivity; try (apply emit_length; exact P). contradiction.
Qed.

(* ================================================================== 8. every directive decodes where it was placed *)
Definition operand_of (it : item) : Z :=
  match it_d it with
  | DData v => v
  | DLabel _ _ => 0
  | DImm _ v => v mod 4294967296
  | DRef _ _ _ => d_val (it_st it) mod 4294967296
  | DOpr t => match opr_opc t with Some k => k | None => 0 end
  | DPadding _ => 0
  end.
Definition placed_of (it : item) : placed :=
  {| p_dir := it_d it; p_start := d_off (it_st it); p_size := dsize (it_d it) (it_st it); p_operand := operand_of it |}.

Definition tgt_rng (L : Z -> Z) (sz : Z) (it : item) : Prop := forall k, it_tgt it = Some k -> 0 <= L k <= sz.

Lemma token_opc_range t : (is_abs_opc t || is_rel_opc t) = true -> exists c, token_opc t = Some c /\ 0 <= c < 14.
Proof. destruct t; cbn; intros H; try discriminate; eexists; (split; [reflexivity | lia]). Qed.

Lemma instr_len_pos v b : 1 <= instr_len v b.
Proof. unfold instr_len. pose proof (instr_len_go_spec 8 (v - b) 1) as S. cbv zeta in S. lia. Qed.

Definition decodes (it : item) (img : WMap.t) (bo1 : Z) : Prop :=
  match it_d it with
  | DLabel _ _ => True
  | DData v => word_at img bo1 = v mod 4294967296
  | DImm t v => exists c, token_opc t = Some c /\
                  decode img bo1 = Some (c, v mod 4294967296, bo1 + dsize (it_d it) (it_st it))
  | DRef t _ _ => exists c, token_opc t = Some c /\
                  decode img bo1 = Some (c, d_val (it_st it) mod 4294967296, bo1 + dsize (it_d it) (it_st it))
  | DOpr t => exists k, opr_opc t = Some k /\ rd img bo1 = 13 * 16 + k
  | DPadding _ => False
  end.

Lemma item_decodes L it bo1 idx sz img :
  wf_it it -> item_ok L it bo1 idx -> tgt_rng L sz it -> 0 <= bo1 ->
  bo1 + dsize (it_d it) (it_st it) <= sz -> sz < 2147483648 -> at_bytes img bo1 (body it) ->
  decodes it img bo1.
Proof.
  intros W [Hoff Hok] Hr Hb Hs Hsz Hat. unfold wf_it in W. unfold decodes, body in *.
  destruct (it_d it) as [v|kd name|t v|t name rel|t|n] eqn:Ed; cbn [wf_directive] in W.
  - apply at_le32. exact Hat.
  - exact I.
  - destruct W as [Wt Wv]. destruct (token_opc_range t Wt) as (c & Ec & Hc). exists c. split; [exact Ec|].
    cbn [dir_opc dvalue dsize] in *. rewrite Ec in Hat.
    apply (emit_decode img bo1 c v (enc_size v) Hc (enc_size_ok v Wv) Hat).
  - destruct W as [Wt Wrel]. destruct (token_opc_range t Wt) as (c & Ec & Hc). exists c. split; [exact Ec|].
    destruct Hok as (k & Ek & Hk). specialize (Hr k Ek).
    cbn [dir_opc dvalue] in Hat. rewrite Ec in Hat.
    apply (emit_decode img bo1 c _ _ Hc); [|exact Hat].
    cbn [dsize] in *. destruct rel.
    + destruct Hk as [Hl Hv]. pose proof (instr_len_pos (L k) bo1) as Hp.
      replace (0 <? d_len (it_st it)) with true in * by (symmetry; apply Z.ltb_lt; lia).
      rewrite Hv, Hl. rewrite Hl in Hs.
      apply (instr_len_ok (L k) bo1); lia.
    + destruct Hk as [Hm [Hv Hl]]. rewrite Hl in *. cbn [Z.ltb Z.compare] in *.
      apply enc_size_ok. rewrite Hv. unfold AsmEncodeProofs.int_range. lia.
  - destruct t; cbn [opr_opc] in W; try (exfalso; apply W; reflexivity); eexists; (split; [reflexivity|]);
      apply at_bytes_cons in Hat; destruct Hat as [Hat _]; exact Hat.
  - contradiction.
Qed.

Lemma rtd_map : forall l, run_then_data (map it_d l) = labels_then_data l.
Proof. induction l as [|it r IH]; cbn [map run_then_data labels_then_data]; [reflexivity|]. destruct (it_d it); auto. Qed.

(* ================================================================== 9. the walk over the image succeeds *)
Section Walk.
Variable L : Z -> Z.
Variables sz n : Z.
Variable img : WMap.t.
Hypothesis Hsz : sz < 2147483648.
Hypothesis Hn : 0 <= n.

(* what the emission of one directive puts into the image, split at the directive's start *)
Lemma emit_split it r bo idx :
  wf_it it -> Forall wf_it r -> cons_from L (it :: r) bo idx sz -> 0 <= bo ->
  at_bytes img bo (fst (emit_go ((it :: r) ++ [padit n]) bo)) ->
  let bo1 := place (it :: r) bo in
  let nx := bo1 + dsize (it_d it) (it_st it) in
  bo <= bo1 /\ nx <= sz /\ bo1 <= nx /\
  all_zero img bo (Z.to_nat (bo1 - bo)) = true /\ at_bytes img bo1 (body it) /\
  at_bytes img nx (fst (emit_go (r ++ [padit n]) nx)) /\
  emit_go ((it :: r) ++ [padit n]) bo =
    (zeros (bo1 - bo) ++ body it ++ fst (emit_go (r ++ [padit n]) nx), sym_of it bo1 ++ snd (emit_go (r ++ [padit n]) nx)).
Proof.
  intros W Wr C Hb Hat. cbv zeta.
  change ((it :: r) ++ [padit n]) with (it :: (r ++ [padit n])) in *.
  rewrite (emit_go_cons it (r ++ [padit n]) bo W) in *. rewrite place_cons_pad in *.
  cbn [cons_from] in C. destruct C as [_ C].
  pose proof (place_ge (it :: r) bo) as G. pose proof (cons_from_le L _ _ _ _ Wr C) as Le.
  pose proof (dsize_nonneg it W) as Dn.
  cbn [fst] in Hat. apply at_gap in Hat; [|lia]. destruct Hat as [Z1 Hat].
  replace (bo + (place (it :: r) bo - bo)) with (place (it :: r) bo) in Hat by lia.
  apply at_bytes_app in Hat. destruct Hat as [A1 A2]. rewrite (body_length it W) in A2.
  repeat match goal with |- _ /\ _ => split end; auto; lia.
Qed.

Lemma walk_ok : forall todo bo idx,
  Forall wf_it todo -> Forall (tgt_rng L sz) todo -> cons_from L todo bo idx sz -> 0 <= bo ->
  at_bytes img bo (fst (emit_go (todo ++ [padit n]) bo)) ->
  walk (map it_d todo) img bo = Some (map placed_of todo, sz) /\
  snd (emit_go (todo ++ [padit n]) bo) = expected_syms (map placed_of todo) /\
  Z.of_nat (List.length (fst (emit_go (todo ++ [padit n]) bo))) = sz + n - bo /\
  all_zero img sz (Z.to_nat n) = true.
Proof.
  induction todo as [|it r IH]; intros bo idx W R C Hb Hat.
  - cbn [cons_from] in C. subst sz. cbn [app] in *. rewrite emit_go_pad in *. cbn [fst snd] in *.
    apply at_gap in Hat; [|exact Hn]. destruct Hat as [Z1 _].
    cbn [map walk expected_syms]. rewrite app_nil_r, zeros_length by exact Hn.
    repeat match goal with |- _ /\ _ => split end; auto. lia.
  - inversion W as [|? ? W1 W2]; subst. inversion R as [|? ? R1 R2]; subst.
    destruct (emit_split it r bo idx W1 W2 C Hb Hat) as (G1 & G2 & G3 & Z1 & A1 & A2 & E).
    cbn [cons_from] in C. destruct C as [Cit C].
    set (bo1 := place (it :: r) bo) in *. set (nx := bo1 + dsize (it_d it) (it_st it)) in *.
    destruct (IH nx (idx + 1) W2 R2 C ltac:(lia) A2) as (I1 & I2 & I3 & I4).
    pose proof (item_decodes L it bo1 idx sz img W1 Cit R1 ltac:(lia) G2 Hsz A1) as D.
    destruct Cit as [Hoff Hok].
    rewrite E. cbn [fst snd]. rewrite !app_length, !Nat2Z.inj_add, I3.
    rewrite zeros_length by lia. rewrite (body_length it W1). fold nx.
    split; [|split; [|split; [lia | exact I4]]].
    + (* walk *)
      cbn [map]. unfold decodes in D. unfold placed_of at 1, operand_of at 1. unfold wf_it in W1.
      clear IH E C. subst nx. subst bo1. unfold place in *. rewrite Hoff.
      destruct (it_d it) as [v|kd name|t v|t name rel|t|m] eqn:Ed; cbn [is_data orb] in *.
      * (* DATA *)
        cbn [walk dsize]. change (up4 bo) with (align4 bo). rewrite Z1, D, Z.eqb_refl. cbn [andb].
        cbn [dsize] in I1. rewrite I1. reflexivity.
      * (* label *)
        cbn [walk dsize].
        assert (Er: run_then_data (DLabel kd name :: map it_d r) = label_before_data (it :: r)).
        { unfold label_before_data. rewrite Ed. cbn [is_label andb]. rewrite <- rtd_map. cbn [map]. rewrite Ed. reflexivity. }
        rewrite Er. change (up4 bo) with (align4 bo).
        rewrite Z1. cbn [dsize] in I1. rewrite Z.add_0_r in I1. rewrite I1. reflexivity.
      * (* immediate *)
        assert (El: label_before_data (it :: r) = false) by (unfold label_before_data; rewrite Ed; reflexivity). rewrite El in *.
        destruct D as (c & Ec & Dd). cbn [walk]. rewrite Dd, Ec, !Z.eqb_refl. cbn [andb]. rewrite I1.
        f_equal. f_equal. f_equal. unfold placed_of. f_equal. lia.
      * (* reference *)
        assert (El: label_before_data (it :: r) = false) by (unfold label_before_data; rewrite Ed; reflexivity). rewrite El in *.
        destruct D as (c & Ec & Dd). cbn [walk]. rewrite Dd, Ec, !Z.eqb_refl. rewrite I1.
        f_equal. f_equal. f_equal. f_equal. lia.
      * (* OPR *)
        assert (El: label_before_data (it :: r) = false) by (unfold label_before_data; rewrite Ed; reflexivity). rewrite El in *.
        destruct D as (k & Ek & Dd). cbn [walk]. rewrite Ek, Dd, Z.eqb_refl. cbn [dsize] in I1. rewrite I1.
        reflexivity.
      * contradiction.
    + (* symbols *)
      rewrite I2. cbn [map expected_syms]. unfold sym_of. 
      change (p_dir (placed_of it)) with (it_d it). change (p_start (placed_of it)) with (d_off (it_st it)).
      subst nx. subst bo1. rewrite Hoff. destruct (it_d it) as [v|kd name|t v|t name rel|t|m]; try reflexivity.
      destruct kd; reflexivity.
Qed.
End Walk.

(* ================================================================== 10. labels and references *)
Fixpoint forall_idx (P : Z -> item -> Prop) (l : list item) (idx : Z) : Prop :=
  match l with [] => True | it :: r => P idx it /\ forall_idx P r (idx + 1) end.

Lemma forall_idx_weaken (P Q : Z -> item -> Prop) : (forall i it, P i it -> Q i it) ->
  forall l idx, forall_idx P l idx -> forall_idx Q l idx.
Proof. intros H. induction l as [|it r IH]; intros idx F; cbn [forall_idx] in *; [exact I|]. destruct F. split; auto. Qed.

Definition lbl_ok (L : Z -> Z) (lo sz idx : Z) (it : item) : Prop :=
  is_label (it_d it) = true -> L idx = d_off (it_st it) /\ lo <= L idx <= sz.

Lemma cons_from_labels L sz : forall todo bo idx, Forall wf_it todo -> cons_from L todo bo idx sz ->
  forall_idx (lbl_ok L bo sz) todo idx.
Proof.
  induction todo as [|it r IH]; intros bo idx W C; cbn [forall_idx]; [exact I|].
  inversion W as [|? ? W1 W2]; subst. cbn [cons_from] in C. destruct C as [[Hoff Hok] C].
  pose proof (place_ge (it :: r) bo) as G. pose proof (cons_from_le L _ _ _ _ W2 C) as Le.
  pose proof (dsize_nonneg it W1) as Dn. split.
  - intros Hl. destruct (it_d it); try discriminate. destruct Hok as [_ HL]. rewrite HL, Hoff. split; [reflexivity | lia].
  - eapply forall_idx_weaken; [|apply (IH _ _ W2 C)].
    intros i x H Hl. destruct (H Hl) as [A B]. split; [exact A | lia].
Qed.

Lemma label_pos_last name L : forall todo idx acc,
  forall_idx (fun i it => is_label (it_d it) = true -> L i = d_off (it_st it)) todo idx ->
  label_pos name (map placed_of todo) (option_map L acc) = option_map L (last_label name (map it_d todo) idx acc).
Proof.
  induction todo as [|it r IH]; intros idx acc F; cbn [map label_pos last_label]; [reflexivity|].
  cbn [forall_idx] in F. destruct F as [F1 F2]. change (p_dir (placed_of it)) with (it_d it).
  change (p_start (placed_of it)) with (d_off (it_st it)).
  destruct (it_d it) as [v|kd nm|t v|t nm rel|t|m]; try (apply IH; exact F2).
  rewrite <- (IH (idx + 1) _ F2). f_equal. destruct (String.eqb nm name); [|reflexivity].
  cbn [option_map]. rewrite F1 by reflexivity. reflexivity.
Qed.

Lemma last_label_Q (Q : Z -> Prop) name : forall todo idx acc k,
  forall_idx (fun i it => is_label (it_d it) = true -> Q i) todo idx -> (forall a, acc = Some a -> Q a) ->
  last_label name (map it_d todo) idx acc = Some k -> Q k.
Proof.
  induction todo as [|it r IH]; intros idx acc k F Ha H; cbn [map last_label] in H; [apply Ha; exact H|].
  cbn [forall_idx] in F. destruct F as [F1 F2].
  destruct (it_d it) as [v|kd nm|t v|t nm rel|t|m]; try (eapply IH; [exact F2 | exact Ha | exact H]).
  eapply IH; [exact F2 | | exact H]. intros a Hs. destruct (String.eqb nm name); [|auto].
  injection Hs as <-. apply F1. reflexivity.
Qed.

Lemma tgt_rng_all L sz items :
  forall_idx (lbl_ok L 0 sz) items 0 ->
  Forall (fun it => it_tgt it = tgt_of (map it_d items) (it_d it)) items ->
  Forall (tgt_rng L sz) items.
Proof.
  intros F T. eapply Forall_impl; [|exact T]. intros it Ht k Hk. rewrite Ht in Hk.
  unfold tgt_of in Hk. destruct (it_d it); try discriminate.
  eapply (last_label_Q (fun k => 0 <= L k <= sz)); [| |exact Hk].
  - eapply forall_idx_weaken; [|exact F]. intros i x H Hl. apply H. exact Hl.
  - discriminate.
Qed.

Definition ref_fact (L : Z -> Z) (it : item) : Prop :=
  let st := it_st it in
  match it_d it with
  | DRef _ _ rel => exists k, it_tgt it = Some k /\
      if rel then 1 <= d_len st /\ d_val st = L k - d_off st - d_len st
      else L k mod 4 = 0 /\ d_val st = L k / 4 /\ d_len st = 0
  | _ => True
  end.

Lemma cons_from_refs L sz : forall todo bo idx, cons_from L todo bo idx sz -> Forall (ref_fact L) todo.
Proof.
  induction todo as [|it r IH]; intros bo idx C; [constructor|].
  cbn [cons_from] in C. destruct C as [[Hoff Hok] C]. constructor; [|eapply IH; exact C].
  unfold ref_fact. destruct (it_d it); try exact I. destruct Hok as (k & Ek & Hk). exists k. split; [exact Ek|].
  destruct rel; [|exact Hk]. destruct Hk as [Hl Hv]. rewrite Hoff. split; [|exact Hv].
  rewrite Hl. apply instr_len_pos.
Qed.

Lemma ref_ok_all L sz items : sz < 2147483648 ->
  forall_idx (lbl_ok L 0 sz) items 0 ->
  Forall (fun it => it_tgt it = tgt_of (map it_d items) (it_d it)) items ->
  Forall (ref_fact L) items ->
  forallb (ref_ok (map placed_of items)) (map placed_of items) = true.
Proof.
  intros Hsz F T Rf. pose proof (tgt_rng_all L sz items F T) as Rg.
  apply forallb_forall. intros p Hp. apply in_map_iff in Hp. destruct Hp as (it & <- & Hin).
  rewrite Forall_forall in T, Rf, Rg. specialize (T it Hin). specialize (Rf it Hin). specialize (Rg it Hin).
  unfold ref_ok. change (p_dir (placed_of it)) with (it_d it). unfold ref_fact in Rf.
  change (p_start (placed_of it)) with (d_off (it_st it)).
  change (p_size (placed_of it)) with (dsize (it_d it) (it_st it)).
  change (p_operand (placed_of it)) with (operand_of it). unfold operand_of.
  destruct (it_d it) as [v|kd nm|t v|t nm rel|t|m] eqn:Ed; try reflexivity.
  destruct Rf as (k & Ek & Hk). specialize (Rg k Ek).
  change None with (option_map L None) at 1.
  rewrite (label_pos_last nm L items 0 None).
  2:{ eapply forall_idx_weaken; [|exact F]. intros i x H Hl. apply H. exact Hl. }
  unfold tgt_of in T. rewrite <- T, Ek. cbn [option_map dsize].
  destruct rel.
  - destruct Hk as [Hl Hv]. replace (0 <? d_len (it_st it)) with true by (symmetry; apply Z.ltb_lt; lia).
    apply Z.eqb_eq. unfold wrap, W. rewrite Hv. lia.
  - destruct Hk as [Hm [Hv Hl]]. rewrite Hm, Hv. cbn [Z.eqb andb]. apply Z.eqb_eq. lia.
Qed.

(* ================================================================== 11. the assembled output *)
Lemma program_size_go_spec L : forall todo bo idx sz, cons_from L todo bo idx sz -> program_size_go todo bo = sz.
Proof.
  induction todo as [|it r IH]; intros bo idx sz C; cbn [cons_from program_size_go] in *; [congruence|].
  destruct C as [[Hoff _] C]. rewrite Hoff. eapply IH. exact C.
Qed.

Lemma assemble_shape prog locs out : assemble_directives prog locs = Ok out ->
  exists items, resolve prog = Ok items /\
    let sz := program_size items in let pad := (- sz) mod 4 in
    ao_layout out = {| l_items := items ++ [padit pad]; l_size := sz + pad |} /\
    ao_image out = fst (emit_go (items ++ [padit pad]) 0) /\
    ao_syms out = snd (emit_go (items ++ [padit pad]) 0).
Proof.
  unfold assemble_directives, codegen. intros H. destruct (resolve prog) as [items| | |]; try discriminate.
  exists items. split; [reflexivity|]. cbv zeta.
  unfold emit_bin in H. cbn [l_items] in H. fold (padit ((- program_size items) mod 4)) in H.
  destruct (emit_go (items ++ [padit ((- program_size items) mod 4)]) 0) as [img syms].
  injection H as <-. cbn [ao_layout ao_image ao_syms fst snd]. auto.
Qed.

(* everything the three validators need, in one place *)
Lemma assemble_facts prog locs out :
  Forall wf_directive prog -> assemble_directives prog locs = Ok out -> small (ao_layout out) ->
  exists L items sz n,
    0 <= sz /\ n = (- sz) mod 4 /\ sz + n < 2147483648 /\
    map it_d items = prog /\
    ao_layout out = {| l_items := items ++ [padit n]; l_size := sz + n |} /\
    ao_image out = fst (emit_go (items ++ [padit n]) 0) /\
    ao_syms out = snd (emit_go (items ++ [padit n]) 0) /\
    Forall wf_it items /\ Forall (tgt_rng L sz) items /\ cons_from L items 0 0 sz /\
    forall_idx (lbl_ok L 0 sz) items 0 /\
    Forall (fun it => it_tgt it = tgt_of (map it_d items) (it_d it)) items.
Proof.
  intros Wf H Sm. destruct (assemble_shape _ _ _ H) as (items & Hr & Hl & Hi & Hs). cbv zeta in *.
  destruct (resolve_fix _ _ Hr) as (L & sz & C & Hd & Ht).
  pose proof (program_size_go_spec L _ _ _ _ C) as Ps. fold (program_size items) in Ps. rewrite Ps in *.
  assert (W: Forall wf_it items) by (apply (proj1 (Forall_map it_d wf_directive items)); rewrite Hd; exact Wf).
  pose proof (cons_from_le L _ _ _ _ W C) as Le.
  pose proof (cons_from_labels L sz _ _ _ W C) as Fl.
  assert (Ht': Forall (fun it => it_tgt it = tgt_of (map it_d items) (it_d it)) items) by (rewrite Hd; exact Ht).
  unfold small in Sm. rewrite Hl in Sm. cbn [l_size] in Sm.
  exists L, items, sz, ((- sz) mod 4).
  repeat match goal with |- _ /\ _ => split end; auto.
  apply (tgt_rng_all L sz items Fl Ht').
Qed.

Theorem layout_sound : C05_layout_sound_stmt.
Proof.
  intros prog locs out Wf H Sm.
  destruct (assemble_facts _ _ _ Wf H Sm) as (L & items & sz & n & Hsz & Hn & Hs & Hd & Hl & Hi & _ & W & Rg & C & Fl & Ht).
  assert (Hn0: 0 <= n < 4) by (subst n; apply Z.mod_pos_bound; lia).
  set (image := ao_image out) in *.
  assert (Hat: at_bytes (bytes_map image) 0 (fst (emit_go (items ++ [padit n]) 0))) by (rewrite <- Hi; apply bytes_map_at).
  destruct (walk_ok L sz n (bytes_map image) ltac:(lia) ltac:(lia) items 0 0 W Rg C ltac:(lia) Hat) as (Wk & _ & Len & Zs).
  rewrite <- Hi in Len.
  unfold check_image. fold image. rewrite <- Hd, Wk. rewrite Hl. cbn [l_size]. rewrite Len.
  rewrite (ref_ok_all L sz items ltac:(lia) Fl Ht (cons_from_refs L sz _ _ _ C)). cbn [andb].
  replace (sz + n - 0 - sz) with n by lia. rewrite Zs.
  replace (sz <=? sz + n - 0) with true by (symmetry; apply Z.leb_le; lia).
  replace (sz + n - 0 =? up4 sz) with true.
  2:{ symmetry. apply Z.eqb_eq. unfold up4. destruct (sz mod 4 =? 0) eqn:E; [apply Z.eqb_eq in E | apply Z.eqb_neq in E]; lia. }
  cbn [andb]. apply Z.eqb_eq. lia.
Qed.

Theorem symtab_ok : C15_symtab_stmt.
Proof.
  intros prog locs out Wf H Sm.
  destruct (assemble_facts _ _ _ Wf H Sm) as (L & items & sz & n & Hsz & Hn & Hs & Hd & Hl & Hi & Hy & W & Rg & C & Fl & Ht).
  assert (Hn0: 0 <= n < 4) by (subst n; apply Z.mod_pos_bound; lia).
  set (image := ao_image out) in *.
  assert (Hat: at_bytes (bytes_map image) 0 (fst (emit_go (items ++ [padit n]) 0))) by (rewrite <- Hi; apply bytes_map_at).
  destruct (walk_ok L sz n (bytes_map image) ltac:(lia) ltac:(lia) items 0 0 W Rg C ltac:(lia) Hat) as (Wk & Sy & _ & _).
  unfold check_symtab. fold image. rewrite <- Hd, Wk, Hy, Sy.
  generalize (expected_syms (map placed_of items)). intros l. induction l as [|[nm o] l IH]; [reflexivity|].
  cbn [syms_eqb]. rewrite String.eqb_refl, Z.eqb_refl, IH. reflexivity.
Qed.

(* ================================================================== 12. the listing *)
Lemma align4_mod bo : align4 bo mod 4 = 0.
Proof. unfold align4. destruct (bo mod 4 =? 0) eqn:E; [apply Z.eqb_eq in E; exact E | lia]. Qed.

Section Lines.
Variable L : Z -> Z.
Variables sz n : Z.
Variable img : WMap.t.
Hypothesis Hsz : sz < 2147483648.
Hypothesis Hn : 0 <= n.

Lemma lines_ok : forall todo bo idx,
  Forall wf_it todo -> Forall (tgt_rng L sz) todo -> cons_from L todo bo idx sz -> 0 <= bo ->
  at_bytes img bo (fst (emit_go (todo ++ [padit n]) bo)) ->
  check_lines (map struct_line (todo ++ [padit n])) img bo (sz + n) = true.
Proof.
  induction todo as [|it r IH]; intros bo idx W R C Hb Hat.
  - cbn [cons_from] in C. subst sz. cbn [app] in *. rewrite emit_go_pad in Hat. cbn [fst] in Hat.
    apply at_gap in Hat; [|exact Hn]. destruct Hat as [Z1 _].
    cbn [map struct_line padit it_d check_lines]. rewrite Z.eqb_refl, Z1.
    replace (bo + n - (bo + n)) with 0 by lia. cbn [Z.to_nat all_zero andb].
    rewrite andb_true_r. apply Z.leb_le. lia.
  - inversion W as [|? ? W1 W2]; subst. inversion R as [|? ? R1 R2]; subst.
    destruct (emit_split L sz n img it r bo idx W1 W2 C Hb Hat) as (G1 & G2 & G3 & Z1 & A1 & A2 & _).
    cbn [cons_from] in C. destruct C as [Cit C].
    set (bo1 := place (it :: r) bo) in *. set (nx := bo1 + dsize (it_d it) (it_st it)) in *.
    pose proof (IH nx (idx + 1) W2 R2 C ltac:(lia) A2) as I1.
    pose proof (item_decodes L it bo1 idx sz img W1 Cit R1 ltac:(lia) G2 Hsz A1) as D.
    destruct Cit as [Hoff Hok].
    change ((it :: r) ++ [padit n]) with (it :: (r ++ [padit n])). cbn [map].
    unfold decodes in D. unfold struct_line at 1. unfold wf_it in W1. rewrite Hoff.
    assert (Hle: (bo <=? bo1) = true) by (apply Z.leb_le; lia).
    assert (Ha: bo1 mod 4 = 0 \/ is_data (it_d it) = false).
    { unfold bo1, place. destruct (is_data (it_d it)); [left; cbn [orb]; apply align4_mod | right; reflexivity]. }
    clearbody bo1. subst nx.
    destruct (it_d it) as [v|kd name|t v|t name rel|t|m] eqn:Ed; cbn [check_lines dsize dir_opc] in *.
    + destruct Ha as [Ha|Ha]; [|discriminate]. rewrite Hle, Z1, D, Ha, !Z.eqb_refl. cbn [andb Z.eqb]. exact I1.
    + rewrite Hle, Z1. rewrite Z.add_0_r in I1. cbn [Z.eqb andb]. exact I1.
    + destruct D as (c & Ec & Dd). rewrite Hle, Z1, Dd, Ec, !Z.eqb_refl. cbn [andb].
      replace (bo1 + enc_size v - bo1) with (enc_size v) by lia. rewrite Z.eqb_refl. exact I1.
    + destruct D as (c & Ec & Dd). rewrite Hle, Z1, Dd, Ec, !Z.eqb_refl. cbn [andb].
      match goal with |- context [?a - bo1 =? ?b] => replace (a - bo1) with b by lia end.
      rewrite Z.eqb_refl. exact I1.
    + destruct D as (k & Ek & Dd). rewrite Hle, Z1, Dd, Ek, !Z.eqb_refl. cbn [andb Z.eqb Pos.eqb]. exact I1.
    + contradiction.
Qed.
End Lines.

Theorem listing_ok : C17_listing_stmt.
Proof.
  intros prog locs out Wf H Sm.
  destruct (assemble_facts _ _ _ Wf H Sm) as (L & items & sz & n & Hsz & Hn & Hs & Hd & Hl & Hi & Hy & W & Rg & C & Fl & Ht).
  assert (Hn0: 0 <= n < 4) by (subst n; apply Z.mod_pos_bound; lia).
  set (image := ao_image out) in *.
  assert (Hat: at_bytes (bytes_map image) 0 (fst (emit_go (items ++ [padit n]) 0))) by (rewrite <- Hi; apply bytes_map_at).
  destruct (walk_ok L sz n (bytes_map image) ltac:(lia) ltac:(lia) items 0 0 W Rg C ltac:(lia) Hat) as (_ & _ & Len & _).
  rewrite <- Hi in Len.
  unfold check_listing, struct_listing. fold image. rewrite Hl. cbn [l_items]. rewrite Len, Z.sub_0_r.
  apply (lines_ok L sz n (bytes_map image) ltac:(lia) ltac:(lia) items 0 0 W Rg C ltac:(lia) Hat).
Qed.

(* ================================================================== 13. what a validated image means for the processor *)
(* These lemmas are about the validator alone: an image accepted by check_image executes its references correctly. *)
Lemma decode_go_next : forall f img pos o c o' nxt, decode_go f img pos o = Some (c, o', nxt) -> pos < nxt.
Proof.
  induction f as [|f IH]; intros img pos o c o' nxt H; [discriminate|]. cbn [decode_go] in H.
  destruct ((rd img pos / 16 =? 14) || (rd img pos / 16 =? 15)).
  - apply IH in H. lia.
  - injection H as _ _ <-. lia.
Qed.

Lemma up4_ge p : p <= up4 p.
Proof. unfold up4. destruct (p mod 4 =? 0); lia. Qed.

Definition placed_ok (img : WMap.t) (pos e : Z) (p : placed) : Prop :=
  pos <= p_start p /\ 0 <= p_size p /\ p_start p + p_size p <= e /\
  match p_dir p with
  | DRef t _ _ => exists c, token_opc t = Some c /\ decode img (p_start p) = Some (c, p_operand p, p_start p + p_size p)
  | _ => True
  end.

Lemma placed_ok_weaken img pos pos' e p : pos <= pos' -> placed_ok img pos' e p -> placed_ok img pos e p.
Proof. intros H (A & B & C & D). unfold placed_ok. split; [lia|]. split; [lia|]. split; [lia | exact D]. Qed.

Lemma walk_placed : forall l img pos ps e, walk l img pos = Some (ps, e) ->
  pos <= e /\ forall p, In p ps -> placed_ok img pos e p.
Proof.
  induction l as [|d rest IH]; intros img pos ps e H.
  - cbn [walk] in H. injection H as <- <-. split; [lia | intros p []].
  - destruct d as [v|kd name|t v|t name rel|t|m].
    + (* DATA *)
      cbn [walk] in H. destruct (all_zero img pos (Z.to_nat (up4 pos - pos)) && (word_at img (up4 pos) =? v mod 4294967296)); [|discriminate].
      destruct (walk rest img (up4 pos + 4)) as [[ps' e']|] eqn:Ew; [|discriminate]. injection H as <- <-.
      destruct (IH _ _ _ _ Ew) as [Le Hp]. pose proof (up4_ge pos) as G. split; [lia|].
      intros p [<-|Hin].
      * unfold placed_ok. cbn [p_start p_size p_dir]. repeat match goal with |- _ /\ _ => split end; try exact I; lia.
      * eapply placed_ok_weaken; [|apply Hp; exact Hin]. lia.
    + (* label *)
      cbn [walk] in H. set (pos' := if run_then_data (DLabel kd name :: rest) then up4 pos else pos) in *.
      assert (G: pos <= pos') by (unfold pos'; destruct (run_then_data _); [apply up4_ge | lia]). clearbody pos'.
      destruct (all_zero img pos (Z.to_nat (pos' - pos))); [|discriminate].
      destruct (walk rest img pos') as [[ps' e']|] eqn:Ew; [|discriminate]. injection H as <- <-.
      destruct (IH _ _ _ _ Ew) as [Le Hp]. split; [lia|].
      intros p [<-|Hin].
      * unfold placed_ok. cbn [p_start p_size p_dir]. repeat match goal with |- _ /\ _ => split end; try exact I; lia.
      * eapply placed_ok_weaken; [|apply Hp; exact Hin]. lia.
    + (* immediate *)
      cbn [walk] in H. destruct (decode img pos) as [[[opc o] nxt]|] eqn:Ed; [|discriminate].
      destruct (token_opc t) as [c|]; [|discriminate].
      destruct ((opc =? c) && (o =? v mod 4294967296)); [|discriminate].
      destruct (walk rest img nxt) as [[ps' e']|] eqn:Ew; [|discriminate]. injection H as <- <-.
      destruct (IH _ _ _ _ Ew) as [Le Hp]. apply decode_go_next in Ed. split; [lia|].
      intros p [<-|Hin].
      * unfold placed_ok. cbn [p_start p_size p_dir]. repeat match goal with |- _ /\ _ => split end; try exact I; lia.
      * eapply placed_ok_weaken; [|apply Hp; exact Hin]. lia.
    + (* reference *)
      cbn [walk] in H. destruct (decode img pos) as [[[opc o] nxt]|] eqn:Ed; [|discriminate].
      destruct (token_opc t) as [c|] eqn:Ec; [|discriminate].
      destruct (opc =? c) eqn:Eo; [|discriminate]. apply Z.eqb_eq in Eo. subst opc.
      destruct (walk rest img nxt) as [[ps' e']|] eqn:Ew; [|discriminate]. injection H as <- <-.
      destruct (IH _ _ _ _ Ew) as [Le Hp]. pose proof (decode_go_next _ _ _ _ _ _ _ Ed) as Dn. split; [lia|].
      intros p [<-|Hin].
      * unfold placed_ok. cbn [p_start p_size p_dir p_operand].
        repeat match goal with |- _ /\ _ => split end; try lia.
        exists c. split; [exact Ec|]. rewrite Ed. f_equal. f_equal. lia.
      * eapply placed_ok_weaken; [|apply Hp; exact Hin]. lia.
    + (* OPR *)
      cbn [walk] in H. destruct (opr_opc t) as [k|]; [|discriminate].
      destruct (rd img pos =? 13 * 16 + k); [|discriminate].
      destruct (walk rest img (pos + 1)) as [[ps' e']|] eqn:Ew; [|discriminate]. injection H as <- <-.
      destruct (IH _ _ _ _ Ew) as [Le Hp]. split; [lia|].
      intros p [<-|Hin].
      * unfold placed_ok. cbn [p_start p_size p_dir]. repeat match goal with |- _ /\ _ => split end; try exact I; lia.
      * eapply placed_ok_weaken; [|apply Hp; exact Hin]. lia.
    + cbn [walk] in H. discriminate.
Qed.

(* the statement about one validated reference, for the processor of Isa.v *)
Definition ref_executes (img : WMap.t) (ps : list placed) (p : placed) : Prop :=
  match p_dir p with
  | DRef t name rel =>
      exists lp c, label_pos name ps None = Some lp /\ token_opc t = Some c /\ 0 <= p_start p /\ 1 <= p_size p /\
      forall s inp, pc s = p_start p -> oreg s = 0 -> holds (mem s) img (p_start p) (p_start p + p_size p) ->
      exists s', Isa.run (Z.to_nat (p_size p - 1)) s inp [] = ([], inp, s', Cut) /\
        pc s' = p_start p + p_size p - 1 /\ areg s' = areg s /\ breg s' = breg s /\ mem s' = mem s /\
        fetch s' / 16 = c /\
        let o := Z.lor (oreg s') (fetch s' mod 16) in
        if rel then wrap (pc s' + 1 + o) = lp else lp mod 4 = 0 /\ o = lp / 4
  | _ => True
  end.

Theorem image_refs_execute prog image hw :
  check_image prog image hw = true -> Z.of_nat (List.length image) <= W ->
  exists ps e, walk prog (bytes_map image) 0 = Some (ps, e) /\ forall p, In p ps -> ref_executes (bytes_map image) ps p.
Proof.
  unfold check_image. intros H Hlen. set (img := bytes_map image) in *.
  destruct (walk prog img 0) as [[ps e]|] eqn:Ew; [|discriminate]. exists ps, e. split; [reflexivity|].
  apply andb_prop in H. destruct H as [H _]. apply andb_prop in H. destruct H as [H _].
  apply andb_prop in H. destruct H as [H _]. apply andb_prop in H. destruct H as [Hr He]. apply Z.leb_le in He.
  rewrite forallb_forall in Hr.
  destruct (walk_placed _ _ _ _ _ Ew) as [_ Hp].
  intros p Hin. specialize (Hr p Hin). destruct (Hp p Hin) as (P1 & P2 & P3 & P4).
  unfold ref_executes. unfold ref_ok in Hr. destruct (p_dir p) as [v|kd name|t v|t name rel|t|m]; try exact I.
  destruct (label_pos name ps None) as [lp|]; [|discriminate]. destruct P4 as (c & Ec & Dd).
  pose proof (decode_go_next _ _ _ _ _ _ _ Dd) as Dn.
  exists lp, c. split; [reflexivity|]. split; [exact Ec|]. split; [lia|]. split; [lia|].
  intros s inp Hpc Ho Hh. unfold decode in Dd.
  destruct (decode_exec _ _ _ _ _ _ _ Dd s inp Hpc Ho ltac:(lia) ltac:(lia) Hh)
    as [_ (s' & Hrun & Q1 & Q2 & Q3 & Q4 & Q5 & Q6 & Q7 & Q8 & Q9)].
  exists s'. replace (p_start p + p_size p - p_start p - 1) with (p_size p - 1) in Hrun by lia.
  repeat match goal with |- _ /\ _ => split end; auto.
  cbv zeta. rewrite Q9, Q1. replace (p_start p + p_size p - 1 + 1 + p_operand p) with (p_start p + p_size p + p_operand p) by lia.
  destruct rel.
  - apply Z.eqb_eq. exact Hr.
  - apply andb_prop in Hr. destruct Hr as [R1 R2]. apply Z.eqb_eq in R1, R2. split; assumption.
Qed.

(* ... and therefore every reference of every accepted program executes as the source says *)
Definition C05_refs_execute_stmt : Prop :=
  forall prog locs out, Forall wf_directive prog -> assemble_directives prog locs = Ok out -> small (ao_layout out) ->
    exists ps e, walk prog (bytes_map (ao_image out)) 0 = Some (ps, e) /\
                 forall p, In p ps -> ref_executes (bytes_map (ao_image out)) ps p.

Theorem refs_execute : C05_refs_execute_stmt.
Proof.
  intros prog locs out Wf H Sm. pose proof (layout_sound prog locs out Wf H Sm) as Hc.
  apply (image_refs_execute prog (ao_image out) _ Hc).
  unfold check_image in Hc. destruct (walk prog (bytes_map (ao_image out)) 0) as [[ps e]|]; [|discriminate].
  apply andb_prop in Hc. destruct Hc as [_ Hh]. apply Z.eqb_eq in Hh.
  unfold small in Sm. unfold W. rewrite <- Hh. lia.
Qed.
