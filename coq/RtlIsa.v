(* RtlIsa.v -- the reference datapath RefRtl.ref_cycle refines the ISA (Isa.step) under the invariant [Inv]
   (register widths, memory words below 2^32, low nibble of oreg clear) and the property's address range
   [in_range]; system-call request; runs from reset with the testbench's system-call shim as environment.
   Hand proofs about RefRtl only -- independent of the Verilog text and of generated terms. *)
From Coq Require Import ZArith Lia Bool List String.
From HexVerif Require Import WMap Isa Vexp RtlSem RefRtl.
Import ListNotations.
Local Open Scope Z_scope.
Ltac Zify.zify_post_hook ::= Z.div_mod_to_equations.

Definition abs (s : rstate) : arch :=
  {| pc := r_pc s; areg := r_areg s; breg := r_breg s; oreg := r_oreg s; mem := r_mem s |}.
Definition Inv (s : rstate) : Prop := wf s /\ r_oreg s mod 16 = 0.
(* byte addresses the instruction produces stay below 800000: the next pc (incl. branch and BRB targets) and the LDAP result;
   word addresses below 200000 are what Isa.step = Ok already says *)
Definition in_range (k : Z) (a' : arch) : Prop := pc a' < 800000 /\ (k / 16 = 5 -> areg a' < 800000).
Definition with_mem (a : arch) (m : WMap.t) : arch := {| pc := pc a; areg := areg a; breg := breg a; oreg := oreg a; mem := m |}.
Definition is_read (ev : event) : bool := match ev with Read _ _ => true | _ => false end.

Lemma fetch_abs s : fetch (abs s) = r_fetch s.
Proof. reflexivity. Qed.

(* ------------------------------------------------------------------ arithmetic *)
Lemma pc1_ok p : 0 <= p < M21 -> wrap (p + 1) < 800000 -> (p + 1) mod M21 = wrap (p + 1).
Proof. unfold wrap, W, M21. intros. lia. Qed.
Lemma pc1_wrap p : 0 <= p < M21 -> wrap (p + 1) = p + 1.
Proof. unfold wrap, W, M21. intros. lia. Qed.
Lemma br_ok p o : 0 <= p < M21 -> 0 <= o -> wrap (wrap (p + 1) + o) < 800000 ->
  ((p + 1) mod M21 + o mod M21) mod M21 = wrap (wrap (p + 1) + o).
Proof. intros Hp Ho. rewrite (pc1_wrap p Hp). unfold wrap, W, M21 in *. intros. lia. Qed.
Lemma addr0_ok o : in_mem o = true -> o mod M19 = o.
Proof. unfold in_mem, MEMW, M19. intros H. apply andb_prop in H. destruct H as [H1 H2]. apply Z.leb_le in H1. apply Z.ltb_lt in H2. lia. Qed.
Lemma addr_ok x o : 0 <= x -> 0 <= o -> in_mem (wrap (x + o)) = true -> (x mod M19 + o mod M19) mod M19 = wrap (x + o).
Proof.
  unfold in_mem, MEMW, M19, wrap, W. intros Hx Ho H. apply andb_prop in H. destruct H as [H1 H2].
  apply Z.leb_le in H1. apply Z.ltb_lt in H2. lia.
Qed.

Lemma land_aligned q n : 0 <= n < 16 -> Z.land (16 * q) n = 0.
Proof.
  intros Hn. apply Z.bits_inj'. intros i Hi. rewrite Z.land_spec, Z.bits_0.
  destruct (Z.lt_ge_cases i 4).
  - replace (16 * q) with (q * 2 ^ 4) by (change (2 ^ 4) with 16; lia). rewrite Z.mul_pow2_bits_low by lia. reflexivity.
  - replace n with (n mod 2 ^ 4) by (change (2 ^ 4) with 16; apply Z.mod_small; lia).
    rewrite Z.mod_pow2_bits_high by lia. apply andb_false_r.
Qed.
Lemma lor_aligned q n : 0 <= n < 16 -> Z.lor (16 * q) n = 16 * q + n.
Proof. intros Hn. pose proof (land_aligned q n Hn) as L. rewrite <- (Z.lxor_lor _ _ L). symmetry. apply Z.add_nocarry_lxor. exact L. Qed.
Lemma lor_mod16 a b : 0 <= a -> 0 <= b -> Z.lor a b mod 16 = Z.lor (a mod 16) (b mod 16).
Proof.
  intros Ha Hb. change 16 with (2 ^ 4). rewrite <- !Z.land_ones by lia. apply Z.land_lor_distr_l.
Qed.

Lemma opr_nonneg s n : wf s -> 0 <= n -> 0 <= r_opr s n.
Proof. intros [_ [_ [_ [Ho _]]]] Hn. unfold r_opr. apply Z.lor_nonneg. lia. Qed.

(* OPR: the RTL decodes the operand nibble, the ISA the whole operand; with the low nibble of oreg clear and an
   ISA-defined operand (<= 3) the two agree and oreg is 0 *)
Lemma opr_small s n : r_oreg s mod 16 = 0 -> 0 <= r_oreg s -> 0 <= n < 16 -> 0 <= r_opr s n <= 3 -> r_opr s n = n.
Proof.
  intros I Ho Hn H. unfold r_opr in *. replace (r_oreg s) with (16 * (r_oreg s / 16)) in * by lia.
  rewrite lor_aligned in * by assumption. lia.
Qed.

Lemma ok3_inv (a b : arch) (i j : inputs) (e f : event) : @Ok (arch * inputs * event) (a, i, e) = Ok (b, j, f) -> a = b /\ i = j /\ e = f.
Proof. intros H. inversion H. auto. Qed.

Ltac redop := cbn [Z.eqb Z.leb Z.ltb Z.compare Pos.eqb Pos.compare Pos.compare_cont CompOpp andb orb].

(* ------------------------------------------------------------------ one clock = one ISA instruction *)
Theorem ref_refines_isa s inp a' inp' ev :
  Inv s -> step (abs s) inp = Ok (a', inp', ev) -> in_range (r_fetch s) a' ->
  abs (ref_cycle s) = if is_read ev then with_mem a' (r_mem s) else a'.
Proof.
  intros [Wf I] H R. pose proof Wf as [Hpc [Ha [Hb [Ho Hm]]]].
  unfold step in H. rewrite fetch_abs in H. cbn [pc areg breg oreg mem abs] in H.
  destruct (negb (in_mem (r_pc s / 4))) eqn:Hin; [discriminate|].
  unfold ref_cycle. cbv zeta. unfold in_range in R.
  set (k := r_fetch s) in *.
  assert (Hk : 0 <= k < 256) by (unfold k, r_fetch; apply Z.mod_pos_bound; lia).
  set (n := k mod 16) in *. assert (Hn : 0 <= n < 16) by (unfold n; apply Z.mod_pos_bound; lia).
  fold (r_opr s n) in H. pose proof (opr_nonneg s n Wf ltac:(lia)) as Hopr.
  set (o := r_opr s n) in *.
  remember (k / 16) as op eqn:Hop.
  assert (Hcases : op = 0 \/ op = 1 \/ op = 2 \/ op = 3 \/ op = 4 \/ op = 5 \/ op = 6 \/ op = 7 \/ op = 8 \/ op = 9 \/
                   op = 10 \/ op = 11 \/ op = 12 \/ op = 13 \/ op = 14 \/ op = 15) by lia.
  unfold ref_pc, ref_areg, ref_breg, ref_oreg, r_daddr, spec_we, r_br, r_pc1. fold o.
  destruct Hcases as [ -> | [ -> | [ -> | [ -> | [ -> | [ -> | [ -> | [ -> | [ -> | [ -> | [ -> | [ -> | [ -> | [ -> | [ -> | -> ]]]]]]]]]]]]]]].
  - (* LDAM *) destruct (in_mem o) eqn:M; [|discriminate]. apply ok3_inv in H; destruct H as [<- [<- <-]]. cbn [is_read pc areg] in *. redop.
    unfold abs. cbn [r_pc r_areg r_breg r_oreg r_mem]. destruct R as [R _]. cbn [pc] in R.
    rewrite (addr0_ok o M), (pc1_ok _ Hpc R). reflexivity.
  - (* LDBM *) destruct (in_mem o) eqn:M; [|discriminate]. apply ok3_inv in H; destruct H as [<- [<- <-]]. cbn [is_read pc areg] in *. redop.
    unfold abs. cbn [r_pc r_areg r_breg r_oreg r_mem]. destruct R as [R _]. cbn [pc] in R.
    rewrite (addr0_ok o M), (pc1_ok _ Hpc R). reflexivity.
  - (* STAM *) destruct (in_mem o) eqn:M; [|discriminate]. apply ok3_inv in H; destruct H as [<- [<- <-]]. cbn [is_read pc areg] in *. redop.
    unfold abs. cbn [r_pc r_areg r_breg r_oreg r_mem]. destruct R as [R _]. cbn [pc] in R.
    rewrite (addr0_ok o M), (pc1_ok _ Hpc R). reflexivity.
  - (* LDAC *) apply ok3_inv in H; destruct H as [<- [<- <-]]. cbn [is_read pc areg] in *. redop.
    unfold abs. cbn [r_pc r_areg r_breg r_oreg r_mem]. destruct R as [R _]. rewrite (pc1_ok _ Hpc R). reflexivity.
  - (* LDBC *) apply ok3_inv in H; destruct H as [<- [<- <-]]. cbn [is_read pc areg] in *. redop.
    unfold abs. cbn [r_pc r_areg r_breg r_oreg r_mem]. destruct R as [R _]. rewrite (pc1_ok _ Hpc R). reflexivity.
  - (* LDAP *) apply ok3_inv in H; destruct H as [<- [<- <-]]. cbn [is_read pc areg] in *. redop.
    unfold abs. cbn [r_pc r_areg r_breg r_oreg r_mem]. destruct R as [R1 R2]. specialize (R2 eq_refl).
    rewrite (br_ok _ o Hpc Hopr R2), (pc1_ok _ Hpc R1). reflexivity.
  - (* LDAI *) destruct (in_mem (wrap (r_areg s + o))) eqn:M; [|discriminate]. apply ok3_inv in H; destruct H as [<- [<- <-]]. cbn [is_read pc areg] in *. redop.
    unfold abs. cbn [r_pc r_areg r_breg r_oreg r_mem]. destruct R as [R _]. cbn [pc] in R.
    rewrite (addr_ok (r_areg s) o (proj1 Ha) Hopr M), (pc1_ok _ Hpc R). reflexivity.
  - (* LDBI *) destruct (in_mem (wrap (r_breg s + o))) eqn:M; [|discriminate]. apply ok3_inv in H; destruct H as [<- [<- <-]]. cbn [is_read pc areg] in *. redop.
    unfold abs. cbn [r_pc r_areg r_breg r_oreg r_mem]. destruct R as [R _]. cbn [pc] in R.
    rewrite (addr_ok (r_breg s) o (proj1 Hb) Hopr M), (pc1_ok _ Hpc R). reflexivity.
  - (* STAI *) destruct (in_mem (wrap (r_breg s + o))) eqn:M; [|discriminate]. apply ok3_inv in H; destruct H as [<- [<- <-]]. cbn [is_read pc areg] in *. redop.
    unfold abs. cbn [r_pc r_areg r_breg r_oreg r_mem]. destruct R as [R _]. cbn [pc] in R.
    rewrite (addr_ok (r_breg s) o (proj1 Hb) Hopr M), (pc1_ok _ Hpc R). reflexivity.
  - (* BR *) apply ok3_inv in H; destruct H as [<- [<- <-]]. cbn [is_read pc areg] in *. redop.
    unfold abs. cbn [r_pc r_areg r_breg r_oreg r_mem]. destruct R as [R _]. rewrite (br_ok _ o Hpc Hopr R). reflexivity.
  - (* BRZ *) apply ok3_inv in H; destruct H as [<- [<- <-]]. cbn [is_read pc areg] in *. redop.
    unfold abs. cbn [r_pc r_areg r_breg r_oreg r_mem]. destruct R as [R _].
    destruct (r_areg s =? 0); [rewrite (br_ok _ o Hpc Hopr R) | rewrite (pc1_ok _ Hpc R)]; reflexivity.
  - (* BRN *) apply ok3_inv in H; destruct H as [<- [<- <-]]. cbn [is_read pc areg] in *. redop.
    unfold abs. cbn [r_pc r_areg r_breg r_oreg r_mem]. destruct R as [R _]. unfold negative in *.
    destruct (2147483648 <=? r_areg s); [rewrite (br_ok _ o Hpc Hopr R) | rewrite (pc1_ok _ Hpc R)]; reflexivity.
  - (* opcode 12 is undefined *) discriminate.
  - (* OPR *)
    assert (Hsmall : 0 <= o <= 3 -> o = n /\ r_oreg s = 0).
    { intros Hs. pose proof (opr_small s n I ltac:(lia) Hn Hs) as E. split; [exact E|].
      unfold o, r_opr in E. replace (r_oreg s) with (16 * (r_oreg s / 16)) in E by lia. rewrite lor_aligned in E by assumption. lia. }
    destruct o as [|p|p] eqn:Eo.
    + (* BRB *) destruct (Hsmall ltac:(lia)) as [En _]. rewrite <- En. apply ok3_inv in H; destruct H as [<- [<- <-]]. cbn [is_read pc areg] in *. redop.
      unfold abs. cbn [r_pc r_areg r_breg r_oreg r_mem]. destruct R as [R _]. cbn [pc] in R.
      rewrite (Z.mod_small (r_breg s) M21) by (unfold M21; lia). reflexivity.
    + destruct p as [[p|p|]|[p|p|]|]; try discriminate.
      * (* SVC *) destruct (Hsmall ltac:(lia)) as [En _]. rewrite <- En. redop.
        destruct (in_mem 1) eqn:M1; [|discriminate].
        assert (Hregs : forall m, abs {| r_pc := (r_pc s + 1) mod M21; r_areg := r_areg s; r_breg := r_breg s; r_oreg := 0; r_mem := r_mem s |}
                          = with_mem {| pc := wrap (r_pc s + 1); areg := r_areg s; breg := r_breg s; oreg := 0; mem := m |} (r_mem s) ->
                        True) by auto.
        destruct (r_areg s) as [|q|q] eqn:Ea.
        -- destruct (in_mem (wrap (rd (r_mem s) 1 + 2))); [|discriminate]. apply ok3_inv in H; destruct H as [<- [<- <-]]. cbn [is_read].
           destruct R as [R _]. cbn [pc] in R. unfold abs. cbn [r_pc r_areg r_breg r_oreg r_mem]. rewrite (pc1_ok _ Hpc R). reflexivity.
        -- destruct q as [[q|q|]|[q|q|]|]; try discriminate.
           ++ destruct (in_mem (wrap (rd (r_mem s) 1 + 2))); [|discriminate].
              destruct (simin inp (rd (r_mem s) (wrap (rd (r_mem s) 1 + 2)))) as [bb inp2].
              destruct (in_mem (wrap (rd (r_mem s) 1 + 1))); [|discriminate]. apply ok3_inv in H; destruct H as [<- [<- <-]]. cbn [is_read].
              destruct R as [R _]. cbn [pc] in R. unfold abs, with_mem. cbn [r_pc r_areg r_breg r_oreg r_mem pc areg breg oreg mem].
              rewrite (pc1_ok _ Hpc R). reflexivity.
           ++ destruct (in_mem (wrap (rd (r_mem s) 1 + 2))); [|discriminate].
              destruct (in_mem (wrap (rd (r_mem s) 1 + 3))); [|discriminate]. apply ok3_inv in H; destruct H as [<- [<- <-]]. cbn [is_read].
              destruct R as [R _]. cbn [pc] in R. unfold abs. cbn [r_pc r_areg r_breg r_oreg r_mem]. rewrite (pc1_ok _ Hpc R). reflexivity.
        -- discriminate.
      * (* SUB *) destruct (Hsmall ltac:(lia)) as [En _]. rewrite <- En. apply ok3_inv in H; destruct H as [<- [<- <-]]. cbn [is_read pc areg] in *. redop.
        unfold abs. cbn [r_pc r_areg r_breg r_oreg r_mem]. destruct R as [R _]. rewrite (pc1_ok _ Hpc R). unfold wrap, W, M32. reflexivity.
      * (* ADD *) destruct (Hsmall ltac:(lia)) as [En _]. rewrite <- En. apply ok3_inv in H; destruct H as [<- [<- <-]]. cbn [is_read pc areg] in *. redop.
        unfold abs. cbn [r_pc r_areg r_breg r_oreg r_mem]. destruct R as [R _]. rewrite (pc1_ok _ Hpc R). unfold wrap, W, M32. reflexivity.
    + discriminate.
  - (* PFIX *) apply ok3_inv in H; destruct H as [<- [<- <-]]. cbn [is_read pc areg] in *. redop.
    unfold abs. cbn [r_pc r_areg r_breg r_oreg r_mem]. destruct R as [R _]. rewrite (pc1_ok _ Hpc R). unfold wrap, W, M32. reflexivity.
  - (* NFIX *) apply ok3_inv in H; destruct H as [<- [<- <-]]. cbn [is_read pc areg] in *. redop.
    unfold abs. cbn [r_pc r_areg r_breg r_oreg r_mem]. destruct R as [R _]. rewrite (pc1_ok _ Hpc R). unfold wrap, W, M32. reflexivity.
Qed.

(* ------------------------------------------------------------------ the system-call shim of the testbench
   (hextb.cpp handleSyscall): runs when the design raises o_syscall_valid, before the clock edge that retires the SVC;
   index arithmetic is unsigned 32-bit, as in the C++ *)
Definition set_mem (s : rstate) (m : WMap.t) : rstate :=
  {| r_pc := r_pc s; r_areg := r_areg s; r_breg := r_breg s; r_oreg := r_oreg s; r_mem := m |}.
Definition shim (valid call : Z) (s : rstate) (inp : inputs) : rstate * inputs * event :=
  if valid =? 0 then (s, inp, Tau) else
  let m := r_mem s in let sp := rd m 1 in
  if call =? 0 then (s, inp, Exit (rd m (wrap (sp + 2))))
  else if call =? 1 then (s, inp, Write (rd m (wrap (sp + 2)) mod 256) (rd m (wrap (sp + 3))))
  else if call =? 2 then
    let st := rd m (wrap (sp + 2)) in
    let '(b, inp') := simin inp st in (set_mem s (wr m (wrap (sp + 1)) (b mod 256)), inp', Read st (b mod 256))
  else (s, inp, Tau).

(* the request lines of the reference datapath drive the shim to exactly the ISA's event, input consumption and
   (for READ) memory effect *)
Theorem shim_matches_isa s inp a' inp' ev :
  Inv s -> step (abs s) inp = Ok (a', inp', ev) ->
  shim (ref_syscall_valid s) (ref_syscall s) s inp = ((if is_read ev then set_mem s (mem a') else s), inp', ev).
Proof.
  intros [Wf I] H. pose proof Wf as [Hpc [Ha [Hb [Ho Hm]]]].
  unfold step in H. rewrite fetch_abs in H. cbn [pc areg breg oreg mem abs] in H.
  destruct (negb (in_mem (r_pc s / 4))) eqn:Hin; [discriminate|].
  unfold shim, ref_syscall_valid, ref_syscall.
  set (k := r_fetch s) in *.
  assert (Hk : 0 <= k < 256) by (unfold k, r_fetch; apply Z.mod_pos_bound; lia).
  set (n := k mod 16) in *. assert (Hn : 0 <= n < 16) by (unfold n; apply Z.mod_pos_bound; lia).
  assert (Hn' : n = k mod 16) by reflexivity.
  fold (r_opr s n) in H. pose proof (opr_nonneg s n Wf ltac:(lia)) as Hopr.
  set (o := r_opr s n) in *.
  remember (k / 16) as op eqn:Hop.
  assert (Hcases : op = 0 \/ op = 1 \/ op = 2 \/ op = 3 \/ op = 4 \/ op = 5 \/ op = 6 \/ op = 7 \/ op = 8 \/ op = 9 \/
                   op = 10 \/ op = 11 \/ op = 12 \/ op = 13 \/ op = 14 \/ op = 15) by lia.
  destruct (Z.eq_dec op 13) as [E13|N13].
  2:{ replace (k =? 211) with false by (symmetry; apply Z.eqb_neq; lia). cbn [Z.eqb].
      destruct Hcases as [ -> | [ -> | [ -> | [ -> | [ -> | [ -> | [ -> | [ -> | [ -> | [ -> | [ -> | [ -> | [ -> | [ -> | [ -> | -> ]]]]]]]]]]]]]]];
        try lia; try discriminate;
        repeat match type of H with (if ?c then _ else _) = _ => destruct c; [|discriminate] end;
        apply ok3_inv in H; destruct H as [<- [<- <-]]; reflexivity. }
  subst op. rewrite E13 in H.
  assert (Hsmall : 0 <= o <= 3 -> o = n) by (intros Hs; apply (opr_small s n I ltac:(lia) Hn Hs)).
  destruct o as [|p|p] eqn:Eo.
  - replace (k =? 211) with false by (symmetry; apply Z.eqb_neq; pose proof (Hsmall ltac:(lia)); lia). cbn [Z.eqb].
    apply ok3_inv in H; destruct H as [<- [<- <-]]; reflexivity.
  - destruct p as [[p|p|]|[p|p|]|]; try discriminate.
    + (* SVC *) replace (k =? 211) with true by (symmetry; apply Z.eqb_eq; pose proof (Hsmall ltac:(lia)); lia).
      change (1 =? 0) with false. cbv iota.
      destruct (in_mem 1) eqn:M1; [|discriminate].
      destruct (r_areg s) as [|q|q] eqn:Ea.
      * change (0 mod 4 =? 0) with true. cbv iota.
        destruct (in_mem (wrap (rd (r_mem s) 1 + 2))); [|discriminate]. apply ok3_inv in H; destruct H as [<- [<- <-]]. reflexivity.
      * destruct q as [[q|q|]|[q|q|]|]; try discriminate.
        -- change (2 mod 4 =? 0) with false. change (2 mod 4 =? 1) with false. change (2 mod 4 =? 2) with true. cbv iota.
           destruct (in_mem (wrap (rd (r_mem s) 1 + 2))); [|discriminate].
           destruct (simin inp (rd (r_mem s) (wrap (rd (r_mem s) 1 + 2)))) as [bb inp2].
           destruct (in_mem (wrap (rd (r_mem s) 1 + 1))); [|discriminate]. apply ok3_inv in H; destruct H as [<- [<- <-]]. reflexivity.
        -- change (1 mod 4 =? 0) with false. change (1 mod 4 =? 1) with true. cbv iota.
           destruct (in_mem (wrap (rd (r_mem s) 1 + 2))); [|discriminate].
           destruct (in_mem (wrap (rd (r_mem s) 1 + 3))); [|discriminate]. apply ok3_inv in H; destruct H as [<- [<- <-]]. reflexivity.
      * discriminate.
    + replace (k =? 211) with false by (symmetry; apply Z.eqb_neq; pose proof (Hsmall ltac:(lia)); lia). cbn [Z.eqb].
      apply ok3_inv in H; destruct H as [<- [<- <-]]; reflexivity.
    + replace (k =? 211) with false by (symmetry; apply Z.eqb_neq; pose proof (Hsmall ltac:(lia)); lia). cbn [Z.eqb].
      apply ok3_inv in H; destruct H as [<- [<- <-]]; reflexivity.
  - discriminate.
Qed.

(* ------------------------------------------------------------------ the invariant is preserved *)
Lemma lor32 a b : 0 <= a < M32 -> 0 <= b < M32 -> 0 <= Z.lor a b < M32.
Proof. intros Ha Hb. change M32 with (2 ^ Z.max 32 32). apply lor_bound; assumption. Qed.

Lemma opr_range s n : wf s -> 0 <= n < 16 -> 0 <= r_opr s n < M32.
Proof. intros [_ [_ [_ [Ho _]]]] Hn. apply lor32; [assumption | unfold M32; lia]. Qed.

Lemma wf_set_mem s m : wf s -> (forall a, 0 <= a -> 0 <= rd m a < M32) -> wf (set_mem s m).
Proof. intros [? [? [? [? _]]]] Hm. unfold wf. cbn [set_mem r_pc r_areg r_breg r_oreg r_mem]. split; [|split; [|split; [|split]]]; assumption. Qed.

Lemma rd_wr_range m a v : (forall b, 0 <= b -> 0 <= rd m b < M32) -> 0 <= a -> 0 <= v < M32 ->
  forall b, 0 <= b -> 0 <= rd (wr m a v) b < M32.
Proof.
  intros Hm Ha Hv b Hb. destruct (Z.eq_dec a b) as [->|N]; [rewrite rd_wr_same; assumption|].
  rewrite rd_wr_other by assumption. apply Hm. assumption.
Qed.

Lemma ref_cycle_wf s : wf s -> wf (ref_cycle s).
Proof.
  intros Wf. pose proof Wf as [Hpc [Ha [Hb [Ho Hm]]]]. unfold ref_cycle. cbv zeta.
  set (k := r_fetch s). assert (Hn : 0 <= k mod 16 < 16) by (apply Z.mod_pos_bound; lia).
  pose proof (opr_range s (k mod 16) Wf Hn) as Hopr.
  assert (Hdd : 0 <= rd (r_mem s) (r_daddr s (k / 16) (k mod 16)) < M32) by (apply Hm; apply r_daddr_nonneg).
  assert (H21 : forall x, 0 <= x mod M21 < M32) by (intros x; pose proof (Z.mod_pos_bound x M21 ltac:(unfold M21; lia)); unfold M21, M32 in *; lia).
  assert (H32 : forall x, 0 <= x mod M32 < M32) by (intros x; apply Z.mod_pos_bound; unfold M32; lia).
  unfold wf. cbn [r_pc r_areg r_breg r_oreg r_mem]. split; [|split; [|split; [|split]]].
  - unfold ref_pc, r_br, r_pc1; repeat match goal with |- context[if ?c then _ else _] => destruct c end;
      apply Z.mod_pos_bound; unfold M21; lia.
  - unfold ref_areg, r_br; repeat match goal with |- context[if ?c then _ else _] => destruct c end;
      try apply H21; try apply H32; lia.
  - unfold ref_breg; repeat match goal with |- context[if ?c then _ else _] => destruct c end; lia.
  - unfold ref_oreg; repeat match goal with |- context[if ?c then _ else _] => destruct c end;
      try apply H32; try (apply lor32; [unfold M32; lia | apply H32]); unfold M32; lia.
  - intros adr Hq. destruct (spec_we (k / 16) =? 0); [apply Hm; assumption|].
    apply rd_wr_range; try assumption. apply r_daddr_nonneg.
Qed.

Lemma ref_cycle_inv s : Inv s -> Inv (ref_cycle s).
Proof.
  intros [Wf I]. split; [apply ref_cycle_wf; assumption|].
  unfold ref_cycle. cbv zeta. cbn [r_oreg]. unfold ref_oreg.
  set (o := r_opr s (r_fetch s mod 16)).
  destruct (r_fetch s / 16 =? 14); [unfold M32; lia|].
  destruct (r_fetch s / 16 =? 15); [|reflexivity].
  rewrite lor_mod16; [|lia | apply Z.mod_pos_bound; unfold M32; lia].
  replace ((o * 16) mod M32 mod 16) with 0 by (unfold M32; lia). reflexivity.
Qed.

Definition reset_state (m : WMap.t) : rstate := {| r_pc := 0; r_areg := 0; r_breg := 0; r_oreg := 0; r_mem := m |}.
Lemma reset_inv m : (forall a, 0 <= a -> 0 <= rd m a < M32) -> Inv (reset_state m).
Proof.
  intros Hm. unfold Inv, wf, reset_state. cbn [r_pc r_areg r_breg r_oreg r_mem].
  split; [split; [|split; [|split; [|split]]]|]; try assumption; try reflexivity; unfold M21, M32; lia.
Qed.

(* ------------------------------------------------------------------ SVC retires as pc+1, oreg := 0 *)
Lemma ref_cycle_svc s : r_fetch s = 211 ->
  ref_cycle s = {| r_pc := (r_pc s + 1) mod M21; r_areg := r_areg s; r_breg := r_breg s; r_oreg := 0; r_mem := r_mem s |}.
Proof. intros E. unfold ref_cycle. rewrite E. reflexivity. Qed.

Lemma shim_wf v c s inp s1 inp1 ev : wf s -> shim v c s inp = (s1, inp1, ev) ->
  wf s1 /\ r_pc s1 = r_pc s /\ r_areg s1 = r_areg s /\ r_breg s1 = r_breg s /\ r_oreg s1 = r_oreg s /\
  (is_read ev = false -> s1 = s) /\ (is_read ev = true -> v <> 0).
Proof.
  intros Wf H. unfold shim in H. destruct (v =? 0) eqn:V.
  { injection H as <- <- <-. split; [assumption|]; repeat split; auto; try discriminate. }
  apply Z.eqb_neq in V. cbv zeta in H.
  destruct (c =? 0); [injection H as <- <- <-; split; [assumption|]; repeat split; auto; discriminate|].
  destruct (c =? 1); [injection H as <- <- <-; split; [assumption|]; repeat split; auto; discriminate|].
  destruct (c =? 2); [|injection H as <- <- <-; split; [assumption|]; repeat split; auto; discriminate].
  destruct (simin inp _) as [b i2]. injection H as <- <- <-. split; [|repeat split; auto; discriminate].
  apply wf_set_mem; [assumption|]. destruct Wf as [_ [_ [_ [_ Hm]]]].
  apply rd_wr_range; [assumption | unfold wrap, W; apply Z.mod_pos_bound; lia |].
  pose proof (Z.mod_pos_bound b 256 ltac:(lia)). unfold M32. lia.
Qed.
