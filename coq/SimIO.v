(* SimIO.v -- model of the I/O device of hexsim (hexsimio.hpp, class HexSimIO) as it really is: per file index ONE
   std::fstream, opened at first use in the direction of that first use (simin<k> for a read, simout<k> for a write).
   An operation in the other direction fails and leaves the stream in a failed state, after which every operation on
   that index fails: a failed get() returns EOF (the simulator stores 255), a failed put() writes nothing.

   Isa.v (the architecture) gives every index an input file and an output file that are independent.  The two agree
   exactly on runs that use every index in one direction only (io_agree below); tools/c02.py compares the real
   simulator with THIS model on programs that mix directions, and with the ISA on programs that do not.
   Model first (no proofs), proofs below the line. *)
From Coq Require Import ZArith List Bool Lia.
From HexVerif Require Import WMap Isa SimModel.
Import ListNotations.
Local Open Scope Z_scope.

Inductive binding :=
| Unbound                      (* connected[k] = false *)
| BIn (rest : list Z)          (* opened std::fstream::in on simin<k>: the bytes not yet read *)
| BOut                         (* opened std::fstream::out on simout<k> *)
| Dead.                        (* a failed operation set failbit/badbit: nothing works any more *)

Record dev := {
  d_console : list Z;                     (* std::istream &in: bytes not yet read *)
  d_files : Z -> list Z;                  (* contents of simin<k> on disk (missing file = []) *)
  d_bind : Z -> binding;
  d_cout : list Z;                        (* bytes written to std::ostream &out, newest first *)
  d_fout : Z -> list Z                    (* bytes written to simout<k>, newest first *)
}.

Definition dev0 (inp : inputs) : dev :=
  {| d_console := console inp; d_files := files inp; d_bind := fun _ => Unbound; d_cout := []; d_fout := fun _ => [] |}.

(* what the next read of each stream would see, as the ISA's `inputs` *)
Definition dev_view (d : dev) : inputs :=
  {| console := d_console d;
     files := fun k => match d_bind d k with Unbound => d_files d k | BIn r => r | BOut | Dead => [] end |}.

Definition upd {A} (f : Z -> A) (k : Z) (v : A) : Z -> A := fun j => if j =? k then v else f j.

(* HexSimIO::input(stream) has run and SimModel.step has consumed a byte from dev_view: inp' is the view afterwards *)
Definition dev_after_read (d : dev) (stream : Z) (inp' : inputs) : dev :=
  if io_is_console stream then
    {| d_console := console inp'; d_files := d_files d; d_bind := d_bind d; d_cout := d_cout d; d_fout := d_fout d |}
  else
    let k := io_index stream in
    let b := match d_bind d k with
             | Unbound | BIn _ => BIn (files inp' k)
             | BOut | Dead => Dead                         (* get() on an output stream fails *)
             end in
    {| d_console := d_console d; d_files := d_files d; d_bind := upd (d_bind d) k b; d_cout := d_cout d; d_fout := d_fout d |}.

(* HexSimIO::output(value, stream) *)
Definition dev_after_write (d : dev) (v stream : Z) : dev :=
  if io_is_console stream then
    {| d_console := d_console d; d_files := d_files d; d_bind := d_bind d; d_cout := v :: d_cout d; d_fout := d_fout d |}
  else
    let k := io_index stream in
    match d_bind d k with
    | Unbound | BOut =>
        {| d_console := d_console d; d_files := d_files d; d_bind := upd (d_bind d) k BOut; d_cout := d_cout d;
           d_fout := upd (d_fout d) k (v :: d_fout d k) |}
    | BIn _ | Dead =>                                      (* put() on an input stream fails: nothing is written *)
        {| d_console := d_console d; d_files := d_files d; d_bind := upd (d_bind d) k Dead; d_cout := d_cout d; d_fout := d_fout d |}
    end.

(* one iteration of Processor::run() against the device *)
Definition step_dev (s : sim) (d : dev) : sim_result (sim * dev * event) :=
  match SimModel.step s (dev_view d) with
  | SOk (s', inp', e) =>
      SOk (s', match e with
               | Read stream _ => dev_after_read d stream inp'
               | Write v stream => dev_after_write d v stream
               | _ => d
               end, e)
  | SThrow m => SThrow m
  | SUB w => SUB w
  end.

Fixpoint run_dev (n : nat) (max_cycles : Z) (s : sim) (d : dev) (evs : list event) : list event * dev * sim * run_end :=
  if negb (guard max_cycles s) then (rev evs, d, s, Returned (s_exit s)) else
  match n with
  | O => (rev evs, d, s, NoFuel)
  | S k => match step_dev s d with
           | SThrow m => (rev evs, d, s, Threw m)
           | SUB w => (rev evs, d, s, Ub w)
           | SOk (s', d', Tau) => run_dev k max_cycles s' d' evs
           | SOk (s', d', e) => run_dev k max_cycles s' d' (e :: evs)
           end
  end.

(* ---- the architecture's view of output: every Write event is delivered, console or file k *)
Fixpoint isa_cout (tr : list event) : list Z :=
  match tr with
  | [] => []
  | Write v stream :: r => if io_is_console stream then v :: isa_cout r else isa_cout r
  | _ :: r => isa_cout r
  end.
Fixpoint isa_fout (k : Z) (tr : list event) : list Z :=
  match tr with
  | [] => []
  | Write v stream :: r => if negb (io_is_console stream) && (io_index stream =? k) then v :: isa_fout k r else isa_fout k r
  | _ :: r => isa_fout k r
  end.

(* a trace uses file index k for reading / for writing *)
Definition reads_index (k : Z) (e : event) : bool :=
  match e with Read stream _ => negb (io_is_console stream) && (io_index stream =? k) | _ => false end.
Definition writes_index (k : Z) (e : event) : bool :=
  match e with Write _ stream => negb (io_is_console stream) && (io_index stream =? k) | _ => false end.
Definition single_direction (tr : list event) : Prop :=
  forall k, existsb (reads_index k) tr = false \/ existsb (writes_index k) tr = false.
