(* WMap.v -- word-addressed memories: a finite map of written cells over a background function.
   The same type is used by the ISA spec, the simulator model, the RTL model and the testbench model. *)
From Coq Require Import ZArith Lia FMapPositive.
Local Open Scope Z_scope.

Record t := { cells : PositiveMap.t Z; bg : Z -> Z }.

Definition key (a : Z) : positive := Z.to_pos (a + 1).
Definition rd (m : t) (a : Z) : Z :=
  match PositiveMap.find (key a) (cells m) with Some v => v | None => bg m a end.
Definition wr (m : t) (a v : Z) : t := {| cells := PositiveMap.add (key a) v (cells m); bg := bg m |}.
Definition empty (f : Z -> Z) : t := {| cells := PositiveMap.empty Z; bg := f |}.
Definition zero : t := empty (fun _ => 0).

Lemma key_inj a b : 0 <= a -> 0 <= b -> key a = key b -> a = b.
Proof. unfold key. intros Ha Hb H. apply (f_equal Z.pos) in H. rewrite !Z2Pos.id in H by lia. lia. Qed.

Lemma rd_wr_same m a v : rd (wr m a v) a = v.
Proof. unfold rd, wr. cbn [cells bg]. rewrite PositiveMap.gss. reflexivity. Qed.

Lemma rd_wr_other m a b v : 0 <= a -> 0 <= b -> a <> b -> rd (wr m a v) b = rd m b.
Proof.
  intros Ha Hb Hab. unfold rd, wr. cbn [cells bg]. rewrite PositiveMap.gso; [reflexivity|].
  intro H. apply Hab. symmetry. apply key_inj; assumption.
Qed.

Lemma rd_empty f a : rd (empty f) a = f a.
Proof. unfold rd, empty. cbn [cells bg]. rewrite PositiveMap.gempty. reflexivity. Qed.

(* load a list of words at consecutive addresses *)
Fixpoint load_words (m : t) (a : Z) (ws : list Z) : t :=
  match ws with nil => m | cons w r => load_words (wr m a w) (a + 1) r end.

Lemma rd_load_words_outside : forall ws m a b, 0 <= a -> 0 <= b -> (b < a \/ a + Z.of_nat (length ws) <= b) ->
  rd (load_words m a ws) b = rd m b.
Proof.
  induction ws as [|w r IH]; intros m a b Ha Hb H; cbn [load_words]; [reflexivity|].
  cbn [length] in H. rewrite IH by lia. apply rd_wr_other; lia.
Qed.

Lemma rd_load_words_inside : forall ws m a i, 0 <= a -> (i < length ws)%nat ->
  rd (load_words m a ws) (a + Z.of_nat i) = List.nth i ws 0.
Proof.
  induction ws as [|w r IH]; intros m a i Ha Hi; cbn [length] in Hi; [lia|].
  cbn [load_words]. destruct i as [|j].
  - rewrite Z.add_0_r. rewrite rd_load_words_outside by lia. apply rd_wr_same.
  - replace (a + Z.of_nat (S j)) with ((a + 1) + Z.of_nat j) by lia. cbn [List.nth]. apply IH; lia.
Qed.
