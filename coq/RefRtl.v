(* RefRtl.v -- hand-written reference datapath of the Hex processor + memory, in two forms:
   [spec k]    : for an instruction byte k, what every register, the data address, the write and the system-call
                 outputs should be, as vexp terms over the registers (deep; compared with the generated design by
                 reflection in RtlC03.v, on every run);
   [ref_cycle] : the same datapath as a Gallina function on states (shallow; refined to Isa.step in RtlIsa.v).
   [spec_sem] connects the two.  Nothing here looks at the Verilog or at generated terms. *)
From Coq Require Import ZArith Lia Bool List String.
From HexVerif Require Import WMap Vexp RtlSem.
Import ListNotations.
Local Open Scope Z_scope.

(* ------------------------------------------------------------------ deep form *)
Definition xPC := V n_pc 21.
Definition xA := V n_areg 32.
Definition xB := V n_breg 32.
Definition xO := V n_oreg 32.
Definition xDD := V n_ddata 32.
Definition x_opr (n : Z) := Or xO (C n).                       (* opr_d = oreg_q | operand *)
Definition x_pc1 := Add 21 (C 1) xPC.
Definition x_br (n : Z) := Add 21 x_pc1 (Sel 0 21 (x_opr n)).
Definition x_fetch := Trunc 8 (Shr 32 (ArrSel n_mem 32 (Sel 2 19 xPC)) (Shl 5 (Sel 0 2 xPC) (C 3))).

Definition spec_pc (op n : Z) : vexp :=
  if op =? 9 then x_br n
  else if op =? 10 then Cond (Eq (C 0) xA) (x_br n) x_pc1
  else if op =? 11 then Cond (Gts 32 (C 0) xA) (x_br n) x_pc1
  else if (op =? 13) && (n =? 0) then Sel 0 21 xB
  else x_pc1.
Definition spec_oreg (op n : Z) : vexp :=
  if op =? 14 then Shl 32 (x_opr n) (C 4)
  else if op =? 15 then Or (C 4294967040) (Shl 32 (x_opr n) (C 4))
  else C 0.
Definition spec_areg (op n : Z) : vexp :=
  if (op =? 0) || (op =? 6) then xDD
  else if op =? 3 then x_opr n
  else if op =? 5 then x_br n
  else if (op =? 13) && (n =? 1) then Add 32 xA xB
  else if (op =? 13) && (n =? 2) then Sub 32 xA xB
  else xA.
Definition spec_breg (op n : Z) : vexp :=
  if (op =? 1) || (op =? 7) then xDD else if op =? 4 then x_opr n else xB.
Definition spec_daddr (op n : Z) : vexp :=
  if op <=? 2 then Sel 0 19 (x_opr n)
  else if op =? 6 then Add 19 (Sel 0 19 xA) (Sel 0 19 (x_opr n))
  else if (op =? 7) || (op =? 8) then Add 19 (Sel 0 19 xB) (Sel 0 19 (x_opr n))
  else C 0.
Definition spec_we (op : Z) : Z := if (op =? 2) || (op =? 8) then 1 else 0.

Definition spec (k : Z) : design :=
  let op := k / 16 in let n := k mod 16 in
  {| outputs := [("o_syscall"%string, Sel 0 2 xA); ("o_syscall_valid"%string, C (if k =? 211 then 1 else 0))];
     next := [(n_areg, spec_areg op n); (n_breg, spec_breg op n); (n_oreg, spec_oreg op n); (n_pc, spec_pc op n)];
     wires := [(n_fdata, x_fetch); (n_ddata, ArrSel n_mem 32 (spec_daddr op n))];
     mem_writes := [(n_mem, (C (spec_we op), (spec_daddr op n, xA)))];
     clocking := [(n_mem, ["posedge i_clk"; "posedge i_rst"]%string); (n_areg, ["posedge i_clk"; "posedge i_rst"]%string);
                  (n_breg, ["posedge i_clk"; "posedge i_rst"]%string); (n_oreg, ["posedge i_clk"; "posedge i_rst"]%string);
                  (n_pc, ["posedge i_clk"; "posedge i_rst"]%string)];
     nx := 0 |}.

(* ------------------------------------------------------------------ shallow form *)
Definition M19 : Z := 524288.
Definition M21 : Z := 2097152.
Definition M32 : Z := 4294967296.

Definition r_fetch (s : rstate) : Z := (rd (r_mem s) (r_pc s / 4) / 2 ^ (8 * (r_pc s mod 4))) mod 256.
Definition r_opr (s : rstate) (n : Z) : Z := Z.lor (r_oreg s) n.
Definition r_pc1 (s : rstate) : Z := (r_pc s + 1) mod M21.
Definition r_br (s : rstate) (n : Z) : Z := (r_pc1 s + r_opr s n mod M21) mod M21.
Definition r_daddr (s : rstate) (op n : Z) : Z :=
  if op <=? 2 then r_opr s n mod M19
  else if op =? 6 then (r_areg s mod M19 + r_opr s n mod M19) mod M19
  else if (op =? 7) || (op =? 8) then (r_breg s mod M19 + r_opr s n mod M19) mod M19
  else 0.
Definition ref_pc (s : rstate) (op n : Z) : Z :=
  if op =? 9 then r_br s n
  else if op =? 10 then (if r_areg s =? 0 then r_br s n else r_pc1 s)
  else if op =? 11 then (if 2147483648 <=? r_areg s then r_br s n else r_pc1 s)
  else if (op =? 13) && (n =? 0) then r_breg s mod M21
  else r_pc1 s.
Definition ref_oreg (s : rstate) (op n : Z) : Z :=
  if op =? 14 then (r_opr s n * 16) mod M32
  else if op =? 15 then Z.lor 4294967040 ((r_opr s n * 16) mod M32)
  else 0.
Definition ref_areg (s : rstate) (op n dd : Z) : Z :=
  if (op =? 0) || (op =? 6) then dd
  else if op =? 3 then r_opr s n
  else if op =? 5 then r_br s n
  else if (op =? 13) && (n =? 1) then (r_areg s + r_breg s) mod M32
  else if (op =? 13) && (n =? 2) then (r_areg s - r_breg s) mod M32
  else r_areg s.
Definition ref_breg (s : rstate) (op n dd : Z) : Z :=
  if (op =? 1) || (op =? 7) then dd else if op =? 4 then r_opr s n else r_breg s.

Definition ref_cycle (s : rstate) : rstate :=
  let k := r_fetch s in let op := k / 16 in let n := k mod 16 in
  let dd := rd (r_mem s) (r_daddr s op n) in
  {| r_pc := ref_pc s op n; r_areg := ref_areg s op n dd; r_breg := ref_breg s op n dd; r_oreg := ref_oreg s op n;
     r_mem := if spec_we op =? 0 then r_mem s else wr (r_mem s) (r_daddr s op n) (r_areg s) |}.
Definition ref_syscall_valid (s : rstate) : Z := if r_fetch s =? 211 then 1 else 0.
Definition ref_syscall (s : rstate) : Z := r_areg s mod 4.

(* ------------------------------------------------------------------ deep = shallow, in any environment that
   presents state s, fetched byte k and read data dd *)
Definition wf (s : rstate) : Prop :=
  0 <= r_pc s < M21 /\ 0 <= r_areg s < M32 /\ 0 <= r_breg s < M32 /\ 0 <= r_oreg s < M32 /\
  (forall a, 0 <= a -> 0 <= rd (r_mem s) a < M32).

Record env_ok (e : env) (s : rstate) (dd : Z) : Prop := {
  ok_pc : var e n_pc = r_pc s; ok_a : var e n_areg = r_areg s; ok_b : var e n_breg = r_breg s;
  ok_o : var e n_oreg = r_oreg s; ok_dd : var e n_ddata = dd;
  ok_mem : forall a, arr e n_mem a = rd (r_mem s) a }.

Ltac pows := change (2 ^ 0) with 1 in *; change (2 ^ 2) with 4 in *; change (2 ^ 3) with 8 in *; change (2 ^ 4) with 16 in *;
             change (2 ^ 5) with 32 in *; change (2 ^ 8) with 256 in *;
             change (2 ^ 19) with M19 in *; change (2 ^ 21) with M21 in *; change (2 ^ 32) with M32 in *.

Section Sem.
  Variables (e : env) (s : rstate) (dd : Z).
  Hypothesis (W : wf s) (E : env_ok e s dd).

  Lemma ev_PC : eval e xPC = r_pc s.
  Proof. destruct W as [? _]. cbn [eval xPC]. rewrite (ok_pc _ _ _ E). pows. apply Z.mod_small. assumption. Qed.
  Lemma ev_A : eval e xA = r_areg s.
  Proof. destruct W as [_ [? _]]. cbn [eval xA]. rewrite (ok_a _ _ _ E). pows. apply Z.mod_small. assumption. Qed.
  Lemma ev_B : eval e xB = r_breg s.
  Proof. destruct W as [_ [_ [? _]]]. cbn [eval xB]. rewrite (ok_b _ _ _ E). pows. apply Z.mod_small. assumption. Qed.
  Lemma ev_O : eval e xO = r_oreg s.
  Proof. destruct W as [_ [_ [_ [? _]]]]. cbn [eval xO]. rewrite (ok_o _ _ _ E). pows. apply Z.mod_small. assumption. Qed.
  Lemma ev_DD : 0 <= dd < M32 -> eval e xDD = dd.
  Proof. intros H. cbn [eval xDD]. rewrite (ok_dd _ _ _ E). pows. apply Z.mod_small. assumption. Qed.
  Lemma ev_opr n : eval e (x_opr n) = r_opr s n.
  Proof. unfold x_opr, r_opr. cbn [eval]. fold xO. rewrite ev_O. reflexivity. Qed.
  Lemma ev_pc1 : eval e x_pc1 = r_pc1 s.
  Proof. unfold x_pc1, r_pc1. cbn [eval]. fold xPC. rewrite ev_PC. pows. f_equal. lia. Qed.
  Lemma ev_br n : eval e (x_br n) = r_br s n.
  Proof. unfold x_br, r_br. cbn [eval]. fold x_pc1. fold (x_opr n). rewrite ev_pc1, ev_opr. pows. rewrite Z.div_1_r. reflexivity. Qed.

  Lemma ev_fetch : eval e x_fetch = r_fetch s.
  Proof.
    destruct W as [Hpc [_ [_ [_ Hm]]]]. unfold x_fetch, r_fetch. cbn [eval]. fold xPC. rewrite ev_PC. pows.
    rewrite (ok_mem _ _ _ E). rewrite Z.div_1_r.
    assert (Hq : 0 <= r_pc s / 4 < M19) by (unfold M19, M21 in *; split; [apply Z.div_pos; lia | apply Z.div_lt_upper_bound; lia]).
    rewrite (Z.mod_small (r_pc s / 4) M19) by exact Hq.
    set (w := rd (r_mem s) (r_pc s / 4)). assert (Hw : 0 <= w < M32) by (apply Hm; lia).
    rewrite (Z.mod_small w M32) by exact Hw.
    assert (Hr : 0 <= r_pc s mod 4 < 4) by (apply Z.mod_pos_bound; lia).
    rewrite (Z.mod_small (r_pc s mod 4 * 8) 32) by lia.
    replace (r_pc s mod 4 * 8) with (8 * (r_pc s mod 4)) by lia.
    set (sh := 8 * (r_pc s mod 4)). assert (0 <= sh) by (unfold sh; lia).
    assert (Hd : 0 <= w / 2 ^ sh < M32).
    { split; [apply Z.div_pos; [lia | apply Z.pow_pos_nonneg; lia]|].
      apply Z.div_lt_upper_bound; [apply Z.pow_pos_nonneg; lia|].
      assert (0 < 2 ^ sh) by (apply Z.pow_pos_nonneg; lia). nia. }
    rewrite (Z.mod_small (w / 2 ^ sh) M32) by exact Hd. reflexivity.
  Qed.

  Lemma ev_spec_pc op n : eval e (spec_pc op n) = ref_pc s op n.
  Proof.
    destruct W as [_ [Ha [Hb _]]]. unfold spec_pc, ref_pc.
    destruct (op =? 9); [apply ev_br|].
    destruct (op =? 10).
    { cbn [eval]. fold xA. rewrite ev_A, ev_br, ev_pc1. rewrite (Z.eqb_sym 0).
      destruct (r_areg s =? 0); reflexivity. }
    destruct (op =? 11).
    { cbn [eval]. fold xA. rewrite ev_A, ev_br, ev_pc1. unfold signed. change (2 ^ (32 - 1)) with 2147483648. pows.
      change (0 <? 2147483648) with true. cbv iota.
      destruct (r_areg s <? 2147483648) eqn:L; destruct (2147483648 <=? r_areg s) eqn:G;
        try (apply Z.ltb_lt in L); try (apply Z.ltb_ge in L); try (apply Z.leb_le in G); try (apply Z.leb_gt in G); try lia.
      - replace (r_areg s <? 0) with false by (symmetry; apply Z.ltb_ge; lia). reflexivity.
      - replace (r_areg s - M32 <? 0) with true by (symmetry; apply Z.ltb_lt; unfold M32 in *; lia). reflexivity. }
    destruct ((op =? 13) && (n =? 0)).
    { cbn [eval]. fold xB. rewrite ev_B. pows. rewrite Z.div_1_r. reflexivity. }
    apply ev_pc1.
  Qed.

  Lemma ev_spec_oreg op n : eval e (spec_oreg op n) = ref_oreg s op n.
  Proof.
    unfold spec_oreg, ref_oreg. destruct (op =? 14); [|destruct (op =? 15)]; cbn [eval]; try reflexivity;
      fold (x_opr n); rewrite ev_opr; pows; reflexivity.
  Qed.

  Lemma ev_spec_areg op n : 0 <= dd < M32 -> eval e (spec_areg op n) = ref_areg s op n dd.
  Proof.
    intros Hdd. unfold spec_areg, ref_areg.
    destruct ((op =? 0) || (op =? 6)); [apply ev_DD; assumption|].
    destruct (op =? 3); [apply ev_opr|].
    destruct (op =? 5); [apply ev_br|].
    destruct ((op =? 13) && (n =? 1)); [cbn [eval]; fold xA; fold xB; rewrite ev_A, ev_B; pows; reflexivity|].
    destruct ((op =? 13) && (n =? 2)); [cbn [eval]; fold xA; fold xB; rewrite ev_A, ev_B; pows; reflexivity|].
    apply ev_A.
  Qed.

  Lemma ev_spec_breg op n : 0 <= dd < M32 -> eval e (spec_breg op n) = ref_breg s op n dd.
  Proof.
    intros Hdd. unfold spec_breg, ref_breg.
    destruct ((op =? 1) || (op =? 7)); [apply ev_DD; assumption|].
    destruct (op =? 4); [apply ev_opr|]. apply ev_B.
  Qed.

  Lemma ev_spec_daddr op n : eval e (spec_daddr op n) = r_daddr s op n.
  Proof.
    unfold spec_daddr, r_daddr.
    destruct (op <=? 2); [cbn [eval]; fold (x_opr n); rewrite ev_opr; pows; rewrite Z.div_1_r; reflexivity|].
    destruct (op =? 6); [cbn [eval]; fold (x_opr n); fold xA; rewrite ev_opr, ev_A; pows; rewrite !Z.div_1_r; reflexivity|].
    destruct ((op =? 7) || (op =? 8)); [cbn [eval]; fold (x_opr n); fold xB; rewrite ev_opr, ev_B; pows; rewrite !Z.div_1_r; reflexivity|].
    reflexivity.
  Qed.
End Sem.

Lemma r_daddr_nonneg s op n : 0 <= r_daddr s op n.
Proof.
  unfold r_daddr, M19. destruct (op <=? 2); [apply Z.mod_pos_bound; lia|]. destruct (op =? 6); [apply Z.mod_pos_bound; lia|].
  destruct ((op =? 7) || (op =? 8)); [apply Z.mod_pos_bound; lia | lia].
Qed.

