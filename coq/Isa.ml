open BinInt
open BinNums
open Datatypes
open List
open WMap

(** val coq_W : coq_Z **)

let coq_W =
  Zpos (Coq_xO (Coq_xO (Coq_xO (Coq_xO (Coq_xO (Coq_xO (Coq_xO (Coq_xO
    (Coq_xO (Coq_xO (Coq_xO (Coq_xO (Coq_xO (Coq_xO (Coq_xO (Coq_xO (Coq_xO
    (Coq_xO (Coq_xO (Coq_xO (Coq_xO (Coq_xO (Coq_xO (Coq_xO (Coq_xO (Coq_xO
    (Coq_xO (Coq_xO (Coq_xO (Coq_xO (Coq_xO (Coq_xO
    Coq_xH))))))))))))))))))))))))))))))))

(** val coq_MEMW : coq_Z **)

let coq_MEMW =
  Zpos (Coq_xO (Coq_xO (Coq_xO (Coq_xO (Coq_xO (Coq_xO (Coq_xI (Coq_xO
    (Coq_xI (Coq_xO (Coq_xI (Coq_xI (Coq_xO (Coq_xO (Coq_xO (Coq_xO (Coq_xI
    Coq_xH)))))))))))))))))

(** val wrap : coq_Z -> coq_Z **)

let wrap x =
  Z.modulo x coq_W

(** val negative : coq_Z -> bool **)

let negative x =
  Z.leb (Zpos (Coq_xO (Coq_xO (Coq_xO (Coq_xO (Coq_xO (Coq_xO (Coq_xO (Coq_xO
    (Coq_xO (Coq_xO (Coq_xO (Coq_xO (Coq_xO (Coq_xO (Coq_xO (Coq_xO (Coq_xO
    (Coq_xO (Coq_xO (Coq_xO (Coq_xO (Coq_xO (Coq_xO (Coq_xO (Coq_xO (Coq_xO
    (Coq_xO (Coq_xO (Coq_xO (Coq_xO (Coq_xO
    Coq_xH)))))))))))))))))))))))))))))))) x

(** val signed : coq_Z -> coq_Z **)

let signed x =
  if negative x then Z.sub x coq_W else x

type arch = { pc : coq_Z; areg : coq_Z; breg : coq_Z; oreg : coq_Z; mem : t }

type inputs = { console : coq_Z list; files : (coq_Z -> coq_Z list) }

type event =
| Tau
| Exit of coq_Z
| Write of coq_Z * coq_Z
| Read of coq_Z * coq_Z

type undefined =
| BadOpcode of coq_Z
| BadOpr of coq_Z
| BadSvc of coq_Z
| BadAddress of coq_Z

type 'a result =
| Ok of 'a
| Undefined of undefined

(** val fetch : arch -> coq_Z **)

let fetch s =
  Z.modulo
    (Z.div (rd s.mem (Z.div s.pc (Zpos (Coq_xO (Coq_xO Coq_xH)))))
      (Z.pow (Zpos (Coq_xO Coq_xH))
        (Z.mul (Zpos (Coq_xO (Coq_xO (Coq_xO Coq_xH))))
          (Z.modulo s.pc (Zpos (Coq_xO (Coq_xO Coq_xH))))))) (Zpos (Coq_xO
    (Coq_xO (Coq_xO (Coq_xO (Coq_xO (Coq_xO (Coq_xO (Coq_xO Coq_xH)))))))))

(** val next_byte : coq_Z list -> coq_Z * coq_Z list **)

let next_byte = function
| [] -> ((Zneg Coq_xH), [])
| b :: r -> (b, r)

(** val is_console : coq_Z -> bool **)

let is_console stream =
  Z.ltb (signed stream) (Zpos (Coq_xO (Coq_xO (Coq_xO (Coq_xO (Coq_xO (Coq_xO
    (Coq_xO (Coq_xO Coq_xH)))))))))

(** val file_index : coq_Z -> coq_Z **)

let file_index stream =
  Z.modulo
    (Z.div stream (Zpos (Coq_xO (Coq_xO (Coq_xO (Coq_xO (Coq_xO (Coq_xO
      (Coq_xO (Coq_xO Coq_xH)))))))))) (Zpos (Coq_xO (Coq_xO (Coq_xO
    Coq_xH))))

(** val simin : inputs -> coq_Z -> coq_Z * inputs **)

let simin inp stream =
  if is_console stream
  then let (b, r) = next_byte inp.console in
       (b, { console = r; files = inp.files })
  else let f = file_index stream in
       let (b, r) = next_byte (inp.files f) in
       (b, { console = inp.console; files = (fun g ->
       if Z.eqb g f then r else inp.files g) })

(** val in_mem : coq_Z -> bool **)

let in_mem a =
  (&&) (Z.leb Z0 a) (Z.ltb a coq_MEMW)

(** val step : arch -> inputs -> ((arch * inputs) * event) result **)

let step s inp =
  if negb (in_mem (Z.div s.pc (Zpos (Coq_xO (Coq_xO Coq_xH)))))
  then Undefined (BadAddress (Z.div s.pc (Zpos (Coq_xO (Coq_xO Coq_xH)))))
  else let inst = fetch s in
       let pc1 = wrap (Z.add s.pc (Zpos Coq_xH)) in
       let o =
         Z.coq_lor s.oreg
           (Z.modulo inst (Zpos (Coq_xO (Coq_xO (Coq_xO (Coq_xO Coq_xH))))))
       in
       let upd = fun f -> Ok ((f, inp), Tau) in
       let rdm = fun a k ->
         if in_mem a then k (rd s.mem a) else Undefined (BadAddress a)
       in
       let wrm = fun a v k ->
         if in_mem a then k (wr s.mem a v) else Undefined (BadAddress a)
       in
       (match Z.div inst (Zpos (Coq_xO (Coq_xO (Coq_xO (Coq_xO Coq_xH))))) with
        | Z0 ->
          rdm o (fun v ->
            upd { pc = pc1; areg = v; breg = s.breg; oreg = Z0; mem = s.mem })
        | Zpos p ->
          (match p with
           | Coq_xI p0 ->
             (match p0 with
              | Coq_xI p1 ->
                (match p1 with
                 | Coq_xI p2 ->
                   (match p2 with
                    | Coq_xH ->
                      upd { pc = pc1; areg = s.areg; breg = s.breg; oreg =
                        (Z.coq_lor (Zpos (Coq_xO (Coq_xO (Coq_xO (Coq_xO
                          (Coq_xO (Coq_xO (Coq_xO (Coq_xO (Coq_xI (Coq_xI
                          (Coq_xI (Coq_xI (Coq_xI (Coq_xI (Coq_xI (Coq_xI
                          (Coq_xI (Coq_xI (Coq_xI (Coq_xI (Coq_xI (Coq_xI
                          (Coq_xI (Coq_xI (Coq_xI (Coq_xI (Coq_xI (Coq_xI
                          (Coq_xI (Coq_xI (Coq_xI
                          Coq_xH))))))))))))))))))))))))))))))))
                          (wrap
                            (Z.mul o (Zpos (Coq_xO (Coq_xO (Coq_xO (Coq_xO
                              Coq_xH)))))))); mem = s.mem }
                    | _ -> Undefined (BadOpcode inst))
                 | Coq_xO p2 ->
                   (match p2 with
                    | Coq_xH ->
                      upd { pc =
                        (if negative s.areg then wrap (Z.add pc1 o) else pc1);
                        areg = s.areg; breg = s.breg; oreg = Z0; mem = s.mem }
                    | _ -> Undefined (BadOpcode inst))
                 | Coq_xH ->
                   rdm (wrap (Z.add s.breg o)) (fun v ->
                     upd { pc = pc1; areg = s.areg; breg = v; oreg = Z0;
                       mem = s.mem }))
              | Coq_xO p1 ->
                (match p1 with
                 | Coq_xI p2 ->
                   (match p2 with
                    | Coq_xH ->
                      (match o with
                       | Z0 ->
                         upd { pc = s.breg; areg = s.areg; breg = s.breg;
                           oreg = Z0; mem = s.mem }
                       | Zpos p3 ->
                         (match p3 with
                          | Coq_xI p4 ->
                            (match p4 with
                             | Coq_xH ->
                               let s' = fun m -> { pc = pc1; areg = s.areg;
                                 breg = s.breg; oreg = Z0; mem = m }
                               in
                               rdm (Zpos Coq_xH) (fun sp ->
                                 match s.areg with
                                 | Z0 ->
                                   rdm
                                     (wrap (Z.add sp (Zpos (Coq_xO Coq_xH))))
                                     (fun c -> Ok (((s' s.mem), inp), (Exit
                                     c)))
                                 | Zpos p5 ->
                                   (match p5 with
                                    | Coq_xI p6 ->
                                      Undefined (BadSvc (Zpos (Coq_xI p6)))
                                    | Coq_xO p6 ->
                                      (match p6 with
                                       | Coq_xH ->
                                         rdm
                                           (wrap
                                             (Z.add sp (Zpos (Coq_xO Coq_xH))))
                                           (fun st ->
                                           let (b, inp') = simin inp st in
                                           wrm
                                             (wrap (Z.add sp (Zpos Coq_xH)))
                                             (Z.modulo b (Zpos (Coq_xO
                                               (Coq_xO (Coq_xO (Coq_xO
                                               (Coq_xO (Coq_xO (Coq_xO
                                               (Coq_xO Coq_xH))))))))))
                                             (fun m -> Ok (((s' m), inp'),
                                             (Read (st,
                                             (Z.modulo b (Zpos (Coq_xO
                                               (Coq_xO (Coq_xO (Coq_xO
                                               (Coq_xO (Coq_xO (Coq_xO
                                               (Coq_xO Coq_xH)))))))))))))))
                                       | x ->
                                         Undefined (BadSvc (Zpos (Coq_xO x))))
                                    | Coq_xH ->
                                      rdm
                                        (wrap
                                          (Z.add sp (Zpos (Coq_xO Coq_xH))))
                                        (fun b ->
                                        rdm
                                          (wrap
                                            (Z.add sp (Zpos (Coq_xI Coq_xH))))
                                          (fun st -> Ok (((s' s.mem), inp),
                                          (Write
                                          ((Z.modulo b (Zpos (Coq_xO (Coq_xO
                                             (Coq_xO (Coq_xO (Coq_xO (Coq_xO
                                             (Coq_xO (Coq_xO Coq_xH)))))))))),
                                          st))))))
                                 | Zneg p5 -> Undefined (BadSvc (Zneg p5)))
                             | _ -> Undefined (BadOpr o))
                          | Coq_xO p4 ->
                            (match p4 with
                             | Coq_xH ->
                               upd { pc = pc1; areg =
                                 (wrap (Z.sub s.areg s.breg)); breg = s.breg;
                                 oreg = Z0; mem = s.mem }
                             | _ -> Undefined (BadOpr o))
                          | Coq_xH ->
                            upd { pc = pc1; areg =
                              (wrap (Z.add s.areg s.breg)); breg = s.breg;
                              oreg = Z0; mem = s.mem })
                       | Zneg _ -> Undefined (BadOpr o))
                    | _ -> Undefined (BadOpcode inst))
                 | Coq_xO p2 ->
                   (match p2 with
                    | Coq_xH ->
                      upd { pc = (wrap (Z.add pc1 o)); areg = s.areg; breg =
                        s.breg; oreg = Z0; mem = s.mem }
                    | _ -> Undefined (BadOpcode inst))
                 | Coq_xH ->
                   upd { pc = pc1; areg = (wrap (Z.add pc1 o)); breg =
                     s.breg; oreg = Z0; mem = s.mem })
              | Coq_xH ->
                upd { pc = pc1; areg = o; breg = s.breg; oreg = Z0; mem =
                  s.mem })
           | Coq_xO p0 ->
             (match p0 with
              | Coq_xI p1 ->
                (match p1 with
                 | Coq_xI p2 ->
                   (match p2 with
                    | Coq_xH ->
                      upd { pc = pc1; areg = s.areg; breg = s.breg; oreg =
                        (wrap
                          (Z.mul o (Zpos (Coq_xO (Coq_xO (Coq_xO (Coq_xO
                            Coq_xH))))))); mem = s.mem }
                    | _ -> Undefined (BadOpcode inst))
                 | Coq_xO p2 ->
                   (match p2 with
                    | Coq_xH ->
                      upd { pc =
                        (if Z.eqb s.areg Z0 then wrap (Z.add pc1 o) else pc1);
                        areg = s.areg; breg = s.breg; oreg = Z0; mem = s.mem }
                    | _ -> Undefined (BadOpcode inst))
                 | Coq_xH ->
                   rdm (wrap (Z.add s.areg o)) (fun v ->
                     upd { pc = pc1; areg = v; breg = s.breg; oreg = Z0;
                       mem = s.mem }))
              | Coq_xO p1 ->
                (match p1 with
                 | Coq_xI _ -> Undefined (BadOpcode inst)
                 | Coq_xO p2 ->
                   (match p2 with
                    | Coq_xH ->
                      wrm (wrap (Z.add s.breg o)) s.areg (fun m ->
                        upd { pc = pc1; areg = s.areg; breg = s.breg; oreg =
                          Z0; mem = m })
                    | _ -> Undefined (BadOpcode inst))
                 | Coq_xH ->
                   upd { pc = pc1; areg = s.areg; breg = o; oreg = Z0; mem =
                     s.mem })
              | Coq_xH ->
                wrm o s.areg (fun m ->
                  upd { pc = pc1; areg = s.areg; breg = s.breg; oreg = Z0;
                    mem = m }))
           | Coq_xH ->
             rdm o (fun v ->
               upd { pc = pc1; areg = s.areg; breg = v; oreg = Z0; mem =
                 s.mem }))
        | Zneg _ -> Undefined (BadOpcode inst))

type stop =
| Exited of coq_Z
| Stuck of undefined
| Cut

(** val run :
    nat -> arch -> inputs -> event list -> ((event
    list * inputs) * arch) * stop **)

let rec run n s inp evs =
  match n with
  | O -> ((((rev evs), inp), s), Cut)
  | S k ->
    (match step s inp with
     | Ok a ->
       let (p, e) = a in
       let (s', inp') = p in
       (match e with
        | Tau -> run k s' inp' evs
        | Exit c -> ((((rev ((Exit c) :: evs)), inp'), s'), (Exited c))
        | _ -> run k s' inp' (e :: evs))
     | Undefined u -> ((((rev evs), inp), s), (Stuck u)))

(** val boot : coq_Z list -> arch **)

let boot ws =
  { pc = Z0; areg = Z0; breg = Z0; oreg = Z0; mem = (load_words zero Z0 ws) }

(** val words_of_bytes : coq_Z list -> coq_Z list **)

let rec words_of_bytes = function
| [] -> []
| b0 :: l ->
  (match l with
   | [] -> b0 :: []
   | b1 :: l0 ->
     (match l0 with
      | [] ->
        (Z.add b0
          (Z.mul (Zpos (Coq_xO (Coq_xO (Coq_xO (Coq_xO (Coq_xO (Coq_xO
            (Coq_xO (Coq_xO Coq_xH))))))))) b1)) :: []
      | b2 :: l1 ->
        (match l1 with
         | [] ->
           (Z.add
             (Z.add b0
               (Z.mul (Zpos (Coq_xO (Coq_xO (Coq_xO (Coq_xO (Coq_xO (Coq_xO
                 (Coq_xO (Coq_xO Coq_xH))))))))) b1))
             (Z.mul (Zpos (Coq_xO (Coq_xO (Coq_xO (Coq_xO (Coq_xO (Coq_xO
               (Coq_xO (Coq_xO (Coq_xO (Coq_xO (Coq_xO (Coq_xO (Coq_xO
               (Coq_xO (Coq_xO (Coq_xO Coq_xH))))))))))))))))) b2)) :: []
         | b3 :: r ->
           (Z.add
             (Z.add
               (Z.add b0
                 (Z.mul (Zpos (Coq_xO (Coq_xO (Coq_xO (Coq_xO (Coq_xO (Coq_xO
                   (Coq_xO (Coq_xO Coq_xH))))))))) b1))
               (Z.mul (Zpos (Coq_xO (Coq_xO (Coq_xO (Coq_xO (Coq_xO (Coq_xO
                 (Coq_xO (Coq_xO (Coq_xO (Coq_xO (Coq_xO (Coq_xO (Coq_xO
                 (Coq_xO (Coq_xO (Coq_xO Coq_xH))))))))))))))))) b2))
             (Z.mul (Zpos (Coq_xO (Coq_xO (Coq_xO (Coq_xO (Coq_xO (Coq_xO
               (Coq_xO (Coq_xO (Coq_xO (Coq_xO (Coq_xO (Coq_xO (Coq_xO
               (Coq_xO (Coq_xO (Coq_xO (Coq_xO (Coq_xO (Coq_xO (Coq_xO
               (Coq_xO (Coq_xO (Coq_xO (Coq_xO
               Coq_xH))))))))))))))))))))))))) b3)) :: (words_of_bytes r))))
