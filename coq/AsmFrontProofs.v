(* AsmFrontProofs.v -- front end of the assembler model: the parser only produces well-formed directives
   (parse_wf), and the whole model is total: on every byte string it either accepts or rejects with a diagnostic;
   no branch of the model is undefined behaviour and no loop runs out of the fuel the model gives it (C10). *)
From Coq Require Import ZArith Lia Bool List String.
From HexVerif Require Import WMap AsmModel AsmLayout AsmSpec AsmStatements.
Import ListNotations.
Local Open Scope Z_scope.

Ltac Zify.zify_post_hook ::= Z.div_mod_to_equations.

(* an outcome that is an answer: accepted or rejected with a diagnostic *)
Definition answer {A} (o : outcome A) : Prop :=
  match o with Ok _ | Reject _ => True | UB _ | OutOfFuel => False end.

Lemma answer_cases {A} (o : outcome A) : answer o -> (exists a, o = Ok a) \/ (exists d, o = Reject d).
Proof. destruct o; cbn; intros H; try contradiction; [left | right]; eexists; reflexivity. Qed.

(* ------------------------------------------------------------------ parse_integer, parse_directive *)
Lemma to_int_range u : int_range (to_int u).
Proof.
  unfold to_int, int_range, W32. pose proof (Z.mod_pos_bound u 4294967296 ltac:(lia)).
  destruct (2147483648 <=? u mod 4294967296) eqn:E; [apply Z.leb_le in E | apply Z.leb_gt in E]; lia.
Qed.

Lemma parse_integer_spec cur rest :
  match parse_integer cur rest with
  | Ok (v, rest') => int_range v /\ (List.length rest' <= List.length rest)%nat
  | Reject _ => True
  | _ => False
  end.
Proof.
  unfold parse_integer. destruct (lx_tok cur); try exact I.
  - split; [apply to_int_range | lia].
  - destruct rest as [|n r]; [exact I|]. destruct (token_eqb (lx_tok n) TNUMBER); [|exact I].
    split; [apply to_int_range | cbn [List.length]; lia].
Qed.

Lemma next_tok_length rest : (List.length (snd (next_tok rest)) <= List.length rest)%nat.
Proof. destruct rest; cbn; lia. Qed.

Lemma parse_directive_spec cur rest :
  match parse_directive cur rest with
  | Ok (_, _, d, rest') => wf_directive d /\ (List.length rest' <= List.length rest)%nat
  | Reject _ => True
  | _ => False
  end.
Proof.
  unfold parse_directive.
  pose proof (next_tok_length rest) as Hn.
  destruct (next_tok rest) as [n rest1] eqn:En. cbn [snd] in Hn.
  pose proof (parse_integer_spec n rest1) as Hi.
  destruct (lx_tok cur) eqn:Et; cbn [is_abs_opc is_rel_opc orb]; try exact I;
    try (destruct (token_eqb (lx_tok n) TIDENTIFIER);
         [ split; [split; reflexivity | exact Hn]
         | destruct (parse_integer n rest1) as [[v r2]| | |]; try exact I; try contradiction;
           destruct Hi as [Hv Hl]; split; [split; [reflexivity | exact Hv] | lia] ]).
  - (* DATA *)
    destruct (parse_integer n rest1) as [[v r2]| | |]; try exact I; try contradiction.
    destruct Hi as [Hv Hl]. split; [exact Hv | lia].
  - split; [exact I | exact Hn].
  - split; [exact I | exact Hn].
  - (* OPR *)
    destruct (opr_opc (lx_tok n)) eqn:Eo; [|exact I]. split; [|exact Hn].
    cbn. rewrite Eo. discriminate.
  - split; [exact I | lia].
Qed.

(* ------------------------------------------------------------------ parse_go *)
Lemma parse_go_spec : forall fuel rest acc, (List.length rest < fuel)%nat ->
  Forall wf_directive (map (fun x => snd x) acc) ->
  match parse_go fuel rest acc with
  | Ok l => Forall wf_directive (map (fun x => snd x) l)
  | Reject _ => True
  | _ => False
  end.
Proof.
  induction fuel as [|f IH]; intros rest acc Hf Hacc; [lia|].
  cbn [parse_go].
  destruct rest as [|t r]; cbn [next_tok].
  - cbn. rewrite <- rev_alt, map_rev. apply Forall_rev. exact Hacc.
  - destruct (token_eqb (lx_tok t) TEOF).
    + rewrite <- rev_alt, map_rev. apply Forall_rev. exact Hacc.
    + pose proof (parse_directive_spec t r) as Hd.
      destruct (parse_directive t r) as [[[[line col] d] rest2]| | |]; try exact I; try contradiction.
      destruct Hd as [Hw Hl]. apply IH.
      * cbn [List.length] in Hf. lia.
      * cbn [map snd]. constructor; assumption.
Qed.

Lemma parse_spec toks :
  match parse toks with
  | Ok l => Forall wf_directive (map (fun x => snd x) l)
  | Reject _ => True
  | _ => False
  end.
Proof. unfold parse. apply parse_go_spec; [lia | constructor]. Qed.

Theorem parse_wf : parse_wf_stmt.
Proof. intros toks l H. pose proof (parse_spec toks) as S. rewrite H in S. exact S. Qed.

Lemma parse_answer toks : answer (parse toks).
Proof. pose proof (parse_spec toks) as S. destruct (parse toks); cbn; auto. Qed.

(* ------------------------------------------------------------------ resolve, codegen, assemble *)
Lemma resolve_loop_answer : forall fuel passes maxp items lv,
  (1 <= fuel)%nat -> maxp - passes + 2 <= Z.of_nat fuel -> answer (resolve_loop fuel passes maxp items lv).
Proof.
  induction fuel as [|f IH]; intros passes maxp items lv H1 H2; [lia|].
  cbn [resolve_loop].
  destruct (maxp <? passes) eqn:E; [exact I|]. apply Z.ltb_ge in E.
  destruct (pass items lv) as [items' lv' sz changed|e]; [|exact I].
  destruct changed; [|exact I]. apply IH; lia.
Qed.

Lemma resolve_answer prog : answer (resolve prog).
Proof. unfold resolve, max_passes. apply resolve_loop_answer; lia. Qed.

Lemma codegen_answer prog : answer (codegen prog).
Proof. unfold codegen. pose proof (resolve_answer prog). destruct (resolve prog); cbn in *; auto. Qed.

Lemma assemble_directives_answer prog locs : answer (assemble_directives prog locs).
Proof.
  unfold assemble_directives. pose proof (codegen_answer prog). destruct (codegen prog); cbn in *; auto.
  destruct (emit_bin a) as [[file img] syms]. exact I.
Qed.

Lemma assemble_answer src : answer (assemble src).
Proof.
  unfold assemble. pose proof (parse_answer (lex src)). destruct (parse (lex src)); cbn in *; auto.
  apply assemble_directives_answer.
Qed.

Theorem assemble_total : C10_total_stmt.
Proof. intros src. apply answer_cases. apply assemble_answer. Qed.
