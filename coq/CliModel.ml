open Ascii
open BinInt
open BinNums
open Datatypes
open List
open String

type bytes = coq_Z list

type fs = string -> bytes option

(** val fs_set : fs -> string -> bytes -> fs **)

let fs_set f name b n =
  if eqb n name then Some b else f n

type result = { status : coq_Z; diagnostic : bool; files : fs; out : bytes }

(** val starts_with_dash : string -> bool **)

let starts_with_dash = function
| EmptyString -> false
| String (c, _) ->
  Ascii.eqb c (Ascii (true, false, true, true, false, true, false, false))

type mode =
| MBinary
| MTokens
| MListing

type args = { a_mode : mode; a_file : string option; a_out : string option;
              a_trace : bool; a_tokens : bool; a_instrs : bool }

type parsed =
| PArgs of args
| PHelp
| PError

(** val set_file : args -> string -> args **)

let set_file a f =
  { a_mode = a.a_mode; a_file = (Some f); a_out = a.a_out; a_trace =
    a.a_trace; a_tokens = a.a_tokens; a_instrs = a.a_instrs }

(** val set_out : args -> string option -> args **)

let set_out a o =
  { a_mode = a.a_mode; a_file = a.a_file; a_out = o; a_trace = a.a_trace;
    a_tokens = a.a_tokens; a_instrs = a.a_instrs }

(** val set_mode : args -> mode -> args **)

let set_mode a m =
  { a_mode = m; a_file = a.a_file; a_out = a.a_out; a_trace = a.a_trace;
    a_tokens = a.a_tokens; a_instrs = a.a_instrs }

(** val set_flags : args -> bool -> bool -> args **)

let set_flags a tok ins =
  { a_mode = a.a_mode; a_file = a.a_file; a_out = a.a_out; a_trace =
    a.a_trace; a_tokens = tok; a_instrs = ins }

(** val is_any : string -> string list -> bool **)

let is_any a l =
  existsb (eqb a) l

(** val hexasm_args : string list -> args -> parsed **)

let rec hexasm_args argv a =
  match argv with
  | [] -> PArgs a
  | x :: r ->
    if is_any x ((String ((Ascii (true, false, true, true, false, true,
         false, false)), (String ((Ascii (false, false, false, true, false,
         true, true, false)), EmptyString)))) :: ((String ((Ascii (true,
         false, true, true, false, true, false, false)), (String ((Ascii
         (true, false, true, true, false, true, false, false)), (String
         ((Ascii (false, false, false, true, false, true, true, false)),
         (String ((Ascii (true, false, true, false, false, true, true,
         false)), (String ((Ascii (false, false, true, true, false, true,
         true, false)), (String ((Ascii (false, false, false, false, true,
         true, true, false)), EmptyString)))))))))))) :: []))
    then PHelp
    else if eqb x (String ((Ascii (true, false, true, true, false, true,
              false, false)), (String ((Ascii (true, false, true, true,
              false, true, false, false)), (String ((Ascii (false, false,
              true, false, true, true, true, false)), (String ((Ascii (true,
              true, true, true, false, true, true, false)), (String ((Ascii
              (true, true, false, true, false, true, true, false)), (String
              ((Ascii (true, false, true, false, false, true, true, false)),
              (String ((Ascii (false, true, true, true, false, true, true,
              false)), (String ((Ascii (true, true, false, false, true, true,
              true, false)), EmptyString))))))))))))))))
         then hexasm_args r (set_flags a true a.a_instrs)
         else if eqb x (String ((Ascii (true, false, true, true, false, true,
                   false, false)), (String ((Ascii (true, false, true, true,
                   false, true, false, false)), (String ((Ascii (true, false,
                   false, true, false, true, true, false)), (String ((Ascii
                   (false, true, true, true, false, true, true, false)),
                   (String ((Ascii (true, true, false, false, true, true,
                   true, false)), (String ((Ascii (false, false, true, false,
                   true, true, true, false)), (String ((Ascii (false, true,
                   false, false, true, true, true, false)), (String ((Ascii
                   (true, true, false, false, true, true, true, false)),
                   EmptyString))))))))))))))))
              then hexasm_args r (set_flags a a.a_tokens true)
              else if is_any x ((String ((Ascii (true, false, true, true,
                        false, true, false, false)), (String ((Ascii (true,
                        false, true, true, false, true, false, false)),
                        (String ((Ascii (true, true, true, true, false, true,
                        true, false)), (String ((Ascii (true, false, true,
                        false, true, true, true, false)), (String ((Ascii
                        (false, false, true, false, true, true, true,
                        false)), (String ((Ascii (false, false, false, false,
                        true, true, true, false)), (String ((Ascii (true,
                        false, true, false, true, true, true, false)),
                        (String ((Ascii (false, false, true, false, true,
                        true, true, false)),
                        EmptyString)))))))))))))))) :: ((String ((Ascii
                        (true, false, true, true, false, true, false,
                        false)), (String ((Ascii (true, true, true, true,
                        false, true, true, false)), EmptyString)))) :: []))
                   then (match r with
                         | [] -> PArgs (set_out a None)
                         | o :: r' -> hexasm_args r' (set_out a (Some o)))
                   else if starts_with_dash x
                        then PError
                        else (match a.a_file with
                              | Some _ -> PError
                              | None -> hexasm_args r (set_file a x))

(** val args0 : string -> args **)

let args0 default_out =
  { a_mode = MBinary; a_file = None; a_out = (Some default_out); a_trace =
    false; a_tokens = false; a_instrs = false }

(** val ok : fs -> result **)

let ok f =
  { status = Z0; diagnostic = false; files = f; out = [] }

(** val fail : fs -> result **)

let fail f =
  { status = (Zpos Coq_xH); diagnostic = true; files = f; out = [] }

(** val helped : fs -> result **)

let helped f =
  { status = (Zpos Coq_xH); diagnostic = false; files = f; out = [] }

(** val hexasm_main :
    (bytes -> bytes option) -> string list -> fs -> result **)

let hexasm_main assemble argv f =
  match hexasm_args argv
          (args0 (String ((Ascii (true, false, false, false, false, true,
            true, false)), (String ((Ascii (false, true, true, true, false,
            true, false, false)), (String ((Ascii (true, true, true, true,
            false, true, true, false)), (String ((Ascii (true, false, true,
            false, true, true, true, false)), (String ((Ascii (false, false,
            true, false, true, true, true, false)), EmptyString))))))))))) with
  | PArgs a ->
    (match a.a_file with
     | Some name ->
       (match f name with
        | Some src ->
          if (&&) a.a_tokens (negb a.a_instrs)
          then ok f
          else (match assemble src with
                | Some bin ->
                  if a.a_instrs
                  then ok f
                  else (match a.a_out with
                        | Some o -> ok (fs_set f o bin)
                        | None -> fail f)
                | None -> fail f)
        | None -> fail f)
     | None -> helped f)
  | PHelp -> helped f
  | PError -> fail f

(** val xcmp_args : string list -> args -> parsed **)

let rec xcmp_args argv a =
  match argv with
  | [] -> PArgs a
  | x :: r ->
    if is_any x ((String ((Ascii (true, false, true, true, false, true,
         false, false)), (String ((Ascii (false, false, false, true, false,
         true, true, false)), EmptyString)))) :: ((String ((Ascii (true,
         false, true, true, false, true, false, false)), (String ((Ascii
         (true, false, true, true, false, true, false, false)), (String
         ((Ascii (false, false, false, true, false, true, true, false)),
         (String ((Ascii (true, false, true, false, false, true, true,
         false)), (String ((Ascii (false, false, true, true, false, true,
         true, false)), (String ((Ascii (false, false, false, false, true,
         true, true, false)), EmptyString)))))))))))) :: []))
    then PHelp
    else if is_any x ((String ((Ascii (true, false, true, true, false, true,
              false, false)), (String ((Ascii (true, false, true, true,
              false, true, false, false)), (String ((Ascii (false, false,
              true, false, true, true, true, false)), (String ((Ascii (true,
              true, true, true, false, true, true, false)), (String ((Ascii
              (true, true, false, true, false, true, true, false)), (String
              ((Ascii (true, false, true, false, false, true, true, false)),
              (String ((Ascii (false, true, true, true, false, true, true,
              false)), (String ((Ascii (true, true, false, false, true, true,
              true, false)), EmptyString)))))))))))))))) :: [])
         then xcmp_args r (set_mode a MTokens)
         else if is_any x ((String ((Ascii (true, false, true, true, false,
                   true, false, false)), (String ((Ascii (true, false, true,
                   true, false, true, false, false)), (String ((Ascii (false,
                   false, true, false, true, true, true, false)), (String
                   ((Ascii (false, true, false, false, true, true, true,
                   false)), (String ((Ascii (true, false, true, false, false,
                   true, true, false)), (String ((Ascii (true, false, true,
                   false, false, true, true, false)),
                   EmptyString)))))))))))) :: ((String ((Ascii (true, false,
                   true, true, false, true, false, false)), (String ((Ascii
                   (true, false, true, true, false, true, false, false)),
                   (String ((Ascii (false, false, true, false, true, true,
                   true, false)), (String ((Ascii (false, true, false, false,
                   true, true, true, false)), (String ((Ascii (true, false,
                   true, false, false, true, true, false)), (String ((Ascii
                   (true, false, true, false, false, true, true, false)),
                   (String ((Ascii (true, false, true, true, false, true,
                   false, false)), (String ((Ascii (true, true, true, true,
                   false, true, true, false)), (String ((Ascii (false, false,
                   false, false, true, true, true, false)), (String ((Ascii
                   (false, false, true, false, true, true, true, false)),
                   EmptyString)))))))))))))))))))) :: ((String ((Ascii (true,
                   false, true, true, false, true, false, false)), (String
                   ((Ascii (true, false, true, true, false, true, false,
                   false)), (String ((Ascii (true, false, false, true, false,
                   true, true, false)), (String ((Ascii (false, true, true,
                   true, false, true, true, false)), (String ((Ascii (true,
                   true, false, false, true, true, true, false)), (String
                   ((Ascii (false, false, true, false, true, true, true,
                   false)), (String ((Ascii (true, true, false, false, true,
                   true, true, false)), EmptyString)))))))))))))) :: ((String
                   ((Ascii (true, false, true, true, false, true, false,
                   false)), (String ((Ascii (true, false, true, true, false,
                   true, false, false)), (String ((Ascii (true, false, false,
                   true, false, true, true, false)), (String ((Ascii (false,
                   true, true, true, false, true, true, false)), (String
                   ((Ascii (true, true, false, false, true, true, true,
                   false)), (String ((Ascii (false, false, true, false, true,
                   true, true, false)), (String ((Ascii (true, true, false,
                   false, true, true, true, false)), (String ((Ascii (true,
                   false, true, true, false, true, false, false)), (String
                   ((Ascii (false, false, true, true, false, true, true,
                   false)), (String ((Ascii (true, true, true, true, false,
                   true, true, false)), (String ((Ascii (true, true, true,
                   false, true, true, true, false)), (String ((Ascii (true,
                   false, true, false, false, true, true, false)), (String
                   ((Ascii (false, true, false, false, true, true, true,
                   false)), (String ((Ascii (true, false, true, false, false,
                   true, true, false)), (String ((Ascii (false, false, true,
                   false, false, true, true, false)),
                   EmptyString)))))))))))))))))))))))))))))) :: ((String
                   ((Ascii (true, false, true, true, false, true, false,
                   false)), (String ((Ascii (true, false, true, true, false,
                   true, false, false)), (String ((Ascii (true, false, false,
                   true, false, true, true, false)), (String ((Ascii (false,
                   true, true, true, false, true, true, false)), (String
                   ((Ascii (true, true, false, false, true, true, true,
                   false)), (String ((Ascii (false, false, true, false, true,
                   true, true, false)), (String ((Ascii (true, true, false,
                   false, true, true, true, false)), (String ((Ascii (true,
                   false, true, true, false, true, false, false)), (String
                   ((Ascii (true, true, true, true, false, true, true,
                   false)), (String ((Ascii (false, false, false, false,
                   true, true, true, false)), (String ((Ascii (false, false,
                   true, false, true, true, true, false)), (String ((Ascii
                   (true, false, false, true, false, true, true, false)),
                   (String ((Ascii (true, false, true, true, false, true,
                   true, false)), (String ((Ascii (true, false, false, true,
                   false, true, true, false)), (String ((Ascii (true, true,
                   false, false, true, true, true, false)), (String ((Ascii
                   (true, false, true, false, false, true, true, false)),
                   (String ((Ascii (false, false, true, false, false, true,
                   true, false)),
                   EmptyString)))))))))))))))))))))))))))))))))) :: ((String
                   ((Ascii (true, false, true, true, false, true, false,
                   false)), (String ((Ascii (true, true, false, false, true,
                   false, true, false)), EmptyString)))) :: ((String ((Ascii
                   (true, false, true, true, false, true, false, false)),
                   (String ((Ascii (true, false, true, true, false, true,
                   false, false)), (String ((Ascii (true, false, false, true,
                   false, true, true, false)), (String ((Ascii (false, true,
                   true, true, false, true, true, false)), (String ((Ascii
                   (true, true, false, false, true, true, true, false)),
                   (String ((Ascii (false, false, true, false, true, true,
                   true, false)), (String ((Ascii (true, true, false, false,
                   true, true, true, false)), (String ((Ascii (true, false,
                   true, true, false, true, false, false)), (String ((Ascii
                   (true, false, false, false, false, true, true, false)),
                   (String ((Ascii (true, true, false, false, true, true,
                   true, false)), (String ((Ascii (true, false, true, true,
                   false, true, true, false)),
                   EmptyString)))))))))))))))))))))) :: [])))))))
              then xcmp_args r (set_mode a MListing)
              else if eqb x (String ((Ascii (true, false, true, true, false,
                        true, false, false)), (String ((Ascii (true, false,
                        true, true, false, true, false, false)), (String
                        ((Ascii (true, false, true, true, false, true, true,
                        false)), (String ((Ascii (true, false, true, false,
                        false, true, true, false)), (String ((Ascii (true,
                        false, true, true, false, true, true, false)),
                        (String ((Ascii (true, true, true, true, false, true,
                        true, false)), (String ((Ascii (false, true, false,
                        false, true, true, true, false)), (String ((Ascii
                        (true, false, false, true, true, true, true, false)),
                        (String ((Ascii (true, false, true, true, false,
                        true, false, false)), (String ((Ascii (true, false,
                        false, true, false, true, true, false)), (String
                        ((Ascii (false, true, true, true, false, true, true,
                        false)), (String ((Ascii (false, true, true, false,
                        false, true, true, false)), (String ((Ascii (true,
                        true, true, true, false, true, true, false)),
                        EmptyString))))))))))))))))))))))))))
                   then xcmp_args r a
                   else if is_any x ((String ((Ascii (true, false, true,
                             true, false, true, false, false)), (String
                             ((Ascii (true, false, true, true, false, true,
                             false, false)), (String ((Ascii (true, true,
                             true, true, false, true, true, false)), (String
                             ((Ascii (true, false, true, false, true, true,
                             true, false)), (String ((Ascii (false, false,
                             true, false, true, true, true, false)), (String
                             ((Ascii (false, false, false, false, true, true,
                             true, false)), (String ((Ascii (true, false,
                             true, false, true, true, true, false)), (String
                             ((Ascii (false, false, true, false, true, true,
                             true, false)),
                             EmptyString)))))))))))))))) :: ((String ((Ascii
                             (true, false, true, true, false, true, false,
                             false)), (String ((Ascii (true, true, true,
                             true, false, true, true, false)),
                             EmptyString)))) :: []))
                        then (match r with
                              | [] -> PArgs (set_out a None)
                              | o :: r' -> xcmp_args r' (set_out a (Some o)))
                        else if starts_with_dash x
                             then PError
                             else (match a.a_file with
                                   | Some _ -> PError
                                   | None -> xcmp_args r (set_file a x))

(** val xcmp_main : (bytes -> bytes option) -> string list -> fs -> result **)

let xcmp_main compile argv f =
  match xcmp_args argv
          (args0 (String ((Ascii (true, false, false, false, false, true,
            true, false)), (String ((Ascii (false, true, true, true, false,
            true, false, false)), (String ((Ascii (true, true, true, true,
            false, true, true, false)), (String ((Ascii (true, false, true,
            false, true, true, true, false)), (String ((Ascii (false, false,
            true, false, true, true, true, false)), EmptyString))))))))))) with
  | PArgs a ->
    (match a.a_file with
     | Some name ->
       (match a.a_out with
        | Some o ->
          (match f name with
           | Some src ->
             (match a.a_mode with
              | MBinary ->
                (match compile src with
                 | Some bin -> ok (fs_set f o bin)
                 | None -> fail f)
              | MTokens -> ok f
              | MListing ->
                (match compile src with
                 | Some _ -> ok f
                 | None -> fail f))
           | None -> fail f)
        | None -> fail f)
     | None -> helped f)
  | PHelp -> helped f
  | PError -> fail f

type sim_parsed =
| SArgs of string option * bool * bool
| SHelp
| SError

(** val hexsim_args :
    string list -> string option -> bool -> bool -> sim_parsed **)

let rec hexsim_args argv file dump trace =
  match argv with
  | [] -> SArgs (file, dump, trace)
  | x :: r ->
    if is_any x ((String ((Ascii (true, false, true, true, false, true,
         false, false)), (String ((Ascii (false, false, true, false, false,
         true, true, false)), EmptyString)))) :: ((String ((Ascii (true,
         false, true, true, false, true, false, false)), (String ((Ascii
         (true, false, true, true, false, true, false, false)), (String
         ((Ascii (false, false, true, false, false, true, true, false)),
         (String ((Ascii (true, false, true, false, true, true, true,
         false)), (String ((Ascii (true, false, true, true, false, true,
         true, false)), (String ((Ascii (false, false, false, false, true,
         true, true, false)), EmptyString)))))))))))) :: []))
    then hexsim_args r file true trace
    else if is_any x ((String ((Ascii (true, false, true, true, false, true,
              false, false)), (String ((Ascii (false, false, true, false,
              true, true, true, false)), EmptyString)))) :: ((String ((Ascii
              (true, false, true, true, false, true, false, false)), (String
              ((Ascii (true, false, true, true, false, true, false, false)),
              (String ((Ascii (false, false, true, false, true, true, true,
              false)), (String ((Ascii (false, true, false, false, true,
              true, true, false)), (String ((Ascii (true, false, false,
              false, false, true, true, false)), (String ((Ascii (true, true,
              false, false, false, true, true, false)), (String ((Ascii
              (true, false, true, false, false, true, true, false)),
              EmptyString)))))))))))))) :: []))
         then hexsim_args r file dump true
         else if eqb x (String ((Ascii (true, false, true, true, false, true,
                   false, false)), (String ((Ascii (true, false, true, true,
                   false, true, false, false)), (String ((Ascii (true, false,
                   true, true, false, true, true, false)), (String ((Ascii
                   (true, false, false, false, false, true, true, false)),
                   (String ((Ascii (false, false, false, true, true, true,
                   true, false)), (String ((Ascii (true, false, true, true,
                   false, true, false, false)), (String ((Ascii (true, true,
                   false, false, false, true, true, false)), (String ((Ascii
                   (true, false, false, true, true, true, true, false)),
                   (String ((Ascii (true, true, false, false, false, true,
                   true, false)), (String ((Ascii (false, false, true, true,
                   false, true, true, false)), (String ((Ascii (true, false,
                   true, false, false, true, true, false)), (String ((Ascii
                   (true, true, false, false, true, true, true, false)),
                   EmptyString))))))))))))))))))))))))
              then (match r with
                    | [] -> SError
                    | _ :: r' -> hexsim_args r' file dump trace)
              else if is_any x ((String ((Ascii (true, false, true, true,
                        false, true, false, false)), (String ((Ascii (false,
                        false, false, true, false, true, true, false)),
                        EmptyString)))) :: ((String ((Ascii (true, false,
                        true, true, false, true, false, false)), (String
                        ((Ascii (true, false, true, true, false, true, false,
                        false)), (String ((Ascii (false, false, false, true,
                        false, true, true, false)), (String ((Ascii (true,
                        false, true, false, false, true, true, false)),
                        (String ((Ascii (false, false, true, true, false,
                        true, true, false)), (String ((Ascii (false, false,
                        false, false, true, true, true, false)),
                        EmptyString)))))))))))) :: []))
                   then SHelp
                   else (match file with
                         | Some _ -> SError
                         | None -> hexsim_args r (Some x) dump trace)

(** val host_status : coq_Z -> coq_Z **)

let host_status v =
  Z.modulo v (Zpos (Coq_xO (Coq_xO (Coq_xO (Coq_xO (Coq_xO (Coq_xO (Coq_xO
    (Coq_xO Coq_xH)))))))))

(** val hexsim_main :
    (bytes -> bytes -> (coq_Z * bytes) option) -> string list -> bytes -> fs
    -> result **)

let hexsim_main simulate argv input f =
  match hexsim_args argv None false false with
  | SArgs (file, dump, _) ->
    (match file with
     | Some name ->
       (match f name with
        | Some bin ->
          if dump
          then ok f
          else (match simulate bin input with
                | Some p ->
                  let (v, o) = p in
                  { status = (host_status v); diagnostic = false; files = f;
                  out = o }
                | None -> fail f)
        | None -> fail f)
     | None -> helped f)
  | SHelp -> helped f
  | SError -> fail f

type run_parsed =
| RArgs of string option * bool
| RHelp
| RError

(** val xrun_args : string list -> string option -> bool -> run_parsed **)

let rec xrun_args argv file trace =
  match argv with
  | [] -> RArgs (file, trace)
  | x :: r ->
    if is_any x ((String ((Ascii (true, false, true, true, false, true,
         false, false)), (String ((Ascii (false, false, false, true, false,
         true, true, false)), EmptyString)))) :: ((String ((Ascii (true,
         false, true, true, false, true, false, false)), (String ((Ascii
         (true, false, true, true, false, true, false, false)), (String
         ((Ascii (false, false, false, true, false, true, true, false)),
         (String ((Ascii (true, false, true, false, false, true, true,
         false)), (String ((Ascii (false, false, true, true, false, true,
         true, false)), (String ((Ascii (false, false, false, false, true,
         true, true, false)), EmptyString)))))))))))) :: []))
    then RHelp
    else if is_any x ((String ((Ascii (true, false, true, true, false, true,
              false, false)), (String ((Ascii (false, false, true, false,
              true, true, true, false)), EmptyString)))) :: ((String ((Ascii
              (true, false, true, true, false, true, false, false)), (String
              ((Ascii (true, false, true, true, false, true, false, false)),
              (String ((Ascii (false, false, true, false, true, true, true,
              false)), (String ((Ascii (false, true, false, false, true,
              true, true, false)), (String ((Ascii (true, false, false,
              false, false, true, true, false)), (String ((Ascii (true, true,
              false, false, false, true, true, false)), (String ((Ascii
              (true, false, true, false, false, true, true, false)),
              EmptyString)))))))))))))) :: []))
         then xrun_args r file true
         else if eqb x (String ((Ascii (true, false, true, true, false, true,
                   false, false)), (String ((Ascii (true, false, true, true,
                   false, true, false, false)), (String ((Ascii (true, false,
                   true, true, false, true, true, false)), (String ((Ascii
                   (true, false, false, false, false, true, true, false)),
                   (String ((Ascii (false, false, false, true, true, true,
                   true, false)), (String ((Ascii (true, false, true, true,
                   false, true, false, false)), (String ((Ascii (true, true,
                   false, false, false, true, true, false)), (String ((Ascii
                   (true, false, false, true, true, true, true, false)),
                   (String ((Ascii (true, true, false, false, false, true,
                   true, false)), (String ((Ascii (false, false, true, true,
                   false, true, true, false)), (String ((Ascii (true, false,
                   true, false, false, true, true, false)), (String ((Ascii
                   (true, true, false, false, true, true, true, false)),
                   EmptyString))))))))))))))))))))))))
              then (match r with
                    | [] -> RError
                    | _ :: r' -> xrun_args r' file trace)
              else if starts_with_dash x
                   then RError
                   else (match file with
                         | Some _ -> RError
                         | None -> xrun_args r (Some x) trace)

(** val xrun_main :
    (bytes -> bytes option) -> (bytes -> bytes -> (coq_Z * bytes) option) ->
    string list -> bytes -> fs -> result **)

let xrun_main compile simulate argv input f =
  match xrun_args argv None false with
  | RArgs (file, _) ->
    (match file with
     | Some name ->
       (match f name with
        | Some src ->
          (match compile src with
           | Some bin ->
             let f' =
               fs_set f (String ((Ascii (true, false, false, false, false,
                 true, true, false)), (String ((Ascii (false, true, true,
                 true, false, true, false, false)), (String ((Ascii (false,
                 true, false, false, false, true, true, false)), (String
                 ((Ascii (true, false, false, true, false, true, true,
                 false)), (String ((Ascii (false, true, true, true, false,
                 true, true, false)), EmptyString)))))))))) bin
             in
             (match simulate bin input with
              | Some p ->
                let (v, o) = p in
                { status = (host_status v); diagnostic = false; files = f';
                out = o }
              | None -> fail f')
           | None -> fail f)
        | None -> fail f)
     | None -> fail f)
  | RHelp -> helped f
  | RError -> fail f
