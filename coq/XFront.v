(* XFront.v -- hand model of xcmp.hpp's front end: class Lexer (character level, as a state machine that consumes
   exactly one readChar() per step) and class Parser (recursive descent over the token list, on fuel), producing
   a located syntax tree (every node carries the Location the C++ parser stores in it) and, by erasure, an
   XAst.program.  Function-for-function port; `char` values are Z in [-128,128), EOF = -1 (so byte 0xFF reads as
   end of file, and -- the file being an ifstream that the lexer closes on END_OF_FILE -- ends the input).
   ctype follows glibc's C locale tables (bytes >= 0x80 are neither space, alpha nor digit).
   No proofs here.  Tied to the C++ by tools/c09.py (same bytes through this model, extracted, and through the real
   Lexer/Parser compiled from /repo's working tree: printed tree with locations, diagnostics text + location). *)
From Coq Require Import ZArith List String Ascii Bool.
From HexVerif Require Import XAst.
Import ListNotations.
Local Open Scope Z_scope.

(* ------------------------------------------------------------------ tokens *)
Inductive token :=
| TNONE | TIDENT | TNUMBER | TLBRACKET | TRBRACKET | TLPAREN | TRPAREN | TIF | TTHEN | TELSE | TWHILE | TDO | TASS
| TSKIP | TBEGIN | TEND | TSEMI | TCOMMA | TVAR | TARRAY | TPROC | TFUNC | TIS | TSTOP | TNOT | TVAL | TSTRING
| TTRUE | TFALSE | TRETURN | TPLUS | TMINUS | TOR | TAND | TEQ | TNE | TLS | TLE | TGR | TGE | TEOF.

Definition token_code (t : token) : Z :=
  match t with
  | TNONE => 0 | TIDENT => 1 | TNUMBER => 2 | TLBRACKET => 3 | TRBRACKET => 4 | TLPAREN => 5 | TRPAREN => 6 | TIF => 7
  | TTHEN => 8 | TELSE => 9 | TWHILE => 10 | TDO => 11 | TASS => 12 | TSKIP => 13 | TBEGIN => 14 | TEND => 15
  | TSEMI => 16 | TCOMMA => 17 | TVAR => 18 | TARRAY => 19 | TPROC => 20 | TFUNC => 21 | TIS => 22 | TSTOP => 23
  | TNOT => 24 | TVAL => 25 | TSTRING => 26 | TTRUE => 27 | TFALSE => 28 | TRETURN => 29 | TPLUS => 30 | TMINUS => 31
  | TOR => 32 | TAND => 33 | TEQ => 34 | TNE => 35 | TLS => 36 | TLE => 37 | TGR => 38 | TGE => 39 | TEOF => 40
  end.
Definition token_eqb (a b : token) : bool := token_code a =? token_code b.

(* tokenEnumStr *)
Definition token_str (t : token) : string :=
  match t with
  | TNONE => "NONE" | TIDENT => "IDENTIFIER" | TNUMBER => "NUMBER" | TLBRACKET => "[" | TRBRACKET => "]" | TLPAREN => "("
  | TRPAREN => ")" | TIF => "if" | TTHEN => "then" | TELSE => "else" | TWHILE => "while" | TDO => "do" | TASS => ":="
  | TSKIP => "skip" | TBEGIN => "{" | TEND => "}" | TSEMI => ";" | TCOMMA => "," | TVAR => "var" | TARRAY => "array"
  | TPROC => "proc" | TFUNC => "func" | TIS => "is" | TSTOP => "stop" | TNOT => "~" | TVAL => "val" | TSTRING => "string"
  | TTRUE => "true" | TFALSE => "false" | TRETURN => "return" | TPLUS => "+" | TMINUS => "-" | TOR => "or" | TAND => "and"
  | TEQ => "=" | TNE => "~=" | TLS => "<" | TLE => "<=" | TGR => ">" | TGE => ">=" | TEOF => "END_OF_FILE"
  end%string.

Definition binop_of_token (t : token) : option binop :=
  match t with
  | TPLUS => Some Plus | TMINUS => Some Minus | TOR => Some Or | TAND => Some And | TEQ => Some Eq | TNE => Some Ne
  | TLS => Some Ls | TLE => Some Le | TGR => Some Gr | TGE => Some Ge | _ => None
  end.
Definition is_associative (t : token) : bool := token_eqb t TAND || token_eqb t TOR || token_eqb t TPLUS.

(* ------------------------------------------------------------------ diagnostics *)
Inductive dmsg :=
| MBadCharConst                       (* CharConstError: "bad character constant" *)
| MExpectedEq                         (* "'=' expected" *)
| MExpectedQuoteChar                  (* "expected ' after char constant" *)
| MExpectedQuoteStr                   (* "expected "" after string" *)
| MUnexpectedChar (c : Z)             (* "unexpected character " + lastChar *)
| MExpectedToken (want got : token)   (* "expected token %s, got %s" *)
| MExpectedName (got : token)         (* "expected name but got %s" *)
| MParser (what : string) (got : token). (* "%s, got %s" *)
Record diag := { d_line : Z; d_col : Z; d_msg : dmsg }.

Definition char_string (c : Z) : string :=
  (* std::string + char, later printed through what() (a C string): a NUL ends the text *)
  if c mod 256 =? 0 then EmptyString else String (ascii_of_nat (Z.to_nat (c mod 256))) EmptyString.

Definition diag_message (m : dmsg) : string :=
  match m with
  | MBadCharConst => "bad character constant"
  | MExpectedEq => "'=' expected"
  | MExpectedQuoteChar => "expected ' after char constant"
  | MExpectedQuoteStr => "expected "" after string"
  | MUnexpectedChar c => "unexpected character " ++ char_string c
  | MExpectedToken w g => "expected token " ++ token_str w ++ ", got " ++ token_str g
  | MExpectedName g => "expected name but got " ++ token_str g
  | MParser w g => w ++ ", got " ++ token_str g
  end%string.

Inductive outcome (A : Type) := Ok (a : A) | Reject (d : diag) | UB (what : string) | OutOfFuel.
Arguments Ok {A}. Arguments Reject {A}. Arguments UB {A}. Arguments OutOfFuel {A}.

Definition bind {A B} (o : outcome A) (k : A -> outcome B) : outcome B :=
  match o with Ok a => k a | Reject d => Reject d | UB w => UB w | OutOfFuel => OutOfFuel end.
Notation "'do' x <- e ; k" := (bind e (fun x => k)) (at level 200, x pattern, e at level 100, k at level 200).

(* ------------------------------------------------------------------ characters and numbers *)
Definition W32 : Z := 4294967296.
Definition to_int (u : Z) : Z := let x := u mod W32 in if 2147483648 <=? x then x - W32 else x.
Definition char_of_byte (b : Z) : Z := if 128 <=? b then b - 256 else b.
Definition EOFc : Z := -1.
Definition is_space (c : Z) : bool := (c =? 32) || ((9 <=? c) && (c <=? 13)).
Definition is_digit (c : Z) : bool := (48 <=? c) && (c <=? 57).
Definition is_alpha (c : Z) : bool := ((65 <=? c) && (c <=? 90)) || ((97 <=? c) && (c <=? 122)).
Definition is_alnum (c : Z) : bool := is_alpha c || is_digit c.
(* Lexer::isHexDigit: every letter is let through; strtoul then stops at the first non-hexadecimal one *)
Definition is_hexish (c : Z) : bool := is_digit c || is_alpha c.

Fixpoint string_of_chars (l : list Z) : string :=
  match l with [] => EmptyString | c :: r => String (ascii_of_nat (Z.to_nat (c mod 256))) (string_of_chars r) end.

Definition keyword (s : string) : token :=
  (if String.eqb s "and" then TAND else if String.eqb s "array" then TARRAY else if String.eqb s "do" then TDO
   else if String.eqb s "else" then TELSE else if String.eqb s "false" then TFALSE else if String.eqb s "func" then TFUNC
   else if String.eqb s "if" then TIF else if String.eqb s "is" then TIS else if String.eqb s "or" then TOR
   else if String.eqb s "proc" then TPROC else if String.eqb s "return" then TRETURN else if String.eqb s "skip" then TSKIP
   else if String.eqb s "stop" then TSTOP else if String.eqb s "then" then TTHEN else if String.eqb s "true" then TTRUE
   else if String.eqb s "val" then TVAL else if String.eqb s "var" then TVAR else if String.eqb s "while" then TWHILE
   else TIDENT)%string.

(* strtoul(s, nullptr, base) on a string of letters and digits, saturating at ULONG_MAX = 2^64-1; the result is
   stored in `unsigned value` *)
Definition ULONG_MAX : Z := 18446744073709551615.
Definition digit_val (c : Z) : option Z :=
  if is_digit c then Some (c - 48)
  else if (97 <=? c) && (c <=? 122) then Some (c - 87)
  else if (65 <=? c) && (c <=? 90) then Some (c - 55)
  else None.
Fixpoint strtoul_go (base : Z) (l : list Z) (acc : Z) (sat : bool) : Z :=
  match l with
  | [] => if sat then ULONG_MAX else acc
  | c :: r =>
      match digit_val c with
      | Some d => if d <? base then
                    let acc' := acc * base + d in
                    if sat || (ULONG_MAX <? acc') then strtoul_go base r 0 true else strtoul_go base r acc' false
                  else (if sat then ULONG_MAX else acc)
      | None => if sat then ULONG_MAX else acc
      end
  end.
Definition dec_value (digits : list Z) : Z := (strtoul_go 10 digits 0 false) mod W32.
(* base 16: an optional "0x"/"0X" prefix is skipped (if nothing hexadecimal follows the result is 0 either way) *)
Definition strip_0x (l : list Z) : list Z :=
  match l with
  | 48 :: x :: r => if (x =? 120) || (x =? 88) then r else l
  | _ => l
  end.
Definition hex_value (chars : list Z) : Z := (strtoul_go 16 (strip_0x chars) 0 false) mod W32.

(* ------------------------------------------------------------------ lexer *)
(* a token together with the lexer state the parser can observe right after getNextToken() returned it *)
Inductive ltok := LT (t : token) | LErr (m : dmsg).
Record lexed := { lx_tok : ltok; lx_id : string; lx_val : Z; lx_str : list Z; lx_line : Z; lx_col : Z }.

Record lstate := { ls_id : string; ls_val : Z; ls_str : list Z; ls_line : Z; ls_col : Z }.
Definition mk_lexed (t : ltok) (s : lstate) : lexed :=
  {| lx_tok := t; lx_id := ls_id s; lx_val := ls_val s; lx_str := ls_str s; lx_line := ls_line s; lx_col := ls_col s |}.
Definition bump (s : lstate) : lstate :=
  {| ls_id := ls_id s; ls_val := ls_val s; ls_str := ls_str s; ls_line := ls_line s; ls_col := ls_col s + 1 |}.
Definition newline (s : lstate) : lstate :=
  {| ls_id := ls_id s; ls_val := ls_val s; ls_str := ls_str s; ls_line := ls_line s + 1; ls_col := 0 |}.
Definition set_id (s : lstate) (i : string) : lstate :=
  {| ls_id := i; ls_val := ls_val s; ls_str := ls_str s; ls_line := ls_line s; ls_col := ls_col s |}.
Definition set_val (s : lstate) (v : Z) : lstate :=
  {| ls_id := ls_id s; ls_val := v; ls_str := ls_str s; ls_line := ls_line s; ls_col := ls_col s |}.
Definition set_str (s : lstate) (v : list Z) : lstate :=
  {| ls_id := ls_id s; ls_val := ls_val s; ls_str := v; ls_line := ls_line s; ls_col := ls_col s |}.

Inductive lmode :=
| MStart | MComment | MIdent (acc : list Z) | MDec (acc : list Z) | MHex (acc : list Z)
| MLt | MGt | MTilde | MColon
| MChar0 | MCharEsc | MCharEnd (ch : Z)
| MStr (acc : list Z) | MStrEsc (acc : list Z).

(* readCharConst's escape table *)
Definition escape (c : Z) : option Z :=
  if c =? 92 then Some 92 else if c =? 39 then Some 39 else if c =? 34 then Some 34
  else if c =? 116 then Some 9 else if c =? 114 then Some 13 else if c =? 110 then Some 10 else None.

Definition single_char_token (c : Z) : option token :=
  if c =? 91 then Some TLBRACKET else if c =? 93 then Some TRBRACKET else if c =? 40 then Some TLPAREN
  else if c =? 41 then Some TRPAREN else if c =? 123 then Some TBEGIN else if c =? 125 then Some TEND
  else if c =? 59 then Some TSEMI else if c =? 44 then Some TCOMMA else if c =? 43 then Some TPLUS
  else if c =? 45 then Some TMINUS else if c =? 61 then Some TEQ else None.

(* result of one step: tokens completed, next mode, next state, stop (END_OF_FILE returned or an error thrown) *)
Definition step := (list lexed * lmode * lstate * bool)%type.

(* readToken() entered with lastChar = c; performs exactly one readChar() unless it throws *)
Definition start_action (c : Z) (s : lstate) : step :=
  if is_space c then ([], MStart, bump (if c =? 10 then newline s else s), false)
  else if c =? 124 then ([], MComment, bump s, false)
  else if is_alpha c then ([], MIdent [c], bump s, false)
  else if is_digit c then ([], MDec [c], bump s, false)
  else if c =? 35 then ([], MHex [], bump s, false)
  else match single_char_token c with
       | Some t => ([mk_lexed (LT t) (bump s)], MStart, bump s, false)
       | None =>
           if c =? 60 then ([], MLt, bump s, false)
           else if c =? 62 then ([], MGt, bump s, false)
           else if c =? 126 then ([], MTilde, bump s, false)
           else if c =? 58 then ([], MColon, bump s, false)
           else if c =? 39 then ([], MChar0, bump s, false)
           else if c =? 34 then ([], MStr [], bump (set_str s []), false)
           else if c =? EOFc then ([mk_lexed (LT TEOF) (bump s)], MStart, bump s, true)
           else ([mk_lexed (LErr (MUnexpectedChar c)) s], MStart, s, true)
       end.

Definition after_token (t : lexed) (c : Z) (s : lstate) : step :=
  let '(toks, m', s', stop) := start_action c s in (t :: toks, m', s', stop).

Definition two_char (c : Z) (s : lstate) (with_eq without : token) : step :=
  if c =? 61 then ([mk_lexed (LT with_eq) (bump s)], MStart, bump s, false)
  else after_token (mk_lexed (LT without) s) c s.

Definition one_char (m : lmode) (c : Z) (s : lstate) : step :=
  match m with
  | MStart => start_action c s
  | MComment =>
      if c =? 10 then ([], MStart, bump (newline s), false)
      else if c =? EOFc then start_action c s
      else ([], MComment, bump s, false)
  | MIdent acc =>
      if is_alnum c || (c =? 95) then ([], MIdent (acc ++ [c]), bump s, false)
      else let name := string_of_chars acc in
           let s1 := set_id s name in
           after_token (mk_lexed (LT (keyword name)) s1) c s1
  | MDec acc =>
      if is_digit c then ([], MDec (acc ++ [c]), bump s, false)
      else let s1 := set_val s (dec_value acc) in after_token (mk_lexed (LT TNUMBER) s1) c s1
  | MHex acc =>
      if is_hexish c then ([], MHex (acc ++ [c]), bump s, false)
      else let s1 := set_val s (hex_value acc) in after_token (mk_lexed (LT TNUMBER) s1) c s1
  | MLt => two_char c s TLE TLS
  | MGt => two_char c s TGE TGR
  | MTilde => two_char c s TNE TNOT
  | MColon =>
      if c =? 61 then ([mk_lexed (LT TASS) (bump s)], MStart, bump s, false)
      else ([mk_lexed (LErr MExpectedEq) s], MStart, s, true)
  | MChar0 =>
      if c =? 92 then ([], MCharEsc, bump s, false) else ([], MCharEnd c, bump s, false)
  | MCharEsc =>
      match escape c with
      | Some ch => ([], MCharEnd ch, bump s, false)
      | None => ([mk_lexed (LErr MBadCharConst) s], MStart, s, true)
      end
  | MCharEnd ch =>
      let s1 := set_val s (ch mod W32) in
      if c =? 39 then ([mk_lexed (LT TNUMBER) (bump s1)], MStart, bump s1, false)
      else ([mk_lexed (LErr MExpectedQuoteChar) s1], MStart, s1, true)
  | MStr acc =>
      if c =? 34 then let s1 := set_str s acc in ([mk_lexed (LT TSTRING) (bump s1)], MStart, bump s1, false)
      else if c =? EOFc then ([mk_lexed (LErr MExpectedQuoteStr) (set_str s acc)], MStart, s, true)
      else if c =? 92 then ([], MStrEsc acc, bump s, false)
      else ([], MStr (acc ++ [c mod 256]), bump s, false)
  | MStrEsc acc =>
      match escape c with
      | Some ch => ([], MStr (acc ++ [ch]), bump s, false)
      | None => ([mk_lexed (LErr MBadCharConst) (set_str s acc)], MStart, s, true)
      end
  end.

(* the token stream up to and including the first END_OF_FILE or the first lexical error.  `c` is lastChar. *)
Fixpoint lex_go (rest : list Z) (c : Z) (m : lmode) (s : lstate) : list lexed :=
  match rest with
  | [] =>
      let '(t1, m1, s1, stop1) := one_char m c s in
      if stop1 then t1 else
      let '(t2, m2, s2, stop2) := one_char m1 EOFc s1 in
      if stop2 then t1 ++ t2 else
      let '(t3, _, _, _) := one_char m2 EOFc s2 in t1 ++ t2 ++ t3
  | b :: rest' =>
      let '(toks, m', s', stop) := one_char m c s in
      if stop then toks else toks ++ lex_go rest' (char_of_byte b) m' s'
  end.

Definition lex (src : list Z) : list lexed :=
  (* Lexer(): line 0, char 0; openFile: readChar() once *)
  let s0 := {| ls_id := EmptyString; ls_val := 0; ls_str := []; ls_line := 0; ls_col := 1 |} in
  match src with
  | [] => lex_go [] EOFc MStart s0
  | b :: r => lex_go r (char_of_byte b) MStart s0
  end.

(* ------------------------------------------------------------------ located syntax tree *)
Definition loc := (Z * Z)%type.
Inductive lexpr :=
| LNum (l : loc) (n : Z) | LBool (l : loc) (b : bool) | LStr (l : loc) (bytes : list Z) | LVar (l : loc) (x : string)
| LSub (l : loc) (a : string) (i : lexpr)
| LCall (l : loc) (f : string) (args : list lexpr)
| LSys (l : loc) (n : Z) (args : list lexpr)
| LUn (l : loc) (o : unop) (e : lexpr)
| LBin (l : loc) (o : binop) (a b : lexpr).
Inductive lstmt :=
| LSkip (l : loc) | LStop (l : loc) | LReturn (l : loc) (e : lexpr)
| LIf (l : loc) (c : lexpr) (t e : lstmt) | LWhile (l : loc) (c : lexpr) (b : lstmt) | LSeq (l : loc) (ss : list lstmt)
| LAssign (l : loc) (lhs e : lexpr)          (* lhs is LVar or LSub *)
| LCallS (l : loc) (call : lexpr).           (* call is LCall or LSys *)
Inductive ldecl := LDVal (l : loc) (x : string) (e : lexpr) | LDVar (l : loc) (x : string) | LDArray (l : loc) (x : string) (e : lexpr).
Inductive fkind := KVal | KArray | KProc | KFunc.
Record lformal := { lf_kind : fkind; lf_loc : loc; lf_name : string }.
Record lproc := { lp_loc : loc; lp_func : bool; lp_name : string; lp_formals : list lformal; lp_locals : list ldecl; lp_body : lstmt }.
Record lprogram := { lg_globals : list ldecl; lg_procs : list lproc }.

(* erasure to the abstract syntax of the X specification *)
Fixpoint erase_expr (e : lexpr) : expr :=
  match e with
  | LNum _ n => ENum n | LBool _ b => EBool b | LStr _ s => EStr s | LVar _ x => EVar x
  | LSub _ a i => ESub a (erase_expr i)
  | LCall _ f args => ECall f (map erase_expr args)
  | LSys _ n args => ESys n (map erase_expr args)
  | LUn _ o e => EUn o (erase_expr e)
  | LBin _ o a b => EBin o (erase_expr a) (erase_expr b)
  end.
Fixpoint erase_stmt (s : lstmt) : stmt :=
  match s with
  | LSkip _ => SSkip | LStop _ => SStop | LReturn _ e => SReturn (erase_expr e)
  | LIf _ c t e => SIf (erase_expr c) (erase_stmt t) (erase_stmt e)
  | LWhile _ c b => SWhile (erase_expr c) (erase_stmt b)
  | LSeq _ ss => SSeq (map erase_stmt ss)
  | LAssign _ (LVar _ x) e => SAssign x (erase_expr e)
  | LAssign _ (LSub _ a i) e => SAssignSub a (erase_expr i) (erase_expr e)
  | LAssign _ _ _ => SSkip                                   (* not produced by the parser *)
  | LCallS _ (LCall _ f args) => SCall f (map erase_expr args)
  | LCallS _ (LSys _ n args) => SSys n (map erase_expr args)
  | LCallS _ _ => SSkip                                      (* not produced by the parser *)
  end.
Definition erase_decl (d : ldecl) : decl :=
  match d with LDVal _ x e => DVal x (erase_expr e) | LDVar _ x => DVar x | LDArray _ x e => DArray x (erase_expr e) end.
Definition erase_formal (f : lformal) : formal :=
  match lf_kind f with KVal => FVal (lf_name f) | KArray => FArray (lf_name f) | KProc => FProc (lf_name f) | KFunc => FFunc (lf_name f) end.
Definition erase_proc (p : lproc) : proc :=
  {| is_func := lp_func p; pname := lp_name p; formals := map erase_formal (lp_formals p);
     locals := map erase_decl (lp_locals p); body := erase_stmt (lp_body p) |}.
Definition erase_program (p : lprogram) : program :=
  {| globals := map erase_decl (lg_globals p); procs := map erase_proc (lg_procs p) |}.

(* ------------------------------------------------------------------ parser *)
(* parser state: cur = the token getNextToken() returned last (with the lexer state at that moment), rest = the
   tokens still to come.  Past the end of the list the lexer keeps returning END_OF_FILE, one readChar() each. *)
Record pst := { cur : lexed; rest : list lexed }.

Definition cur_tok (st : pst) : token := match lx_tok (cur st) with LT t => t | LErr _ => TNONE end.
Definition cur_loc (st : pst) : loc := (lx_line (cur st), lx_col (cur st)).
Definition cur_is (st : pst) (t : token) : bool := token_eqb (cur_tok st) t.
Definition here (st : pst) (m : dmsg) : diag := {| d_line := lx_line (cur st); d_col := lx_col (cur st); d_msg := m |}.

Definition eof_after (c : lexed) : lexed :=
  {| lx_tok := LT TEOF; lx_id := lx_id c; lx_val := lx_val c; lx_str := lx_str c; lx_line := lx_line c; lx_col := lx_col c + 1 |}.

(* lexer.getNextToken() *)
Definition advance (st : pst) : outcome pst :=
  match rest st with
  | [] => Ok {| cur := eof_after (cur st); rest := [] |}
  | t :: r =>
      match lx_tok t with
      | LErr m => Reject {| d_line := lx_line t; d_col := lx_col t; d_msg := m |}
      | LT _ => Ok {| cur := t; rest := r |}
      end
  end.

Definition expect (t : token) (st : pst) : outcome pst :=
  if cur_is st t then advance st else Reject (here st (MExpectedToken t (cur_tok st))).

Definition parse_identifier (st : pst) : outcome (string * pst) :=
  if cur_is st TIDENT then (do st1 <- advance st; Ok (lx_id (cur st), st1))
  else Reject (here st (MExpectedName (cur_tok st))).

Definition is_call (e : lexpr) : bool := match e with LCall _ _ _ | LSys _ _ _ => true | _ => false end.

(* CallExpr(location, value, args): sysCallId == -1 is the class's own marker for "not a system call" *)
Definition mk_syscall (l : loc) (v : Z) (args : list lexpr) : lexpr :=
  if to_int v =? -1 then LCall l EmptyString args else LSys l (to_int v) args.

Fixpoint parse_expr (f : nat) (st : pst) {struct f} : outcome (lexpr * pst) :=
  match f with O => OutOfFuel | S f' =>
    let l := cur_loc st in
    if cur_is st TMINUS then
      (do st1 <- advance st; do (e, st2) <- parse_element f' st1; Ok (LUn l Neg e, st2))
    else if cur_is st TNOT then
      (do st1 <- advance st; do (e, st2) <- parse_element f' st1; Ok (LUn l Not e, st2))
    else
      do (e, st1) <- parse_element f' st;
      match binop_of_token (cur_tok st1) with
      | Some o =>
          let op := cur_tok st1 in
          do st2 <- advance st1;
          do (r, st3) <- parse_binop_rhs f' op o st2;
          Ok (LBin l o e r, st3)
      | None => Ok (e, st1)
      end
  end
with parse_binop_rhs (f : nat) (op : token) (o : binop) (st : pst) {struct f} : outcome (lexpr * pst) :=
  match f with O => OutOfFuel | S f' =>
    let l := cur_loc st in
    do (e, st1) <- parse_element f' st;
    if is_associative op && cur_is st1 op then
      (do st2 <- advance st1; do (r, st3) <- parse_binop_rhs f' op o st2; Ok (LBin l o e r, st3))
    else Ok (e, st1)
  end
with parse_expr_list (f : nat) (st : pst) {struct f} : outcome (list lexpr * pst) :=
  match f with O => OutOfFuel | S f' =>
    do (e, st1) <- parse_expr f' st;
    if cur_is st1 TCOMMA then
      (do st2 <- advance st1; do (es, st3) <- parse_expr_list f' st2; Ok (e :: es, st3))
    else Ok ([e], st1)
  end
with parse_element (f : nat) (st : pst) {struct f} : outcome (lexpr * pst) :=
  match f with O => OutOfFuel | S f' =>
    let l := cur_loc st in
    if cur_is st TIDENT then
      do (name, st1) <- parse_identifier st;
      if cur_is st1 TLBRACKET then
        (do st2 <- advance st1; do (e, st3) <- parse_expr f' st2; do st4 <- expect TRBRACKET st3; Ok (LSub l name e, st4))
      else if cur_is st1 TLPAREN then
        do st2 <- advance st1;
        if cur_is st2 TRPAREN then (do st3 <- advance st2; Ok (LCall l name [], st3))
        else (do (es, st3) <- parse_expr_list f' st2; do st4 <- expect TRPAREN st3; Ok (LCall l name es, st4))
      else Ok (LVar l name, st1)
    else if cur_is st TNUMBER then
      let v := lx_val (cur st) in
      do st1 <- advance st;
      if cur_is st1 TLPAREN then
        do st2 <- advance st1;
        if cur_is st2 TRPAREN then (do st3 <- advance st2; Ok (mk_syscall l v [], st3))
        else (do (es, st3) <- parse_expr_list f' st2; do st4 <- expect TRPAREN st3; Ok (mk_syscall l v es, st4))
      else Ok (LNum l (v mod W32), st1)
    else if cur_is st TSTRING then
      (* getNextToken() first, getString() afterwards: the text is the lexer's string buffer after the next token *)
      (do st1 <- advance st; Ok (LStr l (lx_str (cur st1)), st1))
    else if cur_is st TTRUE then (do st1 <- advance st; Ok (LBool l true, st1))
    else if cur_is st TFALSE then (do st1 <- advance st; Ok (LBool l false, st1))
    else if cur_is st TLPAREN then
      (do st1 <- advance st; do (e, st2) <- parse_expr f' st1; do st3 <- expect TRPAREN st2; Ok (e, st3))
    else Reject {| d_line := fst l; d_col := snd l; d_msg := MParser "in expression element" (cur_tok st) |}
  end.

Fixpoint parse_statement (f : nat) (st : pst) {struct f} : outcome (lstmt * pst) :=
  match f with O => OutOfFuel | S f' =>
    let l := cur_loc st in
    if cur_is st TSKIP then (do st1 <- advance st; Ok (LSkip l, st1))
    else if cur_is st TSTOP then (do st1 <- advance st; Ok (LStop l, st1))
    else if cur_is st TRETURN then (do st1 <- advance st; do (e, st2) <- parse_expr f' st1; Ok (LReturn l e, st2))
    else if cur_is st TIF then
      do st1 <- advance st;
      do (c, st2) <- parse_expr f' st1;
      do st3 <- expect TTHEN st2;
      do (t, st4) <- parse_statement f' st3;
      do st5 <- expect TELSE st4;
      do (e, st6) <- parse_statement f' st5;
      Ok (LIf l c t e, st6)
    else if cur_is st TWHILE then
      do st1 <- advance st;
      do (c, st2) <- parse_expr f' st1;
      do st3 <- expect TDO st2;
      do (b, st4) <- parse_statement f' st3;
      Ok (LWhile l c b, st4)
    else if cur_is st TBEGIN then
      do st1 <- advance st;
      do (ss, st2) <- parse_statements f' st1;
      do st3 <- expect TEND st2;
      Ok (LSeq l ss, st3)
    else if cur_is st TIDENT then
      do (e, st1) <- parse_element f' st;
      if is_call e then Ok (LCallS l e, st1)
      else (do st2 <- expect TASS st1; do (r, st3) <- parse_expr f' st2; Ok (LAssign l e r, st3))
    else if cur_is st TNUMBER then
      do (e, st1) <- parse_element f' st;
      if is_call e then Ok (LCallS l e, st1)
      else Reject {| d_line := fst l; d_col := snd l; d_msg := MParser "invalid statement beginning with number" (cur_tok st1) |}
    else Reject {| d_line := fst l; d_col := snd l; d_msg := MParser "invalid statement" (cur_tok st) |}
  end
with parse_statements (f : nat) (st : pst) {struct f} : outcome (list lstmt * pst) :=
  match f with O => OutOfFuel | S f' =>
    do (s, st1) <- parse_statement f' st;
    if cur_is st1 TSEMI then
      (do st2 <- advance st1; do (ss, st3) <- parse_statements f' st2; Ok (s :: ss, st3))
    else Ok ([s], st1)
  end.

(* parseDecl; F = fuel for the expression *)
Definition parse_decl (F : nat) (st : pst) : outcome (ldecl * pst) :=
  let l := cur_loc st in
  if cur_is st TVAL then
    do st1 <- advance st;
    do (name, st2) <- parse_identifier st1;
    do st3 <- expect TEQ st2;
    do (e, st4) <- parse_expr F st3;
    do st5 <- expect TSEMI st4;
    Ok (LDVal l name e, st5)
  else if cur_is st TVAR then
    do st1 <- advance st;
    do (name, st2) <- parse_identifier st1;
    do st3 <- expect TSEMI st2;
    Ok (LDVar l name, st3)
  else if cur_is st TARRAY then
    do st1 <- advance st;
    do (name, st2) <- parse_identifier st1;
    do st3 <- expect TLBRACKET st2;
    do (e, st4) <- parse_expr F st3;
    do st5 <- expect TRBRACKET st4;
    do st6 <- expect TSEMI st5;
    Ok (LDArray l name e, st6)
  else Reject {| d_line := fst l; d_col := snd l; d_msg := MParser "invalid declaration" (cur_tok st) |}.

(* parseLocalDecls (with_array = false) / parseGlobalDecls (with_array = true); n bounds the iterations *)
Fixpoint parse_decls (n : nat) (F : nat) (with_array : bool) (st : pst) : outcome (list ldecl * pst) :=
  match n with O => OutOfFuel | S n' =>
    if cur_is st TVAL || cur_is st TVAR || (with_array && cur_is st TARRAY) then
      do (d, st1) <- parse_decl F st;
      do (ds, st2) <- parse_decls n' F with_array st1;
      Ok (d :: ds, st2)
    else Ok ([], st)
  end.

Definition parse_formal (st : pst) : outcome (lformal * pst) :=
  let l := cur_loc st in
  let mk k := (do st1 <- advance st; do (name, st2) <- parse_identifier st1; Ok ({| lf_kind := k; lf_loc := l; lf_name := name |}, st2)) in
  if cur_is st TVAL then mk KVal
  else if cur_is st TARRAY then mk KArray
  else if cur_is st TPROC then mk KProc
  else if cur_is st TFUNC then mk KFunc
  else Reject {| d_line := fst l; d_col := snd l; d_msg := MParser "invalid formal" (cur_tok st) |}.

Fixpoint parse_formals (n : nat) (st : pst) : outcome (list lformal * pst) :=
  match n with O => OutOfFuel | S n' =>
    do (fm, st1) <- parse_formal st;
    if cur_is st1 TCOMMA then
      (do st2 <- advance st1; do (fs, st3) <- parse_formals n' st2; Ok (fm :: fs, st3))
    else Ok ([fm], st1)
  end.

Definition parse_proc_decl (N F : nat) (st : pst) : outcome (lproc * pst) :=
  let l := cur_loc st in
  let isf := cur_is st TFUNC in
  do st1 <- advance st;
  do (name, st2) <- parse_identifier st1;
  do st3 <- expect TLPAREN st2;
  do (fs, st4) <- (if cur_is st3 TRPAREN then (do st' <- advance st3; Ok ([], st'))
                    else (do (fs, st') <- parse_formals N st3; do st'' <- expect TRPAREN st'; Ok (fs, st'')));
  do st5 <- expect TIS st4;
  do (ds, st6) <- (if cur_is st5 TVAL || cur_is st5 TVAR then parse_decls N F false st5 else Ok ([], st5));
  do (b, st7) <- parse_statement F st6;
  Ok ({| lp_loc := l; lp_func := isf; lp_name := name; lp_formals := fs; lp_locals := ds; lp_body := b |}, st7).

Fixpoint parse_proc_decls (n : nat) (N F : nat) (st : pst) : outcome (list lproc * pst) :=
  match n with O => OutOfFuel | S n' =>
    if cur_is st TPROC || cur_is st TFUNC then
      do (p, st1) <- parse_proc_decl N F st;
      do (ps, st2) <- parse_proc_decls n' N F st1;
      Ok (p :: ps, st2)
    else Ok ([], st)
  end.

(* the lexer object before the first getNextToken() *)
Definition lexed0 : lexed := {| lx_tok := LT TNONE; lx_id := EmptyString; lx_val := 0; lx_str := []; lx_line := 0; lx_col := 1 |}.

(* parseProgram.  Note the unconditional getNextToken() after the procedures: one token is skipped unseen. *)
Definition parse_program (toks : list lexed) : outcome lprogram :=
  let N := S (S (List.length toks)) in
  let F := (6 * N + 6)%nat in
  do st0 <- advance {| cur := lexed0; rest := toks |};
  do (gs, st1) <- parse_decls N F true st0;
  do (ps, st2) <- parse_proc_decls N N F st1;
  do st3 <- advance st2;
  do _ <- expect TEOF st3;
  Ok {| lg_globals := gs; lg_procs := ps |}.

Definition front_located (src : list Z) : outcome lprogram := parse_program (lex src).
Definition front (src : list Z) : outcome program :=
  do p <- front_located src; Ok (erase_program p).

Fixpoint bytes_of_string (s : string) : list Z :=
  match s with EmptyString => [] | String a r => Z.of_nat (nat_of_ascii a) :: bytes_of_string r end.
