open AsmLayout
open AsmModel
open AsmSpec
open BinNums
open List

val struct_line : item -> lline

val struct_listing : layout -> lline list
