open BinNums
open Datatypes

(** val append : positive -> positive -> positive **)

let rec append i j =
  match i with
  | Coq_xI ii -> Coq_xI (append ii j)
  | Coq_xO ii -> Coq_xO (append ii j)
  | Coq_xH -> j

module PositiveMap =
 struct
  type key = positive

  type 'a tree =
  | Leaf
  | Node of 'a tree * 'a option * 'a tree

  type 'a t = 'a tree

  (** val empty : 'a1 t **)

  let empty =
    Leaf

  (** val find : key -> 'a1 t -> 'a1 option **)

  let rec find i = function
  | Leaf -> None
  | Node (l, o, r) ->
    (match i with
     | Coq_xI ii -> find ii r
     | Coq_xO ii -> find ii l
     | Coq_xH -> o)

  (** val add : key -> 'a1 -> 'a1 t -> 'a1 t **)

  let rec add i v = function
  | Leaf ->
    (match i with
     | Coq_xI ii -> Node (Leaf, None, (add ii v Leaf))
     | Coq_xO ii -> Node ((add ii v Leaf), None, Leaf)
     | Coq_xH -> Node (Leaf, (Some v), Leaf))
  | Node (l, o, r) ->
    (match i with
     | Coq_xI ii -> Node (l, o, (add ii v r))
     | Coq_xO ii -> Node ((add ii v l), o, r)
     | Coq_xH -> Node (l, (Some v), r))

  (** val xelements : 'a1 t -> key -> (key * 'a1) list **)

  let rec xelements m i =
    match m with
    | Leaf -> []
    | Node (l, o, r) ->
      (match o with
       | Some x ->
         app (xelements l (append i (Coq_xO Coq_xH))) ((i,
           x) :: (xelements r (append i (Coq_xI Coq_xH))))
       | None ->
         app (xelements l (append i (Coq_xO Coq_xH)))
           (xelements r (append i (Coq_xI Coq_xH))))

  (** val elements : 'a1 t -> (key * 'a1) list **)

  let elements m =
    xelements m Coq_xH
 end
