(* AsmSpecProofs.v -- AsmSpec.decode is the ISA: running Isa.step over the bytes of an instruction from a clear (or
   any) operand register passes through the prefixes with Tau steps and arrives at the instruction byte with exactly
   the operand `decode` reports; every non-prefix instruction leaves the operand register clear. *)
From Coq Require Import ZArith Lia Bool List.
From HexVerif Require Import WMap Isa AsmSpec.
Import ListNotations.
Local Open Scope Z_scope.

(* memory `m` holds the image `img` on the byte range [lo, hi) *)
Definition holds (m img : WMap.t) (lo hi : Z) : Prop :=
  forall p a b o, lo <= p < hi ->
    fetch {| pc := p; areg := a; breg := b; oreg := o; mem := m |} = rd img p /\ in_mem (p / 4) = true.

Definition with_pc_oreg (s : arch) (p o : Z) : arch :=
  {| pc := p; areg := areg s; breg := breg s; oreg := o; mem := mem s |}.

Lemma isa_prefix_step s inp :
  in_mem (pc s / 4) = true -> (fetch s / 16 = 14 \/ fetch s / 16 = 15) ->
  Isa.step s inp = Ok (with_pc_oreg s (wrap (pc s + 1)) (prefix_oreg (oreg s) (fetch s)), inp, Tau).
Proof.
  intros Hm Hp. unfold Isa.step, with_pc_oreg, prefix_oreg. rewrite Hm. cbn [negb].
  destruct Hp as [Hp|Hp]; rewrite Hp; cbn [Z.eqb Pos.eqb]; reflexivity.
Qed.

Lemma fetch_indep s : fetch s = fetch {| pc := pc s; areg := 0; breg := 0; oreg := 0; mem := mem s |}.
Proof. reflexivity. Qed.

(* C04/C05 bridge: what `decode` computes is what the processor does *)
Theorem decode_exec : forall fuel img pos o0 opc o nxt,
  decode_go fuel img pos o0 = Some (opc, o, nxt) ->
  forall s inp, pc s = pos -> oreg s = o0 -> 0 <= pos -> nxt <= W -> holds (mem s) img pos nxt ->
  pos < nxt /\
  exists s', Isa.run (Z.to_nat (nxt - pos - 1)) s inp [] = ([], inp, s', Cut) /\
             pc s' = nxt - 1 /\ areg s' = areg s /\ breg s' = breg s /\ mem s' = mem s /\
             in_mem (pc s' / 4) = true /\
             fetch s' / 16 = opc /\ opc <> 14 /\ opc <> 15 /\ Z.lor (oreg s') (fetch s' mod 16) = o.
Proof.
  induction fuel as [|f IH]; intros img pos o0 opc o nxt Hd s inp Hpc Ho Hpos Hn Hh; [discriminate|].
  cbn [decode_go] in Hd.
  destruct ((rd img pos / 16 =? 14) || (rd img pos / 16 =? 15)) eqn:E.
  - (* a prefix byte *)
    assert (Hlt: pos + 1 < nxt).
    { clear - Hd. revert Hd. generalize (prefix_oreg o0 (rd img pos)). generalize (pos + 1) as q.
      clear pos. induction f as [|f IHf]; intros q z Hd; [discriminate|].
      cbn [decode_go] in Hd. destruct ((rd img q / 16 =? 14) || (rd img q / 16 =? 15)).
      - specialize (IHf _ _ Hd). lia.
      - inversion Hd. lia. }
    destruct (Hh pos (areg s) (breg s) (oreg s) ltac:(lia)) as [Hf Hm].
    assert (Hs: s = {| pc := pos; areg := areg s; breg := breg s; oreg := oreg s; mem := mem s |}) by (destruct s; cbn in *; subst; reflexivity).
    rewrite <- Hs in Hf.
    assert (Hp: fetch s / 16 = 14 \/ fetch s / 16 = 15).
    { rewrite Hf. apply orb_prop in E. destruct E as [E|E]; apply Z.eqb_eq in E; auto. }
    assert (Hm': in_mem (pc s / 4) = true) by (rewrite Hpc; exact Hm).
    pose proof (isa_prefix_step s inp Hm' Hp) as Hstep.
    assert (Hw: wrap (pc s + 1) = pos + 1).
    { unfold wrap. rewrite Hpc. apply Z.mod_small. lia. }
    rewrite Hw, Ho, Hf in Hstep.
    set (s1 := with_pc_oreg s (pos + 1) (prefix_oreg o0 (rd img pos))) in *.
    assert (Hh1: holds (mem s1) img (pos + 1) nxt).
    { intros p a b o' Hp'. apply Hh. lia. }
    destruct (IH img (pos + 1) _ opc o nxt Hd s1 inp eq_refl eq_refl ltac:(lia) Hn Hh1) as [_ (s' & Hrun & R1 & R2 & R3 & R4 & R5)].
    split; [lia|]. exists s'. split.
    + replace (Z.to_nat (nxt - pos - 1)) with (S (Z.to_nat (nxt - (pos + 1) - 1))) by lia.
      cbn [Isa.run]. rewrite Hstep. exact Hrun.
    + repeat split; try tauto; cbn in *; tauto.
  - (* the instruction byte *)
    inversion Hd; subst opc o nxt. clear Hd.
    destruct (Hh pos (areg s) (breg s) (oreg s) ltac:(lia)) as [Hf Hm].
    assert (Hs: s = {| pc := pos; areg := areg s; breg := breg s; oreg := oreg s; mem := mem s |}) by (destruct s; cbn in *; subst; reflexivity).
    rewrite <- Hs in Hf.
    split; [lia|]. exists s. replace (pos + 1 - pos - 1) with 0 by lia. cbn [Z.to_nat Isa.run rev].
    apply orb_false_elim in E. destruct E as [E1 E2]. apply Z.eqb_neq in E1. apply Z.eqb_neq in E2.
    rewrite Hf, Hpc, Ho. repeat split; try reflexivity; try assumption; lia.
Qed.

(* every instruction other than PFIX/NFIX leaves the operand register clear *)
Theorem nonprefix_clears_oreg s inp s' inp' ev :
  Isa.step s inp = Ok (s', inp', ev) -> fetch s / 16 <> 14 -> fetch s / 16 <> 15 -> oreg s' = 0.
Proof.
  intros Hstep H14 H15. unfold Isa.step in Hstep.
  destruct (negb (in_mem (pc s / 4))); [discriminate|].
  assert (Hr: 0 <= fetch s / 16 < 16).
  { unfold fetch. pose proof (Z.mod_pos_bound (rd (mem s) (pc s / 4) / 2 ^ (8 * (pc s mod 4))) 256 ltac:(lia)).
    split; [apply Z.div_pos; lia | apply Z.div_lt_upper_bound; lia]. }
  set (opc := fetch s / 16) in *. clearbody opc.
  assert (Hcases: opc = 0 \/ opc = 1 \/ opc = 2 \/ opc = 3 \/ opc = 4 \/ opc = 5 \/ opc = 6 \/ opc = 7 \/ opc = 8 \/
                  opc = 9 \/ opc = 10 \/ opc = 11 \/ opc = 12 \/ opc = 13) by lia.
  repeat (destruct Hcases as [->|Hcases]); [.. | subst opc]; cbv beta iota zeta in Hstep;
    repeat match type of Hstep with
    | (if ?c then _ else _) = _ => destruct c; [|discriminate]
    end; try discriminate; try (inversion Hstep; reflexivity).
  destruct (Z.lor (oreg s) (fetch s mod 16)) as [|p|p]; try discriminate; try (inversion Hstep; reflexivity).
  destruct p as [p|p|]; [destruct p as [p|p|]| destruct p as [p|p|] |]; try discriminate; try (inversion Hstep; reflexivity).
  destruct (in_mem 1); [|discriminate].
  destruct (areg s) as [|q|q]; try discriminate.
  - destruct (in_mem _); [inversion Hstep; reflexivity|discriminate].
  - destruct q as [q|q|]; try discriminate.
    + destruct q; try discriminate.
      destruct (in_mem _); [|discriminate]. destruct (simin _ _). destruct (in_mem _); [inversion Hstep; reflexivity|discriminate].
    + destruct (in_mem _); [|discriminate]. destruct (in_mem _); [inversion Hstep; reflexivity|discriminate].
Qed.
