(* XCodegenInv.v -- inversion lemmas for the spec interpreter XSem (what a successful evaluation of each
   construct consists of), used by the code-generator proofs.  `same_store s s'`: the two states have the same
   global variables and frames (they may differ in the footprint bookkeeping `cur`). *)
From Coq Require Import ZArith List String Bool Lia.
From HexVerif Require Import XAst XSem.
Import ListNotations.
Local Open Scope Z_scope.

Lemma rcase_ret {A B} (r : res A) kr kh (b : B) s :
  rcase r kr kh = Ret b s ->
  (exists a s0, r = Ret a s0 /\ kr a s0 = Ret b s) \/ (exists c s0, r = Halt c s0 /\ kh c s0 = Ret b s).
Proof. destruct r as [a s0|c s0|u]; cbn [rcase]; intros H; [left|right|discriminate]; eauto. Qed.

Lemma bind_ret {A B} (r : res A) k (b : B) s :
  bind r k = Ret b s -> exists a s0, r = Ret a s0 /\ k a s0 = Ret b s.
Proof. unfold bind. intros H. apply rcase_ret in H. destruct H as [H|(c & s0 & _ & H)]; [exact H | discriminate]. Qed.

Lemma with_eff_ret {A} (m : state -> res A) st (a : A) e s :
  with_eff m st = Ret (a, e) s ->
  exists s0, m (set_cur st eff0) = Ret a s0 /\ e = cur s0 /\ s = set_cur s0 (eff_union (cur st) (cur s0)).
Proof.
  unfold with_eff. intros H. apply rcase_ret in H. destruct H as [(a0 & s0 & H1 & H2)|(c & s0 & _ & H)]; [|discriminate].
  inversion H2; subst. exists s0. repeat split. exact H1.
Qed.

Definition same_store (s s' : state) : Prop :=
  gvars s' = gvars s /\ stk s' = stk s /\ garrs s' = garrs s /\ out_rev s' = out_rev s /\ input s' = input s /\ ncons s' = ncons s.
Lemma same_store_refl s : same_store s s. Proof. repeat split. Qed.
Lemma same_store_trans a b c : same_store a b -> same_store b c -> same_store a c.
Proof. intros (H1 & H2 & H3 & H4 & H5 & H6) (G1 & G2 & G3 & G4 & G5 & G6). repeat split; congruence. Qed.
Lemma same_store_set_cur s e : same_store s (set_cur s e). Proof. repeat split. Qed.
Lemma same_store_note_rd s x : same_store s (note_rd x s). Proof. repeat split. Qed.

Lemma evals_two f ge l r st L s :
  evals f ge [l; r] st = Ret L s ->
  exists f1 f2 vl st1 sl vr st2 sr,
    same_store st st1 /\ eval f1 ge l st1 = Ret vl sl /\
    same_store sl st2 /\ eval f2 ge r st2 = Ret vr sr /\
    map fst L = [vl; vr] /\ same_store sr s.
Proof.
  destruct f as [|f1]; [discriminate|]. cbn [evals]. unfold evals_body at 1. intros H.
  apply rcase_ret in H. destruct H as [([vl el] & s1 & H1 & H)|(c & s0 & _ & H)].
  2:{ destruct (forallb harmless [r]); discriminate. }
  apply with_eff_ret in H1. destruct H1 as (sl & Hl & -> & ->).
  apply rcase_ret in H. destruct H as [(L1 & s2 & H2 & H)|(c & s0 & _ & H)].
  2:{ cbn [snd] in H. destruct (e_io (cur sl)); discriminate. }
  inversion H; subst L s; clear H.
  destruct f1 as [|f2]; [discriminate|]. cbn [evals] in H2. unfold evals_body at 1 in H2.
  apply rcase_ret in H2. destruct H2 as [([vr er] & s3 & H3 & H)|(c & s0 & _ & H)].
  2:{ cbn [forallb] in H. discriminate. }
  apply with_eff_ret in H3. destruct H3 as (sr & Hr & -> & ->).
  apply rcase_ret in H. destruct H as [(L2 & s4 & H4 & H)|(c & s0 & _ & H)].
  2:{ cbn [snd] in H. destruct (e_io (cur sr)); discriminate. }
  inversion H; subst L1 s2; clear H.
  destruct f2 as [|f3]; [discriminate|]. cbn [evals evals_body] in H4. inversion H4; subst L2 s4; clear H4.
  exists (S (S f3)), (S f3), vl, (set_cur st eff0), sl, vr, (set_cur (set_cur sl (eff_union (cur st) (cur sl))) eff0), sr.
  repeat split; try assumption.
Qed.

Definition logical (o : binop) : bool := match o with And => true | Or => true | _ => false end.

(* a successful evaluation of an arithmetic or relational operator *)
Lemma eval_binop f ge o l r st v s :
  logical o = false -> eval f ge (EBin o l r) st = Ret v s ->
  exists f1 f2 x y st1 sl st2 sr z,
    same_store st st1 /\ eval f1 ge l st1 = Ret (Vint x) sl /\
    same_store sl st2 /\ eval f2 ge r st2 = Ret (Vint y) sr /\
    same_store sr s /\ binop_ans o x y = inr z /\ v = Vint z.
Proof.
  intros Ho. destruct f as [|f0]; [discriminate|]. cbn [eval].
  assert (E : eval_body (eval f0 ge) (evals f0 ge) (exec f0 ge) ge (EBin o l r) st =
              bind (operands (evals f0 ge) [l; r] st) (fun vs s1 =>
                match vs with
                | [a; b] => int_of a (fun x => int_of b (fun y =>
                              match binop_ans o x y with inr z => Ret (Vint z) s1 | inl u => Fail u end))
                | _ => Fail (Unsupported "internal: operands")
                end)) by (destruct o; try discriminate Ho; reflexivity).
  rewrite E. clear E. intros H.
  apply bind_ret in H. destruct H as (vs & s1 & H1 & H).
  unfold operands in H1. apply bind_ret in H1. destruct H1 as (L & s2 & H2 & H1).
  destruct (conflicts (map snd L)); [discriminate|]. inversion H1; subst vs s1; clear H1.
  destruct (evals_two f0 ge l r st L s2 H2) as (f1 & f2 & vl & st1 & sl & vr & st2 & sr & S0 & Hl & S1 & Hr & HL & Hss).
  rewrite HL in H.
  destruct vl as [|x|?|?]; try discriminate. destruct vr as [|y|?|?]; try discriminate.
  cbn [int_of] in H. destruct (binop_ans o x y) as [u|z] eqn:Eb; [discriminate|].
  inversion H; subst v s; clear H.
  exists f1, f2, x, y, st1, sl, st2, sr, z. exact (conj S0 (conj Hl (conj S1 (conj Hr (conj Hss (conj Eb eq_refl)))))).
Qed.

Lemma bool_of_ret {B} v (k : bool -> res B) (b : B) s :
  bool_of v k = Ret b s -> exists t, v = Vint (of_bool t) /\ k t = Ret b s.
Proof.
  unfold bool_of, int_of. destruct v as [|n|?|?]; try discriminate.
  destruct (n =? 0) eqn:E0.
  - apply Z.eqb_eq in E0. subst n. intros H. exists false. split; [reflexivity | exact H].
  - destruct (n =? 1) eqn:E1; [|discriminate]. apply Z.eqb_eq in E1. subst n. intros H. exists true. split; [reflexivity | exact H].
Qed.

Lemma eval_not f ge a st v s :
  eval f ge (EUn Not a) st = Ret v s ->
  exists f1 t, eval f1 ge a st = Ret (Vint (of_bool t)) s /\ v = Vint (of_bool (negb t)).
Proof.
  destruct f as [|f0]; [discriminate|]. cbn [eval eval_body]. intros H.
  apply bind_ret in H. destruct H as (va & s1 & H1 & H).
  apply bool_of_ret in H. destruct H as (t & -> & H). inversion H; subst.
  exists f0, t. split; [exact H1 | reflexivity].
Qed.

Lemma eval_and f ge l r st v s :
  eval f ge (EBin And l r) st = Ret v s ->
  exists f1 t s1, eval f1 ge l st = Ret (Vint (of_bool t)) s1 /\
    ((t = false /\ v = Vint 0 /\ s = s1) \/
     (t = true /\ exists u, eval f1 ge r s1 = Ret (Vint (of_bool u)) s /\ v = Vint (of_bool u))).
Proof.
  destruct f as [|f0]; [discriminate|]. cbn [eval eval_body]. intros H.
  apply bind_ret in H. destruct H as (va & s1 & H1 & H).
  apply bool_of_ret in H. destruct H as (t & -> & H).
  exists f0, t, s1. split; [exact H1|]. destruct t.
  - right. split; [reflexivity|]. apply bind_ret in H. destruct H as (vb & s2 & H2 & H).
    apply bool_of_ret in H. destruct H as (u & -> & H). inversion H; subst. exists u. split; [exact H2 | reflexivity].
  - left. inversion H; subst. repeat split.
Qed.

Lemma eval_or f ge l r st v s :
  eval f ge (EBin Or l r) st = Ret v s ->
  exists f1 t s1, eval f1 ge l st = Ret (Vint (of_bool t)) s1 /\
    ((t = true /\ v = Vint 1 /\ s = s1) \/
     (t = false /\ exists u, eval f1 ge r s1 = Ret (Vint (of_bool u)) s /\ v = Vint (of_bool u))).
Proof.
  destruct f as [|f0]; [discriminate|]. cbn [eval eval_body]. intros H.
  apply bind_ret in H. destruct H as (va & s1 & H1 & H).
  apply bool_of_ret in H. destruct H as (t & -> & H).
  exists f0, t, s1. split; [exact H1|]. destruct t.
  - left. inversion H; subst. repeat split.
  - right. split; [reflexivity|]. apply bind_ret in H. destruct H as (vb & s2 & H2 & H).
    apply bool_of_ret in H. destruct H as (u & -> & H). inversion H; subst. exists u. split; [exact H2 | reflexivity].
Qed.

Lemma eval_num f ge n st v s : eval f ge (ENum n) st = Ret v s -> v = Vint (signed32 n) /\ s = st.
Proof. destruct f; [discriminate|]. cbn [eval eval_body]. intros H. inversion H. split; reflexivity. Qed.
Lemma eval_bool f ge b st v s : eval f ge (EBool b) st = Ret v s -> v = Vint (of_bool b) /\ s = st.
Proof. destruct f; [discriminate|]. cbn [eval eval_body]. intros H. inversion H. split; reflexivity. Qed.
Lemma eval_var f ge x st v s : eval f ge (EVar x) st = Ret v s -> read_var ge x st = Ret v s.
Proof. destruct f; [discriminate|]. cbn [eval eval_body]. trivial. Qed.

Lemma signed32_range n : in_int (signed32 n) = true.
Proof.
  unfold signed32, in_int, min_int, max_int. pose proof (Z.mod_pos_bound n 4294967296 ltac:(lia)) as H.
  destruct (2147483648 <=? n mod 4294967296) eqn:E; [apply Z.leb_le in E | apply Z.leb_gt in E];
    apply andb_true_intro; split; apply Z.leb_le; lia.
Qed.
Lemma of_bool_range b : in_int (of_bool b) = true. Proof. destruct b; reflexivity. Qed.
