(* XCodegenInv.v -- inversion lemmas for the spec interpreter XSem (what a successful evaluation of each
   construct consists of), used by the code-generator proofs.  `same_store s s'`: the two states have the same
   global variables and frames (they may differ in the footprint bookkeeping `cur`). *)
From Coq Require Import ZArith List String Bool Lia.
From HexVerif Require Import XAst XSem.
Import ListNotations.
Local Open Scope Z_scope.

Lemma rcase_ret {A B} (r : res A) kr kh (b : B) s :
  rcase r kr kh = Ret b s ->
  (exists a s0, r = Ret a s0 /\ kr a s0 = Ret b s) \/ (exists c s0, r = Halt c s0 /\ kh c s0 = Ret b s).
Proof. destruct r as [a s0|c s0|u]; cbn [rcase]; intros H; [left|right|discriminate]; eauto. Qed.

Lemma bind_ret {A B} (r : res A) k (b : B) s :
  bind r k = Ret b s -> exists a s0, r = Ret a s0 /\ k a s0 = Ret b s.
Proof. unfold bind. intros H. apply rcase_ret in H. destruct H as [H|(c & s0 & _ & H)]; [exact H | discriminate]. Qed.

Lemma with_eff_ret {A} (m : state -> res A) st (a : A) e s :
  with_eff m st = Ret (a, e) s ->
  exists s0, m (set_cur st eff0) = Ret a s0 /\ e = cur s0 /\ s = set_cur s0 (eff_union (cur st) (cur s0)).
Proof.
  unfold with_eff. intros H. apply rcase_ret in H. destruct H as [(a0 & s0 & H1 & H2)|(c & s0 & _ & H)]; [|discriminate].
  inversion H2; subst. exists s0. repeat split. exact H1.
Qed.

Definition same_store (s s' : state) : Prop :=
  gvars s' = gvars s /\ stk s' = stk s /\ garrs s' = garrs s /\ out_rev s' = out_rev s /\ input s' = input s /\ ncons s' = ncons s.
Lemma same_store_refl s : same_store s s. Proof. repeat split. Qed.
Lemma same_store_trans a b c : same_store a b -> same_store b c -> same_store a c.
Proof. intros (H1 & H2 & H3 & H4 & H5 & H6) (G1 & G2 & G3 & G4 & G5 & G6). repeat split; congruence. Qed.
Lemma same_store_set_cur s e : same_store s (set_cur s e). Proof. repeat split. Qed.
Lemma same_store_note_rd s x : same_store s (note_rd x s). Proof. repeat split. Qed.

Lemma evals_two f ge l r st L s :
  evals f ge [l; r] st = Ret L s ->
  exists f1 f2 vl st1 sl vr st2 sr,
    same_store st st1 /\ eval f1 ge l st1 = Ret vl sl /\
    same_store sl st2 /\ eval f2 ge r st2 = Ret vr sr /\
    map fst L = [vl; vr] /\ same_store sr s.
Proof.
  destruct f as [|f1]; [discriminate|]. cbn [evals]. unfold evals_body at 1. intros H.
  apply rcase_ret in H. destruct H as [([vl el] & s1 & H1 & H)|(c & s0 & _ & H)].
  2:{ destruct (forallb harmless [r]); discriminate. }
  apply with_eff_ret in H1. destruct H1 as (sl & Hl & -> & ->).
  apply rcase_ret in H. destruct H as [(L1 & s2 & H2 & H)|(c & s0 & _ & H)].
  2:{ cbn [snd] in H. destruct (e_io (cur sl)); discriminate. }
  inversion H; subst L s; clear H.
  destruct f1 as [|f2]; [discriminate|]. cbn [evals] in H2. unfold evals_body at 1 in H2.
  apply rcase_ret in H2. destruct H2 as [([vr er] & s3 & H3 & H)|(c & s0 & _ & H)].
  2:{ cbn [forallb] in H. discriminate. }
  apply with_eff_ret in H3. destruct H3 as (sr & Hr & -> & ->).
  apply rcase_ret in H. destruct H as [(L2 & s4 & H4 & H)|(c & s0 & _ & H)].
  2:{ cbn [snd] in H. destruct (e_io (cur sr)); discriminate. }
  inversion H; subst L1 s2; clear H.
  destruct f2 as [|f3]; [discriminate|]. cbn [evals evals_body] in H4. inversion H4; subst L2 s4; clear H4.
  exists (S (S f3)), (S f3), vl, (set_cur st eff0), sl, vr, (set_cur (set_cur sl (eff_union (cur st) (cur sl))) eff0), sr.
  repeat split; try assumption.
Qed.

Definition logical (o : binop) : bool := match o with And => true | Or => true | _ => false end.

(* a successful evaluation of an arithmetic or relational operator *)
Lemma eval_binop f ge o l r st v s :
  logical o = false -> eval f ge (EBin o l r) st = Ret v s ->
  exists f1 f2 x y st1 sl st2 sr z,
    same_store st st1 /\ eval f1 ge l st1 = Ret (Vint x) sl /\
    same_store sl st2 /\ eval f2 ge r st2 = Ret (Vint y) sr /\
    same_store sr s /\ binop_ans o x y = inr z /\ v = Vint z.
Proof.
  intros Ho. destruct f as [|f0]; [discriminate|]. cbn [eval].
  assert (E : eval_body (eval f0 ge) (evals f0 ge) (exec f0 ge) ge (EBin o l r) st =
              bind (operands (evals f0 ge) [l; r] st) (fun vs s1 =>
                match vs with
                | [a; b] => int_of a (fun x => int_of b (fun y =>
                              match binop_ans o x y with inr z => Ret (Vint z) s1 | inl u => Fail u end))
                | _ => Fail (Unsupported "internal: operands")
                end)) by (destruct o; try discriminate Ho; reflexivity).
  rewrite E. clear E. intros H.
  apply bind_ret in H. destruct H as (vs & s1 & H1 & H).
  unfold operands in H1. apply bind_ret in H1. destruct H1 as (L & s2 & H2 & H1).
  destruct (conflicts (map snd L)); [discriminate|]. inversion H1; subst vs s1; clear H1.
  destruct (evals_two f0 ge l r st L s2 H2) as (f1 & f2 & vl & st1 & sl & vr & st2 & sr & S0 & Hl & S1 & Hr & HL & Hss).
  rewrite HL in H.
  destruct vl as [|x|?|?]; try discriminate. destruct vr as [|y|?|?]; try discriminate.
  cbn [int_of] in H. destruct (binop_ans o x y) as [u|z] eqn:Eb; [discriminate|].
  inversion H; subst v s; clear H.
  exists f1, f2, x, y, st1, sl, st2, sr, z. exact (conj S0 (conj Hl (conj S1 (conj Hr (conj Hss (conj Eb eq_refl)))))).
Qed.

Lemma bool_of_ret {B} v (k : bool -> res B) (b : B) s :
  bool_of v k = Ret b s -> exists t, v = Vint (of_bool t) /\ k t = Ret b s.
Proof.
  unfold bool_of, int_of. destruct v as [|n|?|?]; try discriminate.
  destruct (n =? 0) eqn:E0.
  - apply Z.eqb_eq in E0. subst n. intros H. exists false. split; [reflexivity | exact H].
  - destruct (n =? 1) eqn:E1; [|discriminate]. apply Z.eqb_eq in E1. subst n. intros H. exists true. split; [reflexivity | exact H].
Qed.

Lemma eval_not f ge a st v s :
  eval f ge (EUn Not a) st = Ret v s ->
  exists f1 t, eval f1 ge a st = Ret (Vint (of_bool t)) s /\ v = Vint (of_bool (negb t)).
Proof.
  destruct f as [|f0]; [discriminate|]. cbn [eval eval_body]. intros H.
  apply bind_ret in H. destruct H as (va & s1 & H1 & H).
  apply bool_of_ret in H. destruct H as (t & -> & H). inversion H; subst.
  exists f0, t. split; [exact H1 | reflexivity].
Qed.

Lemma eval_and f ge l r st v s :
  eval f ge (EBin And l r) st = Ret v s ->
  exists f1 t s1, eval f1 ge l st = Ret (Vint (of_bool t)) s1 /\
    ((t = false /\ v = Vint 0 /\ s = s1) \/
     (t = true /\ exists u, eval f1 ge r s1 = Ret (Vint (of_bool u)) s /\ v = Vint (of_bool u))).
Proof.
  destruct f as [|f0]; [discriminate|]. cbn [eval eval_body]. intros H.
  apply bind_ret in H. destruct H as (va & s1 & H1 & H).
  apply bool_of_ret in H. destruct H as (t & -> & H).
  exists f0, t, s1. split; [exact H1|]. destruct t.
  - right. split; [reflexivity|]. apply bind_ret in H. destruct H as (vb & s2 & H2 & H).
    apply bool_of_ret in H. destruct H as (u & -> & H). inversion H; subst. exists u. split; [exact H2 | reflexivity].
  - left. inversion H; subst. repeat split.
Qed.

Lemma eval_or f ge l r st v s :
  eval f ge (EBin Or l r) st = Ret v s ->
  exists f1 t s1, eval f1 ge l st = Ret (Vint (of_bool t)) s1 /\
    ((t = true /\ v = Vint 1 /\ s = s1) \/
     (t = false /\ exists u, eval f1 ge r s1 = Ret (Vint (of_bool u)) s /\ v = Vint (of_bool u))).
Proof.
  destruct f as [|f0]; [discriminate|]. cbn [eval eval_body]. intros H.
  apply bind_ret in H. destruct H as (va & s1 & H1 & H).
  apply bool_of_ret in H. destruct H as (t & -> & H).
  exists f0, t, s1. split; [exact H1|]. destruct t.
  - left. inversion H; subst. repeat split.
  - right. split; [reflexivity|]. apply bind_ret in H. destruct H as (vb & s2 & H2 & H).
    apply bool_of_ret in H. destruct H as (u & -> & H). inversion H; subst. exists u. split; [exact H2 | reflexivity].
Qed.

Lemma eval_num f ge n st v s : eval f ge (ENum n) st = Ret v s -> v = Vint (signed32 n) /\ s = st.
Proof. destruct f; [discriminate|]. cbn [eval eval_body]. intros H. inversion H. split; reflexivity. Qed.
Lemma eval_bool f ge b st v s : eval f ge (EBool b) st = Ret v s -> v = Vint (of_bool b) /\ s = st.
Proof. destruct f; [discriminate|]. cbn [eval eval_body]. intros H. inversion H. split; reflexivity. Qed.
Lemma eval_var f ge x st v s : eval f ge (EVar x) st = Ret v s -> read_var ge x st = Ret v s.
Proof. destruct f; [discriminate|]. cbn [eval eval_body]. trivial. Qed.

(* a subscript: the array is resolved (no change of state), the index evaluated, the element read *)
Lemma resolve_array_state ge a st av s0 : resolve_array ge a st = Ret av s0 -> s0 = st.
Proof.
  unfold resolve_array. intros H.
  destruct (assoc a (f_vars (top st))) as [[| | |]|]; try discriminate; try (inversion H; reflexivity).
  destruct (assoc a (f_vals (top st))); [discriminate|]. destruct (assoc a (garrs st)); [inversion H; reflexivity | discriminate].
Qed.
Lemma eval_sub f ge a i st v s :
  eval f ge (ESub a i) st = Ret v s ->
  exists f1 av n s1, resolve_array ge a st = Ret av st /\ eval f1 ge i st = Ret (Vint n) s1 /\ read_elem av a n s1 = Ret v s.
Proof.
  destruct f as [|f0]; [discriminate|]. cbn [eval eval_body]. intros H.
  apply bind_ret in H. destruct H as (av & s0 & H0 & H). pose proof (resolve_array_state _ _ _ _ _ H0) as ->.
  apply bind_ret in H. destruct H as (iv & s1 & H1 & H).
  unfold int_of in H. destruct iv as [|n| |]; try discriminate.
  exists f0, av, n, s1. split; [exact H0|]. split; [exact H1 | exact H].
Qed.

Lemma signed32_range n : in_int (signed32 n) = true.
Proof.
  unfold signed32, in_int, min_int, max_int. pose proof (Z.mod_pos_bound n 4294967296 ltac:(lia)) as H.
  destruct (2147483648 <=? n mod 4294967296) eqn:E; [apply Z.leb_le in E | apply Z.leb_gt in E];
    apply andb_true_intro; split; apply Z.leb_le; lia.
Qed.
Lemma of_bool_range b : in_int (of_bool b) = true. Proof. destruct b; reflexivity. Qed.

(* ---------------------------------------------------------------- statements *)
Lemma tick_ret {B} s (k : state -> res B) r : tick s k = r -> r <> Fail FuelExhausted ->
  k (set_budget s (budget s - 1)) = r.
Proof. unfold tick. destruct (budget s <=? 0); [intros <- H; exfalso; apply H; reflexivity | trivial]. Qed.

Definition ticked (s : state) : state := set_budget s (budget s - 1).
Lemma same_store_ticked s : same_store s (ticked s). Proof. repeat split. Qed.

Lemma exec_unfold f ge st s r : exec (S f) ge st s = r -> r <> Fail FuelExhausted ->
  exec_body (eval f ge) (evals f ge) (exec f ge) (execs f ge) ge st s = r.
Proof. trivial. Qed.

(* one-element operand lists *)
Lemma evals_one f ge e st L s :
  evals f ge [e] st = Ret L s ->
  exists f1 v st1 s1, same_store st st1 /\ eval f1 ge e st1 = Ret v s1 /\ map fst L = [v] /\ same_store s1 s.
Proof.
  destruct f as [|f1]; [discriminate|]. cbn [evals]. unfold evals_body at 1. intros H.
  apply rcase_ret in H. destruct H as [([v el] & s1 & H1 & H)|(c & s0 & _ & H)].
  2:{ cbn [forallb] in H. discriminate. }
  apply with_eff_ret in H1. destruct H1 as (sl & Hl & -> & ->).
  apply rcase_ret in H. destruct H as [(L1 & s2 & H2 & H)|(c & s0 & _ & H)].
  2:{ cbn [snd] in H. destruct (e_io (cur sl)); discriminate. }
  inversion H; subst L s; clear H.
  destruct f1 as [|f2]; [discriminate|]. cbn [evals evals_body] in H2. inversion H2; subst L1 s2.
  exists (S f2), v, (set_cur st eff0), sl. repeat split. exact Hl.
Qed.

(* a halting evaluation of a one-element operand list comes from the operand itself *)
Lemma operands_ret evs es s vs s1 : operands evs es s = Ret vs s1 ->
  exists L, evs es s = Ret L s1 /\ vs = map fst L.
Proof.
  unfold operands. intros H. apply bind_ret in H. destruct H as (L & s2 & H1 & H2).
  destruct (conflicts (map snd L)); [discriminate|]. inversion H2; subst. exists L. split; [exact H1 | reflexivity].
Qed.

(* ---------------------------------------------------------------- expressions without calls never halt the program *)
Lemma rcase_halt {A B} (r : res A) kr kh c (s : state) :
  @rcase A B r kr kh = Halt c s ->
  (exists a s0, r = Ret a s0 /\ kr a s0 = Halt c s) \/ (exists c0 s0, r = Halt c0 s0 /\ kh c0 s0 = Halt c s).
Proof. destruct r as [a s0|c0 s0|u]; cbn [rcase]; intros H; [left|right|discriminate]; eauto. Qed.

Lemma bind_halt {A B} (r : res A) k c (s : state) :
  @bind A B r k = Halt c s -> r = Halt c s \/ (exists a s0, r = Ret a s0 /\ k a s0 = Halt c s).
Proof.
  unfold bind. intros H. apply rcase_halt in H. destruct H as [H|(c0 & s0 & H1 & H2)]; [right; exact H|].
  left. rewrite H1. inversion H2. reflexivity.
Qed.

Lemma int_of_halt {B} v (k : Z -> res B) c s : int_of v k = Halt c s -> exists n, k n = Halt c s.
Proof. destruct v; cbn [int_of]; try discriminate. eauto. Qed.
Lemma bool_of_halt {B} v (k : bool -> res B) c s : bool_of v k = Halt c s -> exists t, k t = Halt c s.
Proof.
  unfold bool_of. intros H. apply int_of_halt in H. destruct H as (n & H).
  destruct (n =? 0); [eauto|]. destruct (n =? 1); [eauto | discriminate].
Qed.

Fixpoint pure (e : expr) : bool :=
  match e with
  | ENum _ => true | EBool _ => true | EVar _ => true
  | ESub _ i => pure i
  | EUn _ a => pure a
  | EBin _ l r => pure l && pure r
  | _ => false
  end.

Lemma evals_no_halt ge : forall es,
  (forall e, In e es -> forall f st c s, eval f ge e st <> Halt c s) ->
  forall f st c s, evals f ge es st <> Halt c s.
Proof.
  induction es as [|e r IH]; intros Hes f st c s H; destruct f as [|f0]; try discriminate; cbn [evals evals_body] in H; try discriminate.
  apply rcase_halt in H. destruct H as [([v ef] & s1 & H1 & H)|(c0 & s0 & H1 & H)].
  - apply rcase_halt in H. destruct H as [(L & s2 & _ & H)|(c1 & s2 & H2 & _)]; [discriminate|].
    exact (IH (fun e0 Hin => Hes e0 (or_intror Hin)) f0 s1 c1 s2 H2).
  - unfold with_eff in H1. apply rcase_halt in H1. destruct H1 as [(a0 & s2 & _ & H1)|(c1 & s2 & H1 & _)]; [discriminate|].
    exact (Hes e (or_introl eq_refl) f0 _ c1 s2 H1).
Qed.

Lemma pure_no_halt ge : forall e, pure e = true -> forall f st c s, eval f ge e st <> Halt c s.
Proof.
  induction e as [n0|b0|bs|x|a i IHi|g args|n0 args|u e IHe|o l IHl rr IHr]; intros Hp f st c s H; cbn [pure] in Hp; try discriminate;
    destruct f as [|f0]; try discriminate; cbn [eval eval_body] in H; try discriminate.
  - unfold read_var in H.
    destruct (assoc x (f_vars (top st))) as [[| | |]|]; try discriminate.
    destruct (assoc x (f_vals (top st))); [discriminate|]. destruct (assoc x (g_vals ge)); [discriminate|].
    destruct (assoc x (gvars st)) as [[| | |]|]; try discriminate. destruct (assoc x (garrs st)); discriminate.
  - (* subscript *)
    apply bind_halt in H. destruct H as [H|(av & s0 & H0 & H)].
    { unfold resolve_array in H. destruct (assoc a (f_vars (top st))) as [[| | |]|]; try discriminate.
      destruct (assoc a (f_vals (top st))); [discriminate|]. destruct (assoc a (garrs st)); discriminate. }
    apply bind_halt in H. destruct H as [H|(iv & s1 & _ & H)]; [exact (IHi Hp _ _ _ _ H)|].
    apply int_of_halt in H. destruct H as (n & H). unfold read_elem in H.
    destruct av as [| |g|ws]; try discriminate.
    + destruct (assoc g (garrs s1)) as [ar|]; [|discriminate]. destruct ((0 <=? n) && (n <? alen ar)); [|discriminate].
      destruct (FMapPositive.PositiveMap.find (cell n) (acells ar)) as [[| | |]|]; discriminate.
    + destruct ((0 <=? n) && (n <? Z.of_nat (List.length ws))); discriminate.
  - destruct u.
    + apply bind_halt in H. destruct H as [H|(v & s1 & _ & H)]; [exact (IHe Hp _ _ _ _ H)|].
      apply int_of_halt in H. destruct H as (n & H). destruct (in_int (0 - n)); discriminate.
    + apply bind_halt in H. destruct H as [H|(v & s1 & _ & H)]; [exact (IHe Hp _ _ _ _ H)|].
      apply bool_of_halt in H. destruct H as (t & H). discriminate.
  - apply andb_prop in Hp. destruct Hp as [Hpl Hpr].
    assert (Hgen : forall K : list value -> state -> res value, bind (operands (evals f0 ge) [l; rr] st) K = Halt c s ->
                    (forall vs s1, K vs s1 <> Halt c s) -> False).
    { intros K HK HKn. apply bind_halt in HK. destruct HK as [HK|(vs & s1 & _ & HK)]; [|exact (HKn vs s1 HK)].
      unfold operands in HK. apply bind_halt in HK. destruct HK as [HK|(L & s1 & _ & HK)].
      - refine (evals_no_halt ge [l; rr] _ f0 st c s HK). intros e0 [<-|[<-|[]]]; [exact (IHl Hpl) | exact (IHr Hpr)].
      - destruct (conflicts (map snd L)); discriminate. }
    assert (Hk : forall o' vs s1, match vs with
                   | [a; b] => int_of a (fun x => int_of b (fun y => match binop_ans o' x y with inr z => Ret (Vint z) s1 | inl u => Fail u end))
                   | _ => Fail (Unsupported "internal: operands") end <> Halt c s).
    { intros o' vs s1 Hh. destruct vs as [|a [|b [|? ?]]]; try discriminate.
      apply int_of_halt in Hh. destruct Hh as (x & Hh). apply int_of_halt in Hh. destruct Hh as (y & Hh).
      destruct (binop_ans o' x y); discriminate. }
    destruct o; [exact (Hgen _ H (Hk Plus)) | exact (Hgen _ H (Hk Minus)) | | | exact (Hgen _ H (Hk Eq)) | exact (Hgen _ H (Hk Ne))
                | exact (Hgen _ H (Hk Ls)) | exact (Hgen _ H (Hk Le)) | exact (Hgen _ H (Hk Gr)) | exact (Hgen _ H (Hk Ge))].
    + (* or *)
      apply bind_halt in H. destruct H as [H|(v & s1 & _ & H)]; [exact (IHl Hpl _ _ _ _ H)|].
      apply bool_of_halt in H. destruct H as (t & H). destruct t; [discriminate|].
      apply bind_halt in H. destruct H as [H|(w & s2 & _ & H)]; [exact (IHr Hpr _ _ _ _ H)|].
      apply bool_of_halt in H. destruct H as (t2 & H). discriminate.
    + (* and *)
      apply bind_halt in H. destruct H as [H|(v & s1 & _ & H)]; [exact (IHl Hpl _ _ _ _ H)|].
      apply bool_of_halt in H. destruct H as (t & H). destruct t; [|discriminate].
      apply bind_halt in H. destruct H as [H|(w & s2 & _ & H)]; [exact (IHr Hpr _ _ _ _ H)|].
      apply bool_of_halt in H. destruct H as (t2 & H). discriminate.
Qed.

(* operand lists of any length *)
Lemma evals_cons f ge e r st L s :
  evals f ge (e :: r) st = Ret L s ->
  exists f1 v sl L', f = S f1 /\ eval f1 ge e (set_cur st eff0) = Ret v sl /\
    evals f1 ge r (set_cur sl (eff_union (cur st) (cur sl))) = Ret L' s /\ L = (v, cur sl) :: L'.
Proof.
  destruct f as [|f1]; [discriminate|]. cbn [evals]. unfold evals_body at 1. intros H.
  apply rcase_ret in H. destruct H as [([v el] & s1 & H1 & H)|(c & s0 & _ & H)].
  2:{ destruct (forallb harmless r); discriminate. }
  apply with_eff_ret in H1. destruct H1 as (sl & Hl & -> & ->).
  apply rcase_ret in H. destruct H as [(L1 & s2 & H2 & H)|(c & s0 & _ & H)].
  2:{ cbn [snd] in H. destruct (e_io (cur sl)); discriminate. }
  inversion H; subst L s; clear H.
  exists f1, v, sl, L1. repeat split; assumption.
Qed.
(* the two operands of an operator when the right one is an expression without calls: the left one is evaluated first *)
Lemma operands_left_halt f ge l r st c s : pure r = true ->
  operands (evals f ge) [l; r] st = Halt c s -> exists f1, f = S f1 /\ eval f1 ge l (set_cur st eff0) = Halt c s.
Proof.
  intros Hp H. unfold operands in H. apply bind_halt in H. destruct H as [H|(L & s1 & _ & H)]; [|destruct (conflicts (map snd L)); discriminate].
  destruct f as [|f1]; [discriminate|]. exists f1. split; [reflexivity|]. cbn [evals evals_body] in H.
  apply rcase_halt in H. destruct H as [([v ef] & s1 & H1 & H)|(c0 & s0 & H1 & H)].
  - exfalso. apply rcase_halt in H. destruct H as [(L & s2 & _ & H)|(c1 & s2 & H2 & _)]; [discriminate|].
    refine (evals_no_halt ge [r] _ f1 s1 c1 s2 H2). intros e0 [<-|[]]. exact (pure_no_halt ge r Hp).
  - unfold with_eff in H1. apply rcase_halt in H1. destruct H1 as [(a0 & s2 & _ & H1)|(c1 & s2 & H1 & H1')]; [discriminate|].
    inversion H1'; subst c0 s0. destruct (forallb harmless [r]); [|discriminate]. inversion H; subst. exact H1.
Qed.
Lemma operands_first_halt f ge e r st c s : (forall x, In x r -> pure x = true) ->
  operands (evals f ge) (e :: r) st = Halt c s -> exists f1, f = S f1 /\ eval f1 ge e (set_cur st eff0) = Halt c s.
Proof.
  intros Hp H. unfold operands in H. apply bind_halt in H. destruct H as [H|(L & s1 & _ & H)]; [|destruct (conflicts (map snd L)); discriminate].
  destruct f as [|f1]; [discriminate|]. exists f1. split; [reflexivity|]. cbn [evals evals_body] in H.
  apply rcase_halt in H. destruct H as [([v ef] & s1 & H1 & H)|(c0 & s0 & H1 & H)].
  - exfalso. apply rcase_halt in H. destruct H as [(L & s2 & _ & H)|(c1 & s2 & H2 & _)]; [discriminate|].
    refine (evals_no_halt ge r _ f1 s1 c1 s2 H2). intros e0 Hin. exact (pure_no_halt ge e0 (Hp e0 Hin)).
  - unfold with_eff in H1. apply rcase_halt in H1. destruct H1 as [(a0 & s2 & _ & H1)|(c1 & s2 & H1 & H1')]; [discriminate|].
    inversion H1'; subst c0 s0. destruct (forallb harmless r); [|discriminate]. inversion H; subst. exact H1.
Qed.
Lemma operands_left_ret f ge l r st vs s : operands (evals f ge) [l; r] st = Ret vs s ->
  exists f1 vl sl f2 vr st2 sr, f = S f1 /\ eval f1 ge l (set_cur st eff0) = Ret vl sl /\
    same_store sl st2 /\ eval f2 ge r st2 = Ret vr sr /\ same_store sr s /\ vs = [vl; vr].
Proof.
  intros H. apply operands_ret in H. destruct H as (L & H & ->).
  destruct (evals_cons _ _ _ _ _ _ _ H) as (f1 & vl & sl & L' & -> & El & Er & ->).
  destruct (evals_one _ _ _ _ _ _ Er) as (f2 & vr & st2 & sr & S0 & E2 & HL & S1).
  exists f1, vl, sl, f2, vr, st2, sr. split; [reflexivity|]. split; [exact El|].
  split; [eapply same_store_trans; [apply same_store_set_cur | exact S0]|]. split; [exact E2|]. split; [exact S1|].
  cbn [map fst]. rewrite HL. reflexivity.
Qed.

Lemma evals_nil f ge st L s : evals f ge [] st = Ret L s -> L = [] /\ s = st.
Proof. destruct f; [discriminate|]. cbn [evals evals_body]. intros H. inversion H. split; reflexivity. Qed.
Lemma same_store_sym a b : same_store a b -> same_store b a.
Proof. intros (H1 & H2 & H3 & H4 & H5 & H6). repeat split; congruence. Qed.
