(* LoaderTrunc.v -- a binary whose debug tables are cut anywhere (a strict, non-empty prefix of the tables the
   assembler model writes) is rejected by the loader model: nothing of a damaged table is ever used. *)
From Coq Require Import ZArith List Lia Bool.
From HexVerif Require Import WMap Isa SimModel AsmModel AsmLayout Loader.
Import ListNotations.
Local Open Scope Z_scope.
Ltac Zify.zify_post_hook ::= Z.div_mod_to_equations.

Definition strings_bytes (names : list (list Z)) : list Z := flat_map (fun s => s ++ [0]) names.

Lemma take_cstring_no_nul : forall t, no_nul t -> take_cstring t = None.
Proof.
  induction t as [|b r IH]; intros H; [reflexivity|]. inversion H; subst. cbn [take_cstring].
  replace (b =? 0) with false by (symmetry; apply Z.eqb_neq; assumption). rewrite IH by assumption. reflexivity.
Qed.

Lemma no_nul_app_l a b : no_nul (a ++ b) -> no_nul a.
Proof. unfold no_nul. intros H. apply Forall_app in H. tauto. Qed.

(* a strict prefix of the string table *)
Lemma read_strings_cut : forall names fuel t y, Forall no_nul names -> y <> [] -> strings_bytes names = t ++ y ->
  read_strings fuel (Z.of_nat (List.length names)) t = None.
Proof.
  induction names as [|s names IH]; intros fuel t y Hn Hy E.
  - cbn in E. destruct t; destruct y; try discriminate. contradiction.
  - inversion Hn as [|? ? Hs Hr]; subst. cbn [List.length]. destruct fuel as [|f].
    + cbn [read_strings]. replace (Z.of_nat (S (List.length names)) <=? 0) with false by (symmetry; apply Z.leb_gt; lia). reflexivity.
    + cbn [read_strings]. replace (Z.of_nat (S (List.length names)) <=? 0) with false by (symmetry; apply Z.leb_gt; lia).
      unfold strings_bytes in E. cbn [flat_map] in E. fold (strings_bytes names) in E. rewrite <- app_assoc in E.
      apply app_eq_app in E. destruct E as [l [[E1 E2]|[E1 E2]]].
      * (* t is a prefix of s *)
        subst s. rewrite take_cstring_no_nul by (eapply no_nul_app_l; exact Hs). reflexivity.
      * (* t = s ++ l : l is a prefix of 0 :: strings *)
        subst t. destruct l as [|z l'].
        -- rewrite app_nil_r. rewrite take_cstring_no_nul by assumption. reflexivity.
        -- cbn [app] in E2. inversion E2; subst. rewrite take_cstring_app by assumption.
           replace (Z.of_nat (S (List.length names)) - 1) with (Z.of_nat (List.length names)) by lia.
           rewrite (IH f l' y Hr Hy H1). reflexivity.
Qed.

Lemma read32_short t : (List.length t < 4)%nat -> read32 t = None.
Proof. intros H. unfold read32. replace (4 <=? List.length t)%nat with false by (symmetry; apply Nat.leb_gt; exact H). reflexivity. Qed.

Lemma le32_cut v r t y : le32 v ++ r = t ++ y -> (List.length t < 4)%nat \/ exists t', t = le32 v ++ t' /\ r = t' ++ y.
Proof.
  intros E. destruct (Nat.ltb (List.length t) 4) eqn:L; [left; apply Nat.ltb_lt; exact L|right].
  apply Nat.ltb_ge in L. apply app_eq_app in E. destruct E as [l [[E1 E2]|[E1 E2]]].
  - (* le32 v = t ++ l with |t| >= 4: l = [] *)
    assert (H: List.length (le32 v) = 4%nat) by apply le32_length. rewrite E1, app_length in H.
    destruct l; [|cbn in H; lia]. rewrite app_nil_r in E1. cbn [app] in E2. exists []. rewrite app_nil_r. split; [symmetry; exact E1|rewrite E2; reflexivity].
  - exists l. split; assumption.
Qed.

(* a strict prefix of the symbol entries *)
Lemma read_symbols_cut : forall offs i strings fuel t y, y <> [] -> entries offs i = t ++ y ->
  read_symbols fuel (Z.of_nat (List.length offs)) strings t = None.
Proof.
  induction offs as [|o offs IH]; intros i strings fuel t y Hy E.
  - cbn in E. destruct t; destruct y; try discriminate. contradiction.
  - cbn [List.length]. destruct fuel as [|f]; cbn [read_symbols];
      replace (Z.of_nat (S (List.length offs)) <=? 0) with false by (symmetry; apply Z.leb_gt; lia); [reflexivity|].
    cbn [entries] in E. destruct (le32_cut _ _ _ _ E) as [Hs|(t1 & -> & E1)]; [rewrite read32_short by exact Hs; reflexivity|].
    rewrite read32_le32. destruct (le32_cut _ _ _ _ E1) as [Hs|(t2 & -> & E2)]; [rewrite read32_short by exact Hs; reflexivity|].
    rewrite read32_le32. destruct (if i mod W32 <? Z.of_nat (List.length strings) then nth_error strings (Z.to_nat (i mod W32)) else None); [|reflexivity].
    replace (Z.of_nat (S (List.length offs)) - 1) with (Z.of_nat (List.length offs)) by lia.
    rewrite (IH (i + 1) strings f t2 y Hy E2). reflexivity.
Qed.

(* the file the assembler model writes, with its tables cut anywhere *)
Theorem load_truncated_rejected (img : list Z) (names : list (list Z)) (offs : list Z) (t y : list Z) :
  let n := Z.of_nat (List.length img) in
  let k := Z.of_nat (List.length names) in
  n mod 4 = 0 -> n <= 800000 -> List.length names = List.length offs -> k < W32 -> Forall no_nul names ->
  le32 k ++ strings_bytes names ++ le32 k ++ entries offs 0 = t ++ y -> t <> [] -> y <> [] ->
  load_file (le32 (n / 4) ++ img ++ t) = None.
Proof.
  intros n k Hm Hn Hl Hk Hnul E Ht Hy. unfold load_file.
  assert (Hlt: (0 < List.length t)%nat) by (destruct t; [contradiction|cbn; lia]).
  replace (Z.of_nat (List.length (le32 (n / 4) ++ img ++ t)) <? 4) with false
    by (symmetry; apply Z.ltb_ge; rewrite !app_length, le32_length; lia).
  rewrite rd32_le32, skipn_le32. unfold W32 in *.
  assert (Hn0: 0 <= n) by (unfold n; lia).
  rewrite (Z.mod_small (n / 4)) by lia. replace (n / 4 * 4) with n by lia. rewrite (Z.mod_small n) by lia.
  replace (800000 <? n) with false by (symmetry; apply Z.ltb_ge; lia).
  replace (Z.to_nat n) with (List.length img) by (unfold n; lia).
  rewrite skipn_app, Nat.sub_diag, skipn_all, skipn_O. cbn [app].
  replace (n <? (Z.of_nat (List.length (le32 (n / 4) ++ img ++ t)) - 4 + 3) / 4 * 4) with true.
  2:{ symmetry. apply Z.ltb_lt. rewrite !app_length, le32_length. unfold n in *. lia. }
  destruct (le32_cut _ _ _ _ E) as [Hs|(t1 & -> & E1)]; [rewrite read32_short by exact Hs; reflexivity|].
  rewrite read32_le32. unfold W32. fold k. rewrite (Z.mod_small k) by (unfold k; lia).
  (* t1 ++ y = strings ++ le32 k ++ entries *)
  symmetry in E1. apply app_eq_app in E1. destruct E1 as [l [[E2 E3]|[E2 E3]]].
  - (* t1 = strings ++ l *)
    subst t1. unfold k at 1. rewrite read_strings_app; [|assumption|rewrite app_length; pose proof (flat_map_nul_length names); unfold strings_bytes; lia].
    destruct (le32_cut _ _ _ _ E3) as [Hs|(t2 & -> & E4)]; [rewrite read32_short by exact Hs; reflexivity|].
    rewrite read32_le32. unfold W32. fold k. rewrite (Z.mod_small k) by (unfold k; lia).
    unfold k. rewrite Hl. rewrite (read_symbols_cut offs 0 names _ t2 y Hy E4). reflexivity.
  - (* t1 is a strict prefix of the strings (l <> [] or y inside) *)
    destruct l as [|z l'].
    + (* t1 = strings exactly: the symbol count is missing *)
      rewrite app_nil_r in E2. subst t1. cbn [app] in E3. unfold k at 1.
      rewrite <- (app_nil_r (strings_bytes names)). rewrite read_strings_app; [|assumption|rewrite app_nil_r; pose proof (flat_map_nul_length names); unfold strings_bytes; lia].
      reflexivity.
    + unfold k at 1. rewrite (read_strings_cut names _ t1 (z :: l') Hnul ltac:(discriminate) E2). reflexivity.
Qed.
