(* RtlEquiv.v -- reflective comparison of two generated designs (Vexp.design).
   [design_eqb s d1 d2] normalises every expression of both designs under the substitution [s] (literals for
   chosen inputs) and compares the normal forms syntactically; [design_eqb_sound] lifts a [true] result to
   equality of all outputs, next-state functions, cut wires and memory writes in every environment that
   agrees with [s].  [proc_equiv_check] enumerates the 256 instruction bytes x 2 reset values. *)
From Coq Require Import ZArith Lia Bool List String.
From HexVerif Require Import Vexp.
Import ListNotations.
Local Open Scope Z_scope.
Local Open Scope string_scope.


Definition exp_ok (s : string -> option Z) (a b : vexp) : bool := veqb (norm s a) (norm s b).

Fixpoint pairs_ok (s : string -> option Z) (l1 l2 : list (string * vexp)) : bool :=
  match l1, l2 with
  | [], [] => true
  | (n1, a) :: r1, (n2, b) :: r2 => String.eqb n1 n2 && exp_ok s a b && pairs_ok s r1 r2
  | _, _ => false
  end.
Fixpoint writes_ok (s : string -> option Z) (l1 l2 : list (string * (vexp * (vexp * vexp)))) : bool :=
  match l1, l2 with
  | [], [] => true
  | (n1, (e1, (a1, d1))) :: r1, (n2, (e2, (a2, d2))) :: r2 =>
      String.eqb n1 n2 && exp_ok s e1 e2 && exp_ok s a1 a2 && exp_ok s d1 d2 && writes_ok s r1 r2
  | _, _ => false
  end.
Fixpoint strs_eqb (l1 l2 : list string) : bool :=
  match l1, l2 with [], [] => true | a :: r1, b :: r2 => String.eqb a b && strs_eqb r1 r2 | _, _ => false end.
Fixpoint clocking_eqb (l1 l2 : list (string * list string)) : bool :=
  match l1, l2 with
  | [], [] => true
  | (n1, e1) :: r1, (n2, e2) :: r2 => String.eqb n1 n2 && strs_eqb e1 e2 && clocking_eqb r1 r2
  | _, _ => false
  end.
Lemma strs_eqb_sound l1 : forall l2, strs_eqb l1 l2 = true -> l1 = l2.
Proof.
  induction l1 as [|a r IH]; destruct l2 as [|b r2]; simpl; try discriminate; auto.
  intros H. apply andb_prop in H. destruct H as [H1 H2]. apply String.eqb_eq in H1. subst. f_equal. apply IH. exact H2.
Qed.
Lemma clocking_eqb_sound l1 : forall l2, clocking_eqb l1 l2 = true -> l1 = l2.
Proof.
  induction l1 as [|[n1 e1] r IH]; destruct l2 as [|[n2 e2] r2]; simpl; try discriminate; auto.
  intros H. apply andb_prop in H. destruct H as [H H3]. apply andb_prop in H. destruct H as [H1 H2].
  apply String.eqb_eq in H1. apply strs_eqb_sound in H2. subst. f_equal. apply IH. exact H3.
Qed.

Definition design_eqb (s : string -> option Z) (d1 d2 : design) : bool :=
  pairs_ok s (outputs d1) (outputs d2) && pairs_ok s (next d1) (next d2) &&
  pairs_ok s (wires d1) (wires d2) && writes_ok s (mem_writes d1) (mem_writes d2) && clocking_eqb (clocking d1) (clocking d2).

Definition same_at (e : env) (d1 d2 : design) : Prop :=
  map (evalp e) (outputs d1) = map (evalp e) (outputs d2) /\
  map (evalp e) (next d1) = map (evalp e) (next d2) /\
  map (evalp e) (wires d1) = map (evalp e) (wires d2) /\
  map (evalw e) (mem_writes d1) = map (evalw e) (mem_writes d2).

Lemma exp_ok_sound e s a b : agrees e s -> exp_ok s a b = true -> eval e a = eval e b.
Proof.
  intros A H. unfold exp_ok in H. apply veqb_sound in H.
  rewrite <- (norm_sound e s a A), <- (norm_sound e s b A). congruence.
Qed.

Lemma pairs_ok_sound e s : agrees e s -> forall l1 l2, pairs_ok s l1 l2 = true -> map (evalp e) l1 = map (evalp e) l2.
Proof.
  intros A. induction l1 as [|[n1 a] r1 IH]; destruct l2 as [|[n2 b] r2]; simpl; try discriminate; auto.
  intros H. apply andb_prop in H. destruct H as [H H3]. apply andb_prop in H. destruct H as [H1 H2].
  apply String.eqb_eq in H1. subst n2. unfold evalp at 1 3. cbn [fst snd].
  rewrite (exp_ok_sound e s a b A H2). f_equal. apply IH. exact H3.
Qed.

Lemma writes_ok_sound e s : agrees e s -> forall l1 l2, writes_ok s l1 l2 = true -> map (evalw e) l1 = map (evalw e) l2.
Proof.
  intros A. induction l1 as [|[n1 [e1 [a1 d1]]] r1 IH]; destruct l2 as [|[n2 [e2 [a2 d2]]] r2]; simpl; try discriminate; auto.
  intros H. repeat (apply andb_prop in H; let H' := fresh "H" in destruct H as [H H']).
  apply String.eqb_eq in H. subst n2. unfold evalw at 1 3. cbn [fst snd].
  rewrite (exp_ok_sound e s e1 e2 A), (exp_ok_sound e s a1 a2 A), (exp_ok_sound e s d1 d2 A) by assumption.
  f_equal. apply IH. assumption.
Qed.

(* the clocked blocks of the two designs have the same sensitivity lists (register by register, array by array) *)
Theorem design_eqb_clocking s d1 d2 : design_eqb s d1 d2 = true -> clocking d1 = clocking d2.
Proof. intros H. unfold design_eqb in H. apply andb_prop in H. destruct H as [_ H]. apply clocking_eqb_sound. exact H. Qed.

Theorem design_eqb_sound e s d1 d2 : agrees e s -> design_eqb s d1 d2 = true -> same_at e d1 d2.
Proof.
  intros A H. unfold design_eqb in H. apply andb_prop in H. destruct H as [H _]. repeat (apply andb_prop in H; let H' := fresh "H" in destruct H as [H H']).
  unfold same_at. repeat split; [eapply pairs_ok_sound | eapply pairs_ok_sound | eapply pairs_ok_sound | eapply writes_ok_sound]; eauto.
Qed.

(* ------------------------------------------------------------------ all instruction bytes x both reset values *)
Definition bytes256 : list Z := map Z.of_nat (seq 0 256).
Lemma in_bytes256 k : 0 <= k < 256 -> In k bytes256.
Proof. intros H. unfold bytes256. replace k with (Z.of_nat (Z.to_nat k)) by lia. apply in_map. apply in_seq. lia. Qed.

Definition sub2 (fdata rst : string) (k r : Z) : string -> option Z :=
  fun v => if String.eqb v fdata then Some k else if String.eqb v rst then Some r else None.
Lemma sub2_agrees e fdata rst k r : var e fdata = k -> var e rst = r -> agrees e (sub2 fdata rst k r).
Proof.
  intros Hk Hr v n. unfold sub2. destruct (String.eqb v fdata) eqn:E1.
  - apply String.eqb_eq in E1. subst v. congruence.
  - destruct (String.eqb v rst) eqn:E2; [|discriminate]. apply String.eqb_eq in E2. subst v. congruence.
Qed.

Definition proc_equiv_check (d1 d2 : design) : bool :=
  forallb (fun k => forallb (fun r => design_eqb (sub2 "i_f_data" "i_rst" k r) d1 d2) [0; 1]) bytes256.

Theorem proc_equiv_check_sound d1 d2 : proc_equiv_check d1 d2 = true ->
  forall e, 0 <= var e "i_f_data" < 256 -> (var e "i_rst" = 0 \/ var e "i_rst" = 1) -> same_at e d1 d2.
Proof.
  intros H e Hk Hr. unfold proc_equiv_check in H.
  rewrite forallb_forall in H. specialize (H _ (in_bytes256 _ Hk)). rewrite forallb_forall in H.
  assert (In (var e "i_rst") [0; 1]) as Hin by (simpl; destruct Hr; auto).
  specialize (H _ Hin). eapply design_eqb_sound; [|exact H]. apply sub2_agrees; reflexivity.
Qed.

Theorem proc_equiv_check_clocking d1 d2 : proc_equiv_check d1 d2 = true -> clocking d1 = clocking d2.
Proof.
  intros H. unfold proc_equiv_check in H. rewrite forallb_forall in H.
  specialize (H 0 (in_bytes256 0 ltac:(lia))). rewrite forallb_forall in H. specialize (H 0 (or_introl eq_refl)).
  exact (design_eqb_clocking _ _ _ H).
Qed.

(* diagnosis for the checks: the (byte, reset, signal) triples whose normal forms differ *)
Fixpoint pairs_diff (s : string -> option Z) (l1 l2 : list (string * vexp)) : list string :=
  match l1, l2 with
  | [], [] => []
  | (n1, a) :: r1, (n2, b) :: r2 =>
      ((if String.eqb n1 n2 && exp_ok s a b then [] else [n1]) ++ pairs_diff s r1 r2)%list
  | (n1, _) :: _, [] => [n1]
  | [], (n2, _) :: _ => [n2]
  end.
Definition proc_equiv_failures (d1 d2 : design) : list (Z * (Z * list string)) :=
  flat_map (fun k => flat_map (fun r =>
    let s := sub2 "i_f_data" "i_rst" k r in
    match (pairs_diff s (outputs d1) (outputs d2) ++ pairs_diff s (next d1) (next d2))%list with
    | [] => if design_eqb s d1 d2 then [] else [(k, (r, [if clocking_eqb (clocking d1) (clocking d2) then "wires/mem_writes" else "clocking (sensitivity lists)"]))]
    | l => [(k, (r, l))]
    end) [0; 1]) bytes256.
