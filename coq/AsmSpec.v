(* AsmSpec.v -- WHAT an assembled image must satisfy (C05, C15, C17), as executable validators over the image
   bytes.  Spec artefact: nothing here mentions how hexasm lays a program out; `decode` is the ISA's own
   operand-accumulation rule (IsaDecode-style restatement of Isa.step for PFIX/NFIX chains, proved in
   AsmSpecProofs.v to agree with Isa.step).  The same extracted functions judge the REAL assembler's output
   on every run (direct oracle) and are the statement of the theorems about the model (Properties_C05/C17). *)
From Coq Require Import ZArith List String Bool.
From HexVerif Require Import WMap Isa AsmModel.
Import ListNotations.
Local Open Scope Z_scope.

(* image as a byte map *)
Fixpoint bytes_map_go (l : list Z) (i : Z) (m : WMap.t) : WMap.t :=
  match l with [] => m | b :: r => bytes_map_go r (i + 1) (WMap.wr m i b) end.
Definition bytes_map (l : list Z) : WMap.t := bytes_map_go l 0 WMap.zero.

(* the ISA's operand rule: oreg after a prefix byte (hexb.pdf p.8: PFIX, NFIX) *)
Definition prefix_oreg (oreg byte : Z) : Z :=
  let o := Z.lor oreg (byte mod 16) in
  if byte / 16 =? 14 then wrap (o * 16) else Z.lor 4294967040 (wrap (o * 16)).

(* decode one instruction starting at `pos` with a clear operand register:
   returns (opcode nibble, operand delivered to it, position of the next instruction) *)
Fixpoint decode_go (fuel : nat) (img : WMap.t) (pos oreg : Z) : option (Z * Z * Z) :=
  match fuel with
  | O => None
  | S f =>
      let b := rd img pos in
      if (b / 16 =? 14) || (b / 16 =? 15) then decode_go f img (pos + 1) (prefix_oreg oreg b)
      else Some (b / 16, Z.lor oreg (b mod 16), pos + 1)
  end.
Definition decode (img : WMap.t) (pos : Z) : option (Z * Z * Z) := decode_go 16 img pos 0.

Definition word_at (img : WMap.t) (pos : Z) : Z :=
  rd img pos + 256 * rd img (pos + 1) + 65536 * rd img (pos + 2) + 16777216 * rd img (pos + 3).

Fixpoint all_zero (img : WMap.t) (pos : Z) (n : nat) : bool :=
  match n with O => true | S k => (rd img pos =? 0) && all_zero img (pos + 1) k end.

Definition up4 (p : Z) : Z := if p mod 4 =? 0 then p else p + (4 - p mod 4).

(* is the directive list, from here, a (possibly empty) run of labels followed by DATA? *)
Fixpoint run_then_data (l : list directive) : bool :=
  match l with DLabel _ _ :: r => run_then_data r | DData _ :: _ => true | _ => false end.

(* one placed directive: where its encoding starts, how many bytes it occupies, the operand it carries *)
Record placed := { p_dir : directive; p_start : Z; p_size : Z; p_operand : Z }.

(* Walk the program in source order over the image: every directive must be found at the current position
   (DATA and a label naming it after zero alignment padding), encoded as the ISA decodes it. *)
Fixpoint walk (l : list directive) (img : WMap.t) (pos : Z) : option (list placed * Z) :=
  match l with
  | [] => Some ([], pos)
  | d :: rest =>
      match d with
      | DLabel _ _ =>
          let pos' := if run_then_data l then up4 pos else pos in
          if all_zero img pos (Z.to_nat (pos' - pos)) then
            match walk rest img pos' with
            | Some (ps, e) => Some ({| p_dir := d; p_start := pos'; p_size := 0; p_operand := 0 |} :: ps, e)
            | None => None
            end
          else None
      | DData v =>
          let pos' := up4 pos in
          if all_zero img pos (Z.to_nat (pos' - pos)) && (word_at img pos' =? v mod 4294967296) then
            match walk rest img (pos' + 4) with
            | Some (ps, e) => Some ({| p_dir := d; p_start := pos'; p_size := 4; p_operand := v |} :: ps, e)
            | None => None
            end
          else None
      | DImm t v =>
          match decode img pos, token_opc t with
          | Some (opc, o, nxt), Some c =>
              if (opc =? c) && (o =? v mod 4294967296) then
                match walk rest img nxt with
                | Some (ps, e) => Some ({| p_dir := d; p_start := pos; p_size := nxt - pos; p_operand := o |} :: ps, e)
                | None => None
                end
              else None
          | _, _ => None
          end
      | DRef t _ _ =>
          match decode img pos, token_opc t with
          | Some (opc, o, nxt), Some c =>
              if opc =? c then
                match walk rest img nxt with
                | Some (ps, e) => Some ({| p_dir := d; p_start := pos; p_size := nxt - pos; p_operand := o |} :: ps, e)
                | None => None
                end
              else None
          | _, _ => None
          end
      | DOpr t =>
          match opr_opc t with
          | Some k =>
              if rd img pos =? 13 * 16 + k then
                match walk rest img (pos + 1) with
                | Some (ps, e) => Some ({| p_dir := d; p_start := pos; p_size := 1; p_operand := k |} :: ps, e)
                | None => None
                end
              else None
          | None => None
          end
      | DPadding _ => None     (* not a source directive *)
      end
  end.

(* the position of the LAST label with this name *)
Fixpoint label_pos (name : string) (ps : list placed) (acc : option Z) : option Z :=
  match ps with
  | [] => acc
  | p :: r => label_pos name r (match p_dir p with
                                | DLabel _ n => if String.eqb n name then Some (p_start p) else acc
                                | _ => acc end)
  end.

(* every reference refers to its label: relative forms reach it from the byte after the instruction (mod 2^32),
   absolute forms carry its word address and the label is on a word boundary *)
Definition ref_ok (all : list placed) (p : placed) : bool :=
  match p_dir p with
  | DRef _ name rel =>
      match label_pos name all None with
      | None => false
      | Some lp =>
          if rel then wrap (p_start p + p_size p + p_operand p) =? lp
          else (lp mod 4 =? 0) && (p_operand p =? lp / 4)
      end
  | _ => true
  end.

(* C05 on an image: directives found in source order without overlap (walk), DATA aligned and named by the
   label before it (walk), every reference reaches its label (ref_ok), nothing but zero padding up to the end,
   image length a multiple of 4 and equal to 4 * header word. *)
Definition check_image (prog : list directive) (image : list Z) (header_words : Z) : bool :=
  let img := bytes_map image in
  let len := Z.of_nat (List.length image) in
  match walk prog img 0 with
  | None => false
  | Some (ps, e) =>
      forallb (ref_ok ps) ps && (e <=? len) && (len =? up4 e) && all_zero img e (Z.to_nat (len - e))
      && (header_words * 4 =? len)
  end.

(* C15 (symbol table half): the symbols are exactly the FUNC/PROC directives, once each, in order, each with
   the byte offset of the first instruction byte emitted after it *)
Fixpoint expected_syms (ps : list placed) : list (string * Z) :=
  match ps with
  | [] => []
  | p :: r => match p_dir p with
              | DLabel LFunc n | DLabel LProc n => (n, p_start p) :: expected_syms r
              | _ => expected_syms r
              end
  end.
Fixpoint syms_eqb (a b : list (string * Z)) : bool :=
  match a, b with
  | [], [] => true
  | (n1, o1) :: r1, (n2, o2) :: r2 => String.eqb n1 n2 && (o1 =? o2) && syms_eqb r1 r2
  | _, _ => false
  end.
Definition check_symtab (prog : list directive) (image : list Z) (syms : list (string * Z)) : bool :=
  match walk prog (bytes_map image) 0 with
  | None => false
  | Some (ps, _) => syms_eqb (expected_syms ps) syms
  end.

(* C17: a listing line as a reader sees it *)
Inductive lline :=
| LInstr (off : Z) (opc : Z) (operand : Z) (size : Z)     (* mnemonic -> opcode; operand = number printed (int) *)
| LOpr (off : Z) (k : Z) (size : Z)
| LData (off : Z) (v : Z) (size : Z)
| LLabel (off : Z) (size : Z)
| LPadding (size : Z).                                     (* the trailing PADDING line (its offset column is not meaningful) *)

(* decoding the binary at the listed offsets finds exactly the listed instructions and data, in the listed
   order, with nothing but zeros in between and after *)
Fixpoint check_lines (ls : list lline) (img : WMap.t) (pos : Z) (len : Z) : bool :=
  match ls with
  | [] => (pos <=? len) && all_zero img pos (Z.to_nat (len - pos))
  | l :: rest =>
      match l with
      | LInstr off opc v size =>
          (pos <=? off) && all_zero img pos (Z.to_nat (off - pos)) &&
          match decode img off with
          | Some (c, o, nxt) => (c =? opc) && (o =? v mod 4294967296) && (nxt - off =? size) && check_lines rest img nxt len
          | None => false
          end
      | LOpr off k size =>
          (pos <=? off) && all_zero img pos (Z.to_nat (off - pos)) && (size =? 1) && (rd img off =? 13 * 16 + k)
          && check_lines rest img (off + 1) len
      | LData off v size =>
          (pos <=? off) && all_zero img pos (Z.to_nat (off - pos)) && (size =? 4) && (off mod 4 =? 0)
          && (word_at img off =? v mod 4294967296) && check_lines rest img (off + 4) len
      | LLabel off size => (size =? 0) && (pos <=? off) && all_zero img pos (Z.to_nat (off - pos)) && check_lines rest img off len
      | LPadding size => (pos + size =? len) && all_zero img pos (Z.to_nat size) && check_lines rest img (pos + size) len
      end
  end.
Definition check_listing (ls : list lline) (image : list Z) : bool :=
  check_lines ls (bytes_map image) 0 (Z.of_nat (List.length image)).
