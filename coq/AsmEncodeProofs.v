(* AsmEncodeProofs.v -- C04: the bytes AsmLayout.emit_instr produces for an operand, decoded by the ISA's operand
   rule (AsmSpec.decode_go), deliver exactly that operand (mod 2^32) to the instruction -- for every int value and
   every admissible encoding length (the natural one and the padded ones label resolution plans). *)
From Coq Require Import ZArith Lia Bool List.
From HexVerif Require Import WMap Isa AsmModel AsmLayout AsmSpec.
Import ListNotations.
Local Open Scope Z_scope.

Ltac Zify.zify_post_hook ::= Z.div_mod_to_equations.

Definition int_range (v : Z) : Prop := - 2147483648 <= v < 2147483648.

(* an encoding length s is admissible for v *)
Definition size_ok (v s : Z) : Prop :=
  1 <= s <= 8 /\ (0 <= v -> v < 16 ^ s) /\ (v < 0 -> 2 <= s /\ - 16 ^ s <= v).

Definition at_bytes (img : WMap.t) (pos : Z) (bs : list Z) : Prop :=
  forall i, (i < length bs)%nat -> rd img (pos + Z.of_nat i) = nth i bs 0.

Lemma at_bytes_cons img pos b bs : at_bytes img pos (b :: bs) -> rd img pos = b /\ at_bytes img (pos + 1) bs.
Proof.
  intros H. split.
  - specialize (H 0%nat). cbn in H. rewrite Z.add_0_r in H. apply H. lia.
  - intros i Hi. specialize (H (S i)). cbn [length nth] in H. rewrite <- H by lia. f_equal. lia.
Qed.

(* --- bit facts --- *)
Lemma lor_add_aligned k a b : 0 <= k -> 0 <= a -> a mod 2 ^ k = 0 -> 0 <= b < 2 ^ k -> Z.lor a b = a + b.
Proof.
  intros Hk Ha Hm Hb.
  assert (HL: Z.land a b = 0).
  { apply Z.bits_inj'. intros i Hi. rewrite Z.land_spec, Z.bits_0.
    destruct (Z.ltb_spec i k).
    - assert (Z.testbit a i = false) as ->; [|reflexivity].
      assert (a = (a / 2 ^ k) * 2 ^ k) as ->.
      { pose proof (Z.div_mod a (2 ^ k)). assert (2 ^ k <> 0) by (apply Z.pow_nonzero; lia). lia. }
      apply Z.mul_pow2_bits_low; auto.
    - assert (Z.testbit b i = false) as ->; [|apply andb_false_r].
      destruct (Z.eq_dec b 0); [subst; apply Z.bits_0|].
      apply Z.bits_above_log2; try lia.
      assert (Z.log2 b < k); [|lia]. apply Z.log2_lt_pow2; lia. }
  rewrite Z.add_nocarry_lxor by exact HL.
  apply Z.bits_inj'. intros i Hi. rewrite Z.lor_spec, Z.lxor_spec.
  assert (Z.testbit (Z.land a b) i = false) by (rewrite HL; apply Z.bits_0).
  rewrite Z.land_spec in H. destruct (Z.testbit a i), (Z.testbit b i); simpl in *; congruence.
Qed.

Lemma pow16_succ k : 0 <= k -> 16 ^ (k + 1) = 16 * 16 ^ k.
Proof. intros. rewrite Z.pow_add_r by lia. lia. Qed.
Lemma pow16_pos k : 0 <= k -> 0 < 16 ^ k. Proof. intros. apply Z.pow_pos_nonneg; lia. Qed.

(* target oreg after the prefix carrying nibble i *)
Definition T (v i : Z) : Z := ((v / 16 ^ i) * 16) mod W.
Lemma T_range v i : 0 <= T v i < W /\ T v i mod 16 = 0.
Proof. unfold T, W. split. apply Z.mod_pos_bound; lia.
  set (q := v / 16 ^ i). clearbody q. lia. Qed.

Lemma div_step v i : 0 <= i -> v / 16 ^ i = 16 * (v / 16 ^ (i + 1)) + nib v i.
Proof. intros. unfold nib. rewrite pow16_succ by lia. rewrite (Z.mul_comm 16 (16 ^ i)).
  rewrite <- Z.div_div by (try apply pow16_pos; lia).
  pose proof (Z.div_mod (v / 16 ^ i) 16). lia. Qed.

Lemma nib_range v i : 0 <= nib v i < 16. Proof. unfold nib. apply Z.mod_pos_bound. lia. Qed.

Lemma byte_split c n : 0 <= c < 16 -> 0 <= n < 16 -> (c * 16 + n) / 16 = c /\ (c * 16 + n) mod 16 = n.
Proof. intros. lia. Qed.

Lemma pfix_step v i : 0 <= i -> prefix_oreg (T v (i + 1)) (PFIX * 16 + nib v i) = T v i.
Proof.
  intros Hi. unfold prefix_oreg, PFIX. pose proof (nib_range v i) as Hn. pose proof (T_range v (i + 1)) as [Ht Ha].
  destruct (byte_split 14 (nib v i) ltac:(lia) Hn) as [E1 E2]. rewrite E1, E2.
  cbn [Z.eqb Pos.eqb]. rewrite (lor_add_aligned 4) by (change (2 ^ 4) with 16; lia).
  unfold T, wrap. rewrite (div_step v i Hi). set (q := v / 16 ^ (i + 1)). set (n := nib v i). clearbody q n. unfold W.
  rewrite <- (Zmult_mod_idemp_l ((q * 16) mod 4294967296 + n) 16 4294967296).
  rewrite Zplus_mod_idemp_l. rewrite Zmult_mod_idemp_l. f_equal. ring.
Qed.

Lemma nfix_first v s : 2 <= s -> - 16 ^ s <= v < 0 ->
  prefix_oreg 0 (NFIX * 16 + nib v (s - 1)) = T v (s - 1).
Proof.
  intros Hs Hv. unfold prefix_oreg, NFIX. pose proof (nib_range v (s - 1)) as Hn.
  destruct (byte_split 15 (nib v (s - 1)) ltac:(lia) Hn) as [E1 E2]. rewrite E1, E2.
  cbn [Z.eqb Pos.eqb]. rewrite Z.lor_0_l.
  assert (Hp: 0 < 16 ^ (s - 1)) by (apply pow16_pos; lia).
  assert (Hneg: v / 16 ^ (s - 1) < 0) by (apply Z.div_lt_upper_bound; lia).
  assert (Hq: - 16 <= v / 16 ^ (s - 1)).
  { apply Z.div_le_lower_bound; [lia|]. replace s with ((s - 1) + 1) in Hv by lia. rewrite pow16_succ in Hv by lia. lia. }
  unfold T, nib, wrap in *. set (q := v / 16 ^ (s - 1)) in *. clearbody q. unfold W.
  assert (Hqm: q mod 16 = q + 16) by lia.
  rewrite Hqm in *.
  rewrite (Z.mod_small ((q + 16) * 16)) by lia.
  rewrite (lor_add_aligned 8) by (change (2 ^ 8) with 256; try reflexivity; lia).
  lia.
Qed.

Lemma pfix_first v s : 2 <= s -> 0 <= v < 16 ^ s ->
  prefix_oreg 0 (PFIX * 16 + nib v (s - 1)) = T v (s - 1).
Proof.
  intros Hs Hv. unfold prefix_oreg, PFIX. pose proof (nib_range v (s - 1)) as Hn.
  destruct (byte_split 14 (nib v (s - 1)) ltac:(lia) Hn) as [E1 E2]. rewrite E1, E2.
  cbn [Z.eqb Pos.eqb]. rewrite Z.lor_0_l. unfold T, nib, wrap.
  assert (0 <= v / 16 ^ (s - 1) < 16).
  { split. apply Z.div_pos; [lia | apply pow16_pos; lia].
    apply Z.div_lt_upper_bound; [apply pow16_pos; lia|]. replace s with ((s - 1) + 1) in Hv by lia. rewrite pow16_succ in Hv by lia. lia. }
  rewrite (Z.mod_small (v / 16 ^ (s - 1)) 16) by lia. reflexivity.
Qed.

(* the last byte: instruction opcode with the low nibble *)
Lemma last_byte opc v : 0 <= opc < 14 -> byte (opc mod 16 * 16 + nib v 0) = opc * 16 + nib v 0.
Proof. intros Ho. pose proof (nib_range v 0). unfold byte. rewrite (Z.mod_small opc 16) by lia. apply Z.mod_small. lia. Qed.

Lemma decode_go_S f img pos oreg :
  decode_go (S f) img pos oreg =
  if (rd img pos / 16 =? 14) || (rd img pos / 16 =? 15) then decode_go f img (pos + 1) (prefix_oreg oreg (rd img pos))
  else Some (rd img pos / 16, Z.lor oreg (rd img pos mod 16), pos + 1).
Proof. reflexivity. Qed.

Lemma last_step f img pos opc v : 0 <= opc < 14 ->
  rd img pos = opc * 16 + nib v 0 ->
  decode_go (S f) img pos (T v 1) = Some (opc, v mod W, pos + 1).
Proof.
  intros Ho Hb. rewrite decode_go_S. rewrite Hb. pose proof (nib_range v 0) as Hn. pose proof (T_range v 1) as [Ht Ha].
  destruct (byte_split opc (nib v 0) ltac:(lia) Hn) as [E1 E2]. rewrite E1, E2.
  replace ((opc =? 14) || (opc =? 15)) with false by (symmetry; apply orb_false_intro; apply Z.eqb_neq; lia).
  f_equal. f_equal. f_equal. rewrite (lor_add_aligned 4) by (change (2 ^ 4) with 16; lia).
  unfold T in *. pose proof (div_step v 0 ltac:(lia)) as D. change (16 ^ 0) with 1 in D. rewrite Z.div_1_r in D. change (0 + 1) with 1 in D.
  set (q := v / 16 ^ 1) in *. set (n := nib v 0) in *. clearbody q n. unfold W in *.
  rewrite D. rewrite <- (Zplus_mod_idemp_l (16 * q) n). replace (16 * q) with (q * 16) by ring.
  symmetry. apply Z.mod_small. set (x := (q * 16) mod 4294967296) in *. clearbody x. lia.
Qed.

Lemma mid_steps img opc v : 0 <= opc < 14 -> forall (j : nat) f pos,
  at_bytes img pos (mid_prefixes v j ++ [opc * 16 + nib v 0]) ->
  decode_go (S (j + f)) img pos (T v (Z.of_nat j + 1)) = Some (opc, v mod W, pos + Z.of_nat j + 1).
Proof.
  intros Ho. induction j as [|j IH]; intros f pos Hb.
  - cbn [mid_prefixes app] in Hb. apply at_bytes_cons in Hb. destruct Hb as [Hb _].
    change (Z.of_nat 0 + 1) with 1. rewrite Z.add_0_r. apply last_step; assumption.
  - cbn [mid_prefixes app] in Hb. apply at_bytes_cons in Hb. destruct Hb as [Hb Hrest].
    change (S (S j + f)) with (S (S (j + f))). rewrite decode_go_S. rewrite Hb.
    pose proof (nib_range v (Z.of_nat (S j))) as Hn.
    destruct (byte_split 14 (nib v (Z.of_nat (S j))) ltac:(lia) Hn) as [E1 E2]. unfold PFIX. rewrite E1.
    cbn [Z.eqb Pos.eqb orb].
    replace (Z.of_nat (S j) + 1) with (Z.of_nat (S j) + 1) by reflexivity.
    change (14 * 16 + nib v (Z.of_nat (S j))) with (PFIX * 16 + nib v (Z.of_nat (S j))).
    rewrite pfix_step by lia.
    replace (Z.of_nat (S j)) with (Z.of_nat j + 1) by lia.
    specialize (IH f (pos + 1) Hrest). rewrite IH. f_equal. f_equal. lia.
Qed.

Lemma length_mid v j : length (mid_prefixes v j) = j.
Proof. induction j; cbn [mid_prefixes length]; congruence. Qed.

Lemma emit_length opc v s : 1 <= s -> Z.of_nat (length (emit_instr opc v s)) = s.
Proof.
  intros Hs. unfold emit_instr. rewrite !app_length, length_mid. cbn [length].
  destruct (1 <? s) eqn:E; cbn [length]; [apply Z.ltb_lt in E | apply Z.ltb_ge in E]; lia.
Qed.

(* the central theorem of C04: any admissible length decodes to the operand *)
Theorem emit_decode img pos opc v s : 0 <= opc < 14 -> size_ok v s ->
  at_bytes img pos (emit_instr opc v s) ->
  decode img pos = Some (opc, v mod W, pos + s).
Proof.
  intros Ho [[S1 S2] [Sp Sn]] Hb. unfold decode, emit_instr in *. rewrite last_byte in Hb by assumption.
  destruct (1 <? s) eqn:E1; [apply Z.ltb_lt in E1 | apply Z.ltb_ge in E1].
  - cbn [app] in Hb. apply at_bytes_cons in Hb. destruct Hb as [Hb Hrest].
    assert (F: prefix_oreg 0 ((if v <? 0 then NFIX else PFIX) * 16 + nib v (s - 1)) = T v (s - 1)).
    { destruct (v <? 0) eqn:En; [apply Z.ltb_lt in En | apply Z.ltb_ge in En].
      - destruct (Sn En) as [A B]. apply nfix_first; lia.
      - apply pfix_first; [lia|]. split; [lia|]. apply Sp; lia. }
    change 16%nat with (S 15). rewrite decode_go_S. rewrite Hb.
    pose proof (nib_range v (s - 1)) as Hn.
    assert (Hpre: (((if v <? 0 then NFIX else PFIX) * 16 + nib v (s - 1)) / 16 =? 14) || (((if v <? 0 then NFIX else PFIX) * 16 + nib v (s - 1)) / 16 =? 15) = true).
    { destruct (v <? 0); unfold NFIX, PFIX.
      - destruct (byte_split 15 (nib v (s - 1)) ltac:(lia) Hn) as [E _]. rewrite E. reflexivity.
      - destruct (byte_split 14 (nib v (s - 1)) ltac:(lia) Hn) as [E _]. rewrite E. reflexivity. }
    rewrite Hpre, F.
    set (j := Z.to_nat (s - 2)) in *.
    replace (s - 1) with (Z.of_nat j + 1) by (unfold j; lia).
    replace 15%nat with (S (j + (14 - j)))%nat by (unfold j; lia).
    rewrite (mid_steps img opc v Ho j (14 - j)%nat (pos + 1) Hrest). f_equal. f_equal. unfold j. lia.
  - assert (s = 1) by lia. subst s. change (Z.to_nat (1 - 2)) with 0%nat in Hb. cbn [mid_prefixes app] in Hb.
    apply at_bytes_cons in Hb. destruct Hb as [Hb _].
    assert (0 <= v) by (destruct (Z.lt_ge_cases v 0) as [L|L]; [destruct (Sn L); lia | lia]).
    specialize (Sp H). change (16 ^ 1) with 16 in Sp.
    change 16%nat with (S 15). rewrite decode_go_S. rewrite Hb. pose proof (nib_range v 0) as Hn.
    destruct (byte_split opc (nib v 0) ltac:(lia) Hn) as [E1' E2]. rewrite E1', E2.
    replace ((opc =? 14) || (opc =? 15)) with false by (symmetry; apply orb_false_intro; apply Z.eqb_neq; lia).
    rewrite Z.lor_0_l. unfold nib. change (16 ^ 0) with 1. rewrite Z.div_1_r. rewrite Z.mod_small by lia.
    unfold W. rewrite Z.mod_small by lia. reflexivity.
Qed.

(* --- the natural size is admissible --- *)
Lemma nn_loop_spec : forall fuel m n, 0 < m -> m < 16 ^ (Z.of_nat fuel + 1) ->
  let r := nn_loop fuel m n in n <= r /\ 16 ^ (r - n) <= m < 16 ^ (r - n + 1).
Proof.
  induction fuel as [|f IH]; intros m n Hm Hb; cbn [nn_loop].
  - change (Z.of_nat 0 + 1) with 1 in Hb. replace (n - n) with 0 by lia. change (16 ^ 0) with 1. change (16 ^ (0 + 1)) with 16 in *. lia.
  - destruct (16 <=? m) eqn:E.
    + apply Z.leb_le in E.
      assert (Hd: 0 < m / 16) by (apply Z.div_str_pos; lia).
      assert (Hb': m / 16 < 16 ^ (Z.of_nat f + 1)).
      { apply Z.div_lt_upper_bound; [lia|]. rewrite <- pow16_succ by lia. replace (Z.of_nat f + 1 + 1) with (Z.of_nat (S f) + 1) by lia. exact Hb. }
      specialize (IH (m / 16) (n + 1) Hd Hb'). cbv zeta in IH. set (r := nn_loop f (m / 16) (n + 1)) in *. clearbody r.
      destruct IH as [I1 [I2 I3]]. split; [lia|].
      replace (r - n) with ((r - (n + 1)) + 1) by lia. replace (r - (n + 1) + 1 + 1) with ((r - (n + 1) + 1) + 1) by lia.
      rewrite !pow16_succ by lia.
      set (a := 16 ^ (r - (n + 1))) in *. assert (0 < a) by (subst a; apply pow16_pos; lia). rewrite pow16_succ in I3 by lia. fold a in I3. clearbody a. lia.
    + apply Z.leb_gt in E. replace (n - n) with 0 by lia. change (16 ^ 0) with 1. change (16 ^ (0 + 1)) with 16. lia.
Qed.

Lemma num_nibbles_range v : int_range v -> 1 <= num_nibbles v <= 8.
Proof.
  intros Hv. unfold num_nibbles, int_range in *.
  destruct (v =? 0); [lia|]. destruct ((v <? 0) && (Z.abs v <? 16)); [lia|].
  destruct (Z.eq_dec v 0) as [->|Hne]; [cbn; lia|].
  assert (Hm: 0 < Z.abs v) by lia.
  assert (Hb: Z.abs v < 16 ^ (Z.of_nat 8 + 1)) by (change (16 ^ (Z.of_nat 8 + 1)) with 68719476736; lia).
  pose proof (nn_loop_spec 8 (Z.abs v) 1 Hm Hb) as S. cbv zeta in S. set (r := nn_loop 8 (Z.abs v) 1) in *. clearbody r.
  destruct S as [S1 [S2 S3]]. split; [lia|].
  destruct (Z.le_gt_cases r 8); [assumption|]. assert (16 ^ 8 <= 16 ^ (r - 1)) by (apply Z.pow_le_mono_r; lia). change (16 ^ 8) with 4294967296 in *. lia.
Qed.

Lemma enc_size_ok v : int_range v -> size_ok v (enc_size v).
Proof.
  intros Hv. unfold size_ok, enc_size, num_nibbles, int_range in *.
  destruct (v =? 0) eqn:E0.
  { apply Z.eqb_eq in E0. subst. cbn. change (16 ^ 1) with 16. lia. }
  apply Z.eqb_neq in E0.
  destruct (v <? 0) eqn:En; [apply Z.ltb_lt in En | apply Z.ltb_ge in En]; cbn [andb].
  - destruct (Z.abs v <? 16) eqn:Es; [apply Z.ltb_lt in Es | apply Z.ltb_ge in Es].
    + cbn. change (16 ^ 2) with 256. lia.
    + assert (Hm: 0 < Z.abs v) by lia. assert (Hb: Z.abs v < 16 ^ (Z.of_nat 8 + 1)) by (change (16 ^ (Z.of_nat 8 + 1)) with 68719476736; lia).
      pose proof (nn_loop_spec 8 (Z.abs v) 1 Hm Hb) as S. cbv zeta in S. set (r := nn_loop 8 (Z.abs v) 1) in *. clearbody r.
      destruct S as [S1 [S2 S3]].
      assert (r <> 1). { intro. subst r. change (16 ^ (1 - 1 + 1)) with 16 in S3. lia. }
      replace (r =? 1) with false by (symmetry; apply Z.eqb_neq; assumption).
      assert (r <= 8). { destruct (Z.le_gt_cases r 8); [assumption|]. assert (16 ^ 8 <= 16 ^ (r - 1)) by (apply Z.pow_le_mono_r; lia). change (16 ^ 8) with 4294967296 in *. lia. }
      replace (r - 1 + 1) with r in S3 by lia. lia.
  - assert (Hm: 0 < Z.abs v) by lia. assert (Hb: Z.abs v < 16 ^ (Z.of_nat 8 + 1)) by (change (16 ^ (Z.of_nat 8 + 1)) with 68719476736; lia).
    pose proof (nn_loop_spec 8 (Z.abs v) 1 Hm Hb) as S. cbv zeta in S. set (r := nn_loop 8 (Z.abs v) 1) in *. clearbody r.
    destruct S as [S1 [S2 S3]]. replace (r - 1 + 1) with r in S3 by lia.
    assert (r <= 8). { destruct (Z.le_gt_cases r 8); [assumption|]. assert (16 ^ 8 <= 16 ^ (r - 1)) by (apply Z.pow_le_mono_r; lia). change (16 ^ 8) with 4294967296 in *. lia. }
    lia.
Qed.

(* a longer admissible length stays admissible (padded encodings planned by label resolution) *)
Lemma size_ok_mono v s s' : size_ok v s -> s <= s' <= 8 -> size_ok v s'.
Proof.
  intros [[A B] [Sp Sn]] Hs. unfold size_ok.
  assert (16 ^ s <= 16 ^ s') by (apply Z.pow_le_mono_r; lia).
  split; [lia|]. split.
  - intros H0. specialize (Sp H0). lia.
  - intros H0. destruct (Sn H0). lia.
Qed.

(* shape of the emitted bytes: prefixes (NFIX only in first position) then the instruction byte *)
Definition is_pfix (b : Z) : Prop := b / 16 = 14.
Definition is_prefix (b : Z) : Prop := b / 16 = 14 \/ b / 16 = 15.

Lemma mid_all_pfix v j : Forall is_pfix (mid_prefixes v j).
Proof.
  induction j as [|j IH]; cbn [mid_prefixes]; constructor; [|exact IH].
  unfold is_pfix, PFIX. pose proof (nib_range v (Z.of_nat (S j))) as Hn.
  destruct (byte_split 14 (nib v (Z.of_nat (S j))) ltac:(lia) Hn) as [E _]. exact E.
Qed.

Theorem emit_shape opc v s : 0 <= opc < 14 -> 1 <= s ->
  exists first rest, emit_instr opc v s = first ++ rest ++ [opc * 16 + v mod 16] /\
    (first = [] \/ exists b, first = [b] /\ is_prefix b /\ (b / 16 = 15 <-> v < 0)) /\ Forall is_pfix rest /\
    Z.of_nat (length (emit_instr opc v s)) = s.
Proof.
  intros Ho Hs. unfold emit_instr. rewrite last_byte by assumption.
  eexists. exists (mid_prefixes v (Z.to_nat (s - 2))). split.
  - unfold nib at 2. change (16 ^ 0) with 1. rewrite Z.div_1_r. reflexivity.
  - split; [|split; [apply mid_all_pfix|]].
    + destruct (1 <? s); [right|left; reflexivity]. eexists. split; [reflexivity|].
      pose proof (nib_range v (s - 1)) as Hn. unfold is_prefix.
      destruct (v <? 0) eqn:E; [apply Z.ltb_lt in E | apply Z.ltb_ge in E]; unfold NFIX, PFIX.
      * destruct (byte_split 15 (nib v (s - 1)) ltac:(lia) Hn) as [E1 _]. rewrite E1. split; [right; reflexivity|]. split; intros; [assumption|reflexivity].
      * destruct (byte_split 14 (nib v (s - 1)) ltac:(lia) Hn) as [E1 _]. rewrite E1. split; [left; reflexivity|]. split; intros; lia.
    + pose proof (emit_length opc v s Hs) as L. unfold emit_instr in L. rewrite last_byte in L by assumption. exact L.
Qed.
