(* SimTraceTextProofs.v -- the text at the start of a trace line and the structured prefix of C15_trace_columns.
   (1) the text is the print of the structured prefix, hence (with trace_columns_are_isa) the n-th line starts with the
       print of (n, pc_n, symbol, opcode, nibble) of the n-th instruction of the ISA run;
   (2) the text determines the prefix: read_prefix (prefix_text p ++ anything) = Some p for printable prefixes
       (numbers below 10^25, names that are identifiers). *)
From Coq Require Import ZArith Lia Bool List String Ascii Arith.
From HexVerif Require Import WMap Isa SimModel SimProofs SimProofs15 AsmLayout AsmListingRead AsmListingReadProofs SimTraceText.
Import ListNotations.
Local Open Scope Z_scope.

Lemma trace_text_is_print tab s : trace_line_prefix_text tab s = prefix_text (has_debug tab) (trace_prefix tab s).
Proof. reflexivity. Qed.

Definition C15_trace_line_text_stmt : Prop :=
  forall tab n s inp a' inp',
    wf s -> s_cycles s = 0 -> isa_steps n (arch_of s) inp = Some (a', inp') ->
    exists s', sim_steps n s inp = Some (s', inp') /\
      trace_line_prefix_text tab s' =
      prefix_text (has_debug tab) (Z.of_nat n, pc a', trace_symbol tab (pc a'), fetch a' / 16, fetch a' mod 16).

Theorem trace_line_text_is_isa : C15_trace_line_text_stmt.
Proof.
  intros tab n s inp a' inp' Hwf Hc Hi.
  destruct (trace_columns_are_isa tab n s inp a' inp' Hwf Hc Hi) as (s' & Hs & Hp).
  exists s'. split; [exact Hs|]. unfold trace_line_prefix_text. rewrite Hp. reflexivity.
Qed.

(* ================================================================== the text determines the prefix *)
Lemma column_app w t r x : column w t r ++ x = column w t (r ++ x).
Proof. unfold column. rewrite <- app_assoc. reflexivity. Qed.

Lemma tokens_column w t r : nospace t -> tokens (column w t r) = optw t ++ tokens r.
Proof.
  intros Hns. unfold column, pad_right. rewrite <- app_assoc.
  set (k := (w - List.length t)%nat).
  assert (Hr : exists r', repeat 32 k ++ 32 :: r = 32 :: r') by (destruct k; cbn [repeat app]; eexists; reflexivity).
  rewrite tokens_optw by assumption. rewrite tokens_spaces, tokens_sp. reflexivity.
Qed.

Lemma list_eqb_eq : forall a b, list_eqb a b = true -> a = b.
Proof.
  induction a as [|x a IH]; destruct b as [|y b]; cbn; intros H; try discriminate H; [reflexivity|].
  apply andb_true_iff in H. destruct H as [H1 H2]. apply Z.eqb_eq in H1. subst. f_equal. apply IH. exact H2.
Qed.

Lemma opc_of_plus w : In 43 w -> opc_of w mnemonic_names = None.
Proof.
  intros Hin. unfold mnemonic_names. cbn [opc_of].
  repeat match goal with
  | |- context [list_eqb w ?b] =>
      let E := fresh "E" in destruct (list_eqb w b) eqn:E;
      [apply list_eqb_eq in E; subst w; cbn in Hin; exfalso; repeat (destruct Hin as [Hin | Hin]; [discriminate Hin|]); exact Hin|]
  end.
  reflexivity.
Qed.

Lemma opc_of_mnemonic opc : 0 <= opc < 16 -> opc_of (mnemonic_text opc) mnemonic_names = Some opc.
Proof.
  intros H. assert (C : opc = 0 \/ opc = 1 \/ opc = 2 \/ opc = 3 \/ opc = 4 \/ opc = 5 \/ opc = 6 \/ opc = 7 \/ opc = 8 \/ opc = 9 \/
                         opc = 10 \/ opc = 11 \/ opc = 12 \/ opc = 13 \/ opc = 14 \/ opc = 15) by lia.
  repeat (destruct C as [-> | C]; [vm_compute; reflexivity|]). subst. vm_compute. reflexivity.
Qed.

Lemma mnemonic_word opc : 0 <= opc < 16 -> mnemonic_text opc <> [] /\ nospace (mnemonic_text opc).
Proof.
  intros H. assert (C : opc = 0 \/ opc = 1 \/ opc = 2 \/ opc = 3 \/ opc = 4 \/ opc = 5 \/ opc = 6 \/ opc = 7 \/ opc = 8 \/ opc = 9 \/
                         opc = 10 \/ opc = 11 \/ opc = 12 \/ opc = 13 \/ opc = 14 \/ opc = 15) by lia.
  repeat (destruct C as [-> | C]; [split; [discriminate | word_nospace]|]). subst. split; [discriminate | word_nospace].
Qed.

Lemma read_nat_dec n : 0 <= n < DECMAX -> read_nat 10 (dec_bytes n) = Some n /\ dec_bytes n <> [] /\ nospace (dec_bytes n).
Proof.
  intros Hn. rewrite dec_bytes_nonneg by lia.
  destruct (read_nat_digits 10 25 n ltac:(auto) ltac:(unfold DECMAX in Hn; change (Z.of_nat 25) with 25; lia) ltac:(discriminate)) as (Hr & Hne & Hd).
  split; [exact Hr|]. split; [exact Hne | apply digitish_nospace; exact Hd].
Qed.

Lemma optw_word w : w <> [] -> optw w = [w].
Proof. destruct w; [contradiction | reflexivity]. Qed.

(* splitting "<name>+<digits>" at the last '+' *)
Lemma split_no_plus : forall l, ~ In 43 l -> split_last_plus l = None.
Proof.
  induction l as [|c r IH]; intros H; [reflexivity|]. cbn [split_last_plus].
  rewrite IH by (intros X; apply H; right; exact X).
  replace (c =? 43) with false; [reflexivity|]. symmetry. apply Z.eqb_neq. intros ->. apply H. left. reflexivity.
Qed.
Lemma split_last_plus_app : forall nm d, ~ In 43 d -> split_last_plus (nm ++ 43 :: d) = Some (nm, d).
Proof.
  induction nm as [|c r IH]; intros d H; cbn [app split_last_plus].
  - rewrite split_no_plus by exact H. reflexivity.
  - rewrite IH by exact H. reflexivity.
Qed.

Lemma digitish_no_plus w : digitish w -> ~ In 43 w.
Proof. intros H Hin. unfold digitish in H. rewrite Forall_forall in H. specialize (H 43 Hin). lia. Qed.

Lemma string_of_bytes s : AsmModel.string_of_chars (bytes_of_string s) = s.
Proof.
  induction s as [|a s IH]; [reflexivity|]. cbn [bytes_of_string AsmModel.string_of_chars]. rewrite IH. f_equal.
  pose proof (nat_ascii_bounded a) as Hb.
  rewrite Z.mod_small by lia. rewrite Nat2Z.id. apply ascii_nat_embedding.
Qed.

Lemma read_symbol_text name off : 0 <= off < W32 ->
  read_symbol (symbol_text (Some (name, off))) = Some (name, off).
Proof.
  intros Ho. unfold symbol_text, read_symbol. rewrite Z.mod_small by exact Ho.
  assert (Hd : 0 <= off < DECMAX) by (unfold W32, DECMAX in *; lia).
  rewrite dec_bytes_nonneg by lia.
  destruct (read_nat_digits 10 25 off ltac:(auto) ltac:(unfold DECMAX in Hd; change (Z.of_nat 25) with 25; lia) ltac:(discriminate)) as (Hr & Hne & Hdg).
  rewrite split_last_plus_app by (apply digitish_no_plus; exact Hdg). rewrite Hr, string_of_bytes. reflexivity.
Qed.

Definition printable (p : prefix) : Prop :=
  let '(n, pc, sym, opc, nib) := p in
  0 <= n < DECMAX /\ 0 <= pc < DECMAX /\ 0 <= nib < DECMAX /\ 0 <= opc < 16 /\
  match sym with Some (name, off) => nospace (bytes_of_string name) /\ 0 <= off < W32 | None => True end.

Theorem read_prefix_text debug n pc sym opc nib rest :
  printable (n, pc, sym, opc, nib) -> (debug = false -> sym = None) ->
  read_prefix debug (prefix_text debug (n, pc, sym, opc, nib) ++ rest) = Some (n, pc, sym, opc, nib).
Proof.
  cbn [printable]. intros (Hn & Hpc & Hnib & Hopc & Hsym) Hdbg.
  destruct (read_nat_dec n Hn) as (Rn & Nn & Sn). destruct (read_nat_dec pc Hpc) as (Rp & Np & Sp).
  destruct (read_nat_dec nib Hnib) as (Rb & Nb & Sb). destruct (mnemonic_word opc Hopc) as (Nm & Sm).
  pose proof (opc_of_mnemonic opc Hopc) as Ro.
  unfold prefix_text, read_prefix. destruct debug.
  - rewrite !column_app. cbn [app].
    rewrite (tokens_column 6 _ _ Sn), (optw_word _ Nn). cbn [app].
    rewrite (tokens_column 6 _ _ Sp), (optw_word _ Np). cbn [app].
    destruct sym as [[name off]|].
    + destruct Hsym as [Hname Hoff].
      assert (Ssy : nospace (symbol_text (Some (name, off)))).
      { unfold symbol_text. apply Forall_app. split; [exact Hname|]. constructor; [lia|].
        destruct (read_nat_dec (off mod W32)) as (_ & _ & X); [unfold W32, DECMAX in *; pose proof (Z.mod_pos_bound off 4294967296 ltac:(lia)); lia | exact X]. }
      assert (Nsy : symbol_text (Some (name, off)) <> []).
      { unfold symbol_text. destruct (bytes_of_string name); discriminate. }
      rewrite (tokens_column 12 _ _ Ssy), (optw_word _ Nsy). cbn [app].
      rewrite (tokens_column 4 _ _ Sm), (optw_word _ Nm). cbn [app].
      rewrite (tokens_column 2 _ _ Sb), (optw_word _ Nb). cbn [app].
      rewrite Rn, Rp.
      rewrite opc_of_plus by (unfold symbol_text; apply in_or_app; right; left; reflexivity).
      rewrite (read_symbol_text name off Hoff), Ro, Rb. reflexivity.
    + assert (E : tokens (column 12 (symbol_text None) (column 4 (mnemonic_text opc) (column 2 (dec_bytes nib) rest)))
                  = tokens (column 4 (mnemonic_text opc) (column 2 (dec_bytes nib) rest))).
      { rewrite (tokens_column 12 (symbol_text None)) by constructor. reflexivity. }
      rewrite E. rewrite (tokens_column 4 _ _ Sm), (optw_word _ Nm). cbn [app].
      rewrite (tokens_column 2 _ _ Sb), (optw_word _ Nb). cbn [app].
      rewrite Rn, Rp, Ro, Rb. reflexivity.
  - rewrite (Hdbg eq_refl). rewrite !column_app. cbn [app].
    rewrite (tokens_column 6 _ _ Sn), (optw_word _ Nn). cbn [app].
    rewrite (tokens_column 6 _ _ Sp), (optw_word _ Np). cbn [app].
    rewrite (tokens_column 4 _ _ Sm), (optw_word _ Nm). cbn [app].
    rewrite (tokens_column 2 _ _ Sb), (optw_word _ Nb). cbn [app].
    rewrite Rn, Rp, Ro, Rb. reflexivity.
Qed.

(* two printable prefixes that print alike are the same prefix *)
Theorem prefix_text_injective debug n1 pc1 sym1 opc1 nib1 n2 pc2 sym2 opc2 nib2 :
  printable (n1, pc1, sym1, opc1, nib1) -> printable (n2, pc2, sym2, opc2, nib2) ->
  (debug = false -> sym1 = None /\ sym2 = None) ->
  prefix_text debug (n1, pc1, sym1, opc1, nib1) = prefix_text debug (n2, pc2, sym2, opc2, nib2) ->
  (n1, pc1, sym1, opc1, nib1) = (n2, pc2, sym2, opc2, nib2).
Proof.
  intros P1 P2 Hd E.
  pose proof (read_prefix_text debug n1 pc1 sym1 opc1 nib1 [] P1 (fun H => proj1 (Hd H))) as R1.
  pose proof (read_prefix_text debug n2 pc2 sym2 opc2 nib2 [] P2 (fun H => proj2 (Hd H))) as R2.
  rewrite E in R1. rewrite R1 in R2. injection R2 as -> -> -> -> ->. reflexivity.
Qed.
