(* Properties_C12.v -- a simulator run depends only on the binary, the input and the options.
   Model: SimModel.v (cpp_init = the constructor with memory{} and exitCode(0); run / run_traced; guard = the cycle limit). *)
From Coq Require Import ZArith List Lia.
From HexVerif Require Import WMap Isa SimModel SimProofs SimProofs12 AsmLayout Loader LoaderTrunc.
Import ListNotations.
Local Open Scope Z_scope.

(* memory not covered by the loaded image reads as zero, as in the reference simulator *)
Theorem C12_unwritten_reads_zero : forall (ws : list Z) a, Z.of_nat (length ws) <= a -> rd (s_mem (cpp_init ws)) a = 0.
Proof. exact unwritten_reads_zero. Qed.
Print Assumptions C12_unwritten_reads_zero.

(* the start state is a function of the image alone (no host state enters): registers clear, exit code 0, cycles 0,
   running; together with the fact that SimModel.run is a Gallina function of (fuel, limit, state, input) a run is a
   function of binary, input and options *)
Theorem C12_function_of_inputs : forall ws,
  s_pc (cpp_init ws) = 0 /\ s_areg (cpp_init ws) = 0 /\ s_breg (cpp_init ws) = 0 /\ s_oreg (cpp_init ws) = 0 /\
  s_exit (cpp_init ws) = 0 /\ s_cycles (cpp_init ws) = 0 /\ s_running (cpp_init ws) = true /\
  (forall a, Z.of_nat (length ws) <= a -> rd (s_mem (cpp_init ws)) a = 0) /\
  (forall i, (i < length ws)%nat -> rd (s_mem (cpp_init ws)) (Z.of_nat i) = nth i ws 0).
Proof.
  intros ws. repeat match goal with |- _ /\ _ => split end; try reflexivity.
  - apply unwritten_reads_zero.
  - intros i Hi. unfold cpp_init, init. cbn [s_mem]. replace (Z.of_nat i) with (0 + Z.of_nat i) by lia.
    apply rd_load_words_inside; [lia | exact Hi].
Qed.
Print Assumptions C12_function_of_inputs.

(* without those initialisers (the code as pinned) the result depends on the backing store: witness by computation *)
Theorem C12_uninitialised_memory_refuted :
  exists bg1 bg2, exit_of (SimModel.run 20 0 (init bg1 0 demo_image) {| console := []; files := fun _ => [] |} [])
               <> exit_of (SimModel.run 20 0 (init bg2 0 demo_image) {| console := []; files := fun _ => [] |} []).
Proof. exact uninitialised_memory_refuted. Qed.
Print Assumptions C12_uninitialised_memory_refuted.

(* -t only adds trace text: one step ... *)
Theorem C12_trace_step_transparent : forall s inp a' inp' ev,
  wf s -> Isa.step (arch_of s) inp = Ok (a', inp', ev) -> step_traced s inp = SimModel.step s inp.
Proof. exact trace_transparent. Qed.
Print Assumptions C12_trace_step_transparent.

(* ... and whole runs, with or without a cycle limit mc: same events (system calls), same input remainder, same final
   state, same exit status *)
Theorem C12_trace_is_transparent : forall n mc s inp evs, wf s ->
  defined_run (Isa.run n (arch_of s) inp evs) -> s_running s = true ->
  run_traced n mc s inp evs = SimModel.run n mc s inp evs.
Proof. exact run_trace_transparent. Qed.
Print Assumptions C12_trace_is_transparent.

(* a run cut short by --max-cycles mc executes exactly mc+1 instructions of the ISA trace and returns the initial
   exit code (0 from cpp_init) *)
Theorem C12_cycle_limit_defined : forall k mc s inp evs,
  wf s -> s_running s = true -> 0 < mc -> s_cycles s + Z.of_nat k = mc + 1 ->
  forall n, (k < n)%nat ->
  match Isa.run k (arch_of s) inp evs with
  | (tr, inp', a', Cut) =>
      exists s', SimModel.run n mc s inp evs = (tr, inp', s', Returned (s_exit s)) /\ arch_of s' = a' /\ s_cycles s' = mc + 1
  | _ => True
  end.
Proof. exact cycle_limit_defined. Qed.
Print Assumptions C12_cycle_limit_defined.

Example C12_nonvacuous : rd (s_mem (cpp_init demo_image)) 100 = 0 /\
  exit_of (SimModel.run 20 0 (cpp_init demo_image) {| console := []; files := fun _ => [] |} []) = Returned 0.
Proof. split; vm_compute; reflexivity. Qed.

(* the loader model (Loader.load_file, tied to Processor::load by tools/c12.py on well-formed and malformed files) is a
   total function of the file's bytes: it reads no other state, and rejects what the repaired C++ rejects *)
Definition demo_file : list Z :=        (* 2 words; 1 string "m"; 1 symbol (0, 8) *)
  [2;0;0;0; 151;0;0;0; 100;0;0;0;  1;0;0;0; 109;0;  1;0;0;0; 0;0;0;0; 8;0;0;0].
Example C12_loader_examples :
  Loader.load_file demo_file = Some ([151; 100], [([109], 8)]) /\
  Loader.load_file (demo_file ++ [0]) = Some ([151; 100], [([109], 8)]) /\   (* bytes after the tables are not read *)
  Loader.load_file (firstn 12 demo_file ++ [1]) = None /\                    (* one stray byte: a truncated string count *)
  Loader.load_file (firstn 17 demo_file) = None /\                           (* string without its NUL *)
  Loader.load_file (firstn 25 demo_file) = None /\                           (* symbol entry cut *)
  Loader.load_file [2;0;0] = None /\ Loader.load_file [] = None /\           (* no header *)
  Loader.load_file [65;13;3;0; 1;2;3;4] = None /\                            (* 200001 words: larger than the memory *)
  Loader.load_file [1;0;0;64; 1;2;3;4] = Some ([67305985], []) /\   (* 0x40000001 << 2 wraps to 4 bytes *)
  Loader.load_file (firstn 12 demo_file ++ [1;0;0;0; 109;0; 1;0;0;0; 5;0;0;0; 8;0;0;0]) = None.   (* string index 5 of 1 *)
Proof. vm_compute. repeat split; reflexivity. Qed.

(* a binary of the assembler model's format whose debug tables are cut ANYWHERE (a strict, non-empty prefix of them is
   left) is rejected by the loader model: a damaged table is never used, whatever follows it on the stack or heap *)
Theorem C12_loader_truncated_rejected : forall (img : list Z) (names : list (list Z)) (offs t y : list Z),
  let n := Z.of_nat (List.length img) in
  let k := Z.of_nat (List.length names) in
  n mod 4 = 0 -> n <= 800000 -> List.length names = List.length offs -> k < AsmModel.W32 -> Forall no_nul names ->
  le32 k ++ strings_bytes names ++ le32 k ++ entries offs 0 = t ++ y -> t <> [] -> y <> [] ->
  Loader.load_file (le32 (n / 4) ++ img ++ t) = None.
Proof. exact load_truncated_rejected. Qed.
Print Assumptions C12_loader_truncated_rejected.
