(* XFrontProofs.v -- the front-end model of xcmp (XFront.v: lexer + parser) is total: on every byte string it returns
   Ok or Reject, never UB and never OutOfFuel.  The lexer is structurally recursive on the bytes.  For the parser
   the measure is mu = tokens not yet consumed (counting the current one unless it is END_OF_FILE): every
   getNextToken() the parser performs after having matched a token other than END_OF_FILE decreases mu, every
   recursive call either comes after such a step or descends in the rank
   Statements(5) > Statement(4) > ExprList(3) > Expr(2) > BinOpRHS(1) > Element(0),
   so call depth 6*mu + rank + 1 suffices and the fuel parse_program hands out is enough. *)
From Coq Require Import ZArith Lia Bool List String Arith.
From HexVerif Require Import XAst XFront.
Import ListNotations.

Definition answer {A} (o : outcome A) : Prop :=
  match o with Ok _ | Reject _ => True | UB _ | OutOfFuel => False end.

Lemma answer_cases {A} (o : outcome A) : answer o -> (exists a, o = Ok a) \/ (exists d, o = Reject d).
Proof. destruct o; cbn; intros H; try contradiction; [left | right]; eexists; reflexivity. Qed.

(* ------------------------------------------------------------------ tokens *)
Lemma token_eqb_eq a b : token_eqb a b = true -> a = b.
Proof. unfold token_eqb. destruct a, b; cbn; intros H; try reflexivity; discriminate H. Qed.

Lemma token_eqb_refl a : token_eqb a a = true.
Proof. unfold token_eqb. apply Z.eqb_refl. Qed.

Definition mu (st : pst) : nat := (List.length (rest st) + (if cur_is st TEOF then 0 else 1))%nat.

Lemma cur_is_neof st t : cur_is st t = true -> t <> TEOF -> cur_is st TEOF = false.
Proof.
  unfold cur_is. intros H Hn. apply token_eqb_eq in H.
  destruct (token_eqb (cur_tok st) TEOF) eqn:E; [|reflexivity].
  apply token_eqb_eq in E. congruence.
Qed.

Lemma binop_neof st o : binop_of_token (cur_tok st) = Some o -> cur_is st TEOF = false.
Proof. unfold cur_is. destruct (cur_tok st); cbn; intros H; try discriminate H; reflexivity. Qed.

Lemma assoc_neof st op : is_associative op && cur_is st op = true -> cur_is st TEOF = false.
Proof.
  intros H. apply andb_true_iff in H. destruct H as [Ha Hc].
  apply (cur_is_neof st op Hc). intros ->. cbn in Ha. discriminate Ha.
Qed.

(* ------------------------------------------------------------------ advance / expect / identifier *)
Definition steps (st : pst) (o : outcome pst) : Prop :=
  match o with
  | Ok st' => (mu st' <= mu st)%nat /\ (cur_is st TEOF = false -> (mu st' < mu st)%nat)
  | Reject _ => True
  | UB _ | OutOfFuel => False
  end.

Lemma advance_spec st : steps st (advance st).
Proof.
  unfold advance, steps. destruct (rest st) as [|t r] eqn:Er.
  - assert (E : cur_is {| cur := eof_after (cur st); rest := [] |} TEOF = true) by reflexivity.
    unfold mu. rewrite E, Er. cbn [rest List.length]. split; [lia|]. intros ->. lia.
  - destruct (lx_tok t) as [tk|m] eqn:Et; [|exact I].
    unfold mu. rewrite Er. cbn [rest List.length]. split.
    + destruct (cur_is {| cur := t; rest := r |} TEOF); destruct (cur_is st TEOF); lia.
    + intros ->. destruct (cur_is {| cur := t; rest := r |} TEOF); lia.
Qed.

Definition consumes (st : pst) (o : outcome pst) : Prop :=
  match o with Ok st' => (mu st' < mu st)%nat | Reject _ => True | UB _ | OutOfFuel => False end.

Lemma expect_spec t st : t <> TEOF -> consumes st (expect t st).
Proof.
  intros Hn. unfold expect, consumes. destruct (cur_is st t) eqn:E; [|exact I].
  pose proof (advance_spec st) as H. pose proof (cur_is_neof st t E Hn) as Hne.
  destruct (advance st); cbn in H |- *; auto. destruct H as [_ H]. auto.
Qed.

Lemma expect_eof_spec st : answer (expect TEOF st).
Proof.
  unfold expect. destruct (cur_is st TEOF); [|exact I].
  pose proof (advance_spec st) as H. destruct (advance st); cbn in *; auto.
Qed.

Definition fine {A} (st : pst) (o : outcome (A * pst)) : Prop :=
  match o with Ok (_, st') => (mu st' <= mu st)%nat | Reject _ => True | UB _ | OutOfFuel => False end.
Definition fine_lt {A} (st : pst) (o : outcome (A * pst)) : Prop :=
  match o with Ok (_, st') => (mu st' < mu st)%nat | Reject _ => True | UB _ | OutOfFuel => False end.

Lemma parse_identifier_spec st : fine_lt st (parse_identifier st).
Proof.
  unfold parse_identifier, fine_lt. destruct (cur_is st TIDENT) eqn:E; [|exact I].
  pose proof (advance_spec st) as H. pose proof (cur_is_neof st TIDENT E ltac:(discriminate)) as Hne.
  destruct (advance st); cbn in H |- *; auto. destruct H as [_ H]. auto.
Qed.

(* ------------------------------------------------------------------ proof automation for the monadic code *)
Ltac neofs :=
  repeat match goal with
  | H : cur_is ?s ?t = true |- _ =>
      lazymatch goal with
      | _ : cur_is s TEOF = false |- _ => fail
      | _ => pose proof (cur_is_neof s t H ltac:(discriminate))
      end
  end.

Ltac use_advance s :=
  let H := fresh "Ha" in
  pose proof (advance_spec s) as H; unfold steps in H;
  destruct (advance s); cbn [bind]; [ | exact I | contradiction | contradiction ];
  destruct H as [? H]; neofs; try (specialize (H ltac:(assumption))).

Ltac use_expect t s :=
  let H := fresh "He" in
  pose proof (expect_spec t s ltac:(discriminate)) as H; unfold consumes in H;
  destruct (expect t s); cbn [bind]; [ | exact I | contradiction | contradiction ].

Ltac use_ident s :=
  let H := fresh "Hi" in
  pose proof (parse_identifier_spec s) as H; unfold fine_lt in H;
  destruct (parse_identifier s) as [[? ?]| | |]; cbn [bind]; [ | exact I | contradiction | contradiction ].

(* ------------------------------------------------------------------ expressions *)
Lemma expr_total : forall f,
  (forall st, (6 * mu st + 2 < f)%nat -> fine st (parse_expr f st)) /\
  (forall op o st, (6 * mu st + 1 < f)%nat -> fine st (parse_binop_rhs f op o st)) /\
  (forall st, (6 * mu st + 3 < f)%nat -> fine st (parse_expr_list f st)) /\
  (forall st, (6 * mu st + 0 < f)%nat -> fine st (parse_element f st)).
Proof.
  induction f as [|f IH]; [repeat split; intros; lia|].
  destruct IH as (IHe & IHb & IHl & IHel).
  split; [|split; [|split]].
  - (* parse_expr *)
    intros st Hf. cbn [parse_expr].
    destruct (cur_is st TMINUS) eqn:E1.
    { use_advance st.
      pose proof (IHel a ltac:(lia)) as Q1. unfold fine in Q1 |- *.
      destruct (parse_element f a) as [[e s2]| | |]; cbn [bind]; auto. lia. }
    destruct (cur_is st TNOT) eqn:E2.
    { use_advance st.
      pose proof (IHel a ltac:(lia)) as Q1. unfold fine in Q1 |- *.
      destruct (parse_element f a) as [[e s2]| | |]; cbn [bind]; auto. lia. }
    pose proof (IHel st ltac:(lia)) as Q1. unfold fine in Q1 |- *.
    destruct (parse_element f st) as [[e s1]| | |]; cbn [bind]; auto.
    destruct (binop_of_token (cur_tok s1)) as [o|] eqn:Eo; [|assumption].
    pose proof (binop_neof s1 o Eo).
    use_advance s1.
    pose proof (IHb (cur_tok s1) o a ltac:(lia)) as Q2. unfold fine in Q2.
    destruct (parse_binop_rhs f (cur_tok s1) o a) as [[r s3]| | |]; cbn [bind]; auto. lia.
  - (* parse_binop_rhs *)
    intros op o st Hf. cbn [parse_binop_rhs].
    pose proof (IHel st ltac:(lia)) as Q1. unfold fine in Q1 |- *.
    destruct (parse_element f st) as [[e s1]| | |]; cbn [bind]; auto.
    destruct (is_associative op && cur_is s1 op) eqn:Ea; [|assumption].
    pose proof (assoc_neof s1 op Ea).
    use_advance s1.
    pose proof (IHb op o a ltac:(lia)) as Q2. unfold fine in Q2.
    destruct (parse_binop_rhs f op o a) as [[r s3]| | |]; cbn [bind]; auto. lia.
  - (* parse_expr_list *)
    intros st Hf. cbn [parse_expr_list].
    pose proof (IHe st ltac:(lia)) as Q1. unfold fine in Q1 |- *.
    destruct (parse_expr f st) as [[e s1]| | |]; cbn [bind]; auto.
    destruct (cur_is s1 TCOMMA) eqn:Ec; [|assumption].
    use_advance s1.
    pose proof (IHl a ltac:(lia)) as Q2. unfold fine in Q2.
    destruct (parse_expr_list f a) as [[es s3]| | |]; cbn [bind]; auto. lia.
  - (* parse_element *)
    intros st Hf. cbn [parse_element]. unfold fine.
    destruct (cur_is st TIDENT) eqn:E1.
    { use_ident st.
      destruct (cur_is p TLBRACKET) eqn:E2.
      { use_advance p.
        pose proof (IHe a ltac:(lia)) as Q2. unfold fine in Q2.
        destruct (parse_expr f a) as [[e s3]| | |]; cbn [bind]; auto.
        use_expect TRBRACKET s3. lia. }
      destruct (cur_is p TLPAREN) eqn:E3; [|lia].
      use_advance p.
      destruct (cur_is a TRPAREN) eqn:E4.
      { use_advance a. lia. }
      pose proof (IHl a ltac:(lia)) as Q2. unfold fine in Q2.
      destruct (parse_expr_list f a) as [[es s3]| | |]; cbn [bind]; auto.
      use_expect TRPAREN s3. lia. }
    destruct (cur_is st TNUMBER) eqn:E2.
    { use_advance st.
      destruct (cur_is a TLPAREN) eqn:E3; [|lia].
      use_advance a.
      destruct (cur_is a0 TRPAREN) eqn:E4.
      { use_advance a0. lia. }
      pose proof (IHl a0 ltac:(lia)) as Q2. unfold fine in Q2.
      destruct (parse_expr_list f a0) as [[es s3]| | |]; cbn [bind]; auto.
      use_expect TRPAREN s3. lia. }
    destruct (cur_is st TSTRING) eqn:E3. { use_advance st. lia. }
    destruct (cur_is st TTRUE) eqn:E4. { use_advance st. lia. }
    destruct (cur_is st TFALSE) eqn:E5. { use_advance st. lia. }
    destruct (cur_is st TLPAREN) eqn:E6; [|exact I].
    use_advance st.
    pose proof (IHe a ltac:(lia)) as Q2. unfold fine in Q2.
    destruct (parse_expr f a) as [[e s3]| | |]; cbn [bind]; auto.
    use_expect TRPAREN s3. lia.
Qed.

Lemma parse_expr_fine f st : (6 * mu st + 2 < f)%nat -> fine st (parse_expr f st).
Proof. apply expr_total. Qed.
Lemma parse_element_fine f st : (6 * mu st + 0 < f)%nat -> fine st (parse_element f st).
Proof. apply expr_total. Qed.

(* ------------------------------------------------------------------ statements *)
Lemma stmt_total : forall f,
  (forall st, (6 * mu st + 4 < f)%nat -> fine st (parse_statement f st)) /\
  (forall st, (6 * mu st + 5 < f)%nat -> fine st (parse_statements f st)).
Proof.
  induction f as [|f IH]; [split; intros; lia|].
  destruct IH as (IHs & IHss).
  split.
  - intros st Hf. cbn [parse_statement]. unfold fine.
    destruct (cur_is st TSKIP) eqn:E1. { use_advance st. lia. }
    destruct (cur_is st TSTOP) eqn:E2. { use_advance st. lia. }
    destruct (cur_is st TRETURN) eqn:E3.
    { use_advance st.
      pose proof (parse_expr_fine f a ltac:(lia)) as Q2. unfold fine in Q2.
      destruct (parse_expr f a) as [[e s2]| | |]; cbn [bind]; auto. lia. }
    destruct (cur_is st TIF) eqn:E4.
    { use_advance st.
      pose proof (parse_expr_fine f a ltac:(lia)) as Q2. unfold fine in Q2.
      destruct (parse_expr f a) as [[c s2]| | |]; cbn [bind]; auto.
      use_expect TTHEN s2.
      pose proof (IHs a0 ltac:(lia)) as Q3. unfold fine in Q3.
      destruct (parse_statement f a0) as [[t s4]| | |]; cbn [bind]; auto.
      use_expect TELSE s4.
      pose proof (IHs a1 ltac:(lia)) as Q4. unfold fine in Q4.
      destruct (parse_statement f a1) as [[e s6]| | |]; cbn [bind]; auto. lia. }
    destruct (cur_is st TWHILE) eqn:E5.
    { use_advance st.
      pose proof (parse_expr_fine f a ltac:(lia)) as Q2. unfold fine in Q2.
      destruct (parse_expr f a) as [[c s2]| | |]; cbn [bind]; auto.
      use_expect TDO s2.
      pose proof (IHs a0 ltac:(lia)) as Q3. unfold fine in Q3.
      destruct (parse_statement f a0) as [[t s4]| | |]; cbn [bind]; auto. lia. }
    destruct (cur_is st TBEGIN) eqn:E6.
    { use_advance st.
      pose proof (IHss a ltac:(lia)) as Q2. unfold fine in Q2.
      destruct (parse_statements f a) as [[ss s2]| | |]; cbn [bind]; auto.
      use_expect TEND s2. lia. }
    destruct (cur_is st TIDENT) eqn:E7.
    { pose proof (parse_element_fine f st ltac:(lia)) as Q2. unfold fine in Q2.
      destruct (parse_element f st) as [[e s1]| | |]; cbn [bind]; auto.
      destruct (is_call e); [assumption|].
      use_expect TASS s1.
      pose proof (parse_expr_fine f a ltac:(lia)) as Q3. unfold fine in Q3.
      destruct (parse_expr f a) as [[r s3]| | |]; cbn [bind]; auto. lia. }
    destruct (cur_is st TNUMBER) eqn:E8; [|exact I].
    pose proof (parse_element_fine f st ltac:(lia)) as Q2. unfold fine in Q2.
    destruct (parse_element f st) as [[e s1]| | |]; cbn [bind]; auto.
    destruct (is_call e); [assumption|exact I].
  - intros st Hf. cbn [parse_statements]. unfold fine.
    pose proof (IHs st ltac:(lia)) as Q1. unfold fine in Q1.
    destruct (parse_statement f st) as [[s s1]| | |]; cbn [bind]; auto.
    destruct (cur_is s1 TSEMI) eqn:Ec; [|assumption].
    use_advance s1.
    pose proof (IHss a ltac:(lia)) as Q2. unfold fine in Q2.
    destruct (parse_statements f a) as [[ss s3]| | |]; cbn [bind]; auto. lia.
Qed.

Lemma parse_statement_fine f st : (6 * mu st + 4 < f)%nat -> fine st (parse_statement f st).
Proof. apply stmt_total. Qed.

(* ------------------------------------------------------------------ declarations, formals, procedures *)
Lemma parse_decl_lt F st : (6 * mu st + 2 < F)%nat -> fine_lt st (parse_decl F st).
Proof.
  intros Hf. unfold parse_decl, fine_lt.
  destruct (cur_is st TVAL) eqn:E1.
  { use_advance st. use_ident a. use_expect TEQ p.
    pose proof (parse_expr_fine F a0 ltac:(lia)) as Q2. unfold fine in Q2.
    destruct (parse_expr F a0) as [[e s4]| | |]; cbn [bind]; auto.
    use_expect TSEMI s4. lia. }
  destruct (cur_is st TVAR) eqn:E2.
  { use_advance st. use_ident a. use_expect TSEMI p. lia. }
  destruct (cur_is st TARRAY) eqn:E3; [|exact I].
  use_advance st. use_ident a. use_expect TLBRACKET p.
  pose proof (parse_expr_fine F a0 ltac:(lia)) as Q2. unfold fine in Q2.
  destruct (parse_expr F a0) as [[e s4]| | |]; cbn [bind]; auto.
  use_expect TRBRACKET s4. use_expect TSEMI a1. lia.
Qed.

Lemma parse_decls_fine : forall n F wa st, (mu st < n)%nat -> (6 * mu st + 2 < F)%nat -> fine st (parse_decls n F wa st).
Proof.
  induction n as [|n IH]; intros F wa st Hn Hf; [lia|].
  cbn [parse_decls]. unfold fine.
  destruct (cur_is st TVAL || cur_is st TVAR || (wa && cur_is st TARRAY)); [|lia].
  pose proof (parse_decl_lt F st Hf) as Q1. unfold fine_lt in Q1.
  destruct (parse_decl F st) as [[d s1]| | |]; cbn [bind]; auto.
  pose proof (IH F wa s1 ltac:(lia) ltac:(lia)) as Q2. unfold fine in Q2.
  destruct (parse_decls n F wa s1) as [[ds s2]| | |]; cbn [bind]; auto. lia.
Qed.

Lemma parse_formal_lt st : fine_lt st (parse_formal st).
Proof.
  unfold parse_formal, fine_lt.
  destruct (cur_is st TVAL) eqn:E1. { use_advance st. use_ident a. lia. }
  destruct (cur_is st TARRAY) eqn:E2. { use_advance st. use_ident a. lia. }
  destruct (cur_is st TPROC) eqn:E3. { use_advance st. use_ident a. lia. }
  destruct (cur_is st TFUNC) eqn:E4; [|exact I]. use_advance st. use_ident a. lia.
Qed.

Lemma parse_formals_fine : forall n st, (mu st < n)%nat -> fine st (parse_formals n st).
Proof.
  induction n as [|n IH]; intros st Hn; [lia|].
  cbn [parse_formals]. unfold fine.
  pose proof (parse_formal_lt st) as Q1. unfold fine_lt in Q1.
  destruct (parse_formal st) as [[fm s1]| | |]; cbn [bind]; auto.
  destruct (cur_is s1 TCOMMA) eqn:Ec; [|lia].
  use_advance s1.
  pose proof (IH a ltac:(lia)) as Q2. unfold fine in Q2.
  destruct (parse_formals n a) as [[fs s3]| | |]; cbn [bind]; auto. lia.
Qed.

Lemma parse_proc_decl_lt N F st :
  cur_is st TPROC || cur_is st TFUNC = true -> (mu st < N)%nat -> (6 * mu st + 4 < F)%nat -> fine_lt st (parse_proc_decl N F st).
Proof.
  intros Hc Hn Hf. unfold parse_proc_decl, fine_lt.
  assert (Hne : cur_is st TEOF = false).
  { apply orb_true_iff in Hc. destruct Hc as [Hc|Hc]; eapply cur_is_neof; eauto; discriminate. }
  use_advance st. use_ident a. use_expect TLPAREN p.
  destruct (cur_is a0 TRPAREN) eqn:E1.
  - use_advance a0. use_expect TIS a1.
    destruct (cur_is a2 TVAL || cur_is a2 TVAR).
    + pose proof (parse_decls_fine N F false a2 ltac:(lia) ltac:(lia)) as Q2. unfold fine in Q2.
      destruct (parse_decls N F false a2) as [[ds s6]| | |]; cbn [bind]; auto.
      pose proof (parse_statement_fine F s6 ltac:(lia)) as Q3. unfold fine in Q3.
      destruct (parse_statement F s6) as [[b s7]| | |]; cbn [bind]; auto. lia.
    + cbn [bind].
      pose proof (parse_statement_fine F a2 ltac:(lia)) as Q3. unfold fine in Q3.
      destruct (parse_statement F a2) as [[b s7]| | |]; cbn [bind]; auto. lia.
  - pose proof (parse_formals_fine N a0 ltac:(lia)) as Q1. unfold fine in Q1.
    destruct (parse_formals N a0) as [[fs s']| | |]; cbn [bind]; auto.
    use_expect TRPAREN s'. use_expect TIS a1.
    destruct (cur_is a2 TVAL || cur_is a2 TVAR).
    + pose proof (parse_decls_fine N F false a2 ltac:(lia) ltac:(lia)) as Q2. unfold fine in Q2.
      destruct (parse_decls N F false a2) as [[ds s6]| | |]; cbn [bind]; auto.
      pose proof (parse_statement_fine F s6 ltac:(lia)) as Q3. unfold fine in Q3.
      destruct (parse_statement F s6) as [[b s7]| | |]; cbn [bind]; auto. lia.
    + cbn [bind].
      pose proof (parse_statement_fine F a2 ltac:(lia)) as Q3. unfold fine in Q3.
      destruct (parse_statement F a2) as [[b s7]| | |]; cbn [bind]; auto. lia.
Qed.

Lemma parse_proc_decls_fine : forall n N F st,
  (mu st < n)%nat -> (mu st < N)%nat -> (6 * mu st + 4 < F)%nat -> fine st (parse_proc_decls n N F st).
Proof.
  induction n as [|n IH]; intros N F st Hn HN Hf; [lia|].
  cbn [parse_proc_decls]. unfold fine.
  destruct (cur_is st TPROC || cur_is st TFUNC) eqn:Ec; [|lia].
  pose proof (parse_proc_decl_lt N F st Ec HN Hf) as Q1. unfold fine_lt in Q1.
  destruct (parse_proc_decl N F st) as [[p s1]| | |]; cbn [bind]; auto.
  pose proof (IH N F s1 ltac:(lia) ltac:(lia) ltac:(lia)) as Q2. unfold fine in Q2.
  destruct (parse_proc_decls n N F s1) as [[ps s2]| | |]; cbn [bind]; auto. lia.
Qed.

(* ------------------------------------------------------------------ the program *)
Lemma mu_bound st : (mu st <= S (List.length (rest st)))%nat.
Proof. unfold mu. destruct (cur_is st TEOF); lia. Qed.

Lemma parse_program_answer toks : answer (parse_program toks).
Proof.
  unfold parse_program.
  set (N := S (S (List.length toks))). set (F := (6 * N + 6)%nat).
  set (st00 := {| cur := lexed0; rest := toks |}).
  assert (H00 : (mu st00 <= S (List.length toks))%nat) by (apply (mu_bound st00)).
  pose proof (advance_spec st00) as Ha. unfold steps in Ha.
  destruct (advance st00) as [st0| | |]; cbn [bind]; auto. destruct Ha as [Ha _].
  pose proof (parse_decls_fine N F true st0 ltac:(unfold N; lia) ltac:(unfold F, N; lia)) as Q1. unfold fine in Q1.
  destruct (parse_decls N F true st0) as [[gs st1]| | |]; cbn [bind]; auto.
  pose proof (parse_proc_decls_fine N N F st1 ltac:(unfold N; lia) ltac:(unfold N; lia) ltac:(unfold F, N; lia)) as Q2. unfold fine in Q2.
  destruct (parse_proc_decls N N F st1) as [[ps st2]| | |]; cbn [bind]; auto.
  pose proof (advance_spec st2) as Q3. unfold steps in Q3.
  destruct (advance st2) as [st3| | |]; cbn [bind]; auto.
  pose proof (expect_eof_spec st3) as Q4.
  destruct (expect TEOF st3); cbn [bind answer] in *; auto.
Qed.

Definition C09_front_total_stmt : Prop :=
  forall src : list Z, (exists p, front src = Ok p) \/ (exists d, front src = Reject d).

Theorem front_located_total : forall src, (exists p, front_located src = Ok p) \/ (exists d, front_located src = Reject d).
Proof. intros src. apply answer_cases. unfold front_located. apply parse_program_answer. Qed.

Theorem front_total : C09_front_total_stmt.
Proof.
  intros src. unfold front. destruct (front_located_total src) as [[p H]|[d H]]; rewrite H; cbn [bind].
  - left. eexists. reflexivity.
  - right. eexists. reflexivity.
Qed.

(* the abstract program is the erasure of the located one; a rejection is the same diagnostic *)
Lemma front_erases src p : front_located src = Ok p -> front src = Ok (erase_program p).
Proof. intros H. unfold front. rewrite H. reflexivity. Qed.
Lemma front_reject src d : front src = Reject d <-> front_located src = Reject d.
Proof.
  unfold front. destruct (front_located src); cbn [bind]; split; intros H; try discriminate H; injection H as ->; reflexivity.
Qed.
