open Ascii
open BinNums
open Datatypes
open String
open Vexp

val d_outputs : (string * vexp) list

val d_next : (string * vexp) list

val d_wires : (string * vexp) list

val d_mem_writes : (string * (vexp * (vexp * vexp))) list

val design : design
