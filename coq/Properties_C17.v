(* Properties_C17.v -- the --instrs listing describes the binary: decoding the image at the listed offsets finds
   exactly the listed instructions (opcode, operand, size) and data, in the listed order, with nothing but zeros in
   between and after.  Statement = the spec validator AsmSpec.check_listing over the listing as a reader sees it
   (AsmStatements.struct_listing: same items, order, offsets, operands and sizes as AsmLayout.listing prints).
   Proofs: AsmLayoutProofs.v. *)
From Coq Require Import ZArith List String Bool.
From HexVerif Require Import WMap Isa AsmModel AsmLayout AsmSpec AsmStatements AsmLayoutProofs.
Import ListNotations.
Local Open Scope Z_scope.

Theorem C17_listing_agrees :
  forall prog locs out, Forall wf_directive prog -> assemble_directives prog locs = Ok out -> small (ao_layout out) ->
    check_listing (struct_listing (ao_layout out)) (ao_image out) = true.
Proof. exact listing_ok. Qed.
Print Assumptions C17_listing_agrees.

(* non-vacuity *)
Definition C17_example : list directive :=
  [DRef TBR "over"%string true] ++ repeat (DImm TLDAC 0) 16 ++
  [DLabel LId "over"%string; DRef TLDAM "word"%string false; DRef TBR "over"%string true; DOpr TSVC;
   DLabel LProc "word"%string; DData (-2)].
Example C17_example_listing :
  exists out, assemble_directives C17_example [] = Ok out /\
    skipn 17 (struct_listing (ao_layout out)) =
      [LLabel 18 0; LInstr 18 0 6 1; LInstr 19 9 (-3) 2; LOpr 21 3 1; LLabel 24 0; LData 24 (-2) 4; LPadding 0] /\
    check_listing (struct_listing (ao_layout out)) (ao_image out) = true.
Proof. eexists. split; [vm_compute; reflexivity|]. split; vm_compute; reflexivity. Qed.
(* the validator refuses a listing whose operand is off by one *)
Example C17_validator_refuses :
  check_listing [LInstr 0 9 2 1; LInstr 1 3 17 2; LLabel 3 0; LOpr 3 3 1; LPadding 0] [146; 225; 49; 211] = true /\
  check_listing [LInstr 0 9 1 1; LInstr 1 3 17 2; LLabel 3 0; LOpr 3 3 1; LPadding 0] [146; 225; 49; 211] = false.
Proof. split; vm_compute; reflexivity. Qed.
