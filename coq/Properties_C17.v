(* Properties_C17.v -- the --instrs listing describes the binary: decoding the image at the listed offsets finds
   exactly the listed instructions (opcode, operand, size) and data, in the listed order, with nothing but zeros in
   between and after.  Statement = the spec validator AsmSpec.check_listing over the listing as a reader sees it
   (AsmStatements.struct_listing: same items, order, offsets, operands and sizes as AsmLayout.listing prints).
   Proofs: AsmLayoutProofs.v. *)
From Coq Require Import ZArith List String Bool.
From HexVerif Require Import WMap Isa AsmModel AsmLayout AsmSpec AsmStatements AsmLayoutProofs AsmListingRead AsmListingReadProofs AsmListingNamesProofs.
Import ListNotations.
Local Open Scope Z_scope.

Theorem C17_listing_agrees :
  forall prog locs out, Forall wf_directive prog -> assemble_directives prog locs = Ok out -> small (ao_layout out) ->
    check_listing (struct_listing (ao_layout out)) (ao_image out) = true.
Proof. exact listing_ok. Qed.
Print Assumptions C17_listing_agrees.


(* The listing as TEXT.  AsmListingRead.listing_lines is the text emitProgramText prints for the model's listing triples
   (offset, Directive::toString(), size): "%#08x %-20s (%d bytes)" per directive, then "<total> bytes".
   AsmListingRead.read_listing is a total reader of such text (the reader the check runs, extracted, on the REAL tools'
   listings).  Reading the printed text gives exactly the structured listing C17_listing_agrees is about -- for every
   accepted program whose names contain no blank (what the lexer can produce). *)
Theorem C17_text_listing_reads_back :
  forall prog locs out, Forall wf_directive prog -> Forall name_ok prog ->
    assemble_directives prog locs = Ok out -> small (ao_layout out) ->
    read_listing (listing_lines (ao_listing out) (ao_total out)) = Some (struct_listing (ao_layout out)).
Proof. exact listing_reads_back. Qed.
Print Assumptions C17_text_listing_reads_back.

(* hence: the TEXT the model prints, read by the Coq reader, passes the validator against the model's image *)
Theorem C17_text_listing_agrees :
  forall prog locs out, Forall wf_directive prog -> Forall name_ok prog ->
    assemble_directives prog locs = Ok out -> small (ao_layout out) ->
    exists ls, read_listing (listing_lines (ao_listing out) (ao_total out)) = Some ls /\ check_listing ls (ao_image out) = true.
Proof. exact text_listing_agrees. Qed.
Print Assumptions C17_text_listing_agrees.

(* end to end from SOURCE BYTES: the lexer only makes names without blanks and the parser only well-formed directives
   (AsmListingNamesProofs.v, AsmFrontProofs.v), so for every source the model accepts (image below 2 GiB) the printed
   listing text reads back as the structured listing, and that listing describes the image *)
Theorem C17_source_listing_reads_back :
  forall src out, assemble src = Ok out -> small (ao_layout out) ->
    read_listing (listing_lines (ao_listing out) (ao_total out)) = Some (struct_listing (ao_layout out)) /\
    check_listing (struct_listing (ao_layout out)) (ao_image out) = true.
Proof. exact source_listing_reads_back. Qed.
Print Assumptions C17_source_listing_reads_back.

(* non-vacuity *)
Definition C17_example : list directive :=
  [DRef TBR "over"%string true] ++ repeat (DImm TLDAC 0) 16 ++
  [DLabel LId "over"%string; DRef TLDAM "word"%string false; DRef TBR "over"%string true; DOpr TSVC;
   DLabel LProc "word"%string; DData (-2)].
Example C17_example_listing :
  exists out, assemble_directives C17_example [] = Ok out /\
    skipn 17 (struct_listing (ao_layout out)) =
      [LLabel 18 0; LInstr 18 0 6 1; LInstr 19 9 (-3) 2; LOpr 21 3 1; LLabel 24 0; LData 24 (-2) 4; LPadding 0] /\
    check_listing (struct_listing (ao_layout out)) (ao_image out) = true.
Proof. eexists. split; [vm_compute; reflexivity|]. split; vm_compute; reflexivity. Qed.
(* the validator refuses a listing whose operand is off by one *)
Example C17_validator_refuses :
  check_listing [LInstr 0 9 2 1; LInstr 1 3 17 2; LLabel 3 0; LOpr 3 3 1; LPadding 0] [146; 225; 49; 211] = true /\
  check_listing [LInstr 0 9 1 1; LInstr 1 3 17 2; LLabel 3 0; LOpr 3 3 1; LPadding 0] [146; 225; 49; 211] = false.
Proof. split; vm_compute; reflexivity. Qed.

(* the text of the example, and what the reader makes of single real-looking lines *)
Example C17_example_text :
  match assemble_directives C17_example [] with
  | Ok out => map string_of_chars (skipn 17 (listing_lines (ao_listing out) (ao_total out)))
  | _ => []
  end =
      ["0x000012 over                 (0 bytes)"; "0x000012 LDAM word (6)        (1 bytes)"; "0x000013 BR over (-3)         (2 bytes)";
       "0x000015 OPR SVC              (1 bytes)"; "0x000018 PROC word            (0 bytes)"; "0x000018 DATA -2              (4 bytes)";
       "00000000 PADDING 0            (0 bytes)"; "26 bytes"]%string.
Proof. vm_compute. reflexivity. Qed.
Example C17_reader_lines :
  read_listing_line (bytes_of_string "0x00001b BRN a_rather_long_label_name_0123 (-70000) (4 bytes)") = Some (LInstr 27 11 (-70000) 4) /\
  read_listing_line (bytes_of_string "0x000013 BR over (-3          (2 bytes)") = None /\
  read_listing_line (bytes_of_string "0x000013 JMP 3                (2 bytes)") = None /\
  read_listing_line (bytes_of_string "0x00001g LDAC 3               (1 bytes)") = None.
Proof. repeat split; vm_compute; reflexivity. Qed.
