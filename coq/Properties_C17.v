(* Properties_C17.v -- placeholder until the listing proofs land. *)
From HexVerif Require Import AsmSpec AsmLayout.
