(* SimTraceText.v -- the leading columns of a hexsim -t trace line as TEXT, and a reader for that text.
   Processor::trace() (hexsim.hpp) prints, before the description of the instruction about to execute,
     with debug symbols:     boost::format("%-6d %-6d %-12s %-4s %-2d ") % cycles % lastPC % symbolInfo % instrEnumToStr(instrEnum) % (instr & 0xF)
     without (empty table):  boost::format("%-6d %-6d %-4s %-2d ")       % cycles % lastPC % instrEnumToStr(instrEnum) % (instr & 0xF)
   symbolInfo = "<name>+<offset>" (offset computed in uint32_t) or the empty string.  Every column is left-justified in
   its width and NEVER truncated; one blank follows each column.
   prefix_text prints the structured prefix (n, pc, symbol, opcode, nibble) of SimModel.trace_prefix / C15_trace_columns;
   read_prefix reads such text back.  No proofs here (SimTraceTextProofs.v). *)
From Coq Require Import ZArith List String Ascii Bool.
From HexVerif Require AsmModel.
From HexVerif Require Import WMap Isa SimModel AsmLayout AsmListingRead.
Import ListNotations.
Local Open Scope Z_scope.

Definition prefix := (Z * Z * option (string * Z) * Z * Z)%type.

(* hex::instrEnumToStr *)
Definition mnemonic_names : list (Z * string) :=
  [(0, "LDAM"); (1, "LDBM"); (2, "STAM"); (3, "LDAC"); (4, "LDBC"); (5, "LDAP"); (6, "LDAI"); (7, "LDBI"); (8, "STAI");
   (9, "BR"); (10, "BRZ"); (11, "BRN"); (13, "OPR"); (14, "PFIX"); (15, "NFIX")]%string.
Fixpoint name_of (opc : Z) (tab : list (Z * string)) : string :=
  match tab with [] => "UNKNOWN"%string | (k, s) :: r => if k =? opc then s else name_of opc r end.
Definition mnemonic_text (opc : Z) : list Z := bytes_of_string (name_of opc mnemonic_names).

Definition W32 : Z := 4294967296.
Definition symbol_text (sym : option (string * Z)) : list Z :=
  match sym with
  | Some (name, off) => bytes_of_string name ++ 43 :: dec_bytes (off mod W32)
  | None => []
  end.

(* one column: the text, padded with blanks to the width, and the blank that follows *)
Definition column (w : nat) (t : list Z) (rest : list Z) : list Z := pad_right 32 w t ++ 32 :: rest.

Definition prefix_text (debug : bool) (p : prefix) : list Z :=
  let '(n, pc, sym, opc, nib) := p in
  column 6 (dec_bytes n) (column 6 (dec_bytes pc)
    ((if debug then column 12 (symbol_text sym) else (fun r => r))
      (column 4 (mnemonic_text opc) (column 2 (dec_bytes nib) [])))).

(* debugInfo.size() != 0 *)
Definition has_debug (tab : symtab) : bool := match tab with [] => false | _ => true end.

(* what hexsim -t prints at the start of the line for the instruction `s` is about to execute *)
Definition trace_line_prefix_text (tab : symtab) (s : sim) : list Z := prefix_text (has_debug tab) (trace_prefix tab s).

(* ------------------------------------------------------------------ reading *)
Fixpoint opc_of (w : list Z) (tab : list (Z * string)) : option Z :=
  match tab with
  | [] => if list_eqb w (bytes_of_string "UNKNOWN") then Some 12 else None
  | (k, s) :: r => if list_eqb w (bytes_of_string s) then Some k else opc_of w r
  end.

(* "<name>+<offset>": split at the LAST '+' (the offset has none) *)
Fixpoint split_last_plus (l : list Z) : option (list Z * list Z) :=
  match l with
  | [] => None
  | c :: r =>
      match split_last_plus r with
      | Some (a, b) => Some (c :: a, b)
      | None => if c =? 43 then Some ([], r) else None
      end
  end.
Definition read_symbol (w : list Z) : option (string * Z) :=
  match split_last_plus w with
  | Some (nm, off) => match read_nat 10 off with Some o => Some (AsmModel.string_of_chars nm, o) | None => None end
  | None => None
  end.

(* the columns of a prefix (the text up to and including the blank after the operand column, possibly followed by
   the rest of the line: only the leading words are looked at) *)
Definition read_prefix (debug : bool) (line : list Z) : option prefix :=
  match tokens line with
  | a :: b :: c :: d :: rest =>
      match read_nat 10 a, read_nat 10 b with
      | Some n, Some pc =>
          if debug then
            (* with symbols the third word is the symbol unless it is a mnemonic (empty symbol column) *)
            match opc_of c mnemonic_names with
            | Some opc => match read_nat 10 d with Some nib => Some (n, pc, None, opc, nib) | None => None end
            | None =>
                match read_symbol c, opc_of d mnemonic_names, rest with
                | Some sy, Some opc, e :: _ => match read_nat 10 e with Some nib => Some (n, pc, Some sy, opc, nib) | None => None end
                | _, _, _ => None
                end
            end
          else
            match opc_of c mnemonic_names, read_nat 10 d with
            | Some opc, Some nib => Some (n, pc, None, opc, nib)
            | _, _ => None
            end
      | _, _ => None
      end
  | _ => None
  end.
