open BinInt
open BinNums
open Datatypes
open String

type vexp =
| C of coq_Z
| V of string * coq_Z
| X of nat
| Trunc of coq_Z * vexp
| Add of coq_Z * vexp * vexp
| Sub of coq_Z * vexp * vexp
| Mul of coq_Z * vexp * vexp
| Sel of coq_Z * coq_Z * vexp
| Shl of coq_Z * vexp * vexp
| Shr of coq_Z * vexp * vexp
| Or of vexp * vexp
| And of vexp * vexp
| Xor of vexp * vexp
| Not of coq_Z * vexp
| Eq of vexp * vexp
| Ltu of vexp * vexp
| Gts of coq_Z * vexp * vexp
| Cond of vexp * vexp * vexp
| ArrSel of string * coq_Z * vexp

type env = { var : (string -> coq_Z); xs : (nat -> coq_Z);
             arr : (string -> coq_Z -> coq_Z) }

(** val signed : coq_Z -> coq_Z -> coq_Z **)

let signed w a =
  if Z.ltb a (Z.pow (Zpos (Coq_xO Coq_xH)) (Z.sub w (Zpos Coq_xH)))
  then a
  else Z.sub a (Z.pow (Zpos (Coq_xO Coq_xH)) w)

(** val b2z : bool -> coq_Z **)

let b2z = function
| true -> Zpos Coq_xH
| false -> Z0

(** val eval : env -> vexp -> coq_Z **)

let rec eval e = function
| C n -> n
| V (s, w) -> Z.modulo (e.var s) (Z.pow (Zpos (Coq_xO Coq_xH)) w)
| X k -> e.xs k
| Trunc (w, a) -> Z.modulo (eval e a) (Z.pow (Zpos (Coq_xO Coq_xH)) w)
| Add (w, a, b) ->
  Z.modulo (Z.add (eval e a) (eval e b)) (Z.pow (Zpos (Coq_xO Coq_xH)) w)
| Sub (w, a, b) ->
  Z.modulo (Z.sub (eval e a) (eval e b)) (Z.pow (Zpos (Coq_xO Coq_xH)) w)
| Mul (w, a, b) ->
  Z.modulo (Z.mul (eval e a) (eval e b)) (Z.pow (Zpos (Coq_xO Coq_xH)) w)
| Sel (l, w, a) ->
  Z.modulo (Z.div (eval e a) (Z.pow (Zpos (Coq_xO Coq_xH)) l))
    (Z.pow (Zpos (Coq_xO Coq_xH)) w)
| Shl (w, a, b) ->
  Z.modulo (Z.mul (eval e a) (Z.pow (Zpos (Coq_xO Coq_xH)) (eval e b)))
    (Z.pow (Zpos (Coq_xO Coq_xH)) w)
| Shr (w, a, b) ->
  Z.modulo (Z.div (eval e a) (Z.pow (Zpos (Coq_xO Coq_xH)) (eval e b)))
    (Z.pow (Zpos (Coq_xO Coq_xH)) w)
| Or (a, b) -> Z.coq_lor (eval e a) (eval e b)
| And (a, b) -> Z.coq_land (eval e a) (eval e b)
| Xor (a, b) -> Z.coq_lxor (eval e a) (eval e b)
| Not (w, a) ->
  Z.modulo
    (Z.sub (Z.sub (Z.pow (Zpos (Coq_xO Coq_xH)) w) (Zpos Coq_xH)) (eval e a))
    (Z.pow (Zpos (Coq_xO Coq_xH)) w)
| Eq (a, b) -> b2z (Z.eqb (eval e a) (eval e b))
| Ltu (a, b) -> b2z (Z.ltb (eval e a) (eval e b))
| Gts (w, a, b) -> b2z (Z.ltb (signed w (eval e b)) (signed w (eval e a)))
| Cond (c, a, b) -> if Z.eqb (eval e c) Z0 then eval e b else eval e a
| ArrSel (m, w, a) ->
  Z.modulo (e.arr m (eval e a)) (Z.pow (Zpos (Coq_xO Coq_xH)) w)

type design = { outputs : (string * vexp) list; next : (string * vexp) list;
                wires : (string * vexp) list;
                mem_writes : (string * (vexp * (vexp * vexp))) list; nx : 
                nat }

(** val evalp : env -> (string * vexp) -> string * coq_Z **)

let evalp e p =
  ((fst p), (eval e (snd p)))

(** val evalw :
    env -> (string * (vexp * (vexp * vexp))) ->
    string * (coq_Z * (coq_Z * coq_Z)) **)

let evalw e p =
  ((fst p), ((eval e (fst (snd p))), ((eval e (fst (snd (snd p)))),
    (eval e (snd (snd (snd p)))))))
