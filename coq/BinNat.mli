open BinNums
open BinPos
open Datatypes

module N :
 sig
  val succ_pos : coq_N -> positive

  val add : coq_N -> coq_N -> coq_N

  val mul : coq_N -> coq_N -> coq_N

  val coq_lor : coq_N -> coq_N -> coq_N

  val coq_land : coq_N -> coq_N -> coq_N

  val ldiff : coq_N -> coq_N -> coq_N

  val coq_lxor : coq_N -> coq_N -> coq_N

  val to_nat : coq_N -> nat

  val of_nat : nat -> coq_N
 end
