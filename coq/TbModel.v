(* TbModel.v -- hand-written model of hextb.cpp (load(), run(), handleSyscall(), HexSimIO) driving the generated RTL
   (gen/RtlHex.v through RtlSem.v) with Verilator's event semantics for the two
   `always_ff @(posedge i_clk or posedge i_rst)` blocks of processor.sv and memory.sv.
   Executable definitions only (extracted; tied to the C++ by tools/c13.py: harness/tb_harness.cpp links hextb.cpp's
   own load()/run()).  Proofs are in TbProofs.v.

   Verilator 5 evaluates a clocked block when its trigger  (clk & ~prev_clk) | (rst & ~prev_rst)  fires, where
   prev_* are per-block copies of the last seen clock/reset.  They are refreshed at every evaluation, but before the
   FIRST eval() they are captured (in _eval_initial) from the module-local copies of i_clk/i_rst, which hold power-on
   garbage at that moment: four hidden bits of the power-on state ([hidden]).  (That is the Verilated model of
   harness/tb_harness.cpp, built with --public-flat-rw, where every module keeps its own port copies.  In hextb as CMake
   builds it there is a single trigger pair captured from the top-level inputs, which are 1, 1 at the first eval: no edge
   at time 1, i.e. the one value hidden = (true, true, true, true).  The theorems quantify over all sixteen.)  Both
   blocks read pre-edge values (non-blocking assignment).  *)
From Coq Require Import ZArith List String Bool.
From HexVerif Require Import WMap Isa IsaMon Vexp RtlSem SimModel.
Import ListNotations.
Local Open Scope Z_scope.

(* the constants of hextb.cpp and the shape of memory.sv's write, as parameters.  [gate_from]: system-call requests are
   sampled in clock-high phases from this time on.
   [clears_memory]: load() clears the whole memory before it reads the program (the tree as it is now); before that
   repair the words outside the program kept their power-on contents.
   [Current]  the tree as it is now: reset over times 1..9, requests sampled from the last reset edge (time RESET_END - 1,
              when the processor is held in its start state and shows the request of the instruction at address 0);
   [Previous] the tree after the first repair only: requests sampled only after reset (time > RESET_END), i.e. never for
              the instruction at address 0; load() does not clear the memory;
   [Legacy]   the pinned tree: reset asserted from time 2 only, requests sampled on every high clock phase, memory write
              not qualified by !i_rst *)
Record params := { reset_begin : Z; reset_end : Z; gate_from : Z; legacy_mem_write : bool; clears_memory : bool }.
Definition Current : params := {| reset_begin := 0; reset_end := 10; gate_from := 9; legacy_mem_write := false; clears_memory := true |}.
Definition Previous : params := {| reset_begin := 0; reset_end := 10; gate_from := 11; legacy_mem_write := false; clears_memory := false |}.
Definition Legacy : params := {| reset_begin := 1; reset_end := 10; gate_from := 0; legacy_mem_write := true; clears_memory := false |}.

Record hidden := { hp_clk : bool; hp_rst : bool; hm_clk : bool; hm_rst : bool }.
(* the power-on state: registers, every memory word (load() then overwrites the loaded region), the hidden bits *)
Record init := { i_pc : Z; i_areg : Z; i_breg : Z; i_oreg : Z; i_bg : Z -> Z; i_hidden : hidden }.

(* testbench state: the design, the trigger copies, top->i_clk, top->i_rst, contextp->time(), cycle_count, exitCode *)
Record tb := { t_s : rstate; t_h : hidden; t_clk : bool; t_rst : bool; t_time : Z; t_cycles : Z; t_exit : Z }.

Definition bz (b : bool) : Z := if b then 1 else 0.
Definition xv0 : nat -> Z := fun _ => 0.

(* the two clocked blocks; tp / tm say which of them is triggered; rst is i_rst as the processor block sees it, mrst as
   the memory block's write condition sees it *)
Definition edge (d : design) (tp tm : bool) (rst mrst : Z) (s : rstate) : rstate :=
  state_of s (if tp then map (evalp (cycle_env d rst xv0 s)) (next d) else [])
             (if tm then map (evalw (cycle_env d mrst xv0 s)) (mem_writes d) else []).

(* top->eval() with the inputs (clk, rst) *)
Definition veval (p : params) (d : design) (clk rst : bool) (h : hidden) (s : rstate) : rstate * hidden :=
  let tp := (clk && negb (hp_clk h)) || (rst && negb (hp_rst h)) in
  let tm := (clk && negb (hm_clk h)) || (rst && negb (hm_rst h)) in
  (edge d tp tm (bz rst) (if legacy_mem_write p then 0 else bz rst) s,
   {| hp_clk := clk; hp_rst := rst; hm_clk := clk; hm_rst := rst |}).

(* combinational outputs after the evaluation *)
Definition out_at (d : design) (rst : bool) (s : rstate) (n : string) : Z :=
  getv n (map (evalp (cycle_env d (bz rst) xv0 s)) (outputs d)) 0.

(* load(): the file must open and hold the 4-byte header (else "could not open file" / "binary has no header"); the header
   word announces the program size in words, which must not exceed the architecture's memory (else "program is larger than
   the memory": run() is never reached and main returns 1); then the whole memory is cleared and that many
   words -- the image, NOT the debug tables that may follow it -- are read into it from word 0 (a file that ends early leaves the remaining words as they were) *)
Definition header (file : list Z) : Z :=
  match file with b0 :: b1 :: b2 :: b3 :: _ => b0 + 256 * b1 + 65536 * b2 + 16777216 * b3 | _ => 0 end.
Definition file_loads (file : list Z) : bool := (4 <=? Z.of_nat (List.length file)) && (header file <=? MEMW).
Definition image_bytes (file : list Z) : list Z := firstn (Z.to_nat (4 * header file)) (skipn 4 file).
Definition loaded_words (file : list Z) : list Z := words_of_bytes (image_bytes file).
Definition power_on (p : params) (i : init) (file : list Z) : tb :=
  {| t_s := {| r_pc := i_pc i; r_areg := i_areg i; r_breg := i_breg i; r_oreg := i_oreg i;
               r_mem := load_words (if clears_memory p then WMap.zero else WMap.empty (fun a => i_bg i a mod 4294967296)) 0 (loaded_words file) |};
     t_h := i_hidden i; t_clk := false; t_rst := false; t_time := 0; t_cycles := 0; t_exit := 0 |}.

(* one pass through the body of the while loop up to and including cycle_count++ *)
Definition tick (p : params) (d : design) (st : tb) : tb :=
  let time := t_time st + 1 in                                         (* contextp->timeInc(1) *)
  let clk := negb (t_clk st) in                                        (* top->i_clk = !top->i_clk *)
  let rst := if clk then (reset_begin p <? time) && (time <? reset_end p) else t_rst st in
  let '(s', h') := veval p d clk rst (t_h st) (t_s st) in              (* top->eval() *)
  {| t_s := s'; t_h := h'; t_clk := clk; t_rst := rst; t_time := time;
     t_cycles := if clk then t_cycles st + 1 else t_cycles st; t_exit := t_exit st |}.

(* handleSyscall(): memory_q is a VlUnpacked of 2^19 words, indexed with unsigned arithmetic and no bounds check *)
Definition TBW : Z := 524288.
Definition tidx_ok (i : Z) : bool := (0 <=? i) && (i <? TBW).
Inductive sys_result := HOk (st : tb) (inp : inputs) (ev : event) | HThrow | HUb.
Definition set_exit (st : tb) (c : Z) : tb :=
  {| t_s := t_s st; t_h := t_h st; t_clk := t_clk st; t_rst := t_rst st; t_time := t_time st; t_cycles := t_cycles st; t_exit := c |}.
Definition set_tmem (st : tb) (m : WMap.t) : tb :=
  {| t_s := {| r_pc := r_pc (t_s st); r_areg := r_areg (t_s st); r_breg := r_breg (t_s st); r_oreg := r_oreg (t_s st); r_mem := m |};
     t_h := t_h st; t_clk := t_clk st; t_rst := t_rst st; t_time := t_time st; t_cycles := t_cycles st; t_exit := t_exit st |}.
Definition handle_syscall (call : Z) (st : tb) (inp : inputs) : sys_result :=
  let m := r_mem (t_s st) in
  let sp := rd m 1 in                                                   (* unsigned spWordIndex = memory_q[1] *)
  let ld i k := if tidx_ok i then k (rd m i) else HUb in
  match call with
  | 0 => ld (u32 (sp + 2)) (fun c => HOk (set_exit st (to_int c)) inp (Exit c))        (* exitCode = memory_q[sp+2] *)
  | 1 => ld (u32 (sp + 2)) (fun v => ld (u32 (sp + 3)) (fun stream =>                  (* char value; int stream *)
           HOk st inp (Write (Z.land v 255) stream)))
  | 2 => ld (u32 (sp + 2)) (fun stream =>
           let '(b, inp') := io_input inp stream in                                    (* io.input(stream) & 0xFF *)
           if tidx_ok (u32 (sp + 1)) then HOk (set_tmem st (wr m (u32 (sp + 1)) (Z.land b 255))) inp' (Read stream (Z.land b 255))
           else HUb)
  | _ => HThrow                                                                        (* "invalid syscall" *)
  end.

(* while (!gotFinish && (maxCycles > 0 ? cycle_count <= maxCycles : true)) *)
Definition guard (max_cycles : Z) (st : tb) : bool := if 0 <? max_cycles then t_cycles st <=? max_cycles else true.
Definition gate (p : params) (st : tb) : bool := t_clk st && (gate_from p <=? t_time st).

Inductive tb_end := TReturned (exit_code : Z) | TThrew | TUb | TNoFuel.

(* run(): [after_tick] is the rest of the loop body after cycle_count++ (the system-call test); [cont] is the next iteration *)
Definition result : Type := list event * inputs * tb * tb_end.
Definition sys_request (p : params) (d : design) (st1 : tb) : bool :=
  gate p st1 && negb (out_at d (t_rst st1) (t_s st1) "o_syscall_valid" =? 0).
Definition after_tick (p : params) (d : design) (st1 : tb) (inp : inputs) (evs : list event)
                      (cont : tb -> inputs -> list event -> result) : result :=
  if sys_request p d st1 then
    match handle_syscall (out_at d (t_rst st1) (t_s st1) "o_syscall") st1 inp with
    | HOk st2 inp2 (Exit c) => (rev (Exit c :: evs), inp2, st2, TReturned (t_exit st2))     (* break *)
    | HOk st2 inp2 Tau => cont st2 inp2 evs
    | HOk st2 inp2 ev => cont st2 inp2 (ev :: evs)
    | HThrow => (rev evs, inp, st1, TThrew)
    | HUb => (rev evs, inp, st1, TUb)
    end
  else cont st1 inp evs.

Fixpoint run (p : params) (d : design) (n : nat) (max_cycles : Z) (st : tb) (inp : inputs) (evs : list event) : result :=
  if negb (guard max_cycles st) then (rev evs, inp, st, TReturned (t_exit st)) else
  match n with
  | O => (rev evs, inp, st, TNoFuel)
  | S k => after_tick p d (tick p d st) inp evs (run p d k max_cycles)
  end.

(* what an observer of the process sees: the events (bytes written per stream, bytes read, exit word), the input left
   unread, and how run() ended *)
Definition obs (r : result) : list event * inputs * tb_end :=
  let '(tr, inp, _, e) := r in (tr, inp, e).

(* the state in which the first post-reset instruction is fetched: after the evaluations of times 1..10 *)
Fixpoint ticks (p : params) (d : design) (n : nat) (st : tb) : tb :=
  match n with O => st | S k => ticks p d k (tick p d st) end.

(* ------------------------------------------------------------------ the ISA side of the comparison (spec artefacts only)
   The testbench services the system call of an instruction one clock phase BEFORE the instruction retires, and each
   instruction takes two loop iterations: [isa_phase k a inp evs] is the ISA run from state a presented in that rhythm,
   with k loop iterations of fuel left at the moment the request of a's instruction is sampled. *)
Inductive isa_end := IReturned (exit_code : Z) | INoFuel | IStuck.
Definition push (ev : event) (evs : list event) : list event := match ev with Tau => evs | _ => ev :: evs end.
Fixpoint isa_phase (k : nat) (a : arch) (inp : inputs) (evs : list event) {struct k} : list event * inputs * isa_end :=
  match Isa.step a inp with
  | Undefined _ => (rev evs, inp, IStuck)
  | Ok (a', inp', Exit c) => (rev (Exit c :: evs), inp', IReturned (to_int c))
  | Ok (a', inp', ev) =>
      match k with
      | S (S k') => isa_phase k' a' inp' (push ev evs)
      | _ => (rev (push ev evs), inp', INoFuel)
      end
  end.
(* the whole testbench run at the ISA level: eight iterations of reset in which nothing is sampled; the ninth (the last
   reset edge) samples the request of the instruction at address 0, which retires two iterations later *)
Definition isa_tb (fuel : nat) (a0 : arch) (inp : inputs) : list event * inputs * isa_end :=
  if (fuel <=? 8)%nat then ([], inp, INoFuel) else isa_phase (fuel - 9) a0 inp [].
Definition conv_end (e : tb_end) : isa_end :=
  match e with TReturned c => IReturned c | TNoFuel => INoFuel | _ => IStuck end.

(* the monitor the simulation proof (TbProofs.tb_follows) is carried out with: it is parametrised by a region D of words on
   which ISA memory and RTL memory are known to agree (extended by every store); every instruction is defined, reads (and
   fetches) only words of D, produces byte addresses below 800000, and a READ does not overwrite the word its own SVC is
   fetched from.  Since load() clears the memory the two memories agree everywhere, D is everything, and the hypothesis
   of the theorems is [safe_mon]/[well_behaved] below (TbProofs.safe_wb) *)
Definition is_store (x : access) : bool := match fst x with Store => true | _ => false end.
Definition stores_of (a : arch) : list Z := map snd (filter is_store (accesses a)).
Definition reads_defined (D : Z -> bool) (a : arch) : bool := forallb (fun x => is_store x || D (snd x)) (accesses a).
Definition extend (D : Z -> bool) (a : arch) : Z -> bool := fun x => D x || existsb (Z.eqb x) (stores_of a).
Definition ev_is_read (ev : event) : bool := match ev with Read _ _ => true | _ => false end.
Definition step_safe (a a' : arch) (ev : event) : bool :=
  (pc a' <? 800000) && (if fetch a / 16 =? 5 then areg a' <? 800000 else true) &&
  (if ev_is_read ev then negb (existsb (Z.eqb (pc a / 4)) (stores_of a)) else true) &&
  forallb (Z.leb 0) (stores_of a).
Fixpoint wb_mon (D : Z -> bool) (n : nat) (a : arch) (inp : inputs) : bool :=
  match n with
  | O => true
  | S k =>
      reads_defined D a &&
      match Isa.step a inp with
      | Undefined _ => false
      | Ok (a', inp', ev) =>
          step_safe a a' ev && match ev with Exit _ => true | _ => wb_mon (extend D a) k a' inp' end
      end
  end.
Definition region (n : Z) : Z -> bool := fun x => (0 <=? x) && (x <? n).
(* since load() clears the memory, every word outside the image is 0 on the testbench as in hexsim and in Isa.boot: no
   bookkeeping of defined words is needed any more, only definedness, range and the READ clause *)
Fixpoint safe_mon (n : nat) (a : arch) (inp : inputs) : bool :=
  match n with
  | O => true
  | S k =>
      match Isa.step a inp with
      | Undefined _ => false
      | Ok (a', inp', ev) => step_safe a a' ev && match ev with Exit _ => true | _ => safe_mon k a' inp' end
      end
  end.
(* well-behaved binary + input: along its whole ISA trace from the loaded words ws (everything else zero) every
   instruction is defined, the byte addresses it produces are below 800000, and a READ does not overwrite its own SVC *)
Definition well_behaved (ws : list Z) (inp : inputs) : Prop := forall n, safe_mon n (boot ws) inp = true.

(* the same monitor WITHOUT the clause "a READ does not overwrite the word its own SVC is fetched from": the full quantifier of
   C06/C13 (used only to state the full-strength properties next to the proved _partial ones) *)
Definition step_safe0 (a a' : arch) (ev : event) : bool :=
  (pc a' <? 800000) && (if fetch a / 16 =? 5 then areg a' <? 800000 else true) && forallb (Z.leb 0) (stores_of a).
Fixpoint safe_mon0 (n : nat) (a : arch) (inp : inputs) : bool :=
  match n with
  | O => true
  | S k =>
      match Isa.step a inp with
      | Undefined _ => false
      | Ok (a', inp', ev) => step_safe0 a a' ev && match ev with Exit _ => true | _ => safe_mon0 k a' inp' end
      end
  end.
Definition well_behaved0 (ws : list Z) (inp : inputs) : Prop := forall n, safe_mon0 n (boot ws) inp = true.

(* hextb's main(): load(), then run(); None = load() threw (message on stderr, exit status 1, run() never started) *)
Definition tb_main (p : params) (d : design) (n : nat) (max_cycles : Z) (i : init) (file : list Z) (inp : inputs) : option result :=
  if file_loads file then Some (run p d n max_cycles (power_on p i file) inp []) else None.
