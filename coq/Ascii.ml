open BinNat
open BinNums
open Bool
open Datatypes

type ascii =
| Ascii of bool * bool * bool * bool * bool * bool * bool * bool

(** val zero : ascii **)

let zero =
  Ascii (false, false, false, false, false, false, false, false)

(** val one : ascii **)

let one =
  Ascii (true, false, false, false, false, false, false, false)

(** val shift : bool -> ascii -> ascii **)

let shift c = function
| Ascii (a1, a2, a3, a4, a5, a6, a7, _) ->
  Ascii (c, a1, a2, a3, a4, a5, a6, a7)

(** val eqb : ascii -> ascii -> bool **)

let eqb a b =
  let Ascii (a0, a1, a2, a3, a4, a5, a6, a7) = a in
  let Ascii (b0, b1, b2, b3, b4, b5, b6, b7) = b in
  if if if if if if if eqb a0 b0 then eqb a1 b1 else false
                 then eqb a2 b2
                 else false
              then eqb a3 b3
              else false
           then eqb a4 b4
           else false
        then eqb a5 b5
        else false
     then eqb a6 b6
     else false
  then eqb a7 b7
  else false

(** val ascii_of_pos : positive -> ascii **)

let ascii_of_pos =
  let rec loop n p =
    match n with
    | O -> zero
    | S n' ->
      (match p with
       | Coq_xI p' -> shift true (loop n' p')
       | Coq_xO p' -> shift false (loop n' p')
       | Coq_xH -> one)
  in loop (S (S (S (S (S (S (S (S O))))))))

(** val ascii_of_N : coq_N -> ascii **)

let ascii_of_N = function
| N0 -> zero
| Npos p -> ascii_of_pos p

(** val ascii_of_nat : nat -> ascii **)

let ascii_of_nat a =
  ascii_of_N (N.of_nat a)

(** val coq_N_of_digits : bool list -> coq_N **)

let rec coq_N_of_digits = function
| [] -> N0
| b :: l' ->
  N.add (if b then Npos Coq_xH else N0)
    (N.mul (Npos (Coq_xO Coq_xH)) (coq_N_of_digits l'))

(** val coq_N_of_ascii : ascii -> coq_N **)

let coq_N_of_ascii = function
| Ascii (a0, a1, a2, a3, a4, a5, a6, a7) ->
  coq_N_of_digits
    (a0 :: (a1 :: (a2 :: (a3 :: (a4 :: (a5 :: (a6 :: (a7 :: []))))))))

(** val nat_of_ascii : ascii -> nat **)

let nat_of_ascii a =
  N.to_nat (coq_N_of_ascii a)
