(* Properties_C03.v -- C03: the Verilog processor (processor.sv + memory.sv wired as in hex.sv) is cycle-for-cycle
   equivalent to the ISA -- and so are the two shipped plain-Verilog copies verilog/processor.v and synth/processor.v
   (theorems 6-9: C16's equivalence composed with the reference datapath at the ports of the processor, RtlCopies.v).  RtlHex.design is regenerated from /repo's working tree by tools/vl2coq.py on every run;
   RtlSem.cycle is one rising clock edge with i_rst = 0; RefRtl is the hand-written reference datapath; abs maps an RTL
   state to an ISA state; Inv = register widths, memory words < 2^32, low nibble of oreg_q clear;
   in_range = the property's address range (next pc / branch / BRB target / LDAP result < 800000; word addresses
   < 200000 are implied by Isa.step = Ok). *)
From Coq Require Import ZArith List String.
From HexVerif Require Import WMap Isa Vexp RtlSem RefRtl RtlC03 RtlIsa RtlRun RtlCopies.
From HexVerif.gen Require RtlHex RtlSv RtlV RtlVSynth.
Import ListNotations.
Local Open Scope Z_scope.

(* 1. the generated design is the reference datapath (reflection over the 256 instruction bytes, vm_compute) *)
Theorem C03_rtl_is_reference : forall s : rstate, wf s ->
  cycle RtlHex.design s = ref_cycle s /\
  outs RtlHex.design s = [("o_syscall"%string, ref_syscall s); ("o_syscall_valid"%string, ref_syscall_valid s)] /\
  wire RtlHex.design s n_fdata = r_fetch s.
Proof. exact rtl_is_reference. Qed.
Print Assumptions C03_rtl_is_reference.

(* a clock edge with reset asserted clears pc, areg, breg, oreg from every state *)
Theorem C03_reset_clears_registers : forall (s : rstate) (xv : nat -> Z),
  let s' := cycle_gen RtlHex.design 1 xv s in r_pc s' = 0 /\ r_areg s' = 0 /\ r_breg s' = 0 /\ r_oreg s' = 0.
Proof. exact rtl_reset_clears. Qed.
Print Assumptions C03_reset_clears_registers.

(* the invariant holds after reset and the reset state is the ISA's boot state *)
Theorem C03_reset_state_inv : forall ws : list Z, Forall (fun w => 0 <= w < 4294967296) ws ->
  Inv (reset_state (load_words WMap.zero 0 ws)) /\ abs (reset_state (load_words WMap.zero 0 ws)) = boot ws.
Proof. exact reset_state_inv. Qed.
Print Assumptions C03_reset_state_inv.

(* 2. one clock edge of the design = one ISA instruction: pc, areg, breg, oreg and the written memory word; the invariant
   is preserved.  For the READ system call the memory effect is the testbench's (see C03_clock_refines_isa_partial). *)
Theorem C03_cycle_refines_isa : forall (s : rstate) (inp : inputs) (a' : arch) (inp' : inputs) (ev : event),
  Inv s -> step (abs s) inp = Ok (a', inp', ev) -> in_range (fetch (abs s)) a' ->
  abs (cycle RtlHex.design s) = (if is_read ev then with_mem a' (r_mem s) else a') /\ Inv (cycle RtlHex.design s).
Proof. exact cycle_refines_isa. Qed.
Print Assumptions C03_cycle_refines_isa.
(* The name is kept although the statement is under [Inv]: Inv (register widths, memory words < 2^32, low nibble of oreg_q
   clear) holds in the reset state (C03_reset_state_inv) and is preserved by every clock (second conjunct above), so it
   holds in every state a run from reset reaches -- which is what the property ("Started from reset ...") quantifies over.
   For ALL states the statement is false (the RTL decodes a prefixed OPR by the operand nibble only): *)
Definition C03_cycle_refines_isa_all_states : Prop :=
  forall (s : rstate) (inp : inputs) (a' : arch) (inp' : inputs) (ev : event),
  wf s -> step (abs s) inp = Ok (a', inp', ev) -> in_range (fetch (abs s)) a' ->
  abs (cycle RtlHex.design s) = (if is_read ev then with_mem a' (r_mem s) else a').
Theorem C03_cycle_refines_isa_all_states_refuted : ~ C03_cycle_refines_isa_all_states.
Proof. exact cycle_refines_isa_all_states_refuted. Qed.
Print Assumptions C03_cycle_refines_isa_all_states_refuted.

(* 3. the system-call request: o_syscall_valid is 1 exactly when the fetched byte is 0xD3 (OPR SVC), else 0;
   o_syscall is areg[1:0], which is areg itself for the three defined calls *)
(* (the ISA defines only the calls 0, 1, 2: for areg >= 3 Isa.step is BadSvc, outside the property's "defined meaning"; there
   the RTL requests call areg mod 4 -- areg = 4 requests EXIT -- which the check runs and reports without judging) *)
Theorem C03_syscall_request : forall s : rstate, wf s ->
  let o := outs RtlHex.design s in
  (getv "o_syscall_valid" o 0 = 1 <-> fetch (abs s) = 211) /\
  (getv "o_syscall_valid" o 0 = 0 \/ getv "o_syscall_valid" o 0 = 1) /\
  getv "o_syscall" o 0 = areg (abs s) mod 4 /\
  (areg (abs s) <= 2 -> getv "o_syscall" o 0 = areg (abs s)).
Proof. exact syscall_request. Qed.
Print Assumptions C03_syscall_request.

(* ... and with these request lines driving the testbench's shim (hextb.cpp handleSyscall), a clock produces exactly the
   ISA's successor state, event and input consumption.
   Hypothesis read_safe (here and in run_ok of theorems 4 and 5): a READ must not overwrite the byte of its own SVC.
   KNOWN FINDING, see known_findings.json (C03, kind read-overwrites-own-svc): that shape lies inside the property's
   literal quantifier and there the RTL with the shim and the ISA differ -- the shim writes before the clock edge that
   retires the SVC, so the RTL retires the overwritten byte.  tools/c03.py exhibits it on every run. *)
Theorem C03_clock_refines_isa_partial : forall (s : rstate) (inp : inputs) (a' : arch) (inp' : inputs) (ev : event),
  Inv s -> step (abs s) inp = Ok (a', inp', ev) -> in_range (fetch (abs s)) a' -> read_safe (abs s) a' ev ->
  exists s', tb_step RtlHex.design s inp = (s', inp', ev) /\ abs s' = a' /\ Inv s'.
Proof. exact clock_refines_isa. Qed.
Print Assumptions C03_clock_refines_isa_partial.
(* _partial: what is missing is exactly the read_safe hypothesis.  The full statement is false (known finding): *)
Definition C03_clock_refines_isa_full : Prop :=
  forall (s : rstate) (inp : inputs) (a' : arch) (inp' : inputs) (ev : event),
  Inv s -> step (abs s) inp = Ok (a', inp', ev) -> in_range (fetch (abs s)) a' ->
  exists s', tb_step RtlHex.design s inp = (s', inp', ev) /\ abs s' = a'.
Theorem C03_clock_refines_isa_full_refuted : ~ C03_clock_refines_isa_full.
Proof. exact clock_refines_isa_full_refuted. Qed.
Print Assumptions C03_clock_refines_isa_full_refuted.

(* 4. exactly one instruction retires per clock: over n clocks the bytes the design fetches and retires are, clock by
   clock, the n instruction bytes the ISA executes *)
Theorem C03_one_instruction_per_clock_partial : forall (n : nat) (s : rstate) (inp : inputs) (a : arch) (inp' : inputs) (evs : list event) (bs : list Z),
  Inv s -> isa_run n (abs s) inp = Some (a, inp', evs, bs) -> run_ok n (abs s) inp ->
  exists s' evs', tb_run RtlHex.design n s inp = (s', inp', evs', bs) /\ List.length bs = n.
Proof. exact one_instruction_per_clock. Qed.
Print Assumptions C03_one_instruction_per_clock_partial.

(* 5. whole runs from reset on the same memory image and the same input: after n clocks the design's registers and
   memory are the ISA's after n instructions, with the same events and the same remaining input *)
Theorem C03_run_refines_isa_partial : forall (n : nat) (ws : list Z) (inp : inputs) (a : arch) (inp' : inputs) (evs : list event) (bs : list Z),
  Forall (fun w => 0 <= w < 4294967296) ws ->
  isa_run n (boot ws) inp = Some (a, inp', evs, bs) -> run_ok n (boot ws) inp ->
  exists s', tb_run RtlHex.design n (reset_state (load_words WMap.zero 0 ws)) inp = (s', inp', evs, bs) /\ abs s' = a.
Proof. exact run_refines_isa. Qed.
Print Assumptions C03_run_refines_isa_partial.
(* _partial (theorems 4 and 5): run_ok contains read_safe for every READ of the run; the full statements ask for the
   property's range only.  They fail on runs that contain the known-finding shape (C03_clock_refines_isa_full_refuted is
   their one-clock instance). *)
Definition C03_run_refines_isa_full : Prop :=
  forall (n : nat) (ws : list Z) (inp : inputs) (a : arch) (inp' : inputs) (evs : list event) (bs : list Z),
  Forall (fun w => 0 <= w < 4294967296) ws ->
  isa_run n (boot ws) inp = Some (a, inp', evs, bs) -> run_in_range n (boot ws) inp ->
  exists s', tb_run RtlHex.design n (reset_state (load_words WMap.zero 0 ws)) inp = (s', inp', evs, bs) /\ abs s' = a.
Definition C03_one_instruction_per_clock_full : Prop :=
  forall (n : nat) (s : rstate) (inp : inputs) (a : arch) (inp' : inputs) (evs : list event) (bs : list Z),
  Inv s -> isa_run n (abs s) inp = Some (a, inp', evs, bs) -> run_in_range n (abs s) inp ->
  exists s' evs', tb_run RtlHex.design n s inp = (s', inp', evs', bs) /\ List.length bs = n.

(* ------------------------------------------------------------------ all three shipped processors.
   RtlSv / RtlV / RtlVSynth are the designs generated on this run from verilog/processor.sv, verilog/processor.v and
   synth/processor.v (top module processor).  [penv s k dd] presents the registers of s, the instruction byte k on i_f_data,
   the read data dd on i_d_data and i_rst = 0 at the ports of the processor.  [pcycle d] wires the processor d to the memory
   as hex.sv / memory.sv do: the byte at o_f_addr is fetched, the word at o_d_addr is read, and o_d_data is stored at
   o_d_addr when o_d_valid and o_d_we (RtlCopies.pcycle).  The proofs compose C16's equivalence (RtlC16.v_equiv_sv,
   vsynth_equiv_v: the copies equal processor.sv on every output and next-state function) with the closed check that
   processor.sv is the reference datapath at its ports (RtlCopies.sv_check). *)

(* 6. at the ports: for every well-formed state, instruction byte and read data, each copy raises exactly the reference
   request (fetch address, data address / data / valid / write enable, system-call lines) and computes the reference next
   pc, areg, breg, oreg *)
Theorem C03_copies_are_reference : forall (s : rstate) (k dd : Z), wf s -> 0 <= k < 256 -> 0 <= dd < M32 ->
  (map (evalp (penv s k dd)) (outputs RtlV.design) = ref_outputs s k /\ map (evalp (penv s k dd)) (next RtlV.design) = ref_next s k dd) /\
  (map (evalp (penv s k dd)) (outputs RtlVSynth.design) = ref_outputs s k /\ map (evalp (penv s k dd)) (next RtlVSynth.design) = ref_next s k dd) /\
  (map (evalp (penv s k dd)) (outputs RtlSv.design) = ref_outputs s k /\ map (evalp (penv s k dd)) (next RtlSv.design) = ref_next s k dd).
Proof. exact copies_are_reference. Qed.
Print Assumptions C03_copies_are_reference.

(* 7. wired to the memory, one clock of each copy is one clock of the hex top (theorem 1) ... *)
Theorem C03_copies_cycle_is_hex : forall s : rstate, wf s ->
  pcycle RtlV.design s = cycle RtlHex.design s /\ pcycle RtlVSynth.design s = cycle RtlHex.design s /\
  pcycle RtlSv.design s = cycle RtlHex.design s.
Proof. exact copies_cycle_is_hex. Qed.
Print Assumptions C03_copies_cycle_is_hex.

(* 8. ... and hence one ISA instruction, under the same hypotheses and with the same conclusion as theorem 2 *)
Theorem C03_copies_refine_isa : forall (s : rstate) (inp : inputs) (a' : arch) (inp' : inputs) (ev : event),
  Inv s -> step (abs s) inp = Ok (a', inp', ev) -> in_range (fetch (abs s)) a' ->
  (abs (pcycle RtlV.design s) = (if is_read ev then with_mem a' (r_mem s) else a') /\ Inv (pcycle RtlV.design s)) /\
  (abs (pcycle RtlVSynth.design s) = (if is_read ev then with_mem a' (r_mem s) else a') /\ Inv (pcycle RtlVSynth.design s)) /\
  (abs (pcycle RtlSv.design s) = (if is_read ev then with_mem a' (r_mem s) else a') /\ Inv (pcycle RtlSv.design s)).
Proof. exact copies_refine_isa. Qed.
Print Assumptions C03_copies_refine_isa.

(* 9. reset: the registers of both copies are assigned in blocks sensitive to posedge i_clk or posedge i_rst, and a clock
   edge with i_rst = 1 clears them from every state, for every instruction byte and data input *)
Theorem C03_copies_reset :
  (clocking RtlV.design = [("areg_q", regs_clk); ("breg_q", regs_clk); ("oreg_q", regs_clk); ("pc_q", regs_clk)]%string /\
   clocking RtlVSynth.design = [("areg_q", regs_clk); ("breg_q", regs_clk); ("oreg_q", regs_clk); ("pc_q", regs_clk)]%string) /\
  forall e : env, 0 <= var e "i_f_data" < 256 -> var e "i_rst" = 1 ->
  map (evalp e) (next RtlV.design) = cleared /\ map (evalp e) (next RtlVSynth.design) = cleared /\ map (evalp e) (next RtlSv.design) = cleared.
Proof. exact copies_reset. Qed.
Print Assumptions C03_copies_reset.

(* ------------------------------------------------------------------ non-vacuity: a program for which every hypothesis
   holds, run on the ISA and on the generated design.  LDAC 5; LDBC 3; ADD; STAM 2 *)
Definition demo_ws : list Z := [584139573].                  (* bytes 35 43 d1 22 *)
Definition no_input : inputs := {| console := []; files := fun _ => [] |}.
Example C03_hypotheses_satisfiable :
  exists a inp' evs, isa_run 4 (boot demo_ws) no_input = Some (a, inp', evs, [53; 67; 209; 34]) /\
    run_ok 4 (boot demo_ws) no_input /\ areg a = 8 /\ rd (mem a) 2 = 8 /\ pc a = 4.
Proof.
  eexists _, _, _. split; [vm_compute; reflexivity|]. split; [|vm_compute; auto].
  cbn [run_ok]. vm_compute. repeat split; try discriminate; try reflexivity.
Qed.
Example C03_design_computes :
  let '(s', _, _, bs) := tb_run RtlHex.design 4 (reset_state (load_words WMap.zero 0 demo_ws)) no_input in
  bs = [53; 67; 209; 34] /\ r_areg s' = 8 /\ rd (r_mem s') 2 = 8 /\ r_pc s' = 4.
Proof. vm_compute. auto. Qed.
(* the same program on verilog/processor.v and synth/processor.v wired to the memory *)
Example C03_copies_compute :
  let s0 := reset_state (load_words WMap.zero 0 demo_ws) in
  (r_areg (four RtlV.design s0) = 8 /\ rd (r_mem (four RtlV.design s0)) 2 = 8 /\ r_pc (four RtlV.design s0) = 4) /\
  (r_areg (four RtlVSynth.design s0) = 8 /\ rd (r_mem (four RtlVSynth.design s0)) 2 = 8 /\ r_pc (four RtlVSynth.design s0) = 4).
Proof. exact copies_compute. Qed.
(* the closed check behind theorem 6 separates designs: processor.sv with its ADD turned into SUB fails it, at byte 0xD1 *)
Example C03_copies_check_rejects_a_broken_design :
  proc_check (RtlC16.broken RtlSv.design) = false /\ proc_failures (RtlC16.broken RtlSv.design) = [209].
Proof. exact proc_check_discriminates. Qed.
