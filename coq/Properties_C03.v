(* Properties_C03.v -- C03: the Verilog processor (processor.sv + memory.sv wired as in hex.sv) is cycle-for-cycle
   equivalent to the ISA.  RtlHex.design is regenerated from /repo's working tree by tools/vl2coq.py on every run;
   RtlSem.cycle is one rising clock edge with i_rst = 0; RefRtl is the hand-written reference datapath; abs maps an RTL
   state to an ISA state; Inv = register widths, memory words < 2^32, low nibble of oreg_q clear;
   in_range = the property's address range (next pc / branch / BRB target / LDAP result < 800000; word addresses
   < 200000 are implied by Isa.step = Ok). *)
From Coq Require Import ZArith List String.
From HexVerif Require Import WMap Isa Vexp RtlSem RefRtl RtlC03 RtlIsa RtlRun.
From HexVerif.gen Require RtlHex.
Import ListNotations.
Local Open Scope Z_scope.

(* 1. the generated design is the reference datapath (reflection over the 256 instruction bytes, vm_compute) *)
Theorem C03_rtl_is_reference : forall s : rstate, wf s ->
  cycle RtlHex.design s = ref_cycle s /\
  outs RtlHex.design s = [("o_syscall"%string, ref_syscall s); ("o_syscall_valid"%string, ref_syscall_valid s)] /\
  wire RtlHex.design s n_fdata = r_fetch s.
Proof. exact rtl_is_reference. Qed.
Print Assumptions C03_rtl_is_reference.

(* a clock edge with reset asserted clears pc, areg, breg, oreg from every state *)
Theorem C03_reset_clears_registers : forall (s : rstate) (xv : nat -> Z),
  let s' := cycle_gen RtlHex.design 1 xv s in r_pc s' = 0 /\ r_areg s' = 0 /\ r_breg s' = 0 /\ r_oreg s' = 0.
Proof. exact rtl_reset_clears. Qed.
Print Assumptions C03_reset_clears_registers.

(* the invariant holds after reset and the reset state is the ISA's boot state *)
Theorem C03_reset_state_inv : forall ws : list Z, Forall (fun w => 0 <= w < 4294967296) ws ->
  Inv (reset_state (load_words WMap.zero 0 ws)) /\ abs (reset_state (load_words WMap.zero 0 ws)) = boot ws.
Proof. exact reset_state_inv. Qed.
Print Assumptions C03_reset_state_inv.

(* 2. one clock edge of the design = one ISA instruction: pc, areg, breg, oreg and the written memory word; the invariant
   is preserved.  For the READ system call the memory effect is the testbench's (see C03_clock_refines_isa_partial). *)
Theorem C03_cycle_refines_isa : forall (s : rstate) (inp : inputs) (a' : arch) (inp' : inputs) (ev : event),
  Inv s -> step (abs s) inp = Ok (a', inp', ev) -> in_range (fetch (abs s)) a' ->
  abs (cycle RtlHex.design s) = (if is_read ev then with_mem a' (r_mem s) else a') /\ Inv (cycle RtlHex.design s).
Proof. exact cycle_refines_isa. Qed.
Print Assumptions C03_cycle_refines_isa.
(* The name is kept although the statement is under [Inv]: Inv (register widths, memory words < 2^32, low nibble of oreg_q
   clear) holds in the reset state (C03_reset_state_inv) and is preserved by every clock (second conjunct above), so it
   holds in every state a run from reset reaches -- which is what the property ("Started from reset ...") quantifies over.
   For ALL states the statement is false (the RTL decodes a prefixed OPR by the operand nibble only): *)
Definition C03_cycle_refines_isa_all_states : Prop :=
  forall (s : rstate) (inp : inputs) (a' : arch) (inp' : inputs) (ev : event),
  wf s -> step (abs s) inp = Ok (a', inp', ev) -> in_range (fetch (abs s)) a' ->
  abs (cycle RtlHex.design s) = (if is_read ev then with_mem a' (r_mem s) else a').
Theorem C03_cycle_refines_isa_all_states_refuted : ~ C03_cycle_refines_isa_all_states.
Proof. exact cycle_refines_isa_all_states_refuted. Qed.
Print Assumptions C03_cycle_refines_isa_all_states_refuted.

(* 3. the system-call request: o_syscall_valid is 1 exactly when the fetched byte is 0xD3 (OPR SVC), else 0;
   o_syscall is areg[1:0], which is areg itself for the three defined calls *)
(* (the ISA defines only the calls 0, 1, 2: for areg >= 3 Isa.step is BadSvc, outside the property's "defined meaning"; there
   the RTL requests call areg mod 4 -- areg = 4 requests EXIT -- which the check runs and reports without judging) *)
Theorem C03_syscall_request : forall s : rstate, wf s ->
  let o := outs RtlHex.design s in
  (getv "o_syscall_valid" o 0 = 1 <-> fetch (abs s) = 211) /\
  (getv "o_syscall_valid" o 0 = 0 \/ getv "o_syscall_valid" o 0 = 1) /\
  getv "o_syscall" o 0 = areg (abs s) mod 4 /\
  (areg (abs s) <= 2 -> getv "o_syscall" o 0 = areg (abs s)).
Proof. exact syscall_request. Qed.
Print Assumptions C03_syscall_request.

(* ... and with these request lines driving the testbench's shim (hextb.cpp handleSyscall), a clock produces exactly the
   ISA's successor state, event and input consumption.
   Hypothesis read_safe (here and in run_ok of theorems 4 and 5): a READ must not overwrite the byte of its own SVC.
   KNOWN FINDING, see known_findings.json (C03, kind read-overwrites-own-svc): that shape lies inside the property's
   literal quantifier and there the RTL with the shim and the ISA differ -- the shim writes before the clock edge that
   retires the SVC, so the RTL retires the overwritten byte.  tools/c03.py exhibits it on every run. *)
Theorem C03_clock_refines_isa_partial : forall (s : rstate) (inp : inputs) (a' : arch) (inp' : inputs) (ev : event),
  Inv s -> step (abs s) inp = Ok (a', inp', ev) -> in_range (fetch (abs s)) a' -> read_safe (abs s) a' ev ->
  exists s', tb_step RtlHex.design s inp = (s', inp', ev) /\ abs s' = a' /\ Inv s'.
Proof. exact clock_refines_isa. Qed.
Print Assumptions C03_clock_refines_isa_partial.
(* _partial: what is missing is exactly the read_safe hypothesis.  The full statement is false (known finding): *)
Definition C03_clock_refines_isa_full : Prop :=
  forall (s : rstate) (inp : inputs) (a' : arch) (inp' : inputs) (ev : event),
  Inv s -> step (abs s) inp = Ok (a', inp', ev) -> in_range (fetch (abs s)) a' ->
  exists s', tb_step RtlHex.design s inp = (s', inp', ev) /\ abs s' = a'.
Theorem C03_clock_refines_isa_full_refuted : ~ C03_clock_refines_isa_full.
Proof. exact clock_refines_isa_full_refuted. Qed.
Print Assumptions C03_clock_refines_isa_full_refuted.

(* 4. exactly one instruction retires per clock: over n clocks the bytes the design fetches and retires are, clock by
   clock, the n instruction bytes the ISA executes *)
Theorem C03_one_instruction_per_clock_partial : forall (n : nat) (s : rstate) (inp : inputs) (a : arch) (inp' : inputs) (evs : list event) (bs : list Z),
  Inv s -> isa_run n (abs s) inp = Some (a, inp', evs, bs) -> run_ok n (abs s) inp ->
  exists s' evs', tb_run RtlHex.design n s inp = (s', inp', evs', bs) /\ List.length bs = n.
Proof. exact one_instruction_per_clock. Qed.
Print Assumptions C03_one_instruction_per_clock_partial.

(* 5. whole runs from reset on the same memory image and the same input: after n clocks the design's registers and
   memory are the ISA's after n instructions, with the same events and the same remaining input *)
Theorem C03_run_refines_isa_partial : forall (n : nat) (ws : list Z) (inp : inputs) (a : arch) (inp' : inputs) (evs : list event) (bs : list Z),
  Forall (fun w => 0 <= w < 4294967296) ws ->
  isa_run n (boot ws) inp = Some (a, inp', evs, bs) -> run_ok n (boot ws) inp ->
  exists s', tb_run RtlHex.design n (reset_state (load_words WMap.zero 0 ws)) inp = (s', inp', evs, bs) /\ abs s' = a.
Proof. exact run_refines_isa. Qed.
Print Assumptions C03_run_refines_isa_partial.
(* _partial (theorems 4 and 5): run_ok contains read_safe for every READ of the run; the full statements ask for the
   property's range only.  They fail on runs that contain the known-finding shape (C03_clock_refines_isa_full_refuted is
   their one-clock instance). *)
Definition C03_run_refines_isa_full : Prop :=
  forall (n : nat) (ws : list Z) (inp : inputs) (a : arch) (inp' : inputs) (evs : list event) (bs : list Z),
  Forall (fun w => 0 <= w < 4294967296) ws ->
  isa_run n (boot ws) inp = Some (a, inp', evs, bs) -> run_in_range n (boot ws) inp ->
  exists s', tb_run RtlHex.design n (reset_state (load_words WMap.zero 0 ws)) inp = (s', inp', evs, bs) /\ abs s' = a.
Definition C03_one_instruction_per_clock_full : Prop :=
  forall (n : nat) (s : rstate) (inp : inputs) (a : arch) (inp' : inputs) (evs : list event) (bs : list Z),
  Inv s -> isa_run n (abs s) inp = Some (a, inp', evs, bs) -> run_in_range n (abs s) inp ->
  exists s' evs', tb_run RtlHex.design n s inp = (s', inp', evs', bs) /\ List.length bs = n.

(* ------------------------------------------------------------------ non-vacuity: a program for which every hypothesis
   holds, run on the ISA and on the generated design.  LDAC 5; LDBC 3; ADD; STAM 2 *)
Definition demo_ws : list Z := [584139573].                  (* bytes 35 43 d1 22 *)
Definition no_input : inputs := {| console := []; files := fun _ => [] |}.
Example C03_hypotheses_satisfiable :
  exists a inp' evs, isa_run 4 (boot demo_ws) no_input = Some (a, inp', evs, [53; 67; 209; 34]) /\
    run_ok 4 (boot demo_ws) no_input /\ areg a = 8 /\ rd (mem a) 2 = 8 /\ pc a = 4.
Proof.
  eexists _, _, _. split; [vm_compute; reflexivity|]. split; [|vm_compute; auto].
  cbn [run_ok]. vm_compute. repeat split; try discriminate; try reflexivity.
Qed.
Example C03_design_computes :
  let '(s', _, _, bs) := tb_run RtlHex.design 4 (reset_state (load_words WMap.zero 0 demo_ws)) no_input in
  bs = [53; 67; 209; 34] /\ r_areg s' = 8 /\ rd (r_mem s') 2 = 8 /\ r_pc s' = 4.
Proof. vm_compute. auto. Qed.
