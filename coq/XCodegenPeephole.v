(* XCodegenPeephole.v -- the three rewrite rules of xcmp's OptimiseDirectives (the model's `peephole`), each proved
   to preserve the effect of the block it rewrites, at the level of code_at:

     rule 1   BR l; LABEL l                      ->  LABEL l
     rule 2   STAM 1; LDAM 1                     ->  STAM 1
     rule 3   LDBM 1; STAI x; LDAM 1; LDAI x     ->  LDBM 1; STAI x

   For each rule: wherever the ISA's decoder reads the left block (code_at, in any image, at any position) the
   machine runs silently through it, from every state, to the state that `fold sem` of the RIGHT block gives --
   the removed instructions change nothing.  Rule 3 needs the frame word not to be the stack-pointer word itself
   (wrap (mem[1] + x) <> 1: true for every frame xcmp lays out, since the stack lies far above word 1; the rewrite
   would be unsound otherwise) and to be in memory.

   What is NOT proved: that rewriting a whole procedure preserves the behaviour of the whole image.  The rewrite
   shifts every later instruction, so label positions and hence the link addresses held in registers and frames
   differ between the two images; a whole-image simulation needs to know which words hold code addresses, i.e. the
   frame structure of the correctness proof.  The lowered image is the one C01_program_partial speaks of; the
   optimised one is tied to xcmp's bytes by tools/c01.py. *)
From Coq Require Import ZArith List Bool Lia.
From HexVerif Require Import WMap Isa XCodegenIsa.
Import ListNotations.
Local Open Scope Z_scope.

Ltac one_instr Hc mid Hi := cbn [code_at] in Hc; destruct Hc as (mid & Hi & Hc).

(* the effect of a straight-line block on (areg, breg, memory) *)
Fixpoint block_sem (c : list instr) (a b : Z) (m : WMap.t) : Z * Z * WMap.t :=
  match c with
  | [] => (a, b, m)
  | i :: r => let '(a1, b1, m1) := sem i a b m in block_sem r a1 b1 m1
  end.

Lemma in_mem_nonneg a : in_mem a = true -> 0 <= a.
Proof. unfold in_mem. intros H. apply andb_prop in H. destruct H as [H _]. apply Z.leb_le in H. exact H. Qed.

Section Rules.
  Variable C : WMap.t -> Prop.
  Variable lab : label -> Z.

  (* rule 1: a branch to the label that follows it does nothing *)
  Theorem rule1 l pos nxt m a b inp :
    code_at C lab pos [BR l; LABEL l] nxt -> C m -> nxt < W -> 0 <= pos ->
    taus inp (mk pos a b 0 m) (mk nxt a b 0 m).
  Proof.
    intros Hc HC Hn Hp. one_instr Hc p1 Hi1. one_instr Hc p2 Hi2. subst p2. cbn [instr_at] in Hi2. destruct Hi2 as [<- Hl].
    pose proof (instr_at_le _ _ _ _ _ Hi1) as L1.
    pose proof (exec_br C lab m pos p1 l a b inp Hi1 HC Hn ltac:(lia)) as T. rewrite Hl in T. exact T.
  Qed.

  (* rule 2: loading the word just stored from areg leaves areg as it is; word 1 (the stack pointer) may be stored to *)
  Theorem rule2 (C_wr1 : forall m v, C m -> C (wr m 1 v)) pos nxt m a b inp :
    code_at C lab pos [STAM 1; LDAM 1] nxt -> C m -> nxt < W ->
    taus inp (mk pos a b 0 m)
         (let '(a', b', m') := block_sem [STAM 1] a b m in mk nxt a' b' 0 m').
  Proof.
    intros Hc HC Hn. one_instr Hc p1 Hi1. one_instr Hc p2 Hi2. subst p2.
    pose proof (instr_at_le _ _ _ _ _ Hi2) as L2.
    pose proof (exec_instr C lab m pos p1 (STAM 1) a b inp eq_refl Hi1 HC eq_refl ltac:(lia)) as T1. cbn [sem fst snd] in T1.
    pose proof (exec_instr C lab (wr m 1 a) p1 nxt (LDAM 1) a b inp eq_refl Hi2 (C_wr1 m a HC) eq_refl Hn) as T2.
    cbn [sem fst snd] in T2. rewrite rd_wr_same in T2.
    cbn [block_sem sem]. eapply taus_trans; eassumption.
  Qed.

  (* rule 3: loading the frame word just stored from areg leaves areg as it is *)
  Theorem rule3 x pos nxt m a b inp :
    code_at C lab pos [LDBM 1; STAI x; LDAM 1; LDAI x] nxt -> C m -> nxt < W ->
    in_mem (wrap (rd m 1 + x)) = true -> wrap (rd m 1 + x) <> 1 -> C (wr m (wrap (rd m 1 + x)) a) ->
    taus inp (mk pos a b 0 m)
         (let '(a', b', m') := block_sem [LDBM 1; STAI x] a b m in mk nxt a' b' 0 m').
  Proof.
    intros Hc HC Hn Hin Hne HC'. one_instr Hc p1 Hi1. one_instr Hc p2 Hi2. one_instr Hc p3 Hi3. one_instr Hc p4 Hi4. subst p4.
    pose proof (instr_at_le _ _ _ _ _ Hi2) as L2. pose proof (instr_at_le _ _ _ _ _ Hi3) as L3. pose proof (instr_at_le _ _ _ _ _ Hi4) as L4.
    pose proof (in_mem_nonneg _ Hin) as Hw0.
    pose proof (exec_instr C lab m pos p1 (LDBM 1) a b inp eq_refl Hi1 HC eq_refl ltac:(lia)) as T1. cbn [sem fst snd] in T1.
    pose proof (exec_instr C lab m p1 p2 (STAI x) a (rd m 1) inp eq_refl Hi2 HC Hin ltac:(lia)) as T2. cbn [sem fst snd] in T2.
    set (m1 := wr m (wrap (rd m 1 + x)) a) in *.
    assert (H1 : rd m1 1 = rd m 1) by (unfold m1; apply rd_wr_other; [exact Hw0 | lia | exact Hne]).
    pose proof (exec_instr C lab m1 p2 p3 (LDAM 1) a (rd m 1) inp eq_refl Hi3 HC' eq_refl ltac:(lia)) as T3. cbn [sem fst snd] in T3.
    rewrite H1 in T3.
    assert (R4 : readable (LDAI x) (rd m 1) (rd m 1)) by exact Hin.
    pose proof (exec_instr C lab m1 p3 nxt (LDAI x) (rd m 1) (rd m 1) inp eq_refl Hi4 HC' R4 Hn) as T4. cbn [sem fst snd] in T4.
    unfold m1 in T4 at 2. rewrite rd_wr_same in T4.
    cbn [block_sem sem]. fold m1.
    eapply taus_trans; [exact T1|]. eapply taus_trans; [exact T2|]. eapply taus_trans; [exact T3 | exact T4].
  Qed.
End Rules.

(* ---- the executable pass applies nothing but these three rules, each any number of times, left to right *)
From HexVerif Require Import XCodegenStmt.
Inductive rewrites : list instr -> list instr -> Prop :=
| rw_nil : rewrites [] []
| rw_keep i r r' : rewrites r r' -> rewrites (i :: r) (i :: r')
| rw_rule1 l r r' : rewrites r r' -> rewrites (BR l :: LABEL l :: r) (LABEL l :: r')
| rw_rule2 r r' : rewrites r r' -> rewrites (STAM 1 :: LDAM 1 :: r) (STAM 1 :: r')
| rw_rule3 x r r' : rewrites r r' -> rewrites (LDBM 1 :: STAI x :: LDAM 1 :: LDAI x :: r) (LDBM 1 :: STAI x :: r').

Lemma rewrites_refl c : rewrites c c.
Proof. induction c; constructor; assumption. Qed.

Theorem peephole_rewrites : forall f c, rewrites c (peephole f c).
Proof.
  induction f as [|f IH]; intros c; [apply rewrites_refl|]. cbn [peephole].
  repeat match goal with
         | |- rewrites _ (match ?x with _ => _ end) => destruct x eqn:?; subst
         | |- rewrites _ (if ?x then _ else _) => destruct x eqn:?
         end;
    try (apply Z.eqb_eq in Heqb; subst);
    first [ apply rw_nil | apply rw_rule1; apply IH | apply rw_rule2; apply IH | apply rw_rule3; apply IH
          | apply rw_keep; apply IH ].
Qed.
