(* IsaMon.v -- the memory accesses of one Isa.step and the executable C08 monitor.
   `accesses s` lists (kind, word address) of everything Isa.step reads or writes in memory when it
   executes one instruction from state s: the instruction fetch, the load/store of the instruction, and
   for a system call the words the SVC clause of the spec reads and writes (mem[1], the arguments at
   sp+2/sp+3, the result at sp+1).
   Executable definitions only (this file is extracted).  Proved in IsaMonProofs.v:
   step_accesses_complete (two memories that agree on the accessed words give the same step, so `accesses`
   misses nothing the step depends on), step_writes_only_stores (memory changes only at a listed Store
   address) and monitor_sound (if the executable monitor accepts a run, the five clauses of property C08
   hold of that run as propositions). *)
From Coq Require Import ZArith List Bool Lia.
From HexVerif Require Import WMap Isa.
Import ListNotations.
Local Open Scope Z_scope.

Inductive kind := Fetch | Load | Store.
Definition access : Type := kind * Z.

Definition sys_accesses (s : arch) : list access :=
  let sp := rd (mem s) 1 in
  (Load, 1) ::
  match areg s with
  | 0 => [(Load, wrap (sp + 2))]
  | 1 => [(Load, wrap (sp + 2)); (Load, wrap (sp + 3))]
  | 2 => [(Load, wrap (sp + 2)); (Store, wrap (sp + 1))]
  | _ => []
  end.

Definition op_accesses (s : arch) (inst : Z) : list access :=
  let o := Z.lor (oreg s) (inst mod 16) in
  match inst / 16 with
  | 0 => [(Load, o)]
  | 1 => [(Load, o)]
  | 2 => [(Store, o)]
  | 6 => [(Load, wrap (areg s + o))]
  | 7 => [(Load, wrap (breg s + o))]
  | 8 => [(Store, wrap (breg s + o))]
  | 13 => match o with 3 => sys_accesses s | _ => [] end
  | _ => []
  end.

Definition accesses (s : arch) : list access :=
  let w := pc s / 4 in
  (Fetch, w) :: if negb (in_mem w) then [] else op_accesses s (fetch s).

(* the regions of a loaded image: word 0 and the words from the first instruction after the data block
   up to the end of the image are code; [data_lo, data_hi) are the DATA words (stack-pointer word 1,
   globals, constant pool, strings); everything from the end of the image to the end of memory is free
   (stack and arrays).  exit_pc is the byte address main returns to; sp0 the load-time value of mem[1]. *)
Record layout := { data_lo : Z; data_hi : Z; image_end : Z; exit_pc : Z; sp0 : Z }.

Definition is_data (L : layout) (a : Z) : bool := (data_lo L <=? a) && (a <? data_hi L).
Definition is_code (L : layout) (a : Z) : bool := (0 <=? a) && (a <? image_end L) && negb (is_data L a).
Definition is_free (L : layout) (a : Z) : bool := (image_end L <=? a) && (a <? MEMW).

Definition acc_ok (L : layout) (x : access) : bool :=
  in_mem (snd x) &&
  match fst x with
  | Fetch => is_code L (snd x)
  | Load => true
  | Store => is_data L (snd x) || is_free L (snd x)
  end.

Definition state_ok (L : layout) (s : arch) : bool :=
  (rd (mem s) 1 <=? sp0 L) && (if pc s =? exit_pc L then rd (mem s) 1 =? sp0 L else true).

(* the executable monitor: every visited state and every executed instruction is checked *)
Fixpoint mon_ok (L : layout) (n : nat) (s : arch) (inp : inputs) : bool :=
  state_ok L s &&
  match n with
  | O => true
  | S k =>
      forallb (acc_ok L) (accesses s) &&
      match step s inp with
      | Ok (s', inp', Exit _) => state_ok L s'
      | Ok (s', inp', _) => mon_ok L k s' inp'
      | Undefined _ => true
      end
  end.

(* the states a run visits, and those from which it executes (attempts) an instruction *)
Fixpoint visited (n : nat) (s : arch) (inp : inputs) : list arch :=
  s :: match n with
       | O => []
       | S k => match step s inp with
                | Ok (s', inp', Exit _) => [s']
                | Ok (s', inp', _) => visited k s' inp'
                | Undefined _ => []
                end
       end.
Fixpoint executed (n : nat) (s : arch) (inp : inputs) : list arch :=
  match n with
  | O => []
  | S k => s :: match step s inp with
                | Ok (s', inp', Exit _) => []
                | Ok (s', inp', _) => executed k s' inp'
                | Undefined _ => []
                end
  end.

(* the five clauses of C08 for one run *)
Definition C08_clauses (L : layout) (n : nat) (s : arch) (inp : inputs) : Prop :=
  (forall s1 k a, In s1 (executed n s inp) -> In (k, a) (accesses s1) -> 0 <= a < MEMW) /\
  (forall s1 s2 a b, In s1 (executed n s inp) -> In s2 (executed n s inp) ->
                     In (Store, a) (accesses s1) -> In (Fetch, b) (accesses s2) -> a <> b) /\
  (forall s1 a, In s1 (executed n s inp) -> In (Store, a) (accesses s1) ->
                is_data L a = true \/ is_free L a = true) /\
  (forall s1, In s1 (visited n s inp) -> rd (mem s1) 1 <= sp0 L) /\
  (forall s1, In s1 (visited n s inp) -> pc s1 = exit_pc L -> rd (mem s1) 1 = sp0 L).
