open BinInt
open BinNums
open Datatypes
open String

type vexp =
| C of coq_Z
| V of string * coq_Z
| X of nat
| Trunc of coq_Z * vexp
| Add of coq_Z * vexp * vexp
| Sub of coq_Z * vexp * vexp
| Mul of coq_Z * vexp * vexp
| Sel of coq_Z * coq_Z * vexp
| Shl of coq_Z * vexp * vexp
| Shr of coq_Z * vexp * vexp
| Or of vexp * vexp
| And of vexp * vexp
| Xor of vexp * vexp
| Not of coq_Z * vexp
| Eq of vexp * vexp
| Ltu of vexp * vexp
| Gts of coq_Z * vexp * vexp
| Cond of vexp * vexp * vexp
| ArrSel of string * coq_Z * vexp

type env = { var : (string -> coq_Z); xs : (nat -> coq_Z);
             arr : (string -> coq_Z -> coq_Z) }

val signed : coq_Z -> coq_Z -> coq_Z

val b2z : bool -> coq_Z

val eval : env -> vexp -> coq_Z

type design = { outputs : (string * vexp) list; next : (string * vexp) list;
                wires : (string * vexp) list;
                mem_writes : (string * (vexp * (vexp * vexp))) list; nx : 
                nat }

val evalp : env -> (string * vexp) -> string * coq_Z

val evalw :
  env -> (string * (vexp * (vexp * vexp))) ->
  string * (coq_Z * (coq_Z * coq_Z))
