(* SimProofs12.v -- C12: tracing is transparent, unwritten memory reads zero, the cycle limit is well defined. *)
From Coq Require Import ZArith List String Lia Bool.
From HexVerif Require Import WMap Isa SimModel SimProofs.
Import ListNotations.
Local Open Scope Z_scope.

Lemma idx1 : idx_ok 1 = true. Proof. reflexivity. Qed.

(* with tracing on, a step whose ISA meaning is defined performs only in-range extra reads and yields the same result *)
Theorem trace_transparent s inp a' inp' ev :
  wf s -> Isa.step (arch_of s) inp = Ok (a', inp', ev) -> step_traced s inp = SimModel.step s inp.
Proof.
  intros Hwf Hstep.
  destruct (step_refines_isa s inp a' inp' ev Hwf Hstep) as (s' & Hs & Ha' & _ & _).
  destruct Hwf as (Hpc & Ha & Hb & Ho & Hm).
  unfold step_traced. rewrite Hs.
  unfold Isa.step in Hstep. cbn [arch_of pc areg breg oreg mem] in Hstep.
  rewrite idx_ok_in_mem, shiftr_2.
  destruct (negb (in_mem (s_pc s / 4))) eqn:Epc; [discriminate|]. cbn [negb].
  change (fetch {| pc := s_pc s; areg := s_areg s; breg := s_breg s; oreg := s_oreg s; mem := s_mem s |})
    with (fetch (arch_of s)) in Hstep.
  unfold trace_addrs, is_svc, trace_syscall_addrs. rewrite fetch_eq.
  pose proof (fetch_range (arch_of s)) as Hf.
  set (inst := fetch (arch_of s)) in *. clearbody inst.
  rewrite (opc_eq inst Hf), land_15.
  set (o := Z.lor (s_oreg s) (inst mod 16)) in *.
  assert (Hopc: 0 <= inst / 16 < 16) by (split; [apply Z.div_pos; lia | apply Z.div_lt_upper_bound; lia]).
  set (opc := inst / 16) in *. clearbody opc.
  assert (Hmem': s_mem s' = mem a') by (rewrite <- Ha'; reflexivity).
  assert (Hcases: opc = 0 \/ opc = 1 \/ opc = 2 \/ opc = 3 \/ opc = 4 \/ opc = 5 \/ opc = 6 \/ opc = 7 \/ opc = 8 \/
                  opc = 9 \/ opc = 10 \/ opc = 11 \/ opc = 12 \/ opc = 13 \/ opc = 14 \/ opc = 15) by lia.
  repeat (destruct Hcases as [->|Hcases]); [.. | subst opc];
    cbv beta iota zeta in Hstep |- *; change idx_ok with in_mem in *; change u32 with wrap in *;
    cbn [forallb Z.eqb Pos.eqb andb negb];
    try reflexivity.
  - destruct (in_mem o) eqn:E; [reflexivity|discriminate].
  - destruct (in_mem o) eqn:E; [reflexivity|discriminate].
  - destruct (in_mem (wrap (s_areg s + o))) eqn:E; [reflexivity|discriminate].
  - destruct (in_mem (wrap (s_breg s + o))) eqn:E; [reflexivity|discriminate].
  - (* OPR *)
    destruct (o =? 3) eqn:Eo; [|reflexivity]. apply Z.eqb_eq in Eo. rewrite Eo in Hstep.
    cbv beta iota zeta in Hstep.
    destruct (in_mem 1) eqn:E1; [|discriminate].
    rewrite Hmem'.
    destruct (s_areg s) as [|q|q] eqn:Ea0; [| |discriminate].
    + destruct (in_mem (wrap (rd (s_mem s) 1 + 2))) eqn:E; [|discriminate]. inversion Hstep; subst. cbn [mem forallb].
      rewrite E1, E. reflexivity.
    + destruct q as [q|q|]; [discriminate| |].
      * destruct q; try discriminate.
        destruct (in_mem (wrap (rd (s_mem s) 1 + 2))) eqn:E; [|discriminate].
        destruct (simin inp (rd (s_mem s) (wrap (rd (s_mem s) 1 + 2)))) as [bb inp2] eqn:Es.
        destruct (in_mem (wrap (rd (s_mem s) 1 + 1))) eqn:E3; [|discriminate]. inversion Hstep; subst. cbn [mem forallb].
        rewrite E1. cbn [andb].
        assert (Hsp: 0 <= rd (s_mem s) 1 < W) by (apply Hm; lia).
        assert (Hw: 0 <= wrap (rd (s_mem s) 1 + 1) < W) by apply wrap_range.
        destruct (Z.eq_dec (wrap (rd (s_mem s) 1 + 1)) 1) as [E4|E4].
        -- rewrite E4, rd_wr_same.
           assert (in_mem (wrap (bb mod 256 + 1)) = true) as ->; [|reflexivity].
           pose proof (Z.mod_pos_bound bb 256 ltac:(lia)). unfold wrap, W. rewrite Z.mod_small by lia.
           unfold in_mem, MEMW. apply andb_true_intro. split; [apply Z.leb_le|apply Z.ltb_lt]; lia.
        -- rewrite rd_wr_other by lia. rewrite E3. reflexivity.
      * destruct (in_mem (wrap (rd (s_mem s) 1 + 2))) eqn:E; [|discriminate].
        destruct (in_mem (wrap (rd (s_mem s) 1 + 3))) eqn:E3; [|discriminate]. inversion Hstep; subst. cbn [mem forallb].
        rewrite E1, E, E3. reflexivity.
Qed.

(* memory not covered by the loaded image reads as zero (as the reference simulator's static array) *)
Theorem unwritten_reads_zero (ws : list Z) a : Z.of_nat (List.length ws) <= a -> rd (s_mem (cpp_init ws)) a = 0.
Proof.
  intros Ha. unfold cpp_init, init. cbn [s_mem]. rewrite rd_load_words_outside by lia. apply rd_empty.
Qed.

(* the pinned constructor (no initialisers): two backing stores give two different results *)
Definition demo_image : list Z := words_of_bytes [151; 0; 0; 0; 232; 3; 0; 0; 230; 4; 17; 130; 48; 211].
Definition exit_of (r : list event * inputs * sim * run_end) : run_end := snd r.
Theorem uninitialised_memory_refuted :
  exists bg1 bg2, exit_of (SimModel.run 20 0 (init bg1 0 demo_image) {| console := []; files := fun _ => [] |} [])
               <> exit_of (SimModel.run 20 0 (init bg2 0 demo_image) {| console := []; files := fun _ => [] |} []).
Proof. exists (fun _ => 0), (fun _ => 7). vm_compute. discriminate. Qed.

(* a run cut by --max-cycles: after exactly max_cycles + 1 instructions, with the initial exit code *)
Theorem cycle_limit_defined : forall k mc s inp evs,
  wf s -> s_running s = true -> 0 < mc -> s_cycles s + Z.of_nat k = mc + 1 ->
  forall n, (k < n)%nat ->
  match Isa.run k (arch_of s) inp evs with
  | (tr, inp', a', Cut) =>
      exists s', SimModel.run n mc s inp evs = (tr, inp', s', Returned (s_exit s)) /\ arch_of s' = a' /\ s_cycles s' = mc + 1
  | _ => True
  end.
Proof.
  induction k as [|k IH]; intros mc s inp evs Hwf Hrun Hmc Hc n Hn.
  - cbn [Isa.run]. exists s. destruct n; [lia|]. cbn [SimModel.run]. unfold guard. rewrite Hrun.
    replace (0 <? mc) with true by (symmetry; apply Z.ltb_lt; lia).
    replace (s_cycles s <=? mc) with false by (symmetry; apply Z.leb_gt; lia). cbn. split; [reflexivity|]. split; [reflexivity|lia].
  - cbn [Isa.run].
    destruct (Isa.step (arch_of s) inp) as [[[a1 inp1] ev]|u] eqn:Es; [|exact I].
    destruct (step_refines_isa s inp a1 inp1 ev Hwf Es) as (s1 & Hs & Ha & Hwf1 & Hcyc & Hbk).
    destruct n as [|n]; [lia|]. cbn [SimModel.run]. unfold guard at 1. rewrite Hrun.
    replace (0 <? mc) with true by (symmetry; apply Z.ltb_lt; lia).
    replace (s_cycles s <=? mc) with true by (symmetry; apply Z.leb_le; lia). cbn [andb negb]. rewrite Hs.
    destruct ev as [|c|b st|st g].
    + destruct Hbk as [Hr He]. rewrite <- Ha.
      specialize (IH mc s1 inp1 evs Hwf1 ltac:(congruence) Hmc ltac:(lia) n ltac:(lia)).
      destruct (Isa.run k (arch_of s1) inp1 evs) as [[[tr i2] a2] [c|u|]]; try exact I. rewrite <- He. exact IH.
    + exact I.
    + destruct Hbk as [Hr He]. rewrite <- Ha.
      specialize (IH mc s1 inp1 (Write b st :: evs) Hwf1 ltac:(congruence) Hmc ltac:(lia) n ltac:(lia)).
      destruct (Isa.run k (arch_of s1) inp1 (Write b st :: evs)) as [[[tr i2] a2] [c|u|]]; try exact I. rewrite <- He. exact IH.
    + destruct Hbk as [Hr He]. rewrite <- Ha.
      specialize (IH mc s1 inp1 (Read st g :: evs) Hwf1 ltac:(congruence) Hmc ltac:(lia) n ltac:(lia)).
      destruct (Isa.run k (arch_of s1) inp1 (Read st g :: evs)) as [[[tr i2] a2] [c|u|]]; try exact I. rewrite <- He. exact IH.
Qed.

(* whole runs: enabling -t changes neither the exit status, nor the input consumed, nor the sequence of system
   calls, nor the final state -- for every run whose ISA meaning stays defined (addresses inside the memory) *)
Definition defined_run (r : list event * inputs * arch * stop) : Prop :=
  match r with (_, _, _, Stuck (BadAddress _)) => False | _ => True end.

Lemma illegal_step_traced s inp u : wf s -> Isa.step (arch_of s) inp = Undefined u -> illegal u ->
  step_traced s inp = SimModel.step s inp.
Proof.
  intros Hwf Hstep Hill. destruct (undefined_is_reported s inp u Hwf Hstep Hill) as [m Hm].
  destruct Hwf as (Hpc & Ha & Hb & Ho & Hmm).
  unfold step_traced. rewrite Hm.
  unfold Isa.step in Hstep. cbn [arch_of pc areg breg oreg mem] in Hstep.
  rewrite idx_ok_in_mem, shiftr_2.
  destruct (negb (in_mem (s_pc s / 4))) eqn:Epc; [inversion Hstep; subst; destruct Hill|]. cbn [negb].
  change (fetch {| pc := s_pc s; areg := s_areg s; breg := s_breg s; oreg := s_oreg s; mem := s_mem s |})
    with (fetch (arch_of s)) in Hstep.
  unfold trace_addrs. rewrite fetch_eq.
  pose proof (fetch_range (arch_of s)) as Hf.
  set (inst := fetch (arch_of s)) in *. clearbody inst.
  rewrite (opc_eq inst Hf), land_15.
  set (o := Z.lor (s_oreg s) (inst mod 16)) in *.
  assert (Hopc: 0 <= inst / 16 < 16) by (split; [apply Z.div_pos; lia | apply Z.div_lt_upper_bound; lia]).
  set (opc := inst / 16) in *. clearbody opc.
  assert (Hcases: opc = 0 \/ opc = 1 \/ opc = 2 \/ opc = 3 \/ opc = 4 \/ opc = 5 \/ opc = 6 \/ opc = 7 \/ opc = 8 \/
                  opc = 9 \/ opc = 10 \/ opc = 11 \/ opc = 12 \/ opc = 13 \/ opc = 14 \/ opc = 15) by lia.
  repeat (destruct Hcases as [->|Hcases]); [.. | subst opc];
    cbv beta iota zeta in Hstep |- *; change idx_ok with in_mem in *; change u32 with wrap in *;
    cbn [forallb andb negb]; try reflexivity;
    repeat match type of Hstep with
    | (if ?c then _ else _) = _ => destruct c eqn:?; [|inversion Hstep; subst; destruct Hill]
    end; try discriminate; reflexivity.
Qed.

Theorem run_trace_transparent n : forall mc s inp evs, wf s ->
  defined_run (Isa.run n (arch_of s) inp evs) -> s_running s = true ->
  run_traced n mc s inp evs = SimModel.run n mc s inp evs.
Proof.
  induction n as [|n IH]; intros mc s inp evs Hwf Hdef Hrun; [reflexivity|].
  cbn [run_traced SimModel.run]. destruct (negb (guard mc s)) eqn:G; [reflexivity|].
  cbn [Isa.run] in Hdef.
  destruct (Isa.step (arch_of s) inp) as [[[a1 inp1] ev]|u] eqn:Es.
  - rewrite (trace_transparent s inp a1 inp1 ev Hwf Es).
    destruct (step_refines_isa s inp a1 inp1 ev Hwf Es) as (s1 & Hs & Ha & Hwf1 & Hcyc & Hbk). rewrite Hs.
    destruct ev as [|c|b st|st g].
    + destruct Hbk as [Hr He]. apply IH; try assumption; try reflexivity; [rewrite Ha; exact Hdef | congruence].
    + destruct Hbk as [Hr He]. destruct n; cbn [run_traced SimModel.run]; unfold guard; rewrite Hr; reflexivity.
    + destruct Hbk as [Hr He]. apply IH; try assumption; try reflexivity; [rewrite Ha; exact Hdef | congruence].
    + destruct Hbk as [Hr He]. apply IH; try assumption; try reflexivity; [rewrite Ha; exact Hdef | congruence].
  - destruct u as [b|o|a|a]; try (destruct Hdef; fail);
    (rewrite (illegal_step_traced s inp _ Hwf Es I); destruct (undefined_is_reported s inp _ Hwf Es I) as [m Hm]; rewrite Hm; reflexivity).
Qed.
