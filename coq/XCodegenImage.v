(* XCodegenImage.v -- from a concrete image to the code_at hypotheses of the code generator theorems, by computation.

   mem_of bytes       the word memory a binary's image is loaded into (Isa.boot's memory)
   bytes_ok / holds   a boolean check that the bytes of a range of the image are what Isa.fetch reads from that
                      memory; then every memory that agrees with it on the words of the range (C P m0 with P covering
                      them) `holds` the image there (AsmSpecProofs.holds)
   code_chk / code_at a boolean check that the ISA's own decoder (AsmSpec.decode) reads the symbolic instructions
                      c at pos (opcode, and operand -- for branches relative to the next instruction, through the
                      label positions lab); then code_at holds (through XCodegenBridge.instr_at_of_decode)
   dirs_of            symbolic instructions as assembler directives (labels named _L<n>), so that the assembler model
                      AsmLayout.assemble_directives can lay them out; lab_of its label positions *)
From Coq Require Import ZArith List String Bool Lia.
From HexVerif Require Import WMap Isa AsmModel AsmLayout AsmSpec AsmSpecProofs XCodegenIsa XCodegenBridge XCodegenExpr.
Import ListNotations.
Local Open Scope Z_scope.

Definition mem_of (bytes : list Z) : WMap.t := load_words WMap.zero 0 (words_of_bytes bytes).

Fixpoint bytes_ok (m0 img : WMap.t) (p : Z) (n : nat) : bool :=
  match n with
  | O => true
  | S k => ((rd m0 (p / 4) / 2 ^ (8 * (p mod 4))) mod 256 =? rd img p) && in_mem (p / 4) && bytes_ok m0 img (p + 1) k
  end.

Lemma bytes_ok_spec : forall n m0 img lo, bytes_ok m0 img lo n = true ->
  forall p, lo <= p < lo + Z.of_nat n -> (rd m0 (p / 4) / 2 ^ (8 * (p mod 4))) mod 256 = rd img p /\ in_mem (p / 4) = true.
Proof.
  induction n as [|k IH]; intros m0 img lo H p Hp; [lia|]. cbn [bytes_ok] in H.
  apply andb_prop in H. destruct H as [H H3]. apply andb_prop in H. destruct H as [H1 H2]. apply Z.eqb_eq in H1.
  destruct (Z.eq_dec p lo) as [->|Hne]; [split; assumption|]. apply (IH m0 img (lo + 1) H3). lia.
Qed.

Lemma bytes_ok_holds (P : Z -> Prop) m0 img lo n :
  bytes_ok m0 img lo n = true -> 0 <= lo -> (forall p, lo <= p < lo + Z.of_nat n -> P (p / 4)) ->
  forall m, C P m0 m -> holds m img lo (lo + Z.of_nat n).
Proof.
  intros Hb Hlo HP m HC p a b o Hp. destruct (bytes_ok_spec n m0 img lo Hb p Hp) as [H1 H2].
  split; [|exact H2]. unfold fetch. cbn [pc mem]. rewrite (HC (p / 4)); [exact H1 | apply Z.div_pos; lia | apply HP; exact Hp].
Qed.

Lemma holds_sub m img lo hi lo' hi' : holds m img lo hi -> lo <= lo' -> hi' <= hi -> holds m img lo' hi'.
Proof. intros H H1 H2 p a b o Hp. apply H. lia. Qed.

(* ---- the decoder reads the code *)
Definition label_of (i : instr) : option label := match i with LABEL l => Some l | _ => None end.

(* the decoder reads instruction i at pos: the position of the next instruction *)
Definition instr_chk (lab : label -> Z) (img : WMap.t) (pos : Z) (i : instr) : option Z :=
  match decode img pos with
  | Some (op, ov, nxt) => if (op =? opc i) && (ov =? operand lab nxt i) then Some nxt else None
  | None => None
  end.

Fixpoint code_chk (lab : label -> Z) (img : WMap.t) (pos : Z) (c : list instr) : option Z :=
  match c with
  | [] => Some pos
  | i :: r =>
      match label_of i with
      | Some l => if lab l =? pos then code_chk lab img pos r else None
      | None => match instr_chk lab img pos i with Some nxt => code_chk lab img nxt r | None => None end
      end
  end.

Lemma instr_chk_spec lab img pos i nxt : instr_chk lab img pos i = Some nxt ->
  decode img pos = Some (opc i, operand lab nxt i, nxt) /\ pos < nxt.
Proof.
  unfold instr_chk. destruct (decode img pos) as [[[op ov] nx]|] eqn:Ed; [|discriminate].
  destruct ((op =? opc i) && (ov =? operand lab nx i)) eqn:Eo; [|discriminate]. intros H. inversion H; subst nx.
  apply andb_prop in Eo. destruct Eo as [E1 E2]. apply Z.eqb_eq in E1. apply Z.eqb_eq in E2. subst op ov.
  split; [reflexivity|]. unfold decode in Ed. exact (decode_progress _ _ _ _ _ _ _ Ed).
Qed.

Lemma code_chk_le : forall c lab img pos nxt, code_chk lab img pos c = Some nxt -> pos <= nxt.
Proof.
  induction c as [|i r IH]; intros lab img pos nxt H; cbn [code_chk] in H; [inversion H; lia|].
  destruct (label_of i) as [l|].
  - destruct (lab l =? pos); [exact (IH _ _ _ _ H) | discriminate].
  - destruct (instr_chk lab img pos i) as [nx|] eqn:Ei; [|discriminate].
    destruct (instr_chk_spec _ _ _ _ _ Ei) as [_ Hlt]. pose proof (IH _ _ _ _ H). lia.
Qed.

Lemma code_chk_sound (Cp : WMap.t -> Prop) : forall c lab img pos nxt,
  code_chk lab img pos c = Some nxt -> 0 <= pos -> nxt <= W -> (forall m, Cp m -> holds m img pos nxt) ->
  code_at Cp lab pos c nxt.
Proof.
  induction c as [|i r IH]; intros lab img pos nxt H Hp Hn Hh; cbn [code_chk] in H; [inversion H; reflexivity|].
  cbn [code_at]. destruct (label_of i) as [l|] eqn:El.
  - destruct i; try discriminate El. inversion El; subst l0. destruct (lab l =? pos) eqn:Ep; [|discriminate]. apply Z.eqb_eq in Ep.
    exists pos. split; [cbn [instr_at]; split; [reflexivity | exact Ep]|]. exact (IH _ _ _ _ H Hp Hn Hh).
  - destruct (instr_chk lab img pos i) as [nx|] eqn:Ei; [|discriminate].
    destruct (instr_chk_spec _ _ _ _ _ Ei) as [Ed Hlt]. pose proof (code_chk_le _ _ _ _ _ H) as Hle.
    exists nx. split.
    + apply (instr_at_of_decode Cp lab img pos nx i); [destruct i; try exact I; discriminate El | exact Ed | exact Hp | lia|].
      intros m Hm. exact (holds_sub m img pos nxt pos nx (Hh m Hm) ltac:(lia) Hle).
    + apply (IH lab img nx nxt H); [lia | exact Hn|].
      intros m Hm. exact (holds_sub m img pos nxt nx nxt (Hh m Hm) ltac:(lia) ltac:(lia)).
Qed.

(* ---- symbolic instructions as assembler directives *)
Definition lname (l : label) : string := ("_L" ++ dec l)%string.
Definition dir_of (i : instr) : directive :=
  match i with
  | LDAM a => DImm TLDAM a | LDBM a => DImm TLDBM a | STAM a => DImm TSTAM a
  | LDAC v => DImm TLDAC v | LDBC v => DImm TLDBC v
  | LDAP l => DRef TLDAP (lname l) true
  | LDAI k => DImm TLDAI k | LDBI k => DImm TLDBI k | STAI k => DImm TSTAI k
  | BR l => DRef TBR (lname l) true | BRZ l => DRef TBRZ (lname l) true | BRN l => DRef TBRN (lname l) true
  | ADD => DOpr TADD | SUB => DOpr TSUB | SVC => DOpr TSVC | BRB => DOpr TBRB
  | LABEL l => DLabel LId (lname l)
  end.

(* where the layout put the label named s (the last definition wins, as in the assembler) *)
Fixpoint label_off (s : string) (items : list item) (acc : Z) : Z :=
  match items with
  | [] => acc
  | it :: r => match it_d it with
               | DLabel _ n => label_off s r (if String.eqb n s then d_off (it_st it) else acc)
               | _ => label_off s r acc
               end
  end.
Definition lab_of (L : layout) (l : label) : Z := label_off (lname l) (l_items L) (-1).
