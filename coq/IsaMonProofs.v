(* IsaMonProofs.v -- proofs about IsaMon.v: completeness of the access lists and soundness of the monitor. *)
From Coq Require Import ZArith List Bool Lia.
From HexVerif Require Import WMap Isa IsaMon.
Import ListNotations.
Local Open Scope Z_scope.

(* ================================================================ proofs *)
Ltac Zify.zify_post_hook ::= Z.div_mod_to_equations.

Definition same_regs (s1 s2 : arch) : Prop :=
  pc s1 = pc s2 /\ areg s1 = areg s2 /\ breg s1 = breg s2 /\ oreg s1 = oreg s2.
Definition agree_on (s1 s2 : arch) : Prop :=
  forall k a, In (k, a) (accesses s1) -> rd (mem s1) a = rd (mem s2) a.
Definition mem_upd (m m' : WMap.t) (w : option (Z * Z)) : Prop :=
  match w with None => m' = m | Some (a, v) => m' = wr m a v end.

(* the two steps are the same up to the memories they started from *)
Definition step_sim (s1 s2 : arch) (r1 r2 : result (arch * inputs * event)) : Prop :=
  match r1, r2 with
  | Ok (s1', i1, e1), Ok (s2', i2, e2) =>
      same_regs s1' s2' /\ i1 = i2 /\ e1 = e2 /\
      exists w, mem_upd (mem s1) (mem s1') w /\ mem_upd (mem s2) (mem s2') w /\
                (forall a v, w = Some (a, v) -> In (Store, a) (accesses s1))
  | Undefined u1, Undefined u2 => u1 = u2
  | _, _ => False
  end.

Lemma fetch_range s : 0 <= fetch s < 256.
Proof. unfold fetch. apply Z.mod_pos_bound. lia. Qed.

Lemma opcode_cases x : 0 <= x < 256 ->
  x / 16 = 0 \/ x / 16 = 1 \/ x / 16 = 2 \/ x / 16 = 3 \/ x / 16 = 4 \/ x / 16 = 5 \/ x / 16 = 6 \/ x / 16 = 7 \/
  x / 16 = 8 \/ x / 16 = 9 \/ x / 16 = 10 \/ x / 16 = 11 \/ x / 16 = 12 \/ x / 16 = 13 \/ x / 16 = 14 \/ x / 16 = 15.
Proof. intros H. assert (0 <= x / 16 < 16) by (split; [apply Z.div_pos; lia | apply Z.div_lt_upper_bound; lia]). lia. Qed.

Ltac red_sim := cbv beta iota zeta delta [step_sim same_regs mem_upd pc areg breg oreg mem fst snd].
Ltac sim_none :=
  red_sim; repeat split; exists None; red_sim; repeat split; intros; discriminate.

Theorem step_accesses_complete : forall s1 s2 inp,
  same_regs s1 s2 -> agree_on s1 s2 -> step_sim s1 s2 (step s1 inp) (step s2 inp).
Proof.
  intros [p a b o m1] [p2 a2 b2 o2 m2] inp (Hp & Ha & Hb & Ho) Hag.
  cbn in Hp, Ha, Hb, Ho. subst p2 a2 b2 o2.
  unfold agree_on in Hag. cbn [mem] in Hag.
  unfold step. cbn [pc areg breg oreg mem].
  destruct (negb (in_mem (p / 4))) eqn:Epc; [reflexivity|].
  assert (Hf : rd m1 (p / 4) = rd m2 (p / 4)) by (apply (Hag Fetch); unfold accesses; cbn [pc]; left; reflexivity).
  assert (Hfetch : fetch {| pc := p; areg := a; breg := b; oreg := o; mem := m2 |} =
                   fetch {| pc := p; areg := a; breg := b; oreg := o; mem := m1 |})
    by (unfold fetch; cbn [pc mem]; rewrite Hf; reflexivity).
  rewrite Hfetch.
  set (s1 := {| pc := p; areg := a; breg := b; oreg := o; mem := m1 |}) in *.
  assert (Hop : forall k x, In (k, x) (op_accesses s1 (fetch s1)) -> rd m1 x = rd m2 x).
  { intros k x Hin. apply (Hag k). unfold accesses. cbn [pc]. fold s1. right.
    unfold s1 at 1. cbn [pc]. rewrite Epc. exact Hin. }
  assert (Hst : forall x, In (Store, x) (op_accesses s1 (fetch s1)) -> In (Store, x) (accesses s1)).
  { intros x Hin. unfold accesses. right. unfold s1 at 1. cbn [pc]. rewrite Epc. exact Hin. }
  clear Hag Hfetch Hf.
  pose proof (fetch_range s1) as Hr.
  set (inst := fetch s1) in *. clearbody inst.
  unfold op_accesses in Hop, Hst. cbn [oreg areg breg] in Hop, Hst. unfold s1 in Hop, Hst. cbn [oreg areg breg mem] in Hop, Hst.
  set (oo := Z.lor o (inst mod 16)) in *. clearbody oo.
  destruct (opcode_cases inst Hr) as [E|[E|[E|[E|[E|[E|[E|[E|[E|[E|[E|[E|[E|[E|[E|E]]]]]]]]]]]]]]];
    rewrite E in *; clear E.
  - (* LDAM *) destruct (in_mem oo); [|reflexivity]. rewrite (Hop Load oo) by (left; reflexivity). sim_none.
  - (* LDBM *) destruct (in_mem oo); [|reflexivity]. rewrite (Hop Load oo) by (left; reflexivity). sim_none.
  - (* STAM *) destruct (in_mem oo); [|reflexivity].
    red_sim. repeat split. exists (Some (oo, a)). red_sim. repeat split.
    intros x v Hx. inversion Hx; subst. apply Hst. left. reflexivity.
  - sim_none.
  - sim_none.
  - sim_none.
  - (* LDAI *) destruct (in_mem (wrap (a + oo))); [|reflexivity]. rewrite (Hop Load (wrap (a + oo))) by (left; reflexivity). sim_none.
  - (* LDBI *) destruct (in_mem (wrap (b + oo))); [|reflexivity]. rewrite (Hop Load (wrap (b + oo))) by (left; reflexivity). sim_none.
  - (* STAI *) destruct (in_mem (wrap (b + oo))); [|reflexivity].
    red_sim. repeat split. exists (Some (wrap (b + oo), a)). red_sim. repeat split.
    intros x v Hx. inversion Hx; subst. apply Hst. left. reflexivity.
  - sim_none.
  - sim_none.
  - sim_none.
  - reflexivity.
  - (* OPR *)
    destruct oo as [|q|q]; [sim_none | | reflexivity].
    destruct q as [q|q|]; [destruct q as [q|q|] | destruct q as [q|q|] | ]; try reflexivity; try sim_none.
    (* SVC *)
    unfold sys_accesses in Hop, Hst. cbn [mem areg] in Hop, Hst.
    assert (H1 : rd m1 1 = rd m2 1) by (apply (Hop Load); left; reflexivity).
    destruct (in_mem 1); [|reflexivity]. rewrite <- H1.
    set (sp := rd m1 1) in *. clearbody sp.
    destruct a as [|q|q]; [ | | reflexivity].
    + destruct (in_mem (wrap (sp + 2))); [|reflexivity].
      rewrite (Hop Load (wrap (sp + 2))) by (right; left; reflexivity). sim_none.
    + destruct q as [q|q|].
      * reflexivity.
      * destruct q; try reflexivity.
        destruct (in_mem (wrap (sp + 2))); [|reflexivity].
        rewrite (Hop Load (wrap (sp + 2))) by (right; left; reflexivity).
        destruct (simin inp (rd m2 (wrap (sp + 2)))) as [bb inp2].
        destruct (in_mem (wrap (sp + 1))); [|reflexivity].
        red_sim. repeat split. exists (Some (wrap (sp + 1), bb mod 256)). red_sim. repeat split.
        intros x v Hx. inversion Hx; subst. apply Hst. right. right. left. reflexivity.
      * destruct (in_mem (wrap (sp + 2))); [|reflexivity].
        destruct (in_mem (wrap (sp + 3))); [|reflexivity].
        rewrite (Hop Load (wrap (sp + 2))) by (right; left; reflexivity).
        rewrite (Hop Load (wrap (sp + 3))) by (right; right; left; reflexivity). sim_none.
  - sim_none.
  - sim_none.
Qed.

(* memory changes only at a listed Store address (corollary of completeness with s2 := s1) *)
Corollary step_writes_only_stores : forall s inp s' inp' ev,
  step s inp = Ok (s', inp', ev) ->
  mem s' = mem s \/ exists a v, mem s' = wr (mem s) a v /\ In (Store, a) (accesses s).
Proof.
  intros s inp s' inp' ev H.
  pose proof (step_accesses_complete s s inp) as C.
  assert (R : same_regs s s) by (unfold same_regs; repeat split).
  assert (A : agree_on s s) by (intros k a _; reflexivity).
  specialize (C R A). unfold step_sim in C. rewrite H in C.
  destruct C as (_ & _ & _ & w & Hw & _ & Hin).
  destruct w as [[a v]|]; cbn in Hw.
  - right. exists a, v. split; [exact Hw | apply (Hin a v); reflexivity].
  - left. exact Hw.
Qed.

(* ---------------------------------------------------------------- soundness of the monitor *)
Lemma acc_ok_spec L k a : acc_ok L (k, a) = true ->
  0 <= a < MEMW /\
  match k with
  | Fetch => is_code L a = true
  | Load => True
  | Store => is_data L a = true \/ is_free L a = true
  end.
Proof.
  unfold acc_ok. cbn [fst snd]. intros H. apply andb_prop in H. destruct H as [Hm Hk].
  split.
  - unfold in_mem in Hm. apply andb_prop in Hm. destruct Hm as [H0 H1].
    apply Z.leb_le in H0. apply Z.ltb_lt in H1. lia.
  - destruct k; [exact Hk | exact I | apply orb_prop in Hk; exact Hk].
Qed.

Lemma code_excludes_store L a : is_code L a = true -> is_data L a = true \/ is_free L a = true -> False.
Proof.
  unfold is_code, is_free. intros Hc [Hd|Hf].
  - apply andb_prop in Hc. destruct Hc as [_ Hn]. rewrite Hd in Hn. discriminate.
  - apply andb_prop in Hc. destruct Hc as [Hc _]. apply andb_prop in Hc. destruct Hc as [_ Hlt].
    apply andb_prop in Hf. destruct Hf as [Hge _]. apply Z.ltb_lt in Hlt. apply Z.leb_le in Hge. lia.
Qed.

Lemma mon_ok_inv : forall L n s inp, mon_ok L n s inp = true ->
  (forall s1, In s1 (executed n s inp) -> forallb (acc_ok L) (accesses s1) = true) /\
  (forall s1, In s1 (visited n s inp) -> state_ok L s1 = true).
Proof.
  intros L n. induction n as [|k IH]; intros s inp H; cbn [mon_ok] in H.
  - apply andb_prop in H. destruct H as [Hs _]. cbn [executed visited]. split.
    + intros s1 [].
    + intros s1 [<-|[]]. exact Hs.
  - apply andb_prop in H. destruct H as [Hs H]. apply andb_prop in H. destruct H as [Ha H].
    cbn [executed visited].
    destruct (step s inp) as [[[s' inp'] ev]|u] eqn:Est.
    + destruct ev as [|c|bt st|st g].
      * destruct (IH s' inp' H) as [I1 I2]. split.
        -- intros s1 [<-|Hin]; [exact Ha | apply I1; exact Hin].
        -- intros s1 [<-|Hin]; [exact Hs | apply I2; exact Hin].
      * split.
        -- intros s1 [<-|[]]. exact Ha.
        -- intros s1 [<-|[<-|[]]]; [exact Hs | exact H].
      * destruct (IH s' inp' H) as [I1 I2]. split.
        -- intros s1 [<-|Hin]; [exact Ha | apply I1; exact Hin].
        -- intros s1 [<-|Hin]; [exact Hs | apply I2; exact Hin].
      * destruct (IH s' inp' H) as [I1 I2]. split.
        -- intros s1 [<-|Hin]; [exact Ha | apply I1; exact Hin].
        -- intros s1 [<-|Hin]; [exact Hs | apply I2; exact Hin].
    + split.
      * intros s1 [<-|[]]. exact Ha.
      * intros s1 [<-|[]]. exact Hs.
Qed.

(* if the executable monitor accepts a run, the five clauses of C08 hold of that run *)
Theorem monitor_sound : forall L n s inp, mon_ok L n s inp = true -> C08_clauses L n s inp.
Proof.
  intros L n s inp H. destruct (mon_ok_inv L n s inp H) as [HA HS].
  assert (Hacc : forall s1 k a, In s1 (executed n s inp) -> In (k, a) (accesses s1) -> acc_ok L (k, a) = true).
  { intros s1 k a H1 H2. specialize (HA s1 H1). rewrite forallb_forall in HA. apply HA. exact H2. }
  unfold C08_clauses. repeat split.
  - apply (acc_ok_spec L k a). eapply Hacc; eassumption.
  - apply (acc_ok_spec L k a). eapply Hacc; eassumption.
  - intros s1 s2 a b H1 H2 Hst Hft Eab. subst b.
    pose proof (proj2 (acc_ok_spec L Store a (Hacc s1 Store a H1 Hst))) as Hs. cbn in Hs.
    pose proof (proj2 (acc_ok_spec L Fetch a (Hacc s2 Fetch a H2 Hft))) as Hc. cbn in Hc.
    exact (code_excludes_store L a Hc Hs).
  - intros s1 a H1 Hst. exact (proj2 (acc_ok_spec L Store a (Hacc s1 Store a H1 Hst))).
  - intros s1 H1. specialize (HS s1 H1). unfold state_ok in HS. apply andb_prop in HS. destruct HS as [Hle _].
    apply Z.leb_le. exact Hle.
  - intros s1 H1 Hpc. specialize (HS s1 H1). unfold state_ok in HS. apply andb_prop in HS. destruct HS as [_ He].
    rewrite Hpc, Z.eqb_refl in He. apply Z.eqb_eq. exact He.
Qed.

(* the accesses of an accepted run never make the ISA leave memory: an accepted run is never stuck on a bad address *)
Lemma accepted_step_not_badaddress : forall L s inp a,
  forallb (acc_ok L) (accesses s) = true -> step s inp <> Undefined (BadAddress a).
Proof.
  intros L s inp a H. rewrite forallb_forall in H.
  assert (Hin : forall k x, In (k, x) (accesses s) -> in_mem x = true).
  { intros k x Hx. specialize (H (k, x) Hx). unfold acc_ok in H. cbn [fst snd] in H. apply andb_prop in H. apply H. }
  unfold step. unfold accesses in Hin.
  assert (Hpc : in_mem (pc s / 4) = true) by (apply (Hin Fetch); left; reflexivity).
  rewrite Hpc. cbn [negb].
  assert (Hop : forall k x, In (k, x) (op_accesses s (fetch s)) -> in_mem x = true).
  { intros k x Hx. apply (Hin k). right. rewrite Hpc. cbn [negb]. exact Hx. }
  clear Hin H. unfold op_accesses in Hop.
  pose proof (fetch_range s) as Hr.
  set (inst := fetch s) in *. clearbody inst.
  set (oo := Z.lor (oreg s) (inst mod 16)) in *. clearbody oo.
  destruct (opcode_cases inst Hr) as [E|[E|[E|[E|[E|[E|[E|[E|[E|[E|[E|[E|[E|[E|[E|E]]]]]]]]]]]]]]];
    rewrite E in *; clear E; try discriminate.
  - rewrite (Hop Load oo) by (left; reflexivity). discriminate.
  - rewrite (Hop Load oo) by (left; reflexivity). discriminate.
  - rewrite (Hop Store oo) by (left; reflexivity). discriminate.
  - rewrite (Hop Load (wrap (areg s + oo))) by (left; reflexivity). discriminate.
  - rewrite (Hop Load (wrap (breg s + oo))) by (left; reflexivity). discriminate.
  - rewrite (Hop Store (wrap (breg s + oo))) by (left; reflexivity). discriminate.
  - destruct oo as [|q|q]; try discriminate.
    destruct q as [q|q|]; [destruct q as [q|q|] | destruct q as [q|q|] | ]; try discriminate.
    unfold sys_accesses in Hop.
    rewrite (Hop Load 1) by (left; reflexivity).
    destruct (areg s) as [|q|q]; try discriminate.
    + rewrite (Hop Load (wrap (rd (mem s) 1 + 2))) by (right; left; reflexivity). discriminate.
    + destruct q as [q|q|]; try discriminate.
      * destruct q; try discriminate.
        rewrite (Hop Load (wrap (rd (mem s) 1 + 2))) by (right; left; reflexivity).
        destruct (simin inp (rd (mem s) (wrap (rd (mem s) 1 + 2)))).
        rewrite (Hop Store (wrap (rd (mem s) 1 + 1))) by (right; right; left; reflexivity). discriminate.
      * rewrite (Hop Load (wrap (rd (mem s) 1 + 2))) by (right; left; reflexivity).
        rewrite (Hop Load (wrap (rd (mem s) 1 + 3))) by (right; right; left; reflexivity). discriminate.
Qed.
