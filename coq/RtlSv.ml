open Ascii
open BinNums
open Datatypes
open String
open Vexp

(** val d_outputs : (string * vexp) list **)

let d_outputs =
  ((String ((Ascii (true, true, true, true, false, true, true, false)),
    (String ((Ascii (true, true, true, true, true, false, true, false)),
    (String ((Ascii (false, false, true, false, false, true, true, false)),
    (String ((Ascii (true, true, true, true, true, false, true, false)),
    (String ((Ascii (true, false, false, false, false, true, true, false)),
    (String ((Ascii (false, false, true, false, false, true, true, false)),
    (String ((Ascii (false, false, true, false, false, true, true, false)),
    (String ((Ascii (false, true, false, false, true, true, true, false)),
    EmptyString)))))))))))))))), (Cond ((Or ((Or ((Eq ((Sel ((Zpos (Coq_xO
    (Coq_xO Coq_xH))), (Zpos (Coq_xO (Coq_xO Coq_xH))), (V ((String ((Ascii
    (true, false, false, true, false, true, true, false)), (String ((Ascii
    (true, true, true, true, true, false, true, false)), (String ((Ascii
    (false, true, true, false, false, true, true, false)), (String ((Ascii
    (true, true, true, true, true, false, true, false)), (String ((Ascii
    (false, false, true, false, false, true, true, false)), (String ((Ascii
    (true, false, false, false, false, true, true, false)), (String ((Ascii
    (false, false, true, false, true, true, true, false)), (String ((Ascii
    (true, false, false, false, false, true, true, false)),
    EmptyString)))))))))))))))), (Zpos (Coq_xO (Coq_xO (Coq_xO
    Coq_xH)))))))), (C Z0))), (Eq ((Sel ((Zpos (Coq_xO (Coq_xO Coq_xH))),
    (Zpos (Coq_xO (Coq_xO Coq_xH))), (V ((String ((Ascii (true, false, false,
    true, false, true, true, false)), (String ((Ascii (true, true, true,
    true, true, false, true, false)), (String ((Ascii (false, true, true,
    false, false, true, true, false)), (String ((Ascii (true, true, true,
    true, true, false, true, false)), (String ((Ascii (false, false, true,
    false, false, true, true, false)), (String ((Ascii (true, false, false,
    false, false, true, true, false)), (String ((Ascii (false, false, true,
    false, true, true, true, false)), (String ((Ascii (true, false, false,
    false, false, true, true, false)), EmptyString)))))))))))))))), (Zpos
    (Coq_xO (Coq_xO (Coq_xO Coq_xH)))))))), (C (Zpos Coq_xH)))))), (Eq ((Sel
    ((Zpos (Coq_xO (Coq_xO Coq_xH))), (Zpos (Coq_xO (Coq_xO Coq_xH))), (V
    ((String ((Ascii (true, false, false, true, false, true, true, false)),
    (String ((Ascii (true, true, true, true, true, false, true, false)),
    (String ((Ascii (false, true, true, false, false, true, true, false)),
    (String ((Ascii (true, true, true, true, true, false, true, false)),
    (String ((Ascii (false, false, true, false, false, true, true, false)),
    (String ((Ascii (true, false, false, false, false, true, true, false)),
    (String ((Ascii (false, false, true, false, true, true, true, false)),
    (String ((Ascii (true, false, false, false, false, true, true, false)),
    EmptyString)))))))))))))))), (Zpos (Coq_xO (Coq_xO (Coq_xO
    Coq_xH)))))))), (C (Zpos (Coq_xO Coq_xH))))))), (Sel (Z0, (Zpos (Coq_xI
    (Coq_xI (Coq_xO (Coq_xO Coq_xH))))), (Or ((V ((String ((Ascii (true,
    true, true, true, false, true, true, false)), (String ((Ascii (false,
    true, false, false, true, true, true, false)), (String ((Ascii (true,
    false, true, false, false, true, true, false)), (String ((Ascii (true,
    true, true, false, false, true, true, false)), (String ((Ascii (true,
    true, true, true, true, false, true, false)), (String ((Ascii (true,
    false, false, false, true, true, true, false)), EmptyString)))))))))))),
    (Zpos (Coq_xO (Coq_xO (Coq_xO (Coq_xO (Coq_xO Coq_xH)))))))), (Sel (Z0,
    (Zpos (Coq_xO (Coq_xO Coq_xH))), (V ((String ((Ascii (true, false, false,
    true, false, true, true, false)), (String ((Ascii (true, true, true,
    true, true, false, true, false)), (String ((Ascii (false, true, true,
    false, false, true, true, false)), (String ((Ascii (true, true, true,
    true, true, false, true, false)), (String ((Ascii (false, false, true,
    false, false, true, true, false)), (String ((Ascii (true, false, false,
    false, false, true, true, false)), (String ((Ascii (false, false, true,
    false, true, true, true, false)), (String ((Ascii (true, false, false,
    false, false, true, true, false)), EmptyString)))))))))))))))), (Zpos
    (Coq_xO (Coq_xO (Coq_xO Coq_xH)))))))))))), (Cond ((Eq ((Sel ((Zpos
    (Coq_xO (Coq_xO Coq_xH))), (Zpos (Coq_xO (Coq_xO Coq_xH))), (V ((String
    ((Ascii (true, false, false, true, false, true, true, false)), (String
    ((Ascii (true, true, true, true, true, false, true, false)), (String
    ((Ascii (false, true, true, false, false, true, true, false)), (String
    ((Ascii (true, true, true, true, true, false, true, false)), (String
    ((Ascii (false, false, true, false, false, true, true, false)), (String
    ((Ascii (true, false, false, false, false, true, true, false)), (String
    ((Ascii (false, false, true, false, true, true, true, false)), (String
    ((Ascii (true, false, false, false, false, true, true, false)),
    EmptyString)))))))))))))))), (Zpos (Coq_xO (Coq_xO (Coq_xO
    Coq_xH)))))))), (C (Zpos (Coq_xO (Coq_xI Coq_xH)))))), (Add ((Zpos
    (Coq_xI (Coq_xI (Coq_xO (Coq_xO Coq_xH))))), (Sel (Z0, (Zpos (Coq_xI
    (Coq_xI (Coq_xO (Coq_xO Coq_xH))))), (V ((String ((Ascii (true, false,
    false, false, false, true, true, false)), (String ((Ascii (false, true,
    false, false, true, true, true, false)), (String ((Ascii (true, false,
    true, false, false, true, true, false)), (String ((Ascii (true, true,
    true, false, false, true, true, false)), (String ((Ascii (true, true,
    true, true, true, false, true, false)), (String ((Ascii (true, false,
    false, false, true, true, true, false)), EmptyString)))))))))))), (Zpos
    (Coq_xO (Coq_xO (Coq_xO (Coq_xO (Coq_xO Coq_xH)))))))))), (Sel (Z0, (Zpos
    (Coq_xI (Coq_xI (Coq_xO (Coq_xO Coq_xH))))), (Or ((V ((String ((Ascii
    (true, true, true, true, false, true, true, false)), (String ((Ascii
    (false, true, false, false, true, true, true, false)), (String ((Ascii
    (true, false, true, false, false, true, true, false)), (String ((Ascii
    (true, true, true, false, false, true, true, false)), (String ((Ascii
    (true, true, true, true, true, false, true, false)), (String ((Ascii
    (true, false, false, false, true, true, true, false)),
    EmptyString)))))))))))), (Zpos (Coq_xO (Coq_xO (Coq_xO (Coq_xO (Coq_xO
    Coq_xH)))))))), (Sel (Z0, (Zpos (Coq_xO (Coq_xO Coq_xH))), (V ((String
    ((Ascii (true, false, false, true, false, true, true, false)), (String
    ((Ascii (true, true, true, true, true, false, true, false)), (String
    ((Ascii (false, true, true, false, false, true, true, false)), (String
    ((Ascii (true, true, true, true, true, false, true, false)), (String
    ((Ascii (false, false, true, false, false, true, true, false)), (String
    ((Ascii (true, false, false, false, false, true, true, false)), (String
    ((Ascii (false, false, true, false, true, true, true, false)), (String
    ((Ascii (true, false, false, false, false, true, true, false)),
    EmptyString)))))))))))))))), (Zpos (Coq_xO (Coq_xO (Coq_xO
    Coq_xH)))))))))))))), (Cond ((Or ((Eq ((Sel ((Zpos (Coq_xO (Coq_xO
    Coq_xH))), (Zpos (Coq_xO (Coq_xO Coq_xH))), (V ((String ((Ascii (true,
    false, false, true, false, true, true, false)), (String ((Ascii (true,
    true, true, true, true, false, true, false)), (String ((Ascii (false,
    true, true, false, false, true, true, false)), (String ((Ascii (true,
    true, true, true, true, false, true, false)), (String ((Ascii (false,
    false, true, false, false, true, true, false)), (String ((Ascii (true,
    false, false, false, false, true, true, false)), (String ((Ascii (false,
    false, true, false, true, true, true, false)), (String ((Ascii (true,
    false, false, false, false, true, true, false)),
    EmptyString)))))))))))))))), (Zpos (Coq_xO (Coq_xO (Coq_xO
    Coq_xH)))))))), (C (Zpos (Coq_xI (Coq_xI Coq_xH)))))), (Eq ((Sel ((Zpos
    (Coq_xO (Coq_xO Coq_xH))), (Zpos (Coq_xO (Coq_xO Coq_xH))), (V ((String
    ((Ascii (true, false, false, true, false, true, true, false)), (String
    ((Ascii (true, true, true, true, true, false, true, false)), (String
    ((Ascii (false, true, true, false, false, true, true, false)), (String
    ((Ascii (true, true, true, true, true, false, true, false)), (String
    ((Ascii (false, false, true, false, false, true, true, false)), (String
    ((Ascii (true, false, false, false, false, true, true, false)), (String
    ((Ascii (false, false, true, false, true, true, true, false)), (String
    ((Ascii (true, false, false, false, false, true, true, false)),
    EmptyString)))))))))))))))), (Zpos (Coq_xO (Coq_xO (Coq_xO
    Coq_xH)))))))), (C (Zpos (Coq_xO (Coq_xO (Coq_xO Coq_xH))))))))), (Add
    ((Zpos (Coq_xI (Coq_xI (Coq_xO (Coq_xO Coq_xH))))), (Sel (Z0, (Zpos
    (Coq_xI (Coq_xI (Coq_xO (Coq_xO Coq_xH))))), (V ((String ((Ascii (false,
    true, false, false, false, true, true, false)), (String ((Ascii (false,
    true, false, false, true, true, true, false)), (String ((Ascii (true,
    false, true, false, false, true, true, false)), (String ((Ascii (true,
    true, true, false, false, true, true, false)), (String ((Ascii (true,
    true, true, true, true, false, true, false)), (String ((Ascii (true,
    false, false, false, true, true, true, false)), EmptyString)))))))))))),
    (Zpos (Coq_xO (Coq_xO (Coq_xO (Coq_xO (Coq_xO Coq_xH)))))))))), (Sel (Z0,
    (Zpos (Coq_xI (Coq_xI (Coq_xO (Coq_xO Coq_xH))))), (Or ((V ((String
    ((Ascii (true, true, true, true, false, true, true, false)), (String
    ((Ascii (false, true, false, false, true, true, true, false)), (String
    ((Ascii (true, false, true, false, false, true, true, false)), (String
    ((Ascii (true, true, true, false, false, true, true, false)), (String
    ((Ascii (true, true, true, true, true, false, true, false)), (String
    ((Ascii (true, false, false, false, true, true, true, false)),
    EmptyString)))))))))))), (Zpos (Coq_xO (Coq_xO (Coq_xO (Coq_xO (Coq_xO
    Coq_xH)))))))), (Sel (Z0, (Zpos (Coq_xO (Coq_xO Coq_xH))), (V ((String
    ((Ascii (true, false, false, true, false, true, true, false)), (String
    ((Ascii (true, true, true, true, true, false, true, false)), (String
    ((Ascii (false, true, true, false, false, true, true, false)), (String
    ((Ascii (true, true, true, true, true, false, true, false)), (String
    ((Ascii (false, false, true, false, false, true, true, false)), (String
    ((Ascii (true, false, false, false, false, true, true, false)), (String
    ((Ascii (false, false, true, false, true, true, true, false)), (String
    ((Ascii (true, false, false, false, false, true, true, false)),
    EmptyString)))))))))))))))), (Zpos (Coq_xO (Coq_xO (Coq_xO
    Coq_xH)))))))))))))), (C Z0)))))))) :: (((String ((Ascii (true, true,
    true, true, false, true, true, false)), (String ((Ascii (true, true,
    true, true, true, false, true, false)), (String ((Ascii (false, false,
    true, false, false, true, true, false)), (String ((Ascii (true, true,
    true, true, true, false, true, false)), (String ((Ascii (false, false,
    true, false, false, true, true, false)), (String ((Ascii (true, false,
    false, false, false, true, true, false)), (String ((Ascii (false, false,
    true, false, true, true, true, false)), (String ((Ascii (true, false,
    false, false, false, true, true, false)), EmptyString)))))))))))))))), (V
    ((String ((Ascii (true, false, false, false, false, true, true, false)),
    (String ((Ascii (false, true, false, false, true, true, true, false)),
    (String ((Ascii (true, false, true, false, false, true, true, false)),
    (String ((Ascii (true, true, true, false, false, true, true, false)),
    (String ((Ascii (true, true, true, true, true, false, true, false)),
    (String ((Ascii (true, false, false, false, true, true, true, false)),
    EmptyString)))))))))))), (Zpos (Coq_xO (Coq_xO (Coq_xO (Coq_xO (Coq_xO
    Coq_xH))))))))) :: (((String ((Ascii (true, true, true, true, false,
    true, true, false)), (String ((Ascii (true, true, true, true, true,
    false, true, false)), (String ((Ascii (false, false, true, false, false,
    true, true, false)), (String ((Ascii (true, true, true, true, true,
    false, true, false)), (String ((Ascii (false, true, true, false, true,
    true, true, false)), (String ((Ascii (true, false, false, false, false,
    true, true, false)), (String ((Ascii (false, false, true, true, false,
    true, true, false)), (String ((Ascii (true, false, false, true, false,
    true, true, false)), (String ((Ascii (false, false, true, false, false,
    true, true, false)), EmptyString)))))))))))))))))), (Or ((Eq ((Sel ((Zpos
    (Coq_xO (Coq_xO Coq_xH))), (Zpos (Coq_xO (Coq_xO Coq_xH))), (V ((String
    ((Ascii (true, false, false, true, false, true, true, false)), (String
    ((Ascii (true, true, true, true, true, false, true, false)), (String
    ((Ascii (false, true, true, false, false, true, true, false)), (String
    ((Ascii (true, true, true, true, true, false, true, false)), (String
    ((Ascii (false, false, true, false, false, true, true, false)), (String
    ((Ascii (true, false, false, false, false, true, true, false)), (String
    ((Ascii (false, false, true, false, true, true, true, false)), (String
    ((Ascii (true, false, false, false, false, true, true, false)),
    EmptyString)))))))))))))))), (Zpos (Coq_xO (Coq_xO (Coq_xO
    Coq_xH)))))))), (C Z0))), (Or ((Eq ((Sel ((Zpos (Coq_xO (Coq_xO
    Coq_xH))), (Zpos (Coq_xO (Coq_xO Coq_xH))), (V ((String ((Ascii (true,
    false, false, true, false, true, true, false)), (String ((Ascii (true,
    true, true, true, true, false, true, false)), (String ((Ascii (false,
    true, true, false, false, true, true, false)), (String ((Ascii (true,
    true, true, true, true, false, true, false)), (String ((Ascii (false,
    false, true, false, false, true, true, false)), (String ((Ascii (true,
    false, false, false, false, true, true, false)), (String ((Ascii (false,
    false, true, false, true, true, true, false)), (String ((Ascii (true,
    false, false, false, false, true, true, false)),
    EmptyString)))))))))))))))), (Zpos (Coq_xO (Coq_xO (Coq_xO
    Coq_xH)))))))), (C (Zpos Coq_xH)))), (Or ((Eq ((Sel ((Zpos (Coq_xO
    (Coq_xO Coq_xH))), (Zpos (Coq_xO (Coq_xO Coq_xH))), (V ((String ((Ascii
    (true, false, false, true, false, true, true, false)), (String ((Ascii
    (true, true, true, true, true, false, true, false)), (String ((Ascii
    (false, true, true, false, false, true, true, false)), (String ((Ascii
    (true, true, true, true, true, false, true, false)), (String ((Ascii
    (false, false, true, false, false, true, true, false)), (String ((Ascii
    (true, false, false, false, false, true, true, false)), (String ((Ascii
    (false, false, true, false, true, true, true, false)), (String ((Ascii
    (true, false, false, false, false, true, true, false)),
    EmptyString)))))))))))))))), (Zpos (Coq_xO (Coq_xO (Coq_xO
    Coq_xH)))))))), (C (Zpos (Coq_xO Coq_xH))))), (Or ((Eq ((Sel ((Zpos
    (Coq_xO (Coq_xO Coq_xH))), (Zpos (Coq_xO (Coq_xO Coq_xH))), (V ((String
    ((Ascii (true, false, false, true, false, true, true, false)), (String
    ((Ascii (true, true, true, true, true, false, true, false)), (String
    ((Ascii (false, true, true, false, false, true, true, false)), (String
    ((Ascii (true, true, true, true, true, false, true, false)), (String
    ((Ascii (false, false, true, false, false, true, true, false)), (String
    ((Ascii (true, false, false, false, false, true, true, false)), (String
    ((Ascii (false, false, true, false, true, true, true, false)), (String
    ((Ascii (true, false, false, false, false, true, true, false)),
    EmptyString)))))))))))))))), (Zpos (Coq_xO (Coq_xO (Coq_xO
    Coq_xH)))))))), (C (Zpos (Coq_xO (Coq_xI Coq_xH)))))), (Or ((Eq ((Sel
    ((Zpos (Coq_xO (Coq_xO Coq_xH))), (Zpos (Coq_xO (Coq_xO Coq_xH))), (V
    ((String ((Ascii (true, false, false, true, false, true, true, false)),
    (String ((Ascii (true, true, true, true, true, false, true, false)),
    (String ((Ascii (false, true, true, false, false, true, true, false)),
    (String ((Ascii (true, true, true, true, true, false, true, false)),
    (String ((Ascii (false, false, true, false, false, true, true, false)),
    (String ((Ascii (true, false, false, false, false, true, true, false)),
    (String ((Ascii (false, false, true, false, true, true, true, false)),
    (String ((Ascii (true, false, false, false, false, true, true, false)),
    EmptyString)))))))))))))))), (Zpos (Coq_xO (Coq_xO (Coq_xO
    Coq_xH)))))))), (C (Zpos (Coq_xI (Coq_xI Coq_xH)))))), (Eq ((Sel ((Zpos
    (Coq_xO (Coq_xO Coq_xH))), (Zpos (Coq_xO (Coq_xO Coq_xH))), (V ((String
    ((Ascii (true, false, false, true, false, true, true, false)), (String
    ((Ascii (true, true, true, true, true, false, true, false)), (String
    ((Ascii (false, true, true, false, false, true, true, false)), (String
    ((Ascii (true, true, true, true, true, false, true, false)), (String
    ((Ascii (false, false, true, false, false, true, true, false)), (String
    ((Ascii (true, false, false, false, false, true, true, false)), (String
    ((Ascii (false, false, true, false, true, true, true, false)), (String
    ((Ascii (true, false, false, false, false, true, true, false)),
    EmptyString)))))))))))))))), (Zpos (Coq_xO (Coq_xO (Coq_xO
    Coq_xH)))))))), (C (Zpos (Coq_xO (Coq_xO (Coq_xO
    Coq_xH)))))))))))))))))) :: (((String ((Ascii (true, true, true, true,
    false, true, true, false)), (String ((Ascii (true, true, true, true,
    true, false, true, false)), (String ((Ascii (false, false, true, false,
    false, true, true, false)), (String ((Ascii (true, true, true, true,
    true, false, true, false)), (String ((Ascii (true, true, true, false,
    true, true, true, false)), (String ((Ascii (true, false, true, false,
    false, true, true, false)), EmptyString)))))))))))), (Or ((Eq ((Sel
    ((Zpos (Coq_xO (Coq_xO Coq_xH))), (Zpos (Coq_xO (Coq_xO Coq_xH))), (V
    ((String ((Ascii (true, false, false, true, false, true, true, false)),
    (String ((Ascii (true, true, true, true, true, false, true, false)),
    (String ((Ascii (false, true, true, false, false, true, true, false)),
    (String ((Ascii (true, true, true, true, true, false, true, false)),
    (String ((Ascii (false, false, true, false, false, true, true, false)),
    (String ((Ascii (true, false, false, false, false, true, true, false)),
    (String ((Ascii (false, false, true, false, true, true, true, false)),
    (String ((Ascii (true, false, false, false, false, true, true, false)),
    EmptyString)))))))))))))))), (Zpos (Coq_xO (Coq_xO (Coq_xO
    Coq_xH)))))))), (C (Zpos (Coq_xO Coq_xH))))), (Eq ((Sel ((Zpos (Coq_xO
    (Coq_xO Coq_xH))), (Zpos (Coq_xO (Coq_xO Coq_xH))), (V ((String ((Ascii
    (true, false, false, true, false, true, true, false)), (String ((Ascii
    (true, true, true, true, true, false, true, false)), (String ((Ascii
    (false, true, true, false, false, true, true, false)), (String ((Ascii
    (true, true, true, true, true, false, true, false)), (String ((Ascii
    (false, false, true, false, false, true, true, false)), (String ((Ascii
    (true, false, false, false, false, true, true, false)), (String ((Ascii
    (false, false, true, false, true, true, true, false)), (String ((Ascii
    (true, false, false, false, false, true, true, false)),
    EmptyString)))))))))))))))), (Zpos (Coq_xO (Coq_xO (Coq_xO
    Coq_xH)))))))), (C (Zpos (Coq_xO (Coq_xO (Coq_xO
    Coq_xH)))))))))) :: (((String ((Ascii (true, true, true, true, false,
    true, true, false)), (String ((Ascii (true, true, true, true, true,
    false, true, false)), (String ((Ascii (false, true, true, false, false,
    true, true, false)), (String ((Ascii (true, true, true, true, true,
    false, true, false)), (String ((Ascii (true, false, false, false, false,
    true, true, false)), (String ((Ascii (false, false, true, false, false,
    true, true, false)), (String ((Ascii (false, false, true, false, false,
    true, true, false)), (String ((Ascii (false, true, false, false, true,
    true, true, false)), EmptyString)))))))))))))))), (V ((String ((Ascii
    (false, false, false, false, true, true, true, false)), (String ((Ascii
    (true, true, false, false, false, true, true, false)), (String ((Ascii
    (true, true, true, true, true, false, true, false)), (String ((Ascii
    (true, false, false, false, true, true, true, false)),
    EmptyString)))))))), (Zpos (Coq_xI (Coq_xO (Coq_xI (Coq_xO
    Coq_xH)))))))) :: (((String ((Ascii (true, true, true, true, false, true,
    true, false)), (String ((Ascii (true, true, true, true, true, false,
    true, false)), (String ((Ascii (false, true, true, false, false, true,
    true, false)), (String ((Ascii (true, true, true, true, true, false,
    true, false)), (String ((Ascii (false, true, true, false, true, true,
    true, false)), (String ((Ascii (true, false, false, false, false, true,
    true, false)), (String ((Ascii (false, false, true, true, false, true,
    true, false)), (String ((Ascii (true, false, false, true, false, true,
    true, false)), (String ((Ascii (false, false, true, false, false, true,
    true, false)), EmptyString)))))))))))))))))), (C (Zpos
    Coq_xH))) :: (((String ((Ascii (true, true, true, true, false, true,
    true, false)), (String ((Ascii (true, true, true, true, true, false,
    true, false)), (String ((Ascii (true, true, false, false, true, true,
    true, false)), (String ((Ascii (true, false, false, true, true, true,
    true, false)), (String ((Ascii (true, true, false, false, true, true,
    true, false)), (String ((Ascii (true, true, false, false, false, true,
    true, false)), (String ((Ascii (true, false, false, false, false, true,
    true, false)), (String ((Ascii (false, false, true, true, false, true,
    true, false)), (String ((Ascii (false, false, true, true, false, true,
    true, false)), EmptyString)))))))))))))))))), (Sel (Z0, (Zpos (Coq_xO
    Coq_xH)), (V ((String ((Ascii (true, false, false, false, false, true,
    true, false)), (String ((Ascii (false, true, false, false, true, true,
    true, false)), (String ((Ascii (true, false, true, false, false, true,
    true, false)), (String ((Ascii (true, true, true, false, false, true,
    true, false)), (String ((Ascii (true, true, true, true, true, false,
    true, false)), (String ((Ascii (true, false, false, false, true, true,
    true, false)), EmptyString)))))))))))), (Zpos (Coq_xO (Coq_xO (Coq_xO
    (Coq_xO (Coq_xO Coq_xH))))))))))) :: (((String ((Ascii (true, true, true,
    true, false, true, true, false)), (String ((Ascii (true, true, true,
    true, true, false, true, false)), (String ((Ascii (true, true, false,
    false, true, true, true, false)), (String ((Ascii (true, false, false,
    true, true, true, true, false)), (String ((Ascii (true, true, false,
    false, true, true, true, false)), (String ((Ascii (true, true, false,
    false, false, true, true, false)), (String ((Ascii (true, false, false,
    false, false, true, true, false)), (String ((Ascii (false, false, true,
    true, false, true, true, false)), (String ((Ascii (false, false, true,
    true, false, true, true, false)), (String ((Ascii (true, true, true,
    true, true, false, true, false)), (String ((Ascii (false, true, true,
    false, true, true, true, false)), (String ((Ascii (true, false, false,
    false, false, true, true, false)), (String ((Ascii (false, false, true,
    true, false, true, true, false)), (String ((Ascii (true, false, false,
    true, false, true, true, false)), (String ((Ascii (false, false, true,
    false, false, true, true, false)),
    EmptyString)))))))))))))))))))))))))))))), (And ((Eq ((C (Zpos (Coq_xI
    (Coq_xO (Coq_xI Coq_xH))))), (Sel ((Zpos (Coq_xO (Coq_xO Coq_xH))), (Zpos
    (Coq_xO (Coq_xO Coq_xH))), (V ((String ((Ascii (true, false, false, true,
    false, true, true, false)), (String ((Ascii (true, true, true, true,
    true, false, true, false)), (String ((Ascii (false, true, true, false,
    false, true, true, false)), (String ((Ascii (true, true, true, true,
    true, false, true, false)), (String ((Ascii (false, false, true, false,
    false, true, true, false)), (String ((Ascii (true, false, false, false,
    false, true, true, false)), (String ((Ascii (false, false, true, false,
    true, true, true, false)), (String ((Ascii (true, false, false, false,
    false, true, true, false)), EmptyString)))))))))))))))), (Zpos (Coq_xO
    (Coq_xO (Coq_xO Coq_xH)))))))))), (Eq ((C (Zpos (Coq_xI Coq_xH))), (Sel
    (Z0, (Zpos (Coq_xO (Coq_xO Coq_xH))), (V ((String ((Ascii (true, false,
    false, true, false, true, true, false)), (String ((Ascii (true, true,
    true, true, true, false, true, false)), (String ((Ascii (false, true,
    true, false, false, true, true, false)), (String ((Ascii (true, true,
    true, true, true, false, true, false)), (String ((Ascii (false, false,
    true, false, false, true, true, false)), (String ((Ascii (true, false,
    false, false, false, true, true, false)), (String ((Ascii (false, false,
    true, false, true, true, true, false)), (String ((Ascii (true, false,
    false, false, false, true, true, false)), EmptyString)))))))))))))))),
    (Zpos (Coq_xO (Coq_xO (Coq_xO Coq_xH))))))))))))) :: [])))))))

(** val d_next : (string * vexp) list **)

let d_next =
  ((String ((Ascii (true, false, false, false, false, true, true, false)),
    (String ((Ascii (false, true, false, false, true, true, true, false)),
    (String ((Ascii (true, false, true, false, false, true, true, false)),
    (String ((Ascii (true, true, true, false, false, true, true, false)),
    (String ((Ascii (true, true, true, true, true, false, true, false)),
    (String ((Ascii (true, false, false, false, true, true, true, false)),
    EmptyString)))))))))))), (Cond ((V ((String ((Ascii (true, false, false,
    true, false, true, true, false)), (String ((Ascii (true, true, true,
    true, true, false, true, false)), (String ((Ascii (false, true, false,
    false, true, true, true, false)), (String ((Ascii (true, true, false,
    false, true, true, true, false)), (String ((Ascii (false, false, true,
    false, true, true, true, false)), EmptyString)))))))))), (Zpos Coq_xH))),
    (C Z0), (Cond ((Eq ((Sel ((Zpos (Coq_xO (Coq_xO Coq_xH))), (Zpos (Coq_xO
    (Coq_xO Coq_xH))), (V ((String ((Ascii (true, false, false, true, false,
    true, true, false)), (String ((Ascii (true, true, true, true, true,
    false, true, false)), (String ((Ascii (false, true, true, false, false,
    true, true, false)), (String ((Ascii (true, true, true, true, true,
    false, true, false)), (String ((Ascii (false, false, true, false, false,
    true, true, false)), (String ((Ascii (true, false, false, false, false,
    true, true, false)), (String ((Ascii (false, false, true, false, true,
    true, true, false)), (String ((Ascii (true, false, false, false, false,
    true, true, false)), EmptyString)))))))))))))))), (Zpos (Coq_xO (Coq_xO
    (Coq_xO Coq_xH)))))))), (C Z0))), (V ((String ((Ascii (true, false,
    false, true, false, true, true, false)), (String ((Ascii (true, true,
    true, true, true, false, true, false)), (String ((Ascii (false, false,
    true, false, false, true, true, false)), (String ((Ascii (true, true,
    true, true, true, false, true, false)), (String ((Ascii (false, false,
    true, false, false, true, true, false)), (String ((Ascii (true, false,
    false, false, false, true, true, false)), (String ((Ascii (false, false,
    true, false, true, true, true, false)), (String ((Ascii (true, false,
    false, false, false, true, true, false)), EmptyString)))))))))))))))),
    (Zpos (Coq_xO (Coq_xO (Coq_xO (Coq_xO (Coq_xO Coq_xH)))))))), (Cond ((Eq
    ((Sel ((Zpos (Coq_xO (Coq_xO Coq_xH))), (Zpos (Coq_xO (Coq_xO Coq_xH))),
    (V ((String ((Ascii (true, false, false, true, false, true, true,
    false)), (String ((Ascii (true, true, true, true, true, false, true,
    false)), (String ((Ascii (false, true, true, false, false, true, true,
    false)), (String ((Ascii (true, true, true, true, true, false, true,
    false)), (String ((Ascii (false, false, true, false, false, true, true,
    false)), (String ((Ascii (true, false, false, false, false, true, true,
    false)), (String ((Ascii (false, false, true, false, true, true, true,
    false)), (String ((Ascii (true, false, false, false, false, true, true,
    false)), EmptyString)))))))))))))))), (Zpos (Coq_xO (Coq_xO (Coq_xO
    Coq_xH)))))))), (C (Zpos (Coq_xI Coq_xH))))), (Or ((V ((String ((Ascii
    (true, true, true, true, false, true, true, false)), (String ((Ascii
    (false, true, false, false, true, true, true, false)), (String ((Ascii
    (true, false, true, false, false, true, true, false)), (String ((Ascii
    (true, true, true, false, false, true, true, false)), (String ((Ascii
    (true, true, true, true, true, false, true, false)), (String ((Ascii
    (true, false, false, false, true, true, true, false)),
    EmptyString)))))))))))), (Zpos (Coq_xO (Coq_xO (Coq_xO (Coq_xO (Coq_xO
    Coq_xH)))))))), (Sel (Z0, (Zpos (Coq_xO (Coq_xO Coq_xH))), (V ((String
    ((Ascii (true, false, false, true, false, true, true, false)), (String
    ((Ascii (true, true, true, true, true, false, true, false)), (String
    ((Ascii (false, true, true, false, false, true, true, false)), (String
    ((Ascii (true, true, true, true, true, false, true, false)), (String
    ((Ascii (false, false, true, false, false, true, true, false)), (String
    ((Ascii (true, false, false, false, false, true, true, false)), (String
    ((Ascii (false, false, true, false, true, true, true, false)), (String
    ((Ascii (true, false, false, false, false, true, true, false)),
    EmptyString)))))))))))))))), (Zpos (Coq_xO (Coq_xO (Coq_xO
    Coq_xH)))))))))), (Cond ((Eq ((Sel ((Zpos (Coq_xO (Coq_xO Coq_xH))),
    (Zpos (Coq_xO (Coq_xO Coq_xH))), (V ((String ((Ascii (true, false, false,
    true, false, true, true, false)), (String ((Ascii (true, true, true,
    true, true, false, true, false)), (String ((Ascii (false, true, true,
    false, false, true, true, false)), (String ((Ascii (true, true, true,
    true, true, false, true, false)), (String ((Ascii (false, false, true,
    false, false, true, true, false)), (String ((Ascii (true, false, false,
    false, false, true, true, false)), (String ((Ascii (false, false, true,
    false, true, true, true, false)), (String ((Ascii (true, false, false,
    false, false, true, true, false)), EmptyString)))))))))))))))), (Zpos
    (Coq_xO (Coq_xO (Coq_xO Coq_xH)))))))), (C (Zpos (Coq_xI (Coq_xO
    Coq_xH)))))), (Add ((Zpos (Coq_xI (Coq_xO (Coq_xI (Coq_xO Coq_xH))))),
    (Cond ((Eq ((Sel ((Zpos (Coq_xO (Coq_xO Coq_xH))), (Zpos (Coq_xO (Coq_xO
    Coq_xH))), (V ((String ((Ascii (true, false, false, true, false, true,
    true, false)), (String ((Ascii (true, true, true, true, true, false,
    true, false)), (String ((Ascii (false, true, true, false, false, true,
    true, false)), (String ((Ascii (true, true, true, true, true, false,
    true, false)), (String ((Ascii (false, false, true, false, false, true,
    true, false)), (String ((Ascii (true, false, false, false, false, true,
    true, false)), (String ((Ascii (false, false, true, false, true, true,
    true, false)), (String ((Ascii (true, false, false, false, false, true,
    true, false)), EmptyString)))))))))))))))), (Zpos (Coq_xO (Coq_xO (Coq_xO
    Coq_xH)))))))), (C (Zpos (Coq_xI (Coq_xO (Coq_xO Coq_xH))))))), (Add
    ((Zpos (Coq_xI (Coq_xO (Coq_xI (Coq_xO Coq_xH))))), (Add ((Zpos (Coq_xI
    (Coq_xO (Coq_xI (Coq_xO Coq_xH))))), (C (Zpos Coq_xH)), (V ((String
    ((Ascii (false, false, false, false, true, true, true, false)), (String
    ((Ascii (true, true, false, false, false, true, true, false)), (String
    ((Ascii (true, true, true, true, true, false, true, false)), (String
    ((Ascii (true, false, false, false, true, true, true, false)),
    EmptyString)))))))), (Zpos (Coq_xI (Coq_xO (Coq_xI (Coq_xO
    Coq_xH))))))))), (Sel (Z0, (Zpos (Coq_xI (Coq_xO (Coq_xI (Coq_xO
    Coq_xH))))), (Or ((V ((String ((Ascii (true, true, true, true, false,
    true, true, false)), (String ((Ascii (false, true, false, false, true,
    true, true, false)), (String ((Ascii (true, false, true, false, false,
    true, true, false)), (String ((Ascii (true, true, true, false, false,
    true, true, false)), (String ((Ascii (true, true, true, true, true,
    false, true, false)), (String ((Ascii (true, false, false, false, true,
    true, true, false)), EmptyString)))))))))))), (Zpos (Coq_xO (Coq_xO
    (Coq_xO (Coq_xO (Coq_xO Coq_xH)))))))), (Sel (Z0, (Zpos (Coq_xO (Coq_xO
    Coq_xH))), (V ((String ((Ascii (true, false, false, true, false, true,
    true, false)), (String ((Ascii (true, true, true, true, true, false,
    true, false)), (String ((Ascii (false, true, true, false, false, true,
    true, false)), (String ((Ascii (true, true, true, true, true, false,
    true, false)), (String ((Ascii (false, false, true, false, false, true,
    true, false)), (String ((Ascii (true, false, false, false, false, true,
    true, false)), (String ((Ascii (false, false, true, false, true, true,
    true, false)), (String ((Ascii (true, false, false, false, false, true,
    true, false)), EmptyString)))))))))))))))), (Zpos (Coq_xO (Coq_xO (Coq_xO
    Coq_xH)))))))))))))), (Cond ((Eq ((Sel ((Zpos (Coq_xO (Coq_xO Coq_xH))),
    (Zpos (Coq_xO (Coq_xO Coq_xH))), (V ((String ((Ascii (true, false, false,
    true, false, true, true, false)), (String ((Ascii (true, true, true,
    true, true, false, true, false)), (String ((Ascii (false, true, true,
    false, false, true, true, false)), (String ((Ascii (true, true, true,
    true, true, false, true, false)), (String ((Ascii (false, false, true,
    false, false, true, true, false)), (String ((Ascii (true, false, false,
    false, false, true, true, false)), (String ((Ascii (false, false, true,
    false, true, true, true, false)), (String ((Ascii (true, false, false,
    false, false, true, true, false)), EmptyString)))))))))))))))), (Zpos
    (Coq_xO (Coq_xO (Coq_xO Coq_xH)))))))), (C (Zpos (Coq_xO (Coq_xI (Coq_xO
    Coq_xH))))))), (Cond ((Eq ((C Z0), (V ((String ((Ascii (true, false,
    false, false, false, true, true, false)), (String ((Ascii (false, true,
    false, false, true, true, true, false)), (String ((Ascii (true, false,
    true, false, false, true, true, false)), (String ((Ascii (true, true,
    true, false, false, true, true, false)), (String ((Ascii (true, true,
    true, true, true, false, true, false)), (String ((Ascii (true, false,
    false, false, true, true, true, false)), EmptyString)))))))))))), (Zpos
    (Coq_xO (Coq_xO (Coq_xO (Coq_xO (Coq_xO Coq_xH)))))))))), (Add ((Zpos
    (Coq_xI (Coq_xO (Coq_xI (Coq_xO Coq_xH))))), (Add ((Zpos (Coq_xI (Coq_xO
    (Coq_xI (Coq_xO Coq_xH))))), (C (Zpos Coq_xH)), (V ((String ((Ascii
    (false, false, false, false, true, true, true, false)), (String ((Ascii
    (true, true, false, false, false, true, true, false)), (String ((Ascii
    (true, true, true, true, true, false, true, false)), (String ((Ascii
    (true, false, false, false, true, true, true, false)),
    EmptyString)))))))), (Zpos (Coq_xI (Coq_xO (Coq_xI (Coq_xO
    Coq_xH))))))))), (Sel (Z0, (Zpos (Coq_xI (Coq_xO (Coq_xI (Coq_xO
    Coq_xH))))), (Or ((V ((String ((Ascii (true, true, true, true, false,
    true, true, false)), (String ((Ascii (false, true, false, false, true,
    true, true, false)), (String ((Ascii (true, false, true, false, false,
    true, true, false)), (String ((Ascii (true, true, true, false, false,
    true, true, false)), (String ((Ascii (true, true, true, true, true,
    false, true, false)), (String ((Ascii (true, false, false, false, true,
    true, true, false)), EmptyString)))))))))))), (Zpos (Coq_xO (Coq_xO
    (Coq_xO (Coq_xO (Coq_xO Coq_xH)))))))), (Sel (Z0, (Zpos (Coq_xO (Coq_xO
    Coq_xH))), (V ((String ((Ascii (true, false, false, true, false, true,
    true, false)), (String ((Ascii (true, true, true, true, true, false,
    true, false)), (String ((Ascii (false, true, true, false, false, true,
    true, false)), (String ((Ascii (true, true, true, true, true, false,
    true, false)), (String ((Ascii (false, false, true, false, false, true,
    true, false)), (String ((Ascii (true, false, false, false, false, true,
    true, false)), (String ((Ascii (false, false, true, false, true, true,
    true, false)), (String ((Ascii (true, false, false, false, false, true,
    true, false)), EmptyString)))))))))))))))), (Zpos (Coq_xO (Coq_xO (Coq_xO
    Coq_xH)))))))))))))), (Add ((Zpos (Coq_xI (Coq_xO (Coq_xI (Coq_xO
    Coq_xH))))), (C (Zpos Coq_xH)), (V ((String ((Ascii (false, false, false,
    false, true, true, true, false)), (String ((Ascii (true, true, false,
    false, false, true, true, false)), (String ((Ascii (true, true, true,
    true, true, false, true, false)), (String ((Ascii (true, false, false,
    false, true, true, true, false)), EmptyString)))))))), (Zpos (Coq_xI
    (Coq_xO (Coq_xI (Coq_xO Coq_xH))))))))))), (Cond ((Eq ((Sel ((Zpos
    (Coq_xO (Coq_xO Coq_xH))), (Zpos (Coq_xO (Coq_xO Coq_xH))), (V ((String
    ((Ascii (true, false, false, true, false, true, true, false)), (String
    ((Ascii (true, true, true, true, true, false, true, false)), (String
    ((Ascii (false, true, true, false, false, true, true, false)), (String
    ((Ascii (true, true, true, true, true, false, true, false)), (String
    ((Ascii (false, false, true, false, false, true, true, false)), (String
    ((Ascii (true, false, false, false, false, true, true, false)), (String
    ((Ascii (false, false, true, false, true, true, true, false)), (String
    ((Ascii (true, false, false, false, false, true, true, false)),
    EmptyString)))))))))))))))), (Zpos (Coq_xO (Coq_xO (Coq_xO
    Coq_xH)))))))), (C (Zpos (Coq_xI (Coq_xI (Coq_xO Coq_xH))))))), (Cond
    ((Gts ((Zpos (Coq_xO (Coq_xO (Coq_xO (Coq_xO (Coq_xO Coq_xH)))))), (C
    Z0), (V ((String ((Ascii (true, false, false, false, false, true, true,
    false)), (String ((Ascii (false, true, false, false, true, true, true,
    false)), (String ((Ascii (true, false, true, false, false, true, true,
    false)), (String ((Ascii (true, true, true, false, false, true, true,
    false)), (String ((Ascii (true, true, true, true, true, false, true,
    false)), (String ((Ascii (true, false, false, false, true, true, true,
    false)), EmptyString)))))))))))), (Zpos (Coq_xO (Coq_xO (Coq_xO (Coq_xO
    (Coq_xO Coq_xH)))))))))), (Add ((Zpos (Coq_xI (Coq_xO (Coq_xI (Coq_xO
    Coq_xH))))), (Add ((Zpos (Coq_xI (Coq_xO (Coq_xI (Coq_xO Coq_xH))))), (C
    (Zpos Coq_xH)), (V ((String ((Ascii (false, false, false, false, true,
    true, true, false)), (String ((Ascii (true, true, false, false, false,
    true, true, false)), (String ((Ascii (true, true, true, true, true,
    false, true, false)), (String ((Ascii (true, false, false, false, true,
    true, true, false)), EmptyString)))))))), (Zpos (Coq_xI (Coq_xO (Coq_xI
    (Coq_xO Coq_xH))))))))), (Sel (Z0, (Zpos (Coq_xI (Coq_xO (Coq_xI (Coq_xO
    Coq_xH))))), (Or ((V ((String ((Ascii (true, true, true, true, false,
    true, true, false)), (String ((Ascii (false, true, false, false, true,
    true, true, false)), (String ((Ascii (true, false, true, false, false,
    true, true, false)), (String ((Ascii (true, true, true, false, false,
    true, true, false)), (String ((Ascii (true, true, true, true, true,
    false, true, false)), (String ((Ascii (true, false, false, false, true,
    true, true, false)), EmptyString)))))))))))), (Zpos (Coq_xO (Coq_xO
    (Coq_xO (Coq_xO (Coq_xO Coq_xH)))))))), (Sel (Z0, (Zpos (Coq_xO (Coq_xO
    Coq_xH))), (V ((String ((Ascii (true, false, false, true, false, true,
    true, false)), (String ((Ascii (true, true, true, true, true, false,
    true, false)), (String ((Ascii (false, true, true, false, false, true,
    true, false)), (String ((Ascii (true, true, true, true, true, false,
    true, false)), (String ((Ascii (false, false, true, false, false, true,
    true, false)), (String ((Ascii (true, false, false, false, false, true,
    true, false)), (String ((Ascii (false, false, true, false, true, true,
    true, false)), (String ((Ascii (true, false, false, false, false, true,
    true, false)), EmptyString)))))))))))))))), (Zpos (Coq_xO (Coq_xO (Coq_xO
    Coq_xH)))))))))))))), (Add ((Zpos (Coq_xI (Coq_xO (Coq_xI (Coq_xO
    Coq_xH))))), (C (Zpos Coq_xH)), (V ((String ((Ascii (false, false, false,
    false, true, true, true, false)), (String ((Ascii (true, true, false,
    false, false, true, true, false)), (String ((Ascii (true, true, true,
    true, true, false, true, false)), (String ((Ascii (true, false, false,
    false, true, true, true, false)), EmptyString)))))))), (Zpos (Coq_xI
    (Coq_xO (Coq_xI (Coq_xO Coq_xH))))))))))), (Cond ((Eq ((Sel ((Zpos
    (Coq_xO (Coq_xO Coq_xH))), (Zpos (Coq_xO (Coq_xO Coq_xH))), (V ((String
    ((Ascii (true, false, false, true, false, true, true, false)), (String
    ((Ascii (true, true, true, true, true, false, true, false)), (String
    ((Ascii (false, true, true, false, false, true, true, false)), (String
    ((Ascii (true, true, true, true, true, false, true, false)), (String
    ((Ascii (false, false, true, false, false, true, true, false)), (String
    ((Ascii (true, false, false, false, false, true, true, false)), (String
    ((Ascii (false, false, true, false, true, true, true, false)), (String
    ((Ascii (true, false, false, false, false, true, true, false)),
    EmptyString)))))))))))))))), (Zpos (Coq_xO (Coq_xO (Coq_xO
    Coq_xH)))))))), (C (Zpos (Coq_xI (Coq_xO (Coq_xI Coq_xH))))))), (Cond
    ((Eq ((C Z0), (Sel (Z0, (Zpos (Coq_xO (Coq_xO Coq_xH))), (V ((String
    ((Ascii (true, false, false, true, false, true, true, false)), (String
    ((Ascii (true, true, true, true, true, false, true, false)), (String
    ((Ascii (false, true, true, false, false, true, true, false)), (String
    ((Ascii (true, true, true, true, true, false, true, false)), (String
    ((Ascii (false, false, true, false, false, true, true, false)), (String
    ((Ascii (true, false, false, false, false, true, true, false)), (String
    ((Ascii (false, false, true, false, true, true, true, false)), (String
    ((Ascii (true, false, false, false, false, true, true, false)),
    EmptyString)))))))))))))))), (Zpos (Coq_xO (Coq_xO (Coq_xO
    Coq_xH)))))))))), (Sel (Z0, (Zpos (Coq_xI (Coq_xO (Coq_xI (Coq_xO
    Coq_xH))))), (V ((String ((Ascii (false, true, false, false, false, true,
    true, false)), (String ((Ascii (false, true, false, false, true, true,
    true, false)), (String ((Ascii (true, false, true, false, false, true,
    true, false)), (String ((Ascii (true, true, true, false, false, true,
    true, false)), (String ((Ascii (true, true, true, true, true, false,
    true, false)), (String ((Ascii (true, false, false, false, true, true,
    true, false)), EmptyString)))))))))))), (Zpos (Coq_xO (Coq_xO (Coq_xO
    (Coq_xO (Coq_xO Coq_xH)))))))))), (Add ((Zpos (Coq_xI (Coq_xO (Coq_xI
    (Coq_xO Coq_xH))))), (C (Zpos Coq_xH)), (V ((String ((Ascii (false,
    false, false, false, true, true, true, false)), (String ((Ascii (true,
    true, false, false, false, true, true, false)), (String ((Ascii (true,
    true, true, true, true, false, true, false)), (String ((Ascii (true,
    false, false, false, true, true, true, false)), EmptyString)))))))),
    (Zpos (Coq_xI (Coq_xO (Coq_xI (Coq_xO Coq_xH))))))))))), (Add ((Zpos
    (Coq_xI (Coq_xO (Coq_xI (Coq_xO Coq_xH))))), (C (Zpos Coq_xH)), (V
    ((String ((Ascii (false, false, false, false, true, true, true, false)),
    (String ((Ascii (true, true, false, false, false, true, true, false)),
    (String ((Ascii (true, true, true, true, true, false, true, false)),
    (String ((Ascii (true, false, false, false, true, true, true, false)),
    EmptyString)))))))), (Zpos (Coq_xI (Coq_xO (Coq_xI (Coq_xO
    Coq_xH))))))))))))))))), (Sel (Z0, (Zpos (Coq_xI (Coq_xO (Coq_xI (Coq_xO
    Coq_xH))))), (Or ((V ((String ((Ascii (true, true, true, true, false,
    true, true, false)), (String ((Ascii (false, true, false, false, true,
    true, true, false)), (String ((Ascii (true, false, true, false, false,
    true, true, false)), (String ((Ascii (true, true, true, false, false,
    true, true, false)), (String ((Ascii (true, true, true, true, true,
    false, true, false)), (String ((Ascii (true, false, false, false, true,
    true, true, false)), EmptyString)))))))))))), (Zpos (Coq_xO (Coq_xO
    (Coq_xO (Coq_xO (Coq_xO Coq_xH)))))))), (Sel (Z0, (Zpos (Coq_xO (Coq_xO
    Coq_xH))), (V ((String ((Ascii (true, false, false, true, false, true,
    true, false)), (String ((Ascii (true, true, true, true, true, false,
    true, false)), (String ((Ascii (false, true, true, false, false, true,
    true, false)), (String ((Ascii (true, true, true, true, true, false,
    true, false)), (String ((Ascii (false, false, true, false, false, true,
    true, false)), (String ((Ascii (true, false, false, false, false, true,
    true, false)), (String ((Ascii (false, false, true, false, true, true,
    true, false)), (String ((Ascii (true, false, false, false, false, true,
    true, false)), EmptyString)))))))))))))))), (Zpos (Coq_xO (Coq_xO (Coq_xO
    Coq_xH)))))))))))))), (Cond ((Eq ((Sel ((Zpos (Coq_xO (Coq_xO Coq_xH))),
    (Zpos (Coq_xO (Coq_xO Coq_xH))), (V ((String ((Ascii (true, false, false,
    true, false, true, true, false)), (String ((Ascii (true, true, true,
    true, true, false, true, false)), (String ((Ascii (false, true, true,
    false, false, true, true, false)), (String ((Ascii (true, true, true,
    true, true, false, true, false)), (String ((Ascii (false, false, true,
    false, false, true, true, false)), (String ((Ascii (true, false, false,
    false, false, true, true, false)), (String ((Ascii (false, false, true,
    false, true, true, true, false)), (String ((Ascii (true, false, false,
    false, false, true, true, false)), EmptyString)))))))))))))))), (Zpos
    (Coq_xO (Coq_xO (Coq_xO Coq_xH)))))))), (C (Zpos (Coq_xO (Coq_xI
    Coq_xH)))))), (V ((String ((Ascii (true, false, false, true, false, true,
    true, false)), (String ((Ascii (true, true, true, true, true, false,
    true, false)), (String ((Ascii (false, false, true, false, false, true,
    true, false)), (String ((Ascii (true, true, true, true, true, false,
    true, false)), (String ((Ascii (false, false, true, false, false, true,
    true, false)), (String ((Ascii (true, false, false, false, false, true,
    true, false)), (String ((Ascii (false, false, true, false, true, true,
    true, false)), (String ((Ascii (true, false, false, false, false, true,
    true, false)), EmptyString)))))))))))))))), (Zpos (Coq_xO (Coq_xO (Coq_xO
    (Coq_xO (Coq_xO Coq_xH)))))))), (Cond ((Eq ((Sel ((Zpos (Coq_xO (Coq_xO
    Coq_xH))), (Zpos (Coq_xO (Coq_xO Coq_xH))), (V ((String ((Ascii (true,
    false, false, true, false, true, true, false)), (String ((Ascii (true,
    true, true, true, true, false, true, false)), (String ((Ascii (false,
    true, true, false, false, true, true, false)), (String ((Ascii (true,
    true, true, true, true, false, true, false)), (String ((Ascii (false,
    false, true, false, false, true, true, false)), (String ((Ascii (true,
    false, false, false, false, true, true, false)), (String ((Ascii (false,
    false, true, false, true, true, true, false)), (String ((Ascii (true,
    false, false, false, false, true, true, false)),
    EmptyString)))))))))))))))), (Zpos (Coq_xO (Coq_xO (Coq_xO
    Coq_xH)))))))), (C (Zpos (Coq_xI (Coq_xO (Coq_xI Coq_xH))))))), (Cond
    ((Eq ((Sel (Z0, (Zpos (Coq_xO (Coq_xO Coq_xH))), (V ((String ((Ascii
    (true, false, false, true, false, true, true, false)), (String ((Ascii
    (true, true, true, true, true, false, true, false)), (String ((Ascii
    (false, true, true, false, false, true, true, false)), (String ((Ascii
    (true, true, true, true, true, false, true, false)), (String ((Ascii
    (false, false, true, false, false, true, true, false)), (String ((Ascii
    (true, false, false, false, false, true, true, false)), (String ((Ascii
    (false, false, true, false, true, true, true, false)), (String ((Ascii
    (true, false, false, false, false, true, true, false)),
    EmptyString)))))))))))))))), (Zpos (Coq_xO (Coq_xO (Coq_xO
    Coq_xH)))))))), (C (Zpos Coq_xH)))), (Add ((Zpos (Coq_xO (Coq_xO (Coq_xO
    (Coq_xO (Coq_xO Coq_xH)))))), (V ((String ((Ascii (true, false, false,
    false, false, true, true, false)), (String ((Ascii (false, true, false,
    false, true, true, true, false)), (String ((Ascii (true, false, true,
    false, false, true, true, false)), (String ((Ascii (true, true, true,
    false, false, true, true, false)), (String ((Ascii (true, true, true,
    true, true, false, true, false)), (String ((Ascii (true, false, false,
    false, true, true, true, false)), EmptyString)))))))))))), (Zpos (Coq_xO
    (Coq_xO (Coq_xO (Coq_xO (Coq_xO Coq_xH)))))))), (V ((String ((Ascii
    (false, true, false, false, false, true, true, false)), (String ((Ascii
    (false, true, false, false, true, true, true, false)), (String ((Ascii
    (true, false, true, false, false, true, true, false)), (String ((Ascii
    (true, true, true, false, false, true, true, false)), (String ((Ascii
    (true, true, true, true, true, false, true, false)), (String ((Ascii
    (true, false, false, false, true, true, true, false)),
    EmptyString)))))))))))), (Zpos (Coq_xO (Coq_xO (Coq_xO (Coq_xO (Coq_xO
    Coq_xH)))))))))), (Cond ((Eq ((Sel (Z0, (Zpos (Coq_xO (Coq_xO Coq_xH))),
    (V ((String ((Ascii (true, false, false, true, false, true, true,
    false)), (String ((Ascii (true, true, true, true, true, false, true,
    false)), (String ((Ascii (false, true, true, false, false, true, true,
    false)), (String ((Ascii (true, true, true, true, true, false, true,
    false)), (String ((Ascii (false, false, true, false, false, true, true,
    false)), (String ((Ascii (true, false, false, false, false, true, true,
    false)), (String ((Ascii (false, false, true, false, true, true, true,
    false)), (String ((Ascii (true, false, false, false, false, true, true,
    false)), EmptyString)))))))))))))))), (Zpos (Coq_xO (Coq_xO (Coq_xO
    Coq_xH)))))))), (C (Zpos (Coq_xO Coq_xH))))), (Sub ((Zpos (Coq_xO (Coq_xO
    (Coq_xO (Coq_xO (Coq_xO Coq_xH)))))), (V ((String ((Ascii (true, false,
    false, false, false, true, true, false)), (String ((Ascii (false, true,
    false, false, true, true, true, false)), (String ((Ascii (true, false,
    true, false, false, true, true, false)), (String ((Ascii (true, true,
    true, false, false, true, true, false)), (String ((Ascii (true, true,
    true, true, true, false, true, false)), (String ((Ascii (true, false,
    false, false, true, true, true, false)), EmptyString)))))))))))), (Zpos
    (Coq_xO (Coq_xO (Coq_xO (Coq_xO (Coq_xO Coq_xH)))))))), (V ((String
    ((Ascii (false, true, false, false, false, true, true, false)), (String
    ((Ascii (false, true, false, false, true, true, true, false)), (String
    ((Ascii (true, false, true, false, false, true, true, false)), (String
    ((Ascii (true, true, true, false, false, true, true, false)), (String
    ((Ascii (true, true, true, true, true, false, true, false)), (String
    ((Ascii (true, false, false, false, true, true, true, false)),
    EmptyString)))))))))))), (Zpos (Coq_xO (Coq_xO (Coq_xO (Coq_xO (Coq_xO
    Coq_xH)))))))))), (V ((String ((Ascii (true, false, false, false, false,
    true, true, false)), (String ((Ascii (false, true, false, false, true,
    true, true, false)), (String ((Ascii (true, false, true, false, false,
    true, true, false)), (String ((Ascii (true, true, true, false, false,
    true, true, false)), (String ((Ascii (true, true, true, true, true,
    false, true, false)), (String ((Ascii (true, false, false, false, true,
    true, true, false)), EmptyString)))))))))))), (Zpos (Coq_xO (Coq_xO
    (Coq_xO (Coq_xO (Coq_xO Coq_xH)))))))))))), (V ((String ((Ascii (true,
    false, false, false, false, true, true, false)), (String ((Ascii (false,
    true, false, false, true, true, true, false)), (String ((Ascii (true,
    false, true, false, false, true, true, false)), (String ((Ascii (true,
    true, true, false, false, true, true, false)), (String ((Ascii (true,
    true, true, true, true, false, true, false)), (String ((Ascii (true,
    false, false, false, true, true, true, false)), EmptyString)))))))))))),
    (Zpos (Coq_xO (Coq_xO (Coq_xO (Coq_xO (Coq_xO
    Coq_xH))))))))))))))))))))) :: (((String ((Ascii (false, true, false,
    false, false, true, true, false)), (String ((Ascii (false, true, false,
    false, true, true, true, false)), (String ((Ascii (true, false, true,
    false, false, true, true, false)), (String ((Ascii (true, true, true,
    false, false, true, true, false)), (String ((Ascii (true, true, true,
    true, true, false, true, false)), (String ((Ascii (true, false, false,
    false, true, true, true, false)), EmptyString)))))))))))), (Cond ((V
    ((String ((Ascii (true, false, false, true, false, true, true, false)),
    (String ((Ascii (true, true, true, true, true, false, true, false)),
    (String ((Ascii (false, true, false, false, true, true, true, false)),
    (String ((Ascii (true, true, false, false, true, true, true, false)),
    (String ((Ascii (false, false, true, false, true, true, true, false)),
    EmptyString)))))))))), (Zpos Coq_xH))), (C Z0), (Cond ((Or ((Eq ((Sel
    ((Zpos (Coq_xO (Coq_xO Coq_xH))), (Zpos (Coq_xO (Coq_xO Coq_xH))), (V
    ((String ((Ascii (true, false, false, true, false, true, true, false)),
    (String ((Ascii (true, true, true, true, true, false, true, false)),
    (String ((Ascii (false, true, true, false, false, true, true, false)),
    (String ((Ascii (true, true, true, true, true, false, true, false)),
    (String ((Ascii (false, false, true, false, false, true, true, false)),
    (String ((Ascii (true, false, false, false, false, true, true, false)),
    (String ((Ascii (false, false, true, false, true, true, true, false)),
    (String ((Ascii (true, false, false, false, false, true, true, false)),
    EmptyString)))))))))))))))), (Zpos (Coq_xO (Coq_xO (Coq_xO
    Coq_xH)))))))), (C (Zpos Coq_xH)))), (Eq ((Sel ((Zpos (Coq_xO (Coq_xO
    Coq_xH))), (Zpos (Coq_xO (Coq_xO Coq_xH))), (V ((String ((Ascii (true,
    false, false, true, false, true, true, false)), (String ((Ascii (true,
    true, true, true, true, false, true, false)), (String ((Ascii (false,
    true, true, false, false, true, true, false)), (String ((Ascii (true,
    true, true, true, true, false, true, false)), (String ((Ascii (false,
    false, true, false, false, true, true, false)), (String ((Ascii (true,
    false, false, false, false, true, true, false)), (String ((Ascii (false,
    false, true, false, true, true, true, false)), (String ((Ascii (true,
    false, false, false, false, true, true, false)),
    EmptyString)))))))))))))))), (Zpos (Coq_xO (Coq_xO (Coq_xO
    Coq_xH)))))))), (C (Zpos (Coq_xI (Coq_xI Coq_xH)))))))), (V ((String
    ((Ascii (true, false, false, true, false, true, true, false)), (String
    ((Ascii (true, true, true, true, true, false, true, false)), (String
    ((Ascii (false, false, true, false, false, true, true, false)), (String
    ((Ascii (true, true, true, true, true, false, true, false)), (String
    ((Ascii (false, false, true, false, false, true, true, false)), (String
    ((Ascii (true, false, false, false, false, true, true, false)), (String
    ((Ascii (false, false, true, false, true, true, true, false)), (String
    ((Ascii (true, false, false, false, false, true, true, false)),
    EmptyString)))))))))))))))), (Zpos (Coq_xO (Coq_xO (Coq_xO (Coq_xO
    (Coq_xO Coq_xH)))))))), (Cond ((Eq ((Sel ((Zpos (Coq_xO (Coq_xO
    Coq_xH))), (Zpos (Coq_xO (Coq_xO Coq_xH))), (V ((String ((Ascii (true,
    false, false, true, false, true, true, false)), (String ((Ascii (true,
    true, true, true, true, false, true, false)), (String ((Ascii (false,
    true, true, false, false, true, true, false)), (String ((Ascii (true,
    true, true, true, true, false, true, false)), (String ((Ascii (false,
    false, true, false, false, true, true, false)), (String ((Ascii (true,
    false, false, false, false, true, true, false)), (String ((Ascii (false,
    false, true, false, true, true, true, false)), (String ((Ascii (true,
    false, false, false, false, true, true, false)),
    EmptyString)))))))))))))))), (Zpos (Coq_xO (Coq_xO (Coq_xO
    Coq_xH)))))))), (C (Zpos (Coq_xO (Coq_xO Coq_xH)))))), (Or ((V ((String
    ((Ascii (true, true, true, true, false, true, true, false)), (String
    ((Ascii (false, true, false, false, true, true, true, false)), (String
    ((Ascii (true, false, true, false, false, true, true, false)), (String
    ((Ascii (true, true, true, false, false, true, true, false)), (String
    ((Ascii (true, true, true, true, true, false, true, false)), (String
    ((Ascii (true, false, false, false, true, true, true, false)),
    EmptyString)))))))))))), (Zpos (Coq_xO (Coq_xO (Coq_xO (Coq_xO (Coq_xO
    Coq_xH)))))))), (Sel (Z0, (Zpos (Coq_xO (Coq_xO Coq_xH))), (V ((String
    ((Ascii (true, false, false, true, false, true, true, false)), (String
    ((Ascii (true, true, true, true, true, false, true, false)), (String
    ((Ascii (false, true, true, false, false, true, true, false)), (String
    ((Ascii (true, true, true, true, true, false, true, false)), (String
    ((Ascii (false, false, true, false, false, true, true, false)), (String
    ((Ascii (true, false, false, false, false, true, true, false)), (String
    ((Ascii (false, false, true, false, true, true, true, false)), (String
    ((Ascii (true, false, false, false, false, true, true, false)),
    EmptyString)))))))))))))))), (Zpos (Coq_xO (Coq_xO (Coq_xO
    Coq_xH)))))))))), (V ((String ((Ascii (false, true, false, false, false,
    true, true, false)), (String ((Ascii (false, true, false, false, true,
    true, true, false)), (String ((Ascii (true, false, true, false, false,
    true, true, false)), (String ((Ascii (true, true, true, false, false,
    true, true, false)), (String ((Ascii (true, true, true, true, true,
    false, true, false)), (String ((Ascii (true, false, false, false, true,
    true, true, false)), EmptyString)))))))))))), (Zpos (Coq_xO (Coq_xO
    (Coq_xO (Coq_xO (Coq_xO Coq_xH))))))))))))))) :: (((String ((Ascii (true,
    true, true, true, false, true, true, false)), (String ((Ascii (false,
    true, false, false, true, true, true, false)), (String ((Ascii (true,
    false, true, false, false, true, true, false)), (String ((Ascii (true,
    true, true, false, false, true, true, false)), (String ((Ascii (true,
    true, true, true, true, false, true, false)), (String ((Ascii (true,
    false, false, false, true, true, true, false)), EmptyString)))))))))))),
    (Cond ((V ((String ((Ascii (true, false, false, true, false, true, true,
    false)), (String ((Ascii (true, true, true, true, true, false, true,
    false)), (String ((Ascii (false, true, false, false, true, true, true,
    false)), (String ((Ascii (true, true, false, false, true, true, true,
    false)), (String ((Ascii (false, false, true, false, true, true, true,
    false)), EmptyString)))))))))), (Zpos Coq_xH))), (C Z0), (Cond ((Eq ((Sel
    ((Zpos (Coq_xO (Coq_xO Coq_xH))), (Zpos (Coq_xO (Coq_xO Coq_xH))), (V
    ((String ((Ascii (true, false, false, true, false, true, true, false)),
    (String ((Ascii (true, true, true, true, true, false, true, false)),
    (String ((Ascii (false, true, true, false, false, true, true, false)),
    (String ((Ascii (true, true, true, true, true, false, true, false)),
    (String ((Ascii (false, false, true, false, false, true, true, false)),
    (String ((Ascii (true, false, false, false, false, true, true, false)),
    (String ((Ascii (false, false, true, false, true, true, true, false)),
    (String ((Ascii (true, false, false, false, false, true, true, false)),
    EmptyString)))))))))))))))), (Zpos (Coq_xO (Coq_xO (Coq_xO
    Coq_xH)))))))), (C (Zpos (Coq_xO (Coq_xI (Coq_xI Coq_xH))))))), (Shl
    ((Zpos (Coq_xO (Coq_xO (Coq_xO (Coq_xO (Coq_xO Coq_xH)))))), (Or ((V
    ((String ((Ascii (true, true, true, true, false, true, true, false)),
    (String ((Ascii (false, true, false, false, true, true, true, false)),
    (String ((Ascii (true, false, true, false, false, true, true, false)),
    (String ((Ascii (true, true, true, false, false, true, true, false)),
    (String ((Ascii (true, true, true, true, true, false, true, false)),
    (String ((Ascii (true, false, false, false, true, true, true, false)),
    EmptyString)))))))))))), (Zpos (Coq_xO (Coq_xO (Coq_xO (Coq_xO (Coq_xO
    Coq_xH)))))))), (Sel (Z0, (Zpos (Coq_xO (Coq_xO Coq_xH))), (V ((String
    ((Ascii (true, false, false, true, false, true, true, false)), (String
    ((Ascii (true, true, true, true, true, false, true, false)), (String
    ((Ascii (false, true, true, false, false, true, true, false)), (String
    ((Ascii (true, true, true, true, true, false, true, false)), (String
    ((Ascii (false, false, true, false, false, true, true, false)), (String
    ((Ascii (true, false, false, false, false, true, true, false)), (String
    ((Ascii (false, false, true, false, true, true, true, false)), (String
    ((Ascii (true, false, false, false, false, true, true, false)),
    EmptyString)))))))))))))))), (Zpos (Coq_xO (Coq_xO (Coq_xO
    Coq_xH)))))))))), (C (Zpos (Coq_xO (Coq_xO Coq_xH)))))), (Cond ((Eq ((Sel
    ((Zpos (Coq_xO (Coq_xO Coq_xH))), (Zpos (Coq_xO (Coq_xO Coq_xH))), (V
    ((String ((Ascii (true, false, false, true, false, true, true, false)),
    (String ((Ascii (true, true, true, true, true, false, true, false)),
    (String ((Ascii (false, true, true, false, false, true, true, false)),
    (String ((Ascii (true, true, true, true, true, false, true, false)),
    (String ((Ascii (false, false, true, false, false, true, true, false)),
    (String ((Ascii (true, false, false, false, false, true, true, false)),
    (String ((Ascii (false, false, true, false, true, true, true, false)),
    (String ((Ascii (true, false, false, false, false, true, true, false)),
    EmptyString)))))))))))))))), (Zpos (Coq_xO (Coq_xO (Coq_xO
    Coq_xH)))))))), (C (Zpos (Coq_xI (Coq_xI (Coq_xI Coq_xH))))))), (Or ((C
    (Zpos (Coq_xO (Coq_xO (Coq_xO (Coq_xO (Coq_xO (Coq_xO (Coq_xO (Coq_xO
    (Coq_xI (Coq_xI (Coq_xI (Coq_xI (Coq_xI (Coq_xI (Coq_xI (Coq_xI (Coq_xI
    (Coq_xI (Coq_xI (Coq_xI (Coq_xI (Coq_xI (Coq_xI (Coq_xI (Coq_xI (Coq_xI
    (Coq_xI (Coq_xI (Coq_xI (Coq_xI (Coq_xI
    Coq_xH))))))))))))))))))))))))))))))))), (Shl ((Zpos (Coq_xO (Coq_xO
    (Coq_xO (Coq_xO (Coq_xO Coq_xH)))))), (Or ((V ((String ((Ascii (true,
    true, true, true, false, true, true, false)), (String ((Ascii (false,
    true, false, false, true, true, true, false)), (String ((Ascii (true,
    false, true, false, false, true, true, false)), (String ((Ascii (true,
    true, true, false, false, true, true, false)), (String ((Ascii (true,
    true, true, true, true, false, true, false)), (String ((Ascii (true,
    false, false, false, true, true, true, false)), EmptyString)))))))))))),
    (Zpos (Coq_xO (Coq_xO (Coq_xO (Coq_xO (Coq_xO Coq_xH)))))))), (Sel (Z0,
    (Zpos (Coq_xO (Coq_xO Coq_xH))), (V ((String ((Ascii (true, false, false,
    true, false, true, true, false)), (String ((Ascii (true, true, true,
    true, true, false, true, false)), (String ((Ascii (false, true, true,
    false, false, true, true, false)), (String ((Ascii (true, true, true,
    true, true, false, true, false)), (String ((Ascii (false, false, true,
    false, false, true, true, false)), (String ((Ascii (true, false, false,
    false, false, true, true, false)), (String ((Ascii (false, false, true,
    false, true, true, true, false)), (String ((Ascii (true, false, false,
    false, false, true, true, false)), EmptyString)))))))))))))))), (Zpos
    (Coq_xO (Coq_xO (Coq_xO Coq_xH)))))))))), (C (Zpos (Coq_xO (Coq_xO
    Coq_xH)))))))), (C Z0)))))))) :: (((String ((Ascii (false, false, false,
    false, true, true, true, false)), (String ((Ascii (true, true, false,
    false, false, true, true, false)), (String ((Ascii (true, true, true,
    true, true, false, true, false)), (String ((Ascii (true, false, false,
    false, true, true, true, false)), EmptyString)))))))), (Cond ((V ((String
    ((Ascii (true, false, false, true, false, true, true, false)), (String
    ((Ascii (true, true, true, true, true, false, true, false)), (String
    ((Ascii (false, true, false, false, true, true, true, false)), (String
    ((Ascii (true, true, false, false, true, true, true, false)), (String
    ((Ascii (false, false, true, false, true, true, true, false)),
    EmptyString)))))))))), (Zpos Coq_xH))), (C Z0), (Cond ((Eq ((Sel ((Zpos
    (Coq_xO (Coq_xO Coq_xH))), (Zpos (Coq_xO (Coq_xO Coq_xH))), (V ((String
    ((Ascii (true, false, false, true, false, true, true, false)), (String
    ((Ascii (true, true, true, true, true, false, true, false)), (String
    ((Ascii (false, true, true, false, false, true, true, false)), (String
    ((Ascii (true, true, true, true, true, false, true, false)), (String
    ((Ascii (false, false, true, false, false, true, true, false)), (String
    ((Ascii (true, false, false, false, false, true, true, false)), (String
    ((Ascii (false, false, true, false, true, true, true, false)), (String
    ((Ascii (true, false, false, false, false, true, true, false)),
    EmptyString)))))))))))))))), (Zpos (Coq_xO (Coq_xO (Coq_xO
    Coq_xH)))))))), (C (Zpos (Coq_xI (Coq_xO (Coq_xO Coq_xH))))))), (Add
    ((Zpos (Coq_xI (Coq_xO (Coq_xI (Coq_xO Coq_xH))))), (Add ((Zpos (Coq_xI
    (Coq_xO (Coq_xI (Coq_xO Coq_xH))))), (C (Zpos Coq_xH)), (V ((String
    ((Ascii (false, false, false, false, true, true, true, false)), (String
    ((Ascii (true, true, false, false, false, true, true, false)), (String
    ((Ascii (true, true, true, true, true, false, true, false)), (String
    ((Ascii (true, false, false, false, true, true, true, false)),
    EmptyString)))))))), (Zpos (Coq_xI (Coq_xO (Coq_xI (Coq_xO
    Coq_xH))))))))), (Sel (Z0, (Zpos (Coq_xI (Coq_xO (Coq_xI (Coq_xO
    Coq_xH))))), (Or ((V ((String ((Ascii (true, true, true, true, false,
    true, true, false)), (String ((Ascii (false, true, false, false, true,
    true, true, false)), (String ((Ascii (true, false, true, false, false,
    true, true, false)), (String ((Ascii (true, true, true, false, false,
    true, true, false)), (String ((Ascii (true, true, true, true, true,
    false, true, false)), (String ((Ascii (true, false, false, false, true,
    true, true, false)), EmptyString)))))))))))), (Zpos (Coq_xO (Coq_xO
    (Coq_xO (Coq_xO (Coq_xO Coq_xH)))))))), (Sel (Z0, (Zpos (Coq_xO (Coq_xO
    Coq_xH))), (V ((String ((Ascii (true, false, false, true, false, true,
    true, false)), (String ((Ascii (true, true, true, true, true, false,
    true, false)), (String ((Ascii (false, true, true, false, false, true,
    true, false)), (String ((Ascii (true, true, true, true, true, false,
    true, false)), (String ((Ascii (false, false, true, false, false, true,
    true, false)), (String ((Ascii (true, false, false, false, false, true,
    true, false)), (String ((Ascii (false, false, true, false, true, true,
    true, false)), (String ((Ascii (true, false, false, false, false, true,
    true, false)), EmptyString)))))))))))))))), (Zpos (Coq_xO (Coq_xO (Coq_xO
    Coq_xH)))))))))))))), (Cond ((Eq ((Sel ((Zpos (Coq_xO (Coq_xO Coq_xH))),
    (Zpos (Coq_xO (Coq_xO Coq_xH))), (V ((String ((Ascii (true, false, false,
    true, false, true, true, false)), (String ((Ascii (true, true, true,
    true, true, false, true, false)), (String ((Ascii (false, true, true,
    false, false, true, true, false)), (String ((Ascii (true, true, true,
    true, true, false, true, false)), (String ((Ascii (false, false, true,
    false, false, true, true, false)), (String ((Ascii (true, false, false,
    false, false, true, true, false)), (String ((Ascii (false, false, true,
    false, true, true, true, false)), (String ((Ascii (true, false, false,
    false, false, true, true, false)), EmptyString)))))))))))))))), (Zpos
    (Coq_xO (Coq_xO (Coq_xO Coq_xH)))))))), (C (Zpos (Coq_xO (Coq_xI (Coq_xO
    Coq_xH))))))), (Cond ((Eq ((C Z0), (V ((String ((Ascii (true, false,
    false, false, false, true, true, false)), (String ((Ascii (false, true,
    false, false, true, true, true, false)), (String ((Ascii (true, false,
    true, false, false, true, true, false)), (String ((Ascii (true, true,
    true, false, false, true, true, false)), (String ((Ascii (true, true,
    true, true, true, false, true, false)), (String ((Ascii (true, false,
    false, false, true, true, true, false)), EmptyString)))))))))))), (Zpos
    (Coq_xO (Coq_xO (Coq_xO (Coq_xO (Coq_xO Coq_xH)))))))))), (Add ((Zpos
    (Coq_xI (Coq_xO (Coq_xI (Coq_xO Coq_xH))))), (Add ((Zpos (Coq_xI (Coq_xO
    (Coq_xI (Coq_xO Coq_xH))))), (C (Zpos Coq_xH)), (V ((String ((Ascii
    (false, false, false, false, true, true, true, false)), (String ((Ascii
    (true, true, false, false, false, true, true, false)), (String ((Ascii
    (true, true, true, true, true, false, true, false)), (String ((Ascii
    (true, false, false, false, true, true, true, false)),
    EmptyString)))))))), (Zpos (Coq_xI (Coq_xO (Coq_xI (Coq_xO
    Coq_xH))))))))), (Sel (Z0, (Zpos (Coq_xI (Coq_xO (Coq_xI (Coq_xO
    Coq_xH))))), (Or ((V ((String ((Ascii (true, true, true, true, false,
    true, true, false)), (String ((Ascii (false, true, false, false, true,
    true, true, false)), (String ((Ascii (true, false, true, false, false,
    true, true, false)), (String ((Ascii (true, true, true, false, false,
    true, true, false)), (String ((Ascii (true, true, true, true, true,
    false, true, false)), (String ((Ascii (true, false, false, false, true,
    true, true, false)), EmptyString)))))))))))), (Zpos (Coq_xO (Coq_xO
    (Coq_xO (Coq_xO (Coq_xO Coq_xH)))))))), (Sel (Z0, (Zpos (Coq_xO (Coq_xO
    Coq_xH))), (V ((String ((Ascii (true, false, false, true, false, true,
    true, false)), (String ((Ascii (true, true, true, true, true, false,
    true, false)), (String ((Ascii (false, true, true, false, false, true,
    true, false)), (String ((Ascii (true, true, true, true, true, false,
    true, false)), (String ((Ascii (false, false, true, false, false, true,
    true, false)), (String ((Ascii (true, false, false, false, false, true,
    true, false)), (String ((Ascii (false, false, true, false, true, true,
    true, false)), (String ((Ascii (true, false, false, false, false, true,
    true, false)), EmptyString)))))))))))))))), (Zpos (Coq_xO (Coq_xO (Coq_xO
    Coq_xH)))))))))))))), (Add ((Zpos (Coq_xI (Coq_xO (Coq_xI (Coq_xO
    Coq_xH))))), (C (Zpos Coq_xH)), (V ((String ((Ascii (false, false, false,
    false, true, true, true, false)), (String ((Ascii (true, true, false,
    false, false, true, true, false)), (String ((Ascii (true, true, true,
    true, true, false, true, false)), (String ((Ascii (true, false, false,
    false, true, true, true, false)), EmptyString)))))))), (Zpos (Coq_xI
    (Coq_xO (Coq_xI (Coq_xO Coq_xH))))))))))), (Cond ((Eq ((Sel ((Zpos
    (Coq_xO (Coq_xO Coq_xH))), (Zpos (Coq_xO (Coq_xO Coq_xH))), (V ((String
    ((Ascii (true, false, false, true, false, true, true, false)), (String
    ((Ascii (true, true, true, true, true, false, true, false)), (String
    ((Ascii (false, true, true, false, false, true, true, false)), (String
    ((Ascii (true, true, true, true, true, false, true, false)), (String
    ((Ascii (false, false, true, false, false, true, true, false)), (String
    ((Ascii (true, false, false, false, false, true, true, false)), (String
    ((Ascii (false, false, true, false, true, true, true, false)), (String
    ((Ascii (true, false, false, false, false, true, true, false)),
    EmptyString)))))))))))))))), (Zpos (Coq_xO (Coq_xO (Coq_xO
    Coq_xH)))))))), (C (Zpos (Coq_xI (Coq_xI (Coq_xO Coq_xH))))))), (Cond
    ((Gts ((Zpos (Coq_xO (Coq_xO (Coq_xO (Coq_xO (Coq_xO Coq_xH)))))), (C
    Z0), (V ((String ((Ascii (true, false, false, false, false, true, true,
    false)), (String ((Ascii (false, true, false, false, true, true, true,
    false)), (String ((Ascii (true, false, true, false, false, true, true,
    false)), (String ((Ascii (true, true, true, false, false, true, true,
    false)), (String ((Ascii (true, true, true, true, true, false, true,
    false)), (String ((Ascii (true, false, false, false, true, true, true,
    false)), EmptyString)))))))))))), (Zpos (Coq_xO (Coq_xO (Coq_xO (Coq_xO
    (Coq_xO Coq_xH)))))))))), (Add ((Zpos (Coq_xI (Coq_xO (Coq_xI (Coq_xO
    Coq_xH))))), (Add ((Zpos (Coq_xI (Coq_xO (Coq_xI (Coq_xO Coq_xH))))), (C
    (Zpos Coq_xH)), (V ((String ((Ascii (false, false, false, false, true,
    true, true, false)), (String ((Ascii (true, true, false, false, false,
    true, true, false)), (String ((Ascii (true, true, true, true, true,
    false, true, false)), (String ((Ascii (true, false, false, false, true,
    true, true, false)), EmptyString)))))))), (Zpos (Coq_xI (Coq_xO (Coq_xI
    (Coq_xO Coq_xH))))))))), (Sel (Z0, (Zpos (Coq_xI (Coq_xO (Coq_xI (Coq_xO
    Coq_xH))))), (Or ((V ((String ((Ascii (true, true, true, true, false,
    true, true, false)), (String ((Ascii (false, true, false, false, true,
    true, true, false)), (String ((Ascii (true, false, true, false, false,
    true, true, false)), (String ((Ascii (true, true, true, false, false,
    true, true, false)), (String ((Ascii (true, true, true, true, true,
    false, true, false)), (String ((Ascii (true, false, false, false, true,
    true, true, false)), EmptyString)))))))))))), (Zpos (Coq_xO (Coq_xO
    (Coq_xO (Coq_xO (Coq_xO Coq_xH)))))))), (Sel (Z0, (Zpos (Coq_xO (Coq_xO
    Coq_xH))), (V ((String ((Ascii (true, false, false, true, false, true,
    true, false)), (String ((Ascii (true, true, true, true, true, false,
    true, false)), (String ((Ascii (false, true, true, false, false, true,
    true, false)), (String ((Ascii (true, true, true, true, true, false,
    true, false)), (String ((Ascii (false, false, true, false, false, true,
    true, false)), (String ((Ascii (true, false, false, false, false, true,
    true, false)), (String ((Ascii (false, false, true, false, true, true,
    true, false)), (String ((Ascii (true, false, false, false, false, true,
    true, false)), EmptyString)))))))))))))))), (Zpos (Coq_xO (Coq_xO (Coq_xO
    Coq_xH)))))))))))))), (Add ((Zpos (Coq_xI (Coq_xO (Coq_xI (Coq_xO
    Coq_xH))))), (C (Zpos Coq_xH)), (V ((String ((Ascii (false, false, false,
    false, true, true, true, false)), (String ((Ascii (true, true, false,
    false, false, true, true, false)), (String ((Ascii (true, true, true,
    true, true, false, true, false)), (String ((Ascii (true, false, false,
    false, true, true, true, false)), EmptyString)))))))), (Zpos (Coq_xI
    (Coq_xO (Coq_xI (Coq_xO Coq_xH))))))))))), (Cond ((Eq ((Sel ((Zpos
    (Coq_xO (Coq_xO Coq_xH))), (Zpos (Coq_xO (Coq_xO Coq_xH))), (V ((String
    ((Ascii (true, false, false, true, false, true, true, false)), (String
    ((Ascii (true, true, true, true, true, false, true, false)), (String
    ((Ascii (false, true, true, false, false, true, true, false)), (String
    ((Ascii (true, true, true, true, true, false, true, false)), (String
    ((Ascii (false, false, true, false, false, true, true, false)), (String
    ((Ascii (true, false, false, false, false, true, true, false)), (String
    ((Ascii (false, false, true, false, true, true, true, false)), (String
    ((Ascii (true, false, false, false, false, true, true, false)),
    EmptyString)))))))))))))))), (Zpos (Coq_xO (Coq_xO (Coq_xO
    Coq_xH)))))))), (C (Zpos (Coq_xI (Coq_xO (Coq_xI Coq_xH))))))), (Cond
    ((Eq ((C Z0), (Sel (Z0, (Zpos (Coq_xO (Coq_xO Coq_xH))), (V ((String
    ((Ascii (true, false, false, true, false, true, true, false)), (String
    ((Ascii (true, true, true, true, true, false, true, false)), (String
    ((Ascii (false, true, true, false, false, true, true, false)), (String
    ((Ascii (true, true, true, true, true, false, true, false)), (String
    ((Ascii (false, false, true, false, false, true, true, false)), (String
    ((Ascii (true, false, false, false, false, true, true, false)), (String
    ((Ascii (false, false, true, false, true, true, true, false)), (String
    ((Ascii (true, false, false, false, false, true, true, false)),
    EmptyString)))))))))))))))), (Zpos (Coq_xO (Coq_xO (Coq_xO
    Coq_xH)))))))))), (Sel (Z0, (Zpos (Coq_xI (Coq_xO (Coq_xI (Coq_xO
    Coq_xH))))), (V ((String ((Ascii (false, true, false, false, false, true,
    true, false)), (String ((Ascii (false, true, false, false, true, true,
    true, false)), (String ((Ascii (true, false, true, false, false, true,
    true, false)), (String ((Ascii (true, true, true, false, false, true,
    true, false)), (String ((Ascii (true, true, true, true, true, false,
    true, false)), (String ((Ascii (true, false, false, false, true, true,
    true, false)), EmptyString)))))))))))), (Zpos (Coq_xO (Coq_xO (Coq_xO
    (Coq_xO (Coq_xO Coq_xH)))))))))), (Add ((Zpos (Coq_xI (Coq_xO (Coq_xI
    (Coq_xO Coq_xH))))), (C (Zpos Coq_xH)), (V ((String ((Ascii (false,
    false, false, false, true, true, true, false)), (String ((Ascii (true,
    true, false, false, false, true, true, false)), (String ((Ascii (true,
    true, true, true, true, false, true, false)), (String ((Ascii (true,
    false, false, false, true, true, true, false)), EmptyString)))))))),
    (Zpos (Coq_xI (Coq_xO (Coq_xI (Coq_xO Coq_xH))))))))))), (Add ((Zpos
    (Coq_xI (Coq_xO (Coq_xI (Coq_xO Coq_xH))))), (C (Zpos Coq_xH)), (V
    ((String ((Ascii (false, false, false, false, true, true, true, false)),
    (String ((Ascii (true, true, false, false, false, true, true, false)),
    (String ((Ascii (true, true, true, true, true, false, true, false)),
    (String ((Ascii (true, false, false, false, true, true, true, false)),
    EmptyString)))))))), (Zpos (Coq_xI (Coq_xO (Coq_xI (Coq_xO
    Coq_xH)))))))))))))))))))) :: [])))

(** val d_wires : (string * vexp) list **)

let d_wires =
  []

(** val d_mem_writes : (string * (vexp * (vexp * vexp))) list **)

let d_mem_writes =
  []

(** val design : design **)

let design =
  { outputs = d_outputs; next = d_next; wires = d_wires; mem_writes =
    d_mem_writes; nx = O }
