(* Properties_C02.v -- hexsim executes every instruction exactly as the Hex ISA defines.
   ONLY property statements, each closed by `exact <lemma>`, with Print Assumptions and a
   non-vacuity example.  Spec: Isa.v.  Model of the C++: SimModel.v (tied by tools/c02.py). *)
From Coq Require Import ZArith List Lia.
From HexVerif Require Import WMap Isa IsaProps SimModel SimProofs SimIO SimIOProofs.
Import ListNotations.
Local Open Scope Z_scope.

(* One simulator step from ANY well-formed state (all 256 bytes, all registers, all memories): whenever
   the ISA defines a successor, the simulator model produces exactly it, the same input remainder and
   the same event, and only bumps its cycle counter / exit bookkeeping besides. *)
Theorem C02_step_refines_isa : forall s inp a' inp' ev,
  wf s -> Isa.step (arch_of s) inp = Ok (a', inp', ev) ->
  exists s', SimModel.step s inp = SOk (s', inp', ev) /\ arch_of s' = a' /\ wf s' /\ bookkeeping s s' ev.
Proof. exact step_refines_isa. Qed.
Print Assumptions C02_step_refines_isa.

(* Bytes the ISA leaves undefined are reported (exception), not executed. *)
Theorem C02_undefined_is_reported : forall s inp u,
  wf s -> Isa.step (arch_of s) inp = Undefined u -> illegal u -> exists m, SimModel.step s inp = SThrow m.
Proof. exact undefined_is_reported. Qed.
Print Assumptions C02_undefined_is_reported.

(* Byte-granular fetch from the word-addressed little-endian image. *)
Theorem C02_fetch_is_byte_of_image : forall bs i a b o,
  Forall is_byte bs -> (i < length bs)%nat ->
  fetch {| pc := Z.of_nat i; areg := a; breg := b; oreg := o; mem := load_words WMap.zero 0 (words_of_bytes bs) |} = nth i bs 0.
Proof. exact fetch_is_byte_of_image. Qed.
Print Assumptions C02_fetch_is_byte_of_image.

(* A whole run (any number of instructions, any input) is the unique ISA trace. *)
Theorem C02_run_is_isa_trace : forall n s inp evs, wf s -> s_running s = true ->
  run_matches (Isa.run n (arch_of s) inp evs) (SimModel.run n 0 s inp evs).
Proof. exact run_is_isa_trace. Qed.
Print Assumptions C02_run_is_isa_trace.

(* Non-vacuity: a concrete wf state on which the ISA is defined and does something non-trivial
   (NFIX F; LDAC 0 loads -256 ... here: one step of NFIX from a booted image). *)
Example C02_nonvacuous :
  let s := SimModel.init (fun _ => 0) 0 (words_of_bytes [255; 48; 211; 0]) in
  wf s /\ exists r, Isa.step (arch_of s) {| console := []; files := fun _ => [] |} = Ok r.
Proof.
  split.
  - unfold wf, SimModel.init. cbn [s_pc s_areg s_breg s_oreg s_mem]. unfold W.
    split; [lia|]. split; [lia|]. split; [lia|]. split; [lia|].
    intros a Ha. cbn [words_of_bytes load_words].
    destruct (Z.eq_dec 0 a) as [<-|Hne].
    + rewrite rd_wr_same. vm_compute. split; [discriminate|reflexivity].
    + rewrite rd_wr_other by lia. rewrite rd_empty. cbv beta. unfold W. lia.
  - eexists. vm_compute. reflexivity.
Qed.

(* ---- stream-to-file routing and the simulator's I/O device.  hexsimio.hpp keeps ONE stream per file index, opened at
   first use in the direction of that use (SimIO.v, tied to the real hexsim by tools/c02.py on programs that mix
   directions); Isa.v gives every index independent input and output files.  On every run that uses each index in one
   direction the two agree: same events, same final state, the same bytes on the console and in each simout<k>.
   Without the hypothesis the statement is false of the simulator (C02_io_mixed_refuted): the last sentence of the
   property ("a whole run is the ISA-defined trace") is proved for the device only under single_direction. *)
Theorem C02_io_single_direction_partial : forall n mc s inp tr inp' s' en,
  SimModel.run n mc s inp [] = (tr, inp', s', en) -> single_direction tr ->
  exists d', run_dev n mc s (dev0 inp) [] = (tr, d', s', en) /\
             d_console d' = console inp' /\
             rev (d_cout d') = isa_cout tr /\ (forall k, rev (d_fout d' k) = isa_fout k tr).
Proof. exact io_agree. Qed.
Print Assumptions C02_io_single_direction_partial.

(* write 65 to stream 256, read stream 512 (resp. 256), exit with the byte read; simin1 = [7], simin2 = [9] *)
Definition io_img (rd_stream_word : Z) : list Z :=
  [151; 150000; 2182164964; 2201018593; rd_stream_word; 847384880; 3924091603; 2182152687; 54064].
Definition io_inp : inputs := {| console := []; files := fun k => if k =? 1 then [7] else if k =? 2 then [9] else [] |}.
Definition end_of {A B C} (r : A * B * C * run_end) : run_end := snd r.
Example C02_io_single_nonvacuous :
  let r := SimModel.run 40 0 (cpp_init (io_img 3772961585)) io_inp [] in
  end_of r = Returned 9 /\ fst (fst (fst r)) = [Write 65 256; Read 512 9; Exit 9] /\
  end_of (run_dev 40 0 (cpp_init (io_img 3772961585)) (dev0 io_inp) []) = Returned 9.
Proof. vm_compute. repeat split; reflexivity. Qed.
(* the same program reading back the index it has written: the architecture's independent files give 7, the device
   (and the real hexsim) gives end-of-file *)
Theorem C02_io_mixed_refuted :
  end_of (SimModel.run 40 0 (cpp_init (io_img 3772896049)) io_inp []) = Returned 7 /\
  end_of (run_dev 40 0 (cpp_init (io_img 3772896049)) (dev0 io_inp) []) = Returned 255.
Proof. vm_compute. split; reflexivity. Qed.
Print Assumptions C02_io_mixed_refuted.
