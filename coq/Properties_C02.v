(* Properties_C02.v -- hexsim executes every instruction exactly as the Hex ISA defines.
   ONLY property statements, each closed by `exact <lemma>`, with Print Assumptions and a
   non-vacuity example.  Spec: Isa.v.  Model of the C++: SimModel.v (tied by tools/c02.py). *)
From Coq Require Import ZArith List Lia.
From HexVerif Require Import WMap Isa IsaProps SimModel SimProofs.
Import ListNotations.
Local Open Scope Z_scope.

(* One simulator step from ANY well-formed state (all 256 bytes, all registers, all memories): whenever
   the ISA defines a successor, the simulator model produces exactly it, the same input remainder and
   the same event, and only bumps its cycle counter / exit bookkeeping besides. *)
Theorem C02_step_refines_isa : forall s inp a' inp' ev,
  wf s -> Isa.step (arch_of s) inp = Ok (a', inp', ev) ->
  exists s', SimModel.step s inp = SOk (s', inp', ev) /\ arch_of s' = a' /\ wf s' /\ bookkeeping s s' ev.
Proof. exact step_refines_isa. Qed.
Print Assumptions C02_step_refines_isa.

(* Bytes the ISA leaves undefined are reported (exception), not executed. *)
Theorem C02_undefined_is_reported : forall s inp u,
  wf s -> Isa.step (arch_of s) inp = Undefined u -> illegal u -> exists m, SimModel.step s inp = SThrow m.
Proof. exact undefined_is_reported. Qed.
Print Assumptions C02_undefined_is_reported.

(* Byte-granular fetch from the word-addressed little-endian image. *)
Theorem C02_fetch_is_byte_of_image : forall bs i a b o,
  Forall is_byte bs -> (i < length bs)%nat ->
  fetch {| pc := Z.of_nat i; areg := a; breg := b; oreg := o; mem := load_words WMap.zero 0 (words_of_bytes bs) |} = nth i bs 0.
Proof. exact fetch_is_byte_of_image. Qed.
Print Assumptions C02_fetch_is_byte_of_image.

(* A whole run (any number of instructions, any input) is the unique ISA trace. *)
Theorem C02_run_is_isa_trace : forall n s inp evs, wf s -> s_running s = true ->
  run_matches (Isa.run n (arch_of s) inp evs) (SimModel.run n 0 s inp evs).
Proof. exact run_is_isa_trace. Qed.
Print Assumptions C02_run_is_isa_trace.

(* Non-vacuity: a concrete wf state on which the ISA is defined and does something non-trivial
   (NFIX F; LDAC 0 loads -256 ... here: one step of NFIX from a booted image). *)
Example C02_nonvacuous :
  let s := SimModel.init (fun _ => 0) 0 (words_of_bytes [255; 48; 211; 0]) in
  wf s /\ exists r, Isa.step (arch_of s) {| console := []; files := fun _ => [] |} = Ok r.
Proof.
  split.
  - unfold wf, SimModel.init. cbn [s_pc s_areg s_breg s_oreg s_mem]. unfold W.
    split; [lia|]. split; [lia|]. split; [lia|]. split; [lia|].
    intros a Ha. cbn [words_of_bytes load_words].
    destruct (Z.eq_dec 0 a) as [<-|Hne].
    + rewrite rd_wr_same. vm_compute. split; [discriminate|reflexivity].
    + rewrite rd_wr_other by lia. rewrite rd_empty. cbv beta. unfold W. lia.
  - eexists. vm_compute. reflexivity.
Qed.
