(* CliProofs.v -- C14: exit status and output files of the tools reflect what happened (over CliModel.v). *)
From Coq Require Import ZArith List String Bool Ascii Lia.
From HexVerif Require Import CliModel.
Import ListNotations.
Local Open Scope string_scope.

Section Proofs.
  Variable writable : string -> bool.
  Variable assemble compile : bytes -> option bytes.
  Variable simulate : bytes -> bytes -> option (Z * bytes).

  (* a file operand: does not start with '-' (so it is none of the options) *)
  Definition plain (s : string) : Prop := starts_with_dash s = false.

  Lemma plain_not_flag s l : plain s -> Forall (fun x => starts_with_dash x = true) l -> is_any s l = false.
  Proof.
    intros Hp Hl. unfold is_any. induction Hl as [|x l Hx _ IH]; [reflexivity|]. cbn [existsb]. rewrite IH, orb_false_r.
    destruct (String.eqb s x) eqn:E; [|reflexivity]. apply String.eqb_eq in E. subst. unfold plain in Hp. congruence.
  Qed.
  Lemma plain_neq s x : plain s -> starts_with_dash x = true -> String.eqb s x = false.
  Proof. intros Hp Hx. destruct (String.eqb s x) eqn:E; [|reflexivity]. apply String.eqb_eq in E. subst. unfold plain in Hp. congruence. Qed.

  Ltac flags := repeat (constructor; try reflexivity).

  (* --- hexasm: the four argument shapes of the property all parse to the same (file, output) --- *)
  Definition shapes (f o : string) : list (list string) :=
    [[f; "-o"; o]; ["-o"; o; f]; [f; "--output"; o]; ["--output"; o; f]].

  Lemma hexasm_file_arg f r a : plain f -> a_file a = None -> hexasm_args (f :: r) a = hexasm_args r (set_file a f).
  Proof.
    intros Hp Hf. cbn [hexasm_args].
    rewrite (plain_not_flag f ["-h"; "--help"] Hp) by flags.
    rewrite (plain_neq f "--tokens" Hp eq_refl), (plain_neq f "--instrs" Hp eq_refl).
    rewrite (plain_not_flag f ["--output"; "-o"] Hp) by flags.
    unfold plain in Hp. rewrite Hp, Hf. reflexivity.
  Qed.

  Lemma hexasm_o_arg o r a : hexasm_args ("-o" :: o :: r) a = hexasm_args r (set_out a (Some o)).
  Proof. reflexivity. Qed.
  Lemma hexasm_output_arg o r a : hexasm_args ("--output" :: o :: r) a = hexasm_args r (set_out a (Some o)).
  Proof. reflexivity. Qed.

  Lemma hexasm_shapes f o : plain f -> forall argv, In argv (shapes f o) ->
    hexasm_args argv (args0 "a.out") = PArgs {| a_mode := MBinary; a_file := Some f; a_out := Some o; a_trace := false; a_tokens := false; a_instrs := false |}.
  Proof.
    intros Hp argv Hin. unfold shapes in Hin. cbn [In] in Hin.
    destruct Hin as [<-|[<-|[<-|[<-|[]]]]].
    - rewrite hexasm_file_arg by (assumption || reflexivity). rewrite hexasm_o_arg. reflexivity.
    - rewrite hexasm_o_arg. rewrite hexasm_file_arg by (assumption || reflexivity). reflexivity.
    - rewrite hexasm_file_arg by (assumption || reflexivity). rewrite hexasm_output_arg. reflexivity.
    - rewrite hexasm_output_arg. rewrite hexasm_file_arg by (assumption || reflexivity). reflexivity.
  Qed.
  Lemma hexasm_default f : plain f ->
    hexasm_args [f] (args0 "a.out") = PArgs {| a_mode := MBinary; a_file := Some f; a_out := Some "a.out"; a_trace := false; a_tokens := false; a_instrs := false |}.
  Proof. intros Hp. rewrite hexasm_file_arg by (assumption || reflexivity). reflexivity. Qed.

  (* status 0 and the binary in the named file exactly when the source was accepted; otherwise diagnostic, non-zero
     status, file system untouched *)
  Theorem hexasm_status f o fsys src argv : plain f -> (In argv (shapes f o) \/ (argv = [f] /\ o = "a.out")) -> fsys f = Some src ->
    match assemble src with
    | Some bin => hexasm_main writable assemble argv fsys = if writable o then ok (fs_set fsys o bin) else fail fsys
    | None => hexasm_main writable assemble argv fsys = fail fsys
    end.
  Proof.
    intros Hp Hargv Hsrc. unfold hexasm_main.
    assert (E: hexasm_args argv (args0 "a.out") = PArgs {| a_mode := MBinary; a_file := Some f; a_out := Some o; a_trace := false; a_tokens := false; a_instrs := false |}).
    { destruct Hargv as [Hin|[-> ->]]; [apply hexasm_shapes; assumption | apply hexasm_default; assumption]. }
    rewrite E. cbn [a_file a_tokens a_instrs a_out andb negb]. rewrite Hsrc. destruct (assemble src); reflexivity.
  Qed.

  (* --- xcmp: same, with the -o argument honoured wherever it stands --- *)
  Lemma xcmp_file_arg f r a : plain f -> a_file a = None -> xcmp_args (f :: r) a = xcmp_args r (set_file a f).
  Proof.
    intros Hp Hf. cbn [xcmp_args].
    rewrite (plain_not_flag f ["-h"; "--help"] Hp) by flags.
    rewrite (plain_not_flag f ["--tokens"] Hp) by flags.
    rewrite (plain_not_flag f ["--tree"; "--tree-opt"; "--insts"; "--insts-lowered"; "--insts-optimised"; "-S"; "--insts-asm"] Hp) by flags.
    rewrite (plain_neq f "--memory-info" Hp eq_refl).
    rewrite (plain_not_flag f ["--output"; "-o"] Hp) by flags.
    unfold plain in Hp. rewrite Hp, Hf. reflexivity.
  Qed.
  Lemma xcmp_o_arg o r a : xcmp_args ("-o" :: o :: r) a = xcmp_args r (set_out a (Some o)).
  Proof. reflexivity. Qed.
  Lemma xcmp_output_arg o r a : xcmp_args ("--output" :: o :: r) a = xcmp_args r (set_out a (Some o)).
  Proof. reflexivity. Qed.

  Lemma xcmp_shapes f o : plain f -> forall argv, In argv (shapes f o) ->
    xcmp_args argv (args0 "a.out") = PArgs {| a_mode := MBinary; a_file := Some f; a_out := Some o; a_trace := false; a_tokens := false; a_instrs := false |}.
  Proof.
    intros Hp argv Hin. unfold shapes in Hin. cbn [In] in Hin.
    destruct Hin as [<-|[<-|[<-|[<-|[]]]]].
    - rewrite xcmp_file_arg by (assumption || reflexivity). rewrite xcmp_o_arg. reflexivity.
    - rewrite xcmp_o_arg. rewrite xcmp_file_arg by (assumption || reflexivity). reflexivity.
    - rewrite xcmp_file_arg by (assumption || reflexivity). rewrite xcmp_output_arg. reflexivity.
    - rewrite xcmp_output_arg. rewrite xcmp_file_arg by (assumption || reflexivity). reflexivity.
  Qed.
  Lemma xcmp_default f : plain f ->
    xcmp_args [f] (args0 "a.out") = PArgs {| a_mode := MBinary; a_file := Some f; a_out := Some "a.out"; a_trace := false; a_tokens := false; a_instrs := false |}.
  Proof. intros Hp. rewrite xcmp_file_arg by (assumption || reflexivity). reflexivity. Qed.

  Theorem xcmp_status f o fsys src argv : plain f -> (In argv (shapes f o) \/ (argv = [f] /\ o = "a.out")) -> fsys f = Some src ->
    match compile src with
    | Some bin => xcmp_main writable compile argv fsys = if writable o then ok (fs_set fsys o bin) else fail fsys
    | None => xcmp_main writable compile argv fsys = fail fsys
    end.
  Proof.
    intros Hp Hargv Hsrc. unfold xcmp_main.
    assert (E: xcmp_args argv (args0 "a.out") = PArgs {| a_mode := MBinary; a_file := Some f; a_out := Some o; a_trace := false; a_tokens := false; a_instrs := false |}).
    { destruct Hargv as [Hin|[-> ->]]; [apply xcmp_shapes; assumption | apply xcmp_default; assumption]. }
    rewrite E. cbn [a_file a_out a_mode]. rewrite Hsrc. destruct (compile src); reflexivity.
  Qed.

  (* --- hexsim / xrun --- *)
  Lemma hexsim_file_arg f : plain f -> hexsim_args [f] None false false = SArgs (Some f) false false.
  Proof.
    intros Hp. cbn [hexsim_args].
    rewrite (plain_not_flag f ["-d"; "--dump"] Hp) by flags. rewrite (plain_not_flag f ["-t"; "--trace"] Hp) by flags.
    rewrite (plain_neq f "--max-cycles" Hp eq_refl). rewrite (plain_not_flag f ["-h"; "--help"] Hp) by flags. reflexivity.
  Qed.
  Lemma xrun_file_arg f : plain f -> xrun_args [f] None false = RArgs (Some f) false.
  Proof.
    intros Hp. cbn [xrun_args].
    rewrite (plain_not_flag f ["-h"; "--help"] Hp) by flags. rewrite (plain_not_flag f ["-t"; "--trace"] Hp) by flags.
    rewrite (plain_neq f "--max-cycles" Hp eq_refl). unfold plain in Hp. rewrite Hp. reflexivity.
  Qed.

  (* hexsim's status is the program's exit value as far as 8 bits carry it *)
  Theorem hexsim_status_is_exit_value f fsys bin input v o : plain f -> fsys f = Some bin -> simulate bin input = Some (v, o) ->
    hexsim_main simulate [f] input fsys = {| status := Z.modulo v 256; diagnostic := false; files := fsys; out := o |}.
  Proof. intros Hp Hb Hs. unfold hexsim_main. rewrite hexsim_file_arg by assumption. rewrite Hb, Hs. reflexivity. Qed.

  (* xrun = xcmp followed by hexsim on the result: same status, same output; a compile error gives xcmp's failure *)
  Theorem xrun_is_compose f fsys src input : plain f -> fsys f = Some src -> f <> "a.bin" -> writable "a.bin" = true ->
    let c := xcmp_main writable compile [f; "-o"; "a.bin"] fsys in
    let r := xrun_main writable compile simulate [f] input fsys in
    match compile src with
    | None => status r = status c /\ diagnostic r = diagnostic c /\ status r <> 0%Z /\ files r = fsys
    | Some bin =>
        status c = 0%Z /\
        let h := hexsim_main simulate ["a.bin"] input (files c) in
        status r = status h /\ out r = out h /\ diagnostic r = diagnostic h
    end.
  Proof.
    intros Hp Hsrc Hne Hw. cbv zeta.
    pose proof (xcmp_status f "a.bin" fsys src [f; "-o"; "a.bin"] Hp (or_introl (or_introl eq_refl)) Hsrc) as Hc.
    unfold xrun_main. rewrite xrun_file_arg by assumption. rewrite Hsrc.
    destruct (compile src) as [bin|].
    - rewrite Hc, Hw. cbn [negb]. cbn [status ok files]. split; [reflexivity|].
      unfold hexsim_main. rewrite hexsim_file_arg by reflexivity.
      unfold fs_set at 1. cbn [String.eqb Ascii.eqb Bool.eqb]. 
      destruct (simulate bin input) as [[v o]|] eqn:Es; cbn; rewrite ?Es; cbn; auto.
    - rewrite Hc. cbn. repeat split; discriminate.
  Qed.
End Proofs.
