(* XConstPropDeclProofs.v -- propagation of `val` names through the symbol table (xcmp.hpp CreateSymbols, SymbolTable::lookup,
   ConstProp::visitPost(ValDecl/VarRefExpr)) agrees with the X definition's own treatment of constant declarations
   (XSem.init_globals for the global declarations, XSem.local_decls for a procedure's, where every name declared in the
   procedure hides the global of that name).

   cp_decls_agree     one declaration list: the model assigns every val the value XSem assigns it, array lengths fold too,
                      and afterwards every name that XSem sees as a constant resolves (own scope first, then the global
                      scope) to a ValDecl holding exactly that value;
   val_propagation_globals_visible / val_propagation_locals / val_propagation_procs
                      the same for a whole program: create_symbols numbers the ValDecls in the order ConstProp visits
                      them; well-formedness (no duplicate names, XSem.wf_program) makes every lookup unique.
   The environment statements `env_ok E lk` / `all_vals E lk` are exactly the hypotheses of the expression theorems in
   XConstPropProofs.v (fold_agrees_xsem, fold_agrees_wrap). *)
From Coq Require Import ZArith String List Bool Lia.
From HexVerif Require Import XAst XSem XConstProp XConstPropProofs.
Import ListNotations.
Local Open Scope Z_scope.

(* ------------------------------------------------------------------ the symbol table as a list of entries *)
Definition dkind (d : decl) (n : nat) : symkind := match d with DVal _ _ => KValDecl n | _ => KOther end.
Definition dnext (d : decl) (n : nat) : nat := match d with DVal _ _ => S n | _ => n end.
Fixpoint dentries (scope : string) (ds : list decl) (n : nat) : symtab :=
  match ds with [] => [] | d :: r => ((scope, XConstProp.decl_name d), dkind d n) :: dentries scope r (dnext d n) end.
Fixpoint nvals (ds : list decl) : nat := match ds with [] => O | DVal _ _ :: r => S (nvals r) | _ :: r => nvals r end.

Lemma sym_decls_spec scope ds : forall n st,
  sym_decls scope ds n st = ((n + nvals ds)%nat, List.app (rev (dentries scope ds n)) st).
Proof.
  induction ds as [|d r IH]; intros n st; cbn [sym_decls nvals dentries rev].
  - rewrite Nat.add_0_r. reflexivity.
  - destruct d; cbn [sym_decls dkind dnext XConstProp.decl_name]; rewrite IH, <- app_assoc; cbn [List.app]; f_equal; lia.
Qed.

Lemma find_sym_app a b sc x :
  find_sym (List.app a b) sc x = match find_sym a sc x with Some k => Some k | None => find_sym b sc x end.
Proof.
  induction a as [|[[s n] k] a IH]; [reflexivity|]. cbn [List.app find_sym].
  destruct (String.eqb s sc && String.eqb n x); [reflexivity|exact IH].
Qed.

Definition keys (st : symtab) : list (string * string) := map fst st.

Lemma find_sym_none st sc x : ~ In (sc, x) (keys st) -> find_sym st sc x = None.
Proof.
  induction st as [|[[s n] k] st IH]; [reflexivity|]. cbn [keys map fst In find_sym]. intros H.
  destruct (String.eqb_spec s sc); destruct (String.eqb_spec n x); cbn [andb]; subst; try (apply IH; intro; apply H; right; assumption).
  exfalso. apply H. left. reflexivity.
Qed.

Lemma find_sym_some st sc x k : NoDup (keys st) -> In ((sc, x), k) st -> find_sym st sc x = Some k.
Proof.
  induction st as [|[[s n] k'] st IH]; [intros _ []|]. cbn [keys map fst]. intros Hn [H|H].
  - inversion H; subst. cbn [find_sym]. rewrite !String.eqb_refl. reflexivity.
  - inversion Hn; subst. cbn [find_sym].
    destruct (String.eqb_spec s sc); destruct (String.eqb_spec n x); cbn [andb]; subst; try (apply IH; assumption).
    exfalso. apply H2. change (In (fst ((sc, x), k)) (map fst st)). apply in_map. exact H.
Qed.

Lemma key_dec : forall a b : string * string, {a = b} + {a <> b}.
Proof. decide equality; apply string_dec. Qed.

Lemma find_sym_rev st sc x : NoDup (keys st) -> find_sym (rev st) sc x = find_sym st sc x.
Proof.
  intros Hn. destruct (in_dec key_dec (sc, x) (keys st)) as [Hin|Hin].
  - unfold keys in Hin. apply in_map_iff in Hin. destruct Hin as ([[s n] k] & Hk & Hin). cbn in Hk. inversion Hk; subst.
    rewrite (find_sym_some st sc x k Hn Hin). apply find_sym_some.
    + unfold keys. rewrite map_rev. apply NoDup_rev. exact Hn.
    + apply in_rev in Hin. exact Hin.
  - rewrite (find_sym_none st sc x Hin). apply find_sym_none. unfold keys. rewrite map_rev. intro H. apply in_rev in H. exact (Hin H).
Qed.

Lemma resolve_val E y w :
  resolve E y = NVal w <-> exists id, lookup (cp_syms E) (cp_scope E) y = Some (KValDecl id) /\ assoc_nat id (cp_vals E) = Some w.
Proof.
  unfold resolve. destruct (lookup (cp_syms E) (cp_scope E) y) as [[id| |]|].
  - destruct (assoc_nat id (cp_vals E)) as [v|] eqn:Ev.
    + split; [intros H; inversion H; subst; eauto|intros (id' & H1 & H2); inversion H1; subst; congruence].
    + split; [discriminate|intros (id' & H1 & H2); inversion H1; subst; congruence].
  - split; [discriminate|intros (id' & H1 & _); discriminate].
  - split; [discriminate|intros (id' & H1 & _); discriminate].
  - split; [discriminate|intros (id' & H1 & _); discriminate].
Qed.

Lemma eval_const_in_range lk e v : (forall x z, lk x = Some z -> in_int z = true) -> eval_const lk e = inr v -> in_int v = true.
Proof.
  intros Hlk H. rewrite <- meval_false in H.
  assert (Henv : env_ok {| cp_arith := ArithWrap; cp_syms := []; cp_scope := ""; cp_vals := [] |} (fun _ => None)) by (intros x z Hx; discriminate).
  clear Henv. revert v H. induction e; intros v H; try discriminate.
  - cbn in H. inversion H. apply signed32_range.
  - cbn in H. inversion H. apply of_bool_range.
  - cbn in H. destruct (lk x) eqn:E; [|discriminate]. inversion H; subst. eapply Hlk; eauto.
  - cbn [meval] in H. destruct (meval false lk e); [discriminate|]. exact (proj2 (fold_un_res false ArithInt _ _ _ H)).
  - cbn [meval] in H. destruct (meval false lk e1); [discriminate|]. destruct (meval false lk e2); [discriminate|].
    exact (proj2 (fold_bin_res false ArithInt _ _ _ _ H)).
Qed.

Section Decls.
  Variables (m : arith) (st : symtab) (scope : string).
  Variable lkof : list (string * Z) -> string -> option Z.
  Variable okname : string -> Prop.
  Definition envE (vv : list (nat * Z)) : cpenv := {| cp_arith := m; cp_syms := st; cp_scope := scope; cp_vals := vv |}.

  (* the X definition's processing of a declaration list: vals accumulate, array lengths are evaluated *)
  Inductive decls_ok : list decl -> list (string * Z) -> list (string * Z) -> Prop :=
  | dk_nil vals : decls_ok [] vals vals
  | dk_val x e r vals vals' z : eval_const (lkof vals) e = inr z -> decls_ok r ((x, z) :: vals) vals' -> decls_ok (DVal x e :: r) vals vals'
  | dk_var x r vals vals' : decls_ok r vals vals' -> decls_ok (DVar x :: r) vals vals'
  | dk_arr x e r vals vals' z : eval_const (lkof vals) e = inr z -> decls_ok r vals vals' -> decls_ok (DArray x e :: r) vals vals'.

  (* the symbol table resolves the name of the k-th val declaration of this list to ValDecl number n + k *)
  Fixpoint decl_ids (ds : list decl) (n : nat) : Prop :=
    match ds with
    | [] => True
    | DVal x _ :: r => okname x /\ lookup st scope x = Some (KValDecl n) /\ decl_ids r (S n)
    | _ :: r => decl_ids r n
    end.

  Definition Inv (vals : list (string * Z)) (n : nat) (vv : list (nat * Z)) : Prop :=
    env_ok (envE vv) (lkof vals) /\ all_vals (envE vv) (lkof vals) /\ (forall id z, assoc_nat id vv = Some z -> (id < n)%nat).

  Hypothesis lkof_cons : forall x z vals y, okname x ->
    lkof ((x, z) :: vals) y = if String.eqb y x then Some z else lkof vals y.

  Lemma Inv_step vals n vv x z : okname x -> Inv vals n vv -> lookup st scope x = Some (KValDecl n) -> in_int z = true ->
    Inv ((x, z) :: vals) (S n) ((n, z) :: vv).
  Proof.
    intros Hok (A & B & C) Hl Hz.
    assert (All : all_vals (envE ((n, z) :: vv)) (lkof ((x, z) :: vals))).
    { intros y w Hy. rewrite lkof_cons in Hy by exact Hok. apply resolve_val. cbn [envE cp_syms cp_scope cp_vals].
      destruct (String.eqb_spec y x).
      - inversion Hy; subst. exists n. split; [exact Hl|]. cbn [assoc_nat]. rewrite Nat.eqb_refl. reflexivity.
      - destruct (proj1 (resolve_val _ _ _) (B y w Hy)) as (id & H1 & H2). cbn [envE cp_syms cp_scope cp_vals] in H1, H2.
        exists id. split; [exact H1|]. cbn [assoc_nat]. specialize (C id w H2).
        destruct (Nat.eqb_spec n id); [lia|exact H2]. }
    split; [|split; [exact All|]].
    - intros y w Hy. split; [|right; apply All; exact Hy].
      rewrite lkof_cons in Hy by exact Hok. destruct (String.eqb y x); [inversion Hy; subst; exact Hz|apply (A y w Hy)].
    - intros id w H. cbn [assoc_nat] in H. destruct (Nat.eqb_spec n id); [lia|]. specialize (C id w H). lia.
  Qed.

  Lemma cp_decls_agree : forall ds vals vals', decls_ok ds vals vals' -> forall n vv, Inv vals n vv -> decl_ids ds n ->
    exists ads vv', cp_decls m st scope ds n vv = COk (ads, (n + nvals ds)%nat, vv') /\ Inv vals' (n + nvals ds)%nat vv' /\
                    (forall id z, assoc_nat id vv = Some z -> assoc_nat id vv' = Some z).
  Proof.
    induction 1 as [vals|x e r vals vals' w He Hr IH|x r vals vals' Hr IH|x e r vals vals' w He Hr IH]; intros n vv HI Hid.
    - exists [], vv. cbn [cp_decls nvals]. rewrite Nat.add_0_r. auto.
    - cbn [decl_ids] in Hid. destruct Hid as (Hok & Hl & Hid). destruct HI as (A & B & C).
      destruct (fold_const_xsem (envE vv) (lkof vals) e w A B He) as (ae & Hcp & Hc).
      assert (Hz : in_int w = true) by (eapply eval_const_in_range; [|exact He]; intros y u Hy; apply (A y u Hy)).
      destruct (IH (S n) ((n, w) :: vv) (Inv_step vals n vv x w Hok (conj A (conj B C)) Hl Hz) Hid) as (ads & vv' & H1 & H2 & H3).
      exists (ADVal x ae (Some w) :: ads), vv'. cbn [cp_decls nvals]. fold (envE vv). rewrite Hcp. cbn [cbind]. rewrite Hc, H1. cbn [cbind].
      replace (n + S (nvals r))%nat with (S n + nvals r)%nat by lia. split; [reflexivity|]. split; [exact H2|].
      intros id u Hu. apply H3. cbn [assoc_nat]. specialize (C id u Hu). destruct (Nat.eqb_spec n id); [lia|exact Hu].
    - cbn [decl_ids] in Hid. destruct (IH n vv HI Hid) as (ads & vv' & H1 & H2 & H3).
      exists (ADVar x :: ads), vv'. cbn [cp_decls nvals]. rewrite H1. cbn [cbind]. auto.
    - cbn [decl_ids] in Hid. destruct HI as (A & B & C).
      destruct (fold_const_xsem (envE vv) (lkof vals) e w A B He) as (ae & Hcp & Hc).
      destruct (IH n vv (conj A (conj B C)) Hid) as (ads & vv' & H1 & H2 & H3).
      exists (ADArray x ae :: ads), vv'. cbn [cp_decls nvals]. fold (envE vv). rewrite Hcp. cbn [cbind]. rewrite H1. cbn [cbind]. auto.
  Qed.
End Decls.

(* ------------------------------------------------------------------ names *)
Lemma mem_str_In x l : mem_str x l = true <-> In x l.
Proof.
  induction l as [|y r IH]; cbn [mem_str In]; [split; [discriminate|tauto]|].
  rewrite orb_true_iff, IH. destruct (String.eqb_spec x y); split; intros H; auto.
  - destruct H as [H|H]; [discriminate|auto].
  - destruct H as [H|H]; [congruence|auto].
Qed.
Lemma has_dup_NoDup l : has_dup l = false -> NoDup l.
Proof.
  induction l as [|x r IH]; cbn [has_dup]; intros H; [constructor|].
  apply orb_false_iff in H. destruct H as [H1 H2]. constructor; [|apply IH; exact H2].
  intros Hin. apply mem_str_In in Hin. congruence.
Qed.
Lemma NoDup_app_disjoint {A} (a b : list A) x : NoDup (a ++ b) -> In x a -> ~ In x b.
Proof.
  induction a as [|y r IH]; [intros _ []|]. cbn. intros Hn [H|H] Hb.
  - subst. inversion Hn; subst. apply H1. apply in_or_app. right. exact Hb.
  - inversion Hn; subst. exact (IH H3 H Hb).
Qed.

Lemma NoDup_app_l {A} (a b : list A) : NoDup (a ++ b) -> NoDup a.
Proof.
  induction a as [|y r IH]; [constructor|]. cbn. intros Hn. inversion Hn; subst. constructor; [|apply IH; assumption].
  intros H. apply H1. apply in_or_app. left. exact H.
Qed.

(* ------------------------------------------------------------------ entries *)
Lemma nvals_app a b : nvals (a ++ b) = (nvals a + nvals b)%nat.
Proof. induction a as [|d r IH]; [reflexivity|]. destruct d; cbn [List.app nvals]; rewrite IH; reflexivity. Qed.

Lemma dentries_app sc a b n : dentries sc (a ++ b) n = List.app (dentries sc a n) (dentries sc b (n + nvals a)).
Proof.
  revert n. induction a as [|d r IH]; intros n; cbn [List.app dentries nvals]; [rewrite Nat.add_0_r; reflexivity|].
  rewrite IH. f_equal. f_equal. destruct d; cbn [dnext nvals]; try reflexivity. f_equal. lia.
Qed.

Lemma keys_dentries sc ds n : keys (dentries sc ds n) = map (fun d => (sc, XConstProp.decl_name d)) ds.
Proof. revert n. induction ds as [|d r IH]; intros n; [reflexivity|]. cbn [dentries keys map fst]. f_equal. apply IH. Qed.

Lemma NoDup_keys_dentries sc ds n : NoDup (map XConstProp.decl_name ds) -> NoDup (keys (dentries sc ds n)).
Proof.
  rewrite keys_dentries. intros H. rewrite <- (map_map XConstProp.decl_name (fun x => (sc, x))).
  induction H as [|x l Hx Hl IH]; cbn [map]; constructor; [|exact IH].
  intros Hin. apply in_map_iff in Hin. destruct Hin as (y & Hy & Hin). inversion Hy; subst. exact (Hx Hin).
Qed.

Lemma find_sym_other_scope st sc x : (forall k, In k (keys st) -> fst k <> sc) -> find_sym st sc x = None.
Proof. intros H. apply find_sym_none. intros Hin. exact (H _ Hin eq_refl). Qed.

Lemma sym_formals_spec sc fs : forall st,
  sym_formals sc fs st = List.app (rev (map (fun f => ((sc, XConstProp.formal_name f), KOther)) fs)) st.
Proof.
  induction fs as [|f r IH]; intros st; [reflexivity|]. cbn [sym_formals map rev]. rewrite IH, <- app_assoc. reflexivity.
Qed.

(* the procedures add nothing that a global-scope lookup of a non-procedure name can see *)
Lemma sym_procs_global x : forall ps n st,
  (forall q, In q ps -> pname q <> ""%string /\ pname q <> x) ->
  find_sym (snd (sym_procs ps n st)) ""%string x = find_sym st ""%string x.
Proof.
  induction ps as [|q r IH]; intros n st H; [reflexivity|].
  cbn [sym_procs]. unfold sym_proc_step. rewrite sym_formals_spec, sym_decls_spec. cbn [snd].
  destruct (H q (or_introl eq_refl)) as [Hq1 Hq2].
  rewrite IH by (intros q' Hq'; apply H; right; exact Hq').
  rewrite find_sym_app, find_sym_other_scope.
  - rewrite find_sym_app, find_sym_other_scope.
    + cbn [find_sym]. destruct (String.eqb_spec (pname q) x); [congruence|]. rewrite andb_false_r. reflexivity.
    + intros k Hk. unfold keys in Hk. rewrite map_rev, <- in_rev, map_map in Hk. apply in_map_iff in Hk.
      destruct Hk as (f & Hf & _). subst k. exact Hq1.
  - intros k Hk. unfold keys in Hk. rewrite map_rev, <- in_rev in Hk. fold (keys (dentries (pname q) (locals q) n)) in Hk.
    rewrite keys_dentries in Hk. apply in_map_iff in Hk. destruct Hk as (d & Hd & _). subst k. exact Hq1.
Qed.

Lemma lookup_global st x : lookup st ""%string x = find_sym st ""%string x.
Proof. unfold lookup. destruct (find_sym st ""%string x); reflexivity. Qed.

(* the k-th val declaration among the globals is ValDecl number k *)
Lemma global_decl_ids p :
  NoDup (map XConstProp.decl_name (globals p) ++ map pname (procs p)) ->
  (forall q, In q (procs p) -> pname q <> ""%string) ->
  forall pre ds, globals p = pre ++ ds -> decl_ids (create_symbols p) ""%string (fun _ => True) ds (nvals pre).
Proof.
  intros Hn Hp pre ds. revert pre. induction ds as [|d r IH]; intros pre Hg; [exact I|].
  assert (Hg' : globals p = (pre ++ [d]) ++ r) by (rewrite <- app_assoc; exact Hg).
  specialize (IH (pre ++ [d]) Hg'). rewrite nvals_app in IH.
  destruct d as [x e|x|x e]; cbn [decl_ids]; cbn [nvals] in IH; rewrite ?Nat.add_0_r in IH; try exact IH.
  replace (nvals pre + 1)%nat with (S (nvals pre)) in IH by lia.
  split; [exact I|]. split; [|exact IH].
  rewrite lookup_global. unfold create_symbols. rewrite sym_decls_spec. cbn [fst snd].
  assert (Hx : In x (map XConstProp.decl_name (globals p))) by (rewrite Hg, map_app; apply in_or_app; right; left; reflexivity).
  rewrite sym_procs_global.
  - rewrite app_nil_r, find_sym_rev by (apply NoDup_keys_dentries; eapply NoDup_app_l; exact Hn).
    apply find_sym_some; [apply NoDup_keys_dentries; eapply NoDup_app_l; exact Hn|].
    rewrite Hg, dentries_app. apply in_or_app. right. cbn [dentries dkind XConstProp.decl_name]. left. reflexivity.
  - intros q Hq. split; [apply Hp; exact Hq|]. intros E. subst x.
    eapply (NoDup_app_disjoint _ _ (pname q) Hn Hx). apply in_map. exact Hq.
Qed.

(* XSem.init_globals as a run of decls_ok *)
Lemma init_globals_ok : forall ds vals vars arrs vals' vars' arrs',
  init_globals ds vals vars arrs = inr (vals', vars', arrs') -> decls_ok (fun vs y => assoc y vs) ds vals vals'.
Proof.
  induction ds as [|d r IH]; intros vals vars arrs vals' vars' arrs' H.
  - cbn in H. inversion H; subst. constructor.
  - destruct d as [x e|x|x e]; cbn [init_globals] in H.
    + destruct (eval_const (fun y => assoc y vals) e) as [u|z] eqn:E; [discriminate|]. econstructor; [exact E|eapply IH; exact H].
    + constructor. eapply IH; exact H.
    + destruct (eval_const (fun y => assoc y vals) e) as [u|z] eqn:E; [discriminate|].
      destruct (z <? 0); [discriminate|]. econstructor; [exact E|eapply IH; exact H].
Qed.

Lemma decl_name_same d : XConstProp.decl_name d = XSem.decl_name d. Proof. destruct d; reflexivity. Qed.

Theorem val_propagation_globals m p vals vars arrs :
  wf_program p = None -> (forall q, In q (procs p) -> pname q <> ""%string) ->
  init_globals (globals p) [] [] [] = inr (vals, vars, arrs) ->
  exists gs vv, cp_decls m (create_symbols p) ""%string (globals p) 0 [] = COk (gs, nvals (globals p), vv) /\
    env_ok {| cp_arith := m; cp_syms := create_symbols p; cp_scope := ""%string; cp_vals := vv |} (fun y => assoc y vals) /\
    all_vals {| cp_arith := m; cp_syms := create_symbols p; cp_scope := ""%string; cp_vals := vv |} (fun y => assoc y vals).
Proof.
  intros Hwf Hp Hi.
  assert (Hn : NoDup (map XConstProp.decl_name (globals p) ++ map pname (procs p))).
  { unfold wf_program in Hwf. destruct (has_dup (map XSem.decl_name (globals p) ++ map pname (procs p))) eqn:E; [discriminate|].
    apply has_dup_NoDup. rewrite (map_ext _ _ decl_name_same). exact E. }
  pose proof (init_globals_ok _ _ _ _ _ _ _ Hi) as Hok.
  destruct (cp_decls_agree m (create_symbols p) ""%string (fun vs y => assoc y vs) (fun _ => True)
              (fun x z vs y _ => eq_refl) (globals p) [] vals Hok 0%nat []) as (gs & vv & H1 & (A & B & _) & _).
  - split; [intros x z H; discriminate|split; [intros x z H; discriminate|intros id z H; discriminate]].
  - exact (global_decl_ids p Hn Hp [] (globals p) eq_refl).
  - exists gs, vv. split; [exact H1|]. split; assumption.
Qed.

(* ------------------------------------------------------------------ lookups in a procedure's scope *)
Definition fentries (sc : string) (fs : list formal) : symtab := map (fun f => ((sc, XConstProp.formal_name f), KOther)) fs.
Definition pnames (q : proc) : list string := map XConstProp.formal_name (formals q) ++ map XConstProp.decl_name (locals q).

Lemma sym_procs_cons q r n st :
  sym_procs (q :: r) n st =
  sym_procs r (n + nvals (locals q))%nat
    (rev (dentries (pname q) (locals q) n) ++ rev (fentries (pname q) (formals q)) ++ ((""%string, pname q), KProc) :: st).
Proof. cbn [sym_procs]. unfold sym_proc_step. rewrite sym_formals_spec, sym_decls_spec. reflexivity. Qed.

(* procedures with other names add nothing to this scope *)
Lemma sym_procs_scope sc x : sc <> ""%string -> forall ps n st,
  (forall q, In q ps -> pname q <> sc) -> find_sym (snd (sym_procs ps n st)) sc x = find_sym st sc x.
Proof.
  intros Hsc. induction ps as [|q r IH]; intros n st H; [reflexivity|].
  rewrite sym_procs_cons, IH by (intros q' Hq'; apply H; right; exact Hq').
  assert (Hq : pname q <> sc) by (apply H; left; reflexivity).
  rewrite find_sym_app, find_sym_other_scope.
  - rewrite find_sym_app, find_sym_other_scope.
    + cbn [find_sym]. destruct (String.eqb_spec ""%string sc); [congruence|reflexivity].
    + intros k Hk. unfold keys, fentries in Hk. rewrite map_rev, <- in_rev, map_map in Hk. apply in_map_iff in Hk.
      destruct Hk as (f & Hf & _). subst k. exact Hq.
  - intros k Hk. unfold keys in Hk. rewrite map_rev, <- in_rev in Hk. fold (keys (dentries (pname q) (locals q) n)) in Hk.
    rewrite keys_dentries in Hk. apply in_map_iff in Hk. destruct Hk as (d & Hd & _). subst k. exact Hq.
Qed.

Fixpoint nlocvals (ps : list proc) : nat := match ps with [] => O | q :: r => (nvals (locals q) + nlocvals r)%nat end.

(* in the scope of q, the symbol table is q's own segment (its locals and formals), then whatever was there before *)
Lemma sym_procs_own q x : pname q <> ""%string -> forall pre post n st,
  NoDup (map pname (pre ++ q :: post)) ->
  find_sym (snd (sym_procs (pre ++ q :: post) n st)) (pname q) x =
  match find_sym (rev (dentries (pname q) (locals q) (n + nlocvals pre)) ++ rev (fentries (pname q) (formals q))) (pname q) x with
  | Some k => Some k
  | None => find_sym st (pname q) x
  end.
Proof.
  intros Hq. induction pre as [|h pre IH]; intros post n st Hn.
  - cbn [List.app nlocvals]. rewrite Nat.add_0_r, sym_procs_cons.
    cbn [List.app map] in Hn. inversion Hn; subst.
    rewrite sym_procs_scope; [|exact Hq|].
    + rewrite app_assoc, find_sym_app. destruct (find_sym _ (pname q) x); [reflexivity|].
      cbn [find_sym]. destruct (String.eqb_spec ""%string (pname q)); [congruence|reflexivity].
    + intros q' Hq' E. apply H1. rewrite <- E. apply in_map. exact Hq'.
  - cbn [List.app map] in Hn. inversion Hn; subst. cbn [List.app]. rewrite sym_procs_cons, IH by exact H2.
    cbn [nlocvals]. replace (n + nvals (locals h) + nlocvals pre)%nat with (n + (nvals (locals h) + nlocvals pre))%nat by lia.
    destruct (find_sym _ (pname q) x); [reflexivity|].
    assert (Hh : pname h <> pname q).
    { intros E. apply H1. rewrite E, map_app. apply in_or_app. right. left. reflexivity. }
    rewrite find_sym_app, find_sym_other_scope.
    + rewrite find_sym_app, find_sym_other_scope.
      * cbn [find_sym]. destruct (String.eqb_spec ""%string (pname q)); [congruence|reflexivity].
      * intros k Hk. unfold keys, fentries in Hk. rewrite map_rev, <- in_rev, map_map in Hk. apply in_map_iff in Hk.
        destruct Hk as (f & Hf & _). subst k. exact Hh.
    + intros k Hk. unfold keys in Hk. rewrite map_rev, <- in_rev in Hk. fold (keys (dentries (pname h) (locals h) n)) in Hk.
      rewrite keys_dentries in Hk. apply in_map_iff in Hk. destruct Hk as (d & Hd & _). subst k. exact Hh.
Qed.

Lemma keys_segment q n :
  keys (rev (dentries (pname q) (locals q) n) ++ rev (fentries (pname q) (formals q))) =
  map (fun x => (pname q, x)) (rev (map XConstProp.decl_name (locals q)) ++ rev (map XConstProp.formal_name (formals q))).
Proof.
  unfold keys, fentries. rewrite !map_app, !map_rev. fold (keys (dentries (pname q) (locals q) n)). rewrite keys_dentries, !map_map. reflexivity.
Qed.

Lemma NoDup_pair_map (sc : string) l : NoDup l -> NoDup (map (fun x : string => (sc, x)) l).
Proof.
  induction 1 as [|x l Hx Hl IH]; cbn [map]; constructor; [|exact IH].
  intros Hin. apply in_map_iff in Hin. destruct Hin as (y & Hy & Hin). inversion Hy; subst. exact (Hx Hin).
Qed.

Lemma NoDup_segment q n : NoDup (pnames q) -> NoDup (keys (rev (dentries (pname q) (locals q) n) ++ rev (fentries (pname q) (formals q)))).
Proof.
  intros H. rewrite keys_segment. apply NoDup_pair_map. unfold pnames in H.
  (* rev locals ++ rev formals = rev (formals ++ locals) *)
  rewrite <- rev_app_distr. apply NoDup_rev. exact H.
Qed.

(* a name that q does not declare is looked up in the global scope *)
Lemma lookup_not_local p q x pre post : procs p = pre ++ q :: post -> pname q <> ""%string -> NoDup (map pname (procs p)) ->
  (forall h, In h (procs p) -> pname h <> ""%string /\ pname h <> x) ->
  ~ In x (pnames q) -> lookup (create_symbols p) (pname q) x = find_sym (create_symbols p) ""%string x.
Proof.
  intros Hp Hq Hn Hx Hnot. unfold lookup.
  assert (E : find_sym (create_symbols p) (pname q) x = None).
  { unfold create_symbols. rewrite sym_decls_spec. cbn [fst snd]. rewrite Hp, sym_procs_own by first [exact Hq | rewrite <- Hp; exact Hn].
    rewrite find_sym_none.
    - rewrite app_nil_r. apply find_sym_other_scope. intros k Hk. unfold keys in Hk. rewrite map_rev, <- in_rev in Hk.
      fold (keys (dentries ""%string (globals p) 0)) in Hk. rewrite keys_dentries in Hk. apply in_map_iff in Hk.
      destruct Hk as (d & Hd & _). subst k. cbn. congruence.
    - rewrite keys_segment. intros Hin. apply in_map_iff in Hin. destruct Hin as (y & Hy & Hin). inversion Hy; subst y.
      apply Hnot. unfold pnames. rewrite <- rev_app_distr, <- in_rev in Hin. exact Hin. }
  rewrite E. destruct (String.eqb_spec (pname q) ""%string); [congruence|reflexivity].
Qed.

(* the k-th val declaration among q's locals is ValDecl number n + k, n the number of val declarations before q *)
Lemma local_decl_ids p q pre post : procs p = pre ++ q :: post -> pname q <> ""%string -> NoDup (map pname (procs p)) ->
  NoDup (pnames q) ->
  forall lpre ds, locals q = lpre ++ ds ->
  decl_ids (create_symbols p) (pname q) (fun x => In x (pnames q)) ds (nvals (globals p) + nlocvals pre + nvals lpre)%nat.
Proof.
  intros Hp Hq Hn Hnq lpre ds. revert lpre. induction ds as [|d r IH]; intros lpre Hl; [exact I|].
  assert (Hl' : locals q = (lpre ++ [d]) ++ r) by (rewrite <- app_assoc; exact Hl).
  specialize (IH (lpre ++ [d]) Hl'). rewrite nvals_app in IH.
  destruct d as [x e|x|x e]; cbn [decl_ids]; cbn [nvals] in IH; rewrite ?Nat.add_0_r in IH; try exact IH.
  replace (nvals (globals p) + nlocvals pre + (nvals lpre + 1))%nat with (S (nvals (globals p) + nlocvals pre + nvals lpre)) in IH by lia.
  assert (Hx : In x (pnames q)).
  { unfold pnames. apply in_or_app. right. rewrite Hl, map_app. apply in_or_app. right. left. reflexivity. }
  split; [exact Hx|]. split; [|exact IH].
  unfold lookup, create_symbols. rewrite sym_decls_spec. cbn [fst snd]. rewrite Hp, sym_procs_own by first [exact Hq | rewrite <- Hp; exact Hn].
  rewrite (find_sym_some _ (pname q) x (KValDecl (nvals (globals p) + nlocvals pre + nvals lpre))); [reflexivity|apply NoDup_segment; exact Hnq|].
  apply in_or_app. left. rewrite <- in_rev, Hl, dentries_app. apply in_or_app. right.
  cbn [dentries dkind XConstProp.decl_name]. left. reflexivity.
Qed.

(* the names the X definition sees inside a procedure: its own declarations hide the globals *)
Definition lk_local (names : list string) (gvals vals : list (string * Z)) (y : string) : option Z :=
  if mem_str y names then assoc y vals else assoc y gvals.

Lemma local_decls_ok names gvals : forall ds vars vals vars' vals',
  local_decls ds names gvals vars vals = inr (vars', vals') -> decls_ok (lk_local names gvals) ds vals vals'.
Proof.
  induction ds as [|d r IH]; intros vars vals vars' vals' H.
  - cbn in H. inversion H; subst. constructor.
  - destruct d as [x e|x|x e]; cbn [local_decls] in H.
    + fold (lk_local names gvals vals) in H.
      destruct (eval_const (lk_local names gvals vals) e) as [u|z] eqn:E; [discriminate|]. econstructor; [exact E|eapply IH; exact H].
    + constructor. eapply IH; exact H.
    + discriminate.
Qed.

Lemma formal_name_same f : XConstProp.formal_name f = XSem.formal_name f. Proof. destruct f; reflexivity. Qed.
Lemma pnames_same q : pnames q = map XSem.formal_name (formals q) ++ map XSem.decl_name (locals q).
Proof. unfold pnames. rewrite (map_ext _ _ formal_name_same), (map_ext _ _ decl_name_same). reflexivity. Qed.

Lemma assoc_in {A} x (l : list (string * A)) v : assoc x l = Some v -> In x (map fst l).
Proof.
  induction l as [|[y w] r IH]; [discriminate|]. cbn [assoc map fst In].
  destruct (String.eqb_spec x y); [intros _; left; congruence|intros H; right; exact (IH H)].
Qed.

(* the global vals as the compiler sees them from inside any procedure *)
Definition globals_visible (p : program) (gvals : list (string * Z)) (n : nat) (vv : list (nat * Z)) : Prop :=
  (forall y w, assoc y gvals = Some w ->
     in_int w = true /\ In y (map XConstProp.decl_name (globals p)) /\
     exists id, find_sym (create_symbols p) ""%string y = Some (KValDecl id) /\ assoc_nat id vv = Some w) /\
  (forall id z, assoc_nat id vv = Some z -> (id < n)%nat).

Theorem val_propagation_locals m p gvals q pre post fv lvars lvals vv :
  wf_program p = None -> (forall h, In h (procs p) -> pname h <> ""%string) -> procs p = pre ++ q :: post ->
  globals_visible p gvals (nvals (globals p) + nlocvals pre) vv ->
  local_decls (locals q) (pnames q) gvals fv [] = inr (lvars, lvals) ->
  exists ads vv',
    cp_decls m (create_symbols p) (pname q) (locals q) (nvals (globals p) + nlocvals pre) vv
      = COk (ads, (nvals (globals p) + nlocvals (pre ++ [q]))%nat, vv') /\
    env_ok {| cp_arith := m; cp_syms := create_symbols p; cp_scope := pname q; cp_vals := vv' |} (lk_local (pnames q) gvals lvals) /\
    all_vals {| cp_arith := m; cp_syms := create_symbols p; cp_scope := pname q; cp_vals := vv' |} (lk_local (pnames q) gvals lvals) /\
    globals_visible p gvals (nvals (globals p) + nlocvals (pre ++ [q])) vv'.
Proof.
  intros Hwf Hp Hsplit [Hg Hlt] Hl.
  assert (Hwf2 := Hwf). unfold wf_program in Hwf2.
  destruct (has_dup (map XSem.decl_name (globals p) ++ map pname (procs p))) eqn:E1; [discriminate|].
  destruct (forallb wf_proc (procs p)) eqn:E2; [|discriminate].
  assert (Hn : NoDup (map XConstProp.decl_name (globals p) ++ map pname (procs p))).
  { apply has_dup_NoDup. rewrite (map_ext _ _ decl_name_same). exact E1. }
  assert (Hnp : NoDup (map pname (procs p))).
  { clear - Hn. induction (map XConstProp.decl_name (globals p)) as [|a l IH]; [exact Hn|]. cbn in Hn. inversion Hn; auto. }
  assert (Hq : In q (procs p)) by (rewrite Hsplit; apply in_or_app; right; left; reflexivity).
  assert (Hnq : NoDup (pnames q)).
  { rewrite forallb_forall in E2. specialize (E2 q Hq). unfold wf_proc in E2. apply negb_true_iff in E2.
    rewrite pnames_same. apply has_dup_NoDup. exact E2. }
  pose proof (local_decls_ok _ _ _ _ _ _ _ Hl) as Hok.
  set (n0 := (nvals (globals p) + nlocvals pre)%nat) in *.
  destruct (cp_decls_agree m (create_symbols p) (pname q) (lk_local (pnames q) gvals) (fun x => In x (pnames q))) with
      (ds := locals q) (vals := @nil (string * Z)) (vals' := lvals) (n := n0) (vv := vv) as (ads & vv' & H1 & (A & B & C) & Hext).
  - (* lkof_cons *)
    intros x z vals y Hx. unfold lk_local. cbn [assoc]. destruct (String.eqb_spec y x).
    + subst. rewrite (proj2 (mem_str_In x (pnames q)) Hx). reflexivity.
    + reflexivity.
  - exact Hok.
  - (* Inv at the start: only the globals that q does not hide have a value *)
    assert (All : all_vals {| cp_arith := m; cp_syms := create_symbols p; cp_scope := pname q; cp_vals := vv |} (lk_local (pnames q) gvals [])).
    { intros y w Hy. unfold lk_local in Hy. destruct (mem_str y (pnames q)) eqn:Em; [discriminate|].
      destruct (Hg y w Hy) as (Hw & Hin & id & Hf & Ha). apply resolve_val. exists id. cbn [cp_syms cp_scope cp_vals]. split; [|exact Ha].
      rewrite (lookup_not_local p q y pre post Hsplit (Hp q Hq) Hnp); [exact Hf| |].
      - intros h Hh. split; [apply Hp; exact Hh|]. intros Eh. subst y. eapply (NoDup_app_disjoint _ _ (pname h) Hn Hin). apply in_map. exact Hh.
      - intros Hin'. apply mem_str_In in Hin'. congruence. }
    split; [|split; [exact All|exact Hlt]].
    intros y w Hy. split; [|right; apply All; exact Hy].
    unfold lk_local in Hy. destruct (mem_str y (pnames q)); [discriminate|]. apply (Hg y w Hy).
  - pose proof (local_decl_ids p q pre post Hsplit (Hp q Hq) Hnp Hnq [] (locals q) eq_refl) as Hid.
    cbn [nvals] in Hid. rewrite Nat.add_0_r in Hid. exact Hid.
  - exists ads, vv'. replace (nvals (globals p) + nlocvals (pre ++ [q]))%nat with (n0 + nvals (locals q))%nat.
    + split; [exact H1|]. split; [exact A|]. split; [exact B|]. split; [|exact C].
      intros y w Hy. destruct (Hg y w Hy) as (Hw & Hin & id & Hf & Ha). split; [exact Hw|]. split; [exact Hin|].
      exists id. split; [exact Hf|apply Hext; exact Ha].
    + unfold n0. clear. induction pre as [|h r IH]; cbn [List.app nlocvals]; lia.
Qed.

Lemma decls_ok_names lkof : forall ds vals vals', decls_ok lkof ds vals vals' ->
  forall y, In y (map fst vals') -> In y (map fst vals) \/ In y (map XConstProp.decl_name ds).
Proof.
  induction 1 as [vals|x e r vals vals' w He Hr IH|x r vals vals' Hr IH|x e r vals vals' w He Hr IH]; intros y Hy; auto.
  - destruct (IH y Hy) as [H|H]; [|right; right; exact H]. cbn [map fst In] in H. destruct H as [H|H]; [right; left; exact H|left; exact H].
  - destruct (IH y Hy) as [H|H]; [left; exact H|right; right; exact H].
  - destruct (IH y Hy) as [H|H]; [left; exact H|right; right; exact H].
Qed.

(* after the global declarations the global vals are visible as ValDecls 0 .. nvals-1 *)
Theorem val_propagation_globals_visible m p vals vars arrs :
  wf_program p = None -> (forall q, In q (procs p) -> pname q <> ""%string) ->
  init_globals (globals p) [] [] [] = inr (vals, vars, arrs) ->
  exists gs vv, cp_decls m (create_symbols p) ""%string (globals p) 0 [] = COk (gs, nvals (globals p), vv) /\
    env_ok {| cp_arith := m; cp_syms := create_symbols p; cp_scope := ""%string; cp_vals := vv |} (fun y => assoc y vals) /\
    all_vals {| cp_arith := m; cp_syms := create_symbols p; cp_scope := ""%string; cp_vals := vv |} (fun y => assoc y vals) /\
    globals_visible p vals (nvals (globals p)) vv.
Proof.
  intros Hwf Hp Hi.
  assert (Hn : NoDup (map XConstProp.decl_name (globals p) ++ map pname (procs p))).
  { unfold wf_program in Hwf. destruct (has_dup (map XSem.decl_name (globals p) ++ map pname (procs p))) eqn:E; [discriminate|].
    apply has_dup_NoDup. rewrite (map_ext _ _ decl_name_same). exact E. }
  pose proof (init_globals_ok _ _ _ _ _ _ _ Hi) as Hok.
  destruct (cp_decls_agree m (create_symbols p) ""%string (fun vs y => assoc y vs) (fun _ => True)
              (fun x z vs y _ => eq_refl) (globals p) [] vals Hok 0%nat []) as (gs & vv & H1 & (A & B & C) & _).
  - split; [intros x z H; discriminate|split; [intros x z H; discriminate|intros id z H; discriminate]].
  - exact (global_decl_ids p Hn Hp [] (globals p) eq_refl).
  - exists gs, vv. split; [exact H1|]. split; [exact A|]. split; [exact B|]. split; [|exact C].
    intros y w Hy. split; [apply (A y w Hy)|]. split.
    + destruct (decls_ok_names _ _ _ _ Hok y (assoc_in _ _ _ Hy)) as [[]|H]. exact H.
    + destruct (proj1 (resolve_val _ _ _) (B y w Hy)) as (id & Hl & Ha). cbn [cp_syms cp_scope cp_vals] in Hl, Ha.
      rewrite lookup_global in Hl. exists id. split; assumption.
Qed.

(* the declarations of all procedures in the order cp_procs visits them (bodies left out): the environment in which
   each body is processed *)
Fixpoint thread (m : arith) (st : symtab) (ps : list proc) (n : nat) (vv : list (nat * Z)) : cres (list (list (nat * Z))) :=
  match ps with
  | [] => COk []
  | q :: r => cbind (cp_decls m st (pname q) (locals q) n vv) (fun t =>
                let '(ds', n', v') := t in cbind (thread m st r n' v') (fun l => COk (v' :: l)))
  end.

Lemma cp_procs_thread m st : forall ps n vv aps, cp_procs m st ps n vv = COk aps ->
  exists envs, thread m st ps n vv = COk envs /\
    Forall2 (fun qa v' => cp_stmt {| cp_arith := m; cp_syms := st; cp_scope := pname (fst qa); cp_vals := v' |} (body (fst qa)) = COk (a_body (snd qa)))
            (combine ps aps) envs /\ length aps = length ps.
Proof.
  induction ps as [|q r IH]; intros n vv aps H.
  - cbn in H. inversion H; subst. exists []. repeat split. constructor.
  - cbn [cp_procs] in H. cbn [thread].
    destruct (cp_decls m st (pname q) (locals q) n vv) as [[[ds' n'] v']| |]; cbn [cbind] in *; try discriminate.
    destruct (cp_stmt _ (body q)) as [b'| |] eqn:Eb; cbn [cbind] in H; try discriminate.
    destruct (cp_procs m st r n' v') as [r'| |] eqn:Er; cbn [cbind] in H; try discriminate.
    inversion H; subst. destruct (IH n' v' r' Er) as (envs & Ht & Hf & Hlen). rewrite Ht. cbn [cbind].
    exists (v' :: envs). split; [reflexivity|]. split; [|cbn; f_equal; exact Hlen].
    cbn [combine]. constructor; [cbn [fst snd a_body]; exact Eb|exact Hf].
Qed.

Theorem val_propagation_procs m p gvals (lv : proc -> list (string * Z)) :
  wf_program p = None -> (forall h, In h (procs p) -> pname h <> ""%string) ->
  (forall q, In q (procs p) -> exists lvars, local_decls (locals q) (pnames q) gvals [] [] = inr (lvars, lv q)) ->
  forall ps pre vv, procs p = pre ++ ps -> globals_visible p gvals (nvals (globals p) + nlocvals pre) vv ->
  exists envs, thread m (create_symbols p) ps (nvals (globals p) + nlocvals pre) vv = COk envs /\
    Forall2 (fun q v' =>
               env_ok {| cp_arith := m; cp_syms := create_symbols p; cp_scope := pname q; cp_vals := v' |} (lk_local (pnames q) gvals (lv q)) /\
               all_vals {| cp_arith := m; cp_syms := create_symbols p; cp_scope := pname q; cp_vals := v' |} (lk_local (pnames q) gvals (lv q)))
            ps envs.
Proof.
  intros Hwf Hp Hl. induction ps as [|q r IH]; intros pre vv Hs Hg.
  - exists []. split; [reflexivity|constructor].
  - assert (Hq : In q (procs p)) by (rewrite Hs; apply in_or_app; right; left; reflexivity).
    destruct (Hl q Hq) as (lvars & Hlq).
    destruct (val_propagation_locals m p gvals q pre r [] lvars (lv q) vv Hwf Hp Hs Hg Hlq) as (ads & vv' & H1 & A & B & G').
    assert (Hs' : procs p = (pre ++ [q]) ++ r) by (rewrite <- app_assoc; exact Hs).
    destruct (IH (pre ++ [q]) vv' Hs' G') as (envs & Ht & Hf).
    exists (vv' :: envs). cbn [thread]. rewrite H1. cbn [cbind]. rewrite Ht. cbn [cbind]. split; [reflexivity|].
    constructor; [split; assumption|exact Hf].
Qed.

