(* XCodegenBridge.v -- the interface `instr_at` of XCodegenIsa.v is what the assembler side establishes:
   if the ISA's own decoder (AsmSpec.decode, proved to be Isa.step by AsmSpecProofs.decode_exec) reads
   instruction i (its opcode, and its operand -- for a branch the label's position relative to the next
   instruction) at [pos, nxt) of an image that every admissible memory holds, then instr_at holds there.  So the
   code_at hypotheses of the C01 fragment theorems are discharged, instruction by instruction, for every image
   the assembler validator (C05) accepts, as long as the code is never stored to. *)
From Coq Require Import ZArith List Lia.
From HexVerif Require Import WMap Isa AsmSpec AsmSpecProofs XCodegenIsa.
Import ListNotations.
Local Open Scope Z_scope.

Lemma decode_progress : forall fuel img pos o op ov nxt, decode_go fuel img pos o = Some (op, ov, nxt) -> pos < nxt.
Proof.
  induction fuel as [|f IH]; intros img pos o op ov nxt Hd; [discriminate|]. cbn [decode_go] in Hd.
  destruct ((rd img pos / 16 =? 14) || (rd img pos / 16 =? 15))%bool.
  - specialize (IH _ _ _ _ _ _ Hd). lia.
  - inversion Hd. lia.
Qed.

Lemma at_of_decode (C : WMap.t -> Prop) img pos nxt op ov :
  decode img pos = Some (op, ov, nxt) -> 0 <= pos -> nxt <= W -> (forall m, C m -> holds m img pos nxt) ->
  0 <= pos < nxt /\
  forall m a b inp, C m -> exists s',
    taus inp (mk pos a b 0 m) s' /\ pc s' = nxt - 1 /\ areg s' = a /\ breg s' = b /\ mem s' = m /\ at_byte s' op ov.
Proof.
  intros Hd Hp Hn Hh. unfold decode in Hd. split.
  - pose proof (decode_progress _ _ _ _ _ _ _ Hd). lia.
  - intros m a b inp HC.
    destruct (decode_exec 16 img pos 0 _ _ nxt Hd (mk pos a b 0 m) inp eq_refl eq_refl Hp Hn (Hh m HC))
      as [_ (s' & Hrun & Hpc & Ha & Hb & Hm & Hin & Hop & _ & _ & Ho)].
    exists s'. split; [exists (Z.to_nat (nxt - pos - 1)); exact Hrun|].
    repeat split; assumption.
Qed.

Theorem instr_at_of_decode : forall (C : WMap.t -> Prop) (lab : label -> Z) img pos nxt i,
  match i with LABEL _ => False | _ => True end ->
  decode img pos = Some (opc i, operand lab nxt i, nxt) ->
  0 <= pos -> nxt <= W -> (forall m, C m -> holds m img pos nxt) -> instr_at C lab pos nxt i.
Proof.
  intros C lab img pos nxt i Hi Hd Hp Hn Hh.
  destruct i; try contradiction; cbn [instr_at]; eapply at_of_decode; eassumption.
Qed.
