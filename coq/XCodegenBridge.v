(* XCodegenBridge.v -- the interface `instr_at` of XCodegenExpr.v is what the assembler side establishes:
   if the ISA's own decoder (AsmSpec.decode, proved to be Isa.step by AsmSpecProofs.decode_exec) reads
   instruction i at [pos, nxt) of an image that every admissible memory holds, then instr_at holds there.  So
   the code_at hypothesis of C01_expr_fragment_partial is discharged, instruction by instruction, for every
   image the assembler validator (C05) accepts, as long as the frame temporaries lie outside the code. *)
From Coq Require Import ZArith List Lia.
From HexVerif Require Import WMap Isa AsmSpec AsmSpecProofs XCodegenExpr.
Import ListNotations.
Local Open Scope Z_scope.

Theorem instr_at_of_decode : forall (C : WMap.t -> Prop) img pos nxt i,
  decode img pos = Some (fst (opcode i), snd (opcode i), nxt) ->
  0 <= pos -> nxt <= W -> (forall m, C m -> holds m img pos nxt) -> instr_at C pos nxt i.
Proof.
  intros C img pos nxt i Hd Hp Hn Hh. unfold decode in Hd. split.
  - assert (Hlt : pos < nxt).
    { clear - Hd. revert Hd. generalize 0 at 1. generalize 16%nat. intros fuel. revert pos.
      induction fuel as [|f IH]; intros pos o Hd; [discriminate|]. cbn [decode_go] in Hd.
      destruct ((rd img pos / 16 =? 14) || (rd img pos / 16 =? 15))%bool.
      - specialize (IH _ _ Hd). lia.
      - inversion Hd. lia. }
    lia.
  - intros m a b inp HC.
    destruct (decode_exec 16 img pos 0 _ _ nxt Hd (mk pos a b 0 m) inp eq_refl eq_refl Hp Hn (Hh m HC))
      as [_ (s' & Hrun & Hpc & Ha & Hb & Hm & Hin & Hop & _ & _ & Ho)].
    exists s'. split; [exists (Z.to_nat (nxt - pos - 1)); exact Hrun|].
    repeat split; assumption.
Qed.
