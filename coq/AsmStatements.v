(* AsmStatements.v -- the statements (as Props) that decide C05, C15 (symbol-table half), C17 and C10 for the
   model of hexasm (AsmModel.v, AsmLayout.v) against the spec validators of AsmSpec.v.  Statements only. *)
From Coq Require Import ZArith List String Bool.
From HexVerif Require Import WMap Isa AsmModel AsmLayout AsmSpec.
Import ListNotations.
Local Open Scope Z_scope.

Definition int_range (v : Z) : Prop := - 2147483648 <= v < 2147483648.

(* what the parser can produce: instruction tokens are instructions, OPR operands are OPR operands, values are C ints *)
Definition wf_directive (d : directive) : Prop :=
  match d with
  | DData v => int_range v
  | DLabel _ _ => True
  | DImm t v => (is_abs_opc t || is_rel_opc t) = true /\ int_range v
  | DRef t _ rel => (is_abs_opc t || is_rel_opc t) = true /\ rel = is_rel_opc t
  | DOpr t => opr_opc t <> None
  | DPadding _ => False
  end.

(* the C++ keeps offsets in `int`: the statements are for images below 2 GiB *)
Definition small (L : layout) : Prop := l_size L < 2147483648.

(* the listing as a reader sees it, line by line (same items, same order as AsmLayout.listing prints as text) *)
Definition struct_line (it : item) : lline :=
  let d := it_d it in let st := it_st it in
  match d with
  | DData v => LData (d_off st) v (dsize d st)
  | DLabel _ _ => LLabel (d_off st) (dsize d st)
  | DImm _ v => LInstr (d_off st) (dir_opc d) v (dsize d st)
  | DRef _ _ _ => LInstr (d_off st) (dir_opc d) (d_val st) (dsize d st)
  | DOpr t => LOpr (d_off st) (match opr_opc t with Some k => k | None => 0 end) (dsize d st)
  | DPadding n => LPadding n
  end.
Definition struct_listing (L : layout) : list lline := map struct_line (l_items L).

(* C05: every accepted program's image passes the spec validator: directives in source order without overlap, DATA
   aligned and named by the label before it, every reference reaches its label (relative: address after the
   instruction + operand = label; absolute: operand = word address of an aligned label), header = image size *)
Definition C05_layout_sound_stmt : Prop :=
  forall prog locs out, Forall wf_directive prog -> assemble_directives prog locs = Ok out -> small (ao_layout out) ->
    check_image prog (ao_image out) (l_size (ao_layout out) / 4) = true.

(* C05: assembly terminates: the layout loop never runs out of the fuel the model gives it (pass bound) *)
Definition C05_terminates_stmt : Prop := forall prog, resolve prog <> OutOfFuel.

(* C15 (symbol table): the emitted symbols are exactly the FUNC/PROC directives, in order, with the offset of the
   first instruction byte emitted after each *)
Definition C15_symtab_stmt : Prop :=
  forall prog locs out, Forall wf_directive prog -> assemble_directives prog locs = Ok out -> small (ao_layout out) ->
    check_symtab prog (ao_image out) (ao_syms out) = true.

(* C17: the listing describes the image *)
Definition C17_listing_stmt : Prop :=
  forall prog locs out, Forall wf_directive prog -> assemble_directives prog locs = Ok out -> small (ao_layout out) ->
    check_listing (struct_listing (ao_layout out)) (ao_image out) = true.

(* the parser only produces well-formed directives *)
Definition parse_wf_stmt : Prop :=
  forall toks l, parse toks = Ok l -> Forall wf_directive (map (fun x => snd x) l).

(* C10: the whole assembler model is total and free of undefined behaviour on every byte string *)
Definition C10_total_stmt : Prop :=
  forall src, (exists out, assemble src = Ok out) \/ (exists d, assemble src = Reject d).
