open BinNums
open Datatypes
open Nat

module Pos :
 sig
  val succ : positive -> positive

  val add : positive -> positive -> positive

  val add_carry : positive -> positive -> positive

  val pred_double : positive -> positive

  val pred_N : positive -> coq_N

  val mul : positive -> positive -> positive

  val iter : ('a1 -> 'a1) -> 'a1 -> positive -> 'a1

  val div2 : positive -> positive

  val div2_up : positive -> positive

  val compare_cont : comparison -> positive -> positive -> comparison

  val compare : positive -> positive -> comparison

  val eqb : positive -> positive -> bool

  val coq_Nsucc_double : coq_N -> coq_N

  val coq_Ndouble : coq_N -> coq_N

  val coq_lor : positive -> positive -> positive

  val coq_land : positive -> positive -> coq_N

  val ldiff : positive -> positive -> coq_N

  val coq_lxor : positive -> positive -> coq_N

  val iter_op : ('a1 -> 'a1 -> 'a1) -> positive -> 'a1 -> 'a1

  val to_nat : positive -> nat

  val of_succ_nat : nat -> positive
 end
