open Ascii
open BinInt
open BinNums
open Datatypes
open List
open String
open Vexp
open WMap

type rstate = { r_pc : coq_Z; r_areg : coq_Z; r_breg : coq_Z; r_oreg : 
                coq_Z; r_mem : t }

(** val n_pc : string **)

let n_pc =
  String ((Ascii (false, false, false, true, false, true, true, false)),
    (String ((Ascii (true, false, true, false, false, true, true, false)),
    (String ((Ascii (false, false, false, true, true, true, true, false)),
    (String ((Ascii (false, true, true, true, false, true, false, false)),
    (String ((Ascii (true, false, true, false, true, true, true, false)),
    (String ((Ascii (true, true, true, true, true, false, true, false)),
    (String ((Ascii (false, false, false, false, true, true, true, false)),
    (String ((Ascii (false, true, false, false, true, true, true, false)),
    (String ((Ascii (true, true, true, true, false, true, true, false)),
    (String ((Ascii (true, true, false, false, false, true, true, false)),
    (String ((Ascii (true, false, true, false, false, true, true, false)),
    (String ((Ascii (true, true, false, false, true, true, true, false)),
    (String ((Ascii (true, true, false, false, true, true, true, false)),
    (String ((Ascii (true, true, true, true, false, true, true, false)),
    (String ((Ascii (false, true, false, false, true, true, true, false)),
    (String ((Ascii (false, true, true, true, false, true, false, false)),
    (String ((Ascii (false, false, false, false, true, true, true, false)),
    (String ((Ascii (true, true, false, false, false, true, true, false)),
    (String ((Ascii (true, true, true, true, true, false, true, false)),
    (String ((Ascii (true, false, false, false, true, true, true, false)),
    EmptyString)))))))))))))))))))))))))))))))))))))))

(** val n_areg : string **)

let n_areg =
  String ((Ascii (false, false, false, true, false, true, true, false)),
    (String ((Ascii (true, false, true, false, false, true, true, false)),
    (String ((Ascii (false, false, false, true, true, true, true, false)),
    (String ((Ascii (false, true, true, true, false, true, false, false)),
    (String ((Ascii (true, false, true, false, true, true, true, false)),
    (String ((Ascii (true, true, true, true, true, false, true, false)),
    (String ((Ascii (false, false, false, false, true, true, true, false)),
    (String ((Ascii (false, true, false, false, true, true, true, false)),
    (String ((Ascii (true, true, true, true, false, true, true, false)),
    (String ((Ascii (true, true, false, false, false, true, true, false)),
    (String ((Ascii (true, false, true, false, false, true, true, false)),
    (String ((Ascii (true, true, false, false, true, true, true, false)),
    (String ((Ascii (true, true, false, false, true, true, true, false)),
    (String ((Ascii (true, true, true, true, false, true, true, false)),
    (String ((Ascii (false, true, false, false, true, true, true, false)),
    (String ((Ascii (false, true, true, true, false, true, false, false)),
    (String ((Ascii (true, false, false, false, false, true, true, false)),
    (String ((Ascii (false, true, false, false, true, true, true, false)),
    (String ((Ascii (true, false, true, false, false, true, true, false)),
    (String ((Ascii (true, true, true, false, false, true, true, false)),
    (String ((Ascii (true, true, true, true, true, false, true, false)),
    (String ((Ascii (true, false, false, false, true, true, true, false)),
    EmptyString)))))))))))))))))))))))))))))))))))))))))))

(** val n_breg : string **)

let n_breg =
  String ((Ascii (false, false, false, true, false, true, true, false)),
    (String ((Ascii (true, false, true, false, false, true, true, false)),
    (String ((Ascii (false, false, false, true, true, true, true, false)),
    (String ((Ascii (false, true, true, true, false, true, false, false)),
    (String ((Ascii (true, false, true, false, true, true, true, false)),
    (String ((Ascii (true, true, true, true, true, false, true, false)),
    (String ((Ascii (false, false, false, false, true, true, true, false)),
    (String ((Ascii (false, true, false, false, true, true, true, false)),
    (String ((Ascii (true, true, true, true, false, true, true, false)),
    (String ((Ascii (true, true, false, false, false, true, true, false)),
    (String ((Ascii (true, false, true, false, false, true, true, false)),
    (String ((Ascii (true, true, false, false, true, true, true, false)),
    (String ((Ascii (true, true, false, false, true, true, true, false)),
    (String ((Ascii (true, true, true, true, false, true, true, false)),
    (String ((Ascii (false, true, false, false, true, true, true, false)),
    (String ((Ascii (false, true, true, true, false, true, false, false)),
    (String ((Ascii (false, true, false, false, false, true, true, false)),
    (String ((Ascii (false, true, false, false, true, true, true, false)),
    (String ((Ascii (true, false, true, false, false, true, true, false)),
    (String ((Ascii (true, true, true, false, false, true, true, false)),
    (String ((Ascii (true, true, true, true, true, false, true, false)),
    (String ((Ascii (true, false, false, false, true, true, true, false)),
    EmptyString)))))))))))))))))))))))))))))))))))))))))))

(** val n_oreg : string **)

let n_oreg =
  String ((Ascii (false, false, false, true, false, true, true, false)),
    (String ((Ascii (true, false, true, false, false, true, true, false)),
    (String ((Ascii (false, false, false, true, true, true, true, false)),
    (String ((Ascii (false, true, true, true, false, true, false, false)),
    (String ((Ascii (true, false, true, false, true, true, true, false)),
    (String ((Ascii (true, true, true, true, true, false, true, false)),
    (String ((Ascii (false, false, false, false, true, true, true, false)),
    (String ((Ascii (false, true, false, false, true, true, true, false)),
    (String ((Ascii (true, true, true, true, false, true, true, false)),
    (String ((Ascii (true, true, false, false, false, true, true, false)),
    (String ((Ascii (true, false, true, false, false, true, true, false)),
    (String ((Ascii (true, true, false, false, true, true, true, false)),
    (String ((Ascii (true, true, false, false, true, true, true, false)),
    (String ((Ascii (true, true, true, true, false, true, true, false)),
    (String ((Ascii (false, true, false, false, true, true, true, false)),
    (String ((Ascii (false, true, true, true, false, true, false, false)),
    (String ((Ascii (true, true, true, true, false, true, true, false)),
    (String ((Ascii (false, true, false, false, true, true, true, false)),
    (String ((Ascii (true, false, true, false, false, true, true, false)),
    (String ((Ascii (true, true, true, false, false, true, true, false)),
    (String ((Ascii (true, true, true, true, true, false, true, false)),
    (String ((Ascii (true, false, false, false, true, true, true, false)),
    EmptyString)))))))))))))))))))))))))))))))))))))))))))

(** val n_mem : string **)

let n_mem =
  String ((Ascii (false, false, false, true, false, true, true, false)),
    (String ((Ascii (true, false, true, false, false, true, true, false)),
    (String ((Ascii (false, false, false, true, true, true, true, false)),
    (String ((Ascii (false, true, true, true, false, true, false, false)),
    (String ((Ascii (true, false, true, false, true, true, true, false)),
    (String ((Ascii (true, true, true, true, true, false, true, false)),
    (String ((Ascii (true, false, true, true, false, true, true, false)),
    (String ((Ascii (true, false, true, false, false, true, true, false)),
    (String ((Ascii (true, false, true, true, false, true, true, false)),
    (String ((Ascii (true, true, true, true, false, true, true, false)),
    (String ((Ascii (false, true, false, false, true, true, true, false)),
    (String ((Ascii (true, false, false, true, true, true, true, false)),
    (String ((Ascii (false, true, true, true, false, true, false, false)),
    (String ((Ascii (true, false, true, true, false, true, true, false)),
    (String ((Ascii (true, false, true, false, false, true, true, false)),
    (String ((Ascii (true, false, true, true, false, true, true, false)),
    (String ((Ascii (true, true, true, true, false, true, true, false)),
    (String ((Ascii (false, true, false, false, true, true, true, false)),
    (String ((Ascii (true, false, false, true, true, true, true, false)),
    (String ((Ascii (true, true, true, true, true, false, true, false)),
    (String ((Ascii (true, false, false, false, true, true, true, false)),
    EmptyString)))))))))))))))))))))))))))))))))))))))))

(** val base_env : coq_Z -> (nat -> coq_Z) -> rstate -> env **)

let base_env rst xv s =
  { var = (fun v ->
    if eqb v n_pc
    then s.r_pc
    else if eqb v n_areg
         then s.r_areg
         else if eqb v n_breg
              then s.r_breg
              else if eqb v n_oreg
                   then s.r_oreg
                   else if eqb v (String ((Ascii (true, false, false, true,
                             false, true, true, false)), (String ((Ascii
                             (true, true, true, true, true, false, true,
                             false)), (String ((Ascii (false, true, false,
                             false, true, true, true, false)), (String
                             ((Ascii (true, true, false, false, true, true,
                             true, false)), (String ((Ascii (false, false,
                             true, false, true, true, true, false)),
                             EmptyString))))))))))
                        then rst
                        else Z0); xs = xv; arr = (fun m a ->
    if eqb m n_mem then rd s.r_mem a else Z0) }

(** val bind : env -> string -> coq_Z -> env **)

let bind e n v =
  { var = (fun x -> if eqb x n then v else e.var x); xs = e.xs; arr = e.arr }

(** val env_wires : env -> (string * vexp) list -> env **)

let env_wires e ws =
  fold_left (fun e0 w -> bind e0 (fst w) (eval e0 (snd w))) ws e

(** val getv : string -> (string * coq_Z) list -> coq_Z -> coq_Z **)

let rec getv n l dflt =
  match l with
  | [] -> dflt
  | p :: r -> let (m, v) = p in if eqb m n then v else getv n r dflt

(** val apply_write : t -> (string * (coq_Z * (coq_Z * coq_Z))) -> t **)

let apply_write m w =
  if eqb (fst w) n_mem
  then if Z.eqb (fst (snd w)) Z0
       then m
       else wr m (fst (snd (snd w))) (snd (snd (snd w)))
  else m

(** val cycle_env : design -> coq_Z -> (nat -> coq_Z) -> rstate -> env **)

let cycle_env d rst xv s =
  env_wires (base_env rst xv s) d.wires

(** val state_of :
    rstate -> (string * coq_Z) list -> (string * (coq_Z * (coq_Z * coq_Z)))
    list -> rstate **)

let state_of s nx ws =
  { r_pc = (getv n_pc nx s.r_pc); r_areg = (getv n_areg nx s.r_areg);
    r_breg = (getv n_breg nx s.r_breg); r_oreg = (getv n_oreg nx s.r_oreg);
    r_mem = (fold_left apply_write ws s.r_mem) }

(** val cycle_gen : design -> coq_Z -> (nat -> coq_Z) -> rstate -> rstate **)

let cycle_gen d rst xv s =
  let e = cycle_env d rst xv s in
  state_of s (map (evalp e) d.next) (map (evalw e) d.mem_writes)

(** val cycle : design -> rstate -> rstate **)

let cycle d s =
  cycle_gen d Z0 (fun _ -> Z0) s

(** val outs : design -> rstate -> (string * coq_Z) list **)

let outs d s =
  let e = cycle_env d Z0 (fun _ -> Z0) s in map (evalp e) d.outputs

(** val wire : design -> rstate -> string -> coq_Z **)

let wire d s n =
  (cycle_env d Z0 (fun _ -> Z0) s).var n
