(* Properties_C09.v -- xcmp accepts or cleanly rejects every input.
   PROVED (front end only): the model of xcmp.hpp's Lexer and Parser (XFront.v) is a total function of the source
   bytes: on every byte string it returns a syntax tree or a located diagnostic; no branch of the model is undefined
   behaviour and no loop or recursion exhausts the fuel the model gives it ("terminates, no hang" for lexing and
   parsing; recursion depth is bounded by 6 * (number of tokens + 2) + 6).  Proofs: XFrontProofs.v.
   ALSO PROVED (model XConstProp.v, tied by tools/c07.py to `xcmp --tree/--tree-opt`): CreateSymbols, ConstProp and
   OptimiseExpr never reach an undefined-behaviour outcome on ANY syntax tree and end in a tree or one of four diagnostics.
   NOT MODELLED, hence not proved here: CodeGen, LowerDirectives,
   OptimiseDirectives (tools/c09.py covers them by running the real code under ASan/UBSan/valgrind); the final
   assembly pass (hexasm::CodeGen) is covered by C10_total on the assembler model.  The full property is C09_full,
   stated for a model `compile` of the whole of Driver::run that does not exist yet. *)
From Coq Require Import ZArith List String Bool.
From HexVerif Require Import XAst XFront XFrontProofs.
From HexVerif Require XConstProp XConstPropTotal.
Import ListNotations.
Local Open Scope Z_scope.

(* the whole compiler as a function from source bytes to the bytes of the binary: total, free of undefined behaviour,
   and (by the type of Reject) nothing is emitted together with a diagnostic *)
Definition C09_full (compile : list Z -> outcome (list Z)) : Prop :=
  forall src, (exists bin, compile src = Ok bin) \/ (exists d, compile src = Reject d).

(* What this theorem is: a TOTALITY / FUEL theorem.  No function of XFront.v ever produces the `UB` constructor of
   `outcome` -- the UB verdict is unreachable in the model by construction -- so "no UB" here adds nothing beyond "the
   model has no UB branch"; the content is that lexing and parsing never run out of the fuel the model gives them and
   always end in a tree or a located diagnostic.
   TRUSTED BASE, not proved: the real lexer calls std::isspace / isalpha / isdigit / isalnum on a plain `char`
   (xcmp.hpp, Lexer::readChar users, ~lines 269, 322, 342, 346).  For source bytes 0x80..0xFE the argument is a negative
   int other than EOF, which is UNDEFINED in ISO C (7.4p1).  The model gives these calls glibc's behaviour (its ctype
   tables are indexed from -128; in the C locale such bytes are neither space, alpha nor digit), i.e. XFront.is_space /
   is_alpha / is_digit on the byte value.  On another C library the real lexer could misbehave on such bytes where the
   model says "diagnostic"; tools/c09.py ties the model to the real code only on the glibc of this machine. *)
Theorem C09_total_partial :
  forall src : list Z, (exists p, front src = Ok p) \/ (exists d, front src = Reject d).
Proof. exact front_total. Qed.
Print Assumptions C09_total_partial.

(* the same for the tree with locations that the correspondence check prints and compares with the real parser's *)
Theorem C09_located_total_partial :
  forall src : list Z, (exists p, front_located src = Ok p) \/ (exists d, front_located src = Reject d).
Proof. exact front_located_total. Qed.
Print Assumptions C09_located_total_partial.

(* a rejection of the abstract front end is the located diagnostic of the parser, unchanged *)
Theorem C09_reject_located_partial :
  forall src d, front src = Reject d <-> front_located src = Reject d.
Proof. exact front_reject. Qed.
Print Assumptions C09_reject_located_partial.

(* the passes after parsing that the model covers (symbol creation incl. the redefinition check, constant propagation
   with wrap-around folding and rejection of non-constant vals, expression rewriting): for EVERY syntax tree -- not
   only well-defined programs -- no undefined behaviour (no signed overflow, no read of an unset val) and a definite
   outcome: an annotated tree or a diagnostic.  Termination is by construction (structural recursion). *)
Theorem C09_constprop_no_ub_partial : forall p : program,
  match XConstProp.front p with XConstProp.CUB _ => False | _ => True end.
Proof. exact XConstPropTotal.constprop_no_ub. Qed.
Print Assumptions C09_constprop_no_ub_partial.

Theorem C09_constprop_outcome_partial : forall p : program,
  (exists q, XConstProp.front p = XConstProp.COk q) \/ (exists e, XConstProp.front p = XConstProp.CErr e).
Proof. exact XConstPropTotal.front_outcome. Qed.
Print Assumptions C09_constprop_outcome_partial.

(* non-vacuity: both outcomes occur, with the tree / the diagnostic the real parser gives *)
Example C09_accepts :
  front (bytes_of_string "val v = #10; proc main() is 0(v + 1)") =
  Ok {| globals := [DVal "v" (ENum 16)];
        procs := [{| is_func := false; pname := "main"; formals := []; locals := [];
                     body := SSys 0 [EBin Plus (EVar "v") (ENum 1)] |}] |}.
Proof. vm_compute. reflexivity. Qed.
Example C09_rejects :
  front (bytes_of_string "proc main() is x :- 1") = Reject {| d_line := 0; d_col := 19; d_msg := MExpectedEq |}.
Proof. vm_compute. reflexivity. Qed.
Example C09_rejects_parser :
  front (bytes_of_string "proc main() is if 1 then skip") =
  Reject {| d_line := 0; d_col := 31; d_msg := MExpectedToken TELSE TEOF |}.
Proof. vm_compute. reflexivity. Qed.
(* the parser's unconditional getNextToken() after the procedures: a trailing token is skipped unseen *)
Example C09_skips_one_token :
  exists p, front (bytes_of_string "proc main() is skip garbage") = Ok p.
Proof. eexists. vm_compute. reflexivity. Qed.
