(* Properties_C14.v -- tool exit status and output files reflect what happened.
   Model: CliModel.v (the four main() functions over an abstract file system; the tools' work is a parameter, so the
   theorems hold for ANY assembler/compiler/simulator behaviour -- in particular for the assembler model of AsmLayout.v). *)
From Coq Require Import ZArith List String.
From HexVerif Require Import CliModel CliProofs AsmModel AsmLayout.
Import ListNotations.
Local Open Scope string_scope.

(* hexasm's work according to the assembler model: accepted sources yield the file bytes *)
Definition asm_tool (src : bytes) : option bytes :=
  match AsmLayout.assemble src with AsmModel.Ok o => Some (ao_file o) | _ => None end.

(* hexasm: for every placement/spelling of -o (and the default a.out): status 0 and the binary in the named file
   exactly when the source is accepted; otherwise a diagnostic, status 1 and an untouched file system *)
Theorem C14_hexasm_status : forall f o fsys src argv,
  plain f -> (In argv (shapes f o) \/ (argv = [f] /\ o = "a.out")) -> fsys f = Some src ->
  match asm_tool src with
  | Some bin => hexasm_main asm_tool argv fsys = ok (fs_set fsys o bin)
  | None => hexasm_main asm_tool argv fsys = fail fsys
  end.
Proof. exact (hexasm_status asm_tool). Qed.
Print Assumptions C14_hexasm_status.

(* xcmp likewise, whatever the compiler accepts *)
Theorem C14_xcmp_status : forall compile f o fsys src argv,
  plain f -> (In argv (shapes f o) \/ (argv = [f] /\ o = "a.out")) -> fsys f = Some src ->
  match compile src with
  | Some bin => xcmp_main compile argv fsys = ok (fs_set fsys o bin)
  | None => xcmp_main compile argv fsys = fail fsys
  end.
Proof. exact xcmp_status. Qed.
Print Assumptions C14_xcmp_status.

(* hexsim's exit status is the program's exit value modulo 256 *)
Theorem C14_status_is_exit_value : forall simulate f fsys bin input v o,
  plain f -> fsys f = Some bin -> simulate bin input = Some (v, o) ->
  hexsim_main simulate [f] input fsys = {| status := Z.modulo v 256; diagnostic := false; files := fsys; out := o |}.
Proof. exact hexsim_status_is_exit_value. Qed.
Print Assumptions C14_status_is_exit_value.

(* xrun = xcmp followed by hexsim on the result *)
Theorem C14_xrun_is_compose : forall compile simulate f fsys src input,
  plain f -> fsys f = Some src -> f <> "a.bin" ->
  let c := xcmp_main compile [f; "-o"; "a.bin"] fsys in
  let r := xrun_main compile simulate [f] input fsys in
  match compile src with
  | None => status r = status c /\ diagnostic r = diagnostic c /\ status r <> 0%Z /\ files r = fsys
  | Some bin =>
      status c = 0%Z /\
      let h := hexsim_main simulate ["a.bin"] input (files c) in
      status r = status h /\ out r = out h /\ diagnostic r = diagnostic h
  end.
Proof. exact xrun_is_compose. Qed.
Print Assumptions C14_xrun_is_compose.

(* non-vacuity: a concrete accepted and a concrete rejected assembly source through the instantiated hexasm model *)
Example C14_nonvacuous :
  let fsys := fun n => if String.eqb n "p.S" then Some [76; 68; 65; 67; 32; 49; 10]%Z (* "LDAC 1\n" *)
                       else if String.eqb n "q.S" then Some [76; 68; 65; 67; 10]%Z (* "LDAC\n" *) else None in
  status (hexasm_main asm_tool ["-o"; "x.bin"; "p.S"] fsys) = 0%Z /\
  files (hexasm_main asm_tool ["-o"; "x.bin"; "p.S"] fsys) "x.bin" <> None /\
  status (hexasm_main asm_tool ["q.S"; "-o"; "x.bin"] fsys) = 1%Z /\
  files (hexasm_main asm_tool ["q.S"; "-o"; "x.bin"] fsys) "x.bin" = None.
Proof. vm_compute. repeat split; discriminate. Qed.
