(* Properties_C14.v -- tool exit status and output files reflect what happened.
   Model: CliModel.v (the four main() functions over an abstract file system; the tools' work is a parameter, so the
   theorems hold for ANY assembler/compiler/simulator behaviour -- in particular for the assembler model of AsmLayout.v). *)
From Coq Require Import ZArith List String.
From HexVerif Require Import CliModel CliProofs AsmModel AsmLayout.
Import ListNotations.
Local Open Scope string_scope.

(* hexasm's work according to the assembler model: accepted sources yield the file bytes *)
Definition asm_tool (src : bytes) : option bytes :=
  match AsmLayout.assemble src with AsmModel.Ok o => Some (ao_file o) | _ => None end.

(* hexasm: for every placement/spelling of -o (and the default a.out): status 0 and the binary in the named file
   exactly when the source is accepted; otherwise a diagnostic, status 1 and an untouched file system *)
Theorem C14_hexasm_status : forall writable f o fsys src argv,
  plain f -> (In argv (shapes f o) \/ (argv = [f] /\ o = "a.out")) -> fsys f = Some src -> writable o = true ->
  match asm_tool src with
  | Some bin => hexasm_main writable asm_tool argv fsys = ok (fs_set fsys o bin)
  | None => hexasm_main writable asm_tool argv fsys = fail fsys
  end.
Proof.
  intros writable f o fsys src argv Hp Ha Hs Hw.
  pose proof (hexasm_status writable asm_tool f o fsys src argv Hp Ha Hs) as H. rewrite Hw in H. exact H.
Qed.
Print Assumptions C14_hexasm_status.

(* xcmp likewise, whatever the compiler accepts *)
Theorem C14_xcmp_status : forall writable compile f o fsys src argv,
  plain f -> (In argv (shapes f o) \/ (argv = [f] /\ o = "a.out")) -> fsys f = Some src -> writable o = true ->
  match compile src with
  | Some bin => xcmp_main writable compile argv fsys = ok (fs_set fsys o bin)
  | None => xcmp_main writable compile argv fsys = fail fsys
  end.
Proof.
  intros writable compile f o fsys src argv Hp Ha Hs Hw.
  pose proof (xcmp_status writable compile f o fsys src argv Hp Ha Hs) as H. rewrite Hw in H. exact H.
Qed.
Print Assumptions C14_xcmp_status.

(* when the file named by -o cannot be written (missing directory, a directory, the empty name) both tools report it:
   diagnostic, status 1, file system untouched -- whether or not the source was acceptable (the repaired emitBin; the
   pinned one returned 0 without a binary) *)
Theorem C14_unwritable_output : forall writable compile f o fsys src argv,
  plain f -> (In argv (shapes f o) \/ (argv = [f] /\ o = "a.out")) -> fsys f = Some src -> writable o = false ->
  hexasm_main writable asm_tool argv fsys = fail fsys /\ xcmp_main writable compile argv fsys = fail fsys.
Proof.
  intros writable compile f o fsys src argv Hp Ha Hs Hw. split.
  - pose proof (hexasm_status writable asm_tool f o fsys src argv Hp Ha Hs) as H. rewrite Hw in H. destruct (asm_tool src); exact H.
  - pose proof (xcmp_status writable compile f o fsys src argv Hp Ha Hs) as H. rewrite Hw in H. destruct (compile src); exact H.
Qed.
Print Assumptions C14_unwritable_output.

(* hexsim's exit status is the program's exit value modulo 256 *)
Theorem C14_status_is_exit_value : forall (simulate : bytes -> bytes -> option (Z * bytes)) f fsys bin input v o,
  plain f -> fsys f = Some bin -> simulate bin input = Some (v, o) ->
  hexsim_main simulate [f] input fsys = {| status := Z.modulo v 256; diagnostic := false; files := fsys; out := o |}.
Proof. exact hexsim_status_is_exit_value. Qed.
Print Assumptions C14_status_is_exit_value.

(* xrun = xcmp followed by hexsim on the result *)
Theorem C14_xrun_is_compose : forall writable compile simulate f fsys src input,
  plain f -> fsys f = Some src -> f <> "a.bin" -> writable "a.bin" = true ->
  let c := xcmp_main writable compile [f; "-o"; "a.bin"] fsys in
  let r := xrun_main writable compile simulate [f] input fsys in
  match compile src with
  | None => status r = status c /\ diagnostic r = diagnostic c /\ status r <> 0%Z /\ files r = fsys
  | Some bin =>
      status c = 0%Z /\
      let h := hexsim_main simulate ["a.bin"] input (files c) in
      status r = status h /\ out r = out h /\ diagnostic r = diagnostic h
  end.
Proof. exact xrun_is_compose. Qed.
Print Assumptions C14_xrun_is_compose.

(* non-vacuity: a concrete accepted and a concrete rejected assembly source through the instantiated hexasm model *)
Example C14_nonvacuous :
  let fsys := fun n => if String.eqb n "p.S" then Some [76; 68; 65; 67; 32; 49; 10]%Z (* "LDAC 1\n" *)
                       else if String.eqb n "q.S" then Some [76; 68; 65; 67; 10]%Z (* "LDAC\n" *) else None in
  status (hexasm_main (fun _ => true) asm_tool ["-o"; "x.bin"; "p.S"] fsys) = 0%Z /\
  files (hexasm_main (fun _ => true) asm_tool ["-o"; "x.bin"; "p.S"] fsys) "x.bin" <> None /\
  status (hexasm_main (fun _ => true) asm_tool ["q.S"; "-o"; "x.bin"] fsys) = 1%Z /\
  files (hexasm_main (fun _ => true) asm_tool ["q.S"; "-o"; "x.bin"] fsys) "x.bin" = None.
Proof. vm_compute. repeat split; discriminate. Qed.

(* the --max-cycles operand as std::stoull reads it *)
Example C14_stoull_examples :
  map stoull_ok ["100"; "12abc"; " 7"; "-1"; "+5"; "0x10"; "18446744073709551615"] = [true; true; true; true; true; true; true] /\
  map stoull_ok ["abc"; ""; "- 5"; "99999999999999999999999"; "18446744073709551616"; "--3"; "x1"] = [false; false; false; false; false; false; false].
Proof. vm_compute. split; reflexivity. Qed.
