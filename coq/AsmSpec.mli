open AsmModel
open BinInt
open BinNums
open Datatypes
open Isa
open List
open String
open WMap

val bytes_map_go : coq_Z list -> coq_Z -> t -> t

val bytes_map : coq_Z list -> t

val prefix_oreg : coq_Z -> coq_Z -> coq_Z

val decode_go : nat -> t -> coq_Z -> coq_Z -> ((coq_Z * coq_Z) * coq_Z) option

val decode : t -> coq_Z -> ((coq_Z * coq_Z) * coq_Z) option

val word_at : t -> coq_Z -> coq_Z

val all_zero : t -> coq_Z -> nat -> bool

val up4 : coq_Z -> coq_Z

val run_then_data : directive list -> bool

type placed = { p_dir : directive; p_start : coq_Z; p_size : coq_Z;
                p_operand : coq_Z }

val walk : directive list -> t -> coq_Z -> (placed list * coq_Z) option

val label_pos : string -> placed list -> coq_Z option -> coq_Z option

val ref_ok : placed list -> placed -> bool

val check_image : directive list -> coq_Z list -> coq_Z -> bool

val expected_syms : placed list -> (string * coq_Z) list

val syms_eqb : (string * coq_Z) list -> (string * coq_Z) list -> bool

val check_symtab :
  directive list -> coq_Z list -> (string * coq_Z) list -> bool

type lline =
| LInstr of coq_Z * coq_Z * coq_Z * coq_Z
| LOpr of coq_Z * coq_Z * coq_Z
| LData of coq_Z * coq_Z * coq_Z
| LLabel of coq_Z * coq_Z
| LPadding of coq_Z

val check_lines : lline list -> t -> coq_Z -> coq_Z -> bool

val check_listing : lline list -> coq_Z list -> bool
