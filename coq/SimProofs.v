(* SimProofs.v -- hexsim's model refines the ISA (C02). *)
From Coq Require Import ZArith List String Lia Bool.
From HexVerif Require Import WMap Isa SimModel.
Import ListNotations.
Local Open Scope Z_scope.

Definition wf_mem (m : WMap.t) : Prop := forall a, 0 <= a -> 0 <= rd m a < W.
Definition wf (s : sim) : Prop :=
  0 <= s_pc s < W /\ 0 <= s_areg s < W /\ 0 <= s_breg s < W /\ 0 <= s_oreg s < W /\ wf_mem (s_mem s).

Lemma wf_mem_wr m a v : wf_mem m -> 0 <= a -> 0 <= v < W -> wf_mem (wr m a v).
Proof.
  intros Hm Ha Hv b Hb. destruct (Z.eq_dec a b) as [->|Hne].
  - rewrite rd_wr_same. exact Hv.
  - rewrite rd_wr_other by assumption. apply Hm. exact Hb.
Qed.

(* ---- bit-level facts: the C++ shift/mask expressions are the ISA's div/mod ---- *)
Lemma land_15 i : Z.land i 15 = i mod 16.
Proof. change 15 with (Z.ones 4). rewrite Z.land_ones by lia. reflexivity. Qed.
Lemma land_255 i : Z.land i 255 = i mod 256.
Proof. change 255 with (Z.ones 8). rewrite Z.land_ones by lia. reflexivity. Qed.
Lemma land_3 i : Z.land i 3 = i mod 4.
Proof. change 3 with (Z.ones 2). rewrite Z.land_ones by lia. reflexivity. Qed.
Lemma land_7 i : Z.land i 7 = i mod 8.
Proof. change 7 with (Z.ones 3). rewrite Z.land_ones by lia. reflexivity. Qed.
Lemma shiftr_2 i : Z.shiftr i 2 = i / 4.
Proof. rewrite Z.shiftr_div_pow2 by lia. reflexivity. Qed.
Lemma shiftr_4 i : Z.shiftr i 4 = i / 16.
Proof. rewrite Z.shiftr_div_pow2 by lia. reflexivity. Qed.
Lemma shiftr_8 i : Z.shiftr i 8 = i / 256.
Proof. rewrite Z.shiftr_div_pow2 by lia. reflexivity. Qed.
Lemma shiftl_4 i : Z.shiftl i 4 = i * 16.
Proof. rewrite Z.shiftl_mul_pow2 by lia. reflexivity. Qed.

Lemma fetch_eq s : sim_fetch s = fetch (arch_of s).
Proof.
  unfold sim_fetch, fetch, arch_of. cbn [pc mem].
  rewrite land_255, shiftr_2, land_3.
  rewrite Z.shiftl_mul_pow2 by lia. change (2 ^ 3) with 8.
  rewrite Z.shiftr_div_pow2 by (pose proof (Z.mod_pos_bound (s_pc s) 4); lia).
  rewrite (Z.mul_comm (s_pc s mod 4) 8). reflexivity.
Qed.

Lemma fetch_range a : 0 <= fetch a < 256.
Proof. unfold fetch. apply Z.mod_pos_bound. lia. Qed.

Lemma opc_eq i : 0 <= i < 256 -> Z.land (Z.shiftr i 4) 15 = i / 16.
Proof. intros H. rewrite land_15, shiftr_4. apply Z.mod_small.
  split; [apply Z.div_pos; lia | apply Z.div_lt_upper_bound; lia]. Qed.

Lemma to_int_neg a : 0 <= a < W -> (to_int a <? 0) = negative a.
Proof. unfold to_int, negative, W. intros H. destruct (2147483648 <=? a) eqn:E.
  - apply Z.ltb_lt. lia.
  - apply Z.ltb_ge. apply Z.leb_gt in E. lia. Qed.

Lemma to_int_signed a : to_int a = signed a.
Proof. reflexivity. Qed.

Lemma io_input_eq inp st : 0 <= st < W -> io_input inp st = simin inp st.
Proof.
  intros H. unfold io_input, simin, io_is_console, is_console. rewrite to_int_signed.
  destruct (signed st <? 256) eqn:E; [reflexivity|].
  apply Z.ltb_ge in E.
  assert (Hs: signed st = st).
  { unfold signed, negative in *. destruct (2147483648 <=? st) eqn:E2; [|reflexivity]. unfold W in *. apply Z.leb_le in E2. lia. }
  unfold io_index, file_index. rewrite to_int_signed, Hs, land_7, shiftr_8. reflexivity.
Qed.

Lemma idx_ok_in_mem i : idx_ok i = in_mem i.
Proof. reflexivity. Qed.

Lemma lor_range a b : 0 <= a < W -> 0 <= b < W -> 0 <= Z.lor a b < W.
Proof.
  intros Ha Hb. split; [apply Z.lor_nonneg; lia|].
  destruct (Z.eq_dec (Z.lor a b) 0) as [->|Hn]; [unfold W; lia|].
  assert (Hp: 0 < Z.lor a b) by (pose proof (proj2 (Z.lor_nonneg a b) (conj (proj1 Ha) (proj1 Hb))); lia).
  apply Z.log2_lt_cancel. rewrite Z.log2_lor by lia.
  change (Z.log2 W) with 32.
  assert (forall x, 0 <= x < W -> Z.log2 x < 32).
  { intros x Hx. destruct (Z.eq_dec x 0) as [->|]; [reflexivity|]. apply Z.log2_lt_pow2; [lia|exact (proj2 Hx)]. }
  pose proof (H a Ha). pose proof (H b Hb). lia.
Qed.

Lemma u32_range x : 0 <= u32 x < W.
Proof. unfold u32, W. apply Z.mod_pos_bound. lia. Qed.
Lemma wrap_range x : 0 <= wrap x < W.
Proof. unfold wrap, W. apply Z.mod_pos_bound. lia. Qed.
Lemma u32_wrap x : u32 x = wrap x. Proof. reflexivity. Qed.

Lemma mod16_range i : 0 <= i mod 16 < W.
Proof. pose proof (Z.mod_pos_bound i 16). unfold W. lia. Qed.

Ltac inv H := inversion H; subst; clear H.
Ltac conj_split := repeat match goal with |- _ /\ _ => split end.
Ltac fin := conj_split; try reflexivity; unfold wf; cbn; conj_split; try reflexivity; try lia; try assumption.

(* the effect of one simulator step on the bookkeeping that is not architectural state *)
Definition bookkeeping (s s' : sim) (ev : event) : Prop :=
  s_cycles s' = s_cycles s + 1 /\
  match ev with
  | Exit c => s_running s' = false /\ s_exit s' = to_int c
  | _ => s_running s' = s_running s /\ s_exit s' = s_exit s
  end.

Theorem step_refines_isa s inp a' inp' ev :
  wf s -> Isa.step (arch_of s) inp = Ok (a', inp', ev) ->
  exists s', SimModel.step s inp = SOk (s', inp', ev) /\ arch_of s' = a' /\ wf s' /\ bookkeeping s s' ev.
Proof.
  intros (Hpc & Ha & Hb & Ho & Hm) Hstep.
  unfold Isa.step in Hstep. unfold SimModel.step.
  rewrite fetch_eq, idx_ok_in_mem, shiftr_2.
  cbn [arch_of pc areg breg oreg mem] in Hstep.
  destruct (negb (in_mem (s_pc s / 4))) eqn:Epc; [discriminate|].
  change (Isa.fetch (arch_of s)) with (fetch (arch_of s)).
  change (fetch {| pc := s_pc s; areg := s_areg s; breg := s_breg s; oreg := s_oreg s; mem := s_mem s |})
    with (fetch (arch_of s)) in Hstep.
  pose proof (fetch_range (arch_of s)) as Hf.
  set (inst := fetch (arch_of s)) in *. clearbody inst.
  rewrite (opc_eq inst Hf), land_15.
  assert (Hor: 0 <= Z.lor (s_oreg s) (inst mod 16) < W) by (apply lor_range; [assumption|apply mod16_range]).
  set (o := Z.lor (s_oreg s) (inst mod 16)) in *. clearbody o.
  rewrite !u32_wrap, shiftl_4.
  pose proof (wrap_range (s_pc s + 1)) as Hpc1.
  set (pc1 := wrap (s_pc s + 1)) in *. clearbody pc1.
  assert (Hopc: 0 <= inst / 16 < 16) by (split; [apply Z.div_pos; lia | apply Z.div_lt_upper_bound; lia]).
  set (opc := inst / 16) in *. clearbody opc.
  unfold bookkeeping.
  assert (Hcases: opc = 0 \/ opc = 1 \/ opc = 2 \/ opc = 3 \/ opc = 4 \/ opc = 5 \/ opc = 6 \/ opc = 7 \/ opc = 8 \/
                  opc = 9 \/ opc = 10 \/ opc = 11 \/ opc = 12 \/ opc = 13 \/ opc = 14 \/ opc = 15) by lia.
  repeat (destruct Hcases as [->|Hcases]); [.. | subst opc];
    cbv beta iota zeta in Hstep |- *; change idx_ok with in_mem in *; change u32 with wrap in *.
  (* LDAM *)
  - destruct (in_mem o) eqn:E; [|discriminate]. inv Hstep. eexists. split; [reflexivity|].
    unfold in_mem in E. apply andb_prop in E. destruct E as [E1 E2]. apply Z.leb_le in E1.
    pose proof (Hm o E1). fin.
  (* LDBM *)
  - destruct (in_mem o) eqn:E; [|discriminate]. inv Hstep. eexists. split; [reflexivity|].
    unfold in_mem in E. apply andb_prop in E. destruct E as [E1 E2]. apply Z.leb_le in E1.
    pose proof (Hm o E1). fin.
  (* STAM *)
  - destruct (in_mem o) eqn:E; [|discriminate]. inv Hstep. eexists. split; [reflexivity|].
    unfold in_mem in E. apply andb_prop in E. destruct E as [E1 E2]. apply Z.leb_le in E1.
    fin. apply wf_mem_wr; assumption.
  (* LDAC *)
  - inv Hstep. eexists. split; [reflexivity|]. fin.
  (* LDBC *)
  - inv Hstep. eexists. split; [reflexivity|]. fin.
  (* LDAP *)
  - inv Hstep. eexists. split; [reflexivity|]. pose proof (wrap_range (pc1 + o)).
    fin.
  (* LDAI *)
  - destruct (in_mem (wrap (s_areg s + o))) eqn:E; [|discriminate]. inv Hstep. eexists. split; [reflexivity|].
    unfold in_mem in E. apply andb_prop in E. destruct E as [E1 E2]. apply Z.leb_le in E1.
    pose proof (Hm _ E1). fin.
  (* LDBI *)
  - destruct (in_mem (wrap (s_breg s + o))) eqn:E; [|discriminate]. inv Hstep. eexists. split; [reflexivity|].
    unfold in_mem in E. apply andb_prop in E. destruct E as [E1 E2]. apply Z.leb_le in E1.
    pose proof (Hm _ E1). fin.
  (* STAI *)
  - destruct (in_mem (wrap (s_breg s + o))) eqn:E; [|discriminate]. inv Hstep. eexists. split; [reflexivity|].
    unfold in_mem in E. apply andb_prop in E. destruct E as [E1 E2]. apply Z.leb_le in E1.
    fin. apply wf_mem_wr; assumption.
  (* BR *)
  - inv Hstep. eexists. split; [reflexivity|]. pose proof (wrap_range (pc1 + o)).
    fin.
  (* BRZ *)
  - inv Hstep. eexists. split; [reflexivity|]. pose proof (wrap_range (pc1 + o)).
    fin; destruct (s_areg s =? 0); lia.
  (* BRN *)
  - inv Hstep. rewrite (to_int_neg _ Ha). eexists. split; [reflexivity|]. pose proof (wrap_range (pc1 + o)).
    fin; destruct (negative (s_areg s)); lia.
  (* 0xC *)
  - discriminate.
  (* OPR *)
  - destruct o as [|p|p]; [| |discriminate].
    + (* BRB *) inv Hstep. eexists. split; [reflexivity|]. fin.
    + destruct p as [p|p|]; [destruct p as [p|p|]| destruct p as [p|p|] |]; try discriminate.
      * (* SVC: o = 3 *)
        destruct (in_mem 1) eqn:E1; [|discriminate].
        assert (Hsp: 0 <= rd (s_mem s) 1 < W) by (apply Hm; lia).
        set (sp := rd (s_mem s) 1) in *. clearbody sp.
        destruct (s_areg s) as [|q|q] eqn:Ea; [| |discriminate].
        -- (* exit *)
           destruct (in_mem (wrap (sp + 2))) eqn:E; [|discriminate]. inv Hstep. eexists. split; [reflexivity|].
           fin.
        -- destruct q as [q|q|]; [discriminate| |].
           ++ destruct q; try discriminate.
              (* read: areg = 2 *)
              destruct (in_mem (wrap (sp + 2))) eqn:E; [|discriminate].
              assert (Hst: 0 <= rd (s_mem s) (wrap (sp + 2)) < W) by (apply Hm; apply wrap_range).
              rewrite (io_input_eq inp _ Hst).
              destruct (simin inp (rd (s_mem s) (wrap (sp + 2)))) as [b inp2] eqn:Es.
              destruct (in_mem (wrap (sp + 1))) eqn:E3; [|discriminate]. inv Hstep.
              rewrite land_255. eexists. split; [reflexivity|].
              fin.
              apply wf_mem_wr; [assumption|apply wrap_range|].
              pose proof (Z.mod_pos_bound b 256). unfold W. lia.
           ++ (* write: areg = 1 *)
              destruct (in_mem (wrap (sp + 2))) eqn:E; [|discriminate].
              destruct (in_mem (wrap (sp + 3))) eqn:E3; [|discriminate]. inv Hstep.
              rewrite land_255. eexists. split; [reflexivity|].
              fin.
      * (* SUB: o = 2 *) inv Hstep. eexists. split; [reflexivity|]. pose proof (wrap_range (s_areg s - s_breg s)).
        fin.
      * (* ADD: o = 1 *) inv Hstep. eexists. split; [reflexivity|]. pose proof (wrap_range (s_areg s + s_breg s)).
        fin.
  (* PFIX *)
  - inv Hstep. rewrite Z.mul_comm. rewrite (Z.mul_comm 16 o). eexists. split; [reflexivity|].
    pose proof (wrap_range (o * 16)). fin.
  (* NFIX *)
  - assert (HK: 0 <= Z.lor 4294967040 (wrap (o * 16)) < W) by (apply lor_range; [unfold W; lia | apply wrap_range]).
    set (K := Z.lor 4294967040 (wrap (o * 16))) in *. clearbody K.
    injection Hstep as <- <- <-. eexists. split; [reflexivity|]. fin.
Qed.

(* ---- bytes the ISA leaves undefined are reported by an exception, never executed ---- *)
Definition illegal (u : undefined) : Prop :=
  match u with BadOpcode _ | BadOpr _ | BadSvc _ => True | BadAddress _ => False end.

Theorem undefined_is_reported s inp u :
  wf s -> Isa.step (arch_of s) inp = Undefined u -> illegal u -> exists m, SimModel.step s inp = SThrow m.
Proof.
  intros (Hpc & Ha & Hb & Ho & Hm) Hstep Hill.
  unfold Isa.step in Hstep. unfold SimModel.step.
  rewrite fetch_eq, idx_ok_in_mem, shiftr_2.
  cbn [arch_of pc areg breg oreg mem] in Hstep.
  destruct (negb (in_mem (s_pc s / 4))) eqn:Epc; [inv Hstep; destruct Hill|].
  change (fetch {| pc := s_pc s; areg := s_areg s; breg := s_breg s; oreg := s_oreg s; mem := s_mem s |})
    with (fetch (arch_of s)) in Hstep.
  pose proof (fetch_range (arch_of s)) as Hf.
  set (inst := fetch (arch_of s)) in *. clearbody inst.
  rewrite (opc_eq inst Hf), land_15.
  assert (Hor: 0 <= Z.lor (s_oreg s) (inst mod 16) < W) by (apply lor_range; [assumption|apply mod16_range]).
  set (o := Z.lor (s_oreg s) (inst mod 16)) in *. clearbody o.
  set (pc1 := wrap (s_pc s + 1)) in *. clearbody pc1.
  assert (Hopc: 0 <= inst / 16 < 16) by (split; [apply Z.div_pos; lia | apply Z.div_lt_upper_bound; lia]).
  set (opc := inst / 16) in *. clearbody opc.
  assert (Hcases: opc = 0 \/ opc = 1 \/ opc = 2 \/ opc = 3 \/ opc = 4 \/ opc = 5 \/ opc = 6 \/ opc = 7 \/ opc = 8 \/
                  opc = 9 \/ opc = 10 \/ opc = 11 \/ opc = 12 \/ opc = 13 \/ opc = 14 \/ opc = 15) by lia.
  repeat (destruct Hcases as [->|Hcases]); [.. | subst opc];
    cbv beta iota zeta in Hstep |- *; change idx_ok with in_mem in *; change u32 with wrap in *;
    repeat match type of Hstep with
    | (if ?c then _ else _) = _ => destruct c eqn:?; [|inv Hstep; destruct Hill]
    end; try discriminate.
  - eexists; reflexivity.
  - destruct o as [|p|p]; [discriminate| |eexists; reflexivity].
    destruct p as [p|p|]; [destruct p as [p|p|]| destruct p as [p|p|] |]; try discriminate; try (eexists; reflexivity).
    destruct (in_mem 1) eqn:E1; [|inv Hstep; destruct Hill].
    destruct (s_areg s) as [|q|q] eqn:Ea.
    + destruct (in_mem (wrap (rd (s_mem s) 1 + 2))); [discriminate|inv Hstep; destruct Hill].
    + destruct q as [q|q|].
      * eexists; reflexivity.
      * destruct q; try (eexists; reflexivity).
        destruct (in_mem (wrap (rd (s_mem s) 1 + 2))); [|inv Hstep; destruct Hill].
        destruct (simin inp (rd (s_mem s) (wrap (rd (s_mem s) 1 + 2)))).
        destruct (in_mem (wrap (rd (s_mem s) 1 + 1))); [discriminate|inv Hstep; destruct Hill].
      * destruct (in_mem (wrap (rd (s_mem s) 1 + 2))); [|inv Hstep; destruct Hill].
        destruct (in_mem (wrap (rd (s_mem s) 1 + 3))); [discriminate|inv Hstep; destruct Hill].
    + eexists; reflexivity.
Qed.

(* ---- whole runs: by induction on the number of instructions ---- *)
Definition run_matches (r : list event * inputs * arch * stop) (q : list event * inputs * sim * run_end) : Prop :=
  let '(tr, inp', a', st) := r in
  let '(tr2, inp2, s2, e2) := q in
  match st with
  | Exited c => tr2 = tr /\ inp2 = inp' /\ arch_of s2 = a' /\ e2 = Returned (to_int c)
  | Cut => tr2 = tr /\ inp2 = inp' /\ arch_of s2 = a' /\ e2 = NoFuel
  | Stuck (BadAddress _) => True            (* outside C02's quantifier: address not in the simulated memory *)
  | Stuck (BadOpcode _) | Stuck (BadOpr _) | Stuck (BadSvc _) => tr2 = tr /\ inp2 = inp' /\ arch_of s2 = a' /\ exists m, e2 = Threw m
  end.

Theorem run_is_isa_trace n : forall s inp evs, wf s -> s_running s = true ->
  run_matches (Isa.run n (arch_of s) inp evs) (SimModel.run n 0 s inp evs).
Proof.
  induction n as [|n IH]; intros s inp evs Hwf Hrun.
  - cbn [Isa.run SimModel.run]. unfold guard. rewrite Hrun. cbn. auto.
  - cbn [Isa.run SimModel.run]. unfold guard at 1. rewrite Hrun. cbn [andb negb Z.ltb Z.compare].
    destruct (Isa.step (arch_of s) inp) as [[[a' inp'] ev]|u] eqn:Es.
    + destruct (step_refines_isa s inp a' inp' ev Hwf Es) as (s' & Hs & Ha & Hwf' & Hcyc & Hbk).
      rewrite Hs. destruct ev as [|c|b st|st g].
      * destruct Hbk as [Hr He]. rewrite <- Ha. apply IH; [assumption|congruence].
      * destruct Hbk as [Hr He].
        destruct n; cbn [SimModel.run]; unfold guard; rewrite Hr; cbn [andb negb]; cbn; rewrite He; auto.
      * destruct Hbk as [Hr He]. rewrite <- Ha. apply IH; [assumption|congruence].
      * destruct Hbk as [Hr He]. rewrite <- Ha. apply IH; [assumption|congruence].
    + destruct u as [b|o|a|a].
      * destruct (undefined_is_reported s inp _ Hwf Es I) as [m Hm]; rewrite Hm; cbn; eauto.
      * destruct (undefined_is_reported s inp _ Hwf Es I) as [m Hm]; rewrite Hm; cbn; eauto.
      * destruct (undefined_is_reported s inp _ Hwf Es I) as [m Hm]; rewrite Hm; cbn; eauto.
      * unfold run_matches. destruct (match SimModel.step s inp with SOk _ => _ | SThrow _ => _ | SUB _ => _ end) as [[[? ?] ?] ?]. exact I.
Qed.
