(* RtlCopies.v -- C03 for all three shipped processors.
   C03's cycle theorem (RtlC03 / RtlRun) is about the `hex` top, i.e. verilog/processor.sv wired to memory.sv.  The two
   plain-Verilog copies verilog/processor.v and synth/processor.v have no top of their own; C16 (RtlC16) proves them equal
   to processor.sv at the ports of the processor: same sensitivity lists, same outputs and same next-state functions for
   every instruction byte, data input, reset level and register value.  Here that equivalence is composed with the
   reference datapath RefRtl at the processor boundary:
     [pspec k]    RefRtl.spec k renamed to the ports of the processor (i_f_data, i_d_data, pc_q, ...);
     [sv_check]   the design generated from processor.sv IS pspec, byte by byte (reflection, re-checked on every run);
     [at_ref]     hence every design that C16 proves equal to processor.sv has, in every well-formed state, for every
                  instruction byte and read data, exactly the reference request (o_f_addr, the o_d_ and o_syscall ports) and the
                  reference's next pc/areg/breg/oreg;
     [pcycle d]   the processor d wired to the memory as hex.sv/memory.sv do (fetch the byte at o_f_addr, read the word
                  at o_d_addr, store o_d_data at o_d_addr when o_d_valid and o_d_we);
     [pcycle_is_ref], [copies_refine_isa]   one clock of that = RefRtl.ref_cycle = the ISA successor under Inv and in_range,
                  exactly as for the hex top. *)
From Coq Require Import ZArith Lia Bool List String.
From HexVerif Require Import WMap Isa Vexp RtlEquiv RtlSem RefRtl RtlIsa RtlC16.
From HexVerif.gen Require RtlSv RtlV RtlVSynth.
Import ListNotations.
Local Open Scope string_scope.
Local Open Scope Z_scope.

(* ------------------------------------------------------------------ RefRtl's expressions at the ports of the processor *)
Definition pname (v : string) : string :=
  if String.eqb v n_pc then "pc_q" else if String.eqb v n_areg then "areg_q" else if String.eqb v n_breg then "breg_q"
  else if String.eqb v n_oreg then "oreg_q" else if String.eqb v n_ddata then "i_d_data"
  else if String.eqb v n_fdata then "i_f_data" else v.
Fixpoint rn (x : vexp) : vexp :=
  match x with
  | C n => C n | V v w => V (pname v) w | X k => X k
  | Trunc w a => Trunc w (rn a)
  | Add w a b => Add w (rn a) (rn b) | Sub w a b => Sub w (rn a) (rn b) | Mul w a b => Mul w (rn a) (rn b)
  | Sel l w a => Sel l w (rn a)
  | Shl w a b => Shl w (rn a) (rn b) | Shr w a b => Shr w (rn a) (rn b)
  | Or a b => Or (rn a) (rn b) | And a b => And (rn a) (rn b) | Xor a b => Xor (rn a) (rn b) | Not w a => Not w (rn a)
  | Eq a b => Eq (rn a) (rn b) | Ltu a b => Ltu (rn a) (rn b) | Gts w a b => Gts w (rn a) (rn b)
  | Cond c a b => Cond (rn c) (rn a) (rn b)
  | ArrSel m w a => ArrSel m w (rn a)
  end.
Definition lift (e : env) : env := {| var := fun v => var e (pname v); xs := xs e; arr := arr e |}.
Lemma eval_rn e x : eval e (rn x) = eval (lift e) x.
Proof. induction x; cbn [rn eval]; rewrite ?IHx, ?IHx1, ?IHx2, ?IHx3; reflexivity. Qed.

Definition dvalid (op : Z) : Z := if (op <=? 2) || (op =? 6) || (op =? 7) || (op =? 8) then 1 else 0.
Definition regs_clk : list string := ["posedge i_clk"; "posedge i_rst"].
Definition pspec (k : Z) : design :=
  let op := k / 16 in let n := k mod 16 in
  {| outputs := [("o_d_addr", rn (spec_daddr op n)); ("o_d_data", rn xA); ("o_d_valid", C (dvalid op)); ("o_d_we", C (spec_we op));
                 ("o_f_addr", rn xPC); ("o_f_valid", C 1); ("o_syscall", rn (Sel 0 2 xA)); ("o_syscall_valid", C (if k =? 211 then 1 else 0))];
     next := [("areg_q", rn (spec_areg op n)); ("breg_q", rn (spec_breg op n)); ("oreg_q", rn (spec_oreg op n)); ("pc_q", rn (spec_pc op n))];
     wires := []; mem_writes := [];
     clocking := [("areg_q", regs_clk); ("breg_q", regs_clk); ("oreg_q", regs_clk); ("pc_q", regs_clk)];
     nx := 0 |}.
Definition proc_check (d : design) : bool := forallb (fun k => design_eqb (sub2 "i_f_data" "i_rst" k 0) d (pspec k)) bytes256.
Definition proc_failures (d : design) : list Z := filter (fun k => negb (design_eqb (sub2 "i_f_data" "i_rst" k 0) d (pspec k))) bytes256.
Definition zero_regs : list (string * vexp) := [("areg_q", C 0); ("breg_q", C 0); ("oreg_q", C 0); ("pc_q", C 0)].
Definition proc_reset_check (d : design) : bool := forallb (fun k => pairs_ok (sub2 "i_f_data" "i_rst" k 1) (next d) zero_regs) bytes256.

(* the design generated from processor.sv, on this run *)
Lemma sv_check : proc_check RtlSv.design = true.
Proof. vm_compute. reflexivity. Qed.
Lemma sv_reset_check : proc_reset_check RtlSv.design = true.
Proof. vm_compute. reflexivity. Qed.

(* ------------------------------------------------------------------ what C16 provides, as a predicate on designs *)
Definition equals_sv (d : design) : Prop :=
  clocking d = clocking RtlSv.design /\
  forall e, 0 <= var e "i_f_data" < 256 -> (var e "i_rst" = 0 \/ var e "i_rst" = 1) -> same_at e d RtlSv.design.
Lemma sv_equals_sv : equals_sv RtlSv.design.
Proof. split; [reflexivity|]. intros e _ _. repeat split. Qed.
Lemma v_equals_sv : equals_sv RtlV.design.
Proof. split; [exact v_clocking_sv | exact v_equiv_sv]. Qed.
Lemma vsynth_equals_sv : equals_sv RtlVSynth.design.
Proof.
  split; [rewrite vsynth_clocking_v; exact v_clocking_sv|]. intros e Hk Hr.
  destruct (vsynth_equiv_v e Hk Hr) as (A1 & A2 & A3 & A4). destruct (v_equiv_sv e Hk Hr) as (B1 & B2 & B3 & B4).
  repeat split; congruence.
Qed.

(* ------------------------------------------------------------------ a processor-level environment presenting state s, the
   fetched byte k and the read data dd, reset low *)
Definition penv (s : rstate) (k dd : Z) : env :=
  {| var := fun v => if String.eqb v "pc_q" then r_pc s else if String.eqb v "areg_q" then r_areg s
                     else if String.eqb v "breg_q" then r_breg s else if String.eqb v "oreg_q" then r_oreg s
                     else if String.eqb v "i_f_data" then k else if String.eqb v "i_d_data" then dd else 0;
     xs := fun _ => 0;
     arr := fun m a => if String.eqb m n_mem then rd (r_mem s) a else 0 |}.
Lemma penv_ok s k dd : env_ok (lift (penv s k dd)) s dd.
Proof. constructor; reflexivity. Qed.

Definition ref_outputs (s : rstate) (k : Z) : list (string * Z) :=
  let op := k / 16 in let n := k mod 16 in
  [("o_d_addr", r_daddr s op n); ("o_d_data", r_areg s); ("o_d_valid", dvalid op); ("o_d_we", spec_we op);
   ("o_f_addr", r_pc s); ("o_f_valid", 1); ("o_syscall", ref_syscall s); ("o_syscall_valid", if k =? 211 then 1 else 0)].
Definition ref_next (s : rstate) (k dd : Z) : list (string * Z) :=
  let op := k / 16 in let n := k mod 16 in
  [("areg_q", ref_areg s op n dd); ("breg_q", ref_breg s op n dd); ("oreg_q", ref_oreg s op n); ("pc_q", ref_pc s op n)].

Section Copy.
  Variable d : design.
  Hypothesis EQ : equals_sv d.

  Theorem at_ref s k dd : wf s -> 0 <= k < 256 -> 0 <= dd < M32 ->
    map (evalp (penv s k dd)) (outputs d) = ref_outputs s k /\ map (evalp (penv s k dd)) (next d) = ref_next s k dd.
  Proof.
    intros W Hk Hdd. set (e := penv s k dd).
    assert (Ek : var e "i_f_data" = k) by reflexivity. assert (Er : var e "i_rst" = 0) by reflexivity.
    destruct EQ as [_ Q]. destruct (Q e ltac:(rewrite Ek; exact Hk) (or_introl Er)) as (O1 & N1 & _ & _).
    pose proof sv_check as K. unfold proc_check in K. rewrite forallb_forall in K. specialize (K _ (in_bytes256 _ Hk)).
    destruct (design_eqb_sound e _ _ _ (sub2_agrees e "i_f_data" "i_rst" k 0 Ek Er) K) as (O2 & N2 & _ & _).
    rewrite O1, O2, N1, N2. pose proof (penv_ok s k dd) as OK. fold e in OK.
    unfold pspec, ref_outputs, ref_next. cbn [outputs next map]. unfold evalp. cbn [fst snd].
    rewrite !eval_rn.
    rewrite (ev_spec_daddr _ s dd W OK), (ev_A _ s dd W OK), (ev_PC _ s dd W OK), (ev_spec_areg _ s dd W OK _ _ Hdd),
      (ev_spec_breg _ s dd W OK _ _ Hdd), (ev_spec_oreg _ s dd W OK), (ev_spec_pc _ s dd W OK).
    split; [|reflexivity]. cbn [eval]. fold xA. rewrite (ev_A _ s dd W OK).
    change (2 ^ 0) with 1. change (2 ^ 2) with 4. rewrite Z.div_1_r. reflexivity.
  Qed.

  (* a clock edge with reset asserted clears the registers, whatever the state, the instruction byte and the data input *)
  Theorem copy_reset_clears e : 0 <= var e "i_f_data" < 256 -> var e "i_rst" = 1 ->
    map (evalp e) (next d) = [("areg_q", 0); ("breg_q", 0); ("oreg_q", 0); ("pc_q", 0)].
  Proof.
    intros Hk Hr. destruct EQ as [_ Q]. destruct (Q e Hk (or_intror Hr)) as (_ & N1 & _ & _). rewrite N1.
    pose proof sv_reset_check as K. unfold proc_reset_check in K. rewrite forallb_forall in K. specialize (K _ (in_bytes256 _ Hk)).
    rewrite (pairs_ok_sound e _ (sub2_agrees e "i_f_data" "i_rst" _ 1 eq_refl Hr) _ _ K). reflexivity.
  Qed.

  Theorem copy_clocking : clocking d = [("areg_q", regs_clk); ("breg_q", regs_clk); ("oreg_q", regs_clk); ("pc_q", regs_clk)].
  Proof.
    destruct EQ as [-> _]. pose proof sv_check as K. unfold proc_check in K. rewrite forallb_forall in K.
    specialize (K 0 (in_bytes256 0 ltac:(lia))). exact (design_eqb_clocking _ _ _ K).
  Qed.
End Copy.

(* ------------------------------------------------------------------ the processor wired to the memory as in hex.sv *)
Definition byte_at (m : WMap.t) (a : Z) : Z := (rd m (a / 4) / 2 ^ (8 * (a mod 4))) mod 256.
Definition pcycle (d : design) (s : rstate) : rstate :=
  let faddr := getv "o_f_addr" (map (evalp (penv s 0 0)) (outputs d)) 0 in
  let k := byte_at (r_mem s) faddr in                                   (* memory.sv: o_f_data *)
  let daddr := getv "o_d_addr" (map (evalp (penv s k 0)) (outputs d)) 0 in
  let dd := rd (r_mem s) daddr in                                       (* memory.sv: o_d_data *)
  let e := penv s k dd in
  let o := map (evalp e) (outputs d) in
  let nx := map (evalp e) (next d) in
  {| r_pc := getv "pc_q" nx (r_pc s); r_areg := getv "areg_q" nx (r_areg s); r_breg := getv "breg_q" nx (r_breg s);
     r_oreg := getv "oreg_q" nx (r_oreg s);
     r_mem := if (getv "o_d_valid" o 0 =? 0) || (getv "o_d_we" o 0 =? 0) then r_mem s      (* memory.sv: the clocked write, reset low *)
              else wr (r_mem s) (getv "o_d_addr" o 0) (getv "o_d_data" o 0) |}.

Lemma we_valid op : spec_we op = 1 -> dvalid op = 1.
Proof.
  unfold spec_we, dvalid. destruct (op =? 2) eqn:E2; [apply Z.eqb_eq in E2; subst; reflexivity|].
  destruct (op =? 8) eqn:E8; [apply Z.eqb_eq in E8; subst; reflexivity|]. cbn. discriminate.
Qed.
Lemma we_01 op : spec_we op = 0 \/ spec_we op = 1.
Proof. unfold spec_we. destruct ((op =? 2) || (op =? 8)); auto. Qed.

Section CopyCycle.
  Variable d : design.
  Hypothesis EQ : equals_sv d.

  Theorem pcycle_is_ref s : wf s -> pcycle d s = ref_cycle s.
  Proof.
    intros W. unfold pcycle.
    assert (Z0 : 0 <= 0 < M32) by (unfold M32; lia).
    destruct (at_ref d EQ s 0 0 W ltac:(lia) Z0) as [O0 _]. rewrite O0.
    change (getv "o_f_addr" (ref_outputs s 0) 0) with (r_pc s).
    change (byte_at (r_mem s) (r_pc s)) with (r_fetch s).
    assert (Hk : 0 <= r_fetch s < 256) by (unfold r_fetch; apply Z.mod_pos_bound; lia).
    destruct (at_ref d EQ s (r_fetch s) 0 W Hk Z0) as [O1 _]. rewrite O1.
    change (getv "o_d_addr" (ref_outputs s (r_fetch s)) 0) with (r_daddr s (r_fetch s / 16) (r_fetch s mod 16)).
    set (op := r_fetch s / 16). set (n := r_fetch s mod 16). set (dd := rd (r_mem s) (r_daddr s op n)).
    assert (Hdd : 0 <= dd < M32) by (destruct W as (_ & _ & _ & _ & Hm); apply Hm; apply r_daddr_nonneg).
    destruct (at_ref d EQ s (r_fetch s) dd W Hk Hdd) as [O2 N2]. rewrite O2, N2.
    unfold ref_cycle. fold op n dd.
    change (getv "pc_q" (ref_next s (r_fetch s) dd) (r_pc s)) with (ref_pc s op n).
    change (getv "areg_q" (ref_next s (r_fetch s) dd) (r_areg s)) with (ref_areg s op n dd).
    change (getv "breg_q" (ref_next s (r_fetch s) dd) (r_breg s)) with (ref_breg s op n dd).
    change (getv "oreg_q" (ref_next s (r_fetch s) dd) (r_oreg s)) with (ref_oreg s op n).
    change (getv "o_d_valid" (ref_outputs s (r_fetch s)) 0) with (dvalid op).
    change (getv "o_d_we" (ref_outputs s (r_fetch s)) 0) with (spec_we op).
    change (getv "o_d_addr" (ref_outputs s (r_fetch s)) 0) with (r_daddr s op n).
    change (getv "o_d_data" (ref_outputs s (r_fetch s)) 0) with (r_areg s).
    f_equal. destruct (we_01 op) as [E|E].
    - rewrite E. cbn [Z.eqb]. rewrite orb_true_r. reflexivity.
    - rewrite (we_valid op E), E. reflexivity.
  Qed.

  (* one clock = one ISA instruction, exactly as RtlRun.cycle_refines_isa states it for the hex top *)
  Theorem copy_refines_isa s inp a' inp' ev :
    Inv s -> step (abs s) inp = Ok (a', inp', ev) -> in_range (fetch (abs s)) a' ->
    abs (pcycle d s) = (if is_read ev then with_mem a' (r_mem s) else a') /\ Inv (pcycle d s).
  Proof.
    intros Hinv H R. pose proof Hinv as [Wf _]. rewrite (pcycle_is_ref s Wf). rewrite fetch_abs in R.
    split; [apply (ref_refines_isa s inp a' inp' ev Hinv H R) | apply ref_cycle_inv; exact Hinv].
  Qed.

  (* the request the testbench samples: raised exactly for OPR SVC, call number = areg[1:0] *)
  Theorem copy_syscall_request s k dd : wf s -> 0 <= k < 256 -> 0 <= dd < M32 ->
    let o := map (evalp (penv s k dd)) (outputs d) in
    getv "o_syscall_valid" o 0 = (if k =? 211 then 1 else 0) /\ getv "o_syscall" o 0 = r_areg s mod 4.
  Proof. intros W Hk Hdd. cbv zeta. destruct (at_ref d EQ s k dd W Hk Hdd) as [-> _]. split; reflexivity. Qed.
End CopyCycle.

(* non-vacuity: the closed computation separates designs -- processor.sv with its ADD turned into SUB is not the reference *)
Lemma proc_check_discriminates : proc_check (broken RtlSv.design) = false /\ proc_failures (broken RtlSv.design) = [209].
Proof. split; vm_compute; reflexivity. Qed.

(* ------------------------------------------------------------------ the three shipped processors of this run *)
From HexVerif Require RtlC03.
From HexVerif.gen Require RtlHex.

Theorem copies_are_reference : forall (s : rstate) (k dd : Z), wf s -> 0 <= k < 256 -> 0 <= dd < M32 ->
  (map (evalp (penv s k dd)) (outputs RtlV.design) = ref_outputs s k /\ map (evalp (penv s k dd)) (next RtlV.design) = ref_next s k dd) /\
  (map (evalp (penv s k dd)) (outputs RtlVSynth.design) = ref_outputs s k /\ map (evalp (penv s k dd)) (next RtlVSynth.design) = ref_next s k dd) /\
  (map (evalp (penv s k dd)) (outputs RtlSv.design) = ref_outputs s k /\ map (evalp (penv s k dd)) (next RtlSv.design) = ref_next s k dd).
Proof.
  intros s k dd W Hk Hdd.
  split; [exact (at_ref _ v_equals_sv s k dd W Hk Hdd)|]. split; [exact (at_ref _ vsynth_equals_sv s k dd W Hk Hdd) | exact (at_ref _ sv_equals_sv s k dd W Hk Hdd)].
Qed.

Theorem copies_cycle_is_hex : forall s : rstate, wf s ->
  pcycle RtlV.design s = cycle RtlHex.design s /\ pcycle RtlVSynth.design s = cycle RtlHex.design s /\
  pcycle RtlSv.design s = cycle RtlHex.design s.
Proof.
  intros s W. rewrite (RtlC03.rtl_cycle_is_ref s W).
  split; [exact (pcycle_is_ref _ v_equals_sv s W)|]. split; [exact (pcycle_is_ref _ vsynth_equals_sv s W) | exact (pcycle_is_ref _ sv_equals_sv s W)].
Qed.

Theorem copies_refine_isa : forall (s : rstate) (inp : inputs) (a' : arch) (inp' : inputs) (ev : event),
  Inv s -> step (abs s) inp = Ok (a', inp', ev) -> in_range (fetch (abs s)) a' ->
  (abs (pcycle RtlV.design s) = (if is_read ev then with_mem a' (r_mem s) else a') /\ Inv (pcycle RtlV.design s)) /\
  (abs (pcycle RtlVSynth.design s) = (if is_read ev then with_mem a' (r_mem s) else a') /\ Inv (pcycle RtlVSynth.design s)) /\
  (abs (pcycle RtlSv.design s) = (if is_read ev then with_mem a' (r_mem s) else a') /\ Inv (pcycle RtlSv.design s)).
Proof.
  intros s inp a' inp' ev I H R.
  split; [exact (copy_refines_isa _ v_equals_sv s inp a' inp' ev I H R)|].
  split; [exact (copy_refines_isa _ vsynth_equals_sv s inp a' inp' ev I H R) | exact (copy_refines_isa _ sv_equals_sv s inp a' inp' ev I H R)].
Qed.

Theorem copies_syscall_request : forall (s : rstate) (k dd : Z), wf s -> 0 <= k < 256 -> 0 <= dd < M32 ->
  (getv "o_syscall_valid" (map (evalp (penv s k dd)) (outputs RtlV.design)) 0 = (if k =? 211 then 1 else 0) /\
   getv "o_syscall" (map (evalp (penv s k dd)) (outputs RtlV.design)) 0 = r_areg s mod 4) /\
  (getv "o_syscall_valid" (map (evalp (penv s k dd)) (outputs RtlVSynth.design)) 0 = (if k =? 211 then 1 else 0) /\
   getv "o_syscall" (map (evalp (penv s k dd)) (outputs RtlVSynth.design)) 0 = r_areg s mod 4).
Proof.
  intros s k dd W Hk Hdd.
  split; [exact (copy_syscall_request _ v_equals_sv s k dd W Hk Hdd) | exact (copy_syscall_request _ vsynth_equals_sv s k dd W Hk Hdd)].
Qed.

Definition cleared : list (string * Z) := [("areg_q", 0); ("breg_q", 0); ("oreg_q", 0); ("pc_q", 0)].
Theorem copies_reset : 
  (clocking RtlV.design = [("areg_q", regs_clk); ("breg_q", regs_clk); ("oreg_q", regs_clk); ("pc_q", regs_clk)] /\
   clocking RtlVSynth.design = [("areg_q", regs_clk); ("breg_q", regs_clk); ("oreg_q", regs_clk); ("pc_q", regs_clk)]) /\
  forall e : env, 0 <= var e "i_f_data" < 256 -> var e "i_rst" = 1 ->
  map (evalp e) (next RtlV.design) = cleared /\ map (evalp e) (next RtlVSynth.design) = cleared /\ map (evalp e) (next RtlSv.design) = cleared.
Proof.
  split; [split; [exact (copy_clocking _ v_equals_sv) | exact (copy_clocking _ vsynth_equals_sv)]|].
  intros e Hk Hr.
  split; [exact (copy_reset_clears _ v_equals_sv e Hk Hr)|].
  split; [exact (copy_reset_clears _ vsynth_equals_sv e Hk Hr) | exact (copy_reset_clears _ sv_equals_sv e Hk Hr)].
Qed.

(* non-vacuity: LDAC 5; LDBC 3; ADD; STAM 2 on verilog/processor.v and synth/processor.v wired to the memory *)
Definition four (d : design) (s : rstate) : rstate := pcycle d (pcycle d (pcycle d (pcycle d s))).
Lemma copies_compute :
  let s0 := reset_state (load_words WMap.zero 0 [584139573]) in
  (r_areg (four RtlV.design s0) = 8 /\ rd (r_mem (four RtlV.design s0)) 2 = 8 /\ r_pc (four RtlV.design s0) = 4) /\
  (r_areg (four RtlVSynth.design s0) = 8 /\ rd (r_mem (four RtlVSynth.design s0)) 2 = 8 /\ r_pc (four RtlVSynth.design s0) = 4).
Proof. vm_compute. auto. Qed.
