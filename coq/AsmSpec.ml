open AsmModel
open BinInt
open BinNums
open Datatypes
open Isa
open List
open String
open WMap

(** val bytes_map_go : coq_Z list -> coq_Z -> t -> t **)

let rec bytes_map_go l i m =
  match l with
  | [] -> m
  | b :: r -> bytes_map_go r (Z.add i (Zpos Coq_xH)) (wr m i b)

(** val bytes_map : coq_Z list -> t **)

let bytes_map l =
  bytes_map_go l Z0 zero

(** val prefix_oreg : coq_Z -> coq_Z -> coq_Z **)

let prefix_oreg oreg byte =
  let o =
    Z.coq_lor oreg
      (Z.modulo byte (Zpos (Coq_xO (Coq_xO (Coq_xO (Coq_xO Coq_xH))))))
  in
  if Z.eqb (Z.div byte (Zpos (Coq_xO (Coq_xO (Coq_xO (Coq_xO Coq_xH))))))
       (Zpos (Coq_xO (Coq_xI (Coq_xI Coq_xH))))
  then wrap (Z.mul o (Zpos (Coq_xO (Coq_xO (Coq_xO (Coq_xO Coq_xH))))))
  else Z.coq_lor (Zpos (Coq_xO (Coq_xO (Coq_xO (Coq_xO (Coq_xO (Coq_xO
         (Coq_xO (Coq_xO (Coq_xI (Coq_xI (Coq_xI (Coq_xI (Coq_xI (Coq_xI
         (Coq_xI (Coq_xI (Coq_xI (Coq_xI (Coq_xI (Coq_xI (Coq_xI (Coq_xI
         (Coq_xI (Coq_xI (Coq_xI (Coq_xI (Coq_xI (Coq_xI (Coq_xI (Coq_xI
         (Coq_xI Coq_xH))))))))))))))))))))))))))))))))
         (wrap (Z.mul o (Zpos (Coq_xO (Coq_xO (Coq_xO (Coq_xO Coq_xH)))))))

(** val decode_go :
    nat -> t -> coq_Z -> coq_Z -> ((coq_Z * coq_Z) * coq_Z) option **)

let rec decode_go fuel img pos oreg =
  match fuel with
  | O -> None
  | S f ->
    let b = rd img pos in
    if (||)
         (Z.eqb (Z.div b (Zpos (Coq_xO (Coq_xO (Coq_xO (Coq_xO Coq_xH))))))
           (Zpos (Coq_xO (Coq_xI (Coq_xI Coq_xH)))))
         (Z.eqb (Z.div b (Zpos (Coq_xO (Coq_xO (Coq_xO (Coq_xO Coq_xH))))))
           (Zpos (Coq_xI (Coq_xI (Coq_xI Coq_xH)))))
    then decode_go f img (Z.add pos (Zpos Coq_xH)) (prefix_oreg oreg b)
    else Some (((Z.div b (Zpos (Coq_xO (Coq_xO (Coq_xO (Coq_xO Coq_xH)))))),
           (Z.coq_lor oreg
             (Z.modulo b (Zpos (Coq_xO (Coq_xO (Coq_xO (Coq_xO Coq_xH)))))))),
           (Z.add pos (Zpos Coq_xH)))

(** val decode : t -> coq_Z -> ((coq_Z * coq_Z) * coq_Z) option **)

let decode img pos =
  decode_go (S (S (S (S (S (S (S (S (S (S (S (S (S (S (S (S O))))))))))))))))
    img pos Z0

(** val word_at : t -> coq_Z -> coq_Z **)

let word_at img pos =
  Z.add
    (Z.add
      (Z.add (rd img pos)
        (Z.mul (Zpos (Coq_xO (Coq_xO (Coq_xO (Coq_xO (Coq_xO (Coq_xO (Coq_xO
          (Coq_xO Coq_xH))))))))) (rd img (Z.add pos (Zpos Coq_xH)))))
      (Z.mul (Zpos (Coq_xO (Coq_xO (Coq_xO (Coq_xO (Coq_xO (Coq_xO (Coq_xO
        (Coq_xO (Coq_xO (Coq_xO (Coq_xO (Coq_xO (Coq_xO (Coq_xO (Coq_xO
        (Coq_xO Coq_xH)))))))))))))))))
        (rd img (Z.add pos (Zpos (Coq_xO Coq_xH))))))
    (Z.mul (Zpos (Coq_xO (Coq_xO (Coq_xO (Coq_xO (Coq_xO (Coq_xO (Coq_xO
      (Coq_xO (Coq_xO (Coq_xO (Coq_xO (Coq_xO (Coq_xO (Coq_xO (Coq_xO (Coq_xO
      (Coq_xO (Coq_xO (Coq_xO (Coq_xO (Coq_xO (Coq_xO (Coq_xO (Coq_xO
      Coq_xH)))))))))))))))))))))))))
      (rd img (Z.add pos (Zpos (Coq_xI Coq_xH)))))

(** val all_zero : t -> coq_Z -> nat -> bool **)

let rec all_zero img pos = function
| O -> true
| S k ->
  (&&) (Z.eqb (rd img pos) Z0) (all_zero img (Z.add pos (Zpos Coq_xH)) k)

(** val up4 : coq_Z -> coq_Z **)

let up4 p =
  if Z.eqb (Z.modulo p (Zpos (Coq_xO (Coq_xO Coq_xH)))) Z0
  then p
  else Z.add p
         (Z.sub (Zpos (Coq_xO (Coq_xO Coq_xH)))
           (Z.modulo p (Zpos (Coq_xO (Coq_xO Coq_xH)))))

(** val run_then_data : directive list -> bool **)

let rec run_then_data = function
| [] -> false
| d :: r ->
  (match d with
   | DData _ -> true
   | DLabel (_, _) -> run_then_data r
   | _ -> false)

type placed = { p_dir : directive; p_start : coq_Z; p_size : coq_Z;
                p_operand : coq_Z }

(** val walk :
    directive list -> t -> coq_Z -> (placed list * coq_Z) option **)

let rec walk l img pos =
  match l with
  | [] -> Some ([], pos)
  | d :: rest ->
    (match d with
     | DData v ->
       let pos' = up4 pos in
       if (&&) (all_zero img pos (Z.to_nat (Z.sub pos' pos)))
            (Z.eqb (word_at img pos')
              (Z.modulo v (Zpos (Coq_xO (Coq_xO (Coq_xO (Coq_xO (Coq_xO
                (Coq_xO (Coq_xO (Coq_xO (Coq_xO (Coq_xO (Coq_xO (Coq_xO
                (Coq_xO (Coq_xO (Coq_xO (Coq_xO (Coq_xO (Coq_xO (Coq_xO
                (Coq_xO (Coq_xO (Coq_xO (Coq_xO (Coq_xO (Coq_xO (Coq_xO
                (Coq_xO (Coq_xO (Coq_xO (Coq_xO (Coq_xO (Coq_xO
                Coq_xH)))))))))))))))))))))))))))))))))))
       then (match walk rest img (Z.add pos' (Zpos (Coq_xO (Coq_xO Coq_xH)))) with
             | Some p ->
               let (ps, e) = p in
               Some (({ p_dir = d; p_start = pos'; p_size = (Zpos (Coq_xO
               (Coq_xO Coq_xH))); p_operand = v } :: ps), e)
             | None -> None)
       else None
     | DLabel (_, _) ->
       let pos' = if run_then_data l then up4 pos else pos in
       if all_zero img pos (Z.to_nat (Z.sub pos' pos))
       then (match walk rest img pos' with
             | Some p ->
               let (ps, e) = p in
               Some (({ p_dir = d; p_start = pos'; p_size = Z0; p_operand =
               Z0 } :: ps), e)
             | None -> None)
       else None
     | DImm (t0, v) ->
       (match decode img pos with
        | Some p ->
          let (p0, nxt) = p in
          let (opc, o) = p0 in
          (match token_opc t0 with
           | Some c ->
             if (&&) (Z.eqb opc c)
                  (Z.eqb o
                    (Z.modulo v (Zpos (Coq_xO (Coq_xO (Coq_xO (Coq_xO (Coq_xO
                      (Coq_xO (Coq_xO (Coq_xO (Coq_xO (Coq_xO (Coq_xO (Coq_xO
                      (Coq_xO (Coq_xO (Coq_xO (Coq_xO (Coq_xO (Coq_xO (Coq_xO
                      (Coq_xO (Coq_xO (Coq_xO (Coq_xO (Coq_xO (Coq_xO (Coq_xO
                      (Coq_xO (Coq_xO (Coq_xO (Coq_xO (Coq_xO (Coq_xO
                      Coq_xH)))))))))))))))))))))))))))))))))))
             then (match walk rest img nxt with
                   | Some p1 ->
                     let (ps, e) = p1 in
                     Some (({ p_dir = d; p_start = pos; p_size =
                     (Z.sub nxt pos); p_operand = o } :: ps), e)
                   | None -> None)
             else None
           | None -> None)
        | None -> None)
     | DRef (t0, _, _) ->
       (match decode img pos with
        | Some p ->
          let (p0, nxt) = p in
          let (opc, o) = p0 in
          (match token_opc t0 with
           | Some c ->
             if Z.eqb opc c
             then (match walk rest img nxt with
                   | Some p1 ->
                     let (ps, e) = p1 in
                     Some (({ p_dir = d; p_start = pos; p_size =
                     (Z.sub nxt pos); p_operand = o } :: ps), e)
                   | None -> None)
             else None
           | None -> None)
        | None -> None)
     | DOpr t0 ->
       (match opr_opc t0 with
        | Some k ->
          if Z.eqb (rd img pos)
               (Z.add
                 (Z.mul (Zpos (Coq_xI (Coq_xO (Coq_xI Coq_xH)))) (Zpos
                   (Coq_xO (Coq_xO (Coq_xO (Coq_xO Coq_xH)))))) k)
          then (match walk rest img (Z.add pos (Zpos Coq_xH)) with
                | Some p ->
                  let (ps, e) = p in
                  Some (({ p_dir = d; p_start = pos; p_size = (Zpos Coq_xH);
                  p_operand = k } :: ps), e)
                | None -> None)
          else None
        | None -> None)
     | DPadding _ -> None)

(** val label_pos : string -> placed list -> coq_Z option -> coq_Z option **)

let rec label_pos name ps acc =
  match ps with
  | [] -> acc
  | p :: r ->
    label_pos name r
      (match p.p_dir with
       | DLabel (_, n) -> if eqb n name then Some p.p_start else acc
       | _ -> acc)

(** val ref_ok : placed list -> placed -> bool **)

let ref_ok all p =
  match p.p_dir with
  | DRef (_, name, rel) ->
    (match label_pos name all None with
     | Some lp ->
       if rel
       then Z.eqb (wrap (Z.add (Z.add p.p_start p.p_size) p.p_operand)) lp
       else (&&) (Z.eqb (Z.modulo lp (Zpos (Coq_xO (Coq_xO Coq_xH)))) Z0)
              (Z.eqb p.p_operand (Z.div lp (Zpos (Coq_xO (Coq_xO Coq_xH)))))
     | None -> false)
  | _ -> true

(** val check_image : directive list -> coq_Z list -> coq_Z -> bool **)

let check_image prog image header_words =
  let img = bytes_map image in
  let len = Z.of_nat (length image) in
  (match walk prog img Z0 with
   | Some p ->
     let (ps, e) = p in
     (&&)
       ((&&)
         ((&&) ((&&) (forallb (ref_ok ps) ps) (Z.leb e len))
           (Z.eqb len (up4 e))) (all_zero img e (Z.to_nat (Z.sub len e))))
       (Z.eqb (Z.mul header_words (Zpos (Coq_xO (Coq_xO Coq_xH)))) len)
   | None -> false)

(** val expected_syms : placed list -> (string * coq_Z) list **)

let rec expected_syms = function
| [] -> []
| p :: r ->
  (match p.p_dir with
   | DLabel (k, n) ->
     (match k with
      | LId -> expected_syms r
      | _ -> (n, p.p_start) :: (expected_syms r))
   | _ -> expected_syms r)

(** val syms_eqb : (string * coq_Z) list -> (string * coq_Z) list -> bool **)

let rec syms_eqb a b =
  match a with
  | [] -> (match b with
           | [] -> true
           | _ :: _ -> false)
  | p :: r1 ->
    let (n1, o1) = p in
    (match b with
     | [] -> false
     | p0 :: r2 ->
       let (n2, o2) = p0 in
       (&&) ((&&) (eqb n1 n2) (Z.eqb o1 o2)) (syms_eqb r1 r2))

(** val check_symtab :
    directive list -> coq_Z list -> (string * coq_Z) list -> bool **)

let check_symtab prog image syms =
  match walk prog (bytes_map image) Z0 with
  | Some p -> let (ps, _) = p in syms_eqb (expected_syms ps) syms
  | None -> false

type lline =
| LInstr of coq_Z * coq_Z * coq_Z * coq_Z
| LOpr of coq_Z * coq_Z * coq_Z
| LData of coq_Z * coq_Z * coq_Z
| LLabel of coq_Z * coq_Z
| LPadding of coq_Z

(** val check_lines : lline list -> t -> coq_Z -> coq_Z -> bool **)

let rec check_lines ls img pos len =
  match ls with
  | [] -> (&&) (Z.leb pos len) (all_zero img pos (Z.to_nat (Z.sub len pos)))
  | l :: rest ->
    (match l with
     | LInstr (off, opc, v, size) ->
       (&&)
         ((&&) (Z.leb pos off) (all_zero img pos (Z.to_nat (Z.sub off pos))))
         (match decode img off with
          | Some p ->
            let (p0, nxt) = p in
            let (c, o) = p0 in
            (&&)
              ((&&)
                ((&&) (Z.eqb c opc)
                  (Z.eqb o
                    (Z.modulo v (Zpos (Coq_xO (Coq_xO (Coq_xO (Coq_xO (Coq_xO
                      (Coq_xO (Coq_xO (Coq_xO (Coq_xO (Coq_xO (Coq_xO (Coq_xO
                      (Coq_xO (Coq_xO (Coq_xO (Coq_xO (Coq_xO (Coq_xO (Coq_xO
                      (Coq_xO (Coq_xO (Coq_xO (Coq_xO (Coq_xO (Coq_xO (Coq_xO
                      (Coq_xO (Coq_xO (Coq_xO (Coq_xO (Coq_xO (Coq_xO
                      Coq_xH))))))))))))))))))))))))))))))))))))
                (Z.eqb (Z.sub nxt off) size)) (check_lines rest img nxt len)
          | None -> false)
     | LOpr (off, k, size) ->
       (&&)
         ((&&)
           ((&&)
             ((&&) (Z.leb pos off)
               (all_zero img pos (Z.to_nat (Z.sub off pos))))
             (Z.eqb size (Zpos Coq_xH)))
           (Z.eqb (rd img off)
             (Z.add
               (Z.mul (Zpos (Coq_xI (Coq_xO (Coq_xI Coq_xH)))) (Zpos (Coq_xO
                 (Coq_xO (Coq_xO (Coq_xO Coq_xH)))))) k)))
         (check_lines rest img (Z.add off (Zpos Coq_xH)) len)
     | LData (off, v, size) ->
       (&&)
         ((&&)
           ((&&)
             ((&&)
               ((&&) (Z.leb pos off)
                 (all_zero img pos (Z.to_nat (Z.sub off pos))))
               (Z.eqb size (Zpos (Coq_xO (Coq_xO Coq_xH)))))
             (Z.eqb (Z.modulo off (Zpos (Coq_xO (Coq_xO Coq_xH)))) Z0))
           (Z.eqb (word_at img off)
             (Z.modulo v (Zpos (Coq_xO (Coq_xO (Coq_xO (Coq_xO (Coq_xO
               (Coq_xO (Coq_xO (Coq_xO (Coq_xO (Coq_xO (Coq_xO (Coq_xO
               (Coq_xO (Coq_xO (Coq_xO (Coq_xO (Coq_xO (Coq_xO (Coq_xO
               (Coq_xO (Coq_xO (Coq_xO (Coq_xO (Coq_xO (Coq_xO (Coq_xO
               (Coq_xO (Coq_xO (Coq_xO (Coq_xO (Coq_xO (Coq_xO
               Coq_xH))))))))))))))))))))))))))))))))))))
         (check_lines rest img (Z.add off (Zpos (Coq_xO (Coq_xO Coq_xH))))
           len)
     | LLabel (off, size) ->
       (&&)
         ((&&) ((&&) (Z.eqb size Z0) (Z.leb pos off))
           (all_zero img pos (Z.to_nat (Z.sub off pos))))
         (check_lines rest img off len)
     | LPadding size ->
       (&&)
         ((&&) (Z.eqb (Z.add pos size) len)
           (all_zero img pos (Z.to_nat size)))
         (check_lines rest img (Z.add pos size) len))

(** val check_listing : lline list -> coq_Z list -> bool **)

let check_listing ls image =
  check_lines ls (bytes_map image) Z0 (Z.of_nat (length image))
