(* CliModel.v -- hand model of the four main() functions (hexasm.cpp, xcmp.cpp, xrun.cpp, hexsim.cpp) over an abstract
   file system: argument loops as written (including `argv[++i]` running onto the terminating null pointer), the
   try/catch layering and which `return` each path reaches.  The work the tools do is abstract here (Section
   variables: assembling / compiling a source text, simulating a binary); hexasm's is instantiated with the
   assembler model in CliProofs.v.  No proofs in this file.  Tied to the executables by tools/c14.py. *)
From Coq Require Import ZArith List String Bool Ascii.
Import ListNotations.
Local Open Scope string_scope.

Definition bytes := list Z.
Definition fs := string -> option bytes.                 (* files of the working directory by name *)
Definition fs_set (f : fs) (name : string) (b : bytes) : fs := fun n => if String.eqb n name then Some b else f n.

(* what a run leaves behind that the property talks about *)
Record result := { status : Z;              (* process exit status as returned by main / std::exit *)
                   diagnostic : bool;       (* something was written to stderr *)
                   files : fs;              (* the file system afterwards *)
                   out : bytes }.           (* program output on stdout (simulator runs); listings are not modelled *)

Definition starts_with_dash (a : string) : bool :=
  match a with String c _ => Ascii.eqb c "-"%char | EmptyString => false end.

(* std::stoull(argv[++i]) (base 10): leading isspace characters, an optional sign, then at least one digit; the value of
   the digit run must fit 64 bits (std::out_of_range otherwise); what follows the digits is ignored *)
Definition is_space (c : ascii) : bool := let n := nat_of_ascii c in Nat.eqb n 32 || (Nat.leb 9 n && Nat.leb n 13).
Definition digit_val (c : ascii) : option Z :=
  let n := Z.of_nat (nat_of_ascii c) in if Z.leb 48 n && Z.leb n 57 then Some (n - 48)%Z else None.
Fixpoint skip_spaces (s : string) : string :=
  match s with String c r => if is_space c then skip_spaces r else s | EmptyString => s end.
Fixpoint digits_val (s : string) (acc : Z) (seen : bool) : option Z :=
  match s with
  | String c r => match digit_val c with Some d => digits_val r (acc * 10 + d)%Z true | None => if seen then Some acc else None end
  | EmptyString => if seen then Some acc else None
  end.
Definition stoull_ok (s : string) : bool :=
  let s1 := skip_spaces s in
  let s2 := match s1 with String c r => if Ascii.eqb c "+"%char || Ascii.eqb c "-"%char then r else s1 | EmptyString => s1 end in
  match digits_val s2 0%Z false with Some v => Z.leb v 18446744073709551615 | None => false end.

Section Tools.
  (* whether the named file can be opened for writing (the directory exists, the name is not a directory, ...) *)
  Variable writable : string -> bool.
  (* the tools' work, abstract: Some = accepted with these file bytes, None = a diagnostic (hexutil::Error) *)
  Variable assemble : bytes -> option bytes.
  Variable compile : bytes -> option bytes.
  (* simulating a binary on an input: exit value (int) and output bytes; None = the simulator threw *)
  Variable simulate : bytes -> bytes -> option (Z * bytes).

  Inductive mode := MBinary | MTokens | MListing.        (* what the run emits; listing/tokens modes write no file *)
  Record args := { a_mode : mode; a_file : option string; a_out : option string (* None = null pointer *);
                   a_trace : bool; a_tokens : bool; a_instrs : bool }.
  Inductive parsed := PArgs (a : args) | PHelp | PError.  (* PHelp: help(); std::exit(1).  PError: runtime_error thrown *)

  Definition set_file (a : args) (f : string) : args :=
    {| a_mode := a_mode a; a_file := Some f; a_out := a_out a; a_trace := a_trace a; a_tokens := a_tokens a; a_instrs := a_instrs a |}.
  Definition set_out (a : args) (o : option string) : args :=
    {| a_mode := a_mode a; a_file := a_file a; a_out := o; a_trace := a_trace a; a_tokens := a_tokens a; a_instrs := a_instrs a |}.
  Definition set_mode (a : args) (m : mode) : args :=
    {| a_mode := m; a_file := a_file a; a_out := a_out a; a_trace := a_trace a; a_tokens := a_tokens a; a_instrs := a_instrs a |}.
  Definition set_flags (a : args) (tok ins : bool) : args :=
    {| a_mode := a_mode a; a_file := a_file a; a_out := a_out a; a_trace := a_trace a; a_tokens := tok; a_instrs := ins |}.
  Definition set_trace (a : args) : args :=
    {| a_mode := a_mode a; a_file := a_file a; a_out := a_out a; a_trace := true; a_tokens := a_tokens a; a_instrs := a_instrs a |}.

  Definition is_any (a : string) (l : list string) : bool := existsb (String.eqb a) l.

  (* ---------------- hexasm.cpp ---------------- *)
  Fixpoint hexasm_args (argv : list string) (a : args) : parsed :=
    match argv with
    | [] => PArgs a
    | x :: r =>
        if is_any x ["-h"; "--help"] then PHelp
        else if String.eqb x "--tokens" then hexasm_args r (set_flags a true (a_instrs a))
        else if String.eqb x "--instrs" then hexasm_args r (set_flags a (a_tokens a) true)
        else if is_any x ["--output"; "-o"] then
          match r with
          | [] => PArgs (set_out a None)                     (* argv[++i] is the terminating null pointer *)
          | o :: r' => hexasm_args r' (set_out a (Some o))
          end
        else if starts_with_dash x then PError
        else match a_file a with None => hexasm_args r (set_file a x) | Some _ => PError end
    end.
  Definition args0 (default_out : string) : args :=
    {| a_mode := MBinary; a_file := None; a_out := Some default_out; a_trace := false; a_tokens := false; a_instrs := false |}.

  Definition ok (f : fs) : result := {| status := 0; diagnostic := false; files := f; out := [] |}.
  Definition fail (f : fs) : result := {| status := 1; diagnostic := true; files := f; out := [] |}.
  Definition helped (f : fs) : result := {| status := 1; diagnostic := false; files := f; out := [] |}.

  Definition hexasm_main (argv : list string) (f : fs) : result :=
    match hexasm_args argv (args0 "a.out") with
    | PHelp => helped f
    | PError => fail f
    | PArgs a =>
        match a_file a with
        | None => helped f                                   (* help(argv); std::exit(1) *)
        | Some name =>
            match f name with
            | None => fail f                                  (* "could not open file" *)
            | Some src =>
                if a_tokens a && negb (a_instrs a) then ok f  (* emitTokens; return 0 *)
                else match assemble src with
                     | None => fail f                         (* hexutil::Error: diagnostic, return 1 *)
                     | Some bin =>
                         if a_instrs a then ok f              (* emitProgramText; return 0 *)
                         else match a_out a with
                              | None => fail f                (* std::string(nullptr): std::logic_error, return 1 *)
                              | Some o => if writable o then ok (fs_set f o bin)
                                          else fail f         (* "could not open output file" *)
                              end
                     end
            end
        end
    end.

  (* ---------------- xcmp.cpp ---------------- *)
  Fixpoint xcmp_args (argv : list string) (a : args) : parsed :=
    match argv with
    | [] => PArgs a
    | x :: r =>
        if is_any x ["-h"; "--help"] then PHelp
        else if is_any x ["--tokens"] then xcmp_args r (set_mode a MTokens)
        else if is_any x ["--tree"; "--tree-opt"; "--insts"; "--insts-lowered"; "--insts-optimised"; "-S"; "--insts-asm"] then xcmp_args r (set_mode a MListing)
        else if String.eqb x "--memory-info" then xcmp_args r a
        else if is_any x ["--output"; "-o"] then
          match r with
          | [] => PArgs (set_out a None)
          | o :: r' => xcmp_args r' (set_out a (Some o))
          end
        else if starts_with_dash x then PError
        else match a_file a with None => xcmp_args r (set_file a x) | Some _ => PError end
    end.

  Definition xcmp_main (argv : list string) (f : fs) : result :=
    match xcmp_args argv (args0 "a.out") with
    | PHelp => helped f
    | PError => fail f
    | PArgs a =>
        match a_file a with
        | None => helped f
        | Some name =>
            match a_out a with
            | None => fail f                                  (* std::string(nullptr) for the output name: logic_error, return 1 *)
            | Some o =>
                match f name with
                | None => fail f
                | Some src =>
                    match a_mode a with
                    | MTokens => ok f
                    | MListing => match compile src with None => fail f | Some _ => ok f end
                    | MBinary => match compile src with
                                 | None => fail f
                                 | Some bin => if writable o then ok (fs_set f o bin) else fail f
                                 end
                    end
                end
            end
        end
    end.

  (* ---------------- hexsim.cpp ---------------- *)
  Inductive sim_parsed := SArgs (file : option string) (dump trace : bool) | SHelp | SError.
  Fixpoint hexsim_args (argv : list string) (file : option string) (dump trace : bool) : sim_parsed :=
    match argv with
    | [] => SArgs file dump trace
    | x :: r =>
        if is_any x ["-d"; "--dump"] then hexsim_args r file true trace
        else if is_any x ["-t"; "--trace"] then hexsim_args r file dump true
        else if String.eqb x "--max-cycles" then
          match r with
          | [] => SError                                       (* std::stoull(nullptr) *)
          | v :: r' => if stoull_ok v then hexsim_args r' file dump trace else SError   (* invalid_argument / out_of_range *)
          end
        else if is_any x ["-h"; "--help"] then SHelp
        else match file with None => hexsim_args r (Some x) dump trace | Some _ => SError end
    end.
  (* the host carries 8 bits of `return p.run()` *)
  Definition host_status (v : Z) : Z := Z.modulo v 256.
  Definition hexsim_main (argv : list string) (input : bytes) (f : fs) : result :=
    match hexsim_args argv None false false with
    | SHelp => helped f
    | SError => fail f
    | SArgs None _ _ => helped f
    | SArgs (Some name) dump _ =>
        match f name with
        | None => fail f                                      (* reading a missing file: not in the property's quantifier; modelled as failure *)
        | Some bin =>
            if dump then ok f
            else match simulate bin input with
                 | Some (v, o) => {| status := host_status v; diagnostic := false; files := f; out := o |}
                 | None => fail f
                 end
        end
    end.

  (* ---------------- xrun.cpp ---------------- *)
  Inductive run_parsed := RArgs (file : option string) (trace : bool) | RHelp | RError.
  Fixpoint xrun_args (argv : list string) (file : option string) (trace : bool) : run_parsed :=
    match argv with
    | [] => RArgs file trace
    | x :: r =>
        if is_any x ["-h"; "--help"] then RHelp
        else if is_any x ["-t"; "--trace"] then xrun_args r file true
        else if String.eqb x "--max-cycles" then
          match r with [] => RError | v :: r' => if stoull_ok v then xrun_args r' file trace else RError end
        else if starts_with_dash x then RError
        else match file with None => xrun_args r (Some x) trace | Some _ => RError end
    end.
  Definition xrun_main (argv : list string) (input : bytes) (f : fs) : result :=
    match xrun_args argv None false with
    | RHelp => helped f
    | RError => fail f
    | RArgs None _ => fail f                                  (* std::string(nullptr) *)
    | RArgs (Some name) _ =>
        match f name with
        | None => fail f
        | Some src =>
            match compile src with
            | None => fail f
            | Some bin =>
                if negb (writable "a.bin") then fail f else
                let f' := fs_set f "a.bin" bin in
                match simulate bin input with
                | Some (v, o) => {| status := host_status v; diagnostic := false; files := f'; out := o |}
                | None => fail f'
                end
            end
        end
    end.
End Tools.
