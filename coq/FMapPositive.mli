open BinNums
open Datatypes

val append : positive -> positive -> positive

module PositiveMap :
 sig
  type key = positive

  type 'a tree =
  | Leaf
  | Node of 'a tree * 'a option * 'a tree

  type 'a t = 'a tree

  val empty : 'a1 t

  val find : key -> 'a1 t -> 'a1 option

  val add : key -> 'a1 -> 'a1 t -> 'a1 t

  val xelements : 'a1 t -> key -> (key * 'a1) list

  val elements : 'a1 t -> (key * 'a1) list
 end
