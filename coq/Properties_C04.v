(* Properties_C04.v -- assembler prefix encoding reconstructs every 32-bit operand exactly.
   Model of hexasm's encoder: AsmLayout.v (num_nibbles, enc_size, emit_instr).  Decoder = the ISA's own operand rule
   (AsmSpec.decode, proved to be what Isa.step does in AsmSpecProofs.decode_exec). *)
From Coq Require Import ZArith List Lia.
From HexVerif Require Import WMap Isa AsmModel AsmLayout AsmSpec AsmSpecProofs AsmEncodeProofs AsmLiteralProofs.
Import ListNotations.
Local Open Scope Z_scope.

(* the emitted bytes are zero or more PFIX/NFIX bytes (NFIX only first, exactly when the value is negative) followed
   by the instruction byte carrying the low nibble; the length is the one the size function announced (1..8) *)
Theorem C04_shape : forall opc v, 0 <= opc < 14 -> int_range v ->
  exists first rest, emit_instr opc v (enc_size v) = first ++ rest ++ [opc * 16 + v mod 16] /\
    (first = [] \/ exists b, first = [b] /\ is_prefix b /\ (b / 16 = 15 <-> v < 0)) /\ Forall is_pfix rest /\
    Z.of_nat (length (emit_instr opc v (enc_size v))) = enc_size v /\ 1 <= enc_size v <= 8.
Proof.
  intros opc v Ho Hv. pose proof (enc_size_ok v Hv) as [[A B] _].
  destruct (emit_shape opc v (enc_size v) Ho A) as (f & r & E1 & E2 & E3 & E4).
  exists f, r. repeat split; assumption.
Qed.
Print Assumptions C04_shape.

(* decoding the emitted bytes with the ISA's operand rule, from a clear operand register, yields the opcode and
   exactly the value modulo 2^32 -- for every int value (0, -1, every +-16^k boundary, INT_MAX, INT_MIN included) *)
Theorem C04_encode_decode : forall img pos opc v, 0 <= opc < 14 -> int_range v ->
  at_bytes img pos (emit_instr opc v (enc_size v)) ->
  decode img pos = Some (opc, v mod W, pos + enc_size v).
Proof. intros img pos opc v Ho Hv Hb. apply emit_decode; [assumption | apply enc_size_ok; assumption | assumption]. Qed.
Print Assumptions C04_encode_decode.

(* the same for every longer admissible length (label resolution pads an encoding to its planned length) *)
Theorem C04_padded_encode_decode : forall img pos opc v s, 0 <= opc < 14 -> int_range v -> enc_size v <= s <= 8 ->
  at_bytes img pos (emit_instr opc v s) ->
  decode img pos = Some (opc, v mod W, pos + s).
Proof.
  intros img pos opc v s Ho Hv Hs Hb. apply emit_decode; [assumption | | assumption].
  eapply size_ok_mono; [apply enc_size_ok; assumption | assumption].
Qed.
Print Assumptions C04_padded_encode_decode.

(* executing them: from any state whose memory holds these bytes at pc, with a clear operand register, the processor
   (Isa.step) passes the prefixes silently and reaches the instruction byte with exactly that operand; the
   instruction then leaves the operand register clear *)
Theorem C04_executes : forall img opc v s inp,
  0 <= opc < 14 -> int_range v ->
  at_bytes img (pc s) (emit_instr opc v (enc_size v)) -> oreg s = 0 -> 0 <= pc s -> pc s + enc_size v <= W ->
  holds (mem s) img (pc s) (pc s + enc_size v) ->
  exists s', Isa.run (Z.to_nat (enc_size v - 1)) s inp [] = ([], inp, s', Cut) /\
             pc s' = pc s + enc_size v - 1 /\ areg s' = areg s /\ breg s' = breg s /\ mem s' = mem s /\
             fetch s' / 16 = opc /\ Z.lor (oreg s') (fetch s' mod 16) = v mod W /\
             (forall s'' inp'' ev, Isa.step s' inp = Isa.Ok (s'', inp'', ev) -> oreg s'' = 0).
Proof.
  intros img opc v s inp Ho Hv Hb Ho0 Hpc Hw Hh.
  pose proof (C04_encode_decode img (pc s) opc v Ho Hv Hb) as Hd. unfold decode in Hd.
  destruct (decode_exec _ _ _ _ _ _ _ Hd s inp eq_refl Ho0 Hpc Hw Hh) as [_ (s' & Hrun & P1 & P2 & P3 & P4 & P5 & P6 & P7 & P8 & P9)].
  exists s'. replace (pc s + enc_size v - pc s - 1) with (enc_size v - 1) in Hrun by lia.
  repeat split; try assumption.
  intros s'' inp'' ev Hstep. eapply nonprefix_clears_oreg; [exact Hstep | rewrite P6; exact P7 | rewrite P6; exact P8].
Qed.
Print Assumptions C04_executes.

(* literal spellings: a NUMBER token carries u in [0,2^32) (the lexer's `unsigned value`); written as an unsigned
   literal it denotes u, written as '-' NUMBER it denotes -u modulo 2^32; both land in C int range *)
Theorem C04_literal : forall u, 0 <= u < W ->
  int_range (to_int u) /\ to_int u mod W = u /\ int_range (to_int (- u)) /\ to_int (- u) mod W = (- u) mod W.
Proof.
  intros u Hu. unfold to_int, int_range, W32, W in *.
  rewrite (Z.mod_small u) by lia.
  pose proof (Z.mod_pos_bound (- u) 4294967296 ltac:(lia)).
  repeat split; destruct (2147483648 <=? u) eqn:E1; destruct (2147483648 <=? (- u) mod 4294967296) eqn:E2;
    try apply Z.leb_le in E1; try apply Z.leb_gt in E1; try apply Z.leb_le in E2; try apply Z.leb_gt in E2; try lia;
    try (rewrite Z.mod_small by lia; reflexivity);
    try (replace (u - 4294967296) with (u + (-1) * 4294967296) by lia; rewrite Z.mod_add by lia; apply Z.mod_small; lia);
    try (replace ((- u) mod 4294967296 - 4294967296) with ((- u) mod 4294967296 + (-1) * 4294967296) by lia; rewrite Z.mod_add by lia; apply Z.mod_mod; lia);
    try (apply Z.mod_mod; lia).
Qed.
Print Assumptions C04_literal.

(* from the source text to that value: every decimal spelling (leading zeros included) of u in [0, 2^32) is read by the
   lexer model as u (strtoul, then the store into `unsigned`), and a run of digits ended by any non-digit becomes one
   NUMBER token carrying that value *)
Theorem C04_literal_value : forall ds u, Forall is_digit ds -> horner ds 0 = u -> 0 <= u < W32 -> number_value ds = u.
Proof. exact number_value_32. Qed.
Print Assumptions C04_literal_value.

Theorem C04_literal_token : forall ds acc c s b rest',
  digit_byte c -> Forall digit_byte ds -> AsmModel.is_digit (char_of_byte b) = false ->
  exists toks s', lex_go (ds ++ b :: rest') c (MNum acc) s
                  = mk_lexed TNUMBER (set_val s' (number_value (acc ++ c :: ds))) :: toks.
Proof. exact lex_number_run. Qed.
Print Assumptions C04_literal_token.

(* whole sources through the assembler model (lexer, parser, layout, emission): "LDAC -2147483648", "LDAC 4294967295",
   "LDAC 2147483648" (the unsigned spelling of INT_MIN), "LDAC 007" *)
Definition img_of (src : list Z) : option (list Z) := match AsmLayout.assemble src with AsmModel.Ok o => Some (ao_image o) | _ => None end.
Example C04_literal_sources :
  img_of [76;68;65;67;32;45;50;49;52;55;52;56;51;54;52;56;10] = Some [248; 224; 224; 224; 224; 224; 224; 48] /\
  img_of [76;68;65;67;32;52;50;57;52;57;54;55;50;57;53;10] = Some [255; 63; 0; 0] /\
  img_of [76;68;65;67;32;50;49;52;55;52;56;51;54;52;56;10] = Some [248; 224; 224; 224; 224; 224; 224; 48] /\
  img_of [76;68;65;67;32;48;48;55;10] = Some [55; 0; 0; 0].
Proof. vm_compute. repeat split; reflexivity. Qed.

(* non-vacuity and the boundary values the property names *)
Example C04_int_min : emit_instr 3 (-2147483648) (enc_size (-2147483648)) = [248; 224; 224; 224; 224; 224; 224; 48]
  /\ decode (bytes_map [248; 224; 224; 224; 224; 224; 224; 48]) 0 = Some (3, 2147483648, 8).
Proof. split; vm_compute; reflexivity. Qed.
Example C04_minus_257 : emit_instr 3 (-257) (enc_size (-257)) = [254; 239; 63]. Proof. vm_compute. reflexivity. Qed.
Example C04_zero_and_minus_one : emit_instr 9 0 (enc_size 0) = [144] /\ emit_instr 9 (-1) (enc_size (-1)) = [255; 159].
Proof. split; vm_compute; reflexivity. Qed.
