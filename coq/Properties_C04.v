(* Properties_C04.v -- placeholder until the encoding proofs land. *)
From HexVerif Require Import AsmSpec AsmLayout.
