(* XFrontPreserve.v -- definitions for the theorem that xcmp's front-end passes (the model XConstProp.front:
   CreateSymbols, ConstProp, OptimiseExpr and the code generator's reading of the annotated tree) preserve the
   meaning XSem gives to whole programs.  No proofs here.

   The interpreter XSem records, in the component `cur` of its state, the footprint (globals read / written, input/
   output done) of what it is evaluating, as lists.  The passes change the ORDER in which footprints are recorded
   (l > r becomes r < l) and remove evaluations that leave no footprint (folded constants), so source and transformed
   program are related up to `st_eq`: equal states except that the footprint lists agree as sets.

   EXCLUDED by the hypothesis `swap_safe` (a decidable predicate on the annotated program):
   (1) an operator `>` or `<=` whose RIGHT operand contains a call or system call (or is a string literal), unless the
       left operand is a literal-like constant or the node itself folded to a constant;
   (2) a call written as a system call with the number 4294967295 (xcmp reads it as a call of the procedure named "").
   About (1):  OptimiseExpr swaps the operands of these two operators (l > r becomes r < l); XSem evaluates operands
   left to right and answers OrderDependent only for conflicting footprints.  Proved: the swap preserves the meaning
   when one operand is a literal-like constant, when both operands are call-free, and when the right operand is
   call-free whatever the left one does (calls, system calls, assignments inside procedures ...).  The last case needs
   that XSem's footprints are sound, for the fragment that matters: every global an evaluation leaves changed is in its
   recorded write footprint (wsound_all), and a call-free expression yields the same value and footprint from two
   states that agree on the globals it reads (rsound_all).  With no conflict between the two footprints, the right
   operand evaluated BEFORE the left one gives what it gives after it.
   What stays excluded, and why: with a call in the right operand and a left operand that is not a literal, XSem is not
   symmetric.  When the operand evaluated first leaves the program (exit inside a called procedure), XSem defines the
   result only if all later operands are literals (XSem.harmless), so `g > f()` with f leaving the program is defined
   (g is evaluated, then f halts), whereas the swapped `f() < g` is OrderDependent in XSem: the theorem as stated
   (every defined behaviour of the source is a behaviour of the transformed program) is false for this shape under
   XSem's conservative rule, although the compiled programs behave the same.  Calls in BOTH operands would in addition
   need the commutation of two arbitrary non-conflicting evaluations, which is not proved.  A string-literal right operand
   below a left operand with calls is excluded because a literal that does not fit the pool is an error in XSem only when
   it is reached. *)
From Coq Require Import ZArith String List Bool.
From HexVerif Require Import XAst XSem XConstProp.
Import ListNotations.
Local Open Scope Z_scope.

(* ---------------------------------------------------------------- states up to the order of footprints *)
Definition eff_eq (a b : eff) : Prop :=
  (forall x, mem_str x (e_rd a) = mem_str x (e_rd b)) /\ (forall x, mem_str x (e_wr a) = mem_str x (e_wr b)) /\ e_io a = e_io b.
Definition st_eq (s t : state) : Prop := set_cur s eff0 = set_cur t eff0 /\ eff_eq (cur s) (cur t).
Definition res_eq {A : Type} (R : A -> A -> Prop) (r r' : res A) : Prop :=
  match r, r' with
  | Ret a s, Ret a' t => R a a' /\ st_eq s t
  | Halt c s, Halt c' t => c = c' /\ set_cur s eff0 = set_cur t eff0     (* the footprint of a halting state is never looked at *)
  | _, _ => False
  end.
Definition ok {A : Type} (r : res A) : Prop := match r with Fail _ => False | _ => True end.
Definition ve_eq (x y : value * eff) : Prop := fst x = fst y /\ eff_eq (snd x) (snd y).

(* ---------------------------------------------------------------- call-free expressions *)
Fixpoint call_free (e : expr) : bool :=
  match e with
  | ENum _ | EBool _ | EStr _ | EVar _ => true
  | ESub _ i => call_free i
  | ECall _ _ | ESys _ _ => false
  | EUn _ a => call_free a
  | EBin _ l r => call_free l && call_free r
  end.
Fixpoint acall_free (e : aexpr) : bool :=
  match e with
  | ANum _ _ | ABool _ _ | AStr _ | AVar _ _ => true
  | ASub _ i => acall_free i
  | ACall _ _ _ => false
  | AUn _ _ a => acall_free a
  | ABin _ _ l r => acall_free l && acall_free r
  end.

(* a constant whose reading by the code generator is a literal (not one of the rewritten operators at its top) *)
Definition lit_like (e : aexpr) : bool :=
  match const_of e with Some _ => XSem.harmless (erase (opt_expr e)) | None => false end.

(* the condition under which the operand swap of > and <= is covered *)
Definition not_str (e : aexpr) : bool := match e with AStr _ => false | _ => true end.
(* literal-like constant on either side; both operands call-free; or the RIGHT operand call-free (and not a string
   literal) whatever the left one does.  The mirror image -- left operand call-free and not a literal, right operand with
   calls -- stays excluded, and has to: XSem answers OrderDependent when the operand evaluated FIRST leaves the program
   while a later operand is not a literal, so `g > f()` with f leaving the program is defined (g is evaluated, then f
   halts) whereas `f() < g` is not. *)
Definition swap_ok (l r : aexpr) : bool :=
  lit_like l || lit_like r || (acall_free l && acall_free r) || (acall_free r && not_str r).
Definition is_rw (o : binop) : bool := match o with Ne | Ge | Gr | Le => true | _ => false end.
Fixpoint swap_safe (e : aexpr) : bool :=
  match e with
  | ANum _ _ | ABool _ _ | AStr _ | AVar _ _ => true
  | ASub _ i => swap_safe i
  | ACall f id args => negb ((id =? -1) && String.eqb f "") && forallb swap_safe args
  | AUn _ (Some _) _ => true
  | AUn _ None a => swap_safe a
  | ABin o (Some _) _ _ => true
  | ABin o None l r =>
      swap_safe l && swap_safe r && match o with Gr | Le => swap_ok l r | _ => true end
  end.
Fixpoint swap_safe_stmt (s : astmt) : bool :=
  match s with
  | ASkip | AStop => true
  | AReturn e => swap_safe e
  | AIf c t e => swap_safe c && swap_safe_stmt t && swap_safe_stmt e
  | AWhile c b => swap_safe c && swap_safe_stmt b
  | ASeq ss => forallb swap_safe_stmt ss
  | AAssign _ _ e => swap_safe e
  | AAssignSub _ i e => swap_safe i && swap_safe e
  | ACallS f id args => negb ((id =? -1) && String.eqb f "") && forallb swap_safe args
  end.
Definition swap_safe_decl (d : adecl) : bool :=
  match d with ADVal _ e _ => swap_safe e | ADVar _ => true | ADArray _ e => swap_safe e end.
Definition swap_safe_proc (p : aproc) : bool := forallb swap_safe_decl (a_locals p) && swap_safe_stmt (a_body p).
Definition swap_safe_prog (p : aprogram) : bool := forallb swap_safe_decl (a_globals p) && forallb swap_safe_proc (a_procs p).
(* on source programs *)
Definition front_swap_safe (p : program) : bool :=
  match constprop_program p with COk ap => swap_safe_prog ap | _ => true end.
Definition names_ok (p : program) : bool := forallb (fun q => negb (String.eqb (pname q) "")) (procs p).
