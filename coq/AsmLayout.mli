open Ascii
open AsmModel
open BinInt
open BinNums
open Datatypes
open List
open String
open WMap

val nn_loop : nat -> coq_Z -> coq_Z -> coq_Z

val num_nibbles : coq_Z -> coq_Z

val enc_size : coq_Z -> coq_Z

val instr_len_go : nat -> coq_Z -> coq_Z -> coq_Z

val instr_len : coq_Z -> coq_Z -> coq_Z

type dst = { d_off : coq_Z; d_val : coq_Z; d_len : coq_Z }

val dst0 : dst

val dst_eqb : dst -> dst -> bool

type item = { it_d : directive; it_tgt : coq_Z option; it_st : dst }

val dsize : directive -> dst -> coq_Z

val dvalue : directive -> dst -> coq_Z

val is_label : directive -> bool

val is_data : directive -> bool

val labels_then_data : item list -> bool

val label_before_data : item list -> bool

val align4 : coq_Z -> coq_Z

val last_label :
  string -> directive list -> coq_Z -> coq_Z option -> coq_Z option

val mk_item : directive list -> directive -> item

type pass_result =
| PassOk of item list * t * coq_Z * bool
| PassErr of diag

val pass_go :
  item list -> item list -> t -> coq_Z -> bool -> coq_Z -> pass_result

val pass : item list -> t -> pass_result

val resolve_loop :
  nat -> coq_Z -> coq_Z -> item list -> t -> item list outcome

val max_passes : coq_Z -> coq_Z

val resolve : directive list -> item list outcome

val program_size_go : item list -> coq_Z -> coq_Z

val program_size : item list -> coq_Z

type layout = { l_items : item list; l_size : coq_Z }

val codegen : directive list -> layout outcome

val byte : coq_Z -> coq_Z

val nib : coq_Z -> coq_Z -> coq_Z

val coq_PFIX : coq_Z

val coq_NFIX : coq_Z

val mid_prefixes : coq_Z -> nat -> coq_Z list

val emit_instr : coq_Z -> coq_Z -> coq_Z -> coq_Z list

val le32 : coq_Z -> coq_Z list

val zeros : coq_Z -> coq_Z list

val pad_to4 : coq_Z -> coq_Z

val dir_opc : directive -> coq_Z

val emit_go : item list -> coq_Z -> coq_Z list * (string * coq_Z) list

val bytes_of_string : string -> coq_Z list

val sym_entries : (string * coq_Z) list -> coq_Z -> coq_Z list

val emit_bin : layout -> (coq_Z list * coq_Z list) * (string * coq_Z) list

val dec_go : nat -> coq_Z -> string -> string

val dec : coq_Z -> string

val dir_text : directive -> dst -> bool -> string

val listing : layout -> ((coq_Z * string) * coq_Z) list

val listing_total : layout -> coq_Z

type asm_out = { ao_file : coq_Z list; ao_image : coq_Z list;
                 ao_syms : (string * coq_Z) list;
                 ao_listing : ((coq_Z * string) * coq_Z) list;
                 ao_total : coq_Z; ao_layout : layout;
                 ao_locs : (coq_Z * coq_Z) list }

val assemble_directives :
  directive list -> (coq_Z * coq_Z) list -> asm_out outcome

val assemble : coq_Z list -> asm_out outcome

val diag_location : diag -> (coq_Z * coq_Z) list -> (coq_Z * coq_Z) option
