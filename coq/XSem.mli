open Ascii
open BinInt
open BinNums
open Bool
open Datatypes
open FMapPositive
open List
open PeanoNat
open String
open XAst

type undef =
| UnassignedRead of string
| SubscriptRange of string * coq_Z
| ArithOverflow
| CmpDiffOverflow
| OrderDependent
| NoReturn
| WrongKindOfCall of string
| MissingActual
| Unsupported of string
| DepthExceeded
| FuelExhausted

type behaviour = { outputs : (coq_Z * coq_Z) list; consumed : nat;
                   exit_value : coq_Z }

type outcome =
| Behaviour of behaviour
| Undef of undef

val min_int : coq_Z

val max_int : coq_Z

val in_int : coq_Z -> bool

val signed32 : coq_Z -> coq_Z

val of_bool : bool -> coq_Z

val binop_ans : binop -> coq_Z -> coq_Z -> (undef, coq_Z) sum

type value =
| Vundef
| Vint of coq_Z
| Varr of string
| Vstr of coq_Z list

type arr = { alen : coq_Z; acells : value PositiveMap.t }

type eff = { e_rd : string list; e_wr : string list; e_io : bool }

val eff0 : eff

type frame = { f_vars : (string * value) list;
               f_vals : (string * coq_Z) list; f_depth : nat }

type state = { gvars : (string * value) list; garrs : (string * arr) list;
               out_rev : (coq_Z * coq_Z) list; input : coq_Z list;
               ncons : nat; budget : coq_Z; cur : eff; stk : frame list }

type genv = { g_vals : (string * coq_Z) list; g_procs : proc list;
              g_maxdepth : nat }

val assoc : string -> (string * 'a1) list -> 'a1 option

val update : string -> 'a1 -> (string * 'a1) list -> (string * 'a1) list

val mem_str : string -> string list -> bool

val add_str : string -> string list -> string list

val union_str : string list -> string list -> string list

val inter_str : string list -> string list -> bool

val has_dup : string list -> bool

val eff_union : eff -> eff -> eff

val conflict : eff -> eff -> bool

val conflict_any : eff -> eff list -> bool

val conflicts : eff list -> bool

val set_gvars : state -> (string * value) list -> state

val set_garrs : state -> (string * arr) list -> state

val set_cur : state -> eff -> state

val set_stk : state -> frame list -> state

val set_budget : state -> coq_Z -> state

val note_rd : string -> state -> state

val note_wr : string -> state -> state

val note_io : state -> state

val emit : coq_Z -> coq_Z -> state -> state

val consume : coq_Z list -> state -> state

type 'a res =
| Ret of 'a * state
| Halt of coq_Z * state
| Fail of undef

val rcase :
  'a1 res -> ('a1 -> state -> 'a2 res) -> (coq_Z -> state -> 'a2 res) -> 'a2
  res

val bind : 'a1 res -> ('a1 -> state -> 'a2 res) -> 'a2 res

val with_eff : (state -> 'a1 res) -> state -> ('a1 * eff) res

val tick : state -> (state -> 'a1 res) -> 'a1 res

val int_of : value -> (coq_Z -> 'a1 res) -> 'a1 res

val bool_of : value -> (bool -> 'a1 res) -> 'a1 res

val eval_const : (string -> coq_Z option) -> expr -> (undef, coq_Z) sum

val words_of : coq_Z list -> coq_Z list

val is_byte : coq_Z -> bool

val pack_string : coq_Z list -> coq_Z list option

val top : state -> frame

val read_var : genv -> string -> state -> value res

val resolve_array : genv -> string -> state -> value res

val cell : coq_Z -> positive

val read_elem : value -> string -> coq_Z -> state -> value res

type flow =
| Normal
| Returned of value

val write_elem : value -> string -> coq_Z -> coq_Z -> state -> flow res

val assign : genv -> string -> coq_Z -> state -> flow res

type target =
| TSys of coq_Z
| TProc
| TBad

val call_target : genv -> string -> state -> target

val find_proc : string -> proc list -> proc option

val decl_name : decl -> string

val formal_name : formal -> string

val bind_formals :
  formal list -> value list -> (undef, (string * value) list) sum

val local_decls :
  decl list -> string list -> (string * coq_Z) list -> (string * value) list
  -> (string * coq_Z) list -> (undef, (string * value)
  list * (string * coq_Z) list) sum

val enter : genv -> proc -> value list -> state -> (undef, frame) sum

val pop : state -> state

val invoke :
  (stmt -> state -> flow res) -> genv -> bool -> string -> value list ->
  state -> value res

val do_sys : coq_Z -> value list -> bool -> state -> value res

val harmless : expr -> bool

val evals_body :
  (expr -> state -> value res) -> (expr list -> state -> (value * eff) list
  res) -> expr list -> state -> (value * eff) list res

val operands :
  (expr list -> state -> (value * eff) list res) -> expr list -> state ->
  value list res

val eval_body :
  (expr -> state -> value res) -> (expr list -> state -> (value * eff) list
  res) -> (stmt -> state -> flow res) -> genv -> expr -> state -> value res

val exec_body :
  (expr -> state -> value res) -> (expr list -> state -> (value * eff) list
  res) -> (stmt -> state -> flow res) -> (stmt list -> state -> flow res) ->
  genv -> stmt -> state -> flow res

val execs_body :
  (stmt -> state -> flow res) -> (stmt list -> state -> flow res) -> stmt
  list -> state -> flow res

val eval : nat -> genv -> expr -> state -> value res

val evals : nat -> genv -> expr list -> state -> (value * eff) list res

val exec : nat -> genv -> stmt -> state -> flow res

val execs : nat -> genv -> stmt list -> state -> flow res

val wf_proc : proc -> bool

val wf_program : program -> string option

val init_globals :
  decl list -> (string * coq_Z) list -> (string * value) list ->
  (string * arr) list -> (undef, ((string * coq_Z) list * (string * value)
  list) * (string * arr) list) sum

val finish : state -> coq_Z -> outcome

val run_fuel : nat -> coq_Z -> nat -> program -> coq_Z list -> outcome

val default_fuel : nat

val default_steps : coq_Z

val default_depth : nat

val run : program -> coq_Z list -> outcome
