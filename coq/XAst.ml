open BinNums
open String

type binop =
| Plus
| Minus
| Or
| And
| Eq
| Ne
| Ls
| Le
| Gr
| Ge

type unop =
| Neg
| Not

type expr =
| ENum of coq_Z
| EBool of bool
| EStr of coq_Z list
| EVar of string
| ESub of string * expr
| ECall of string * expr list
| ESys of coq_Z * expr list
| EUn of unop * expr
| EBin of binop * expr * expr

type stmt =
| SSkip
| SStop
| SReturn of expr
| SIf of expr * stmt * stmt
| SWhile of expr * stmt
| SSeq of stmt list
| SAssign of string * expr
| SAssignSub of string * expr * expr
| SCall of string * expr list
| SSys of coq_Z * expr list

type decl =
| DVal of string * expr
| DVar of string
| DArray of string * expr

type formal =
| FVal of string
| FArray of string
| FProc of string
| FFunc of string

type proc = { is_func : bool; pname : string; formals : formal list;
              locals : decl list; body : stmt }

type program = { globals : decl list; procs : proc list }
