(* SimProofs15.v -- C15: symbol lookup and the leading columns of a trace line. *)
From Coq Require Import ZArith List String Lia Bool.
From HexVerif Require Import WMap Isa SimModel SimProofs.
Import ListNotations.
Local Open Scope Z_scope.

(* offsets ascending in file order (adjacent entries may share an offset: an empty procedure) *)
Fixpoint asc (tab : symtab) : Prop :=
  match tab with
  | (_, o) :: r => match r with (_, o2) :: _ => o <= o2 /\ asc r | [] => True end
  | [] => True
  end.

Lemma asc_tail x tab : asc (x :: tab) -> asc tab.
Proof. destruct x as [n o]. destruct tab as [|[n2 o2] r]; cbn; tauto. Qed.

Lemma asc_all_ge : forall tab n o, asc ((n, o) :: tab) -> Forall (fun p => o <= snd p) tab.
Proof.
  induction tab as [|[n2 o2] r IH]; intros n o H; [constructor|].
  cbn in H. destruct H as [H1 H2]. constructor; [exact H1|].
  specialize (IH n2 o2 H2). eapply Forall_impl; [|exact IH]. cbn. intros; lia.
Qed.

Lemma map_offset_notin : forall tab name acc, ~ In name (map fst tab) -> map_offset tab name acc = acc.
Proof.
  induction tab as [|[n o] r IH]; intros name acc H; [reflexivity|].
  cbn [map_offset]. cbn in H. destruct (String.eqb n name) eqn:E.
  - apply String.eqb_eq in E. subst. tauto.
  - apply IH. tauto.
Qed.
Lemma map_offset_found : forall pre n o post acc, NoDup (map fst (pre ++ (n, o) :: post)) ->
  map_offset (pre ++ (n, o) :: post) n acc = o.
Proof.
  induction pre as [|[n1 o1] pre IH]; intros n o post acc H.
  - cbn [app map_offset]. rewrite String.eqb_refl. cbn in H. inversion H; subst. apply map_offset_notin. assumption.
  - cbn [app map_offset]. cbn in H. inversion H; subst. apply IH. assumption.
Qed.

Lemma scan_skip : forall pre n o post pc, asc (pre ++ (n, o) :: post) -> o <= pc ->
  lookup_scan (pre ++ (n, o) :: post) pc = lookup_scan ((n, o) :: post) pc.
Proof.
  induction pre as [|[n1 o1] pre IH]; intros n o post pc Ha Hpc; [reflexivity|].
  cbn [app] in *. pose proof (asc_tail _ _ Ha) as Ht.
  cbn [lookup_scan]. destruct (pre ++ (n, o) :: post) as [|[n2 o2] r] eqn:E.
  - destruct pre; discriminate.
  - assert (Hlt: o2 <= pc).
    { destruct pre as [|[n3 o3] pre'].
      - cbn in E. inversion E; subst. exact Hpc.
      - cbn in E. inversion E; subst.
        pose proof (asc_all_ge _ _ _ Ht) as F. rewrite Forall_forall in F.
        specialize (F (n, o) ltac:(apply in_or_app; right; left; reflexivity)). cbn in F. lia. }
    replace ((o1 <=? pc) && (pc <? o2)) with false by (symmetry; apply andb_false_intro2; apply Z.ltb_ge; lia).
    rewrite <- E. apply IH; [rewrite E; exact Ht | exact Hpc].
Qed.

Lemma lookup_symbol_scan tab pc :
  match tab with [] => True | (_, o0) :: _ => o0 <= pc end -> lookup_symbol tab pc = lookup_scan tab pc.
Proof.
  destruct tab as [|[n0 o0] r]; intros H; [reflexivity|]. unfold lookup_symbol.
  replace (pc <? o0) with false by (symmetry; apply Z.ltb_ge; exact H). reflexivity.
Qed.

(* an instruction whose address lies in [entry n, next entry) is labelled n+(pc - entry n) *)
Theorem lookup_correct pre n o post pc :
  asc (pre ++ (n, o) :: post) -> NoDup (map fst (pre ++ (n, o) :: post)) ->
  o <= pc -> match post with [] => True | (_, o2) :: _ => pc < o2 end ->
  trace_symbol (pre ++ (n, o) :: post) pc = Some (n, pc - o).
Proof.
  intros Ha Hn Hpc Hnext. unfold trace_symbol.
  assert (Hfirst: match pre ++ (n, o) :: post with [] => True | (_, o0) :: _ => o0 <= pc end).
  { destruct pre as [|[n0 o0] pre']; [cbn; exact Hpc|]. cbn [app].
    cbn [app] in Ha. pose proof (asc_all_ge _ _ _ Ha) as F. rewrite Forall_forall in F.
    specialize (F (n, o) ltac:(apply in_or_app; right; left; reflexivity)). cbn in F. lia. }
  rewrite lookup_symbol_scan by exact Hfirst. rewrite scan_skip by assumption.
  assert (Hs: lookup_scan ((n, o) :: post) pc = Some n).
  { cbn [lookup_scan]. destruct post as [|[n2 o2] r2].
    - replace (o <=? pc) with true by (symmetry; apply Z.leb_le; exact Hpc). reflexivity.
    - replace ((o <=? pc) && (pc <? o2)) with true; [reflexivity|].
      symmetry. apply andb_true_intro. split; [apply Z.leb_le | apply Z.ltb_lt]; assumption. }
  rewrite Hs. rewrite map_offset_found by assumption. reflexivity.
Qed.

(* before the first entry there is no symbol *)
Theorem lookup_before_first n0 o0 r pc : pc < o0 -> trace_symbol ((n0, o0) :: r) pc = None.
Proof. intros H. unfold trace_symbol, lookup_symbol. replace (pc <? o0) with true by (symmetry; apply Z.ltb_lt; exact H). reflexivity. Qed.

(* offset 0 is shown exactly at a procedure's entry *)
Corollary offset_zero_iff_entry pre n o post pc :
  asc (pre ++ (n, o) :: post) -> NoDup (map fst (pre ++ (n, o) :: post)) ->
  o <= pc -> match post with [] => True | (_, o2) :: _ => pc < o2 end ->
  (exists m, trace_symbol (pre ++ (n, o) :: post) pc = Some (m, 0)) <-> pc = o.
Proof.
  intros Ha Hn Hpc Hnext. rewrite (lookup_correct pre n o post pc Ha Hn Hpc Hnext). split.
  - intros [m H]. inversion H. lia.
  - intros ->. exists n. f_equal. f_equal. lia.
Qed.

(* ---- the n-th trace line reports the n-th instruction of the ISA trace ---- *)
Fixpoint isa_steps (n : nat) (a : arch) (inp : inputs) : option (arch * inputs) :=
  match n with
  | O => Some (a, inp)
  | S k => match Isa.step a inp with
           | Ok (a', inp', Exit _) => None
           | Ok (a', inp', _) => isa_steps k a' inp'
           | Undefined _ => None
           end
  end.
Fixpoint sim_steps (n : nat) (s : sim) (inp : inputs) : option (sim * inputs) :=
  match n with
  | O => Some (s, inp)
  | S k => match SimModel.step s inp with
           | SOk (s', inp', Exit _) => None
           | SOk (s', inp', _) => sim_steps k s' inp'
           | _ => None
           end
  end.

Lemma steps_agree : forall n s inp a' inp', wf s -> isa_steps n (arch_of s) inp = Some (a', inp') ->
  exists s', sim_steps n s inp = Some (s', inp') /\ arch_of s' = a' /\ s_cycles s' = s_cycles s + Z.of_nat n /\ wf s'.
Proof.
  induction n as [|n IH]; intros s inp a' inp' Hwf H.
  - cbn in H. inversion H; subst. exists s. cbn. split; [reflexivity|]. split; [reflexivity|]. split; [lia|assumption].
  - cbn [isa_steps] in H. destruct (Isa.step (arch_of s) inp) as [[[a1 inp1] ev]|u] eqn:Es; [|discriminate].
    destruct (step_refines_isa s inp a1 inp1 ev Hwf Es) as (s1 & Hs & Ha & Hwf1 & Hcyc & Hbk).
    cbn [sim_steps]. rewrite Hs.
    destruct ev as [|c|b st|st g]; try discriminate;
      (rewrite <- Ha in H; destruct (IH s1 inp1 a' inp' Hwf1 H) as (s' & H1 & H2 & H3 & H4);
       exists s'; split; [assumption|]; split; [assumption|]; split; [lia|assumption]).
Qed.

Theorem trace_columns_are_isa tab n s inp a' inp' :
  wf s -> s_cycles s = 0 -> isa_steps n (arch_of s) inp = Some (a', inp') ->
  exists s', sim_steps n s inp = Some (s', inp') /\
    trace_prefix tab s' = (Z.of_nat n, pc a', trace_symbol tab (pc a'), fetch a' / 16, fetch a' mod 16).
Proof.
  intros Hwf Hc H. destruct (steps_agree n s inp a' inp' Hwf H) as (s' & H1 & H2 & H3 & H4).
  exists s'. split; [exact H1|]. unfold trace_prefix. rewrite fetch_eq, H2, H3, Hc.
  pose proof (fetch_range a') as Hf. rewrite (opc_eq _ Hf), land_15.
  replace (s_pc s') with (pc a') by (rewrite <- H2; reflexivity). reflexivity.
Qed.
