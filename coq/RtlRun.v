(* RtlRun.v -- the generated design (this run's gen/RtlHex.v), clocked with the testbench's system-call shim as its
   environment, refines the ISA: per clock, and for whole runs from reset. *)
From Coq Require Import ZArith Lia Bool List String.
From HexVerif Require Import WMap Isa Vexp RtlSem RefRtl RtlC03 RtlIsa.
From HexVerif.gen Require RtlHex.
Import ListNotations.
Local Open Scope Z_scope.

(* one clock of the system under test: sample the request lines, let the shim act, then the rising edge *)
Definition tb_step (d : design) (s : rstate) (inp : inputs) : rstate * inputs * event :=
  let o := outs d s in
  let '(s1, inp1, ev) := shim (getv "o_syscall_valid" o 0) (getv "o_syscall" o 0) s inp in
  (cycle d s1, inp1, ev).

(* n clocks: final state, remaining input, events, and the instruction byte retired by each clock *)
Fixpoint tb_run (d : design) (n : nat) (s : rstate) (inp : inputs) : rstate * inputs * list event * list Z :=
  match n with
  | O => (s, inp, [], [])
  | S m => let '(s1, inp1, ev) := tb_step d s inp in
           let '(s2, inp2, evs, bs) := tb_run d m s1 inp1 in
           (s2, inp2, ev :: evs, wire d s n_fdata :: bs)
  end.
(* n instructions of the ISA: final state, remaining input, events, executed instruction bytes; None if undefined *)
Fixpoint isa_run (n : nat) (a : arch) (inp : inputs) : option (arch * inputs * list event * list Z) :=
  match n with
  | O => Some (a, inp, [], [])
  | S m => match step a inp with
           | Ok (a1, inp1, ev) =>
               match isa_run m a1 inp1 with
               | Some (a2, inp2, evs, bs) => Some (a2, inp2, ev :: evs, fetch a :: bs)
               | None => None
               end
           | Undefined _ => None
           end
  end.

(* a READ system call must not overwrite the byte its own SVC instruction is fetched from (the testbench performs the
   write before the clock edge that retires the SVC, the ISA after the fetch) *)
Definition read_safe (a a1 : arch) (ev : event) : Prop := is_read ev = true -> fetch (with_mem a (mem a1)) = fetch a.
(* the property's range along a run *)
Fixpoint run_ok (n : nat) (a : arch) (inp : inputs) : Prop :=
  match n with
  | O => True
  | S m => match step a inp with
           | Ok (a1, inp1, ev) => in_range (fetch a) a1 /\ read_safe a a1 ev /\ run_ok m a1 inp1
           | Undefined _ => True
           end
  end.

Lemma getv_valid a b : getv "o_syscall_valid" [("o_syscall"%string, a); ("o_syscall_valid"%string, b)] 0 = b.
Proof. reflexivity. Qed.
Lemma getv_call a b : getv "o_syscall" [("o_syscall"%string, a); ("o_syscall_valid"%string, b)] 0 = a.
Proof. reflexivity. Qed.

Lemma arch_eta a : {| pc := pc a; areg := areg a; breg := breg a; oreg := oreg a; mem := mem a |} = a.
Proof. destruct a. reflexivity. Qed.

Theorem tb_step_refines s inp a' inp' ev :
  Inv s -> step (abs s) inp = Ok (a', inp', ev) -> in_range (fetch (abs s)) a' -> read_safe (abs s) a' ev ->
  exists s', tb_step RtlHex.design s inp = (s', inp', ev) /\ abs s' = a' /\ Inv s'.
Proof.
  intros Hinv H R RS. pose proof Hinv as [Wf I]. rewrite fetch_abs in R.
  unfold tb_step. rewrite (rtl_outs_are_ref s Wf), getv_valid, getv_call.
  pose proof (shim_matches_isa s inp a' inp' ev Hinv H) as SH. rewrite SH.
  pose proof (shim_wf _ _ _ _ _ _ _ Wf SH) as [Wf1 [E1 [E2 [E3 [E4 [Enr Er]]]]]].
  pose proof (ref_refines_isa s inp a' inp' ev Hinv H R) as RR.
  destruct (is_read ev) eqn:Rd.
  - (* READ: the shim has written the byte; the SVC then retires *)
    assert (K : r_fetch s = 211).
    { specialize (Er eq_refl). unfold ref_syscall_valid in Er. destruct (r_fetch s =? 211) eqn:Q; [apply Z.eqb_eq; exact Q | congruence]. }
    set (s1 := set_mem s (mem a')) in *.
    assert (K1 : r_fetch s1 = 211) by (rewrite <- K; apply (RS Rd)).
    exists (cycle RtlHex.design s1). split; [reflexivity|]. rewrite (rtl_cycle_is_ref s1 Wf1).
    split; [|apply ref_cycle_inv; split; [exact Wf1 | exact I]].
    rewrite (ref_cycle_svc s1 K1). rewrite (ref_cycle_svc s K) in RR.
    unfold abs, with_mem in *. cbn [r_pc r_areg r_breg r_oreg r_mem set_mem s1] in *.
    injection RR as P1 P2 P3 P4. rewrite P1, P2, P3, P4. apply arch_eta.
  - exists (cycle RtlHex.design s). split; [reflexivity|]. rewrite (rtl_cycle_is_ref s Wf).
    split; [exact RR | apply ref_cycle_inv; exact Hinv].
Qed.

Theorem tb_run_refines : forall n s inp a inp' evs bs,
  Inv s -> isa_run n (abs s) inp = Some (a, inp', evs, bs) -> run_ok n (abs s) inp ->
  exists s', tb_run RtlHex.design n s inp = (s', inp', evs, bs) /\ abs s' = a /\ Inv s'.
Proof.
  induction n as [|n IH]; intros s inp a inp' evs bs Hinv H OK.
  - cbn [isa_run] in H. injection H as <- <- <- <-. exists s. split; [reflexivity|]. split; [reflexivity | exact Hinv].
  - cbn [isa_run] in H. cbn [run_ok] in OK.
    destruct (step (abs s) inp) as [[[a1 inp1] ev]|u] eqn:St; [|discriminate].
    destruct OK as [R [RS OK]].
    destruct (isa_run n a1 inp1) as [[[[a2 inp2] evs2] bs2]|] eqn:Rn; [|discriminate].
    injection H as <- <- <- <-.
    destruct (tb_step_refines s inp a1 inp1 ev Hinv St R RS) as [s1 [T1 [A1 I1]]].
    rewrite <- A1 in Rn, OK. destruct (IH s1 inp1 a2 inp2 evs2 bs2 I1 Rn OK) as [s2 [T2 [A2 I2]]].
    exists s2. cbn [tb_run]. rewrite T1, T2. pose proof Hinv as [Wf _].
    rewrite (rtl_fetch_is_ref s Wf), fetch_abs. split; [reflexivity|]. split; assumption.
Qed.

(* the image of a binary after reset: registers clear, memory = the loaded words *)
Lemma load_words_range : forall ws m a0, (forall a, 0 <= a -> 0 <= rd m a < M32) -> 0 <= a0 ->
  Forall (fun w => 0 <= w < M32) ws -> forall a, 0 <= a -> 0 <= rd (load_words m a0 ws) a < M32.
Proof.
  induction ws as [|w r IH]; intros m a0 Hm H0 F a Ha; [apply Hm; assumption|].
  inversion F; subst. cbn [load_words]. apply IH; try assumption; try lia.
  apply rd_wr_range; assumption.
Qed.

Lemma boot_is_reset ws : boot ws = abs (reset_state (load_words WMap.zero 0 ws)).
Proof. reflexivity. Qed.

Lemma boot_inv ws : Forall (fun w => 0 <= w < M32) ws -> Inv (reset_state (load_words WMap.zero 0 ws)).
Proof.
  intros F. apply reset_inv. apply load_words_range; try assumption; try lia.
  intros a Ha. unfold WMap.zero. rewrite rd_empty. unfold M32. lia.
Qed.

Lemma isa_run_length : forall n a inp a' inp' evs bs, isa_run n a inp = Some (a', inp', evs, bs) -> List.length bs = n /\ List.length evs = n.
Proof.
  induction n as [|n IH]; intros a inp a' inp' evs bs H; cbn [isa_run] in H.
  - injection H as <- <- <- <-. split; reflexivity.
  - destruct (step a inp) as [[[a1 inp1] ev]|u]; [|discriminate].
    destruct (isa_run n a1 inp1) as [[[[a2 inp2] evs2] bs2]|] eqn:Rn; [|discriminate].
    injection H as <- <- <- <-. destruct (IH _ _ _ _ _ _ Rn) as [L1 L2]. cbn [List.length]. split; congruence.
Qed.

(* ------------------------------------------------------------------ statements used by Properties_C03.v *)
Theorem rtl_is_reference : forall s, wf s ->
  cycle RtlHex.design s = ref_cycle s /\
  outs RtlHex.design s = [("o_syscall"%string, ref_syscall s); ("o_syscall_valid"%string, ref_syscall_valid s)] /\
  wire RtlHex.design s n_fdata = r_fetch s.
Proof. intros s W. split; [apply rtl_cycle_is_ref | split; [apply rtl_outs_are_ref | apply rtl_fetch_is_ref]]; exact W. Qed.

Theorem cycle_refines_isa : forall s inp a' inp' ev,
  Inv s -> step (abs s) inp = Ok (a', inp', ev) -> in_range (fetch (abs s)) a' ->
  abs (cycle RtlHex.design s) = (if is_read ev then with_mem a' (r_mem s) else a') /\ Inv (cycle RtlHex.design s).
Proof.
  intros s inp a' inp' ev Hinv H R. pose proof Hinv as [Wf _]. rewrite (rtl_cycle_is_ref s Wf). rewrite fetch_abs in R.
  split; [apply (ref_refines_isa s inp a' inp' ev Hinv H R) | apply ref_cycle_inv; exact Hinv].
Qed.

Theorem syscall_request : forall s, wf s ->
  let o := outs RtlHex.design s in
  (getv "o_syscall_valid" o 0 = 1 <-> fetch (abs s) = 211) /\
  (getv "o_syscall_valid" o 0 = 0 \/ getv "o_syscall_valid" o 0 = 1) /\
  getv "o_syscall" o 0 = areg (abs s) mod 4 /\
  (areg (abs s) <= 2 -> getv "o_syscall" o 0 = areg (abs s)).
Proof.
  intros s W. cbv zeta. rewrite (rtl_outs_are_ref s W), getv_valid, getv_call, fetch_abs.
  unfold ref_syscall_valid, ref_syscall. cbn [abs areg]. destruct W as [_ [Ha _]].
  repeat split.
  - destruct (r_fetch s =? 211) eqn:Q; [intros _; apply Z.eqb_eq; exact Q | discriminate].
  - intros ->. reflexivity.
  - destruct (r_fetch s =? 211); auto.
  - intros L. apply Z.mod_small. lia.
Qed.

(* with the request lines of the design driving the testbench's shim, one clock is one ISA instruction: same successor
   registers and memory, same event, same input consumption *)
Theorem clock_refines_isa : forall s inp a' inp' ev,
  Inv s -> step (abs s) inp = Ok (a', inp', ev) -> in_range (fetch (abs s)) a' -> read_safe (abs s) a' ev ->
  exists s', tb_step RtlHex.design s inp = (s', inp', ev) /\ abs s' = a' /\ Inv s'.
Proof. exact tb_step_refines. Qed.

Theorem one_instruction_per_clock : forall n s inp a inp' evs bs,
  Inv s -> isa_run n (abs s) inp = Some (a, inp', evs, bs) -> run_ok n (abs s) inp ->
  exists s' evs', tb_run RtlHex.design n s inp = (s', inp', evs', bs) /\ List.length bs = n.
Proof.
  intros n s inp a inp' evs bs Hinv H OK. destruct (tb_run_refines n s inp a inp' evs bs Hinv H OK) as [s' [T _]].
  exists s', evs. split; [exact T | apply (isa_run_length _ _ _ _ _ _ _ H)].
Qed.

Theorem run_refines_isa : forall n ws inp a inp' evs bs,
  Forall (fun w => 0 <= w < 4294967296) ws ->
  isa_run n (boot ws) inp = Some (a, inp', evs, bs) -> run_ok n (boot ws) inp ->
  exists s', tb_run RtlHex.design n (reset_state (load_words WMap.zero 0 ws)) inp = (s', inp', evs, bs) /\ abs s' = a.
Proof.
  intros n ws inp a inp' evs bs F H OK. rewrite boot_is_reset in H, OK.
  destruct (tb_run_refines n _ inp a inp' evs bs (boot_inv ws F) H OK) as [s' [T [A _]]]. exists s'. split; assumption.
Qed.

Theorem reset_state_inv : forall ws : list Z, Forall (fun w => 0 <= w < 4294967296) ws ->
  Inv (reset_state (load_words WMap.zero 0 ws)) /\ abs (reset_state (load_words WMap.zero 0 ws)) = boot ws.
Proof. intros ws F. split; [apply boot_inv; exact F | symmetry; apply boot_is_reset]. Qed.

(* ------------------------------------------------------------------ the full-strength per-clock statement (without
   read_safe) is FALSE: a READ whose result slot is the word holding its own SVC (known finding read-overwrites-own-svc).
   State: pc = 1 in the word 32 D3 30 D3, areg = 2 (READ), mem[1] = 0xFFFFFFFF so that sp+1 wraps to word 0; input 'A'. *)
Definition clock_refines_isa_full : Prop := forall s inp a' inp' ev,
  Inv s -> step (abs s) inp = Ok (a', inp', ev) -> in_range (fetch (abs s)) a' ->
  exists s', tb_step RtlHex.design s inp = (s', inp', ev) /\ abs s' = a'.

Definition selfmod_state : rstate :=
  {| r_pc := 1; r_areg := 2; r_breg := 0; r_oreg := 0; r_mem := wr (wr WMap.zero 0 3543192370) 1 4294967295 |}.
Definition selfmod_input : inputs := {| console := [65]; files := fun _ => [] |}.

Lemma selfmod_inv : Inv selfmod_state.
Proof.
  unfold Inv, wf, selfmod_state. cbn [r_pc r_areg r_breg r_oreg r_mem]. unfold M21, M32.
  split; [|reflexivity]. split; [lia|]. split; [lia|]. split; [lia|]. split; [lia|].
  apply rd_wr_range; [|lia | unfold M32; lia]. apply rd_wr_range; [|lia | unfold M32; lia].
  intros a Ha. unfold WMap.zero. rewrite rd_empty. unfold M32. lia.
Qed.

Theorem clock_refines_isa_full_refuted : ~ clock_refines_isa_full.
Proof.
  intros F.
  destruct (step (abs selfmod_state) selfmod_input) as [[[a' inp'] ev]|u] eqn:St; [|vm_compute in St; discriminate].
  assert (Ha : areg a' = 2 /\ pc a' = 2).
  { vm_compute in St. injection St as <- _ _. split; reflexivity. }
  destruct Ha as [Ha Hp].
  assert (R : in_range (fetch (abs selfmod_state)) a').
  { unfold in_range. rewrite Hp. split; [lia|]. intros K. vm_compute in K. discriminate. }
  destruct (F selfmod_state selfmod_input a' inp' ev selfmod_inv St R) as [s' [T A]].
  apply (f_equal (fun x => r_areg (fst (fst x)))) in T. cbn [fst] in T.
  apply (f_equal areg) in A. cbn [abs areg] in A. rewrite Ha in A. rewrite A in T.
  vm_compute in T. discriminate.
Qed.

(* ------------------------------------------------------------------ without [Inv] (a low nibble left in oreg_q, which no run
   from reset produces: reset_inv, ref_cycle_inv) the per-cycle statement is FALSE: the RTL decodes a prefixed OPR by the
   operand nibble only.  State: oreg = 1, byte D2 (ISA operand 1|2 = 3 = SVC, here WRITE; RTL: nibble 2 = SUB). *)
Definition cycle_refines_isa_all_states : Prop := forall s inp a' inp' ev,
  wf s -> step (abs s) inp = Ok (a', inp', ev) -> in_range (fetch (abs s)) a' ->
  abs (cycle RtlHex.design s) = (if is_read ev then with_mem a' (r_mem s) else a').

Definition outside_inv_state : rstate :=
  {| r_pc := 0; r_areg := 1; r_breg := 5; r_oreg := 1; r_mem := wr (wr WMap.zero 0 210) 1 10 |}.

Theorem cycle_refines_isa_all_states_refuted : ~ cycle_refines_isa_all_states.
Proof.
  intros F.
  assert (Wf : wf outside_inv_state).
  { unfold wf, outside_inv_state. cbn [r_pc r_areg r_breg r_oreg r_mem]. unfold M21, M32.
    split; [lia|]. split; [lia|]. split; [lia|]. split; [lia|].
    apply rd_wr_range; [|lia | unfold M32; lia]. apply rd_wr_range; [|lia | unfold M32; lia].
    intros a Ha. unfold WMap.zero. rewrite rd_empty. unfold M32. lia. }
  destruct (step (abs outside_inv_state) selfmod_input) as [[[a' inp'] ev]|u] eqn:St; [|vm_compute in St; discriminate].
  assert (Ha : areg a' = 1 /\ pc a' = 1 /\ is_read ev = false).
  { vm_compute in St. injection St as <- _ <-. repeat split. }
  destruct Ha as (Ha & Hp & He).
  assert (R : in_range (fetch (abs outside_inv_state)) a').
  { unfold in_range. rewrite Hp. split; [lia|]. intros K. vm_compute in K. discriminate. }
  pose proof (F outside_inv_state selfmod_input a' inp' ev Wf St R) as A. rewrite He in A.
  apply (f_equal areg) in A. rewrite Ha in A. vm_compute in A. discriminate.
Qed.

(* the property's range along a run, without the read_safe clause (for the full-strength statements) *)
Fixpoint run_in_range (n : nat) (a : arch) (inp : inputs) : Prop :=
  match n with
  | O => True
  | S m => match step a inp with
           | Ok (a1, inp1, ev) => in_range (fetch a) a1 /\ run_in_range m a1 inp1
           | Undefined _ => True
           end
  end.
