(* AsmListingReadProofs.v -- reading back the listing text gives the structured listing.
   For every layout the assembler model produces (well-formed directives, names without blanks, image below 2 GiB):
     read_listing (listing_text L) = Some (struct_listing L)
   i.e. the text emitProgramText prints (AsmListingRead.line_text over AsmLayout.listing), read by the total reader
   AsmListingRead.read_listing, is exactly the line-by-line structure C17_listing_agrees is about.
   Ingredients: the decimal and hexadecimal printers are inverted by the readers (below 10^25 resp. 16^20), the word
   splitter finds the words the printer joined, every numeric column of a layout is bounded by its size. *)
From Coq Require Import ZArith Lia Bool List String Ascii Arith.
From HexVerif Require Import WMap Isa AsmModel AsmLayout AsmSpec AsmStatements AsmLayoutProofs AsmListingRead.
Import ListNotations.
Local Open Scope Z_scope.

Ltac Zify.zify_post_hook ::= Z.div_mod_to_equations.

(* ================================================================== 1. strings as bytes *)
Lemma bytes_app a b : bytes_of_string (a ++ b)%string = bytes_of_string a ++ bytes_of_string b.
Proof. induction a as [|c a IH]; cbn; [reflexivity | rewrite IH; reflexivity]. Qed.

Lemma bytes_char k s : 0 <= k < 256 ->
  bytes_of_string (String (ascii_of_nat (Z.to_nat k)) s) = k :: bytes_of_string s.
Proof.
  intros Hk. cbn [bytes_of_string]. rewrite nat_ascii_embedding by lia. rewrite Z2Nat.id by lia. reflexivity.
Qed.

(* ================================================================== 2. digits: printer and reader *)
Definition nospace (w : list Z) : Prop := Forall (fun c => c <> 32) w.
Definition digitish (w : list Z) : Prop := Forall (fun c => 48 <= c <= 102) w.

Lemma dchar_range d : 0 <= d < 16 -> 48 <= dchar d <= 102.
Proof. intros H. unfold dchar. destruct (d <? 10) eqn:E; [apply Z.ltb_lt in E | apply Z.ltb_ge in E]; lia. Qed.

Lemma digit_of_dchar b d : (b = 10 \/ b = 16) -> 0 <= d < b -> digit_of b (dchar d) = Some d.
Proof.
  intros Hb Hd. unfold digit_of, dchar. destruct (d <? 10) eqn:E.
  - apply Z.ltb_lt in E. replace ((48 <=? 48 + d) && (48 + d <=? 57)) with true.
    + f_equal. lia.
    + symmetry. apply andb_true_iff. split; apply Z.leb_le; lia.
  - apply Z.ltb_ge in E. destruct Hb as [-> | ->]; [lia|].
    replace ((48 <=? 87 + d) && (87 + d <=? 57)) with false.
    + replace ((16 =? 16) && (97 <=? 87 + d) && (87 + d <=? 102)) with true; [f_equal; lia|].
      symmetry. rewrite !andb_true_iff. repeat split; try apply Z.leb_le; try lia.
    + symmetry. apply andb_false_iff. right. apply Z.leb_gt. lia.
Qed.

Lemma num_go_app b : forall l1 l2 a,
  num_go b (l1 ++ l2) a = match num_go b l1 a with Some a' => num_go b l2 a' | None => None end.
Proof.
  induction l1 as [|c l1 IH]; intros l2 a; cbn [app num_go]; [reflexivity|].
  destruct (digit_of b c); [apply IH | reflexivity].
Qed.

Lemma digits_spec b : (b = 10 \/ b = 16) -> forall f n a, 0 <= n < b ^ Z.of_nat f -> f <> O ->
  exists k : nat, num_go b (digits b f n) a = Some (a * b ^ Z.of_nat k + n) /\ digits b f n <> [] /\ digitish (digits b f n).
Proof.
  intros Hb. assert (Hb2 : 2 <= b <= 16) by (destruct Hb; lia).
  induction f as [|f IH]; intros n a Hn Hf; [contradiction|].
  cbn [digits]. destruct (n <? b) eqn:E.
  - apply Z.ltb_lt in E. exists 1%nat. cbn [num_go]. rewrite digit_of_dchar by (auto; lia).
    split; [f_equal; cbn; lia|]. split; [discriminate|]. constructor; [apply dchar_range; lia | constructor].
  - apply Z.ltb_ge in E.
    assert (Hq : 0 <= n / b < b ^ Z.of_nat f).
    { rewrite Nat2Z.inj_succ, Z.pow_succ_r in Hn by lia. split; [apply Z.div_pos; lia|].
      apply Z.div_lt_upper_bound; lia. }
    assert (Hf0 : f <> O).
    { intros ->. cbn in Hq. assert (1 <= n / b) by (apply Z.div_le_lower_bound; lia). lia. }
    destruct (IH (n / b) a Hq Hf0) as (k & Hk & Hne & Hd).
    exists (S k). rewrite num_go_app, Hk. cbn [num_go].
    rewrite digit_of_dchar by (auto; apply Z.mod_pos_bound; lia).
    split.
    + f_equal. rewrite Nat2Z.inj_succ, Z.pow_succ_r by lia.
      pose proof (Z.div_mod n b ltac:(lia)). nia.
    + split; [destruct (digits b f (n / b)); [contradiction | discriminate]|].
      apply Forall_app. split; [exact Hd|]. constructor; [|constructor].
      apply dchar_range. pose proof (Z.mod_pos_bound n b ltac:(lia)). lia.
Qed.

Lemma read_nat_digits b f n : (b = 10 \/ b = 16) -> 0 <= n < b ^ Z.of_nat f -> f <> O ->
  read_nat b (digits b f n) = Some n /\ digits b f n <> [] /\ digitish (digits b f n).
Proof.
  intros Hb Hn Hf. destruct (digits_spec b Hb f n 0 Hn Hf) as (k & Hk & Hne & Hd).
  split; [|split; assumption]. unfold read_nat. destruct (digits b f n); [contradiction|]. rewrite Hk. f_equal.
Qed.

(* digits always read as SOME number, whatever the magnitude (used for the total line) *)
Lemma digits_readable : forall f n a, 0 <= n -> exists v, num_go 10 (digits 10 (S f) n) a = Some v /\ digits 10 (S f) n <> [] /\ digitish (digits 10 (S f) n).
Proof.
  induction f as [|f IH]; intros n a Hn.
  - cbn [digits]. destruct (n <? 10) eqn:E.
    + apply Z.ltb_lt in E. cbn [num_go]. rewrite digit_of_dchar by (auto; lia). eexists. split; [reflexivity|].
      split; [discriminate|]. constructor; [apply dchar_range; lia | constructor].
    + cbn [app num_go]. rewrite digit_of_dchar by (auto; apply Z.mod_pos_bound; lia). eexists. split; [reflexivity|].
      split; [discriminate|]. constructor; [|constructor]. apply dchar_range. pose proof (Z.mod_pos_bound n 10 ltac:(lia)). lia.
  - change (digits 10 (S (S f)) n) with (if n <? 10 then [dchar n] else digits 10 (S f) (n / 10) ++ [dchar (n mod 10)]).
    destruct (n <? 10) eqn:E.
    + apply Z.ltb_lt in E. cbn [num_go]. rewrite digit_of_dchar by (auto; lia). eexists. split; [reflexivity|].
      split; [discriminate|]. constructor; [apply dchar_range; lia | constructor].
    + apply Z.ltb_ge in E. destruct (IH (n / 10) a ltac:(apply Z.div_pos; lia)) as (v & Hv & Hne & Hd).
      rewrite num_go_app, Hv. cbn [num_go]. rewrite digit_of_dchar by (auto; apply Z.mod_pos_bound; lia).
      eexists. split; [reflexivity|]. split; [destruct (digits 10 (S f) (n / 10)); [contradiction | discriminate]|].
      apply Forall_app. split; [exact Hd|]. constructor; [|constructor].
      apply dchar_range. pose proof (Z.mod_pos_bound n 10 ltac:(lia)). lia.
Qed.

(* the model's decimal printer, as bytes *)
Lemma dec_go_bytes : forall f n acc, 0 <= n ->
  bytes_of_string (dec_go f n acc) = digits 10 f n ++ bytes_of_string acc.
Proof.
  induction f as [|f IH]; intros n acc Hn; [reflexivity|].
  cbn [dec_go digits]. pose proof (Z.mod_pos_bound n 10 ltac:(lia)) as Hm.
  destruct (n <? 10) eqn:E.
  - apply Z.ltb_lt in E. rewrite bytes_char by lia. unfold dchar. replace (n mod 10) with n by (symmetry; apply Z.mod_small; lia).
    replace (n <? 10) with true by (symmetry; apply Z.ltb_lt; lia). reflexivity.
  - rewrite IH by (apply Z.div_pos; lia). rewrite bytes_char by lia. rewrite <- app_assoc. cbn [app].
    unfold dchar. replace (n mod 10 <? 10) with true by (symmetry; apply Z.ltb_lt; lia). reflexivity.
Qed.

Lemma dec_bytes_nonneg n : 0 <= n -> dec_bytes n = digits 10 25 n.
Proof.
  intros Hn. unfold dec_bytes, dec. replace (n <? 0) with false by (symmetry; apply Z.ltb_ge; lia).
  rewrite dec_go_bytes by lia. cbn [bytes_of_string]. apply app_nil_r.
Qed.
Lemma dec_bytes_neg n : n < 0 -> dec_bytes n = 45 :: digits 10 25 (- n).
Proof.
  intros Hn. unfold dec_bytes, dec. replace (n <? 0) with true by (symmetry; apply Z.ltb_lt; lia).
  cbn [bytes_of_string]. rewrite dec_go_bytes by lia. cbn [bytes_of_string]. rewrite app_nil_r. reflexivity.
Qed.

Definition DECMAX : Z := 10 ^ 25.

Lemma digitish_head c r : digitish (c :: r) -> (c =? 45) = false /\ (c =? 40) = false /\ c <> 32.
Proof. intros H. inversion H; subst. repeat split; try apply Z.eqb_neq; lia. Qed.

Lemma digitish_nospace w : digitish w -> nospace w.
Proof. unfold digitish, nospace. intros H. eapply Forall_impl; [|exact H]. cbn. intros; lia. Qed.

(* a printed decimal number: a word, starting with '-' or a digit, read back by read_int *)
Definition numword (w : list Z) : Prop :=
  w <> [] /\ nospace w /\ exists c r, w = c :: r /\ (c =? 40) = false.

Lemma read_int_dec n : - DECMAX < n < DECMAX -> read_int (dec_bytes n) = Some n /\ numword (dec_bytes n).
Proof.
  intros Hn. unfold DECMAX in Hn. destruct (Z_lt_ge_dec n 0) as [Hneg | Hpos].
  - rewrite dec_bytes_neg by lia.
    destruct (read_nat_digits 10 25 (- n) ltac:(auto) ltac:(change (Z.of_nat 25) with 25; lia) ltac:(discriminate)) as (Hr & Hne & Hd).
    split.
    + cbn [read_int]. rewrite Z.eqb_refl, Hr. cbn. f_equal. lia.
    + split; [discriminate|]. split; [constructor; [lia | apply digitish_nospace; exact Hd]|].
      eexists _, _. split; reflexivity.
  - rewrite dec_bytes_nonneg by lia.
    destruct (read_nat_digits 10 25 n ltac:(auto) ltac:(change (Z.of_nat 25) with 25; lia) ltac:(discriminate)) as (Hr & Hne & Hd).
    destruct (digits 10 25 n) as [|c r] eqn:E; [contradiction|].
    destruct (digitish_head c r Hd) as (H45 & H40 & H32).
    split.
    + cbn [read_int]. rewrite H45. exact Hr.
    + split; [discriminate|]. split; [apply digitish_nospace; exact Hd|]. eexists _, _. split; [reflexivity | exact H40].
Qed.

(* any printed decimal is a word that reads as some integer *)
Lemma read_int_dec_some n : exists v, read_int (dec_bytes n) = Some v /\ numword (dec_bytes n).
Proof.
  destruct (Z_lt_ge_dec n 0) as [Hneg | Hpos].
  - rewrite dec_bytes_neg by lia. destruct (digits_readable 24 (- n) 0 ltac:(lia)) as (v & Hv & Hne & Hd).
    exists (- v). split.
    + cbn [read_int]. rewrite Z.eqb_refl. unfold read_nat. destruct (digits 10 25 (- n)); [contradiction|]. rewrite Hv. reflexivity.
    + split; [discriminate|]. split; [constructor; [lia | apply digitish_nospace; exact Hd]|]. eexists _, _. split; reflexivity.
  - rewrite dec_bytes_nonneg by lia. destruct (digits_readable 24 n 0 ltac:(lia)) as (v & Hv & Hne & Hd).
    destruct (digits 10 25 n) as [|c r] eqn:E; [contradiction|].
    destruct (digitish_head c r Hd) as (H45 & H40 & H32).
    exists v. split.
    + cbn [read_int]. rewrite H45. unfold read_nat. exact Hv.
    + split; [discriminate|]. split; [apply digitish_nospace; exact Hd|]. eexists _, _. split; [reflexivity | exact H40].
Qed.

Lemma read_paren_dec n : - DECMAX < n < DECMAX ->
  read_paren_int (40 :: dec_bytes n ++ [41]) = Some n.
Proof.
  intros Hn. cbn [read_paren_int]. rewrite Z.eqb_refl. rewrite rev_app_distr. cbn [rev app]. rewrite Z.eqb_refl, rev_involutive.
  apply read_int_dec. exact Hn.
Qed.

Lemma read_paren_numword w : numword w -> read_paren_int w = None.
Proof. intros (_ & _ & c & r & -> & H). cbn [read_paren_int]. rewrite H. reflexivity. Qed.

Lemma read_size_dec n : 0 <= n < DECMAX -> read_size (40 :: dec_bytes n) = Some n.
Proof.
  intros Hn. cbn [read_size]. rewrite Z.eqb_refl. rewrite dec_bytes_nonneg by lia.
  apply read_nat_digits; [auto | unfold DECMAX in Hn; change (Z.of_nat 25) with 25; lia | discriminate].
Qed.

(* offsets *)
Lemma num_go_zeros : forall k l, num_go 16 (repeat 48 k ++ l) 0 = num_go 16 l 0.
Proof. induction k as [|k IH]; intros l; [reflexivity|]. cbn [repeat app num_go]. exact (IH l). Qed.

Lemma read_off_text off : 0 <= off < 2147483648 ->
  read_off (off_text off) = Some off /\ off_text off <> [] /\ nospace (off_text off).
Proof.
  intros Ho. unfold off_text. destruct (off =? 0) eqn:E.
  - apply Z.eqb_eq in E. subst off. split; [reflexivity|]. split; [discriminate|]. repeat constructor; lia.
  - apply Z.eqb_neq in E.
    destruct (read_nat_digits 16 20 off ltac:(auto) ltac:(change (Z.of_nat 20) with 20; lia) ltac:(discriminate)) as (Hr & Hne & Hd).
    fold (hex off) in *. split; [|split].
    + cbn [app read_off]. cbn [Z.eqb Pos.eqb andb]. unfold pad_left, read_nat.
      destruct (repeat 48 (6 - List.length (hex off)) ++ hex off) eqn:El.
      * apply app_eq_nil in El. destruct El as [_ El]. contradiction.
      * rewrite <- El, num_go_zeros. unfold read_nat in Hr. destruct (hex off); [contradiction | exact Hr].
    + discriminate.
    + cbn [app]. constructor; [lia|]. constructor; [lia|]. unfold pad_left. apply Forall_app. split.
      * apply Forall_forall. intros x Hx. apply repeat_spec in Hx. lia.
      * apply digitish_nospace. exact Hd.
Qed.

(* ================================================================== 3. words *)
Definition sp_or_end (r : list Z) : Prop := r = [] \/ exists r', r = 32 :: r'.

Lemma tokens_word : forall w r, w <> [] -> nospace w -> sp_or_end r -> tokens (w ++ r) = w :: tokens r.
Proof.
  induction w as [|c w IH]; intros r Hne Hns Hr; [contradiction|].
  inversion Hns as [|? ? Hc Hw]; subst.
  cbn [app tokens]. replace (c =? 32) with false by (symmetry; apply Z.eqb_neq; exact Hc).
  destruct w as [|c2 w].
  - cbn [app]. destruct Hr as [-> | (r' & ->)]; [reflexivity|]. rewrite Z.eqb_refl. reflexivity.
  - change ((c2 :: w) ++ r) with (c2 :: (w ++ r)). inversion Hw as [|? ? Hc2 Hw2]; subst.
    replace (c2 =? 32) with false by (symmetry; apply Z.eqb_neq; exact Hc2).
    change (c2 :: w ++ r) with ((c2 :: w) ++ r). rewrite (IH r ltac:(discriminate) Hw Hr). reflexivity.
Qed.

Lemma tokens_spaces : forall k r, tokens (repeat 32 k ++ r) = tokens r.
Proof. induction k as [|k IH]; intros r; [reflexivity|]. cbn [repeat app tokens]. rewrite Z.eqb_refl. apply IH. Qed.

Lemma tokens_sp r : tokens (32 :: r) = tokens r.
Proof. reflexivity. Qed.

(* a possibly empty word (a name) *)
Definition optw (w : list Z) : list (list Z) := match w with [] => [] | _ => [w] end.
Lemma tokens_optw w r : nospace w -> (exists r', r = 32 :: r') -> tokens (w ++ r) = optw w ++ tokens r.
Proof.
  intros Hns Hr. destruct w as [|c w]; [reflexivity|].
  rewrite tokens_word; [reflexivity | discriminate | exact Hns | right; exact Hr].
Qed.

Ltac word_nospace := cbn; unfold nospace; repeat (constructor; [lia|]); constructor.

(* ================================================================== 4. mnemonics *)
Lemma token_str_word t : bytes_of_string (token_str t) <> [] /\ nospace (bytes_of_string (token_str t)).
Proof. destruct t; (split; [discriminate | word_nospace]). Qed.

Lemma classify_mnem t : (is_abs_opc t || is_rel_opc t) = true ->
  classify (bytes_of_string (token_str t)) = WMnem (match token_opc t with Some c => c | None => 0 end).
Proof. destruct t; cbn; intros H; try discriminate H; reflexivity. Qed.

Lemma assoc_opr t : opr_opc t <> None ->
  assoc (bytes_of_string (token_str t)) oprs = opr_opc t.
Proof. destruct t; cbn; intros H; try (exfalso; apply H; reflexivity); reflexivity. Qed.

(* ================================================================== 5. one line *)
(* the numbers of a line are printable *)
Definition line_bnd (off size : Z) : Prop := 0 <= off < 2147483648 /\ 0 <= size < DECMAX.

(* the words of a whole line, given the words of its directive text *)
Lemma tokens_line off text size ws :
  line_bnd off size ->
  (forall r, (exists r', r = 32 :: r') -> tokens (bytes_of_string text ++ r) = ws ++ tokens r) ->
  tokens (line_text (off, text, size)) = off_text off :: ws ++ [40 :: dec_bytes size; w_bytes_close].
Proof.
  intros [Ho Hs] Ht. unfold line_text.
  destruct (read_off_text off Ho) as (_ & One & Ons).
  rewrite tokens_word; [|exact One | exact Ons | right; eexists; reflexivity]. f_equal.
  rewrite tokens_sp. unfold pad_right. rewrite <- app_assoc.
  set (k := (20 - List.length (bytes_of_string text))%nat).
  assert (Hr : exists r', repeat 32 k ++ 32 :: (40 :: dec_bytes size) ++ 32 :: w_bytes_close = 32 :: r').
  { destruct k; cbn [repeat app]; eexists; reflexivity. }
  rewrite (Ht _ Hr). f_equal.
  rewrite tokens_spaces, tokens_sp.
  assert (Hw : nospace (40 :: dec_bytes size)).
  { constructor; [lia|]. destruct (read_int_dec size) as (_ & _ & Hns & _); [unfold DECMAX in *; lia | exact Hns]. }
  rewrite tokens_word; [reflexivity | discriminate | exact Hw | right; eexists; reflexivity].
Qed.

Lemma read_line_of_words line offw ws sw off size :
  tokens line = offw :: ws ++ [sw; w_bytes_close] ->
  read_off offw = Some off -> read_size sw = Some size ->
  read_listing_line line = read_text off size ws.
Proof.
  intros Ht Ho Hs. unfold read_listing_line. rewrite Ht. rewrite rev_app_distr. cbn [rev app].
  replace (list_eqb w_bytes_close w_bytes_close) with true by reflexivity.
  rewrite Ho, Hs, rev_involutive. reflexivity.
Qed.

(* names: no blank inside *)
Definition name_ok (d : directive) : Prop :=
  match d with DLabel _ n | DRef _ n _ => nospace (bytes_of_string n) | _ => True end.

(* what must be bounded in an item for its line to be printable and readable *)
Definition item_bnd (it : item) : Prop :=
  line_bnd (d_off (it_st it)) (dsize (it_d it) (it_st it)) /\
  match it_d it with
  | DRef _ _ _ => - DECMAX < d_val (it_st it) < DECMAX
  | _ => True
  end.

Lemma int_range_dec v : int_range v -> - DECMAX < v < DECMAX.
Proof. unfold int_range, DECMAX. lia. Qed.

Definition listing_line_of (it : item) : Z * string * Z :=
  let d := it_d it in let st := it_st it in
  (d_off st, dir_text d st (negb (match d with DPadding _ => true | _ => false end)), dsize d st).

Lemma read_item_line it :
  (wf_it it \/ exists n, it = padit n) -> name_ok (it_d it) -> item_bnd it ->
  read_listing_line (line_text (listing_line_of it)) = Some (struct_line it).
Proof.
  intros Hwf Hnm [[Ho Hs] Hv]. unfold listing_line_of, struct_line.
  set (off := d_off (it_st it)) in *. set (size := dsize (it_d it) (it_st it)) in *.
  destruct (read_off_text off Ho) as (Hro & _ & _).
  pose proof (read_size_dec size Hs) as Hrs.
  assert (Hbnd : line_bnd off size) by (split; assumption).
  destruct (it_d it) as [v | kd nm | t v | t nm rel | t | m] eqn:Ed; cbn [negb dir_text].
  - (* DATA v *)
    assert (Hv' : int_range v). { destruct Hwf as [Hwf | (n & ->)]; [unfold wf_it in Hwf; rewrite Ed in Hwf; exact Hwf | discriminate Ed]. }
    destruct (read_int_dec v (int_range_dec v Hv')) as (Hrv & Hne & Hns & _).
    erewrite read_line_of_words; [| apply tokens_line with (ws := [bytes_of_string "DATA"; dec_bytes v]); [exact Hbnd|] | exact Hro | exact Hrs].
    + cbn [read_text]. change (classify (bytes_of_string "DATA")) with WData. cbn. fold (dec_bytes v). rewrite Hrv. reflexivity.
    + intros r Hr. rewrite bytes_app. change (bytes_of_string "DATA ") with (bytes_of_string "DATA" ++ [32]).
      rewrite <- !app_assoc. rewrite tokens_word; [|discriminate | word_nospace | right; eexists; reflexivity].
      cbn [app]. rewrite tokens_sp. fold (dec_bytes v). rewrite tokens_word; [reflexivity | exact Hne | exact Hns | right; exact Hr].
  - (* labels *)
    cbn [name_ok] in Hnm.
    destruct kd; cbn [dir_text].
    + erewrite read_line_of_words; [| apply tokens_line with (ws := optw (bytes_of_string nm)); [exact Hbnd|] | exact Hro | exact Hrs].
      * destruct (bytes_of_string nm); reflexivity.
      * intros r Hr. apply tokens_optw; assumption.
    + erewrite read_line_of_words; [| apply tokens_line with (ws := bytes_of_string "FUNC" :: optw (bytes_of_string nm)); [exact Hbnd|] | exact Hro | exact Hrs].
      * destruct (bytes_of_string nm); reflexivity.
      * intros r Hr. rewrite bytes_app. change (bytes_of_string "FUNC ") with (bytes_of_string "FUNC" ++ [32]).
        rewrite <- !app_assoc. rewrite tokens_word; [|discriminate | word_nospace | right; eexists; reflexivity].
        cbn [app]. rewrite tokens_sp. rewrite tokens_optw by assumption. reflexivity.
    + erewrite read_line_of_words; [| apply tokens_line with (ws := bytes_of_string "PROC" :: optw (bytes_of_string nm)); [exact Hbnd|] | exact Hro | exact Hrs].
      * destruct (bytes_of_string nm); reflexivity.
      * intros r Hr. rewrite bytes_app. change (bytes_of_string "PROC ") with (bytes_of_string "PROC" ++ [32]).
        rewrite <- !app_assoc. rewrite tokens_word; [|discriminate | word_nospace | right; eexists; reflexivity].
        cbn [app]. rewrite tokens_sp. rewrite tokens_optw by assumption. reflexivity.
  - (* MNEMONIC v *)
    assert (Hw : (is_abs_opc t || is_rel_opc t) = true /\ int_range v).
    { destruct Hwf as [Hwf | (n & ->)]; [unfold wf_it in Hwf; rewrite Ed in Hwf; exact Hwf | discriminate Ed]. }
    destruct Hw as [Ht Hv'].
    destruct (read_int_dec v (int_range_dec v Hv')) as (Hrv & Hnw). pose proof Hnw as (Hne & Hns & _).
    destruct (token_str_word t) as [Tne Tns].
    erewrite read_line_of_words; [| apply tokens_line with (ws := [bytes_of_string (token_str t); dec_bytes v]); [exact Hbnd|] | exact Hro | exact Hrs].
    + cbn [read_text]. rewrite (classify_mnem t Ht). rewrite (read_paren_numword _ Hnw), Hrv. reflexivity.
    + intros r Hr. rewrite !bytes_app. change (bytes_of_string " ") with [32].
      rewrite <- !app_assoc. rewrite tokens_word; [|exact Tne | exact Tns | right; eexists; reflexivity].
      cbn [app]. rewrite tokens_sp. fold (dec_bytes v). rewrite tokens_word; [reflexivity | exact Hne | exact Hns | right; exact Hr].
  - (* MNEMONIC name (v) *)
    assert (Ht : (is_abs_opc t || is_rel_opc t) = true).
    { destruct Hwf as [Hwf | (n & ->)]; [unfold wf_it in Hwf; rewrite Ed in Hwf; apply Hwf | discriminate Ed]. }
    cbn [name_ok] in Hnm.
    destruct (read_int_dec _ Hv) as (_ & Hne & Hns & _).
    destruct (token_str_word t) as [Tne Tns].
    set (vw := 40 :: dec_bytes (d_val (it_st it)) ++ [41]).
    assert (Hvw : nospace vw). { constructor; [lia|]. apply Forall_app. split; [exact Hns | repeat constructor; lia]. }
    erewrite read_line_of_words; [| apply tokens_line with (ws := bytes_of_string (token_str t) :: optw (bytes_of_string nm) ++ [vw]); [exact Hbnd|] | exact Hro | exact Hrs].
    + destruct (bytes_of_string nm) as [|c nr]; cbn [optw app read_text]; rewrite (classify_mnem t Ht); unfold vw; rewrite (read_paren_dec _ Hv); reflexivity.
    + intros r Hr. rewrite !bytes_app. change (bytes_of_string " ") with [32]. change (bytes_of_string " (") with [32; 40].
      change (bytes_of_string ")") with [41]. fold (dec_bytes (d_val (it_st it))).
      rewrite <- !app_assoc. rewrite tokens_word; [|exact Tne | exact Tns | right; eexists; reflexivity].
      cbn [app]. rewrite tokens_sp. rewrite tokens_optw; [|exact Hnm | eexists; reflexivity].
      rewrite tokens_sp. rewrite <- app_assoc. f_equal. f_equal.
      replace (40 :: dec_bytes (d_val (it_st it)) ++ 41 :: r) with (vw ++ r)
        by (unfold vw; cbn [app]; rewrite <- app_assoc; reflexivity).
      rewrite tokens_word; [reflexivity | discriminate | exact Hvw | right; exact Hr].
  - (* OPR NAME *)
    assert (Ht : opr_opc t <> None).
    { destruct Hwf as [Hwf | (n & ->)]; [unfold wf_it in Hwf; rewrite Ed in Hwf; exact Hwf | discriminate Ed]. }
    destruct (token_str_word t) as [Tne Tns].
    erewrite read_line_of_words; [| apply tokens_line with (ws := [bytes_of_string "OPR"; bytes_of_string (token_str t)]); [exact Hbnd|] | exact Hro | exact Hrs].
    + cbn [read_text]. change (classify (bytes_of_string "OPR")) with WOpr. cbn match. rewrite (assoc_opr t Ht).
      destruct (opr_opc t); [reflexivity | contradiction].
    + intros r Hr. rewrite bytes_app. change (bytes_of_string "OPR ") with (bytes_of_string "OPR" ++ [32]).
      rewrite <- !app_assoc. rewrite tokens_word; [|discriminate | word_nospace | right; eexists; reflexivity].
      cbn [app]. rewrite tokens_sp. rewrite tokens_word; [reflexivity | exact Tne | exact Tns | right; exact Hr].
  - (* PADDING n *)
    destruct (read_int_dec_some m) as (v & Hrv & Hne & Hns & _).
    erewrite read_line_of_words; [| apply tokens_line with (ws := [bytes_of_string "PADDING"; dec_bytes m]); [exact Hbnd|] | exact Hro | exact Hrs].
    + cbn [read_text]. change (classify (bytes_of_string "PADDING")) with WPadding. cbn match. rewrite Hrv.
      unfold size. try rewrite Ed. reflexivity.
    + intros r Hr. rewrite bytes_app. change (bytes_of_string "PADDING ") with (bytes_of_string "PADDING" ++ [32]).
      rewrite <- !app_assoc. rewrite tokens_word; [|discriminate | word_nospace | right; eexists; reflexivity].
      cbn [app]. rewrite tokens_sp. fold (dec_bytes m). rewrite tokens_word; [reflexivity | exact Hne | exact Hns | right; exact Hr].
Qed.

(* ================================================================== 6. every number of a layout is bounded by its size *)
Section Bounds.
Variable L : Z -> Z.
Variable sz : Z.
Hypothesis Hsz : sz < 2147483648.

Lemma items_bounded : forall todo bo idx,
  Forall wf_it todo -> Forall (tgt_rng L sz) todo -> cons_from L todo bo idx sz -> 0 <= bo -> Forall item_bnd todo.
Proof.
  induction todo as [|it r IH]; intros bo idx W R C Hb; [constructor|].
  inversion W as [|? ? W1 W2]; subst. inversion R as [|? ? R1 R2]; subst.
  cbn [cons_from] in C. destruct C as [[Hoff Hok] C].
  set (bo1 := place (it :: r) bo) in *.
  pose proof (place_ge (it :: r) bo) as Hge. fold bo1 in Hge.
  pose proof (cons_from_le L r _ _ _ W2 C) as Hle.
  pose proof (dsize_nonneg it W1) as Hds.
  constructor; [|eapply IH; eauto; lia].
  unfold item_bnd, line_bnd. rewrite Hoff. unfold DECMAX.
  split; [lia|].
  destruct (it_d it) as [v | kd nm | t v | t nm rel | t | m] eqn:Ed; try exact I.
  destruct Hok as (k & Ek & Hk). pose proof (R1 k Ek) as Hr.
  destruct rel.
  - destruct Hk as [Hl Hv]. pose proof (instr_len_pos (L k) bo1) as Hp. rewrite <- Hl in Hp.
    cbn [dsize] in Hds, Hle. replace (0 <? d_len (it_st it)) with true in Hle by (symmetry; apply Z.ltb_lt; lia).
    rewrite Hv. lia.
  - destruct Hk as (Hm & Hv & Hl). rewrite Hv. lia.
Qed.
End Bounds.

(* ================================================================== 7. the whole listing *)
Lemma total_line_ok n : is_total_line (total_text n) = true.
Proof.
  unfold is_total_line, total_text.
  destruct (read_int_dec_some n) as (v & Hv & Hne & Hns & _).
  rewrite tokens_word; [|exact Hne | exact Hns | right; eexists; reflexivity].
  rewrite tokens_sp. change (tokens w_bytes) with [w_bytes]. rewrite Hv. reflexivity.
Qed.

Lemma read_listing_cons l x xs :
  read_listing (l :: x :: xs) =
  match read_listing_line l, read_listing (x :: xs) with Some a, Some b => Some (a :: b) | _, _ => None end.
Proof. reflexivity. Qed.

Lemma read_lines_map : forall items total,
  Forall (fun it => read_listing_line (line_text (listing_line_of it)) = Some (struct_line it)) items ->
  read_listing (map line_text (map listing_line_of items) ++ [total_text total]) = Some (map struct_line items).
Proof.
  induction items as [|it r IH]; intros total H.
  - cbn [map app read_listing]. rewrite total_line_ok. reflexivity.
  - inversion H as [|? ? H1 H2]; subst. specialize (IH total H2).
    cbn [map app]. remember (map line_text (map listing_line_of r) ++ [total_text total]) as tl eqn:Etl.
    destruct tl as [|x xs].
    + symmetry in Etl. apply app_eq_nil in Etl. destruct Etl as [_ Etl]. discriminate Etl.
    + rewrite read_listing_cons, H1, IH. reflexivity.
Qed.

Lemma listing_is_map L : listing L = map listing_line_of (l_items L).
Proof. reflexivity. Qed.

Lemma ao_listing_eq prog locs out : assemble_directives prog locs = Ok out ->
  ao_listing out = listing (ao_layout out) /\ ao_total out = listing_total (ao_layout out).
Proof.
  unfold assemble_directives. intros H. destruct (codegen prog) as [L| | |]; try discriminate H.
  destruct (emit_bin L) as [[file img] syms]. injection H as <-. cbn. auto.
Qed.

Definition C17_reads_back_stmt : Prop :=
  forall prog locs out, Forall wf_directive prog -> Forall name_ok prog ->
    assemble_directives prog locs = Ok out -> small (ao_layout out) ->
    read_listing (listing_lines (ao_listing out) (ao_total out)) = Some (struct_listing (ao_layout out)).

Theorem listing_reads_back : C17_reads_back_stmt.
Proof.
  intros prog locs out Wf Nm H Sm.
  destruct (assemble_facts _ _ _ Wf H Sm) as (L & items & sz & n & Hsz & Hn & Hs & Hd & Hl & Hi & Hy & W & Rg & C & Fl & Ht).
  assert (Hn0 : 0 <= n < 4) by (subst n; apply Z.mod_pos_bound; lia).
  destruct (ao_listing_eq _ _ _ H) as [E1 E2]. rewrite E1, E2.
  unfold listing_lines, struct_listing. rewrite listing_is_map, Hl. cbn [l_items].
  apply read_lines_map.
  pose proof (items_bounded L sz ltac:(lia) items 0 0 W Rg C ltac:(lia)) as B.
  assert (Nm' : Forall (fun it => name_ok (it_d it)) items).
  { rewrite <- Hd in Nm. apply (proj1 (Forall_map it_d name_ok items)). exact Nm. }
  apply Forall_app. split.
  - rewrite Forall_forall in W, B, Nm'. apply Forall_forall. intros it Hin.
    apply read_item_line; [left; apply W; exact Hin | apply Nm'; exact Hin | apply B; exact Hin].
  - constructor; [|constructor]. apply read_item_line.
    + right. exists n. reflexivity.
    + exact I.
    + unfold item_bnd, line_bnd. cbn [padit it_d it_st d_off dsize dst0]. unfold DECMAX. lia.
Qed.

(* the text, read back, passes the validator against the image *)
Definition C17_text_agrees_stmt : Prop :=
  forall prog locs out, Forall wf_directive prog -> Forall name_ok prog ->
    assemble_directives prog locs = Ok out -> small (ao_layout out) ->
    exists ls, read_listing (listing_lines (ao_listing out) (ao_total out)) = Some ls /\ check_listing ls (ao_image out) = true.

Theorem text_listing_agrees : C17_text_agrees_stmt.
Proof.
  intros prog locs out Wf Nm H Sm. exists (struct_listing (ao_layout out)). split.
  - apply (listing_reads_back prog locs out); assumption.
  - apply (listing_ok prog locs out); assumption.
Qed.
