(* XFrontDetProofs.v -- the lemmas behind Properties_C11.v: the assembler model and the front-end model of the compiler
   are functions of the source bytes (trivially) and never end in an outcome other than Ok / Reject: their outcome
   types have no constructor for an indeterminate value, and the remaining constructors (UB, OutOfFuel) are excluded
   by the totality theorems assemble_total (AsmFrontProofs.v) and front_total (XFrontProofs.v). *)
From Coq Require Import ZArith List String Bool.
From HexVerif Require AsmModel AsmLayout AsmFrontProofs XFront XFrontProofs.
Import ListNotations.
Local Open Scope Z_scope.

Lemma asm_function : forall s1 s2 : list Z, s1 = s2 -> AsmLayout.assemble s1 = AsmLayout.assemble s2.
Proof. intros s1 s2 H. rewrite H. reflexivity. Qed.

Lemma asm_no_indeterminate :
  forall src : list Z,
    match AsmLayout.assemble src with
    | AsmModel.Ok _ | AsmModel.Reject _ => True
    | AsmModel.UB _ | AsmModel.OutOfFuel => False
    end.
Proof. intros src. destruct (AsmFrontProofs.assemble_total src) as [[o H]|[d H]]; rewrite H; exact I. Qed.

Lemma front_function : forall s1 s2 : list Z, s1 = s2 -> XFront.front s1 = XFront.front s2.
Proof. intros s1 s2 H. rewrite H. reflexivity. Qed.

Lemma front_no_indeterminate :
  forall src : list Z,
    match XFront.front src with
    | XFront.Ok _ | XFront.Reject _ => True
    | XFront.UB _ | XFront.OutOfFuel => False
    end.
Proof. intros src. destruct (XFrontProofs.front_total src) as [[o H]|[d H]]; rewrite H; exact I. Qed.
