(* AsmModel.v -- hand model of hexasm.hpp: lexer, parser, directives, numNibbles/instrLen, label resolution
   (resolveLabels), emission (emitProgramBin/emitDebugInfo/emitBin) and the --instrs listing (emitProgramText).
   Function-for-function port; C `int` values are Z in [-2^31, 2^31), `unsigned` values Z in [0, 2^32).
   No proofs here.  Tied to the C++ by tools/asmcommon.py (correspondence: same source bytes through this model,
   extracted, and through the real Lexer/Parser/CodeGen compiled from /repo's working tree). *)
From Coq Require Import ZArith List String Ascii Bool.
Import ListNotations.
Local Open Scope Z_scope.

(* ------------------------------------------------------------------ tokens *)
Inductive token :=
| TNUMBER | TMINUS | TDATA | TPROC | TFUNC
| TLDAM | TLDBM | TSTAM | TLDAC | TLDBC | TLDAP | TLDAI | TLDBI | TSTAI | TBR | TBRZ | TBRN
| TBRB | TSVC | TADD | TSUB | TOPR | TIDENTIFIER | TEOF | TNONE.

Definition token_eqb (a b : token) : bool :=
  match a, b with
  | TNUMBER, TNUMBER | TMINUS, TMINUS | TDATA, TDATA | TPROC, TPROC | TFUNC, TFUNC | TLDAM, TLDAM | TLDBM, TLDBM
  | TSTAM, TSTAM | TLDAC, TLDAC | TLDBC, TLDBC | TLDAP, TLDAP | TLDAI, TLDAI | TLDBI, TLDBI | TSTAI, TSTAI
  | TBR, TBR | TBRZ, TBRZ | TBRN, TBRN | TBRB, TBRB | TSVC, TSVC | TADD, TADD | TSUB, TSUB | TOPR, TOPR
  | TIDENTIFIER, TIDENTIFIER | TEOF, TEOF | TNONE, TNONE => true
  | _, _ => false
  end.

Definition token_str (t : token) : string :=
  match t with
  | TNUMBER => "NUMBER" | TMINUS => "MINUS" | TDATA => "DATA" | TPROC => "PROC" | TFUNC => "FUNC"
  | TLDAM => "LDAM" | TLDBM => "LDBM" | TSTAM => "STAM" | TLDAC => "LDAC" | TLDBC => "LDBC" | TLDAP => "LDAP"
  | TLDAI => "LDAI" | TLDBI => "LDBI" | TSTAI => "STAI" | TBR => "BR" | TBRZ => "BRZ" | TBRN => "BRN"
  | TBRB => "BRB" | TSVC => "SVC" | TADD => "ADD" | TSUB => "SUB" | TOPR => "OPR" | TIDENTIFIER => "IDENTIFIER"
  | TEOF => "END_OF_FILE" | TNONE => "NONE"
  end%string.

(* hex::Instr opcode of an instruction token (tokenToInstrOpc) *)
Definition token_opc (t : token) : option Z :=
  match t with
  | TLDAM => Some 0 | TLDBM => Some 1 | TSTAM => Some 2 | TLDAC => Some 3 | TLDBC => Some 4 | TLDAP => Some 5
  | TLDAI => Some 6 | TLDBI => Some 7 | TSTAI => Some 8 | TBR => Some 9 | TBRZ => Some 10 | TBRN => Some 11
  | TOPR => Some 13 | _ => None
  end.
Definition opr_opc (t : token) : option Z :=
  match t with TBRB => Some 0 | TADD => Some 1 | TSUB => Some 2 | TSVC => Some 3 | _ => None end.

(* ------------------------------------------------------------------ C integer conversions *)
Definition W32 : Z := 4294967296.
Definition to_int (u : Z) : Z := let x := u mod W32 in if 2147483648 <=? x then x - W32 else x.   (* unsigned -> int *)
Definition to_unsigned (x : Z) : Z := x mod W32.

(* ------------------------------------------------------------------ lexer *)
(* characters are `char` values: bytes >= 128 are negative; EOF = -1 (so byte 0xFF reads as end of file) *)
Definition char_of_byte (b : Z) : Z := if 128 <=? b then b - 256 else b.
Definition is_space (c : Z) : bool := (c =? 32) || ((9 <=? c) && (c <=? 13)).
Definition is_digit (c : Z) : bool := (48 <=? c) && (c <=? 57).
Definition is_alpha (c : Z) : bool := ((65 <=? c) && (c <=? 90)) || ((97 <=? c) && (c <=? 122)).
Definition is_alnum (c : Z) : bool := is_alpha c || is_digit c.
Definition EOFc : Z := -1.

Fixpoint string_of_chars (l : list Z) : string :=
  match l with [] => EmptyString | c :: r => String (ascii_of_nat (Z.to_nat (c mod 256))) (string_of_chars r) end.

Definition keyword (s : string) : token :=
  (if String.eqb s "ADD" then TADD else if String.eqb s "BRN" then TBRN else if String.eqb s "BR" then TBR
   else if String.eqb s "BRB" then TBRB else if String.eqb s "BRZ" then TBRZ else if String.eqb s "DATA" then TDATA
   else if String.eqb s "FUNC" then TFUNC else if String.eqb s "LDAC" then TLDAC else if String.eqb s "LDAI" then TLDAI
   else if String.eqb s "LDAM" then TLDAM else if String.eqb s "LDAP" then TLDAP else if String.eqb s "LDBC" then TLDBC
   else if String.eqb s "LDBI" then TLDBI else if String.eqb s "LDBM" then TLDBM else if String.eqb s "OPR" then TOPR
   else if String.eqb s "PROC" then TPROC else if String.eqb s "STAI" then TSTAI else if String.eqb s "STAM" then TSTAM
   else if String.eqb s "SUB" then TSUB else if String.eqb s "SVC" then TSVC else TIDENTIFIER)%string.

(* strtoul(number, nullptr, 10) on a digit string, saturating at ULONG_MAX = 2^64-1, then stored in `unsigned` *)
Definition ULONG_MAX : Z := 18446744073709551615.
Fixpoint strtoul_go (l : list Z) (acc : Z) (sat : bool) : Z :=
  match l with
  | [] => if sat then ULONG_MAX else acc
  | c :: r => let acc' := acc * 10 + (c - 48) in
              if sat || (ULONG_MAX <? acc') then strtoul_go r 0 true else strtoul_go r acc' false
  end.
Definition number_value (digits : list Z) : Z := (strtoul_go digits 0 false) mod W32.

(* a lexed token with the lexer state the parser can observe right after it: identifier, value, location *)
Record lexed := { lx_tok : token; lx_id : string; lx_val : Z; lx_line : Z; lx_col : Z }.

Inductive lmode := MStart | MComment | MIdent (acc : list Z) | MNum (acc : list Z).

Record lstate := { ls_id : string; ls_val : Z; ls_line : Z; ls_col : Z }.
Definition mk_lexed (t : token) (s : lstate) : lexed :=
  {| lx_tok := t; lx_id := ls_id s; lx_val := ls_val s; lx_line := ls_line s; lx_col := ls_col s |}.
Definition bump (s : lstate) : lstate := {| ls_id := ls_id s; ls_val := ls_val s; ls_line := ls_line s; ls_col := ls_col s + 1 |}.
Definition newline (s : lstate) : lstate := {| ls_id := ls_id s; ls_val := ls_val s; ls_line := ls_line s + 1; ls_col := 0 |}.
Definition set_id (s : lstate) (i : string) : lstate := {| ls_id := i; ls_val := ls_val s; ls_line := ls_line s; ls_col := ls_col s |}.
Definition set_val (s : lstate) (v : Z) : lstate := {| ls_id := ls_id s; ls_val := v; ls_line := ls_line s; ls_col := ls_col s |}.

(* What readToken does once `lastChar` = c in mode m, given that the next readChar() will deliver `nxt`.
   Returns the tokens completed, and the mode/state after exactly one readChar.  A token completed by the
   lookahead character itself (identifier/number end) is followed by the Start action on that same character. *)
Definition start_action (c nxt : Z) (s : lstate) : list lexed * lmode * lstate * bool (* stop: END_OF_FILE returned *) :=
  if is_space c then ([], MStart, bump (if c =? 10 then newline s else s), false)
  else if c =? 35 then ([], MComment, bump s, false)
  else if is_alpha c then ([], MIdent [c], bump s, false)
  else if is_digit c then ([], MNum [c], bump s, false)
  else if c =? 45 then ([mk_lexed TMINUS (bump s)], MStart, bump s, false)
  else if c =? EOFc then ([mk_lexed TEOF s], MStart, s, true)
  else ([mk_lexed TNONE (bump s)], MStart, bump s, false).

Definition one_char (m : lmode) (c nxt : Z) (s : lstate) : list lexed * lmode * lstate * bool :=
  match m with
  | MStart => start_action c nxt s
  | MComment =>
      (* inside do { readChar(); } while (lastChar != EOF && lastChar != '\n'): c was just read *)
      if c =? 10 then ([], MStart, bump (newline s), false)           (* line++, col=0, readChar() *)
      else if c =? EOFc then start_action c nxt s                       (* return readToken() -> END_OF_FILE *)
      else ([], MComment, bump s, false)
  | MIdent acc =>
      if is_alnum c || (c =? 95) then ([], MIdent (acc ++ [c]), bump s, false)
      else let name := string_of_chars acc in
           let s1 := set_id s name in
           let '(toks, m', s', stop) := start_action c nxt s1 in
           (mk_lexed (keyword name) s1 :: toks, m', s', stop)
  | MNum acc =>
      if is_digit c then ([], MNum (acc ++ [c]), bump s, false)
      else let s1 := set_val s (number_value acc) in
           let '(toks, m', s', stop) := start_action c nxt s1 in
           (mk_lexed TNUMBER s1 :: toks, m', s', stop)
  end.

(* the token stream of a source text, up to and including END_OF_FILE.  `c` is lastChar. *)
Fixpoint lex_go (rest : list Z) (c : Z) (m : lmode) (s : lstate) : list lexed :=
  match rest with
  | [] =>
      (* input exhausted: every further readChar() yields EOF *)
      let '(t1, m1, s1, stop1) := one_char m c EOFc s in
      if stop1 then t1 else
      let '(t2, m2, s2, stop2) := one_char m1 EOFc EOFc s1 in
      if stop2 then t1 ++ t2 else
      let '(t3, _, _, _) := one_char m2 EOFc EOFc s2 in t1 ++ t2 ++ t3
  | b :: rest' =>
      let nxt := char_of_byte b in
      let '(toks, m', s', stop) := one_char m c nxt s in
      if stop then toks else toks ++ lex_go rest' nxt m' s'
  end.

Definition lex (src : list Z) : list lexed :=
  (* loadBuffer/openFile: readChar() once (col = 1) *)
  let s0 := {| ls_id := EmptyString; ls_val := 0; ls_line := 0; ls_col := 1 |} in
  match src with
  | [] => lex_go [] EOFc MStart s0
  | b :: r => lex_go r (char_of_byte b) MStart s0
  end.

(* ------------------------------------------------------------------ directives *)
Inductive lkind := LId | LFunc | LProc.
Inductive directive :=
| DData (v : Z)                              (* DATA <int> *)
| DLabel (k : lkind) (name : string)         (* label / FUNC name / PROC name *)
| DImm (t : token) (v : Z)                   (* <opcode> <int> *)
| DRef (t : token) (name : string) (rel : bool)   (* <opcode> <label> *)
| DOpr (t : token)                           (* OPR BRB|ADD|SUB|SVC *)
| DPadding (n : Z).

Inductive diag :=
| EUnexpected (line col : Z) (t : token)     (* "unexpected token %s" (names the EXPECTED token) *)
| EUnrecognised (line col : Z) (t : token)   (* "unrecognised token %s" *)
| EInvalidOpr (line col : Z) (t : token)     (* "unexpected operand to OPR %s" *)
| EUnknownLabel (index : nat) (name : string)  (* "unknown label %s", located at directive `index` *)
| EUnaligned (index : nat)                   (* "absolute label value is not word aligned" *)
| ENotConverged.                             (* "label resolution did not converge" *)

Inductive outcome (A : Type) := Ok (a : A) | Reject (d : diag) | UB (what : string) | OutOfFuel.
Arguments Ok {A}. Arguments Reject {A}. Arguments UB {A}. Arguments OutOfFuel {A}.

(* ------------------------------------------------------------------ parser *)
(* The parser pulls tokens on demand; since lexing does not depend on the parser, it runs over the list. *)
Definition eof_lexed : lexed := {| lx_tok := TEOF; lx_id := EmptyString; lx_val := 0; lx_line := 0; lx_col := 0 |}.

(* parseInteger with `cur` = lastToken and `rest` = the tokens still to come; returns value and remaining tokens *)
Definition parse_integer (cur : lexed) (rest : list lexed) : outcome (Z * list lexed) :=
  match lx_tok cur with
  | TMINUS =>
      match rest with
      | n :: rest' => if token_eqb (lx_tok n) TNUMBER then Ok (to_int (- lx_val n), rest')
                      else Reject (EUnexpected (lx_line n) (lx_col n) TNUMBER)
      | [] => Reject (EUnexpected (lx_line cur) (lx_col cur) TNUMBER)   (* unreachable: streams end in END_OF_FILE *)
      end
  | TNUMBER => Ok (to_int (lx_val cur), rest)
  | _ => Reject (EUnexpected (lx_line cur) (lx_col cur) TNUMBER)
  end.

(* token streams produced by `lex` always end in END_OF_FILE; beyond it the lexer keeps returning END_OF_FILE *)
Definition next_tok (rest : list lexed) : lexed * list lexed :=
  match rest with t :: r => (t, r) | [] => (eof_lexed, []) end.

Definition is_abs_opc (t : token) : bool := match t with TLDAM | TLDBM | TSTAM | TLDAC | TLDBC => true | _ => false end.
Definition is_rel_opc (t : token) : bool := match t with TLDAP | TLDAI | TLDBI | TSTAI | TBR | TBRN | TBRZ => true | _ => false end.

(* parseDirective with cur = lastToken; location = lexer.getLocation() at entry *)
Definition parse_directive (cur : lexed) (rest : list lexed) : outcome (Z * Z * directive * list lexed) :=
  let line := lx_line cur in let col := lx_col cur in
  match lx_tok cur with
  | TDATA =>
      let '(n, rest1) := next_tok rest in
      match parse_integer n rest1 with
      | Ok (v, rest2) => Ok (line, col, DData v, rest2)
      | Reject d => Reject d | UB w => UB w | OutOfFuel => OutOfFuel
      end
  | TFUNC => let '(n, rest1) := next_tok rest in Ok (line, col, DLabel LFunc (lx_id n), rest1)
  | TPROC => let '(n, rest1) := next_tok rest in Ok (line, col, DLabel LProc (lx_id n), rest1)
  | TIDENTIFIER => Ok (line, col, DLabel LId (lx_id cur), rest)
  | TOPR =>
      let '(n, rest1) := next_tok rest in
      match opr_opc (lx_tok n) with
      | Some _ => Ok (line, col, DOpr (lx_tok n), rest1)
      | None => Reject (EInvalidOpr line col (lx_tok n))
      end
  | t =>
      if is_abs_opc t || is_rel_opc t then
        let '(n, rest1) := next_tok rest in
        if token_eqb (lx_tok n) TIDENTIFIER then Ok (line, col, DRef t (lx_id n) (is_rel_opc t), rest1)
        else match parse_integer n rest1 with
             | Ok (v, rest2) => Ok (line, col, DImm t v, rest2)
             | Reject d => Reject d | UB w => UB w | OutOfFuel => OutOfFuel
             end
      else Reject (EUnrecognised line col t)
  end.

(* parseProgram: while (getNextToken() != END_OF_FILE) push(parseDirective()).  Fuel = number of tokens + 1. *)
Fixpoint parse_go (fuel : nat) (rest : list lexed) (acc : list (Z * Z * directive)) : outcome (list (Z * Z * directive)) :=
  match fuel with
  | O => OutOfFuel
  | S f =>
      let '(cur, rest1) := next_tok rest in
      if token_eqb (lx_tok cur) TEOF then Ok (rev_append acc []) else
      match parse_directive cur rest1 with
      | Ok (line, col, d, rest2) => parse_go f rest2 ((line, col, d) :: acc)
      | Reject d => Reject d | UB w => UB w | OutOfFuel => OutOfFuel
      end
  end.

Definition parse (toks : list lexed) : outcome (list (Z * Z * directive)) :=
  parse_go (S (List.length toks)) toks [].
