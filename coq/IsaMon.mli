open BinInt
open BinNums
open Datatypes
open Isa
open List
open WMap

type kind =
| Fetch
| Load
| Store

type access = kind * coq_Z

val sys_accesses : arch -> access list

val accesses : arch -> access list

type layout = { data_lo : coq_Z; data_hi : coq_Z; image_end : coq_Z;
                exit_pc : coq_Z; sp0 : coq_Z }

val is_data : layout -> coq_Z -> bool

val is_code : layout -> coq_Z -> bool

val is_free : layout -> coq_Z -> bool

val acc_ok : layout -> access -> bool

val state_ok : layout -> arch -> bool

val mon_ok : layout -> nat -> arch -> inputs -> bool
