(* Loader.v -- model of Processor::load() (hexsim.hpp): header word, image, optional debug tables -- and the theorem
   that it reads back exactly what the assembler model's emit_bin writes (image words and symbol table).
   Model part first (no proofs), proofs below the line. *)
From Coq Require Import ZArith List String Ascii Bool Lia.
From HexVerif Require Import WMap Isa SimModel AsmModel AsmLayout.
Import ListNotations.
Local Open Scope Z_scope.

Definition rd32 (bs : list Z) : Z :=      (* file.read(&word, 4) of a little-endian host; missing bytes read as 0 *)
  nth 0 bs 0 + 256 * nth 1 bs 0 + 65536 * nth 2 bs 0 + 16777216 * nth 3 bs 0.

(* a 4-byte read that must succeed (the repaired loader throws when the stream fails inside the debug tables) *)
Definition read32 (bs : list Z) : option (Z * list Z) :=
  if (4 <=? List.length bs)%nat then Some (rd32 bs, skipn 4 bs) else None.

(* c = file.get(); while (c != '\0') { s += c; c = file.get(); } : the bytes up to the first NUL and the rest after it;
   None when the file ends before the NUL *)
Fixpoint take_cstring (bs : list Z) : option (list Z * list Z) :=
  match bs with
  | [] => None
  | b :: r => if b =? 0 then Some ([], r) else
              match take_cstring r with Some (s, rest) => Some (b :: s, rest) | None => None end
  end.
(* numStrings strings.  The count is a 32-bit number taken from the file, so the recursion is on fuel (every string
   consumes at least its NUL byte: fuel = length of the rest + 1 is never exhausted before the bytes are) *)
Fixpoint read_strings (fuel : nat) (n : Z) (bs : list Z) : option (list (list Z) * list Z) :=
  if n <=? 0 then Some ([], bs) else
  match fuel with
  | O => None
  | S f => match take_cstring bs with
           | None => None
           | Some (s, rest) => match read_strings f (n - 1) rest with
                               | Some (ss, rest') => Some (s :: ss, rest')
                               | None => None
                               end
           end
  end.
Fixpoint read_symbols (fuel : nat) (n : Z) (strings : list (list Z)) (bs : list Z) : option (list (list Z * Z)) :=
  if n <=? 0 then Some [] else
  match fuel with
  | O => None
  | S f =>
      match read32 bs with
      | None => None
      | Some (idx, r1) =>
          match read32 r1 with
          | None => None
          | Some (off, r2) =>
              match (if idx <? Z.of_nat (List.length strings) then nth_error strings (Z.to_nat idx) else None) with
              | None => None                              (* strings.at(strIndex) throws; the index is compared as a number
                                                             first so that a 32-bit index never becomes a unary nat *)
              | Some name => match read_symbols f (n - 1) strings r2 with
                             | Some r => Some ((name, off) :: r)
                             | None => None
                             end
              end
          end
      end
  end.

(* load(): the image words placed at address 0 and the debug table; None where the (repaired) C++ throws: no header,
   a header word larger than the memory, a debug section that ends early, a string index out of range.  A file whose
   image is shorter than its header says is loaded as far as it goes (as before the repair). *)
Definition load_file (file : list Z) : option (list Z * list (list Z * Z)) :=
  let size := Z.of_nat (List.length file) in
  if size <? 4 then None else
  let remaining := ((size - 4 + 3) / 4) * 4 in
  let program_size := (rd32 file * 4) mod W32 in          (* unsigned programSize; programSize <<= 2 *)
  if 800000 <? program_size then None else
  let image := firstn (Z.to_nat program_size) (skipn 4 file) in
  let rest := skipn (Z.to_nat program_size) (skipn 4 file) in
  if program_size <? remaining then
    match read32 rest with
    | None => None
    | Some (nstr, r1) =>
        match read_strings (S (List.length r1)) nstr r1 with
        | None => None
        | Some (strings, r2) =>
            match read32 r2 with
            | None => None
            | Some (nsym, r3) =>
                match read_symbols (S (List.length r3)) nsym strings r3 with
                | Some tab => Some (words_of_bytes image, tab)
                | None => None
                end
            end
        end
    end
  else Some (words_of_bytes image, []).

(* ------------------------------------------------------------------ proofs *)
Ltac Zify.zify_post_hook ::= Z.div_mod_to_equations.

Lemma le32_length v : List.length (le32 v) = 4%nat. Proof. reflexivity. Qed.

Lemma rd32_le32 v r : rd32 (le32 v ++ r) = v mod W32.
Proof.
  unfold rd32, le32. cbn [app nth]. unfold W32. set (u := v mod 4294967296).
  assert (0 <= u < 4294967296) by (apply Z.mod_pos_bound; lia). lia.
Qed.

Lemma skipn_le32 v r : skipn 4 (le32 v ++ r) = r. Proof. reflexivity. Qed.

Definition no_nul (s : list Z) : Prop := Forall (fun b => b <> 0) s.

Lemma read32_le32 v r : read32 (le32 v ++ r) = Some (v mod W32, r).
Proof.
  unfold read32. replace (4 <=? List.length (le32 v ++ r))%nat with true.
  - rewrite rd32_le32, skipn_le32. reflexivity.
  - symmetry. apply Nat.leb_le. rewrite app_length, le32_length. lia.
Qed.

Lemma take_cstring_app s r : no_nul s -> take_cstring (s ++ 0 :: r) = Some (s, r).
Proof.
  induction s as [|b s IH]; intros H; cbn [app take_cstring].
  - reflexivity.
  - inversion H; subst. replace (b =? 0) with false by (symmetry; apply Z.eqb_neq; assumption).
    rewrite IH by assumption. reflexivity.
Qed.

Lemma read_strings_app : forall (names : list (list Z)) r fuel, Forall no_nul names ->
  (List.length names <= fuel)%nat ->
  read_strings fuel (Z.of_nat (List.length names)) (flat_map (fun s => s ++ [0]) names ++ r) = Some (names, r).
Proof.
  induction names as [|s names IH]; intros r fuel H Hf.
  - destruct fuel; reflexivity.
  - inversion H; subst. cbn [List.length] in *. destruct fuel as [|f]; [lia|].
    cbn [read_strings flat_map].
    replace (Z.of_nat (S (List.length names)) <=? 0) with false by (symmetry; apply Z.leb_gt; lia).
    rewrite <- !app_assoc. cbn [app]. rewrite take_cstring_app by assumption.
    replace (Z.of_nat (S (List.length names)) - 1) with (Z.of_nat (List.length names)) by lia.
    rewrite IH by (assumption || lia). reflexivity.
Qed.

Lemma flat_map_nul_length (names : list (list Z)) :
  Nat.le (List.length names) (List.length (flat_map (fun s => s ++ [0]) names)).
Proof. induction names as [|s r IH]; cbn [flat_map List.length]; [lia|]. rewrite !app_length. cbn [List.length]. lia. Qed.

Fixpoint entries (offs : list Z) (i : Z) : list Z :=
  match offs with [] => [] | o :: r => le32 i ++ le32 o ++ entries r (i + 1) end.

Lemma entries_length offs : forall i, List.length (entries offs i) = (8 * List.length offs)%nat.
Proof. induction offs as [|o r IH]; intros i; cbn [entries List.length]; [reflexivity|]. rewrite !app_length, !le32_length, IH. lia. Qed.

Lemma read_symbols_entries : forall (offs : list Z) (names : list (list Z)) (pre : list (list Z)) tail fuel,
  List.length offs = List.length names ->
  Z.of_nat (List.length pre + List.length names) <= W32 ->
  Forall (fun o => 0 <= o < W32) offs ->
  (List.length offs <= fuel)%nat ->
  read_symbols fuel (Z.of_nat (List.length offs)) (pre ++ names) (entries offs (Z.of_nat (List.length pre)) ++ tail)
  = Some (combine names offs).
Proof.
  induction offs as [|o offs IH]; intros names pre tail fuel Hl Hb Ho Hf.
  - destruct names; [destruct fuel; reflexivity|discriminate].
  - destruct names as [|nm names]; [discriminate|].
    cbn [List.length] in Hl, Hb, Hf. inversion Ho; subst. destruct fuel as [|f]; [lia|].
    cbn [List.length read_symbols entries].
    replace (Z.of_nat (S (List.length offs)) <=? 0) with false by (symmetry; apply Z.leb_gt; lia).
    rewrite <- !app_assoc. rewrite read32_le32, read32_le32.
    unfold W32 in *. rewrite (Z.mod_small (Z.of_nat (List.length pre))) by lia.
    replace (Z.of_nat (List.length pre) <? Z.of_nat (List.length (pre ++ nm :: names))) with true
      by (symmetry; apply Z.ltb_lt; rewrite app_length; cbn [List.length]; lia).
    rewrite Nat2Z.id. rewrite nth_error_app2 by lia. rewrite Nat.sub_diag. cbn [nth_error].
    replace (pre ++ nm :: names) with ((pre ++ [nm]) ++ names) by (rewrite <- app_assoc; reflexivity).
    replace (Z.of_nat (List.length pre) + 1) with (Z.of_nat (List.length (pre ++ [nm]))) by (rewrite app_length; cbn; lia).
    replace (Z.of_nat (S (List.length offs)) - 1) with (Z.of_nat (List.length offs)) by lia.
    rewrite IH; [| lia | rewrite app_length; cbn; lia | assumption | lia].
    rewrite (Z.mod_small o) by lia. reflexivity.
Qed.

(* the file format round trip: what load() reads back from header ++ image ++ tables *)
Theorem load_roundtrip (img : list Z) (names : list (list Z)) (offs : list Z) :
  let n := Z.of_nat (List.length img) in
  n mod 4 = 0 -> n <= 800000 ->
  List.length names = List.length offs -> Z.of_nat (List.length names) < W32 ->
  Forall no_nul names -> Forall (fun o => 0 <= o < W32) offs ->
  load_file (le32 (n / 4) ++ img ++ le32 (Z.of_nat (List.length names)) ++ flat_map (fun s => s ++ [0]) names
             ++ le32 (Z.of_nat (List.length names)) ++ entries offs 0)
  = Some (words_of_bytes img, combine names offs).
Proof.
  intros n Hm Hn Hl Hk Hnul Hoffs. unfold load_file.
  set (tables := le32 (Z.of_nat (List.length names)) ++ flat_map (fun s : list Z => s ++ [0]) names ++
                 le32 (Z.of_nat (List.length names)) ++ entries offs 0).
  assert (Hlen: (List.length (le32 (n / 4) ++ img ++ tables) >= 4 + List.length img + 8)%nat).
  { rewrite !app_length, le32_length. unfold tables. rewrite !app_length, !le32_length. lia. }
  replace (Z.of_nat (List.length (le32 (n / 4) ++ img ++ tables)) <? 4) with false by (symmetry; apply Z.ltb_ge; lia).
  rewrite rd32_le32, skipn_le32. unfold W32 in *.
  assert (Hn0: 0 <= n) by (unfold n; lia).
  rewrite (Z.mod_small (n / 4)) by lia.
  replace (n / 4 * 4) with n by lia.
  rewrite (Z.mod_small n) by lia.
  replace (800000 <? n) with false by (symmetry; apply Z.ltb_ge; lia).
  replace (Z.to_nat n) with (List.length img) by (unfold n; lia).
  rewrite firstn_app, Nat.sub_diag, firstn_all, firstn_O, app_nil_r.
  rewrite skipn_app, Nat.sub_diag, skipn_all, skipn_O. cbn [app].
  replace (n <? (Z.of_nat (List.length (le32 (n / 4) ++ img ++ tables)) - 4 + 3) / 4 * 4) with true.
  2:{ symmetry. apply Z.ltb_lt. unfold n in *. lia. }
  unfold tables. rewrite read32_le32. unfold W32. rewrite (Z.mod_small (Z.of_nat (List.length names))) by lia.
  rewrite read_strings_app; [| assumption |].
  2:{ rewrite app_length. pose proof (flat_map_nul_length names). lia. }
  rewrite read32_le32. unfold W32. rewrite (Z.mod_small (Z.of_nat (List.length names))) by lia.
  rewrite Hl.
  pose proof (read_symbols_entries offs names [] [] (S (List.length (entries offs 0))) (eq_sym Hl)) as R. cbn [app List.length Nat.add Z.of_nat] in R.
  rewrite app_nil_r in R. rewrite R; [reflexivity | unfold W32; lia | assumption | rewrite entries_length; lia].
Qed.

(* emit_bin writes exactly that format *)
Lemma sym_entries_is_entries : forall (syms : list (string * Z)) i, sym_entries syms i = entries (map snd syms) i.
Proof. induction syms as [|[n o] r IH]; intros i; cbn [sym_entries entries map snd]; [reflexivity|]. rewrite IH. reflexivity. Qed.

Lemma flat_map_names (syms : list (string * Z)) :
  flat_map (fun p => bytes_of_string (fst p) ++ [0]) syms = flat_map (fun s => s ++ [0]) (map (fun p => bytes_of_string (fst p)) syms).
Proof. induction syms as [|p r IH]; cbn [flat_map map]; [reflexivity|]. rewrite IH. reflexivity. Qed.

(* what hexsim's loader reads from the file the assembler model writes: the image (as words) and the symbol table *)
Definition file_of (L : layout) (img : list Z) (syms : list (string * Z)) : list Z :=
  let n := Z.of_nat (List.length syms) in
  le32 (l_size L / 4) ++ img ++ le32 n ++ flat_map (fun p => bytes_of_string (fst p) ++ [0]) syms ++ le32 n ++ sym_entries syms 0.

Lemma emit_bin_file L img syms : emit_go (l_items L) 0 = (img, syms) -> emit_bin L = (file_of L img syms, img, syms).
Proof. intros E. unfold emit_bin. rewrite E. reflexivity. Qed.

Theorem load_emit_bin L img syms :
  emit_go (l_items L) 0 = (img, syms) ->
  Z.of_nat (List.length img) = l_size L -> l_size L mod 4 = 0 -> l_size L <= 800000 ->
  Z.of_nat (List.length syms) < W32 ->
  Forall (fun p => no_nul (bytes_of_string (fst p))) syms -> Forall (fun p => 0 <= snd p < W32) syms ->
  load_file (fst (fst (emit_bin L))) = Some (words_of_bytes img, map (fun p => (bytes_of_string (fst p), snd p)) syms).
Proof.
  intros E Hlen Hm Hb Hcnt Hnul Hoff. rewrite (emit_bin_file L img syms E). cbn [fst]. unfold file_of.
  rewrite sym_entries_is_entries, flat_map_names. rewrite <- Hlen.
  replace (Z.of_nat (List.length syms)) with (Z.of_nat (List.length (map (fun p => bytes_of_string (fst p)) syms))) by (rewrite map_length; reflexivity).
  pose proof (load_roundtrip img (map (fun p => bytes_of_string (fst p)) syms) (map snd syms)) as R. cbv zeta in R.
  rewrite R.
  - f_equal. f_equal. clear. induction syms as [|p r IH]; cbn; [reflexivity|]. rewrite IH. reflexivity.
  - rewrite Hlen. exact Hm.
  - rewrite Hlen. exact Hb.
  - rewrite !map_length. reflexivity.
  - rewrite map_length. exact Hcnt.
  - rewrite Forall_map. exact Hnul.
  - rewrite Forall_map. exact Hoff.
Qed.
