open BinInt
open BinNums
open Datatypes
open List
open WMap

val coq_W : coq_Z

val coq_MEMW : coq_Z

val wrap : coq_Z -> coq_Z

val negative : coq_Z -> bool

val signed : coq_Z -> coq_Z

type arch = { pc : coq_Z; areg : coq_Z; breg : coq_Z; oreg : coq_Z; mem : t }

type inputs = { console : coq_Z list; files : (coq_Z -> coq_Z list) }

type event =
| Tau
| Exit of coq_Z
| Write of coq_Z * coq_Z
| Read of coq_Z * coq_Z

type undefined =
| BadOpcode of coq_Z
| BadOpr of coq_Z
| BadSvc of coq_Z
| BadAddress of coq_Z

type 'a result =
| Ok of 'a
| Undefined of undefined

val fetch : arch -> coq_Z

val next_byte : coq_Z list -> coq_Z * coq_Z list

val is_console : coq_Z -> bool

val file_index : coq_Z -> coq_Z

val simin : inputs -> coq_Z -> coq_Z * inputs

val in_mem : coq_Z -> bool

val step : arch -> inputs -> ((arch * inputs) * event) result

type stop =
| Exited of coq_Z
| Stuck of undefined
| Cut

val run :
  nat -> arch -> inputs -> event list -> ((event list * inputs) * arch) * stop

val boot : coq_Z list -> arch

val words_of_bytes : coq_Z list -> coq_Z list
