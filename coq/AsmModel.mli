open Ascii
open BinInt
open BinNums
open Datatypes
open List
open String

type token =
| TNUMBER
| TMINUS
| TDATA
| TPROC
| TFUNC
| TLDAM
| TLDBM
| TSTAM
| TLDAC
| TLDBC
| TLDAP
| TLDAI
| TLDBI
| TSTAI
| TBR
| TBRZ
| TBRN
| TBRB
| TSVC
| TADD
| TSUB
| TOPR
| TIDENTIFIER
| TEOF
| TNONE

val token_eqb : token -> token -> bool

val token_str : token -> string

val token_opc : token -> coq_Z option

val opr_opc : token -> coq_Z option

val coq_W32 : coq_Z

val to_int : coq_Z -> coq_Z

val char_of_byte : coq_Z -> coq_Z

val is_space : coq_Z -> bool

val is_digit : coq_Z -> bool

val is_alpha : coq_Z -> bool

val is_alnum : coq_Z -> bool

val coq_EOFc : coq_Z

val string_of_chars : coq_Z list -> string

val keyword : string -> token

val coq_ULONG_MAX : coq_Z

val strtoul_go : coq_Z list -> coq_Z -> bool -> coq_Z

val number_value : coq_Z list -> coq_Z

type lexed = { lx_tok : token; lx_id : string; lx_val : coq_Z;
               lx_line : coq_Z; lx_col : coq_Z }

type lmode =
| MStart
| MComment
| MIdent of coq_Z list
| MNum of coq_Z list

type lstate = { ls_id : string; ls_val : coq_Z; ls_line : coq_Z;
                ls_col : coq_Z }

val mk_lexed : token -> lstate -> lexed

val bump : lstate -> lstate

val newline : lstate -> lstate

val set_id : lstate -> string -> lstate

val set_val : lstate -> coq_Z -> lstate

val start_action :
  coq_Z -> coq_Z -> lstate -> ((lexed list * lmode) * lstate) * bool

val one_char :
  lmode -> coq_Z -> coq_Z -> lstate -> ((lexed list * lmode) * lstate) * bool

val lex_go : coq_Z list -> coq_Z -> lmode -> lstate -> lexed list

val lex : coq_Z list -> lexed list

type lkind =
| LId
| LFunc
| LProc

type directive =
| DData of coq_Z
| DLabel of lkind * string
| DImm of token * coq_Z
| DRef of token * string * bool
| DOpr of token
| DPadding of coq_Z

type diag =
| EUnexpected of coq_Z * coq_Z * token
| EUnrecognised of coq_Z * coq_Z * token
| EInvalidOpr of coq_Z * coq_Z * token
| EUnknownLabel of nat * string
| EUnaligned of nat
| ENotConverged

type 'a outcome =
| Ok of 'a
| Reject of diag
| UB of string
| OutOfFuel

val eof_lexed : lexed

val parse_integer : lexed -> lexed list -> (coq_Z * lexed list) outcome

val next_tok : lexed list -> lexed * lexed list

val is_abs_opc : token -> bool

val is_rel_opc : token -> bool

val parse_directive :
  lexed -> lexed list -> (((coq_Z * coq_Z) * directive) * lexed list) outcome

val parse_go :
  nat -> lexed list -> ((coq_Z * coq_Z) * directive) list ->
  ((coq_Z * coq_Z) * directive) list outcome

val parse : lexed list -> ((coq_Z * coq_Z) * directive) list outcome
