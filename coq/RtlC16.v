(* RtlC16.v -- the reflective check behind C16, on the designs regenerated from /repo's working tree:
   gen/RtlSv.v (processor.sv), gen/RtlV.v (verilog/processor.v), gen/RtlVSynth.v (synth/processor.v). *)
From Coq Require Import ZArith Lia Bool List String.
From HexVerif Require Import Vexp RtlEquiv.
From HexVerif.gen Require RtlSv RtlV RtlVSynth.
Import ListNotations.
Local Open Scope Z_scope.
Local Open Scope string_scope.

(* 256 bytes x 2 reset values x (12 outputs + 4 registers): a closed boolean computation *)
Lemma check_v_sv : proc_equiv_check RtlV.design RtlSv.design = true.
Proof. vm_compute. reflexivity. Qed.

Theorem v_equiv_sv : forall e, 0 <= var e "i_f_data" < 256 -> (var e "i_rst" = 0 \/ var e "i_rst" = 1) ->
  same_at e RtlV.design RtlSv.design.
Proof. exact (proc_equiv_check_sound _ _ check_v_sv). Qed.

Theorem v_clocking_sv : clocking RtlV.design = clocking RtlSv.design.
Proof. exact (proc_equiv_check_clocking _ _ check_v_sv). Qed.

(* the copy kept for synthesis is the same design as verilog/processor.v (today the two elaborate to the very same
   value; stated behaviourally so that a harmless textual difference between the copies is not an alarm) *)
Lemma check_vsynth_v : proc_equiv_check RtlVSynth.design RtlV.design = true.
Proof. vm_compute. reflexivity. Qed.

Theorem vsynth_equiv_v : forall e, 0 <= var e "i_f_data" < 256 -> (var e "i_rst" = 0 \/ var e "i_rst" = 1) ->
  same_at e RtlVSynth.design RtlV.design.
Proof. exact (proc_equiv_check_sound _ _ check_vsynth_v). Qed.

Theorem vsynth_clocking_v : clocking RtlVSynth.design = clocking RtlV.design.
Proof. exact (proc_equiv_check_clocking _ _ check_vsynth_v). Qed.

(* ---- non-vacuity: the designs have the expected interface, compute something, and the checker discriminates *)
Definition names (l : list (string * vexp)) : list string := map fst l.
Lemma interface_sv :
  names (outputs RtlSv.design) = ["o_d_addr"; "o_d_data"; "o_d_valid"; "o_d_we"; "o_f_addr"; "o_f_valid"; "o_syscall"; "o_syscall_valid"] /\
  names (next RtlSv.design) = ["areg_q"; "breg_q"; "oreg_q"; "pc_q"].
Proof. split; reflexivity. Qed.

Definition env_of (f : string -> Z) : env := {| var := f; xs := fun _ => 0; arr := fun _ _ => 0 |}.
Definition demo_env (byte : Z) : env :=
  env_of (fun v => if String.eqb v "i_f_data" then byte else if String.eqb v "pc_q" then 100 else
                   if String.eqb v "areg_q" then 7 else if String.eqb v "breg_q" then 5 else 0).
(* BR +1 from pc 100 goes to 102; ADD gives 12; STAM 3 raises a write to word 3 *)
Lemma demo_values :
  map (evalp (demo_env 145)) (next RtlV.design) = [("areg_q", 7); ("breg_q", 5); ("oreg_q", 0); ("pc_q", 102)] /\
  map (evalp (demo_env 209)) (next RtlV.design) = [("areg_q", 12); ("breg_q", 5); ("oreg_q", 0); ("pc_q", 101)] /\
  map (evalp (demo_env 35)) (outputs RtlV.design) =
    [("o_d_addr", 3); ("o_d_data", 7); ("o_d_valid", 1); ("o_d_we", 1); ("o_f_addr", 100); ("o_f_valid", 1); ("o_syscall", 3); ("o_syscall_valid", 0)].
Proof. repeat split; vm_compute; reflexivity. Qed.

(* a design whose ADD has been turned into a SUB is rejected by the same computation *)
Fixpoint break_add (x : vexp) : vexp :=
  match x with
  | Add 32 a b => Sub 32 (break_add a) (break_add b)
  | Cond c a b => Cond c (break_add a) (break_add b)
  | _ => x
  end.
Definition broken (d : design) : design :=
  {| outputs := outputs d; next := map (fun p => (fst p, break_add (snd p))) (next d); wires := wires d;
     mem_writes := mem_writes d; clocking := clocking d; nx := nx d |}.
Lemma checker_discriminates : proc_equiv_check (broken RtlSv.design) RtlSv.design = false /\
  map fst (proc_equiv_failures (broken RtlSv.design) RtlSv.design) = [209].
Proof. split; vm_compute; reflexivity. Qed.
