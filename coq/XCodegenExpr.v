(* XCodegenExpr.v -- a model of xcmp's expression code generation (xcmp.hpp ExprCodeGen, genBinopOperands,
   genConst, genVar, and the lowering of frame-base relative operands) and its correctness against the ISA spec
   Isa.step and the X spec XSem.eval.

   Input: expressions in the form the code generator reads them, i.e. after constant propagation and the
   operator rewrites (XConstProp.front; property C07 covers those passes): folded constants are literals,
   ~=, >=, >, <= and unary minus have been rewritten, so the operators are + - and or = < and ~.
   Fragment: literals (operand-encoded or from the constant pool), global variables, locals and value formals
   (frame words), + and - nested to any depth on both sides (right operands that need areg are spilled to frame
   temporaries), =, < (with xcmp's special cases for a literal zero), ~, and/or (short circuit), all with the
   generated labels and branches, and subscripts a[e] of the arrays in scope (aenv: the word holding the address of
   the cells; constant subscript: LDAI c, otherwise index + base and LDAI 0).  Not in the fragment: calls, system
   calls, strings.

   cg_correct: if XSem evaluates e to n in a state related to the machine memory, then the generated code, run
   from its first byte, ends just behind the code with n mod 2^32 in the requested register, the operand register
   clear, and a memory that differs from the initial one only in frame temporaries at or above the current
   frame offset -- for every nesting depth. *)
From Coq Require Import ZArith List String Bool Lia FMapPositive.
From HexVerif Require Import WMap Isa XAst XSem XCodegenIsa XCodegenInv.
Import ListNotations.
Local Open Scope Z_scope.

Ltac Zify.zify_post_hook ::= Z.div_mod_to_equations.

Inductive reg := RA | RB.
(* where a variable lives: an absolute word (global: its DATA label), or a frame word at sp + k (local j of a
   frame of `size` words: k = size - 1 - j; formal i: k = size + 2 + i for a function, size + 1 + i for a procedure) *)
Inductive loc := LGlobal (a : Z) | LFrame (k : Z).

Definition obind {A B : Type} (o : option A) (k : A -> option B) : option B :=
  match o with Some a => k a | None => None end.
Notation "'do' x <- a ; b" := (obind a (fun x => b)) (at level 200, x pattern, a at level 100, b at level 200).

(* ---------------------------------------------------------------- model of the code generator *)
Definition small (v : Z) : bool := (-65536 <? v) && (v <? 65536).
Definition ldc (r : reg) (v : Z) : instr := match r with RA => LDAC v | RB => LDBC v end.
Definition ldm (r : reg) (a : Z) : instr := match r with RA => LDAM a | RB => LDBM a end.

Definition lit_of (e : expr) : option Z :=
  match e with ENum n => Some (signed32 n) | EBool b => Some (of_bool b) | _ => None end.
(* not needsAReg: a constant or a variable reference *)
Definition simple (e : expr) : bool :=
  match e with ENum _ => true | EBool _ => true | EVar _ => true | _ => false end.
Definition is_zero (e : expr) : bool :=
  match lit_of e with Some v => v =? 0 | None => false end.

(* trueLabel = n, endLabel = n + 1:   br true; LDAC 0; BR end; true: LDAC 1; end: *)
Definition bool_tail (br : label -> instr) (n : label) : list instr :=
  [br n; LDAC 0; BR (n + 1); LABEL n; LDAC 1; LABEL (n + 1)].

Definition cgfun : Type := label -> Z -> option (list instr * label).

Section Codegen.
  Variable venv : string -> option loc.      (* the symbols of the current scope *)
  Variable pool : Z -> option Z.             (* word address of a constant-pool entry *)
  Variable size : Z.                         (* frame size of the procedure *)
  Variable nslots : Z.                       (* frame offsets below nslots are usable *)
  Variable aenv : string -> option loc.      (* the arrays in scope: the word that holds the address of the cells *)

  (* genConst *)
  Definition gen_const (r : reg) (v : Z) : option (list instr) :=
    if small v then Some [ldc r v]
    else match pool v with Some a => Some [ldm r a] | None => None end.
  (* genVar *)
  Definition gen_var (r : reg) (l : loc) : list instr :=
    match l with
    | LGlobal a => [ldm r a]
    | LFrame k => match r with RA => [LDAM 1; LDAI k] | RB => [LDBM 1; LDBI k] end
    end.

  (* genBinopOperands followed by the operator *)
  Definition arith_code (opi : instr) (smpl : bool) (cgl cgrA cgrB : cgfun) (n : label) (off : Z)
    : option (list instr * label) :=
    if smpl then
      do (cl, n1) <- cgl n off; do (cr, n2) <- cgrB n1 off; Some (cl ++ cr ++ [opi], n2)
    else if (0 <=? off) && (off <? nslots) then
      do (cr, n1) <- cgrA n off; do (cl, n2) <- cgl n1 (off + 1);
      Some (cr ++ [LDBM 1; STAI (size - 1 - off)] ++ cl ++ [LDBM 1; LDBI (size - 1 - off)] ++ [opi], n2)
    else None.

  (* genExpr(e, reg) with the next label number n and the frame offset off; returns the code and the next label *)
  Fixpoint cg (e : expr) (r : reg) (n : label) (off : Z) : option (list instr * label) :=
    match e with
    | ENum _ => do v <- lit_of e; do c <- gen_const r v; Some (c, n)
    | EBool _ => do v <- lit_of e; do c <- gen_const r v; Some (c, n)
    | EVar x => do l <- venv x; Some (gen_var r l, n)
    | ESub a i =>
        (* ArraySubscriptExpr: a constant subscript is an operand of LDAI, otherwise index + base; always into areg *)
        match r with
        | RB => None
        | RA =>
            do l <- aenv a;
            match lit_of i with
            | Some c => Some (gen_var RA l ++ [LDAI c], n)
            | None => do (ci, n1) <- cg i RA n off; Some (ci ++ gen_var RB l ++ [ADD; LDAI 0], n1)
            end
        end
    | EUn Not a =>
        match r with
        | RA => do (c, n1) <- cg a RA (n + 2) off; Some (c ++ bool_tail BRZ n, n1)
        | RB => None
        end
    | EBin o l rr =>
        match r with
        | RB => None
        | RA =>
          let sub := arith_code SUB (simple rr) (cg l RA) (cg rr RA) (cg rr RB) in
          match o with
          | Plus => arith_code ADD (simple rr) (cg l RA) (cg rr RA) (cg rr RB) n off
          | Minus => sub n off
          | And => do (cl, n1) <- cg l RA (n + 1) off; do (cr, n2) <- cg rr RA n1 off;
                   Some (cl ++ [BRZ n] ++ cr ++ [LABEL n], n2)
          | Or => do (cl, n1) <- cg l RA (n + 2) off; do (cr, n2) <- cg rr RA n1 off;
                  Some (cl ++ [BRZ n; BR (n + 1); LABEL n] ++ cr ++ [LABEL (n + 1)], n2)
          | Eq => do (c, n1) <- (if is_zero l then cg rr RA n off else if is_zero rr then cg l RA n off else sub n off);
                  Some (c ++ bool_tail BRZ n1, n1 + 2)
          | Ls => do (c, n1) <- (if is_zero rr then cg l RA n off else sub n off);
                  Some (c ++ bool_tail BRN n1, n1 + 2)
          | _ => None
          end
        end
    | _ => None
    end.
End Codegen.

(* the symbols a procedure body sees (CreateSymbols, FormalLocations, LocalDeclLocations and the lowering of
   frame-base relative operands): local declaration j (val and var alike) is the frame word sp + size - 1 - j,
   value formal i is sp + size + 2 + i in a function and sp + size + 1 + i in a procedure (the caller's
   outgoing area); a local name hides the global of that name; other names are the global variables *)
Fixpoint index_of (x : string) (l : list string) (i : Z) : option Z :=
  match l with [] => None | y :: r => if String.eqb x y then Some i else index_of x r (i + 1) end.
Definition local_decl_name (d : decl) : string := match d with DVal x _ => x | DVar x => x | DArray x _ => x end.
Definition is_var_decl (d : decl) : bool := match d with DVar _ => true | _ => false end.
Definition is_val_formal (f : formal) : bool := match f with FVal _ => true | _ => false end.
Definition formal_nm (f : formal) : string := match f with FVal x => x | FArray x => x | FProc x => x | FFunc x => x end.

Definition frame_venv (gaddr : string -> option Z) (p : proc) (size : Z) : string -> option loc :=
  fun x =>
    match index_of x (map local_decl_name (locals p)) 0 with
    | Some j => if existsb (fun d => String.eqb x (local_decl_name d) && is_var_decl d) (locals p)
                then Some (LFrame (size - 1 - j)) else None
    | None =>
        match index_of x (map formal_nm (formals p)) 0 with
        | Some i => if existsb (fun f => String.eqb x (formal_nm f) && is_val_formal f) (formals p)
                    then Some (LFrame (size + (if is_func p then 2 else 1) + i)) else None
        | None => match gaddr x with Some a => Some (LGlobal a) | None => None end
        end
    end.
(* the first frame offset free for temporaries: one word per local declaration *)
Definition first_temp (p : proc) : Z := Z.of_nat (List.length (locals p)).

(* ---------------------------------------------------------------- correctness *)
Section Correct.
  Variable venv : string -> option loc.
  Variable pool : Z -> option Z.
  Variables size nslots : Z.
  Variable aenv : string -> option loc.
  Variable ge : genv.
  Variable P : Z -> Prop.               (* the words that are never stored to: code and constant pool *)
  Variable m0 : WMap.t.                 (* the loaded image *)
  Variable lab : label -> Z.            (* position of every label *)
  Variable sp : Z.                      (* the stack pointer mem[1] while the procedure body runs *)
  Variable off0 : Z.                    (* first frame offset usable for temporaries (the locals come first) *)
  Variable mr : WMap.t.                 (* the memory when the expression's code starts *)

  Definition C (m : WMap.t) : Prop := forall a, 0 <= a -> P a -> rd m a = rd m0 a.
  Definition fb : Z := sp + size - 1.
  Definition tlo : Z := fb - nslots + 1.
  Definition T (a : Z) : Prop := tlo <= a <= fb - off0.
  Definition keeps (off : Z) (m m' : WMap.t) : Prop :=
    forall a, 0 <= a -> ~ (tlo <= a <= fb - off) -> rd m' a = rd m a.
  Definition K (m : WMap.t) : Prop := keeps off0 mr m.

  Hypothesis Hmr_C : C mr.
  Hypothesis Hmr_sp : rd mr 1 = sp.
  Hypothesis HT_mem : 0 <= tlo /\ fb - off0 < MEMW.
  Hypothesis HT_P : forall a, T a -> ~ P a.
  Hypothesis HT_1 : ~ T 1.
  Hypothesis Hpool : forall v a, pool v = Some a -> P a /\ in_mem a = true /\ rd m0 a = v mod W.
  Hypothesis Hglob : forall x a, venv x = Some (LGlobal a) -> in_mem a = true /\ ~ T a.
  Hypothesis Hframe : forall x k, venv x = Some (LFrame k) -> in_mem (sp + k) = true /\ ~ T (sp + k).
  (* the word that holds an array's address *)
  Definition waddr (l : loc) : Z := match l with LGlobal a => a | LFrame k => sp + k end.
  Hypothesis Harr : forall a l, aenv a = Some l -> in_mem (waddr l) = true /\ ~ T (waddr l).

  Lemma keeps_refl off m : keeps off m m. Proof. intros a _ _. reflexivity. Qed.
  Lemma keeps_trans off m1 m2 m3 : keeps off m1 m2 -> keeps off m2 m3 -> keeps off m1 m3.
  Proof. intros H1 H2 a Ha Hn. rewrite (H2 a Ha Hn). apply H1; assumption. Qed.
  Lemma keeps_weaken off off' m m' : off <= off' -> keeps off' m m' -> keeps off m m'.
  Proof. intros Hle H a Ha Hn. apply H; [exact Ha|]. lia. Qed.
  Lemma keeps_wr off m a v : tlo <= a <= fb - off -> keeps off m (wr m a v).
  Proof. intros Ha b Hb Hn. apply rd_wr_other; lia. Qed.
  Lemma K_keeps off m m' : off0 <= off -> K m -> keeps off m m' -> K m'.
  Proof. intros Ho HK Hk. unfold K. eapply keeps_trans; [exact HK|]. eapply keeps_weaken; [exact Ho | exact Hk]. Qed.
  Lemma K_mr : K mr. Proof. apply keeps_refl. Qed.
  Lemma K_C m : K m -> C m.
  Proof.
    intros HK a Ha HP. rewrite (HK a Ha).
    - apply Hmr_C; assumption.
    - intros HT. exact (HT_P a HT HP).
  Qed.
  Lemma K_sp m : K m -> rd m 1 = sp.
  Proof. intros HK. rewrite (HK 1 ltac:(lia) HT_1). exact Hmr_sp. Qed.
  Lemma in_mem_range a : in_mem a = true -> 0 <= a < MEMW.
  Proof. unfold in_mem. intros H. apply andb_prop in H. destruct H as [H1 H2]. apply Z.leb_le in H1. apply Z.ltb_lt in H2. lia. Qed.
  Lemma in_mem_wrap a : in_mem a = true -> wrap a = a.
  Proof. intros H. apply in_mem_range in H. unfold wrap. apply Z.mod_small. unfold MEMW, W in *. lia. Qed.
  Lemma in_mem_temp a : T a -> in_mem a = true.
  Proof.
    unfold T. intros H. destruct HT_mem as [H0 H1]. unfold in_mem.
    apply andb_true_intro. split; [apply Z.leb_le | apply Z.ltb_lt]; lia.
  Qed.

  (* a source value and the machine word that holds it *)
  Definition val_ok (v : value) (w : Z) : Prop :=
    v = Vundef \/ exists n, v = Vint n /\ in_int n = true /\ w = n mod W.

  (* the source state and the memory mr agree on the variables; the compile-time scope is the run-time scope *)
  Definition vars_ok (st : state) : Prop :=
    (forall x a, venv x = Some (LGlobal a) ->
       assoc x (f_vars (top st)) = None /\ assoc x (f_vals (top st)) = None /\ assoc x (g_vals ge) = None /\
       exists v, assoc x (gvars st) = Some v /\ val_ok v (rd mr a)) /\
    (forall x k, venv x = Some (LFrame k) ->
       exists v, assoc x (f_vars (top st)) = Some v /\ val_ok v (rd mr (sp + k))).

  Lemma vars_ok_same st st' : same_store st st' -> vars_ok st -> vars_ok st'.
  Proof.
    intros (Hg & Hs & _) [H1 H2]. unfold vars_ok, top in *. rewrite Hg, Hs. split; assumption.
  Qed.

  (* the name a denotes the global array g in the state: it is a global array no local name hides, or an array
     formal bound to g *)
  Definition resolves (st : state) (a g : string) : Prop :=
    assoc a (f_vars (top st)) = Some (Varr g) \/
    (assoc a (f_vars (top st)) = None /\ assoc a (f_vals (top st)) = None /\ assoc a (garrs st) <> None /\ g = a).
  Lemma resolves_array st a g : resolves st a g -> resolve_array ge a st = Ret (Varr g) st.
  Proof.
    unfold resolve_array. intros [H|(H1 & H2 & H3 & ->)]; [rewrite H; reflexivity|].
    rewrite H1, H2. destruct (assoc a (garrs st)); [reflexivity | exfalso; apply H3; reflexivity].
  Qed.
  Lemma resolves_same st st' a g : same_store st st' -> resolves st a g -> resolves st' a g.
  Proof. intros (_ & Hs & Ha & _). unfold resolves, top. rewrite Hs, Ha. trivial. Qed.
  (* the arrays in scope: the word of the name holds the address of the cells of the array it denotes; the cells lie
     in memory outside the temporaries and hold the values of the assigned elements *)
  Definition arrays_ok (st : state) : Prop :=
    forall a l, aenv a = Some l ->
      exists g ar base, resolves st a g /\ assoc g (garrs st) = Some ar /\ rd mr (waddr l) = base /\
        (forall i, 0 <= i < alen ar -> in_mem (base + i) = true /\ ~ T (base + i)) /\
        (forall i n, 0 <= i < alen ar -> PositiveMap.find (cell i) (acells ar) = Some (Vint n) ->
                     in_int n = true /\ rd mr (base + i) = n mod W).
  Lemma arrays_ok_same st st' : same_store st st' -> arrays_ok st -> arrays_ok st'.
  Proof.
    intros Hs H a l Hal. destruct (H a l Hal) as (g & ar & base & H1 & H2 & H3).
    exists g, ar, base. split; [exact (resolves_same _ _ _ _ Hs H1)|]. destruct Hs as (_ & _ & Ha & _). rewrite Ha. exact (conj H2 H3).
  Qed.

  (* what the code must leave in the requested register (as a machine word w), from any admissible memory *)
  Definition lands (r : reg) (code : list instr) (w off : Z) : Prop :=
    forall m pos nxt a b inp, K m -> code_at C lab pos code nxt -> 0 <= pos -> nxt < W ->
      match r with
      | RA => exists b' m', taus inp (mk pos a b 0 m) (mk nxt w b' 0 m') /\ keeps off m m'
      | RB => taus inp (mk pos a b 0 m) (mk nxt a w 0 m)
      end.

  Ltac one_instr Hc mid Hi := cbn [code_at] in Hc; destruct Hc as (mid & Hi & Hc).

  Lemma lands_const r v c off : gen_const pool r v = Some c -> lands r c (v mod W) off.
  Proof.
    unfold gen_const. intros Hg m pos nxt a b inp HK Hc Hp Hn. pose proof (K_C m HK) as HC.
    destruct (small v).
    - inversion Hg; subst c. one_instr Hc mid Hi. subst mid.
      destruct r; cbn [ldc] in Hi.
      + exists b, m. split; [exact (exec_instr C lab m pos nxt (LDAC v) a b inp eq_refl Hi HC I Hn) | apply keeps_refl].
      + exact (exec_instr C lab m pos nxt (LDBC v) a b inp eq_refl Hi HC I Hn).
    - destruct (pool v) as [pa|] eqn:Ep; [|discriminate]. inversion Hg; subst c.
      destruct (Hpool v pa Ep) as (HP & Hin & Hrd).
      one_instr Hc mid Hi. subst mid.
      assert (Hm : rd m pa = v mod W) by (rewrite (HC pa (proj1 (in_mem_range pa Hin)) HP); exact Hrd).
      destruct r; cbn [ldm] in Hi.
      + exists b, m. split; [|apply keeps_refl]. rewrite <- Hm.
        exact (exec_instr C lab m pos nxt (LDAM pa) a b inp eq_refl Hi HC Hin Hn).
      + rewrite <- Hm. exact (exec_instr C lab m pos nxt (LDBM pa) a b inp eq_refl Hi HC Hin Hn).
  Qed.

  Lemma lands_var_gen r l w off : in_mem (waddr l) = true -> ~ T (waddr l) -> rd mr (waddr l) = w -> lands r (gen_var r l) w off.
  Proof.
    intros Hin0 HnT0 Hw m pos nxt a b inp HK Hc Hp Hn. pose proof (K_C m HK) as HC.
    destruct l as [ga|k]; cbn [gen_var waddr] in *.
    - pose proof Hin0 as Hin. pose proof HnT0 as HnT.
      assert (Hm : rd m ga = w) by (rewrite (HK ga (proj1 (in_mem_range ga Hin)) HnT); exact Hw).
      one_instr Hc mid Hi. subst mid.
      destruct r; cbn [ldm] in Hi.
      + exists b, m. split; [|apply keeps_refl]. rewrite <- Hm.
        exact (exec_instr C lab m pos nxt (LDAM ga) a b inp eq_refl Hi HC Hin Hn).
      + rewrite <- Hm. exact (exec_instr C lab m pos nxt (LDBM ga) a b inp eq_refl Hi HC Hin Hn).
    - pose proof Hin0 as Hin. pose proof HnT0 as HnT.
      assert (Hm : rd m (sp + k) = w) by (rewrite (HK (sp + k) (proj1 (in_mem_range _ Hin)) HnT); exact Hw).
      destruct r.
      + one_instr Hc p1 Hi1. one_instr Hc p2 Hi2. subst p2.
        assert (B1 : p1 < W) by (apply instr_at_le in Hi2; lia).
        pose proof (exec_instr C lab m pos p1 (LDAM 1) a b inp eq_refl Hi1 HC eq_refl B1) as T1.
        cbn [sem fst snd] in T1. rewrite (K_sp m HK) in T1.
        assert (R2 : readable (LDAI k) sp b) by (cbn [readable]; rewrite (in_mem_wrap _ Hin); exact Hin).
        pose proof (exec_instr C lab m p1 nxt (LDAI k) sp b inp eq_refl Hi2 HC R2 Hn) as T2.
        cbn [sem fst snd] in T2. rewrite (in_mem_wrap _ Hin), Hm in T2.
        exists b, m. split; [eapply taus_trans; eassumption | apply keeps_refl].
      + one_instr Hc p1 Hi1. one_instr Hc p2 Hi2. subst p2.
        assert (B1 : p1 < W) by (apply instr_at_le in Hi2; lia).
        pose proof (exec_instr C lab m pos p1 (LDBM 1) a b inp eq_refl Hi1 HC eq_refl B1) as T1.
        cbn [sem fst snd] in T1. rewrite (K_sp m HK) in T1.
        assert (R2 : readable (LDBI k) a sp) by (cbn [readable]; rewrite (in_mem_wrap _ Hin); exact Hin).
        pose proof (exec_instr C lab m p1 nxt (LDBI k) a sp inp eq_refl Hi2 HC R2 Hn) as T2.
        cbn [sem fst snd] in T2. rewrite (in_mem_wrap _ Hin), Hm in T2.
        eapply taus_trans; eassumption.
  Qed.

  Lemma lands_var r x l w off : venv x = Some l ->
    match l with LGlobal a => rd mr a = w | LFrame k => rd mr (sp + k) = w end ->
    lands r (gen_var r l) w off.
  Proof.
    intros Hx Hw. destruct l as [ga|k].
    - destruct (Hglob x ga Hx) as [Hin HnT]. apply lands_var_gen; assumption.
    - destruct (Hframe x k Hx) as [Hin HnT]. apply lands_var_gen; assumption.
  Qed.

  (* the operator after its operands *)
  Definition opw (opi : instr) (x y : Z) : Z := match opi with ADD => wrap (x + y) | _ => wrap (x - y) end.

  Lemma lands_arith_simple opi cl cr x y off :
    opi = ADD \/ opi = SUB -> off0 <= off ->
    lands RA cl x off -> lands RB cr y off -> lands RA (cl ++ cr ++ [opi]) (opw opi x y) off.
  Proof.
    intros Hop Hoff Ll Lr m pos nxt a0 b0 inp HK Hc Hp Hn.
    apply code_at_app in Hc. destruct Hc as (mid1 & Hc1 & Hc).
    apply code_at_app in Hc. destruct Hc as (mid2 & Hc2 & Hc3).
    one_instr Hc3 mid3 Hi. subst mid3.
    pose proof (code_at_le C lab _ _ _ Hc1) as Hle1. pose proof (code_at_le C lab _ _ _ Hc2) as Hle2.
    assert (Hm2 : mid2 < W) by (apply instr_at_le in Hi; destruct Hop as [-> | ->]; cbn [instr_at] in Hi; lia).
    destruct (Ll m pos mid1 a0 b0 inp HK Hc1 Hp ltac:(lia)) as (b1 & m1 & T1 & K1).
    assert (HK1 : K m1) by exact (K_keeps off m m1 Hoff HK K1).
    pose proof (Lr m1 mid1 mid2 x b1 inp HK1 Hc2 ltac:(lia) Hm2) as T2.
    exists y, m1. split; [|exact K1].
    eapply taus_trans; [exact T1|]. eapply taus_trans; [exact T2|].
    destruct Hop as [-> | ->].
    - exact (exec_instr C lab m1 mid2 nxt ADD x y inp eq_refl Hi (K_C m1 HK1) I Hn).
    - exact (exec_instr C lab m1 mid2 nxt SUB x y inp eq_refl Hi (K_C m1 HK1) I Hn).
  Qed.

  Lemma lands_arith_spill opi cl cr x y off :
    opi = ADD \/ opi = SUB -> off0 <= off < nslots ->
    lands RA cr y off -> lands RA cl x (off + 1) ->
    lands RA (cr ++ [LDBM 1; STAI (size - 1 - off)] ++ cl ++ [LDBM 1; LDBI (size - 1 - off)] ++ [opi]) (opw opi x y) off.
  Proof.
    intros Hop Hoff Lr Ll m pos nxt a0 b0 inp HK Hc Hp Hn.
    set (slot := fb - off).
    assert (Hslot : T slot) by (unfold T, slot, tlo in *; lia).
    assert (Hk : sp + (size - 1 - off) = slot) by (unfold slot, fb; lia).
    pose proof (in_mem_temp slot Hslot) as Hsin.
    apply code_at_app in Hc. destruct Hc as (p1 & Hc1 & Hc).
    cbn [app] in Hc. one_instr Hc p2 Hi2. one_instr Hc p3 Hi3.
    apply code_at_app in Hc. destruct Hc as (p4 & Hc4 & Hc).
    cbn [app] in Hc. one_instr Hc p5 Hi5. one_instr Hc p6 Hi6. one_instr Hc p7 Hi7. subst p7.
    pose proof (code_at_le C lab _ _ _ Hc1) as L1. pose proof (code_at_le C lab _ _ _ Hc4) as L4.
    pose proof (instr_at_le _ _ _ _ _ Hi2) as L2. pose proof (instr_at_le _ _ _ _ _ Hi3) as L3.
    pose proof (instr_at_le _ _ _ _ _ Hi5) as L5. pose proof (instr_at_le _ _ _ _ _ Hi6) as L6.
    assert (L7 : p6 < nxt) by (destruct Hop as [-> | ->]; cbn [instr_at] in Hi7; lia).
    (* 1: the right operand *)
    destruct (Lr m pos p1 a0 b0 inp HK Hc1 Hp ltac:(lia)) as (b1 & m1 & T1 & K1).
    assert (HK1 : K m1) by exact (K_keeps off m m1 (proj1 Hoff) HK K1).
    (* 2: LDBM 1; STAI *)
    pose proof (exec_instr C lab m1 p1 p2 (LDBM 1) y b1 inp eq_refl Hi2 (K_C _ HK1) eq_refl ltac:(lia)) as T2.
    cbn [sem fst snd] in T2. rewrite (K_sp m1 HK1) in T2.
    assert (R3 : readable (STAI (size - 1 - off)) y sp) by (cbn [readable]; rewrite Hk, (in_mem_wrap _ Hsin); exact Hsin).
    pose proof (exec_instr C lab m1 p2 p3 (STAI (size - 1 - off)) y sp inp eq_refl Hi3 (K_C _ HK1) R3 ltac:(lia)) as T3.
    cbn [sem fst snd] in T3. rewrite Hk, (in_mem_wrap _ Hsin) in T3.
    set (m2 := wr m1 slot y) in *.
    assert (K2 : keeps off m m2).
    { eapply keeps_trans; [exact K1|]. apply keeps_wr. unfold T, slot in *. lia. }
    assert (HK2 : K m2) by exact (K_keeps off m m2 (proj1 Hoff) HK K2).
    (* 3: the left operand, one frame offset higher *)
    destruct (Ll m2 p3 p4 y sp inp HK2 Hc4 ltac:(lia) ltac:(lia)) as (b4 & m3 & T4 & K4).
    assert (K3 : keeps off m m3).
    { eapply keeps_trans; [exact K2|]. eapply keeps_weaken; [|exact K4]. lia. }
    assert (HK3 : K m3) by exact (K_keeps off m m3 (proj1 Hoff) HK K3).
    assert (Hsaved : rd m3 slot = y).
    { rewrite (K4 slot). - unfold m2. apply rd_wr_same. - unfold T, slot, tlo in *. lia. - unfold slot. lia. }
    (* 4: LDBM 1; LDBI; operator *)
    pose proof (exec_instr C lab m3 p4 p5 (LDBM 1) x b4 inp eq_refl Hi5 (K_C _ HK3) eq_refl ltac:(lia)) as T5.
    cbn [sem fst snd] in T5. rewrite (K_sp m3 HK3) in T5.
    assert (R6 : readable (LDBI (size - 1 - off)) x sp) by (cbn [readable]; rewrite Hk, (in_mem_wrap _ Hsin); exact Hsin).
    pose proof (exec_instr C lab m3 p5 p6 (LDBI (size - 1 - off)) x sp inp eq_refl Hi6 (K_C _ HK3) R6 ltac:(lia)) as T6.
    cbn [sem fst snd] in T6. rewrite Hk, (in_mem_wrap _ Hsin), Hsaved in T6.
    exists y, m3. split; [|exact K3].
    eapply taus_trans; [exact T1|]. eapply taus_trans; [exact T2|]. eapply taus_trans; [exact T3|].
    eapply taus_trans; [exact T4|]. eapply taus_trans; [exact T5|]. eapply taus_trans; [exact T6|].
    destruct Hop as [-> | ->].
    - exact (exec_instr C lab m3 p6 nxt ADD x y inp eq_refl Hi7 (K_C _ HK3) I Hn).
    - exact (exec_instr C lab m3 p6 nxt SUB x y inp eq_refl Hi7 (K_C _ HK3) I Hn).
  Qed.

  (* br true; LDAC 0; BR end; true: LDAC 1; end:   leaves 1 when the branch is taken, 0 otherwise *)
  Lemma run_bool_tail (br : label -> instr) (taken : Z -> bool) n m pos nxt a b inp :
    (forall l p q a' b', instr_at C lab p q (br l) -> C m -> q < W -> 0 <= lab l < W ->
        taus inp (mk p a' b' 0 m) (mk (if taken a' then lab l else q) a' b' 0 m)) ->
    C m -> code_at C lab pos (bool_tail br n) nxt -> 0 <= pos -> nxt < W ->
    taus inp (mk pos a b 0 m) (mk nxt (if taken a then 1 else 0) b 0 m).
  Proof.
    intros Hbr HC Hc Hp Hn. unfold bool_tail in Hc.
    one_instr Hc p1 Hi1. one_instr Hc p2 Hi2. one_instr Hc p3 Hi3. one_instr Hc p4 Hi4. one_instr Hc p5 Hi5. one_instr Hc p6 Hi6.
    subst p6. cbn [instr_at] in Hi4, Hi6. destruct Hi4 as [E4 Ln]. destruct Hi6 as [E6 Le]. subst p4 p5.
    pose proof (instr_at_le _ _ _ _ _ Hi2) as L2. pose proof (instr_at_le _ _ _ _ _ Hi3) as L3.
    pose proof (instr_at_le _ _ _ _ _ Hi5) as L5.
    pose proof (instr_at_le _ _ _ _ _ Hi1) as L1.
    pose proof (Hbr n pos p1 a b Hi1 HC ltac:(lia) ltac:(lia)) as T1.
    destruct (taken a).
    - (* to the true label *)
      eapply taus_trans; [exact T1|]. rewrite Ln.
      pose proof (exec_instr C lab m p3 nxt (LDAC 1) a b inp eq_refl Hi5 HC I Hn) as T5.
      cbn [sem fst snd] in T5. change (1 mod W) with 1 in T5. exact T5.
    - eapply taus_trans; [exact T1|].
      pose proof (exec_instr C lab m p1 p2 (LDAC 0) a b inp eq_refl Hi2 HC I ltac:(lia)) as T2.
      cbn [sem fst snd] in T2. change (0 mod W) with 0 in T2.
      eapply taus_trans; [exact T2|].
      pose proof (exec_br C lab m p2 p3 (n + 1) 0 b inp Hi3 HC ltac:(lia) ltac:(lia)) as T3. rewrite Le in T3. exact T3.
  Qed.

  Lemma lands_bool_tail_brz c w n off : off0 <= off -> lands RA c w off ->
    lands RA (c ++ bool_tail BRZ n) (if w =? 0 then 1 else 0) off.
  Proof.
    intros Hoff L m pos nxt a b inp HK Hc Hp Hn.
    apply code_at_app in Hc. destruct Hc as (mid & Hc1 & Hc2).
    pose proof (code_at_le C lab _ _ _ Hc1) as L1. pose proof (code_at_le C lab _ _ _ Hc2) as L2.
    destruct (L m pos mid a b inp HK Hc1 Hp ltac:(lia)) as (b1 & m1 & T1 & K1).
    assert (HK1 : K m1) by exact (K_keeps off m m1 Hoff HK K1).
    exists b1, m1. split; [|exact K1]. eapply taus_trans; [exact T1|].
    apply (run_bool_tail BRZ (fun x => x =? 0) n m1 mid nxt w b1 inp); try assumption; try lia.
    - intros l p q a' b' Hi HC' Hq Hl. exact (exec_brz C lab m1 p q l a' b' inp Hi HC' Hq Hl).
    - exact (K_C m1 HK1).
  Qed.

  Lemma lands_bool_tail_brn c w n off : off0 <= off -> lands RA c w off ->
    lands RA (c ++ bool_tail BRN n) (if negative w then 1 else 0) off.
  Proof.
    intros Hoff L m pos nxt a b inp HK Hc Hp Hn.
    apply code_at_app in Hc. destruct Hc as (mid & Hc1 & Hc2).
    pose proof (code_at_le C lab _ _ _ Hc1) as L1. pose proof (code_at_le C lab _ _ _ Hc2) as L2.
    destruct (L m pos mid a b inp HK Hc1 Hp ltac:(lia)) as (b1 & m1 & T1 & K1).
    assert (HK1 : K m1) by exact (K_keeps off m m1 Hoff HK K1).
    exists b1, m1. split; [|exact K1]. eapply taus_trans; [exact T1|].
    apply (run_bool_tail BRN negative n m1 mid nxt w b1 inp); try assumption; try lia.
    - intros l p q a' b' Hi HC' Hq Hl. exact (exec_brn C lab m1 p q l a' b' inp Hi HC' Hq Hl).
    - exact (K_C m1 HK1).
  Qed.

  (* l and r:   l; BRZ end; r; end:  *)
  Lemma lands_and cl cr x y n off : off0 <= off -> lands RA cl x off -> (x <> 0 -> lands RA cr y off) ->
    lands RA (cl ++ [BRZ n] ++ cr ++ [LABEL n]) (if x =? 0 then 0 else y) off.
  Proof.
    intros Hoff Ll Lr m pos nxt a b inp HK Hc Hp Hn.
    apply code_at_app in Hc. destruct Hc as (p1 & Hc1 & Hc). cbn [app] in Hc. one_instr Hc p2 Hi2.
    apply code_at_app in Hc. destruct Hc as (p3 & Hc3 & Hc). one_instr Hc p4 Hi4. subst p4.
    cbn [instr_at] in Hi4. destruct Hi4 as [E4 Ln]. subst p3.
    pose proof (code_at_le C lab _ _ _ Hc1) as L1. pose proof (code_at_le C lab _ _ _ Hc3) as L3.
    pose proof (instr_at_le _ _ _ _ _ Hi2) as L2.
    destruct (Ll m pos p1 a b inp HK Hc1 Hp ltac:(lia)) as (b1 & m1 & T1 & K1).
    assert (HK1 : K m1) by exact (K_keeps off m m1 Hoff HK K1).
    pose proof (exec_brz C lab m1 p1 p2 n x b1 inp Hi2 (K_C _ HK1) ltac:(lia) ltac:(lia)) as T2.
    destruct (x =? 0) eqn:Ex.
    - apply Z.eqb_eq in Ex. subst x. exists b1, m1. split; [|exact K1].
      eapply taus_trans; [exact T1|]. rewrite Ln in T2. exact T2.
    - apply Z.eqb_neq in Ex.
      destruct (Lr Ex m1 p2 nxt x b1 inp HK1 Hc3 ltac:(lia) Hn) as (b2 & m2 & T3 & K2).
      exists b2, m2. split; [|eapply keeps_trans; eassumption].
      eapply taus_trans; [exact T1|]. eapply taus_trans; [exact T2|]. exact T3.
  Qed.

  (* l or r:   l; BRZ false; BR end; false: r; end:  *)
  Lemma lands_or cl cr x y n off : off0 <= off -> lands RA cl x off -> (x = 0 -> lands RA cr y off) ->
    lands RA (cl ++ [BRZ n; BR (n + 1); LABEL n] ++ cr ++ [LABEL (n + 1)]) (if x =? 0 then y else x) off.
  Proof.
    intros Hoff Ll Lr m pos nxt a b inp HK Hc Hp Hn.
    apply code_at_app in Hc. destruct Hc as (p1 & Hc1 & Hc). cbn [app] in Hc.
    one_instr Hc p2 Hi2. one_instr Hc p3 Hi3. one_instr Hc p4 Hi4.
    apply code_at_app in Hc. destruct Hc as (p5 & Hc5 & Hc). one_instr Hc p6 Hi6. subst p6.
    cbn [instr_at] in Hi4, Hi6. destruct Hi4 as [E4 Lf]. destruct Hi6 as [E6 Le]. subst p4 p5.
    pose proof (code_at_le C lab _ _ _ Hc1) as L1. pose proof (code_at_le C lab _ _ _ Hc5) as L5.
    pose proof (instr_at_le _ _ _ _ _ Hi2) as L2. pose proof (instr_at_le _ _ _ _ _ Hi3) as L3.
    destruct (Ll m pos p1 a b inp HK Hc1 Hp ltac:(lia)) as (b1 & m1 & T1 & K1).
    assert (HK1 : K m1) by exact (K_keeps off m m1 Hoff HK K1).
    pose proof (exec_brz C lab m1 p1 p2 n x b1 inp Hi2 (K_C _ HK1) ltac:(lia) ltac:(lia)) as T2.
    destruct (x =? 0) eqn:Ex.
    - apply Z.eqb_eq in Ex.
      destruct (Lr Ex m1 p3 nxt x b1 inp HK1 Hc5 ltac:(lia) Hn) as (b2 & m2 & T3 & K2).
      exists b2, m2. split; [|eapply keeps_trans; eassumption].
      eapply taus_trans; [exact T1|]. rewrite Lf in T2. eapply taus_trans; [exact T2|]. exact T3.
    - exists b1, m1. split; [|exact K1].
      eapply taus_trans; [exact T1|]. eapply taus_trans; [exact T2|].
      pose proof (exec_br C lab m1 p2 p3 (n + 1) x b1 inp Hi3 (K_C _ HK1) ltac:(lia) ltac:(lia)) as T3.
      rewrite Le in T3. exact T3.
  Qed.

  (* ---- arithmetic facts about machine words *)
  Lemma wrap_add x y : wrap (x mod W + y mod W) = (x + y) mod W.
  Proof. unfold wrap. rewrite <- Zplus_mod. reflexivity. Qed.
  Lemma wrap_sub x y : wrap (x mod W - y mod W) = (x - y) mod W.
  Proof. unfold wrap. rewrite <- Zminus_mod. reflexivity. Qed.
  Lemma in_int_bounds z : in_int z = true -> -2147483648 <= z <= 2147483647.
  Proof. unfold in_int, min_int, max_int. intros H. apply andb_prop in H. destruct H as [H1 H2]. apply Z.leb_le in H1. apply Z.leb_le in H2. lia. Qed.
  Lemma word_zero z : in_int z = true -> (z mod W =? 0) = (z =? 0).
  Proof.
    intros H. apply in_int_bounds in H. unfold W.
    destruct (z =? 0) eqn:E.
    - apply Z.eqb_eq in E. subst z. reflexivity.
    - apply Z.eqb_neq in E. apply Z.eqb_neq. intros Hm. apply Z.mod_divide in Hm; [|lia]. destruct Hm as [q Hq]. lia.
  Qed.
  Lemma word_negative z : in_int z = true -> negative (z mod W) = (z <? 0).
  Proof.
    intros H. apply in_int_bounds in H. unfold negative, W.
    destruct (z <? 0) eqn:E.
    - apply Z.ltb_lt in E. apply Z.leb_le. lia.
    - apply Z.ltb_ge in E. apply Z.leb_gt. lia.
  Qed.
  Lemma word_eq x y : in_int x = true -> in_int y = true -> ((x - y) mod W =? 0) = (x =? y).
  Proof.
    intros Hx Hy. apply in_int_bounds in Hx. apply in_int_bounds in Hy. unfold W.
    destruct (x =? y) eqn:E.
    - apply Z.eqb_eq in E. subst y. rewrite Z.sub_diag. reflexivity.
    - apply Z.eqb_neq in E. apply Z.eqb_neq. intros Hm. apply Z.mod_divide in Hm; [|lia]. destruct Hm as [q Hq]. lia.
  Qed.

  (* ---- the arithmetic sub-generator, given what the operand generators land *)
  Lemma arith_correct opi (cgl cgrA cgrB : cgfun) smpl n off code n' x y :
    opi = ADD \/ opi = SUB -> off0 <= off ->
    arith_code size nslots opi smpl cgl cgrA cgrB n off = Some (code, n') ->
    (forall n1 o1 c n2, off0 <= o1 -> cgl n1 o1 = Some (c, n2) -> lands RA c x o1) ->
    (forall n1 o1 c n2, off0 <= o1 -> cgrA n1 o1 = Some (c, n2) -> lands RA c y o1) ->
    (forall n1 o1 c n2, off0 <= o1 -> cgrB n1 o1 = Some (c, n2) -> lands RB c y o1) ->
    lands RA code (opw opi x y) off.
  Proof.
    intros Hop Hoff Hc Hl HrA HrB. unfold arith_code in Hc. destruct smpl.
    - destruct (cgl n off) as [[cl n1]|] eqn:El; [|discriminate]. cbn [obind] in Hc.
      destruct (cgrB n1 off) as [[cr n2]|] eqn:Er; [|discriminate]. cbn [obind] in Hc. inversion Hc; subst code n'.
      apply lands_arith_simple; try assumption; [eapply Hl | eapply HrB]; eassumption.
    - destruct ((0 <=? off) && (off <? nslots)) eqn:Eo; [|discriminate].
      apply andb_prop in Eo. destruct Eo as [_ Eo]. apply Z.ltb_lt in Eo.
      destruct (cgrA n off) as [[cr n1]|] eqn:Er; [|discriminate]. cbn [obind] in Hc.
      destruct (cgl n1 (off + 1)) as [[cl n2]|] eqn:El; [|discriminate]. cbn [obind] in Hc. inversion Hc; subst code n'.
      apply lands_arith_spill; try assumption; try lia; [eapply HrA | eapply Hl]; try eassumption; lia.
  Qed.

  (* ---- expressions of the fragment do not change the store *)
  Lemma read_elem_arr g a n s1 v s : read_elem (Varr g) a n s1 = Ret v s ->
    exists ar vn, assoc g (garrs s1) = Some ar /\ 0 <= n < alen ar /\
                  PositiveMap.find (cell n) (acells ar) = Some (Vint vn) /\ v = Vint vn /\ s = note_rd g s1.
  Proof.
    unfold read_elem. intros H. destruct (assoc g (garrs s1)) as [ar|]; [|discriminate].
    destruct ((0 <=? n) && (n <? alen ar)) eqn:Eb; [|discriminate]. apply andb_prop in Eb. destruct Eb as [E1 E2].
    apply Z.leb_le in E1. apply Z.ltb_lt in E2.
    destruct (PositiveMap.find (cell n) (acells ar)) as [[|vn| |]|] eqn:Ef; try discriminate. inversion H; subst.
    exists ar, vn. repeat split; try assumption; lia.
  Qed.

  Lemma eval_pure : forall e, pure e = true -> forall f st v s, eval f ge e st = Ret v s -> same_store st s.
  Proof.
    induction e as [n0|b0|bs|x|a i IHi|g args|n0 args|u e IHe|o l IHl rr IHr]; intros Hp f st v s He; cbn [pure] in Hp; try discriminate.
    - destruct (eval_num _ _ _ _ _ _ He) as [_ ->]. apply same_store_refl.
    - destruct (eval_bool _ _ _ _ _ _ He) as [_ ->]. apply same_store_refl.
    - apply eval_var in He. unfold read_var in He.
      destruct (assoc x (f_vars (top st))) as [[| | |]|]; try discriminate; try (inversion He; apply same_store_refl).
      destruct (assoc x (f_vals (top st))); [inversion He; apply same_store_refl|].
      destruct (assoc x (g_vals ge)); [inversion He; apply same_store_refl|].
      destruct (assoc x (gvars st)) as [[| | |]|]; try discriminate; try (inversion He; apply same_store_note_rd).
      destruct (assoc x (garrs st)); [inversion He; apply same_store_refl | discriminate].
    - (* subscript *)
      destruct (eval_sub _ _ _ _ _ _ _ He) as (f1 & av & n & s1 & _ & Hi & Hr).
      eapply same_store_trans; [exact (IHi Hp _ _ _ _ Hi)|].
      destruct av as [| |g|ws]; try discriminate Hr.
      + destruct (read_elem_arr _ _ _ _ _ _ Hr) as (ar & vn & _ & _ & _ & _ & ->). apply same_store_note_rd.
      + unfold read_elem in Hr. destruct ((0 <=? n) && (n <? Z.of_nat (List.length ws))); [|discriminate].
        inversion Hr; subst. apply same_store_refl.
    - destruct u.
      + destruct f as [|f0]; [discriminate|]. cbn [eval eval_body] in He.
        apply bind_ret in He. destruct He as (va & s1 & H1 & H).
        destruct va; try discriminate. cbn [int_of] in H. destruct (in_int (0 - n)); [|discriminate]. inversion H; subst.
        eapply IHe; eassumption.
      + destruct (eval_not _ _ _ _ _ _ He) as (f1 & t & H1 & _). eapply IHe; eassumption.
    - apply andb_prop in Hp. destruct Hp as [Hpl Hpr].
      destruct (logical o) eqn:Lo.
      + destruct o; try discriminate.
        * destruct (eval_or _ _ _ _ _ _ _ He) as (f1 & t & s1 & H1 & [(_ & _ & ->)|(_ & u & H2 & _)]).
          -- eapply IHl; eassumption.
          -- eapply same_store_trans; [eapply IHl | eapply IHr]; eassumption.
        * destruct (eval_and _ _ _ _ _ _ _ He) as (f1 & t & s1 & H1 & [(_ & _ & ->)|(_ & u & H2 & _)]).
          -- eapply IHl; eassumption.
          -- eapply same_store_trans; [eapply IHl | eapply IHr]; eassumption.
      + destruct (eval_binop _ _ o l rr st v s Lo He) as (f1 & f2 & x & y & st1 & sl & st2 & sr & z & S0 & E1 & S1 & E2 & S2 & _).
        eapply same_store_trans; [exact S0|]. eapply same_store_trans; [eapply IHl; eassumption|].
        eapply same_store_trans; [exact S1|]. eapply same_store_trans; [eapply IHr; eassumption | exact S2].
  Qed.

  Lemma cg_pure : forall e r n off res, cg venv pool size nslots aenv e r n off = Some res -> pure e = true.
  Proof.
    induction e as [n0|b0|bs|x|a i IHi|g args|n0 args|u e IHe|o l IHl rr IHr]; intros r n off res Hcg; cbn [cg] in Hcg; try discriminate; try reflexivity.
    - (* subscript *)
      destruct r; [|discriminate]. destruct (aenv a) as [la|]; [|discriminate]. cbn [obind pure] in *.
      destruct (lit_of i) as [c|] eqn:El.
      + destruct i; cbn [lit_of] in El; try discriminate; reflexivity.
      + destruct (cg venv pool size nslots aenv i RA n off) as [p|] eqn:Ec; [|discriminate]. eapply IHi; exact Ec.
    - destruct u; [discriminate|]. destruct r; [|discriminate].
      destruct (cg venv pool size nslots aenv e RA (n + 2) off) as [p|] eqn:Ec; [|discriminate]. cbn [pure]. eapply IHe; exact Ec.
    - destruct r; [|discriminate]. cbn [pure].
      assert (Har : forall opi n0 res0, arith_code size nslots opi (simple rr) (cg venv pool size nslots aenv l RA) (cg venv pool size nslots aenv rr RA)
                           (cg venv pool size nslots aenv rr RB) n0 off = Some res0 -> pure l && pure rr = true).
      { intros opi n0 res0 Hc. unfold arith_code in Hc. destruct (simple rr).
        - destruct (cg venv pool size nslots aenv l RA n0 off) as [[cl n1]|] eqn:El; [|discriminate]. cbn [obind] in Hc.
          destruct (cg venv pool size nslots aenv rr RB n1 off) as [p|] eqn:Er; [|discriminate].
          rewrite (IHl _ _ _ _ El), (IHr _ _ _ _ Er). reflexivity.
        - destruct ((0 <=? off) && (off <? nslots)); [|discriminate].
          destruct (cg venv pool size nslots aenv rr RA n0 off) as [[cr n1]|] eqn:Er; [|discriminate]. cbn [obind] in Hc.
          destruct (cg venv pool size nslots aenv l RA n1 (off + 1)) as [p|] eqn:El; [|discriminate].
          rewrite (IHl _ _ _ _ El), (IHr _ _ _ _ Er). reflexivity. }
      assert (Hz : forall e0, is_zero e0 = true -> pure e0 = true).
      { intros e0. unfold is_zero, lit_of. destruct e0; try discriminate; reflexivity. }
      destruct o; try discriminate.
      + eapply Har; exact Hcg.
      + eapply Har; exact Hcg.
      + destruct (cg venv pool size nslots aenv l RA (n + 2) off) as [[cl n1]|] eqn:El; [|discriminate]. cbn [obind] in Hcg.
        destruct (cg venv pool size nslots aenv rr RA n1 off) as [p|] eqn:Er; [|discriminate].
        rewrite (IHl _ _ _ _ El), (IHr _ _ _ _ Er). reflexivity.
      + destruct (cg venv pool size nslots aenv l RA (n + 1) off) as [[cl n1]|] eqn:El; [|discriminate]. cbn [obind] in Hcg.
        destruct (cg venv pool size nslots aenv rr RA n1 off) as [p|] eqn:Er; [|discriminate].
        rewrite (IHl _ _ _ _ El), (IHr _ _ _ _ Er). reflexivity.
      + destruct (is_zero l) eqn:Zl.
        * destruct (cg venv pool size nslots aenv rr RA n off) as [p|] eqn:Er; [|discriminate].
          rewrite (Hz l Zl), (IHr _ _ _ _ Er). reflexivity.
        * destruct (is_zero rr) eqn:Zr.
          -- destruct (cg venv pool size nslots aenv l RA n off) as [p|] eqn:El; [|discriminate].
             rewrite (Hz rr Zr), (IHl _ _ _ _ El). reflexivity.
          -- destruct (arith_code size nslots SUB (simple rr) (cg venv pool size nslots aenv l RA) (cg venv pool size nslots aenv rr RA)
                                  (cg venv pool size nslots aenv rr RB) n off) as [p|] eqn:Ea; [|discriminate].
             eapply Har; exact Ea.
      + destruct (is_zero rr) eqn:Zr.
        * destruct (cg venv pool size nslots aenv l RA n off) as [p|] eqn:El; [|discriminate].
          rewrite (Hz rr Zr), (IHl _ _ _ _ El). reflexivity.
        * destruct (arith_code size nslots SUB (simple rr) (cg venv pool size nslots aenv l RA) (cg venv pool size nslots aenv rr RA)
                               (cg venv pool size nslots aenv rr RB) n off) as [p|] eqn:Ea; [|discriminate].
          eapply Har; exact Ea.
  Qed.

  Lemma lit_eval e c f st v s : lit_of e = Some c -> eval f ge e st = Ret v s -> v = Vint c.
  Proof.
    destruct e; cbn [lit_of]; try discriminate; intros Hc He; inversion Hc; subst c.
    - exact (proj1 (eval_num _ _ _ _ _ _ He)).
    - exact (proj1 (eval_bool _ _ _ _ _ _ He)).
  Qed.
  Lemma is_zero_eval e f st x s : is_zero e = true -> eval f ge e st = Ret (Vint x) s -> x = 0.
  Proof.
    unfold is_zero. destruct (lit_of e) as [c|] eqn:El; [|discriminate]. intros Hc He. apply Z.eqb_eq in Hc. subst c.
    pose proof (lit_eval e 0 f st _ s El He) as H. inversion H. reflexivity.
  Qed.

  (* ---- the main theorem *)
  Theorem cg_correct : forall e r n off code n', cg venv pool size nslots aenv e r n off = Some (code, n') -> off0 <= off ->
    forall f st v s, eval f ge e st = Ret v s -> vars_ok st -> arrays_ok st ->
    exists z, v = Vint z /\ in_int z = true /\ lands r code (z mod W) off.
  Proof.
    induction e as [n0|b0|bs|x|a i IHi|g args|n0 args|u e IHe|o l IHl rr IHr]; intros r n off code n' Hcg Hoff f st v s He Hv Ha;
      pose proof (cg_pure _ _ _ _ _ Hcg) as Hpure; cbn [cg] in Hcg; try discriminate.
    - (* number *)
      cbn [lit_of obind] in Hcg. destruct (gen_const pool r (signed32 n0)) as [c|] eqn:Eg; [|discriminate]. cbn [obind] in Hcg.
      inversion Hcg; subst code n'. destruct (eval_num _ _ _ _ _ _ He) as [-> ->].
      exists (signed32 n0). repeat split; [apply signed32_range | eapply lands_const; exact Eg].
    - (* boolean *)
      cbn [lit_of obind] in Hcg. destruct (gen_const pool r (of_bool b0)) as [c|] eqn:Eg; [|discriminate]. cbn [obind] in Hcg.
      inversion Hcg; subst code n'. destruct (eval_bool _ _ _ _ _ _ He) as [-> ->].
      exists (of_bool b0). repeat split; [apply of_bool_range | eapply lands_const; exact Eg].
    - (* variable *)
      destruct (venv x) as [l|] eqn:Ex; [|discriminate]. cbn [obind] in Hcg. inversion Hcg; subst code n'.
      apply eval_var in He. unfold read_var in He. destruct Hv as [Hg Hf].
      destruct l as [ga|k].
      + destruct (Hg x ga Ex) as (H1 & H2 & H3 & w & H5 & H6). rewrite H1, H2, H3, H5 in He.
        destruct H6 as [->|(z & -> & Hz & Hw)]; [discriminate|]. inversion He; subst v s.
        exists z. repeat split; [exact Hz|]. eapply lands_var; [exact Ex | exact Hw].
      + destruct (Hf x k Ex) as (w & H5 & H6). rewrite H5 in He.
        destruct H6 as [->|(z & -> & Hz & Hw)]; [discriminate|]. inversion He; subst v s.
        exists z. repeat split; [exact Hz|]. eapply lands_var; [exact Ex | exact Hw].
    - (* subscript *)
      destruct r; [|discriminate]. destruct (aenv a) as [la|] eqn:Ea; [|discriminate]. cbn [obind] in Hcg.
      cbn [pure] in Hpure.
      destruct (eval_sub _ _ _ _ _ _ _ He) as (f1 & av & ix & s1 & Hres & Hi & Hr).
      pose proof (arrays_ok_same _ _ (eval_pure i Hpure _ _ _ _ Hi) Ha) as Ha1.
      destruct (Ha a la Ea) as (g & _ & _ & Hres0 & _). rewrite (resolves_array st a g Hres0) in Hres. inversion Hres; subst av.
      destruct (read_elem_arr _ _ _ _ _ _ Hr) as (ar & vn & Har & Hix & Hcell & -> & ->).
      destruct (Ha1 a la Ea) as (g' & ar' & base & Hres1 & Har' & Hbase & Hreg & Hval).
      assert (g' = g).
      { pose proof (resolves_same _ _ _ _ (eval_pure i Hpure _ _ _ _ Hi) Hres0) as Hr0.
        pose proof (resolves_array _ _ _ Hr0) as E0. pose proof (resolves_array _ _ _ Hres1) as E1. rewrite E0 in E1. inversion E1. reflexivity. }
      subst g'. rewrite Har in Har'. inversion Har'; subst ar'.
      destruct (Hreg ix Hix) as [Hin HnT]. destruct (Hval ix vn Hix Hcell) as [Hvn Hrd].
      destruct (Harr a la Ea) as [Hwin HwnT].
      exists vn. split; [reflexivity|]. split; [exact Hvn|].
      destruct (lit_of i) as [c|] eqn:El.
      + (* a constant subscript: base into areg, LDAI c *)
        inversion Hcg; subst code n'.
        pose proof (lit_eval i c _ _ _ _ El Hi) as Hc. inversion Hc; subst c.
        pose proof (lands_var_gen RA la base off Hwin HwnT Hbase) as Lb.
        intros m pos nxt a0 b0 inp HK Hc0 Hp Hn. apply code_at_app in Hc0. destruct Hc0 as (p1 & Hc1 & Hc2).
        one_instr Hc2 p2 Hi2. subst p2. pose proof (instr_at_le _ _ _ _ _ Hi2) as L2.
        destruct (Lb m pos p1 a0 b0 inp HK Hc1 Hp ltac:(lia)) as (b1 & m1 & T1 & K1).
        assert (HK1 : K m1) by exact (K_keeps off m m1 Hoff HK K1).
        assert (R2 : readable (LDAI ix) base b1) by (cbn [readable]; rewrite (in_mem_wrap _ Hin); exact Hin).
        pose proof (exec_instr C lab m1 p1 nxt (LDAI ix) base b1 inp eq_refl Hi2 (K_C m1 HK1) R2 Hn) as T2.
        cbn [sem fst snd] in T2. rewrite (in_mem_wrap _ Hin) in T2.
        rewrite (HK1 (base + ix) (proj1 (in_mem_range _ Hin)) HnT), Hrd in T2.
        exists b1, m1. split; [eapply taus_trans; eassumption | exact K1].
      + (* index into areg, base into breg, ADD, LDAI 0 *)
        destruct (cg venv pool size nslots aenv i RA n off) as [[ci n1]|] eqn:Ec; [|discriminate]. cbn [obind] in Hcg.
        inversion Hcg; subst code n'.
        destruct (IHi RA n off ci n1 Ec Hoff f1 st _ s1 Hi Hv Ha) as (z & Hz & Hzr & Li). inversion Hz; subst z.
        pose proof (lands_var_gen RB la base off Hwin HwnT Hbase) as Lb.
        intros m pos nxt a0 b0 inp HK Hc0 Hp Hn. apply code_at_app in Hc0. destruct Hc0 as (p1 & Hc1 & Hc0).
        apply code_at_app in Hc0. destruct Hc0 as (p2 & Hc2 & Hc3). one_instr Hc3 p3 Hi3. one_instr Hc3 p4 Hi4. subst p4.
        pose proof (code_at_le C lab _ _ _ Hc1) as L1. pose proof (code_at_le C lab _ _ _ Hc2) as L2.
        pose proof (instr_at_le _ _ _ _ _ Hi3) as L3. pose proof (instr_at_le _ _ _ _ _ Hi4) as L4.
        destruct (Li m pos p1 a0 b0 inp HK Hc1 Hp ltac:(lia)) as (b1 & m1 & T1 & K1).
        assert (HK1 : K m1) by exact (K_keeps off m m1 Hoff HK K1).
        pose proof (Lb m1 p1 p2 (ix mod W) b1 inp HK1 Hc2 ltac:(lia) ltac:(lia)) as T2.
        pose proof (exec_instr C lab m1 p2 p3 ADD (ix mod W) base inp eq_refl Hi3 (K_C m1 HK1) I ltac:(lia)) as T3.
        cbn [sem fst snd] in T3.
        assert (Hixw : ix mod W = ix).
        { apply Z.mod_small. pose proof (in_mem_range _ Hin) as Hr1. destruct (Hreg 0 ltac:(lia)) as [Hin0 _].
          pose proof (in_mem_range _ Hin0) as Hr0. unfold MEMW, W in *. lia. }
        rewrite Hixw in T1, T2, T3. replace (ix + base) with (base + ix) in T3 by lia. rewrite (in_mem_wrap _ Hin) in T3.
        assert (Hw0 : wrap (base + ix + 0) = base + ix) by (rewrite Z.add_0_r; exact (in_mem_wrap _ Hin)).
        assert (R4 : readable (LDAI 0) (base + ix) base) by (cbn [readable]; rewrite Hw0; exact Hin).
        pose proof (exec_instr C lab m1 p3 nxt (LDAI 0) (base + ix) base inp eq_refl Hi4 (K_C m1 HK1) R4 Hn) as T4.
        cbn [sem fst snd] in T4. rewrite Hw0 in T4.
        rewrite (HK1 (base + ix) (proj1 (in_mem_range _ Hin)) HnT), Hrd in T4.
        exists base, m1. split; [|exact K1].
        eapply taus_trans; [exact T1|]. eapply taus_trans; [exact T2|]. eapply taus_trans; [exact T3 | exact T4].
    - (* not *)
      destruct u; [discriminate|]. destruct r; [|discriminate].
      destruct (cg venv pool size nslots aenv e RA (n + 2) off) as [[c n1]|] eqn:Ec; [|discriminate]. cbn [obind] in Hcg.
      inversion Hcg; subst code n'.
      destruct (eval_not _ _ _ _ _ _ He) as (f1 & t & He1 & ->).
      destruct (IHe RA (n + 2) off c n1 Ec Hoff f1 st _ s He1 Hv Ha) as (z & Hz & Hzr & L). inversion Hz; subst z.
      exists (of_bool (negb t)). repeat split; [apply of_bool_range|].
      pose proof (lands_bool_tail_brz c _ n off Hoff L) as L2.
      replace (of_bool (negb t) mod W) with (if of_bool t mod W =? 0 then 1 else 0); [exact L2|].
      destruct t; reflexivity.
    - (* binary operators *)
      destruct r; [|discriminate]. cbn [pure] in Hpure. apply andb_prop in Hpure. destruct Hpure as [Hpl Hpr].
      destruct (logical o) eqn:Lo.
      { (* short-circuit operators *)
        destruct o; try discriminate.
        - (* or *)
          destruct (cg venv pool size nslots aenv l RA (n + 2) off) as [[cl n1]|] eqn:El; [|discriminate]. cbn [obind] in Hcg.
          destruct (cg venv pool size nslots aenv rr RA n1 off) as [[cr n2]|] eqn:Er; [|discriminate]. cbn [obind] in Hcg.
          inversion Hcg; subst code n'.
          destruct (eval_or _ _ _ _ _ _ _ He) as (f1 & t & s1 & H1 & Hcase).
          destruct (IHl RA _ off cl n1 El Hoff f1 st _ s1 H1 Hv Ha) as (z & Hz & _ & Ll). inversion Hz; subst z.
          pose proof (vars_ok_same _ _ (eval_pure l Hpl _ _ _ _ H1) Hv) as Hv1.
          pose proof (arrays_ok_same _ _ (eval_pure l Hpl _ _ _ _ H1) Ha) as Ha1.
          destruct Hcase as [(-> & -> & ->)|(-> & u & H2 & ->)].
          + exists 1. repeat split.
            pose proof (lands_or cl cr (of_bool true mod W) 0 n off Hoff Ll) as L. cbn in L. apply L. intros H; discriminate.
          + destruct (IHr RA _ off cr n2 Er Hoff f1 s1 _ s H2 Hv1 Ha1) as (z & Hz2 & _ & Lr). inversion Hz2; subst z.
            exists (of_bool u). repeat split; [apply of_bool_range|].
            pose proof (lands_or cl cr (of_bool false mod W) (of_bool u mod W) n off Hoff Ll (fun _ => Lr)) as L. exact L.
        - (* and *)
          destruct (cg venv pool size nslots aenv l RA (n + 1) off) as [[cl n1]|] eqn:El; [|discriminate]. cbn [obind] in Hcg.
          destruct (cg venv pool size nslots aenv rr RA n1 off) as [[cr n2]|] eqn:Er; [|discriminate]. cbn [obind] in Hcg.
          inversion Hcg; subst code n'.
          destruct (eval_and _ _ _ _ _ _ _ He) as (f1 & t & s1 & H1 & Hcase).
          destruct (IHl RA _ off cl n1 El Hoff f1 st _ s1 H1 Hv Ha) as (z & Hz & _ & Ll). inversion Hz; subst z.
          pose proof (vars_ok_same _ _ (eval_pure l Hpl _ _ _ _ H1) Hv) as Hv1.
          pose proof (arrays_ok_same _ _ (eval_pure l Hpl _ _ _ _ H1) Ha) as Ha1.
          destruct Hcase as [(-> & -> & ->)|(-> & u & H2 & ->)].
          + exists 0. repeat split.
            pose proof (lands_and cl cr (of_bool false mod W) 0 n off Hoff Ll) as L. cbn in L. apply L. intros H; exfalso; apply H; reflexivity.
          + destruct (IHr RA _ off cr n2 Er Hoff f1 s1 _ s H2 Hv1 Ha1) as (z & Hz2 & _ & Lr). inversion Hz2; subst z.
            exists (of_bool u). repeat split; [apply of_bool_range|].
            pose proof (lands_and cl cr (of_bool true mod W) (of_bool u mod W) n off Hoff Ll (fun _ => Lr)) as L. exact L. }
      (* arithmetic and relational operators: both operands are evaluated *)
      destruct (eval_binop _ _ o l rr st v s Lo He) as (f1 & f2 & x & y & st1 & sl & st2 & sr & z & S0 & E1 & S1 & E2 & S2 & Hb & ->).
      pose proof (vars_ok_same _ _ S0 Hv) as Hv1.
      pose proof (vars_ok_same _ _ (same_store_trans _ _ _ (eval_pure l Hpl _ _ _ _ E1) S1) Hv1) as Hv2.
      pose proof (arrays_ok_same _ _ S0 Ha) as Ha1.
      pose proof (arrays_ok_same _ _ (same_store_trans _ _ _ (eval_pure l Hpl _ _ _ _ E1) S1) Ha1) as Ha2.
      (* what the operand generators land *)
      assert (HL : forall r1 n1 o1 c n2, off0 <= o1 -> cg venv pool size nslots aenv l r1 n1 o1 = Some (c, n2) ->
                     in_int x = true /\ lands r1 c (x mod W) o1).
      { intros r1 n1 o1 c n2 Ho1 Hc1. destruct (IHl r1 n1 o1 c n2 Hc1 Ho1 f1 st1 _ sl E1 Hv1 Ha1) as (z0 & Hz0 & Hr0 & L).
        inversion Hz0; subst z0. split; assumption. }
      assert (HR : forall r1 n1 o1 c n2, off0 <= o1 -> cg venv pool size nslots aenv rr r1 n1 o1 = Some (c, n2) ->
                     in_int y = true /\ lands r1 c (y mod W) o1).
      { intros r1 n1 o1 c n2 Ho1 Hc1. destruct (IHr r1 n1 o1 c n2 Hc1 Ho1 f2 st2 _ sr E2 Hv2 Ha2) as (z0 & Hz0 & Hr0 & L).
        inversion Hz0; subst z0. split; assumption. }
      assert (Harith : forall opi code0 n0 n0', opi = ADD \/ opi = SUB ->
                arith_code size nslots opi (simple rr) (cg venv pool size nslots aenv l RA) (cg venv pool size nslots aenv rr RA)
                           (cg venv pool size nslots aenv rr RB) n0 off = Some (code0, n0') ->
                in_int x = true /\ in_int y = true /\ lands RA code0 (opw opi (x mod W) (y mod W)) off).
      { intros opi code0 n0 n0' Hop Hc.
        assert (Hxy : in_int x = true /\ in_int y = true).
        { unfold arith_code in Hc. destruct (simple rr).
          - destruct (cg venv pool size nslots aenv l RA n0 off) as [[cl n1]|] eqn:El; [|discriminate]. cbn [obind] in Hc.
            destruct (cg venv pool size nslots aenv rr RB n1 off) as [[cr n2]|] eqn:Er; [|discriminate].
            split; [exact (proj1 (HL _ _ _ _ _ Hoff El)) | exact (proj1 (HR _ _ _ _ _ Hoff Er))].
          - destruct ((0 <=? off) && (off <? nslots)); [|discriminate].
            destruct (cg venv pool size nslots aenv rr RA n0 off) as [[cr n1]|] eqn:Er; [|discriminate]. cbn [obind] in Hc.
            destruct (cg venv pool size nslots aenv l RA n1 (off + 1)) as [[cl n2]|] eqn:El; [|discriminate].
            assert (Ho1 : off0 <= off + 1) by lia.
            split; [exact (proj1 (HL _ _ _ _ _ Ho1 El)) | exact (proj1 (HR _ _ _ _ _ Hoff Er))]. }
        destruct Hxy as [Hx Hy]. repeat split; try assumption.
        eapply arith_correct; try eassumption.
        - intros n1 o1 c n2 Ho1 Hc1. exact (proj2 (HL _ _ _ _ _ Ho1 Hc1)).
        - intros n1 o1 c n2 Ho1 Hc1. exact (proj2 (HR _ _ _ _ _ Ho1 Hc1)).
        - intros n1 o1 c n2 Ho1 Hc1. exact (proj2 (HR _ _ _ _ _ Ho1 Hc1)). }
      destruct o; try discriminate.
      + (* plus *)
        cbn [binop_ans] in Hb. destruct (in_int (x + y)) eqn:Ez; [|discriminate]. inversion Hb; subst z.
        destruct (Harith ADD code n n' (or_introl eq_refl) Hcg) as (_ & _ & L).
        exists (x + y). repeat split; [exact Ez|]. cbn [opw] in L. rewrite wrap_add in L. exact L.
      + (* minus *)
        cbn [binop_ans] in Hb. destruct (in_int (x - y)) eqn:Ez; [|discriminate]. inversion Hb; subst z.
        destruct (Harith SUB code n n' (or_intror eq_refl) Hcg) as (_ & _ & L).
        exists (x - y). repeat split; [exact Ez|]. cbn [opw] in L. rewrite wrap_sub in L. exact L.
      + (* = *)
        cbn [binop_ans] in Hb. inversion Hb; subst z. exists (of_bool (x =? y)). repeat split; [apply of_bool_range|].
        destruct (is_zero l) eqn:Zl.
        * destruct (cg venv pool size nslots aenv rr RA n off) as [[c n1]|] eqn:Er; [|discriminate]. cbn [obind] in Hcg.
          inversion Hcg; subst code n'. destruct (HR _ _ _ _ _ Hoff Er) as [Hy L].
          pose proof (is_zero_eval l _ _ _ _ Zl E1) as ->.
          pose proof (lands_bool_tail_brz c _ n1 off Hoff L) as L2. rewrite (word_zero y Hy) in L2.
          replace (of_bool (0 =? y) mod W) with (if y =? 0 then 1 else 0); [exact L2|].
          rewrite (Z.eqb_sym 0 y). destruct (y =? 0); reflexivity.
        * destruct (is_zero rr) eqn:Zr.
          -- destruct (cg venv pool size nslots aenv l RA n off) as [[c n1]|] eqn:El; [|discriminate]. cbn [obind] in Hcg.
             inversion Hcg; subst code n'. destruct (HL _ _ _ _ _ Hoff El) as [Hx L].
             pose proof (is_zero_eval rr _ _ _ _ Zr E2) as ->.
             pose proof (lands_bool_tail_brz c _ n1 off Hoff L) as L2. rewrite (word_zero x Hx) in L2.
             replace (of_bool (x =? 0) mod W) with (if x =? 0 then 1 else 0); [exact L2|].
             destruct (x =? 0); reflexivity.
          -- destruct (arith_code size nslots SUB (simple rr) (cg venv pool size nslots aenv l RA) (cg venv pool size nslots aenv rr RA)
                                  (cg venv pool size nslots aenv rr RB) n off) as [[c n1]|] eqn:Ea; [|discriminate]. cbn [obind] in Hcg.
             inversion Hcg; subst code n'. destruct (Harith SUB c n n1 (or_intror eq_refl) Ea) as (Hx & Hy & L).
             cbn [opw] in L. rewrite wrap_sub in L.
             pose proof (lands_bool_tail_brz c _ n1 off Hoff L) as L2. rewrite (word_eq x y Hx Hy) in L2.
             replace (of_bool (x =? y) mod W) with (if x =? y then 1 else 0); [exact L2|].
             destruct (x =? y); reflexivity.
      + (* < *)
        cbn [binop_ans] in Hb. destruct (in_int (x - y) && in_int (y - x)) eqn:Ed; [|discriminate]. inversion Hb; subst z.
        apply andb_prop in Ed. destruct Ed as [Ed _].
        exists (of_bool (x <? y)). repeat split; [apply of_bool_range|].
        destruct (is_zero rr) eqn:Zr.
        * destruct (cg venv pool size nslots aenv l RA n off) as [[c n1]|] eqn:El; [|discriminate]. cbn [obind] in Hcg.
          inversion Hcg; subst code n'. destruct (HL _ _ _ _ _ Hoff El) as [Hx L].
          pose proof (is_zero_eval rr _ _ _ _ Zr E2) as ->.
          pose proof (lands_bool_tail_brn c _ n1 off Hoff L) as L2. rewrite (word_negative x Hx) in L2.
          replace (of_bool (x <? 0) mod W) with (if x <? 0 then 1 else 0); [exact L2|].
          destruct (x <? 0); reflexivity.
        * destruct (arith_code size nslots SUB (simple rr) (cg venv pool size nslots aenv l RA) (cg venv pool size nslots aenv rr RA)
                               (cg venv pool size nslots aenv rr RB) n off) as [[c n1]|] eqn:Ea; [|discriminate]. cbn [obind] in Hcg.
          inversion Hcg; subst code n'. destruct (Harith SUB c n n1 (or_intror eq_refl) Ea) as (Hx & Hy & L).
          cbn [opw] in L. rewrite wrap_sub in L.
          pose proof (lands_bool_tail_brn c _ n1 off Hoff L) as L2. rewrite (word_negative (x - y) Ed) in L2.
          replace (of_bool (x <? y) mod W) with (if x - y <? 0 then 1 else 0); [exact L2|].
          destruct (x <? y) eqn:E1'; [apply Z.ltb_lt in E1' | apply Z.ltb_ge in E1'].
          -- replace (x - y <? 0) with true by (symmetry; apply Z.ltb_lt; lia). reflexivity.
          -- replace (x - y <? 0) with false by (symmetry; apply Z.ltb_ge; lia). reflexivity.
  Qed.

  (* the statement used in Properties_C01 *)
  Corollary expr_fragment : forall e n off code n', cg venv pool size nslots aenv e RA n off = Some (code, n') -> off0 <= off ->
    forall f st z s, eval f ge e st = Ret (Vint z) s -> vars_ok st -> arrays_ok st ->
    forall pos nxt a b inp, code_at C lab pos code nxt -> 0 <= pos -> nxt < W ->
    exists k s', Isa.run k (mk pos a b 0 mr) inp [] = ([], inp, s', Cut) /\
                 pc s' = nxt /\ areg s' = z mod W /\ oreg s' = 0 /\ keeps off mr (mem s').
  Proof.
    intros e n off code n' Hcg Hoff f st z s He Hv Ha pos nxt a b inp Hc Hp Hn.
    destruct (cg_correct e RA n off code n' Hcg Hoff f st (Vint z) s He Hv Ha) as (z' & Hz & _ & L). inversion Hz; subst z'.
    destruct (L mr pos nxt a b inp K_mr Hc Hp Hn) as (b' & m' & [k Hk] & Kp).
    exists k, (mk nxt (z mod W) b' 0 m'). repeat split; [exact Hk | exact Kp].
  Qed.

  (* the form used by the statement proofs *)
  Corollary expr_runs : forall e n off code n', cg venv pool size nslots aenv e RA n off = Some (code, n') -> off0 <= off ->
    forall f st v s, eval f ge e st = Ret v s -> vars_ok st -> arrays_ok st ->
    same_store st s /\
    exists z, v = Vint z /\ in_int z = true /\
      forall pos nxt a b inp, code_at C lab pos code nxt -> 0 <= pos -> nxt < W ->
      exists b' m', taus inp (mk pos a b 0 mr) (mk nxt (z mod W) b' 0 m') /\ keeps off mr m'.
  Proof.
    intros e n off code n' Hcg Hoff f st v s He Hv Ha.
    split; [exact (eval_pure e (cg_pure _ _ _ _ _ Hcg) _ _ _ _ He)|].
    destruct (cg_correct e RA n off code n' Hcg Hoff f st v s He Hv Ha) as (z & Hz & Hr & L).
    exists z. repeat split; try assumption.
    intros pos nxt a b inp Hc Hp Hn. exact (L mr pos nxt a b inp K_mr Hc Hp Hn).
  Qed.

  (* a simple operand into breg (the right operand of an operator whose left operand is computed first) *)
  Corollary expr_runs_b : forall e n off code n', cg venv pool size nslots aenv e RB n off = Some (code, n') -> off0 <= off ->
    forall f st v s, eval f ge e st = Ret v s -> vars_ok st -> arrays_ok st ->
    same_store st s /\
    exists z, v = Vint z /\ in_int z = true /\
      forall pos nxt a b inp, code_at C lab pos code nxt -> 0 <= pos -> nxt < W ->
      taus inp (mk pos a b 0 mr) (mk nxt a (z mod W) 0 mr).
  Proof.
    intros e n off code n' Hcg Hoff f st v s He Hv Ha.
    split; [exact (eval_pure e (cg_pure _ _ _ _ _ Hcg) _ _ _ _ He)|].
    destruct (cg_correct e RB n off code n' Hcg Hoff f st v s He Hv Ha) as (z & Hz & Hr & L).
    exists z. repeat split; try assumption.
    intros pos nxt a b inp Hc Hp Hn. exact (L mr pos nxt a b inp K_mr Hc Hp Hn).
  Qed.
End Correct.
