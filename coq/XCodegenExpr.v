(* XCodegenExpr.v -- a model of xcmp's expression code generation (xcmp.hpp ExprCodeGen, genBinopOperands,
   genConst, genVar) for the fragment
       e ::= number | global variable | e + r | e - r      with r a constant subtree or a global variable
   (right operands that xcmp loads straight into breg: needsAReg is false, nothing is spilled), including
   xcmp's constant folding of number-only subtrees, and its correctness against the ISA spec Isa.step and
   the X spec XSem.eval.

   Interface to the assembler (Layer A of DESIGN.md C01): `instr_at m pos nxt i` says that the bytes of
   instruction i occupy [pos, nxt) of memory m in the sense of the ISA itself -- started at pos with a clear
   operand register the ISA runs through the prefix bytes (Tau steps that change nothing but pc and oreg) and
   arrives at the instruction byte with i's opcode and i's 32-bit operand accumulated.  That is what
   AsmSpecProofs.decode_exec establishes for every image the assembler validator accepts.

   cg_correct: if XSem evaluates e to n (so no overflow, no unassigned read), then running the generated code
   from its first byte leaves n mod 2^32 in areg, the memory unchanged, the operand register clear and the
   program counter just behind the code -- for every nesting depth of the left operand. *)
From Coq Require Import ZArith List String Bool Lia.
From HexVerif Require Import WMap Isa XAst XSem.
Import ListNotations.
Local Open Scope Z_scope.

Ltac Zify.zify_post_hook ::= Z.div_mod_to_equations.

(* ---------------------------------------------------------------- the generated instructions *)
Inductive reg := RA | RB.
Inductive instr := LDAC (v : Z) | LDBC (v : Z) | LDAM (a : Z) | LDBM (a : Z) | ADD | SUB.

(* opcode nibble and the 32-bit operand the ISA must have accumulated at the instruction byte *)
Definition opcode (i : instr) : Z * Z :=
  match i with
  | LDAM a => (0, a)
  | LDBM a => (1, a)
  | LDAC v => (3, v mod W)
  | LDBC v => (4, v mod W)
  | ADD => (13, 1)
  | SUB => (13, 2)
  end.

(* ---------------------------------------------------------------- model of the code generator *)
Section Codegen.
  Variable addr : string -> option Z.      (* word address of each global variable (its DATA label) *)

  (* ConstProp on the fragment: numbers, + and - of constants (C int arithmetic; the theorem only speaks of
     evaluations XSem defines, where no overflow occurs) *)
  Fixpoint const_of (e : expr) : option Z :=
    match e with
    | ENum n => Some (signed32 n)
    | EBin Plus l r => match const_of l, const_of r with Some a, Some b => Some (a + b) | _, _ => None end
    | EBin Minus l r => match const_of l, const_of r with Some a, Some b => Some (a - b) | _, _ => None end
    | _ => None
    end.

  (* genConst: operand-encoded when -65536 < v < 65536 (larger values go to the constant pool: outside the fragment) *)
  Definition small (v : Z) : bool := (-65536 <? v) && (v <? 65536).
  Definition ldc (r : reg) (v : Z) : instr := match r with RA => LDAC v | RB => LDBC v end.
  Definition ldm (r : reg) (a : Z) : instr := match r with RA => LDAM a | RB => LDBM a end.

  (* not needsAReg: the right operand is a (folded) constant or a variable reference *)
  Definition simple_right (e : expr) : bool :=
    match const_of e with
    | Some _ => true
    | None => match e with EVar _ => true | _ => false end
    end.

  (* genExpr(e, reg) *)
  Fixpoint cg (e : expr) (r : reg) : option (list instr) :=
    match const_of e with
    | Some v => if small v then Some [ldc r v] else None
    | None =>
        match e with
        | EVar x => match addr x with Some a => Some [ldm r a] | None => None end
        | EBin o l rr =>
            match o, r with
            | Plus, RA | Minus, RA =>
                if simple_right rr then
                  match cg l RA, cg rr RB with
                  | Some cl, Some cr => Some (cl ++ cr ++ [match o with Plus => ADD | _ => SUB end])
                  | _, _ => None
                  end
                else None           (* the right operand is spilled to the frame: not in this fragment *)
            | _, _ => None
            end
        | _ => None
        end
    end.
End Codegen.

(* ---------------------------------------------------------------- the ISA on instruction bytes *)
Definition mk (p a b o : Z) (m : WMap.t) : arch := {| pc := p; areg := a; breg := b; oreg := o; mem := m |}.

(* silent steps: Tau events, input untouched *)
Inductive taus (inp : inputs) : arch -> arch -> Prop :=
| taus_refl : forall s, taus inp s s
| taus_step : forall s s1 s2, step s inp = Ok (s1, inp, Tau) -> taus inp s1 s2 -> taus inp s s2.

Lemma taus_trans inp s1 s2 s3 : taus inp s1 s2 -> taus inp s2 s3 -> taus inp s1 s3.
Proof. induction 1; intros H3; [exact H3|]. eapply taus_step; [eassumption|]. apply IHtaus. exact H3. Qed.

Lemma taus_one inp s s1 : step s inp = Ok (s1, inp, Tau) -> taus inp s s1.
Proof. intros H. eapply taus_step; [exact H | apply taus_refl]. Qed.

(* a run of silent steps is a run of Isa.run that emits nothing *)
Lemma taus_run inp s s' : taus inp s s' -> exists k, forall evs, Isa.run k s inp evs = (rev evs, inp, s', Cut).
Proof.
  induction 1 as [s|s s1 s2 Hs _ [k IH]].
  - exists O. intros evs. reflexivity.
  - exists (S k). intros evs. cbn [Isa.run]. rewrite Hs. apply IH.
Qed.

Definition at_byte (s : arch) (opc o : Z) : Prop :=
  in_mem (pc s / 4) = true /\ fetch s / 16 = opc /\ Z.lor (oreg s) (fetch s mod 16) = o.

Definition instr_at (m : WMap.t) (pos nxt : Z) (i : instr) : Prop :=
  0 <= pos < nxt /\
  forall a b inp, exists s',
    taus inp (mk pos a b 0 m) s' /\ pc s' = nxt - 1 /\ areg s' = a /\ breg s' = b /\ mem s' = m /\
    at_byte s' (fst (opcode i)) (snd (opcode i)).

Fixpoint code_at (m : WMap.t) (pos : Z) (c : list instr) (nxt : Z) : Prop :=
  match c with
  | [] => pos = nxt
  | i :: r => exists mid, instr_at m pos mid i /\ code_at m mid r nxt
  end.

Lemma code_at_le m : forall c pos nxt, code_at m pos c nxt -> pos <= nxt.
Proof.
  induction c as [|i r IH]; intros pos nxt H; cbn [code_at] in H.
  - lia.
  - destruct H as (mid & [Hp _] & Hr). specialize (IH mid nxt Hr). lia.
Qed.

Lemma code_at_app m : forall c1 c2 pos nxt,
  code_at m pos (c1 ++ c2) nxt -> exists mid, code_at m pos c1 mid /\ code_at m mid c2 nxt.
Proof.
  induction c1 as [|i r IH]; intros c2 pos nxt H; cbn [app code_at] in *.
  - exists pos. split; [reflexivity | exact H].
  - destruct H as (mid & Hi & Hr). destruct (IH c2 mid nxt Hr) as (mid2 & H1 & H2).
    exists mid2. split; [exists mid; split; assumption | exact H2].
Qed.

(* one step at the instruction byte, opcode by opcode *)
Lemma step_ldac s inp o : at_byte s 3 o ->
  step s inp = Ok (mk (wrap (pc s + 1)) o (breg s) 0 (mem s), inp, Tau).
Proof. intros (Hm & Hop & Ho). unfold step. rewrite Hm. cbv beta iota zeta delta [negb]. rewrite Hop, Ho. reflexivity. Qed.

Lemma step_ldbc s inp o : at_byte s 4 o ->
  step s inp = Ok (mk (wrap (pc s + 1)) (areg s) o 0 (mem s), inp, Tau).
Proof. intros (Hm & Hop & Ho). unfold step. rewrite Hm. cbv beta iota zeta delta [negb]. rewrite Hop, Ho. reflexivity. Qed.

Lemma step_ldam s inp o : at_byte s 0 o -> in_mem o = true ->
  step s inp = Ok (mk (wrap (pc s + 1)) (rd (mem s) o) (breg s) 0 (mem s), inp, Tau).
Proof. intros (Hm & Hop & Ho) Hin. unfold step. rewrite Hm. cbv beta iota zeta delta [negb]. rewrite Hop, Ho, Hin. reflexivity. Qed.

Lemma step_ldbm s inp o : at_byte s 1 o -> in_mem o = true ->
  step s inp = Ok (mk (wrap (pc s + 1)) (areg s) (rd (mem s) o) 0 (mem s), inp, Tau).
Proof. intros (Hm & Hop & Ho) Hin. unfold step. rewrite Hm. cbv beta iota zeta delta [negb]. rewrite Hop, Ho, Hin. reflexivity. Qed.

Lemma step_add s inp : at_byte s 13 1 ->
  step s inp = Ok (mk (wrap (pc s + 1)) (wrap (areg s + breg s)) (breg s) 0 (mem s), inp, Tau).
Proof. intros (Hm & Hop & Ho). unfold step. rewrite Hm. cbv beta iota zeta delta [negb]. rewrite Hop, Ho. reflexivity. Qed.

Lemma step_sub s inp : at_byte s 13 2 ->
  step s inp = Ok (mk (wrap (pc s + 1)) (wrap (areg s - breg s)) (breg s) 0 (mem s), inp, Tau).
Proof. intros (Hm & Hop & Ho). unfold step. rewrite Hm. cbv beta iota zeta delta [negb]. rewrite Hop, Ho. reflexivity. Qed.

(* what an instruction does to areg/breg *)
Definition sem (i : instr) (a b : Z) (m : WMap.t) : Z * Z :=
  match i with
  | LDAC v => (v mod W, b)
  | LDBC v => (a, v mod W)
  | LDAM x => (rd m x, b)
  | LDBM x => (a, rd m x)
  | ADD => (wrap (a + b), b)
  | SUB => (wrap (a - b), b)
  end.
Definition readable (i : instr) : Prop :=
  match i with LDAM x => in_mem x = true | LDBM x => in_mem x = true | _ => True end.

Lemma exec_instr m pos nxt i a b inp :
  instr_at m pos nxt i -> readable i -> nxt < W ->
  taus inp (mk pos a b 0 m) (mk nxt (fst (sem i a b m)) (snd (sem i a b m)) 0 m).
Proof.
  intros [Hpos Hat] Hr Hn. destruct (Hat a b inp) as (s' & Ht & Hpc & Ha & Hb & Hm & Hby).
  eapply taus_trans; [exact Ht|]. apply taus_one.
  assert (Hw : wrap (pc s' + 1) = nxt) by (rewrite Hpc; unfold wrap; replace (nxt - 1 + 1) with nxt by lia; apply Z.mod_small; lia).
  destruct i; cbn [opcode fst snd] in Hby; cbn [sem fst snd]; cbn [readable] in Hr.
  - rewrite (step_ldac s' inp _ Hby). rewrite Hw, Hb, Hm. reflexivity.
  - rewrite (step_ldbc s' inp _ Hby). rewrite Hw, Ha, Hm. reflexivity.
  - rewrite (step_ldam s' inp _ Hby Hr). rewrite Hw, Hb, Hm. reflexivity.
  - rewrite (step_ldbm s' inp _ Hby Hr). rewrite Hw, Ha, Hm. reflexivity.
  - rewrite (step_add s' inp Hby). rewrite Hw, Ha, Hb, Hm. reflexivity.
  - rewrite (step_sub s' inp Hby). rewrite Hw, Ha, Hb, Hm. reflexivity.
Qed.

(* ---------------------------------------------------------------- inversion of the spec interpreter *)
Lemma rcase_ret {A B} (r : res A) kr kh (b : B) s :
  rcase r kr kh = Ret b s ->
  (exists a s0, r = Ret a s0 /\ kr a s0 = Ret b s) \/ (exists c s0, r = Halt c s0 /\ kh c s0 = Ret b s).
Proof. destruct r as [a s0|c s0|u]; cbn [rcase]; intros H; [left|right|discriminate]; eauto. Qed.

Lemma bind_ret {A B} (r : res A) k (b : B) s :
  bind r k = Ret b s -> exists a s0, r = Ret a s0 /\ k a s0 = Ret b s.
Proof. unfold bind. intros H. apply rcase_ret in H. destruct H as [H|(c & s0 & _ & H)]; [exact H | discriminate]. Qed.

Lemma with_eff_ret {A} (m : state -> res A) st (a : A) e s :
  with_eff m st = Ret (a, e) s ->
  exists s0, m (set_cur st eff0) = Ret a s0 /\ e = cur s0 /\ s = set_cur s0 (eff_union (cur st) (cur s0)).
Proof.
  unfold with_eff. intros H. apply rcase_ret in H. destruct H as [(a0 & s0 & H1 & H2)|(c & s0 & _ & H)]; [|discriminate].
  inversion H2; subst. exists s0. repeat split. exact H1.
Qed.

(* the state components the fragment never changes *)
Definition same_store (s s' : state) : Prop := gvars s' = gvars s /\ stk s' = stk s.
Lemma same_store_refl s : same_store s s. Proof. split; reflexivity. Qed.
Lemma same_store_trans a b c : same_store a b -> same_store b c -> same_store a c.
Proof. intros [H1 H2] [H3 H4]. split; congruence. Qed.
Lemma same_store_set_cur s e : same_store s (set_cur s e). Proof. split; reflexivity. Qed.

Lemma evals_two f ge l r st L s :
  evals f ge [l; r] st = Ret L s ->
  exists f1 f2 vl sl vr sr,
    eval f1 ge l (set_cur st eff0) = Ret vl sl /\
    eval f2 ge r (set_cur (set_cur sl (eff_union (cur st) (cur sl))) eff0) = Ret vr sr /\
    map fst L = [vl; vr] /\ same_store sr s.
Proof.
  destruct f as [|f1]; [discriminate|]. cbn [evals]. unfold evals_body at 1. intros H.
  apply rcase_ret in H. destruct H as [([vl el] & s1 & H1 & H)|(c & s0 & _ & H)].
  2:{ destruct (forallb harmless [r]); discriminate. }
  apply with_eff_ret in H1. destruct H1 as (sl & Hl & -> & ->).
  apply rcase_ret in H. destruct H as [(L1 & s2 & H2 & H)|(c & s0 & _ & H)].
  2:{ cbn [snd] in H. destruct (e_io (cur sl)); discriminate. }
  inversion H; subst L s; clear H.
  destruct f1 as [|f2]; [discriminate|]. cbn [evals] in H2. unfold evals_body at 1 in H2.
  apply rcase_ret in H2. destruct H2 as [([vr er] & s3 & H3 & H)|(c & s0 & _ & H)].
  2:{ cbn [forallb] in H. discriminate. }
  apply with_eff_ret in H3. destruct H3 as (sr & Hr & -> & ->).
  apply rcase_ret in H. destruct H as [(L2 & s4 & H4 & H)|(c & s0 & _ & H)].
  2:{ cbn [snd] in H. destruct (e_io (cur sr)); discriminate. }
  inversion H; subst L1 s2; clear H.
  destruct f2 as [|f3]; [discriminate|]. cbn [evals evals_body] in H4. inversion H4; subst L2 s4; clear H4.
  exists (S (S f3)), (S f3), vl, sl, vr, sr. repeat split; try assumption.
Qed.

Lemma eval_arith f ge o l r st v s :
  (o = Plus \/ o = Minus) -> eval f ge (EBin o l r) st = Ret v s ->
  exists f1 f2 x y sl sr z,
    eval f1 ge l (set_cur st eff0) = Ret (Vint x) sl /\
    eval f2 ge r (set_cur (set_cur sl (eff_union (cur st) (cur sl))) eff0) = Ret (Vint y) sr /\
    binop_ans o x y = inr z /\ v = Vint z /\ same_store sr s.
Proof.
  intros Ho. destruct f as [|f0]; [discriminate|]. cbn [eval].
  assert (E : eval_body (eval f0 ge) (evals f0 ge) (exec f0 ge) ge (EBin o l r) st =
              bind (operands (evals f0 ge) [l; r] st) (fun vs s1 =>
                match vs with
                | [a; b] => int_of a (fun x => int_of b (fun y =>
                              match binop_ans o x y with inr z => Ret (Vint z) s1 | inl u => Fail u end))
                | _ => Fail (Unsupported "internal: operands")
                end)) by (destruct Ho as [-> | ->]; reflexivity).
  rewrite E. clear E. intros H.
  apply bind_ret in H. destruct H as (vs & s1 & H1 & H).
  unfold operands in H1. apply bind_ret in H1. destruct H1 as (L & s2 & H2 & H1).
  destruct (conflicts (map snd L)); [discriminate|]. inversion H1; subst vs s1; clear H1.
  destruct (evals_two f0 ge l r st L s2 H2) as (f1 & f2 & vl & sl & vr & sr & Hl & Hr & HL & Hss).
  rewrite HL in H.
  destruct vl as [|x|?|?]; try discriminate. destruct vr as [|y|?|?]; try discriminate.
  cbn [int_of] in H. destruct (binop_ans o x y) as [u|z] eqn:Eb; [discriminate|].
  inversion H; subst v s; clear H.
  exists f1, f2, x, y, sl, sr, z. repeat split; try assumption; apply Hss.
Qed.

(* ---------------------------------------------------------------- correctness of the fragment *)
Section Correct.
  Variable addr : string -> option Z.
  Variable ge : genv.
  Variable m : WMap.t.

  (* the source state and the machine memory agree on the global variables; no local or val hides them *)
  Definition env_ok (st : state) : Prop :=
    forall x a, addr x = Some a ->
      assoc x (f_vars (top st)) = None /\ assoc x (f_vals (top st)) = None /\ assoc x (g_vals ge) = None /\
      in_mem a = true /\
      exists v, assoc x (gvars st) = Some v /\ (v = Vundef \/ exists n, v = Vint n /\ rd m a = n mod W).

  Lemma env_ok_same st st' : same_store st st' -> env_ok st -> env_ok st'.
  Proof.
    intros [Hg Hs] H x a Hx. destruct (H x a Hx) as (H1 & H2 & H3 & H4 & H5).
    unfold top in *. rewrite Hg, Hs. auto.
  Qed.

  Lemma const_eval : forall e c, const_of e = Some c ->
    forall f st v s, eval f ge e st = Ret v s -> v = Vint c /\ same_store st s.
  Proof.
    induction e as [n|b|bs|x|a i|g args|n args|u e IHe|o l IHl r IHr]; intros c Hc f st v s He; cbn [const_of] in Hc; try discriminate.
    - inversion Hc; subst c. destruct f as [|f0]; [discriminate|]. cbn [eval eval_body] in He. inversion He; subst.
      split; [reflexivity | apply same_store_refl].
    - destruct o; try discriminate.
      + destruct (const_of l) as [a|] eqn:El; [|discriminate]. destruct (const_of r) as [b|] eqn:Er; [|discriminate].
        inversion Hc; subst c.
        destruct (eval_arith f ge Plus l r st v s (or_introl eq_refl) He) as (f1 & f2 & x & y & sl & sr & z & H1 & H2 & Hb & -> & Hss).
        destruct (IHl a eq_refl _ _ _ _ H1) as [Hx S1]. destruct (IHr b eq_refl _ _ _ _ H2) as [Hy S2].
        inversion Hx; inversion Hy; subst x y.
        cbn [binop_ans] in Hb. destruct (in_int (a + b)); [|discriminate]. inversion Hb; subst z.
        split; [reflexivity|].
        eapply same_store_trans; [apply (same_store_set_cur st eff0)|].
        eapply same_store_trans; [exact S1|].
        eapply same_store_trans; [apply (same_store_set_cur sl (eff_union (cur st) (cur sl)))|].
        eapply same_store_trans; [apply (same_store_set_cur _ eff0)|].
        eapply same_store_trans; [exact S2 | exact Hss].
      + destruct (const_of l) as [a|] eqn:El; [|discriminate]. destruct (const_of r) as [b|] eqn:Er; [|discriminate].
        inversion Hc; subst c.
        destruct (eval_arith f ge Minus l r st v s (or_intror eq_refl) He) as (f1 & f2 & x & y & sl & sr & z & H1 & H2 & Hb & -> & Hss).
        destruct (IHl a eq_refl _ _ _ _ H1) as [Hx S1]. destruct (IHr b eq_refl _ _ _ _ H2) as [Hy S2].
        inversion Hx; inversion Hy; subst x y.
        cbn [binop_ans] in Hb. destruct (in_int (a - b)); [|discriminate]. inversion Hb; subst z.
        split; [reflexivity|].
        eapply same_store_trans; [apply (same_store_set_cur st eff0)|].
        eapply same_store_trans; [exact S1|].
        eapply same_store_trans; [apply (same_store_set_cur sl (eff_union (cur st) (cur sl)))|].
        eapply same_store_trans; [apply (same_store_set_cur _ eff0)|].
        eapply same_store_trans; [exact S2 | exact Hss].
  Qed.

  Lemma var_eval x a f st v s : addr x = Some a -> env_ok st -> eval f ge (EVar x) st = Ret v s ->
    exists n, v = Vint n /\ rd m a = n mod W /\ in_mem a = true /\ same_store st s.
  Proof.
    intros Hx Henv He. destruct f as [|f0]; [discriminate|]. cbn [eval eval_body] in He. unfold read_var in He.
    destruct (Henv x a Hx) as (H1 & H2 & H3 & H4 & (w & H5 & H6)).
    rewrite H1, H2, H3, H5 in He.
    destruct H6 as [->|(n & -> & Hn)]; [discriminate|].
    inversion He; subst v s. exists n. repeat split; try assumption.
  Qed.

  (* what the code must leave in the requested register *)
  Definition lands (r : reg) (code : list instr) (n : Z) : Prop :=
    forall pos nxt a b inp, code_at m pos code nxt -> nxt < W ->
      match r with
      | RA => exists b', taus inp (mk pos a b 0 m) (mk nxt (n mod W) b' 0 m)
      | RB => taus inp (mk pos a b 0 m) (mk nxt a (n mod W) 0 m)
      end.

  Lemma lands_ldc r c : lands r [ldc r c] c.
  Proof.
    intros pos nxt a b inp Hc Hn. cbn [code_at] in Hc. destruct Hc as (mid & Hi & <-).
    destruct r; cbn [ldc] in *.
    - exists b. exact (exec_instr m pos mid (LDAC c) a b inp Hi I Hn).
    - exact (exec_instr m pos mid (LDBC c) a b inp Hi I Hn).
  Qed.

  Lemma lands_ldm r a n : in_mem a = true -> rd m a = n mod W -> lands r [ldm r a] n.
  Proof.
    intros Hin Hrd pos nxt a0 b inp Hc Hn. cbn [code_at] in Hc. destruct Hc as (mid & Hi & <-).
    destruct r; cbn [ldm] in *.
    - exists b. rewrite <- Hrd. exact (exec_instr m pos mid (LDAM a) a0 b inp Hi Hin Hn).
    - rewrite <- Hrd. exact (exec_instr m pos mid (LDBM a) a0 b inp Hi Hin Hn).
  Qed.

  Lemma wrap_add x y : wrap (x mod W + y mod W) = (x + y) mod W.
  Proof. unfold wrap. rewrite <- Zplus_mod. reflexivity. Qed.
  Lemma wrap_sub x y : wrap (x mod W - y mod W) = (x - y) mod W.
  Proof. unfold wrap. rewrite <- Zminus_mod. reflexivity. Qed.

  Theorem cg_correct : forall e r code, cg addr e r = Some code ->
    forall f st v s, eval f ge e st = Ret v s -> env_ok st ->
    same_store st s /\ exists n, v = Vint n /\ lands r code n.
  Proof.
    induction e as [n|b|bs|x|a i|g args|n args|u e IHe|o l IHl rr IHr]; intros r code Hcg f st v s He Henv;
      cbn [cg] in Hcg.
    - (* number *)
      cbn [const_of] in Hcg. destruct (small (signed32 n)); [|discriminate]. inversion Hcg; subst code.
      destruct (const_eval (ENum n) (signed32 n) eq_refl f st v s He) as [-> Hss].
      split; [exact Hss|]. exists (signed32 n). split; [reflexivity | apply lands_ldc].
    - cbn [const_of] in Hcg. discriminate.
    - cbn [const_of] in Hcg. discriminate.
    - (* global variable *)
      cbn [const_of] in Hcg. destruct (addr x) as [a|] eqn:Hx; [|discriminate]. inversion Hcg; subst code.
      destruct (var_eval x a f st v s Hx Henv He) as (n & -> & Hrd & Hin & Hss).
      split; [exact Hss|]. exists n. split; [reflexivity | apply lands_ldm; assumption].
    - cbn [const_of] in Hcg. discriminate.
    - cbn [const_of] in Hcg. discriminate.
    - cbn [const_of] in Hcg. discriminate.
    - cbn [const_of] in Hcg. discriminate.
    - (* binary operator *)
      destruct (const_of (EBin o l rr)) as [c|] eqn:Ec.
      + (* folded by the compiler *)
        destruct (small c); [|discriminate]. inversion Hcg; subst code.
        destruct (const_eval (EBin o l rr) c Ec f st v s He) as [-> Hss].
        split; [exact Hss|]. exists c. split; [reflexivity | apply lands_ldc].
      + assert (Ho : (o = Plus \/ o = Minus) /\ r = RA).
        { destruct o; try discriminate; destruct r; try discriminate; auto. }
        destruct Ho as [Ho ->].
        assert (Hcg' : (if simple_right rr then
                          match cg addr l RA, cg addr rr RB with
                          | Some cl, Some cr => Some (cl ++ cr ++ [match o with Plus => ADD | _ => SUB end])
                          | _, _ => None
                          end
                        else None) = Some code) by (destruct Ho as [-> | ->]; exact Hcg).
        clear Hcg. destruct (simple_right rr); [|discriminate].
        destruct (cg addr l RA) as [cl|] eqn:Ecl; [|discriminate].
        destruct (cg addr rr RB) as [cr|] eqn:Ecr; [|discriminate].
        inversion Hcg'; subst code; clear Hcg'.
        destruct (eval_arith f ge o l rr st v s Ho He) as (f1 & f2 & x & y & sl & sr & z & H1 & H2 & Hb & -> & Hss).
        assert (E0 : env_ok (set_cur st eff0)) by (eapply env_ok_same; [apply same_store_set_cur | exact Henv]).
        destruct (IHl RA cl Ecl f1 _ _ _ H1 E0) as [S1 (x' & Hx' & Ll)]. inversion Hx'; subst x'.
        assert (E1 : env_ok (set_cur (set_cur sl (eff_union (cur st) (cur sl))) eff0)).
        { eapply env_ok_same; [|exact E0].
          eapply same_store_trans; [exact S1|].
          eapply same_store_trans; [apply (same_store_set_cur sl (eff_union (cur st) (cur sl)))|].
          apply same_store_set_cur. }
        destruct (IHr RB cr Ecr f2 _ _ _ H2 E1) as [S2 (y' & Hy' & Lr)]. inversion Hy'; subst y'.
        split.
        * eapply same_store_trans; [apply (same_store_set_cur st eff0)|].
          eapply same_store_trans; [exact S1|].
          eapply same_store_trans; [apply (same_store_set_cur sl (eff_union (cur st) (cur sl)))|].
          eapply same_store_trans; [apply (same_store_set_cur _ eff0)|].
          eapply same_store_trans; [exact S2 | exact Hss].
        * exists z. split; [reflexivity|].
          intros pos nxt a0 b0 inp Hc Hn.
          destruct (code_at_app m cl _ pos nxt Hc) as (mid1 & Hc1 & Hc23).
          destruct (code_at_app m cr _ mid1 nxt Hc23) as (mid2 & Hc2 & Hc3).
          cbn [code_at] in Hc3. destruct Hc3 as (mid3 & Hi & <-).
          pose proof (code_at_le m _ _ _ Hc2) as Hle2.
          assert (Hm2 : mid2 < W) by (destruct Hi as [[_ Hlt] _]; lia).
          assert (Hm1 : mid1 < W) by lia.
          destruct (Ll pos mid1 a0 b0 inp Hc1 Hm1) as (b1 & T1).
          pose proof (Lr mid1 mid2 (x mod W) b1 inp Hc2 Hm2) as T2.
          exists (y mod W).
          eapply taus_trans; [exact T1|]. eapply taus_trans; [exact T2|].
          destruct Ho as [-> | ->]; cbn [binop_ans] in Hb.
          -- destruct (in_int (x + y)); [|discriminate]. inversion Hb; subst z.
             pose proof (exec_instr m mid2 mid3 ADD (x mod W) (y mod W) inp Hi I Hn) as T3.
             cbn [sem fst snd] in T3. rewrite wrap_add in T3. exact T3.
          -- destruct (in_int (x - y)); [|discriminate]. inversion Hb; subst z.
             pose proof (exec_instr m mid2 mid3 SUB (x mod W) (y mod W) inp Hi I Hn) as T3.
             cbn [sem fst snd] in T3. rewrite wrap_sub in T3. exact T3.
  Qed.

  (* the statement used in Properties_C01: areg holds the spec's value when the code has been run on the ISA *)
  Corollary expr_fragment : forall e code, cg addr e RA = Some code ->
    forall f st n s, eval f ge e st = Ret (Vint n) s -> env_ok st ->
    forall pos nxt a b inp, code_at m pos code nxt -> nxt < W ->
    exists k s', (forall evs, Isa.run k (mk pos a b 0 m) inp evs = (rev evs, inp, s', Cut)) /\
                 pc s' = nxt /\ areg s' = n mod W /\ oreg s' = 0 /\ mem s' = m.
  Proof.
    intros e code Hcg f st n s He Henv pos nxt a b inp Hc Hn.
    destruct (cg_correct e RA code Hcg f st (Vint n) s He Henv) as [_ (n' & Hn' & L)]. inversion Hn'; subst n'.
    destruct (L pos nxt a b inp Hc Hn) as (b' & T). destruct (taus_run inp _ _ T) as (k & Hk).
    exists k, (mk nxt (n mod W) b' 0 m). repeat split. exact Hk.
  Qed.
End Correct.
